/-
C03 — sampler conformance: the released value is the input plus noise that does not depend on the input, the noise
is exactly proportional to the calibrated scale, and the unit noise has the reference law; truncation and folding act
after the noise and depend only on the bounds.

All statements are about the executable model `DPL/Model/Samplers.lean` (the same definitions the driver runs on
doubles against the real `randomise`), instantiated at ℝ.  Randomness is explicit: a sampler is a function of its
uniform / normal / gamma / geometric draws.  In §3 "law" means Lebesgue measure of a preimage in [0,1); in §8 it means
the PUSH-FORWARD MEASURE of the product of the laws of the draws (`unif01 = volume.restrict [0,1)` for `random()`,
Mathlib's `gaussianReal 0 1` for `normalvariate(0,1)`) under the model's sampler function.

PROVED in §8 (these were statistical validations only before):
  * `(N₁+N₂)/√2` is standard normal, and `Gaussian.randomise` has the law `N(value, scale²)` (`gauss_unit_law`,
    `gauss_mech_law`) — the law C02's `gauss_classical_dp` is about;
  * Holohan–Braghin: `log(1-u₁)cos(πu₂)+log(1-u₃)cos(πu₄)` is standard Laplace (`laplace4_law`), via the
    characteristic functions `1/√(1+t²)` of one term (`laplace4_term_charFun`) and `e^{itx}/(1+b²t²)` of the Laplace law
    (`laplace_charFun`); hence `Laplace.randomise` has C02's `lapMeasure scale value` (`laplace_mech_law`), the
    truncated / folded mechanisms its push-forwards (`laplace_truncated_folded_law`), and THE SAMPLER ITSELF is
    (ε, δ)-DP (`laplace_sampler_dp`, `laplace_truncated_folded_sampler_dp`: C02's inequality, now about the four uniforms);
  * `−log(1−U) ~ Exp(1)` as a push-forward (`exp_of_uniform_map`);
  * four `Gamma(d/4)` draws times `scale` sum to `Gamma(d, rate 1/scale)` (`gamma_sum_law`, via the mgf
    `(r/(r−t))^a` on `t < r`, `gamma_mgf_law`, and uniqueness of a finite measure from its mgf on a half-line);
  * acceptance–rejection over an i.i.d. stream (product measure on `ℕ → Ω`): the first accepted draw has the law of one
    draw conditioned on acceptance (`rejection_conditional_law`); instances: the conditioned Laplace law of
    `LaplaceBoundedDomain` (`boundedDomain_law`) and the discrete Gaussian pmf of the Canonne–Kamath–Steinke loop given
    the one-pass law `cksPassProb` (`discrete_gauss_loop_law`).

PROVED in §9–§11 over the i.i.d. UNIFORM stream `streamμ = Measure.infinitePi (fun _ => unif01)` (C01's stream machinery:
a sampler reads a finite prefix of the stream and leaves the rest; `SmpS.HasLaw` = its result is independent of whatever
reads the rest, proved from the product measure):
  * §9 GaussianDiscrete: the geometric proposal (`cks_geometric_law`), one pass = `cksPassProb` (`cks_pass_law`: geometric
    loop of `bernoulli_neg_exp` calls, fair sign, `bernoulli_neg_exp(γ)` acceptance with its recursion for γ > 1), the
    renewal step (`cks_renewal`), hence the loop with unbounded inner loops returns `y` with the discrete Gaussian
    probability (`cks_unbounded_loop_law`); the executable model with its fuel is a restriction of that loop
    (`cks_model_refines`) and therefore has the discrete Gaussian law up to its fuel-exhaustion event
    (`cks_loop_law_full` — formerly a `def … : Prop`); conversely every run of the unbounded loop is a run of the model
    with its three inner fuels as parameters (`SmpS.cksLoopG`, the model being the instance 64/4096/4096,
    `cks_model_is_instance`) for all large enough fuels (`cks_unbounded_refines_model`), so with growing fuels the law is
    exactly the discrete Gaussian and the fuel-exhaustion event has probability 0 (`cks_growing_fuel_law`); the discrete
    Gaussian weights sum to 1 (`discrete_gauss_pmf`);
  * §10 rejection samplers: the batch layout is an injective reindexing (`batch_layout_injective`), the candidate stream is
    i.i.d. standard Laplace (`batch_layout_iid`), the model's `candidates` are a prefix of it (`batch_layout_candidates`),
    hence `LaplaceBoundedDomain` / `LaplaceBoundedNoise` on the uniform stream, in the code's consumption order, have the
    conditioned Laplace law (`boundedDomain_stream_law`, `boundedNoise_stream_law`, `boundedNoise_release_law`), and THE
    SAMPLERS THEMSELVES are (ε, δ)-DP: C02's inequalities about the conditioned laws, now about the uniform stream
    (`boundedDomain_sampler_dp` for every scale on the private side of the fixed point, `boundedNoise_sampler_dp`);
  * §11 Snapping: `(−1)^bit·log U` is standard Laplace (`snapping_sign_log_law`), the rounding step is round-half-up to
    the grid with cells `[(k−½)Λ, (k+½)Λ)` (`snapping_round_half_up`), the released value has the law of `snapPost` of a
    Laplace variable (`snapping_release_law`), the grid point `Λk` has the Laplace probability of its cell
    (`snapping_grid_pmf`), and in exact arithmetic the clamp / round / rescale pipeline keeps the Laplace guarantee:
    pure ε_eff-DP with ε_eff ≤ ε (`snapping_release_dp`; not Mironov's floating-point theorem).

PROVED in §12 (was listed as not proved): an EXPLICIT bound on the probability of the model's fuel-exhaustion event `abort`
of `cks_loop_law_full` for the model's FIXED inner fuels 64 / 4096 / 4096: the coin loop with fuel `F` fails to return with
probability `γ^F/F!` (γ ≤ 1) resp. at most `e^{e−F}` (every γ ≥ 0, `cks_coin_fuel_bound`), the geometric count with cap 4096
with probability at most `4096·τ^64/64! + e^{−4096τ}` (`cks_geometric_cap_bound`), a pass with at most the sum, and by the
renewal fixed point `P[abort] ≤ cksAbortBound τ σ² = (4096·τ^64/64! + e^{−4096τ} + e^{e−4096}) / ((1−e^{−τ})·½·e^{−τ²σ²/2})`
(`cks_abort_bound`), hence `dG(y) − B ≤ P[model returns y] ≤ dG(y)` (`cks_loop_law_quantitative`).  The bound is not small
for large scales (`e^{−4096τ}`, `τ = 1/(1+⌊scale⌋)`: the cap on the geometric count IS reached with that probability);
for scale 1 it is below `10^{-6}` (example).

PROVED in §13 (was listed as not proved): the law of the model's `snapUniform` over FAIR BITS (52 mantissa bits and `W` 32-bit
words, uniform counting measure on the bit strings) is the push-forward of the continuous uniform on [0,1) under round-down
to the floating-point grid (53-bit significand): every double `v` is returned with probability `unif01 {U | 2^(−32W) ≤ U ∧
flDown U = v}` (`snap_uniform_law`), and the finite cap on the exponent — all `32W` word bits zero, the model returns
`none` — has probability `2^(−32W) = unif01 {U | U < 2^(−32W)}`; closed form of the model on a bit string
(`snap_uniform_closed_form`), `flDown` is the round-down to the grid (`snap_round_down_grid`).

NOT proved here (validated statistically by the harness, listed as `UNPROVED` in the evidence): that a normalised
Gaussian vector is uniform on the sphere; the floating-point evaluation of `log` in Snapping (§11 takes `log` of a `unif01` draw; §13 shows the model's
`snapUniform` is the round-down of such a draw, the composition of the two is not analysed); and Bingham's rejection
sampler (open finding, §7).
-/
import DPL.Proofs.SamplersLaws
import DPL.Proofs.SamplersBern
import DPL.Proofs.SamplersGaussLaw
import DPL.Proofs.SamplersLap4Law
import DPL.Proofs.SamplersRejection
import DPL.Proofs.SamplersGammaSum
import DPL.Proofs.SamplersStreamCKSFinal
import DPL.Proofs.SamplersStreamCKSFuel
import DPL.Proofs.SamplersStreamBatchLaw
import DPL.Proofs.SamplersSnapRound
import DPL.Proofs.ContinuousBoundedDomainDP
import DPL.Proofs.SamplersStreamBatchDP
import DPL.Proofs.SamplersStreamCKSAbort
import DPL.Proofs.SamplersSnapUniformLaw
import Mathlib.Analysis.Complex.ExponentialBounds

namespace DPL.C03
open DPL DPL.Smp MeasureTheory Set

/-! ### 1. additivity, independence of the input, linearity in the scale -/

/-- "additive mechanism": for every input `x` and every outcome `s` of the random draws,
`randomise x s = x + scale · unit s`, with `unit` a function of the draws alone. -/
def Additive {σ : Type} (rand : ℝ → σ → ℝ) (scale : ℝ) (unit : σ → ℝ) : Prop :=
  ∀ x s, rand x s = x + scale * unit s

/-- the noise `randomise x s − x` is the same for every input and equals `scale · unit s` -/
theorem additive_noise_indep {σ : Type} {rand : ℝ → σ → ℝ} {scale : ℝ} {unit : σ → ℝ}
    (h : Additive rand scale unit) (x y : ℝ) (s : σ) :
    rand x s - x = rand y s - y ∧ rand x s - x = scale * unit s := by
  rw [h x s, h y s]; constructor <;> ring

/-- `Laplace.randomise`: scale `sens/(ε − log(1−δ))`, unit noise `−lap4(u₁..u₄)` (exactly four uniforms) -/
theorem laplace_additive (eps delta sens : ℝ) :
    Additive (fun x (u : ℝ × ℝ × ℝ × ℝ) => laplace eps delta sens x u.1 u.2.1 u.2.2.1 u.2.2.2)
      (laplaceScale eps delta sens) (fun u => -lap4 u.1 u.2.1 u.2.2.1 u.2.2.2) := by
  intro x u; simp only [laplace]; ring

/-- the Laplace scale is `sensitivity / epsilon_eff` with `epsilon_eff = ε − log(1−δ)`: linear in the sensitivity,
inversely proportional to the effective epsilon -/
theorem laplaceScale_linear (eps delta sens k : ℝ) :
    laplaceScale eps delta (k * sens) = k * laplaceScale eps delta sens ∧
    laplaceScale eps delta sens = sens / (eps - Real.log (1 - delta)) := by
  simp only [laplaceScale, transc_log]
  exact ⟨by ring, trivial⟩

/-- `Gaussian.randomise` / `GaussianAnalytic.randomise`: unit noise `(n₁+n₂)/√2` -/
theorem gauss_additive (scale : ℝ) :
    Additive (fun x (n : ℝ × ℝ) => gauss scale x n.1 n.2) scale (fun n => gaussUnit n.1 n.2) := by
  intro x n; simp only [gauss]; ring

/-- the classical Gaussian scale is linear in `sensitivity/epsilon` -/
theorem gaussScale_linear (eps delta sens : ℝ) :
    gaussScale eps delta sens = Real.sqrt (2 * Real.log (5 / 4 / delta)) * (sens / eps) := by
  simp only [gaussScale, transc_log, transc_sqrt]; ring

/-- `Uniform.randomise`: scale `sens/δ/2`, unit noise `2u − 1` -/
theorem uniform_additive (delta sens : ℝ) :
    Additive (fun x (u : ℝ) => uniform delta sens x u) (sens / delta / 2) (fun u => 2 * u - 1) := by
  intro x u; simp only [uniform, uniformNoise]; ring

/-- `Staircase.randomise`: scale = sensitivity, unit noise = the staircase draw at sensitivity 1
(it depends on ε and γ, not on the input and not on the sensitivity) -/
theorem staircase_additive (eps gamma sens : ℝ) :
    Additive (fun x (s : ℝ × ℕ × ℝ × ℝ) => staircase eps gamma sens x s.1 s.2.1 s.2.2.1 s.2.2.2) sens
      (fun s => stairNoise eps gamma 1 s.1 s.2.1 s.2.2.1 s.2.2.2) := by
  intro x s
  simp only [staircase, stairNoise]
  split_ifs <;> ring

/-- `LaplaceBoundedNoise.randomise`: the accepted noise is computed from the stream and the parameters only, then
added to the value -/
theorem boundedNoise_additive (eps delta sens x : ℝ) (us : List ℝ) (fuel : Nat) :
    boundedNoise eps delta sens x us fuel
      = (boundedNoiseNoise eps delta sens us fuel).map (fun p => (x + p.1, p.2)) := rfl

/-- `GaussianDiscrete.randomise`: integer noise from the stream and the scale only, added to the value -/
theorem discreteGauss_additive (scale : ℝ) (x : Int) (us : List ℝ) (fuel : Nat) :
    discreteGauss scale x us fuel = (discreteGaussNoise scale us fuel).map (fun p => (x + p.1, p.2)) := rfl

/-! Vector: the noise vector has the direction of the normal draws and exactly the norm `scale · Σ gammas`. -/

/-- the noise vector is the direction vector rescaled by `noisy_norm / ‖direction‖` -/
theorem vecNoise_direction (scale : ℝ) (normals gs : List ℝ) :
    vecNoise scale normals gs
      = (vecDir normals).map (fun x => x * (vecNorm scale gs / norm2 (vecDir normals))) := by
  unfold vecNoise
  apply List.map_congr_left
  intro x _; ring

/-- ‖noise‖ = `noisy_norm` = `scale · Σ unit gammas`: the norm is exactly proportional to the calibrated scale and
independent of the direction draws -/
theorem vecNoise_norm (scale : ℝ) (hs : 0 < scale) (normals gs : List ℝ)
    (hdir : norm2 (vecDir normals) ≠ 0) (hg : 0 ≤ gs.sum) :
    norm2 (vecNoise scale normals gs) = scale * gs.sum := by
  rw [vecNoise_direction, vecNorm_linear scale hs]
  set n := norm2 (vecDir normals) with hn
  have hn0 : 0 ≤ n := by rw [hn]; unfold norm2; simp only [transc_sqrt]; exact Real.sqrt_nonneg _
  have hnpos : 0 < n := lt_of_le_of_ne hn0 (Ne.symm hdir)
  unfold norm2 at hn ⊢
  simp only [transc_sqrt] at hn ⊢
  rw [sumSq_scale, Real.sqrt_mul' _ (sq_nonneg _), ← hn, Real.sqrt_sq (by positivity)]
  field_simp

/-! ### 2. rejection samplers return the first in-range draw of the stream -/

/-- the loop's result is `List.find?` over the stream of candidates it examines (batch 1, batch 2, batch 4, …,
each batch in index order): it is accepted, and every candidate before it was rejected.  Hence, for an i.i.d.
stream, the returned value has the law of one candidate conditioned on acceptance. -/
theorem rejection_first_accepted (cand : ℝ → ℝ) (acc : ℝ → Bool) (fuel s : Nat) (us : List ℝ) (used : Nat)
    (v : ℝ) (n : Nat) (h : rejLoop cand acc fuel s us used = some (v, n)) :
    acc v = true ∧
    (candidates cand fuel s us).find? acc = some v ∧
    ∃ before after, candidates cand fuel s us = before ++ v :: after ∧ ∀ a ∈ before, acc a = false := by
  refine ⟨rejLoop_accepted cand acc fuel s us used v n h, ?_, rejLoop_first cand acc fuel s us used v n h⟩
  have := rejLoop_eq_find cand acc fuel s us used
  rw [h] at this; exact this.symm

/-- `LaplaceBoundedDomain`: the output lies in `[lower, upper]`, it is `clamp(x) + scale · L` for a standard-Laplace
draw `L` of the stream, and every earlier draw of the stream fell outside the domain -/
theorem boundedDomain_conditional (scale lo hi x : ℝ) (hne : lo ≠ hi) (us : List ℝ) (fuel : Nat) (v : ℝ) (n : Nat)
    (h : boundedDomain scale lo hi x us fuel = some (v, n)) :
    lo ≤ v ∧ v ≤ hi ∧
    ∃ before L after, candidates (fun l => l) fuel 1 us = before ++ L :: after ∧
      v = clampPy lo hi x + scale * L ∧
      ∀ l ∈ before, ¬ (lo ≤ clampPy lo hi x + scale * l ∧ clampPy lo hi x + scale * l ≤ hi) := by
  unfold boundedDomain at h
  have hfe : Smp.feq lo hi = false := by
    simp only [Smp.feq, Bool.and_eq_false_iff, decide_eq_false_iff_not, not_le]
    rcases lt_or_gt_of_ne hne with h1 | h1
    · right; exact h1
    · left; exact h1
  simp only [hfe, Bool.false_eq_true, ↓reduceIte] at h
  obtain ⟨hacc, _, before, after, hc, hb⟩ := rejection_first_accepted _ _ _ _ _ _ _ _ h
  simp only [inRange, Bool.and_eq_true, decide_eq_true_eq] at hacc
  refine ⟨hacc.1, hacc.2, ?_⟩
  rw [candidates_map] at hc
  obtain ⟨l1, r1, h1, h2, h3⟩ := List.map_eq_append_iff.mp hc
  obtain ⟨L, after', h4, h5, h6⟩ := List.map_eq_cons_iff.mp h3
  refine ⟨l1, L, after', by rw [h1, h4], h5.symm, ?_⟩
  intro l hl
  have := hb (clampPy lo hi x + scale * l) (by rw [← h2]; exact List.mem_map.mpr ⟨l, hl, rfl⟩)
  simpa [inRange] using this

/-- `LaplaceBoundedNoise`: the accepted noise lies within `± noise_bound` -/
theorem boundedNoise_in_bound (eps delta sens : ℝ) (us : List ℝ) (fuel : Nat) (v : ℝ) (n : Nat)
    (h : boundedNoiseNoise eps delta sens us fuel = some (v, n)) :
    -noiseBound eps delta sens ≤ v ∧ v ≤ noiseBound eps delta sens := by
  unfold boundedNoiseNoise at h
  have := (rejection_first_accepted _ _ _ _ _ _ _ _ h).1
  simpa [inRange] using this

/-- non-vacuity: a stream whose first draw is accepted (u₁ = u₃ = 0 gives a standard-Laplace draw of 0) -/
example : boundedDomain (1 : ℝ) 0 1 (1 / 2) [0, 0, 0, 0] = some (1 / 2, 4) := by
  norm_num [boundedDomain, Smp.feq, clampPy, rejLoop, firstAccepted, batchLap, zipWith4, lap4, inRange]

/-! ### 3. laws of the single-uniform building blocks (Lebesgue measure of preimages in [0,1)) -/

/-- a comparison `u < p` is a Bernoulli(p) branch (sign of Staircase and GaussianDiscrete with p = ½, Staircase's
binary choice with p = γ/(γ+(1−γ)e^{−ε})) -/
theorem threshold_law (p : ℝ) (hp1 : p ≤ 1) :
    volume {u : ℝ | u ∈ Ico (0 : ℝ) 1 ∧ u < p} = ENNReal.ofReal p := by
  rw [lt_threshold_preimage p hp1, Real.volume_Ico, sub_zero]

/-- a comparison `u ≤ p` (the loop of `bernoulli_neg_exp`) is a Bernoulli(p) branch as well -/
theorem threshold_le_law (p : ℝ) (hp1 : p < 1) :
    volume {u : ℝ | u ∈ Ico (0 : ℝ) 1 ∧ u ≤ p} = ENNReal.ofReal p := by
  rw [le_threshold_preimage p hp1, Real.volume_Icc, sub_zero]

/-- `Uniform`: the noise `(2u−1)·c`, `c = sens/δ/2 > 0`, has the CDF of the uniform law on `[−c, c]` -/
theorem uniform_law (delta sens t : ℝ) (hd : 0 < delta) (hs : 0 < sens)
    (ht1 : -(sens / delta / 2) ≤ t) (ht2 : t < sens / delta / 2) :
    volume {u : ℝ | u ∈ Ico (0 : ℝ) 1 ∧ uniformNoise delta sens u ≤ t}
      = ENNReal.ofReal ((t + sens / delta / 2) / (2 * (sens / delta / 2))) := by
  set c := sens / delta / 2 with hc
  have hcpos : 0 < c := by rw [hc]; positivity
  have : {u : ℝ | u ∈ Ico (0 : ℝ) 1 ∧ uniformNoise delta sens u ≤ t}
      = {u : ℝ | u ∈ Ico (0 : ℝ) 1 ∧ u ≤ (t + c) / (2 * c)} := by
    ext u
    simp only [mem_ofPred_eq, uniformNoise, ← hc]
    refine and_congr_right (fun _ => ?_)
    rw [le_div_iff₀ (by positivity)]
    constructor <;> intro h <;> nlinarith
  rw [this, threshold_le_law]
  rw [div_lt_one (by positivity)]; linarith

/-- `−log(1−u)` is Exp(1): its CDF is `1 − e^{−t}` (the magnitude factor of the 4-uniform Laplace sampler and of
Snapping's `log(U)`) -/
theorem exp_of_uniform_law (t : ℝ) :
    volume {u : ℝ | u ∈ Ico (0 : ℝ) 1 ∧ -Real.log (1 - u) ≤ t} = ENNReal.ofReal (1 - Real.exp (-t)) := by
  rw [neglog_preimage, Real.volume_Icc, sub_zero]

/-! ### 4. discrete Gaussian: discrete-Laplace proposal × acceptance ∝ discrete Gaussian -/

/-- the code's acceptance exponent `γ(y) = (|y| − τσ²)²/2/σ²` satisfies
`−τ|y| − γ(y) = −y²/(2σ²) − τ²σ²/2`: the `y`-dependence is exactly the discrete Gaussian's -/
theorem discrete_gauss_accept (tau sigma2 : ℝ) (hs : sigma2 ≠ 0) (k : Nat) :
    -(tau * (k : ℝ)) - cksGamma tau sigma2 k = -((k : ℝ) ^ 2 / (2 * sigma2)) - tau ^ 2 * sigma2 / 2 :=
  cks_exponent tau sigma2 hs k

/-- probability that one pass of the outer loop proposes `y` (|y| = k) and accepts it, every `bernoulli_neg_exp(g)`
being a Bernoulli(e^{−g}) branch and `u < ½` a fair coin:
`P(geom = k) = e^{−τk}(1 − e^{−τ})`, sign ½ (for k = 0 only the `+` branch survives, also ½), accept `e^{−γ(k)}` -/
noncomputable def cksPassProb (tau sigma2 : ℝ) (k : Nat) : ℝ :=
  Real.exp (-(tau * k)) * (1 - Real.exp (-tau)) * (1 / 2) * Real.exp (-cksGamma tau sigma2 k)

/-- … which is a constant (independent of `y`) times `e^{−y²/(2σ²)}`: conditioned on acceptance, the output is the
discrete Gaussian with variance parameter σ² -/
theorem discrete_gauss_law (tau sigma2 : ℝ) (hs : sigma2 ≠ 0) (k : Nat) :
    cksPassProb tau sigma2 k
      = ((1 - Real.exp (-tau)) * (1 / 2) * Real.exp (-(tau ^ 2 * sigma2 / 2))) * Real.exp (-((k : ℝ) ^ 2 / (2 * sigma2))) := by
  unfold cksPassProb
  have h := cks_exponent tau sigma2 hs k
  have : Real.exp (-(tau * k)) * Real.exp (-cksGamma tau sigma2 k)
      = Real.exp (-(tau ^ 2 * sigma2 / 2)) * Real.exp (-((k : ℝ) ^ 2 / (2 * sigma2))) := by
    rw [← Real.exp_add, ← Real.exp_add]; congr 1; linarith
  calc _ = (1 - Real.exp (-tau)) * (1 / 2) * (Real.exp (-(tau * k)) * Real.exp (-cksGamma tau sigma2 k)) := by ring
    _ = _ := by rw [this]; ring

/-- `bernoulli_neg_exp(γ)`, γ ≤ 1: (i) the loop stops with counter `n+1` exactly on the streams that start with `n`
successful comparisons followed by a failed one (`bernCount_stops`), (ii) with every comparison `u ≤ γ/j` a
Bernoulli(γ/j) branch (`threshold_le_law`) that event has probability `stopAt γ n = ∏_{j≤n} γ/j · (1 − γ/(n+1))`, and
(iii) the function returns `counter % 2 = 1` iff `n` is even, and those probabilities sum to `e^{−γ}` -/
theorem bernoulli_neg_exp_law (γ : ℝ) :
    (∀ (succ : List ℝ) (fuel : Nat) (f : ℝ) (rest : List ℝ), succ.length < fuel →
      (∀ i (h : i < succ.length), succ[i] ≤ γ / ((1 + i : Nat) : ℝ)) → ¬ f ≤ γ / ((1 + succ.length : Nat) : ℝ) →
      bernCount γ fuel 1 (succ ++ f :: rest) = some (1 + succ.length, rest)) ∧
    (∀ n : ℕ, stopAt γ n = (∏ j ∈ Finset.range n, γ / ((j : ℝ) + 1)) * (1 - γ / ((n : ℝ) + 1))) ∧
    HasSum (fun m : ℕ => stopAt γ (2 * m)) (Real.exp (-γ)) :=
  ⟨fun succ fuel f rest h1 h2 h3 => bernCount_stops γ succ 1 fuel f rest h1 h2 h3, stopAt_eq_prod γ, stopAt_even_hasSum γ⟩

/-- non-vacuity: a stream with one success and one failure at γ = 1/2 stops with counter 2 (returns 0) -/
example : bernCount (1 / 2 : ℝ) 10 1 [1 / 4, 1 / 2, 7] = some (2, [7]) := by
  norm_num [bernCount]

/-- non-vacuity of `uniform_law`'s hypotheses -/
example : -((1 : ℝ) / (1 / 2) / 2) ≤ 0 ∧ (0 : ℝ) < 1 / (1 / 2) / 2 := by norm_num

/-! ### 5. staircase: the sign/geometric/uniform/binary combination is the staircase mixture -/

/-- the staircase density of Geng–Viswanath at distance `r ≥ 0` from the input, step `k = ⌊r/Δ⌋` -/
noncomputable def stairDensity (eps gamma sens : ℝ) (k : Nat) (inner : Bool) : ℝ :=
  let a := (1 - Real.exp (-eps)) / (2 * sens * (gamma + Real.exp (-eps) * (1 - gamma)))
  if inner then a * Real.exp (-(k * eps)) else a * Real.exp (-((k + 1) * eps))

/-- which segment the magnitude of the noise falls in: with `b = 0` (u₃ below the threshold) it is
`[kΔ, (k+γ)Δ)`, with `b = 1` it is `[(k+γ)Δ, (k+1)Δ)`; within the segment it is affine in `u₂`; the sign is `u₁`'s -/
theorem staircase_segment (eps gamma sens u1 u2 u3 : ℝ) (k : Nat) (hs : 0 < sens) (hg0 : 0 ≤ gamma) (hg1 : gamma ≤ 1)
    (hu0 : 0 ≤ u2) (hu1 : u2 < 1) :
    let m := stairNoise eps gamma sens u1 k u2 u3 * (if u1 < 1 / 2 then -1 else 1)
    (u3 < stairBinP eps gamma → m = (k + gamma * u2) * sens ∧ k * sens ≤ m ∧ m ≤ (k + gamma) * sens) ∧
    (¬ u3 < stairBinP eps gamma → m = (k + gamma + (1 - gamma) * u2) * sens ∧ (k + gamma) * sens ≤ m ∧ m ≤ (k + 1) * sens) := by
  intro m
  have hk : (0 : ℝ) ≤ k := Nat.cast_nonneg k
  constructor
  · intro h
    have hm : m = (k + gamma * u2) * sens := by
      simp only [m, stairNoise, h, ↓reduceIte]; split_ifs <;> ring
    refine ⟨hm, ?_, ?_⟩ <;> rw [hm] <;> nlinarith [mul_nonneg hg0 hu0, mul_le_mul_of_nonneg_left hu1.le hg0]
  · intro h
    have hm : m = (k + gamma + (1 - gamma) * u2) * sens := by
      simp only [m, stairNoise, h, ↓reduceIte]; split_ifs <;> ring
    have h1 : 0 ≤ (1 - gamma) * u2 := mul_nonneg (by linarith) hu0
    have h2 : (1 - gamma) * u2 ≤ 1 - gamma := by nlinarith
    refine ⟨hm, ?_, ?_⟩ <;> rw [hm] <;> nlinarith

/-- mixture weight ÷ segment length = staircase density.  Weights: sign ½, geometric `P(G = k) = (1−e^{−ε})e^{−kε}`
(the law of `rng.geometric(1−e^{−ε}) − 1`), binary choice `P(b = 0) = stairBinP`; segment lengths `γΔ` and `(1−γ)Δ` -/
theorem staircase_mixture_density (eps gamma sens : ℝ) (k : Nat) (hs : 0 < sens) (hg0 : 0 < gamma) (hg1 : gamma < 1) :
    (1 / 2) * ((1 - Real.exp (-eps)) * Real.exp (-(k * eps))) * stairBinP eps gamma / (gamma * sens)
        = stairDensity eps gamma sens k true ∧
    (1 / 2) * ((1 - Real.exp (-eps)) * Real.exp (-(k * eps))) * (1 - stairBinP eps gamma) / ((1 - gamma) * sens)
        = stairDensity eps gamma sens k false := by
  have he : 0 < Real.exp (-eps) := Real.exp_pos _
  have hden : 0 < gamma + (1 - gamma) * Real.exp (-eps) := by
    have : 0 < (1 - gamma) * Real.exp (-eps) := mul_pos (by linarith) he
    linarith
  have h1g : (1 - gamma) ≠ 0 := by linarith
  rw [stairBinP_real]
  simp only [stairDensity, ↓reduceIte, Bool.false_eq_true]
  constructor
  · field_simp
  · have : Real.exp (-((k + 1 : ℝ) * eps)) = Real.exp (-(k * eps)) * Real.exp (-eps) := by
      rw [← Real.exp_add]; congr 1; ring
    have hb : 1 - gamma / (gamma + (1 - gamma) * Real.exp (-eps))
        = (1 - gamma) * Real.exp (-eps) / (gamma + (1 - gamma) * Real.exp (-eps)) := by
      field_simp; ring
    have hd2 : gamma + Real.exp (-eps) * (1 - gamma) = gamma + (1 - gamma) * Real.exp (-eps) := by ring
    rw [this, hb, hd2]
    field_simp

/-! ### 6. truncation and folding act after the noise and depend only on the bounds -/

/-- `LaplaceTruncated.randomise = _truncate ∘ Laplace.randomise`; `_truncate` sees only the bounds -/
theorem truncation_after_noise (eps delta sens lo hi x u1 u2 u3 u4 : ℝ) :
    laplaceTruncated eps delta sens lo hi x u1 u2 u3 u4 = truncate lo hi (laplace eps delta sens x u1 u2 u3 u4) := rfl

/-- `LaplaceFolded.randomise = _fold ∘ Laplace.randomise`; `_fold` sees only the bounds -/
theorem folding_after_noise (eps delta sens lo hi x u1 u2 u3 u4 : ℝ) :
    laplaceFolded eps delta sens lo hi x u1 u2 u3 u4 = fold lo hi (laplace eps delta sens x u1 u2 u3 u4) := rfl

/-- Snapping: clamp, add `scale·(±log U)`, then a map (`snapPost`: round to the grid, clamp, rescale) that depends
only on ε, the sensitivity and the bounds -/
theorem snapping_after_noise (eps sens lo hi x : ℝ) (bit bits52 : Nat) (words : List Nat) (hs : Smp.feq sens 0 = false) :
    snapping eps sens lo hi x bit bits52 words
      = (snapUniform (α := ℝ) bits52 words).map (fun p =>
          (snapPost eps sens lo hi
            (truncate (-snapBound sens lo hi) (snapBound sens lo hi) (x / sens - snapBound sens lo hi - lo / sens)
              + 1 / snapEffEps eps (snapBound sens lo hi) * snapLaplace bit p.1), p.2)) := by
  unfold snapping
  simp only [hs, Bool.false_eq_true, ↓reduceIte]
  cases snapUniform (α := ℝ) bits52 words <;> rfl

/-- post-processing: if the plain mechanism's outputs on two inputs satisfy the (ε, δ) inequality on every
measurable set, so do the outputs after any measurable map `g` of the output alone -/
theorem dp_postprocess {Ω : Type} [MeasurableSpace Ω] (P : Measure Ω) (M M' : Ω → ℝ) (g : ℝ → ℝ) (hg : Measurable g)
    (c d : ENNReal)
    (h : ∀ S : Set ℝ, MeasurableSet S → P (M ⁻¹' S) ≤ c * P (M' ⁻¹' S) + d) :
    ∀ S : Set ℝ, MeasurableSet S → P ((g ∘ M) ⁻¹' S) ≤ c * P ((g ∘ M') ⁻¹' S) + d := by
  intro S hS
  have := h (g ⁻¹' S) (hg hS)
  simpa [Set.preimage_comp] using this

/-- … and `_truncate`, `_fold` are such maps, for every pair of bounds -/
theorem truncate_fold_measurable (lo hi : ℝ) (fuel : Nat) :
    Measurable (truncate lo hi) ∧ Measurable (fun v => fold lo hi v fuel) :=
  ⟨measurable_truncate lo hi, measurable_fold lo hi fuel⟩

/-- the (ε, δ) inequality of the plain Laplace mechanism carries over to the truncated and the folded one -/
theorem truncated_folded_inherit (eps delta sens lo hi x y : ℝ) (c d : ENNReal)
    (P : Measure (ℝ × ℝ × ℝ × ℝ))
    (h : ∀ S : Set ℝ, MeasurableSet S →
      P ((fun u => laplace eps delta sens x u.1 u.2.1 u.2.2.1 u.2.2.2) ⁻¹' S)
        ≤ c * P ((fun u => laplace eps delta sens y u.1 u.2.1 u.2.2.1 u.2.2.2) ⁻¹' S) + d) :
    (∀ S : Set ℝ, MeasurableSet S →
      P ((fun u => laplaceTruncated eps delta sens lo hi x u.1 u.2.1 u.2.2.1 u.2.2.2) ⁻¹' S)
        ≤ c * P ((fun u => laplaceTruncated eps delta sens lo hi y u.1 u.2.1 u.2.2.1 u.2.2.2) ⁻¹' S) + d) ∧
    (∀ S : Set ℝ, MeasurableSet S →
      P ((fun u => laplaceFolded eps delta sens lo hi x u.1 u.2.1 u.2.2.1 u.2.2.2) ⁻¹' S)
        ≤ c * P ((fun u => laplaceFolded eps delta sens lo hi y u.1 u.2.1 u.2.2.1 u.2.2.2) ⁻¹' S) + d) :=
  ⟨dp_postprocess P _ _ (truncate lo hi) (measurable_truncate lo hi) c d h,
   dp_postprocess P _ _ (fun v => fold lo hi v) (measurable_fold lo hi 16) c d h⟩

/-! ### 7. Bingham — known finding `C03:bingham:law:acceptance-inverted`

The model is faithful to the code: the acceptance probability DIVIDES by `(u·Ω·u)^(q/2)`.  For the released direction
to follow the Bingham law it would have to be the Kent–Ganeiber–Mardia ratio `f_Bing/(M·f_ACG)`, which MULTIPLIES by
that factor.  The full statement is kept as a `Prop`; what is proved is the exact relation between the two, the law
the code really produces, and the counter-example (replayed statistically on the implementation on every run). -/

/-- full statement (false for the code as it is): the coded acceptance probability is the KGM ratio -/
def C03_bingham_full : Prop :=
  ∀ (uAu uOu M : ℝ) (q : Nat), 0 < uOu → 0 < M → binghamAcceptCoded uAu uOu M q = binghamAcceptKGM uAu uOu M q

/-- the coded ratio is the KGM ratio divided by `(u·Ω·u)^q`; they agree exactly where `u·Ω·u = 1`
(the top eigenvector's direction) -/
theorem bingham_accept_partial (uAu uOu M : ℝ) (q : Nat) (ho : 0 < uOu) (hM : 0 < M) :
    binghamAcceptCoded uAu uOu M q = binghamAcceptKGM uAu uOu M q / uOu ^ (q : ℝ) ∧
    (uOu = 1 → binghamAcceptCoded uAu uOu M q = binghamAcceptKGM uAu uOu M q) := by
  unfold binghamAcceptCoded binghamAcceptKGM
  simp only [transc_exp, transc_pow]
  have hp : 0 < uOu ^ ((q : ℝ) / 2) := Real.rpow_pos_of_pos ho _
  have hq : uOu ^ (q : ℝ) = uOu ^ ((q : ℝ) / 2) * uOu ^ ((q : ℝ) / 2) := by
    rw [← Real.rpow_add ho]; congr 1; ring
  constructor
  · rw [hq]; field_simp
  · intro h1; rw [h1]; simp

/-- proposal density × coded acceptance: the released direction has density ∝ `exp(-u·A'·u) · (u·Ω·u)^(-q)`,
not the Bingham density `exp(-u·A'·u)` -/
theorem bingham_released_density (uAu uOu M : ℝ) (q : Nat) (ho : 0 < uOu) :
    acgDensity uOu q * binghamAcceptCoded uAu uOu M q = Real.exp (-uAu) * uOu ^ (-(q : ℝ)) / M := by
  unfold acgDensity binghamAcceptCoded
  simp only [transc_exp, transc_pow]
  have hq : uOu ^ (-(q : ℝ)) = uOu ^ (-((q : ℝ) / 2)) * uOu ^ (-((q : ℝ) / 2)) := by
    rw [← Real.rpow_add ho]; congr 1; ring
  rw [hq, Real.rpow_neg ho.le]
  ring

/-- counter-example: at `u·Ω·u = 2`, `q = 2` the coded probability is a quarter of the KGM ratio -/
theorem bingham_accept_cex : ¬ C03_bingham_full := by
  intro h
  have h1 := h 0 2 1 2 (by norm_num) (by norm_num)
  unfold binghamAcceptCoded binghamAcceptKGM at h1
  simp only [transc_exp, transc_pow, neg_zero, Real.exp_zero] at h1
  norm_num at h1

/-! ### 8. laws as push-forward measures

`unif01` is Lebesgue measure on [0,1) (one `random()` draw), `unif01x4` four independent draws in the order drawn,
`gaussianReal 0 1` one `normalvariate(0,1)` draw, `Cont.lapMeasure b x` the Laplace law of C02 (density
`e^{-|y-x|/b}/(2b)`), `Measure.infinitePi (fun _ => P)` an i.i.d. stream with one-draw law `P`. -/

open ProbabilityTheory in
/-- **`(N₁ + N₂)/√2` is standard normal**: push-forward of `N(0,1) ⊗ N(0,1)` under the model's `gaussUnit` -/
theorem gauss_unit_law :
    ((gaussianReal 0 1).prod (gaussianReal 0 1)).map (fun n : ℝ × ℝ => gaussUnit n.1 n.2) = gaussianReal 0 1 :=
  gaussUnit_map

open ProbabilityTheory in
/-- `Gaussian.randomise` / `GaussianAnalytic.randomise` on two independent standard normals has the law
`N(value, scale²)` (the `gaussianReal x (sqNN σ)` of C02's `gauss_classical_dp`) -/
theorem gauss_mech_law (scale x : ℝ) :
    ((gaussianReal 0 1).prod (gaussianReal 0 1)).map (fun n : ℝ × ℝ => gauss scale x n.1 n.2)
      = gaussianReal x (.mk (scale ^ 2) (sq_nonneg _)) :=
  gauss_map scale x

open ProbabilityTheory in
/-- `−log(1−U) ~ Exp(1)`: `exp_of_uniform_law` as a push-forward -/
theorem exp_of_uniform_map : unif01.map (fun u : ℝ => -Real.log (1 - u)) = expMeasure 1 := neglog_map

/-- one term of the 4-uniform sampler: `E[exp(i t log(1−U) cos(πV))] = ∫₀¹ dv/(1 + i t cos πv) = 1/√(1+t²)` -/
theorem laplace4_term_charFun (t : ℝ) :
    charFun ((unif01.prod unif01).map (fun p : ℝ × ℝ => Real.log (1 - p.1) * Real.cos (Real.pi * p.2))) t
      = ((1 / Real.sqrt (1 + t ^ 2) : ℝ) : ℂ) :=
  charFun_lapTerm t

/-- characteristic function of the Laplace law: `e^{itx}/(1 + b²t²)` -/
theorem laplace_charFun (b x t : ℝ) (hb : 0 < b) :
    charFun (Cont.lapMeasure b x) t = Complex.exp (t * x * Complex.I) / (1 + (b : ℂ) ^ 2 * (t : ℂ) ^ 2) :=
  charFun_lapMeasure b x t hb

/-- **Holohan–Braghin**: for four independent uniforms on [0,1) the model's `lap4` (= `Laplace._laplace_sampler`) has
the standard Laplace law -/
theorem laplace4_law :
    unif01x4.map (fun u : ℝ × ℝ × ℝ × ℝ => lap4 u.1 u.2.1 u.2.2.1 u.2.2.2) = Cont.lapMeasure 1 0 :=
  lap4_map

/-- `Laplace.randomise` on four independent uniforms has the Laplace law with the coded scale, centred at the input -/
theorem laplace_mech_law (eps delta sens x : ℝ) (hb : 0 < laplaceScale eps delta sens) :
    unif01x4.map (fun u : ℝ × ℝ × ℝ × ℝ => laplace eps delta sens x u.1 u.2.1 u.2.2.1 u.2.2.2)
      = Cont.lapMeasure (laplaceScale eps delta sens) x :=
  laplace_map eps delta sens x hb

/-- non-vacuity: the coded scale is positive for ε = 1, δ = 0, sensitivity 1 -/
example : 0 < laplaceScale (1 : ℝ) 0 1 := by norm_num [laplaceScale]

/-- `LaplaceTruncated` / `LaplaceFolded`: push-forward of that Laplace law under `_truncate` / `_fold` -/
theorem laplace_truncated_folded_law (eps delta sens lo hi x : ℝ) (hb : 0 < laplaceScale eps delta sens) :
    unif01x4.map (fun u : ℝ × ℝ × ℝ × ℝ => laplaceTruncated eps delta sens lo hi x u.1 u.2.1 u.2.2.1 u.2.2.2)
      = (Cont.lapMeasure (laplaceScale eps delta sens) x).map (truncate lo hi) ∧
    unif01x4.map (fun u : ℝ × ℝ × ℝ × ℝ => laplaceFolded eps delta sens lo hi x u.1 u.2.1 u.2.2.1 u.2.2.2)
      = (Cont.lapMeasure (laplaceScale eps delta sens) x).map (fun v => fold lo hi v) := by
  rw [← laplace_mech_law eps delta sens x hb,
    Measure.map_map (measurable_truncate lo hi) (measurable_laplace eps delta sens x),
    Measure.map_map (measurable_fold lo hi 16) (measurable_laplace eps delta sens x)]
  exact ⟨rfl, rfl⟩

/-- **the Laplace sampler itself is (ε, δ)-DP**: for inputs at most `sens` apart and every measurable output set, the
probability (over the four uniforms) that `Laplace.randomise` lands in the set satisfies the (ε, δ) inequality.
(`laplace_mech_law` + the density-ratio argument of C02's `laplace_dp`.) -/
theorem laplace_sampler_dp (eps delta sens x x' : ℝ) (hs : 0 < sens) (hd0 : 0 ≤ delta) (hd1 : delta < 1)
    (hpos : 0 < eps - Real.log (1 - delta)) (hx : |x - x'| ≤ sens) (S : Set ℝ) (hS : MeasurableSet S) :
    unif01x4 ((fun u : ℝ × ℝ × ℝ × ℝ => laplace eps delta sens x u.1 u.2.1 u.2.2.1 u.2.2.2) ⁻¹' S)
      ≤ ENNReal.ofReal (Real.exp eps)
          * unif01x4 ((fun u : ℝ × ℝ × ℝ × ℝ => laplace eps delta sens x' u.1 u.2.1 u.2.2.1 u.2.2.2) ⁻¹' S)
        + ENNReal.ofReal delta := by
  have hb : 0 < laplaceScale eps delta sens := by
    simp only [laplaceScale, transc_log]; positivity
  rw [← Measure.map_apply (measurable_laplace eps delta sens x) hS,
    ← Measure.map_apply (measurable_laplace eps delta sens x') hS,
    laplace_mech_law eps delta sens x hb, laplace_mech_law eps delta sens x' hb, laplaceScale_eq_cont]
  have hb' : 0 < Cont.laplaceScale eps delta sens := by rw [← laplaceScale_eq_cont]; exact hb
  apply Cont.approx_of_scaled_ennreal _ _ _ _ (Cont.lapMeasure_le_one _ _ hb' S) hd0 hd1
  rw [← Cont.exp_sens_div_laplaceScale eps delta sens hs hd1 hpos]
  exact Cont.lapMeasure_ratio _ x x' sens hb' hx S hS

/-- non-vacuity of the hypotheses of `laplace_sampler_dp` (ε = 1, δ = 1/2, sens = 1) -/
example : (0:ℝ) < 1 ∧ (0:ℝ) ≤ 1/2 ∧ (1/2:ℝ) < 1 ∧ 0 < (1:ℝ) - Real.log (1 - 1/2) ∧ |(0:ℝ) - 1| ≤ 1 := by
  refine ⟨by norm_num, by norm_num, by norm_num, ?_, by norm_num⟩
  have : Real.log (1 - 1/2) < 0 := Real.log_neg (by norm_num) (by norm_num)
  linarith

/-- … and so are `LaplaceTruncated` and `LaplaceFolded` as sampled (`truncated_folded_inherit` with its hypothesis
discharged for the uniform product measure) -/
theorem laplace_truncated_folded_sampler_dp (eps delta sens lo hi x x' : ℝ) (hs : 0 < sens) (hd0 : 0 ≤ delta)
    (hd1 : delta < 1) (hpos : 0 < eps - Real.log (1 - delta)) (hx : |x - x'| ≤ sens) :
    (∀ S : Set ℝ, MeasurableSet S →
      unif01x4 ((fun u => laplaceTruncated eps delta sens lo hi x u.1 u.2.1 u.2.2.1 u.2.2.2) ⁻¹' S)
        ≤ ENNReal.ofReal (Real.exp eps)
            * unif01x4 ((fun u => laplaceTruncated eps delta sens lo hi x' u.1 u.2.1 u.2.2.1 u.2.2.2) ⁻¹' S)
          + ENNReal.ofReal delta) ∧
    (∀ S : Set ℝ, MeasurableSet S →
      unif01x4 ((fun u => laplaceFolded eps delta sens lo hi x u.1 u.2.1 u.2.2.1 u.2.2.2) ⁻¹' S)
        ≤ ENNReal.ofReal (Real.exp eps)
            * unif01x4 ((fun u => laplaceFolded eps delta sens lo hi x' u.1 u.2.1 u.2.2.1 u.2.2.2) ⁻¹' S)
          + ENNReal.ofReal delta) :=
  truncated_folded_inherit eps delta sens lo hi x x' _ _ unif01x4
    (fun S hS => laplace_sampler_dp eps delta sens x x' hs hd0 hd1 hpos hx S hS)

open ProbabilityTheory in
/-- moment generating function of Mathlib's `gammaMeasure a r` (shape `a`, rate `r`) on `t < r`: `(r/(r−t))^a` -/
theorem gamma_mgf_law (a r t : ℝ) (ha : 0 < a) (hr : 0 < r) (ht : t < r) :
    Integrable (fun x : ℝ => Real.exp (t * x)) (gammaMeasure a r) ∧
    mgf id (gammaMeasure a r) t = (r / (r - t)) ^ a :=
  ⟨gamma_integrable_exp a r t ha hr ht, gamma_mgf a r t ha hr ht⟩

open ProbabilityTheory in
/-- **Vector mechanism's norm**: four independent `gammavariate(d/4, scale)` draws (the model's `vecNorm scale` of four
independent unit gammas `Gamma(d/4, rate 1)`) sum to `Gamma(d, rate 1/scale)`.  Proof: the mgf of the sum on
`t < 1/scale` is the product of four (Fubini), `((1/(1−t·scale))^{d/4})⁴ = ((1/scale)/((1/scale)−t))^d`, and a finite
measure on ℝ is determined by its mgf on a half-line `(−∞, ρ)`, `ρ > 0` (analytic continuation to the strip `Re z < ρ`,
which contains the imaginary axis, then `Measure.ext_of_charFun`). -/
theorem gamma_sum_law (d scale : ℝ) (hd : 0 < d) (hs : 0 < scale) :
    ((gammaMeasure (d / 4) 1).prod ((gammaMeasure (d / 4) 1).prod ((gammaMeasure (d / 4) 1).prod
        (gammaMeasure (d / 4) 1)))).map
      (fun g : ℝ × ℝ × ℝ × ℝ => vecNorm scale [g.1, g.2.1, g.2.2.1, g.2.2.2])
      = gammaMeasure d (1 / scale) :=
  gamma_sum_map d scale hd hs

/-- non-vacuity: `vecNorm` of four unit gammas at scale 2 -/
example : vecNorm (2 : ℝ) [1, 1, 1, 1] = 8 := by norm_num [vecNorm]

/-- **acceptance–rejection over an i.i.d. stream**: if the draws `ω 0, ω 1, …` are independent with law `P`, the first
one that lies in the acceptance set `A` lies in `B` with probability `P(A ∩ B)/P(A)` — the law of one draw conditioned
on acceptance.  (`rejection_first_accepted` says that the loop returns exactly that first accepted candidate.) -/
theorem rejection_conditional_law {Ω : Type} [MeasurableSpace Ω] (P : Measure Ω) [IsProbabilityMeasure P]
    {A B : Set Ω} (hA : MeasurableSet A) (hB : MeasurableSet B) :
    Measure.infinitePi (fun _ : ℕ => P) {ω | ∃ n, (∀ m < n, ω m ∉ A) ∧ ω n ∈ A ∧ ω n ∈ B} = P (A ∩ B) / P A :=
  firstAcceptedIn_measure P hA hB

/-- `LaplaceBoundedDomain`: candidates `v + scale·Lₙ` with i.i.d. standard-Laplace `Lₙ` (the law of each `lap4` draw,
`laplace4_law`), accepted when in `[lo, hi]`: the released value has the Laplace law `lapMeasure scale v` conditioned on
`[lo, hi]` -/
theorem boundedDomain_law (scale lo hi v : ℝ) (hs : 0 < scale) (S : Set ℝ) (hS : MeasurableSet S) :
    Measure.infinitePi (fun _ : ℕ => Cont.lapMeasure 1 0)
        {ω | ∃ n, (∀ m < n, ¬ (v + scale * ω m ∈ Icc lo hi)) ∧ v + scale * ω n ∈ Icc lo hi ∧ v + scale * ω n ∈ S}
      = Cont.lapMeasure scale v (Icc lo hi ∩ S) / Cont.lapMeasure scale v (Icc lo hi) := by
  have : IsProbabilityMeasure (Cont.lapMeasure 1 0) := lapMeasure_prob 1 0 one_pos
  have hm : Measurable (fun l : ℝ => v + scale * l) := measurable_const.add (measurable_const.mul measurable_id)
  have h := rejection_conditional_law (Cont.lapMeasure 1 0) (A := (fun l : ℝ => v + scale * l) ⁻¹' Icc lo hi)
    (B := (fun l : ℝ => v + scale * l) ⁻¹' S) (hm measurableSet_Icc) (hm hS)
  have haff := lapMeasure_affine' scale v hs.ne'
  rw [abs_of_pos hs] at haff
  rw [← haff, Measure.map_apply hm (measurableSet_Icc.inter hS), Measure.map_apply hm measurableSet_Icc,
    Set.preimage_inter]
  exact h

/-- **Canonne–Kamath–Steinke loop**: if the passes of the outer loop are i.i.d. (law `P` on any outcome space `Ω`), a pass
is accepted on `A` with integer output `out`, and the one-pass probability of "accepted with output `y`" is
`cksPassProb τ σ² |y|` (geometric proposal × fair sign × Bernoulli(e^{−γ}) acceptance, `discrete_gauss_law`,
`bernoulli_neg_exp_law`), then the first accepted output is `y` with probability
`e^{−y²/(2σ²)} / Σ_z e^{−z²/(2σ²)}`: the discrete Gaussian. -/
theorem discrete_gauss_loop_law {Ω : Type} [MeasurableSpace Ω] (P : Measure Ω) [IsProbabilityMeasure P]
    {A : Set Ω} (hA : MeasurableSet A) (out : Ω → ℤ) (hout : ∀ y, MeasurableSet (out ⁻¹' {y}))
    (tau sigma2 : ℝ) (ht : 0 < tau) (hs : sigma2 ≠ 0)
    (hpass : ∀ y : ℤ, P (A ∩ out ⁻¹' {y}) = ENNReal.ofReal (cksPassProb tau sigma2 y.natAbs)) (y : ℤ) :
    Measure.infinitePi (fun _ : ℕ => P) {ω | ∃ n, (∀ m < n, ω m ∉ A) ∧ ω n ∈ A ∧ out (ω n) = y}
      = ENNReal.ofReal (Real.exp (-((y : ℝ) ^ 2 / (2 * sigma2))))
          / ∑' z : ℤ, ENNReal.ofReal (Real.exp (-((z : ℝ) ^ 2 / (2 * sigma2)))) := by
  set c : ℝ := (1 - Real.exp (-tau)) * (1 / 2) * Real.exp (-(tau ^ 2 * sigma2 / 2)) with hc
  have hcpos : 0 < c := by
    have : Real.exp (-tau) < 1 := by rw [Real.exp_lt_one_iff]; linarith
    have : 0 < 1 - Real.exp (-tau) := by linarith
    positivity
  have hw : ∀ z : ℤ, P (A ∩ out ⁻¹' {z})
      = ENNReal.ofReal c * ENNReal.ofReal (Real.exp (-((z : ℝ) ^ 2 / (2 * sigma2)))) := by
    intro z
    rw [hpass z, discrete_gauss_law tau sigma2 hs, ENNReal.ofReal_mul hcpos.le]
    congr 3
    rw [← Int.cast_natCast, Int.natCast_natAbs, Int.cast_abs, sq_abs]
  exact firstAccepted_proportional P hA out hout (ENNReal.ofReal c) (by simpa using hcpos) ENNReal.ofReal_ne_top
    _ hw y

/-- … and that quotient is a genuine probability: under the same hypotheses the normaliser `Σ_z e^{−z²/(2σ²)}` is
finite (it is `P(A)/c ≤ 1/c`) and at least 1 (the term `z = 0`) -/
theorem discrete_gauss_normaliser {Ω : Type} [MeasurableSpace Ω] (P : Measure Ω) [IsProbabilityMeasure P]
    {A : Set Ω} (hA : MeasurableSet A) (out : Ω → ℤ) (hout : ∀ y, MeasurableSet (out ⁻¹' {y}))
    (tau sigma2 : ℝ) (ht : 0 < tau) (hs : sigma2 ≠ 0)
    (hpass : ∀ y : ℤ, P (A ∩ out ⁻¹' {y}) = ENNReal.ofReal (cksPassProb tau sigma2 y.natAbs)) :
    (∑' z : ℤ, ENNReal.ofReal (Real.exp (-((z : ℝ) ^ 2 / (2 * sigma2))))) ≠ ⊤ ∧
    1 ≤ ∑' z : ℤ, ENNReal.ofReal (Real.exp (-((z : ℝ) ^ 2 / (2 * sigma2)))) := by
  set c : ℝ := (1 - Real.exp (-tau)) * (1 / 2) * Real.exp (-(tau ^ 2 * sigma2 / 2)) with hc
  have hcpos : 0 < c := by
    have : Real.exp (-tau) < 1 := by rw [Real.exp_lt_one_iff]; linarith
    have : 0 < 1 - Real.exp (-tau) := by linarith
    positivity
  have hw : ∀ z : ℤ, P (A ∩ out ⁻¹' {z})
      = ENNReal.ofReal c * ENNReal.ofReal (Real.exp (-((z : ℝ) ^ 2 / (2 * sigma2)))) := by
    intro z
    rw [hpass z, discrete_gauss_law tau sigma2 hs, ENNReal.ofReal_mul hcpos.le]
    congr 3
    rw [← Int.cast_natCast, Int.natCast_natAbs, Int.cast_abs, sq_abs]
  refine ⟨proportional_normaliser_finite P hA out hout (ENNReal.ofReal c) (by simpa using hcpos) _ hw, ?_⟩
  calc (1 : ENNReal) = ENNReal.ofReal (Real.exp (-(((0 : ℤ) : ℝ) ^ 2 / (2 * sigma2)))) := by simp
    _ ≤ _ := ENNReal.le_tsum (f := fun z : ℤ => ENNReal.ofReal (Real.exp (-((z : ℝ) ^ 2 / (2 * sigma2))))) (0 : ℤ)

/-- non-vacuity of `discrete_gauss_loop_law`'s one-pass hypothesis shape: at `y = 0` the pass probability is
`(1−e^{−τ})·½·e^{−γ(0)}`, positive -/
example : 0 < cksPassProb (1 : ℝ) 1 0 := by
  unfold cksPassProb
  have : Real.exp (-(1:ℝ)) < 1 := by rw [Real.exp_lt_one_iff]; norm_num
  have : 0 < 1 - Real.exp (-(1:ℝ)) := by linarith
  positivity

/-! ### 9. GaussianDiscrete over the i.i.d. UNIFORM stream (composition inside a pass + renewal)

`Discrete.streamμ = Measure.infinitePi (fun _ => unif01)` is the law of the stream `rng.random(), rng.random(), …`;
`Discrete.Ret f b` is the event "on some finite prefix of the stream the sampler `f` returns `b`".  `SmpS.geomI`,
`SmpS.passI`, `SmpS.loopI` (DPL/Proofs/SamplersStreamCKS.lean) are the geometric loop, one pass and the outer loop of
`GaussianDiscrete.randomise` with UNBOUNDED `bernoulli_neg_exp` loops (C01's fuel-free `Discrete.bernLoop`, which recurses
on the stream itself; `F` caps the geometric count, `n` the number of passes, and the laws below are stated for every
cap or for the union over all caps).  The executable model `cksLoop` (fuel 64 / 4096 / 4096 on its inner loops) is a
restriction of `loopI` (`cks_model_refines`).  Independence of what a sampler returns from what reads the rest of the
stream — although the sampler consumes a random, unbounded number of uniforms — is `SmpS.HasLaw`, proved from
`Measure.infinitePi` (C01's `bind_law`), not assumed. -/

open DPL.Discrete DPL.SmpS in
/-- **the geometric proposal**: `geom_x = 0; while bernoulli_neg_exp(τ): geom_x += 1` returns `k` (`k` below the cap)
with probability `e^{−τk}(1 − e^{−τ})`, whatever reads the rest of the stream afterwards -/
theorem cks_geometric_law (tau : ℝ) (ht : 0 ≤ tau) (F k : ℕ) (hk : k < F) :
    MeasurableSet (Ret (geomI tau F) k) ∧
    streamμ (Ret (geomI tau F) k) = ENNReal.ofReal (Real.exp (-(tau * k)) * (1 - Real.exp (-tau))) := by
  have h := (geomI_hasLaw tau ht F).ret k
  refine ⟨h.1, ?_⟩
  have hq : Real.exp (-tau) ≤ 1 := Real.exp_le_one_iff.mpr (by linarith)
  rw [h.2, gw, if_pos hk, ENNReal.ofReal_mul (Real.exp_pos _).le, ← ENNReal.ofReal_pow (Real.exp_pos _).le,
    ← Real.exp_nat_mul]
  congr 3; ring

open DPL.Discrete DPL.SmpS in
/-- **one pass over the uniform stream**: the pass accepts with output `y` with probability `cksPassProb τ σ² |y|`
(`|y|` below the cap on the geometric loop) — the hypothesis `hpass` of `discrete_gauss_loop_law`, now a theorem about
the uniforms: geometric proposal, fair sign, `bernoulli_neg_exp(γ)` acceptance (recursion for `γ > 1` included) -/
theorem cks_pass_law (tau sigma2 : ℝ) (ht : 0 ≤ tau) (hs : 0 < sigma2) (F : ℕ) (y : ℤ) (hy : y.natAbs < F) :
    MeasurableSet (Ret (passI tau sigma2 F) (some y)) ∧
    streamμ (Ret (passI tau sigma2 F) (some y)) = ENNReal.ofReal (cksPassProb tau sigma2 y.natAbs) := by
  refine ⟨(passI_isLaw tau sigma2 ht hs F).measurable _, ?_⟩
  have hq : Real.exp (-tau) ≤ 1 := Real.exp_le_one_iff.mpr (by linarith)
  have hf : 0 ≤ 1 - Real.exp (-tau) := by linarith
  have hpow : 0 ≤ Real.exp (-tau) ^ y.natAbs := pow_nonneg (Real.exp_pos _).le _
  rw [passI_some tau sigma2 ht hs, gw, if_pos hy, ← ENNReal.ofReal_pow (Real.exp_pos _).le,
    ← ENNReal.ofReal_mul hpow, ← ENNReal.ofReal_mul (by norm_num), ← ENNReal.ofReal_mul (mul_nonneg hpow hf),
    ← Real.exp_nat_mul]
  unfold cksPassProb
  congr 1
  have : (y.natAbs : ℝ) * -tau = -(tau * y.natAbs) := by ring
  rw [this]; ring

open DPL.Discrete DPL.SmpS in
/-- **renewal**: whatever the first pass consumed, the passes that follow see a fresh i.i.d. stream —
`P[≤ n+1 passes return y] = P[pass accepts y] + P[pass rejects] · P[≤ n passes return y]` -/
theorem cks_renewal (tau sigma2 : ℝ) (ht : 0 ≤ tau) (hs : 0 < sigma2) (F n : ℕ) (y : ℤ) :
    streamμ (Ret (loopI tau sigma2 F (n + 1)) y)
      = streamμ (Ret (passI tau sigma2 F) (some y))
        + streamμ (Ret (passI tau sigma2 F) none) * streamμ (Ret (loopI tau sigma2 F n) y) :=
  loopI_succ_law tau sigma2 ht hs F n y

/-- the model's loop is a restriction of the unbounded loop: wherever `cksLoop` returns, `loopI` (geometric cap 4096,
same number of passes) returns the same value and leaves the same rest of the stream unread -/
theorem cks_model_refines (tau sigma2 : ℝ) (ht : 0 ≤ tau) (hs : 0 < sigma2) (fuel : ℕ) (us : List ℝ) (y : ℤ)
    (rest : List ℝ) (h : cksLoop tau sigma2 fuel us = some (y, rest)) :
    SmpS.loopI tau sigma2 4096 fuel us = .ok (y, rest) :=
  SmpS.cksLoop_sub tau sigma2 ht hs fuel us y rest h

/-- non-vacuity of `cks_model_refines`: a stream on which the model returns 0 after one pass (the first
`bernoulli_neg_exp(τ)` returns 0 — one success, one failure — so `geom_x = 0`; sign `+`; the acceptance coin returns 1) -/
example : cksLoop (1 : ℝ) 1 5 [1 / 2, 2, 2, 2, 7] = some (0, [7]) := by
  have hb : ((0:ℕ) == 1) = false := rfl
  have h1 : geomCount (1:ℝ) 4096 0 [1 / 2, 2, 2, 2, 7] = some (0, [2,2,7]) := by
    show geomCount (1:ℝ) (4095 + 1) 0 [1 / 2, 2, 2, 2, 7] = some (0, [2,2,7])
    rw [geomCount]
    norm_num [bernNegExp, bernCount, hb]
  have h2 : bernNegExp 4096 (cksGamma (1:ℝ) 1 0) [2, 7] = some (true, [7]) := by
    show bernNegExp (4095 + 1) (cksGamma (1:ℝ) 1 0) [2, 7] = some (true, [7])
    rw [bernNegExp, cksGamma_real]
    norm_num [bernCount]
  show cksLoop (1 : ℝ) 1 (4 + 1) [1 / 2, 2, 2, 2, 7] = some (0, [7])
  rw [cksLoop, h1]
  norm_num [h2]

/-- the discrete Gaussian weights `e^{−y²/(2σ²)} / Σ_z e^{−z²/(2σ²)}` form a probability distribution on ℤ (the
normaliser is finite and non-zero, without the hypotheses of `discrete_gauss_normaliser`) -/
theorem discrete_gauss_pmf (sigma2 : ℝ) (hs : 0 < sigma2) :
    (∑' z : ℤ, ENNReal.ofReal (Real.exp (-((z : ℝ) ^ 2 / (2 * sigma2))))) ≠ ⊤ ∧
    (∑' z : ℤ, ENNReal.ofReal (Real.exp (-((z : ℝ) ^ 2 / (2 * sigma2))))) ≠ 0 ∧
    ∑' y : ℤ, ENNReal.ofReal (Real.exp (-((y : ℝ) ^ 2 / (2 * sigma2))))
        / ∑' z : ℤ, ENNReal.ofReal (Real.exp (-((z : ℝ) ^ 2 / (2 * sigma2)))) = 1 :=
  ⟨SmpS.gE_norm_ne_top sigma2 hs, SmpS.gE_norm_ne_zero sigma2, SmpS.dGauss_tsum sigma2 hs⟩

open DPL.Discrete DPL.SmpS in
/-- **the Canonne–Kamath–Steinke loop over the i.i.d. uniform stream has the discrete Gaussian law** (loops unbounded, as
in the Python code): the probability that some run `loopI τ σ² F n` — any cap `F` on the geometric count, any number `n`
of passes — returns `y` is `e^{−y²/(2σ²)} / Σ_z e^{−z²/(2σ²)}`.  Proof: `cks_pass_law`, `cks_renewal`, suprema over the
caps (a fixed-point equation `x = A_y + R·x`), and `R + Σ_z A_z = 1` because the geometric loop returns a.s. -/
theorem cks_unbounded_loop_law (tau sigma2 : ℝ) (ht : 0 < tau) (hs : 0 < sigma2) (y : ℤ) :
    streamμ (⋃ p : ℕ × ℕ, Ret (loopI tau sigma2 p.1 p.2) y)
      = ENNReal.ofReal (Real.exp (-((y : ℝ) ^ 2 / (2 * sigma2))))
          / ∑' z : ℤ, ENNReal.ofReal (Real.exp (-((z : ℝ) ^ 2 / (2 * sigma2)))) :=
  retI_law tau sigma2 ht hs y

/-- the parameters `GaussianDiscrete.randomise` hands to the loop are admissible: `τ = 1/(1+⌊scale⌋) > 0`, `σ² > 0` -/
theorem cks_params_pos (scale : ℝ) (h : 0 < scale) : 0 < cksTau scale ∧ cksTau scale ≤ 1 ∧ 0 < cksSigma2 scale := by
  have hfl : (0 : ℝ) ≤ ((⌊scale⌋ : ℤ) : ℝ) := by exact_mod_cast Int.floor_nonneg.mpr h.le
  refine ⟨?_, ?_, ?_⟩
  · simp only [cksTau, transc_floor]; positivity
  · simp only [cksTau, transc_floor]
    rw [div_le_one (by linarith)]; linarith
  · simp only [cksSigma2, transc_pow]; exact Real.rpow_pos_of_pos h _

/-- **the law of the model's `cksLoop` over an i.i.d. UNIFORM stream** (rather than over an i.i.d. stream of passes, which
is what `discrete_gauss_loop_law` assumes).  The model's inner loops carry fixed fuel (the Python loops are unbounded),
so the statement allows for the event `abort` that the model never returns (an inner loop ran out of fuel): the
probability of returning `y` is the discrete Gaussian's up to the probability of that event.
Proof: `cks_model_refines` + `cks_unbounded_loop_law` give `μ ret_z ≤ dG z` for every `z`; the events `ret_z`, `z ≠ y`,
cover the complement of `ret_y ∪ abort`, and `Σ_z dG z = 1` (`discrete_gauss_pmf`). -/
theorem cks_loop_law_full (scale : ℝ) (hscale : 0 < scale) (y : ℤ) :
    let μ := Measure.infinitePi (fun _ : ℕ => unif01)
    let run := fun (ω : ℕ → ℝ) (N fuel : ℕ) => cksLoop (cksTau scale) (cksSigma2 scale) fuel ((List.range N).map ω)
    let ret := {ω : ℕ → ℝ | ∃ N fuel rest, run ω N fuel = some (y, rest)}
    let abort := {ω : ℕ → ℝ | ∀ N fuel, run ω N fuel = none}
    let dG := ENNReal.ofReal (Real.exp (-((y : ℝ) ^ 2 / (2 * cksSigma2 scale))))
      / ∑' z : ℤ, ENNReal.ofReal (Real.exp (-((z : ℝ) ^ 2 / (2 * cksSigma2 scale))))
    μ ret ≤ dG ∧ dG ≤ μ ret + μ abort := by
  obtain ⟨ht, _, hs⟩ := cks_params_pos scale hscale
  exact SmpS.cks_model_sandwich (cksTau scale) (cksSigma2 scale) ht hs y

/-- the model's loop is the instance 64 / 4096 / 4096 of `SmpS.cksLoopG fb fg fa`, the same loop with its three inner fuels
(coin fuel inside the geometric loop, cap on the geometric count, coin fuel of the acceptance test) as parameters -/
theorem cks_model_is_instance (tau sigma2 : ℝ) (fuel : ℕ) (us : List ℝ) :
    cksLoop tau sigma2 fuel us = SmpS.cksLoopG 64 4096 4096 tau sigma2 fuel us :=
  SmpS.cksLoopG_model tau sigma2 fuel us

/-- converse of `cks_model_refines`: a run of the unbounded loop on a list of uniforms is a run of the parametrised model
for all inner fuels above a bound that depends only on the length of the list (and on τ, σ²) -/
theorem cks_unbounded_refines_model (tau sigma2 : ℝ) (ht : 0 ≤ tau) (hs : 0 < sigma2) (F n : ℕ) (us : List ℝ) (y : ℤ)
    (rest : List ℝ) (h : SmpS.loopI tau sigma2 F n us = .ok (y, rest)) :
    ∃ K : ℕ, ∀ fb fa : ℕ, K ≤ fb → K ≤ fa → SmpS.cksLoopG fb F fa tau sigma2 n us = some (y, rest) := by
  obtain ⟨K, hK1, hK2, hK3⟩ := SmpS.exists_fuel_bound tau sigma2 us.length
  refine ⟨K, fun fb fa hfb hfa => ?_⟩
  have h1 : (K : ℝ) ≤ fb := by exact_mod_cast hfb
  have h2 : (K : ℝ) ≤ fa := by exact_mod_cast hfa
  exact SmpS.loopI_sup tau sigma2 ht hs F n us y rest h fb fa (by omega) (by linarith) (by omega)
    (fun k hk => lt_of_lt_of_le (hK3 k hk) h2)

open DPL.Discrete in
/-- **with growing fuels the model's loop has exactly the discrete Gaussian law, and its fuel-exhaustion event vanishes**:
over the i.i.d. uniform stream, the probability that the parametrised model returns `y` for SOME values of its fuels is
`e^{−y²/(2σ²)} / Σ_z e^{−z²/(2σ²)}`, and almost surely it returns for some values of the fuels -/
theorem cks_growing_fuel_law (tau sigma2 : ℝ) (ht : 0 < tau) (hs : 0 < sigma2) (y : ℤ) :
    streamμ {ω : ℕ → ℝ | ∃ fb fg fa fuel N rest,
        SmpS.cksLoopG fb fg fa tau sigma2 fuel (pre ω N) = some (y, rest)}
      = ENNReal.ofReal (Real.exp (-((y : ℝ) ^ 2 / (2 * sigma2))))
          / ∑' z : ℤ, ENNReal.ofReal (Real.exp (-((z : ℝ) ^ 2 / (2 * sigma2)))) ∧
    streamμ {ω : ℕ → ℝ | ∀ fb fg fa fuel N, SmpS.cksLoopG fb fg fa tau sigma2 fuel (pre ω N) = none} = 0 :=
  ⟨SmpS.retG_law tau sigma2 ht hs y, SmpS.abortG_null tau sigma2 ht hs⟩

/-! ### 10. the rejection samplers over the i.i.d. UNIFORM stream (batch layout)

`SmpS.idxS s m r` is the position in the uniform stream of the `r`-th uniform (`r = 0..3`) of candidate number `m` when
the first batch has size `s` (batches of `4·s` uniforms, `s ↦ min(100000, 2s)`; sample `i` of a batch uses uniforms
`i, s+i, 2s+i, 3s+i` of the batch); `SmpS.candStream s ω m = lap4` of those four uniforms. -/

/-- the layout uses no uniform twice: `(candidate, r) ↦ position` is injective -/
theorem batch_layout_injective (s : ℕ) (hs : 0 < s) (m m' r r' : ℕ) (hr : r < 4) (hr' : r' < 4)
    (h : SmpS.idxS s m r = SmpS.idxS s m' r') : m = m' ∧ r = r' :=
  SmpS.idxS_inj m s hs m' r r' hr hr' h

/-- the model's loop looks at a prefix of the candidate stream: its `candidates` on the first `N` uniforms are the first
`cnt fuel s N` entries of `candStream`, and with enough fuel and uniforms that prefix is as long as one likes -/
theorem batch_layout_candidates (cand : ℝ → ℝ) (fuel s : ℕ) (hs : 0 < s) (ω : ℕ → ℝ) (N : ℕ) :
    candidates cand fuel s (Discrete.pre ω N)
        = (List.range (SmpS.cnt fuel s N)).map (fun m => cand (SmpS.candStream s ω m)) ∧
    ∀ n, ∃ fuel' N', n < SmpS.cnt fuel' s N' :=
  ⟨SmpS.candidates_pre cand fuel s hs ω N, fun n => SmpS.cnt_unbounded n s hs⟩

/-- non-vacuity: the second batch (size 2) starts at uniform 4 and interleaves: candidate 1 uses uniforms 4, 6, 8, 10 -/
example : SmpS.idxS 1 1 0 = 4 ∧ SmpS.idxS 1 1 1 = 6 ∧ SmpS.idxS 1 1 2 = 8 ∧ SmpS.idxS 1 1 3 = 10 := by
  have h : ∀ r, SmpS.idxS 1 1 r = SmpS.idxS (SmpS.nextS 1) 0 r + 4 := fun r => SmpS.idxS_ge one_pos le_rfl r
  have h2 : ∀ r, SmpS.idxS (SmpS.nextS 1) 0 r = 0 + r * SmpS.nextS 1 := fun r => SmpS.idxS_lt (by decide) r
  simp only [h, h2]; decide

/-- **the batch layout turns the i.i.d. uniform stream into an i.i.d. stream of standard-Laplace candidates**: the
push-forward of the stream measure under `candStream s` is the product of Laplace(0,1) laws.  (A reindexing along an
injective map preserves an i.i.d. product measure; the blocks of four go through Holohan–Braghin `laplace4_law`.) -/
theorem batch_layout_iid (s : ℕ) (hs : 0 < s) :
    Discrete.streamμ.map (SmpS.candStream s) = Measure.infinitePi (fun _ : ℕ => Cont.lapMeasure 1 0) :=
  SmpS.candStream_law s hs

/-- **`LaplaceBoundedDomain.randomise` over the uniform stream**: the probability that the model (any fuel, any long enough
prefix of the i.i.d. uniform stream, in the code's consumption order) returns a value in `S` is the Laplace law
`lapMeasure scale clamp(x)` conditioned on `[lo, hi]` — `boundedDomain_law` for the code's actual layout -/
theorem boundedDomain_stream_law (scale lo hi x : ℝ) (hs : 0 < scale) (hne : lo ≠ hi) (S : Set ℝ)
    (hS : MeasurableSet S) :
    Discrete.streamμ {ω : ℕ → ℝ | ∃ N fuel v n,
        boundedDomain scale lo hi x (Discrete.pre ω N) fuel = some (v, n) ∧ v ∈ S}
      = Cont.lapMeasure scale (clampPy lo hi x) (Icc lo hi ∩ S)
          / Cont.lapMeasure scale (clampPy lo hi x) (Icc lo hi) := by
  have hfe : Smp.feq lo hi = false := by
    simp only [Smp.feq, Bool.and_eq_false_iff, decide_eq_false_iff_not, not_le]
    rcases lt_or_gt_of_ne hne with h1 | h1
    · right; exact h1
    · left; exact h1
  have hm : Measurable (fun l : ℝ => clampPy lo hi x + scale * l) :=
    measurable_const.add (measurable_const.mul measurable_id)
  have hev : {ω : ℕ → ℝ | ∃ N fuel v n, boundedDomain scale lo hi x (Discrete.pre ω N) fuel = some (v, n) ∧ v ∈ S}
      = {ω : ℕ → ℝ | ∃ N fuel v n, rejLoop (fun l => clampPy lo hi x + scale * l) (inRange lo hi) fuel 1
          (Discrete.pre ω N) 0 = some (v, n) ∧ v ∈ S} := by
    ext ω
    simp only [boundedDomain, hfe, Bool.false_eq_true, if_false]
  have haff := lapMeasure_affine' scale (clampPy lo hi x) hs.ne'
  rw [abs_of_pos hs] at haff
  rw [hev, SmpS.rejLoop_stream_law _ hm lo hi S hS, ← haff, Measure.map_apply hm (measurableSet_Icc.inter hS),
    Measure.map_apply hm measurableSet_Icc, Set.preimage_inter]

/-- **the `LaplaceBoundedDomain` sampler itself is (ε, δ)-DP**: for inputs of the domain at most `sens` apart, every scale
`b` on the private side of the fixed point of `_find_scale` (C02's hypotheses `hden`, `hfix` of `bounded_domain_dp_of_fixpoint`)
and every measurable output set, the probability — over the i.i.d. uniform stream, in the code's batch layout — that the
model's `boundedDomain` returns a value in the set satisfies the (ε, δ) inequality.
(`boundedDomain_stream_law` + C02's `Cont.bdLaw_dp` about the conditioned Laplace law.) -/
theorem boundedDomain_sampler_dp (eps delta sens lo hi b x x' : ℝ) (hb : 0 < b) (hd0 : 0 ≤ delta) (hd : delta < 1)
    (hs : 0 < sens) (hlohi : lo < hi) (hx1 : lo ≤ x) (hx2 : x ≤ hi) (hx'1 : lo ≤ x') (hx'2 : x' ≤ hi)
    (hxx : |x - x'| ≤ sens)
    (hden : 0 < eps - Real.log (Cont.bdDeltaC (Cont.pyMin2 sens (hi - lo)) (hi - lo) b) - Real.log (1 - delta))
    (hfix : Cont.bdF eps delta (Cont.pyMin2 sens (hi - lo)) (hi - lo) b ≤ b) (S : Set ℝ) (hS : MeasurableSet S) :
    Discrete.streamμ {ω : ℕ → ℝ | ∃ N fuel v n,
        boundedDomain b lo hi x (Discrete.pre ω N) fuel = some (v, n) ∧ v ∈ S}
      ≤ ENNReal.ofReal (Real.exp eps)
          * Discrete.streamμ {ω : ℕ → ℝ | ∃ N fuel v n,
              boundedDomain b lo hi x' (Discrete.pre ω N) fuel = some (v, n) ∧ v ∈ S}
        + ENNReal.ofReal delta := by
  have hclamp : ∀ z : ℝ, lo ≤ z → z ≤ hi → clampPy lo hi z = z := by
    intro z h1 h2
    simp only [clampPy]
    rw [if_neg (not_lt.mpr h2), if_neg (not_lt.mpr h1)]
  have hbd : ∀ z : ℝ, Cont.lapMeasure b z (Icc lo hi ∩ S) / Cont.lapMeasure b z (Icc lo hi) = Cont.bdLaw b lo hi z S := by
    intro z
    unfold Cont.bdLaw
    rw [Measure.smul_apply, Measure.restrict_apply hS, smul_eq_mul, div_eq_mul_inv, mul_comm, Set.inter_comm]
  rw [boundedDomain_stream_law b lo hi x hb hlohi.ne S hS, boundedDomain_stream_law b lo hi x' hb hlohi.ne S hS,
    hclamp x hx1 hx2, hclamp x' hx'1 hx'2, hbd, hbd]
  exact Cont.bdLaw_dp eps delta sens lo hi b x x' hb hd0 hd hs hlohi hx1 hx2 hx'1 hx'2 hxx hden hfix S hS

/-- non-vacuity of the hypotheses `hden`, `hfix` of `boundedDomain_sampler_dp`: ε = 1, δ = 0, sensitivity 1, domain [0, 1],
scale b = 1 (there `ΔC = 1` and `_f(b) = 1 ≤ b`) -/
example : 0 < (1:ℝ) - Real.log (Cont.bdDeltaC (Cont.pyMin2 1 (1 - 0)) (1 - 0) 1) - Real.log (1 - 0) ∧
    Cont.bdF 1 0 (Cont.pyMin2 1 (1 - 0)) (1 - 0) 1 ≤ (1:ℝ) := by
  have hp : Cont.pyMin2 (1:ℝ) (1 - 0) = 1 := by simp [Cont.pyMin2]
  have hne : (1:ℝ) - Real.exp (-1) ≠ 0 := by
    have : Real.exp (-1) < 1 := by rw [Real.exp_lt_one_iff]; norm_num
    linarith
  have hfe : DPL.feq (1:ℝ) 0 = false := by simp [DPL.feq]
  have hC : Cont.bdDeltaC (1:ℝ) (1 - 0) 1 = 1 := by
    simp only [Cont.bdDeltaC, hfe]
    norm_num
    rw [div_eq_one_iff_eq hne]; ring
  rw [hp]
  unfold Cont.bdF
  simp only [hC, transc_log]
  norm_num

/-- **`LaplaceBoundedNoise.randomise` over the uniform stream**: the noise that is added to the value (`boundedNoise_additive`)
has the Laplace law with scale `sens/ε` conditioned on `[−noise_bound, noise_bound]` -/
theorem boundedNoise_stream_law (eps delta sens : ℝ) (hs : 0 < sens / eps) (S : Set ℝ) (hS : MeasurableSet S) :
    Discrete.streamμ {ω : ℕ → ℝ | ∃ N fuel v n,
        boundedNoiseNoise eps delta sens (Discrete.pre ω N) fuel = some (v, n) ∧ v ∈ S}
      = Cont.lapMeasure (sens / eps) 0 (Icc (-noiseBound eps delta sens) (noiseBound eps delta sens) ∩ S)
          / Cont.lapMeasure (sens / eps) 0 (Icc (-noiseBound eps delta sens) (noiseBound eps delta sens)) := by
  have hm : Measurable (fun l : ℝ => sens / eps * l) := measurable_const.mul measurable_id
  have haff := lapMeasure_affine' (sens / eps) 0 hs.ne'
  rw [abs_of_pos hs] at haff
  have hfun : (fun l : ℝ => 0 + sens / eps * l) = (fun l : ℝ => sens / eps * l) := by funext l; ring
  rw [hfun] at haff
  have h := SmpS.rejLoop_stream_law _ hm (-noiseBound eps delta sens) (noiseBound eps delta sens) S hS
  rw [← haff, Measure.map_apply hm (measurableSet_Icc.inter hS), Measure.map_apply hm measurableSet_Icc,
    Set.preimage_inter]
  exact h

/-- non-vacuity of `boundedNoise_stream_law`'s hypothesis -/
example : (0 : ℝ) < 1 / 1 := by norm_num

/-- the released value of `LaplaceBoundedNoise.randomise` (value + accepted noise) over the uniform stream: the Laplace law
`lapMeasure (sens/ε) x` conditioned on `[x − noise_bound, x + noise_bound]` -/
theorem boundedNoise_release_law (eps delta sens x : ℝ) (hs : 0 < sens / eps) (S : Set ℝ) (hS : MeasurableSet S) :
    Discrete.streamμ {ω : ℕ → ℝ | ∃ N fuel v n,
        boundedNoise eps delta sens x (Discrete.pre ω N) fuel = some (v, n) ∧ v ∈ S}
      = Cont.lapMeasure (sens / eps) x
            (Icc (x - noiseBound eps delta sens) (x + noiseBound eps delta sens) ∩ S)
          / Cont.lapMeasure (sens / eps) x (Icc (x - noiseBound eps delta sens) (x + noiseBound eps delta sens)) := by
  have hm : Measurable (fun w : ℝ => x + w) := measurable_const.add measurable_id
  have hev : {ω : ℕ → ℝ | ∃ N fuel v n, boundedNoise eps delta sens x (Discrete.pre ω N) fuel = some (v, n) ∧ v ∈ S}
      = {ω : ℕ → ℝ | ∃ N fuel w n, boundedNoiseNoise eps delta sens (Discrete.pre ω N) fuel = some (w, n)
          ∧ w ∈ (fun w => x + w) ⁻¹' S} := by
    ext ω
    simp only [mem_ofPred_eq, boundedNoise, mem_preimage]
    constructor
    · rintro ⟨N, fuel, v, n, h, hv⟩
      cases hr : boundedNoiseNoise eps delta sens (Discrete.pre ω N) fuel with
      | none => rw [hr] at h; simp at h
      | some p =>
        rw [hr] at h
        simp only [Option.map_some, Option.some.injEq, Prod.mk.injEq] at h
        exact ⟨N, fuel, p.1, p.2, hr, by rw [h.1]; exact hv⟩
    · rintro ⟨N, fuel, w, n, h, hw⟩
      exact ⟨N, fuel, x + w, n, by rw [h]; rfl, hw⟩
  rw [hev, boundedNoise_stream_law eps delta sens hs _ (hm hS),
    SmpS.lapMeasure_translate_apply _ x hs _ (measurableSet_Icc.inter hS),
    SmpS.lapMeasure_translate_apply _ x hs _ measurableSet_Icc]
  congr 2
  · ext w
    simp only [mem_inter_iff, mem_Icc, mem_preimage]
    constructor
    · rintro ⟨⟨h1, h2⟩, h3⟩; exact ⟨⟨by linarith, by linarith⟩, h3⟩
    · rintro ⟨⟨h1, h2⟩, h3⟩; exact ⟨⟨by linarith, by linarith⟩, h3⟩
  · ext w
    simp only [mem_Icc, mem_preimage]
    constructor
    · rintro ⟨h1, h2⟩; exact ⟨by linarith, by linarith⟩
    · rintro ⟨h1, h2⟩; exact ⟨by linarith, by linarith⟩

/-- **the `LaplaceBoundedNoise` sampler itself is (ε, δ)-DP** (`0 < δ ≤ ½`): for inputs at most `sens` apart and every
measurable output set, the probability — over the i.i.d. uniform stream, in the code's batch layout — that the model's
`boundedNoise` releases a value in the set satisfies the (ε, δ) inequality.
(`boundedNoise_release_law` + C02's `Cont.bounded_noise_dp_measure`.) -/
theorem boundedNoise_sampler_dp (eps delta sens x x' : ℝ) (he : 0 < eps) (hd : 0 < delta) (hd2 : delta ≤ 1 / 2)
    (hs : 0 < sens) (hx : |x - x'| ≤ sens) (S : Set ℝ) (hS : MeasurableSet S) :
    Discrete.streamμ {ω : ℕ → ℝ | ∃ N fuel v n,
        boundedNoise eps delta sens x (Discrete.pre ω N) fuel = some (v, n) ∧ v ∈ S}
      ≤ ENNReal.ofReal (Real.exp eps)
          * Discrete.streamμ {ω : ℕ → ℝ | ∃ N fuel v n,
              boundedNoise eps delta sens x' (Discrete.pre ω N) fuel = some (v, n) ∧ v ∈ S}
        + ENNReal.ofReal delta := by
  have hb : 0 < sens / eps := by positivity
  rw [boundedNoise_release_law eps delta sens x hb S hS, boundedNoise_release_law eps delta sens x' hb S hS,
    SmpS.noiseBound_eq, ← SmpS.bounded_noise_law_eq eps delta sens x he hd hs S hS,
    ← SmpS.bounded_noise_law_eq eps delta sens x' he hd hs S hS]
  exact Cont.bounded_noise_dp_measure eps delta sens x x' he hd hd2 hs hx S hS

/-- non-vacuity of the hypotheses of `boundedNoise_sampler_dp` (ε = 1, δ = 1/4, sens = 1, x = 0, x' = 1) -/
example : (0:ℝ) < 1 ∧ (0:ℝ) < 1/4 ∧ (1/4:ℝ) ≤ 1/2 ∧ |(0:ℝ) - 1| ≤ 1 := by norm_num

/-! ### 11. Snapping: the law of the released grid point

MODELLED: the sign bit `getrandbits(1)` is a fair bit (`SmpS.bitLaw = ½δ₀ + ½δ₁`); the output of `_uniform_sampler` is a
CONTINUOUS uniform on [0,1) (`unif01`) — the model's `snapUniform` returns the dyadic double `mantissa·2^exponent`, and
that its law is the round-down of a continuous uniform is not proved here; `log` is the real logarithm (no crlibm
rounding), arithmetic is exact, `_get_nearest_power_of_2` is `2^⌈log₂ x⌉`.  The rounding-to-grid step, the two clamps and
the rescaling are the model's own `snapRound` / `snapPost` (`snapping_after_noise` says that the model's `snapping` is
exactly `snapPost(clamped + scale·snapLaplace bit u)` for the `u` that `snapUniform` returns). -/

/-- **`Snapping._laplace_sampler(bit, U) = (−1)^bit·log U` is standard Laplace** for a fair bit and `U` uniform on [0,1)
(CDFs: `P[log U ≤ t] = min(1, e^t)`, `P[−log U ≤ t] = max(0, 1 − e^{−t})`) -/
theorem snapping_sign_log_law :
    (SmpS.bitLaw.prod unif01).map (fun p : ℕ × ℝ => snapLaplace p.1 p.2) = Cont.lapMeasure 1 0 :=
  SmpS.snapLaplace_law

/-- the model's `_round_to_nearest_power_of_2(v, Λ)` is round-half-up to the grid `Λ·ℤ`, and it returns the grid point
`Λ·k` exactly for `v ∈ [(k−½)Λ, (k+½)Λ)` -/
theorem snapping_round_half_up (lam : ℝ) (hl : 0 < lam) :
    (∀ v : ℝ, snapRound v lam = lam * ((⌊v / lam + 1 / 2⌋ : ℤ) : ℝ)) ∧
    ∀ k : ℤ, (fun v => snapRound v lam) ⁻¹' {lam * (k : ℝ)}
      = Ico (((k : ℝ) - 1 / 2) * lam) (((k : ℝ) + 1 / 2) * lam) :=
  ⟨fun v => SmpS.snapRound_eq v lam hl, fun k => SmpS.snapRound_preimage lam hl k⟩

/-- non-vacuity / tie rule: on the grid `2·ℤ` the midpoint 1 goes up to 2, and 0.9 goes down to 0 -/
example : snapRound (1 : ℝ) 2 = 2 ∧ snapRound (9 / 10 : ℝ) 2 = 0 := by
  constructor
  · rw [SmpS.snapRound_eq _ _ (by norm_num)]
    have : ⌊(1 : ℝ) / 2 + 1 / 2⌋ = 1 := by norm_num
    rw [this]; norm_num
  · rw [SmpS.snapRound_eq _ _ (by norm_num)]
    have : ⌊(9 / 10 : ℝ) / 2 + 1 / 2⌋ = 0 := by
      rw [Int.floor_eq_iff]; constructor <;> norm_num
    rw [this]; norm_num

/-- **the law of Snapping's released value**: the push-forward of `bit ⊗ U` under the model's function of the draws
(`snapping_after_noise`) is the push-forward of the Laplace law centred at the clamped, rescaled input with the coded scale
`1/ε_eff` under the model's post-processing `snapPost` (round to the grid `Λ`, clamp, undo the scaling, clamp) -/
theorem snapping_release_law (eps sens lo hi x : ℝ) (hscale : 0 < 1 / snapEffEps eps (snapBound sens lo hi)) :
    (SmpS.bitLaw.prod unif01).map (fun p : ℕ × ℝ =>
        snapPost eps sens lo hi
          (truncate (-snapBound sens lo hi) (snapBound sens lo hi) (x / sens - snapBound sens lo hi - lo / sens)
            + 1 / snapEffEps eps (snapBound sens lo hi) * snapLaplace p.1 p.2))
      = (Cont.lapMeasure (1 / snapEffEps eps (snapBound sens lo hi))
          (truncate (-snapBound sens lo hi) (snapBound sens lo hi)
            (x / sens - snapBound sens lo hi - lo / sens))).map (snapPost eps sens lo hi) :=
  SmpS.snapping_release_map _ (SmpS.measurable_snapPost eps sens lo hi) _ _ hscale

/-- non-vacuity of the hypothesis of `snapping_release_law`: ε = 1, sensitivity 1, bounds [0, 1] -/
example : (0 : ℝ) < 1 / snapEffEps 1 (snapBound 1 0 1) := by
  have hfe : Smp.feq (1 : ℝ) 0 = false := by simp [Smp.feq]
  simp only [snapEffEps, snapBound, hfe, epsneg, bits_ldexp]
  norm_num

/-- **Snapping in exact arithmetic is ε_eff-DP (hence ε-DP)**: for inputs at most `sens` apart, the release laws of
`snapping_release_law` (fair bit, continuous uniform, real `log`) satisfy the pure-DP inequality with the model's
effective epsilon `ε_eff = (ε − 2η)/(1 + 12·B·η) ≤ ε` on every measurable set — post-processing of the Laplace ratio
(the clamp is 1-Lipschitz, so the clamped rescaled inputs are at most 1 apart).  This is NOT Mironov's theorem about the
floating-point mechanism (C02 cites that); it says that nothing in the model's clamp / round / rescale pipeline breaks
the guarantee of the underlying Laplace mechanism. -/
theorem snapping_release_dp (eps sens lo hi x x' : ℝ) (hsens : 0 < sens) (hlohi : lo ≤ hi) (he : 0 ≤ eps)
    (heff : 0 < snapEffEps eps (snapBound sens lo hi)) (hx : |x - x'| ≤ sens) (S : Set ℝ) (hS : MeasurableSet S) :
    let release := fun (z : ℝ) (p : ℕ × ℝ) =>
      snapPost eps sens lo hi
        (truncate (-snapBound sens lo hi) (snapBound sens lo hi) (z / sens - snapBound sens lo hi - lo / sens)
          + 1 / snapEffEps eps (snapBound sens lo hi) * snapLaplace p.1 p.2)
    (SmpS.bitLaw.prod unif01).map (release x) S
        ≤ ENNReal.ofReal (Real.exp (snapEffEps eps (snapBound sens lo hi)))
            * (SmpS.bitLaw.prod unif01).map (release x') S ∧
    snapEffEps eps (snapBound sens lo hi) ≤ eps := by
  intro release
  have hfe : Smp.feq sens 0 = false := by
    simp only [Smp.feq, Bool.and_eq_false_iff, decide_eq_false_iff_not, not_le]; left; exact hsens
  have hB : 0 ≤ snapBound sens lo hi := by
    simp only [snapBound, hfe, Bool.false_eq_true, if_false]
    have : 0 ≤ hi - lo := by linarith
    positivity
  have hscale : 0 < 1 / snapEffEps eps (snapBound sens lo hi) := by positivity
  refine ⟨?_, SmpS.snapEffEps_le eps _ he hB⟩
  have h1 := snapping_release_law eps sens lo hi x hscale
  have h2 := snapping_release_law eps sens lo hi x' hscale
  show (SmpS.bitLaw.prod unif01).map (release x) S ≤ _ * (SmpS.bitLaw.prod unif01).map (release x') S
  rw [show (SmpS.bitLaw.prod unif01).map (release x) = _ from h1,
    show (SmpS.bitLaw.prod unif01).map (release x') = _ from h2]
  have hc : |truncate (-snapBound sens lo hi) (snapBound sens lo hi) (x / sens - snapBound sens lo hi - lo / sens)
      - truncate (-snapBound sens lo hi) (snapBound sens lo hi) (x' / sens - snapBound sens lo hi - lo / sens)| ≤ 1 := by
    refine (SmpS.truncate_lipschitz _ _ _ _ (by linarith)).trans ?_
    have : x / sens - snapBound sens lo hi - lo / sens - (x' / sens - snapBound sens lo hi - lo / sens)
        = (x - x') / sens := by ring
    rw [this, abs_div, abs_of_pos hsens, div_le_one hsens]
    exact hx
  have := SmpS.lapMeasure_map_ratio _ (SmpS.measurable_snapPost eps sens lo hi) _ _ _ 1 hscale hc S hS
  rwa [one_div_one_div] at this

/-- non-vacuity of `snapping_release_dp`'s hypothesis on the effective epsilon: ε = 1, sensitivity 1, bounds [0, 1] -/
example : (0 : ℝ) < snapEffEps 1 (snapBound 1 0 1) := by
  have hfe : Smp.feq (1 : ℝ) 0 = false := by simp [Smp.feq]
  simp only [snapEffEps, snapBound, hfe, epsneg, bits_ldexp]
  norm_num

/-- **the released grid point**: the rounding step returns `Λ·k` with the Laplace probability of the cell
`[(k−½)Λ, (k+½)Λ)`, and so does the clamped rounded value at every grid point strictly inside the clamping interval (the
two end points collect the tails) -/
theorem snapping_grid_pmf (lam c s : ℝ) (hl : 0 < lam) (k : ℤ) :
    (Cont.lapMeasure s c).map (fun v => snapRound v lam) {lam * (k : ℝ)}
        = Cont.lapMeasure s c (Ico (((k : ℝ) - 1 / 2) * lam) (((k : ℝ) + 1 / 2) * lam)) ∧
    ∀ B : ℝ, -B < lam * (k : ℝ) → lam * (k : ℝ) < B →
      (Cont.lapMeasure s c).map (fun v => truncate (-B) B (snapRound v lam)) {lam * (k : ℝ)}
        = Cont.lapMeasure s c (Ico (((k : ℝ) - 1 / 2) * lam) (((k : ℝ) + 1 / 2) * lam)) :=
  ⟨SmpS.snapRound_pmf lam c s hl k, fun B h1 h2 => SmpS.snapRound_clamped_pmf lam c s B hl k h1 h2⟩

/-! ### 12. an explicit bound on the fuel-exhaustion event of the model's GaussianDiscrete loop

`SmpS.bernM F γ`, `SmpS.geomM fb τ F n`, `SmpS.loopM fb fg fa τ σ² n` are the model's `bernNegExp F γ`, `geomCount` (coin fuel
`fb`) and `cksLoop` (fuels `fb fg fa`; the model is 64 / 4096 / 4096, `cks_model_is_instance`) read as stream samplers
(`none ↦ error`); `SmpS.massOf f` is the probability that `f` returns.  All three have laws over the i.i.d. uniform stream
(their paths are the paths of the unbounded loops that stay within the fuel), so the renewal argument of §9 applies to the
fuelled model itself: `M_{n+1} = A + R·M_n`, `A + R ≥ 1 − a`, `1 − R ≥ c`, hence `P[abort] = 1 − sup_n M_n ≤ a / c`. -/

/-- the bound: `(4096·τ^64/64! + e^{−4096τ} + e^{e−4096}) / ((1−e^{−τ})·½·e^{−τ²σ²/2})` — numerator: coin fuel of the geometric
loop (at most 4096 coins), cap on the geometric count, coin fuel of the acceptance test; denominator: the probability
that one pass of the unbounded loop accepts the output 0 -/
noncomputable def cksAbortBound (tau sigma2 : ℝ) : ℝ :=
  (4096 * (tau ^ 64 / (Nat.factorial 64 : ℝ)) + Real.exp (-(tau * 4096)) + Real.exp (Real.exp 1 - 4096))
    / ((1 - Real.exp (-tau)) * (1 / 2) * Real.exp (-(tau ^ 2 * sigma2 / 2)))

theorem cksAbortBound_eq (tau sigma2 : ℝ) : cksAbortBound tau sigma2 = SmpS.abortBound 64 4096 4096 tau sigma2 := by
  unfold cksAbortBound SmpS.abortBound
  simp only [Nat.cast_ofNat]

open DPL.Discrete in
/-- **the coin loops run out of fuel with explicitly small probability**: over the i.i.d. uniform stream the model's
`bernoulli_neg_exp(γ)` with fuel `F` returns (0 or 1) with probability at least `1 − γ^F/F!` when `γ ≤ 1` (exactly: the inner
loop needs more than `F` uniforms with probability `γ^F/F!`), and at least `1 − e^{e−F}` for EVERY `γ ≥ 0` (recursion for
`γ > 1` included: each round continues with probability at most `e^{−1}` and its inner fuel shrinks by one) -/
theorem cks_coin_fuel_bound (F : ℕ) (gamma : ℝ) (h0 : 0 ≤ gamma) :
    let f : List ℝ → Except DErr (Bool × List ℝ) := fun l => SmpS.ofOpt (bernNegExp F gamma l)
    (gamma ≤ 1 → 1 ≤ streamμ (Ret f true) + streamμ (Ret f false)
        + ENNReal.ofReal (gamma ^ F / (Nat.factorial F : ℝ))) ∧
    1 ≤ streamμ (Ret f true) + streamμ (Ret f false) + ENNReal.ofReal (Real.exp (Real.exp 1 - F)) := by
  intro f
  have hf : f = SmpS.bernM F gamma := rfl
  rw [hf, ← SmpS.massOf_bool (SmpS.bernM_isLaw F gamma h0)]
  refine ⟨fun h1 => SmpS.bernM_deficit_le_one F gamma h0 h1, ?_⟩
  exact (SmpS.bernM_deficit F gamma h0).trans
    (add_le_add le_rfl (ENNReal.ofReal_le_ofReal (SmpS.coinDef_le F)))

/-- non-vacuity of `cks_coin_fuel_bound`: the bound for the model's coin of the geometric loop at τ = 1/2 -/
example : (1 / 2 : ℝ) ^ 64 / (Nat.factorial 64 : ℝ) ≤ 1 / 2 ^ 64 := by
  have : (1 : ℝ) ≤ (Nat.factorial 64 : ℝ) := by exact_mod_cast Nat.one_le_iff_ne_zero.mpr (Nat.factorial_ne_zero 64)
  rw [one_div_pow]
  exact div_le_self (by positivity) this

open DPL.Discrete in
/-- **the geometric count with its cap**: the model's `geom_x` loop (coin fuel 64, at most 4096 rounds) returns with
probability at least `1 − (4096·τ^64/64! + e^{−4096τ})`: a coin runs out of fuel (≤ τ^64/64! each) or all 4096 coins
come up 1 (≤ e^{−4096τ}) -/
theorem cks_geometric_cap_bound (tau : ℝ) (h0 : 0 ≤ tau) (h1 : tau ≤ 1) :
    let f : List ℝ → Except DErr (ℕ × List ℝ) := fun l => SmpS.ofOpt (geomCount tau 4096 0 l)
    1 ≤ ∑' k : ℕ, streamμ (Ret f k)
        + ENNReal.ofReal (4096 * (tau ^ 64 / (Nat.factorial 64 : ℝ)) + Real.exp (-(tau * 4096))) := by
  intro f
  have hf : f = SmpS.geomM 64 tau 4096 0 := by
    funext l; show SmpS.ofOpt (geomCount tau 4096 0 l) = SmpS.ofOpt (SmpS.geomCountG 64 tau 4096 0 l)
    rw [SmpS.geomCountG_model]
  have hδ : 0 ≤ tau ^ 64 / (Nat.factorial 64 : ℝ) := by positivity
  rw [hf, ← SmpS.massOf_eq (SmpS.geomM_isLaw 64 tau h0 4096 0)]
  refine (SmpS.geomM_deficit 64 tau _ h0 hδ (SmpS.bernM_deficit_le_one 64 tau h0 h1) 4096 0).trans
    (add_le_add le_rfl (ENNReal.ofReal_le_ofReal ?_))
  have := SmpS.geomDef_le _ tau hδ h0 4096
  simpa only [Nat.cast_ofNat] using this

/-- **explicit bound on the fuel-exhaustion event of `cks_loop_law_full`** (the model's fixed fuels 64 / 4096 / 4096): the
probability that the model never returns, however long the prefix of the stream and however large its outer fuel, is
at most `cksAbortBound τ σ²` -/
theorem cks_abort_bound (scale : ℝ) (hscale : 0 < scale) :
    let μ := Measure.infinitePi (fun _ : ℕ => unif01)
    let run := fun (ω : ℕ → ℝ) (N fuel : ℕ) => cksLoop (cksTau scale) (cksSigma2 scale) fuel ((List.range N).map ω)
    let abort := {ω : ℕ → ℝ | ∀ N fuel, run ω N fuel = none}
    μ abort ≤ ENNReal.ofReal (cksAbortBound (cksTau scale) (cksSigma2 scale)) := by
  obtain ⟨ht, ht1, hs⟩ := cks_params_pos scale hscale
  have h := SmpS.cks_abort_le 64 4096 4096 (cksTau scale) (cksSigma2 scale) ht ht1 hs
  rw [← SmpS.abortMG_model, ← cksAbortBound_eq] at h
  exact h

/-- non-vacuity of `cks_abort_bound` / `cks_loop_law_quantitative`: at `scale = 1` (τ = 1/2, σ² = 1) the hypotheses hold and
the bound is below `10^{-6}` (it is in fact about `e^{−2048}/0.17`; the estimate here is crude) -/
example : (0 : ℝ) < 1 ∧ cksTau (1 : ℝ) = 1 / 2 ∧ cksSigma2 (1 : ℝ) = 1 ∧ cksAbortBound (1 / 2) 1 < 1 / 1000000 := by
  refine ⟨one_pos, ?_, ?_, ?_⟩
  · simp only [cksTau, transc_floor, Int.floor_one]; norm_num
  · simp only [cksSigma2, transc_pow]; norm_num
  have he : (2.7 : ℝ) < Real.exp 1 := by have := Real.exp_one_gt_d9; linarith
  have he' : Real.exp 1 < 3 := by have := Real.exp_one_lt_d9; linarith
  have h17 : (2.7 : ℝ) ^ 17 < Real.exp 17 := by
    have : Real.exp 17 = Real.exp 1 ^ 17 := by rw [← Real.exp_nat_mul]; norm_num
    rw [this]; exact pow_lt_pow_left₀ he (by norm_num) (by norm_num)
  have hm17 : Real.exp (-17) < 1 / (2.7 : ℝ) ^ 17 := by
    rw [Real.exp_neg, ← one_div]
    exact one_div_lt_one_div_of_lt (by positivity) h17
  have ha : Real.exp (-((1 / 2 : ℝ) * 4096)) ≤ Real.exp (-17) := Real.exp_le_exp.mpr (by norm_num)
  have hb : Real.exp (Real.exp 1 - 4096) ≤ Real.exp (-17) := Real.exp_le_exp.mpr (by linarith)
  have hc : (4096 : ℝ) * ((1 / 2) ^ 64 / (Nat.factorial 64 : ℝ)) ≤ 4096 / 2 ^ 64 := by
    have hf : (1 : ℝ) ≤ (Nat.factorial 64 : ℝ) := by
      exact_mod_cast Nat.one_le_iff_ne_zero.mpr (Nat.factorial_ne_zero 64)
    have : ((1 / 2 : ℝ)) ^ 64 / (Nat.factorial 64 : ℝ) ≤ (1 / 2) ^ 64 := div_le_self (by positivity) hf
    calc (4096 : ℝ) * ((1 / 2) ^ 64 / (Nat.factorial 64 : ℝ)) ≤ 4096 * (1 / 2) ^ 64 := by gcongr
      _ = 4096 / 2 ^ 64 := by rw [one_div_pow]; ring
  have hd1 : Real.exp (-(1 / 2 : ℝ)) ≤ 2 / 3 := by
    have h := Real.add_one_le_exp (1 / 2 : ℝ)
    rw [Real.exp_neg, inv_le_comm₀ (Real.exp_pos _) (by norm_num)]
    linarith
  have hd2 : (7 / 8 : ℝ) ≤ Real.exp (-((1 / 2 : ℝ) ^ 2 * 1 / 2)) := by
    have h := Real.add_one_le_exp (-((1 / 2 : ℝ) ^ 2 * 1 / 2))
    linarith
  have hden : (7 / 48 : ℝ) ≤ (1 - Real.exp (-(1 / 2 : ℝ))) * (1 / 2) * Real.exp (-((1 / 2 : ℝ) ^ 2 * 1 / 2)) := by
    have h3 : (1 / 3 : ℝ) ≤ 1 - Real.exp (-(1 / 2 : ℝ)) := by linarith
    calc (7 / 48 : ℝ) = 1 / 3 * (1 / 2) * (7 / 8) := by norm_num
      _ ≤ _ := by gcongr
  unfold cksAbortBound
  rw [div_lt_iff₀ (by linarith)]
  have hnum : (4096 : ℝ) / 2 ^ 64 + 1 / (2.7 : ℝ) ^ 17 + 1 / (2.7 : ℝ) ^ 17 < 1 / 1000000 * (7 / 48) := by norm_num
  calc _ ≤ (4096 : ℝ) / 2 ^ 64 + Real.exp (-17) + Real.exp (-17) := by linarith
    _ < 1 / 1000000 * (7 / 48) := by linarith
    _ ≤ _ := by gcongr

/-- **the law of the model's loop, quantitatively**: the model returns `y` with the discrete Gaussian probability up to
the explicit `cksAbortBound τ σ²` — `dG(y) − B ≤ P[ret_y] ≤ dG(y)` -/
theorem cks_loop_law_quantitative (scale : ℝ) (hscale : 0 < scale) (y : ℤ) :
    let μ := Measure.infinitePi (fun _ : ℕ => unif01)
    let run := fun (ω : ℕ → ℝ) (N fuel : ℕ) => cksLoop (cksTau scale) (cksSigma2 scale) fuel ((List.range N).map ω)
    let ret := {ω : ℕ → ℝ | ∃ N fuel rest, run ω N fuel = some (y, rest)}
    let dG := ENNReal.ofReal (Real.exp (-((y : ℝ) ^ 2 / (2 * cksSigma2 scale))))
      / ∑' z : ℤ, ENNReal.ofReal (Real.exp (-((z : ℝ) ^ 2 / (2 * cksSigma2 scale))))
    μ ret ≤ dG ∧ dG ≤ μ ret + ENNReal.ofReal (cksAbortBound (cksTau scale) (cksSigma2 scale)) := by
  have h1 := cks_loop_law_full scale hscale y
  have h2 := cks_abort_bound scale hscale
  exact ⟨h1.1, h1.2.trans (add_le_add le_rfl h2)⟩

/-! ### 13. Snapping's uniform: the dyadic double over fair bits is the round-down of a continuous uniform

`Snapping._uniform_sampler` builds `mantissa·2^exponent` with `mantissa = 2^52 | getrandbits(52)` and `exponent = −53 −` (the
number of leading zero bits of a stream of 32-bit words).  The random input of the model's `snapUniform bits52 words` is the
bit string `(b, X)`: `b < 2^52` and `X < 2^(32W)`, the latter read as `W` words, most significant first (`SmpS.wordsOf W X`;
`W` is the finite cap on the number of words the model is given).  `SmpS.fgrid k b = (2^52 + b)·2^(−53−k)` are the doubles
of the binade `[2^−(k+1), 2^−k)`, `SmpS.ulpAt k = 2^(−53−k)` their spacing, and
`SmpS.flDown U = ⌊U/ulp⌋·ulp`, `ulp = 2^(Int.log 2 U − 52)`, rounds `U > 0` down to a 53-bit significand. -/

/-- **closed form of the model's `snapUniform` on a bit string**: it fails iff all `32W` word bits are zero, and otherwise
returns the double with mantissa `2^52 + b` and exponent `−53 − k`, `k = 32W − bitlength(X)` the number of leading zeros -/
theorem snap_uniform_closed_form (b W X : ℕ) (hX : X < 2 ^ (32 * W)) :
    (snapUniform (α := ℝ) b (SmpS.wordsOf W X)).map Prod.fst
      = if X = 0 then none else some (SmpS.fgrid (32 * W - (Nat.log2 X + 1)) (b % 2 ^ 52)) :=
  SmpS.snapUniform_wordsOf b W X hX

/-- non-vacuity: one word `0x80000000`, mantissa bits 0 — the model returns `2^52·2^−53 = 1/2` -/
example : (snapUniform (α := ℝ) 0 [2 ^ 31]).map Prod.fst = some (1 / 2) := by
  have h := snap_uniform_closed_form 0 1 (2 ^ 31) (by norm_num)
  have hw : SmpS.wordsOf 1 (2 ^ 31) = [2 ^ 31] := by simp [SmpS.wordsOf]
  have hl : Nat.log2 (2 ^ 31) = 31 := Nat.log2_two_pow
  rw [hw, if_neg (by norm_num), hl] at h
  rw [h]
  simp only [SmpS.fgrid, SmpS.ulpAt]
  norm_num

/-- **`flDown` is "round down to the floating-point grid"**: for `U ∈ [2^−N, 1)` it returns a double `fgrid k b` of a binade
`k < N` with `fgrid k b ≤ U < fgrid k b + ulp` -/
theorem snap_round_down_grid (N : ℕ) (U : ℝ) (h1 : (2 : ℝ) ^ (-(N : ℤ)) ≤ U) (h2 : U < 1) :
    ∃ k b, k < N ∧ b < 2 ^ 52 ∧ SmpS.flDown U = SmpS.fgrid k b ∧ SmpS.fgrid k b ≤ U ∧ U < SmpS.fgrid k b + SmpS.ulpAt k := by
  obtain ⟨k, b, hk, hb, c1, c2⟩ := SmpS.cell_cover N U h1 h2
  exact ⟨k, b, hk, hb, SmpS.flDown_cell k b hb U c1 c2, c1, c2⟩

/-- non-vacuity: `1/2 ∈ [2^−1, 1)` -/
example : (2 : ℝ) ^ (-((1 : ℕ) : ℤ)) ≤ 1 / 2 ∧ (1 / 2 : ℝ) < 1 := by
  constructor
  · rw [zpow_neg]; norm_num
  · norm_num

/-- **the law of the model's `snapUniform` over fair bits is the push-forward of the continuous uniform on [0,1) under
round-down to the floating-point grid**, with the finite exponent cap explicit: under the uniform counting measure on the
`2^(52+32W)` bit strings `(b, X)`,
  * every real `v` is returned with probability `unif01 {U | 2^(−32W) ≤ U ∧ flDown U = v}` (`SmpS.hitSet W v` = the bit
    strings on which the model returns `v`; both sides vanish unless `v` is a double of a binade `k < 32W`, and then both are
    `2^(−53−k)`), and
  * the model fails (`SmpS.missSet W`: all `32W` word bits zero) with probability `2^(−32W) = unif01 {U | U < 2^(−32W)}`. -/
theorem snap_uniform_law (W : ℕ) :
    (∀ v : ℝ, ((SmpS.hitSet W v).card : ENNReal) / 2 ^ (52 + 32 * W)
        = unif01 {U : ℝ | (2 : ℝ) ^ (-((32 * W : ℕ) : ℤ)) ≤ U ∧ SmpS.flDown U = v}) ∧
    ((SmpS.missSet W).card : ENNReal) / 2 ^ (52 + 32 * W) = unif01 {U : ℝ | U < (2 : ℝ) ^ (-((32 * W : ℕ) : ℤ))} :=
  ⟨fun v => SmpS.snapUniform_point_law W v, SmpS.snapUniform_none_law W⟩

/-- what `hitSet` is: the bit strings `(b, X)` in range on which the model returns `v` -/
theorem snap_uniform_hitSet (W : ℕ) (v : ℝ) (b X : ℕ) :
    (b, X) ∈ SmpS.hitSet W v ↔ b < 2 ^ 52 ∧ X < 2 ^ (32 * W) ∧
      (snapUniform (α := ℝ) b (SmpS.wordsOf W X)).map Prod.fst = some v := by
  rw [SmpS.mem_hitSet]
  constructor
  · rintro ⟨hb, hX, hX0, h⟩
    refine ⟨hb, hX, ?_⟩
    rw [snap_uniform_closed_form b W X hX, if_neg hX0, Nat.mod_eq_of_lt hb, h]
  · rintro ⟨hb, hX, h⟩
    rw [snap_uniform_closed_form b W X hX, Nat.mod_eq_of_lt hb] at h
    by_cases hX0 : X = 0
    · rw [if_pos hX0] at h; cases h
    · rw [if_neg hX0] at h
      exact ⟨hb, hX, hX0, (Option.some.inj h).symm⟩

end DPL.C03
