/-
C18 — `remaining(k)` agrees with what `check` and `spend` will accept.

The model (`Acc.remaining`, `Acc.remStep`, `Acc.remLoop` in `DPL/Model/Accountant.lean`) transcribes the method:
the closed form for delta, then the bisection on epsilon against `total(spent ++ k·[(mid, 0)])` with the code's own
`while old_interval_size > upper - lower` test (fuel-bounded, the iteration count is reported).

Part 1 (★, any carrier — hence also IEEE doubles): the bracket the loop maintains, in terms of the very comparisons
the code performs; the unlimited accountant.
Part 2 (ℝ): the delta closed form is exact, the bracket halves every iteration, the result is its midpoint, and —
with C05's monotonicity — everything below the bracket is spendable and everything above it is not.
-/
import DPL.Model.Accountant
import DPL.Proofs.RealCarrier
import DPL.Proofs.AccountantTotal

namespace DPL.C18
open DPL

/-! ## Part 1 — any carrier -/

section generic
variable {α : Type} [OfNat α 0] [OfNat α 1] [OfNat α 2] [Add α] [Sub α] [Mul α] [Div α] [Neg α]
  [LT α] [LE α] [DecidableLT α] [DecidableLE α] [NatCast α] [Transc α] [HasInf α]

/-- `x` is the initial lower end, or the code evaluated `total(spent ++ k·[(x,0)])` and found it `≤` the ceiling -/
def LowOK (a : Acc α) (k : Nat) (x : α) : Prop :=
  x = 0 ∨ ∃ t, totalGiven a.ceilDelta (a.spent ++ List.replicate k ⟨x, 0⟩) a.slack = .ok t ∧ t.eps ≤ a.ceilEps

/-- `x` is the initial upper end, or the code evaluated `total(spent ++ k·[(x,0)])` and found it `≥` the ceiling -/
def UpOK (a : Acc α) (k : Nat) (x : α) : Prop :=
  x = a.ceilEps ∨ ∃ t, totalGiven a.ceilDelta (a.spent ++ List.replicate k ⟨x, 0⟩) a.slack = .ok t ∧ a.ceilEps ≤ t.eps

/-- ★ `remaining_bracket`: whatever the arithmetic (IEEE included), the epsilon returned is the midpoint
`(upper + lower) / 2` of a bracket whose lower end was accepted and whose upper end was rejected-or-met by the
code's own comparison of `total(...)` with the ceiling; the loop ran `n ≤ fuel` iterations and stopped because the
fuel ran out or because its own test `old_interval_size > upper - lower` failed. -/
theorem remaining_bracket (a : Acc α) (k fuel : Nat) (r : Tot α) (n : Nat)
    (h : a.remaining k fuel = .ok (r, n)) :
    ∃ b : Bis α, r.eps = (b.upper + b.lower) / 2 ∧ LowOK a k b.lower ∧ UpOK a k b.upper ∧ n ≤ fuel ∧
      (n = fuel ∨ ¬ (b.upper - b.lower < b.old)) := by
  obtain ⟨-, t, b, -, hloop, he, -, -, -, -⟩ := remaining_ok a k fuel r n h
  have hs := remLoop_spec a k (fun _ b => LowOK a k b.lower ∧ UpOK a k b.upper) ?_ fuel 0 _ b n
    ⟨Or.inl rfl, Or.inl rfl⟩ hloop
  · exact ⟨b, he, hs.1.1, hs.1.2, hs.2.1, hs.2.2⟩
  · intro i b b' hP _ hb'
    obtain ⟨t, ht, rfl⟩ := remStep_ok a k b b' hb'
    constructor
    · show LowOK a k (if t.eps ≤ a.ceilEps then (b.upper + b.lower) / 2 else b.lower)
      split
      · rename_i hc; exact Or.inr ⟨t, ht, hc⟩
      · exact hP.1
    · show UpOK a k (if a.ceilEps ≤ t.eps then (b.upper + b.lower) / 2 else b.upper)
      split
      · rename_i hc; exact Or.inr ⟨t, ht, hc⟩
      · exact hP.2

/-- ★ `remaining_unlimited`: on a carrier where the ceiling absorbs doubling (`float("inf")`:
`inf - 0 < (inf - 0) * 2` is false) the loop body never runs, and the epsilon returned is `(ceiling + 0) / 2`
(`inf` again on doubles); the delta is the closed form evaluated at the ceiling (1 on doubles when the delta
ceiling is 1: `1 - (0 / (1 - spent)) ** (1/k)`). -/
theorem remaining_unlimited (a : Acc α) (k fuel : Nat) (r : Tot α) (n : Nat)
    (hinf : ¬ (a.ceilEps - 0 < (a.ceilEps - 0) * 2))
    (h : a.remaining k fuel = .ok (r, n)) :
    n = 0 ∧ r.eps = (a.ceilEps + 0) / 2 := by
  obtain ⟨-, t, b, -, hloop, he, -, -, -, -⟩ := remaining_ok a k fuel r n h
  cases fuel with
  | zero =>
    simp only [Acc.remLoop] at hloop
    cases hloop
    exact ⟨rfl, he⟩
  | succ fuel =>
    simp only [Acc.remLoop, hinf, if_false] at hloop
    cases hloop
    exact ⟨rfl, he⟩

/-- `k` consecutive calls of `spend(e, d)` on the same accountant (what the property's quantifier text does) -/
def spendK (a : Acc α) (e d : α) : Nat → Except Err (Acc α)
  | 0 => .ok a
  | j + 1 => match a.spend e d with
    | .ok a' => spendK a' e d j
    | .error x => .error x

end generic

/-! ## Part 2 — over ℝ -/

/-- the closed form `remaining` uses for delta -/
noncomputable def deltaClosed (ceilDelta spentDelta : ℝ) (k : Nat) : ℝ :=
  1 - ((1 - ceilDelta) / (1 - spentDelta)) ^ (1 / (k : ℝ))

theorem remaining_delta_formula (a : Acc ℝ) (k fuel : Nat) (r : Tot ℝ) (n : Nat)
    (h : a.remaining k fuel = .ok (r, n)) :
    r.delta = if (totalCore a.spent a.slack).delta < 1
      then deltaClosed a.ceilDelta (totalCore a.spent a.slack).delta k else 1 := by
  obtain ⟨-, t, b, ht, -, -, hd, -, -, -⟩ := remaining_ok a k fuel r n h
  obtain ⟨rfl, -⟩ := total_ok a t ht
  rw [hd]; rfl

/-- `remaining_delta_exact`: `k` further spends carrying the returned delta (and any epsilons) bring the total
delta to exactly the ceiling, `(x^{1/k})^k = x`.  (`spent delta < 1`; otherwise nothing is left and 1 is returned.) -/
theorem remaining_delta_exact (a : Acc ℝ) (k fuel : Nat) (r : Tot ℝ) (n : Nat)
    (h : a.remaining k fuel = .ok (r, n))
    (hlt : (totalCore a.spent a.slack).delta < 1) (hcd : a.ceilDelta ≤ 1) (e : ℝ) :
    (totalCore (a.spent ++ List.replicate k ⟨e, r.delta⟩) a.slack).delta = a.ceilDelta := by
  have hk : 1 ≤ k := (remaining_ok a k fuel r n h).1
  have hr := remaining_delta_formula a k fuel r n h
  rw [if_pos hlt] at hr
  rw [totalCore_delta] at hlt ⊢
  set P := (a.spent.map (fun sp => 1 - sp.delta)).prod with hP
  have hpos : 0 < (1 - a.slack) * P := by linarith
  simp only [List.map_append, List.prod_append, List.map_replicate, List.prod_replicate]
  have hx : 0 ≤ (1 - a.ceilDelta) / (1 - (totalCore a.spent a.slack).delta) := by
    rw [totalCore_delta]; exact div_nonneg (by linarith) (by linarith)
  have hpow : (1 - r.delta) ^ k = (1 - a.ceilDelta) / ((1 - a.slack) * P) := by
    rw [hr, deltaClosed, one_div]
    have : (1 : ℝ) - (1 - ((1 - a.ceilDelta) / (1 - (totalCore a.spent a.slack).delta)) ^ ((k : ℝ)⁻¹)) =
        ((1 - a.ceilDelta) / (1 - (totalCore a.spent a.slack).delta)) ^ ((k : ℝ)⁻¹) := by ring
    rw [this, Real.rpow_inv_natCast_pow hx (by omega), totalCore_delta]
    congr 1; ring
  rw [hpow, ← mul_assoc, mul_div_cancel₀ _ hpos.ne']
  ring

/-- `0 ≤ δ_r ≤ ceiling` whenever the accountant's own total delta is within its ceiling (C04's invariant) -/
theorem remaining_delta_bounds (a : Acc ℝ) (k fuel : Nat) (r : Tot ℝ) (n : Nat)
    (h : a.remaining k fuel = .ok (r, n))
    (hfit : (totalCore a.spent a.slack).delta ≤ a.ceilDelta) (hcd : a.ceilDelta ≤ 1) :
    0 ≤ r.delta ∧ r.delta ≤ a.ceilDelta := by
  obtain ⟨hk, t, b, ht, -, -, -, -, h0, -⟩ := remaining_ok a k fuel r n h
  obtain ⟨rfl, -, hd0, -⟩ := total_ok a t ht
  refine ⟨h0, ?_⟩
  have hr := remaining_delta_formula a k fuel r n h
  set sd := (totalCore a.spent a.slack).delta with hsd
  by_cases hlt : sd < 1
  · rw [if_pos hlt] at hr
    rw [hr, deltaClosed]
    have h1 : 0 < 1 - sd := by linarith
    have hx0 : 0 ≤ (1 - a.ceilDelta) / (1 - sd) := div_nonneg (by linarith) h1.le
    have hx1 : (1 - a.ceilDelta) / (1 - sd) ≤ 1 := by rw [div_le_one h1]; linarith
    have hk1 : (1 : ℝ) / k ≤ 1 := by
      rw [div_le_one (by exact_mod_cast hk)]; exact_mod_cast hk
    have := Real.self_le_rpow_of_le_one hx0 hx1 hk1
    have h2 : 1 - (1 - a.ceilDelta) / (1 - sd) ≤ a.ceilDelta := by
      rw [sub_le_iff_le_add, ← sub_le_iff_le_add', le_div_iff₀ h1]
      nlinarith
    linarith
  · rw [if_neg hlt] at hr
    rw [hr]; linarith

/-- the bisection invariant over ℝ: a sub-interval of `[0, ceiling]` whose lower end is affordable and whose upper
end (unless it is still the ceiling) is not, of width `≤ ceiling / 2^i` after `i` iterations, and either
`old = 2·width` or the bracket has collapsed to an exact root -/
def BisInv (a : Acc ℝ) (k : Nat) (i : Nat) (b : Bis ℝ) : Prop :=
  0 ≤ b.lower ∧ b.lower ≤ b.upper ∧ b.upper ≤ a.ceilEps ∧
  afterK a.spent a.slack k b.lower ≤ a.ceilEps ∧
  (b.upper = a.ceilEps ∨ a.ceilEps ≤ afterK a.spent a.slack k b.upper) ∧
  b.upper - b.lower ≤ a.ceilEps / 2 ^ i ∧
  (b.upper - b.lower = b.old / 2 ∨ b.upper = b.lower)

theorem bisInv_step (a : Acc ℝ) (k i : Nat) (b b' : Bis ℝ) (hP : BisInv a k i b)
    (hb' : a.remStep k b = .ok b') : BisInv a k (i + 1) b' := by
  obtain ⟨t, ht, rfl⟩ := remStep_ok a k b b' hb'
  obtain ⟨rfl, -, -, -⟩ := totalGiven_ok _ _ _ t ht
  obtain ⟨h0, hlu, huc, hlo, hup, hw, hold⟩ := hP
  have hf : (totalCore (a.spent ++ List.replicate k ⟨(b.upper + b.lower) / 2, 0⟩) a.slack).eps =
      afterK a.spent a.slack k ((b.upper + b.lower) / 2) := rfl
  rw [hf]
  set m := (b.upper + b.lower) / 2 with hm
  have hlm : b.lower ≤ m := by rw [hm]; linarith
  have hmu : m ≤ b.upper := by rw [hm]; linarith
  have hpow : a.ceilEps / 2 ^ (i + 1) = a.ceilEps / 2 ^ i / 2 := by rw [pow_succ]; field_simp
  have hc0 : 0 ≤ a.ceilEps / 2 ^ (i + 1) := div_nonneg (by linarith) (by positivity)
  unfold BisInv
  dsimp only
  by_cases c1 : afterK a.spent a.slack k m ≤ a.ceilEps <;> by_cases c2 : a.ceilEps ≤ afterK a.spent a.slack k m
  · rw [if_pos c1, if_pos c2]
    exact ⟨by linarith, le_rfl, by linarith, c1, Or.inr c2, by rw [sub_self]; exact hc0, Or.inr rfl⟩
  · rw [if_pos c1, if_neg c2]
    refine ⟨by linarith, hmu, huc, c1, hup, ?_, Or.inl ?_⟩
    · rw [hpow, hm]; linarith
    · rw [hm]; ring
  · rw [if_neg c1, if_pos c2]
    refine ⟨h0, hlm, by linarith, hlo, Or.inr c2, ?_, Or.inl ?_⟩
    · rw [hpow, hm]; linarith
    · rw [hm]; ring
  · exfalso; exact c2 (le_of_lt (not_le.mp c1))

/-- the loop over ℝ: the result is the midpoint of a bracket satisfying `BisInv` after exactly `n` halvings; the loop
stops before the fuel runs out only when the bracket has collapsed onto an exact root -/
theorem remaining_eps_spec (a : Acc ℝ) (k fuel : Nat) (r : Tot ℝ) (n : Nat)
    (h : a.remaining k fuel = .ok (r, n))
    (hc : 0 ≤ a.ceilEps) (hfit : (totalCore a.spent a.slack).eps ≤ a.ceilEps) :
    ∃ b : Bis ℝ, r.eps = (b.upper + b.lower) / 2 ∧ BisInv a k n b ∧ (n = fuel ∨ b.upper = b.lower) := by
  obtain ⟨-, t, b, -, hloop, he, -, -, -, -⟩ := remaining_ok a k fuel r n h
  have h0 : BisInv a k 0 ⟨0, a.ceilEps, (a.ceilEps - 0) * 2⟩ := by
    refine ⟨le_rfl, hc, le_rfl, ?_, Or.inl rfl, ?_, Or.inl ?_⟩
    · show afterK a.spent a.slack k 0 ≤ a.ceilEps
      rw [afterK_zero]; exact hfit
    · show a.ceilEps - 0 ≤ a.ceilEps / 2 ^ 0
      simp
    · show a.ceilEps - 0 = (a.ceilEps - 0) * 2 / 2
      ring
  have hs := remLoop_spec a k (BisInv a k) (fun i b b' hP _ hb' => bisInv_step a k i b b' hP hb')
    fuel 0 _ b n h0 hloop
  rw [Nat.zero_add] at hs
  refine ⟨b, he, hs.1, ?_⟩
  rcases hs.2.2 with h1 | h1
  · exact Or.inl h1
  · right
    obtain ⟨-, hlu, -, -, -, -, hold⟩ := hs.1
    rcases hold with h2 | h2
    · have : b.upper - b.lower ≤ 0 := by
        have := not_lt.mp h1
        linarith
      linarith
    · exact h2

/-- `remaining_nonneg_le_ceiling` (epsilon part; the delta part is `remaining_delta_bounds`) -/
theorem remaining_nonneg_le_ceiling (a : Acc ℝ) (k fuel : Nat) (r : Tot ℝ) (n : Nat)
    (h : a.remaining k fuel = .ok (r, n))
    (hc : 0 ≤ a.ceilEps) (hfit : (totalCore a.spent a.slack).eps ≤ a.ceilEps) :
    0 ≤ r.eps ∧ r.eps ≤ a.ceilEps := by
  obtain ⟨b, he, ⟨h0, hlu, huc, -, -, -, -⟩, -⟩ := remaining_eps_spec a k fuel r n h hc hfit
  rw [he]; constructor <;> linarith

/-- `remaining_spendable`: every epsilon at least half a final bracket (`ceiling / 2^(n+1)`) below the returned one
is affordable `k` times: the total after `k` such spends is within the ceiling -/
theorem remaining_spendable (a : Acc ℝ) (k fuel : Nat) (r : Tot ℝ) (n : Nat)
    (h : a.remaining k fuel = .ok (r, n))
    (hc : 0 ≤ a.ceilEps) (hfit : (totalCore a.spent a.slack).eps ≤ a.ceilEps)
    (hs0 : 0 ≤ a.slack) (hs1 : a.slack ≤ 1) (x : ℝ) (hx0 : 0 ≤ x) (hx : x ≤ r.eps - a.ceilEps / 2 ^ (n + 1)) :
    afterK a.spent a.slack k x ≤ a.ceilEps := by
  obtain ⟨b, he, ⟨h0, hlu, huc, hlo, -, hw, -⟩, -⟩ := remaining_eps_spec a k fuel r n h hc hfit
  have hpow : a.ceilEps / 2 ^ (n + 1) = a.ceilEps / 2 ^ n / 2 := by rw [pow_succ]; field_simp
  have : x ≤ b.lower := by rw [he, hpow] at hx; linarith
  exact (afterK_mono a.spent a.slack k hs0 hs1 hx0 this).trans hlo

/-- `remaining_maximal`: when the returned epsilon is (more than half a bracket) below the ceiling, every epsilon at
least half a final bracket above it is NOT affordable `k` times, except on the boundary: the total reaches the ceiling -/
theorem remaining_maximal (a : Acc ℝ) (k fuel : Nat) (r : Tot ℝ) (n : Nat)
    (h : a.remaining k fuel = .ok (r, n))
    (hc : 0 ≤ a.ceilEps) (hfit : (totalCore a.spent a.slack).eps ≤ a.ceilEps)
    (hs0 : 0 ≤ a.slack) (hs1 : a.slack ≤ 1)
    (hbelow : r.eps + a.ceilEps / 2 ^ (n + 1) < a.ceilEps)
    (x : ℝ) (hx : r.eps + a.ceilEps / 2 ^ (n + 1) ≤ x) :
    a.ceilEps ≤ afterK a.spent a.slack k x := by
  obtain ⟨b, he, ⟨h0, hlu, huc, -, hup, hw, -⟩, -⟩ := remaining_eps_spec a k fuel r n h hc hfit
  have hpow : a.ceilEps / 2 ^ (n + 1) = a.ceilEps / 2 ^ n / 2 := by rw [pow_succ]; field_simp
  have hub : b.upper ≤ r.eps + a.ceilEps / 2 ^ (n + 1) := by rw [he, hpow]; linarith
  rcases hup with h1 | h1
  · exfalso; rw [h1] at hub; linarith
  · exact h1.trans (afterK_mono a.spent a.slack k hs0 hs1 (by linarith) (hub.trans hx))

/-- when the loop stops by its own test before the fuel runs out, the returned epsilon is an exact solution of
`total(spent ++ k·[(ε,0)]) = ceiling` (or the ceiling itself) -/
theorem remaining_converged (a : Acc ℝ) (k fuel : Nat) (r : Tot ℝ) (n : Nat)
    (h : a.remaining k fuel = .ok (r, n))
    (hc : 0 ≤ a.ceilEps) (hfit : (totalCore a.spent a.slack).eps ≤ a.ceilEps) (hn : n < fuel) :
    afterK a.spent a.slack k r.eps ≤ a.ceilEps ∧
      (r.eps = a.ceilEps ∨ a.ceilEps ≤ afterK a.spent a.slack k r.eps) := by
  obtain ⟨b, he, ⟨-, -, -, hlo, hup, -, -⟩, hstop⟩ := remaining_eps_spec a k fuel r n h hc hfit
  rcases hstop with h1 | h1
  · omega
  · have : r.eps = b.lower := by rw [he, h1]; ring
    rw [this]
    rw [h1] at hup
    exact ⟨hlo, hup⟩

/-! ### from `total ≤ ceiling` to "`spend` accepts `k` times in a row" -/

/-- over ℝ, `k` consecutive `spend(x, d)` calls are all accepted — and record exactly those `k` spends — as soon as
the total after all `k` of them is within the ceiling (the intermediate totals are smaller by C05's monotonicity);
`x` positive and not below the accountant's minimum spend, history and slack validated as the constructor does -/
theorem spendK_accepts (k : Nat) : ∀ (a : Acc ℝ) (x d : ℝ),
    (∀ sp ∈ a.spent, checkEpsDelta sp.eps sp.delta = .ok ()) →
    0 < x → a.minEps ≤ x → 0 ≤ d → d ≤ 1 → 0 ≤ a.slack → a.slack ≤ 1 →
    (totalCore (a.spent ++ List.replicate k ⟨x, d⟩) a.slack).eps ≤ a.ceilEps →
    (totalCore (a.spent ++ List.replicate k ⟨x, d⟩) a.slack).delta ≤ a.ceilDelta →
    spendK a x d k = .ok { a with spent := a.spent ++ List.replicate k ⟨x, d⟩ } := by
  induction k with
  | zero => intro a x d _ _ _ _ _ _ _ _ _; simp [spendK]
  | succ j ih =>
    intro a x d hvalid hx hmin hd0 hd1 hs0 hs1 heps hdel
    have hsplit : a.spent ++ List.replicate (j + 1) ⟨x, d⟩ = (a.spent ++ [⟨x, d⟩]) ++ List.replicate j ⟨x, d⟩ := by
      rw [List.replicate_succ, List.append_cons]
    rw [hsplit] at heps hdel
    have hx1 := checkEpsDelta_of x d hx.le hd0 hd1 (by linarith)
    have hvalid' : ∀ sp ∈ a.spent ++ [⟨x, d⟩], checkEpsDelta sp.eps sp.delta = .ok () := by
      intro sp hsp
      rcases List.mem_append.mp hsp with h | h
      · exact hvalid sp h
      · rw [List.mem_singleton.mp h]; exact hx1
    have hdl : ∀ sp ∈ a.spent ++ [⟨x, d⟩], sp.delta ≤ 1 :=
      fun sp hsp => (checkEpsDelta_ok sp.eps sp.delta (hvalid' sp hsp)).2.2.1
    have hpre := totalCore_le_append_replicate (a.spent ++ [⟨x, d⟩]) a.slack x d j hdl hs0 hs1 hx.le hd0 hd1
    have hchk : a.check x d = .ok () :=
      check_accepts a x d hvalid hx.le hd0 hd1 (by linarith) (fun h => absurd hmin (not_le.mpr h.2)) hs0 hs1
        (hpre.1.trans heps) (hpre.2.trans hdel)
    have hsp : a.spend x d = .ok { a with spent := a.spent ++ [⟨x, d⟩] } := by
      simp only [Acc.spend, bind, Except.bind, hchk, pure, Except.pure]
    simp only [spendK, hsp]
    rw [ih { a with spent := a.spent ++ [⟨x, d⟩] } x d hvalid' hx hmin hd0 hd1 hs0 hs1 heps hdel, hsplit]

/-- `remaining_spendable`, in terms of `spend` itself: every epsilon `x` at least half a final bracket below the
returned one (positive, not below the minimum spend) can be spent `k` times in a row with delta 0 on an accountant
whose own total is within its ceiling -/
theorem remaining_spendable_accepts (a : Acc ℝ) (k fuel : Nat) (r : Tot ℝ) (n : Nat)
    (h : a.remaining k fuel = .ok (r, n))
    (hvalid : ∀ sp ∈ a.spent, checkEpsDelta sp.eps sp.delta = .ok ())
    (hc : 0 ≤ a.ceilEps) (hfit : (totalCore a.spent a.slack).eps ≤ a.ceilEps)
    (hfitd : (totalCore a.spent a.slack).delta ≤ a.ceilDelta)
    (hs0 : 0 ≤ a.slack) (hs1 : a.slack ≤ 1) (x : ℝ) (hx0 : 0 < x) (hmin : a.minEps ≤ x)
    (hx : x ≤ r.eps - a.ceilEps / 2 ^ (n + 1)) :
    spendK a x 0 k = .ok { a with spent := a.spent ++ List.replicate k ⟨x, 0⟩ } := by
  apply spendK_accepts k a x 0 hvalid hx0 hmin le_rfl zero_le_one hs0 hs1
  · exact remaining_spendable a k fuel r n h hc hfit hs0 hs1 x hx0.le hx
  · rw [totalCore_delta] at hfitd ⊢
    simpa [List.map_append, List.prod_append, List.map_replicate, List.prod_replicate] using hfitd

/-- if `k + 1` consecutive `spend(x, d)` calls were all accepted, the total including all of them is within the
ceiling (it is what the last `check` tested) -/
theorem spendK_ok_total_le (k : Nat) : ∀ (a a' : Acc ℝ) (x d : ℝ), spendK a x d (k + 1) = .ok a' →
    (totalCore (a.spent ++ List.replicate (k + 1) ⟨x, d⟩) a.slack).eps ≤ a.ceilEps := by
  induction k with
  | zero =>
    intro a a' x d h
    simp only [spendK] at h
    split at h
    · rename_i a1 h1
      exact (check_ok_total_le a x d (spend_ok a a1 x d h1).2).1
    · cases h
  | succ j ih =>
    intro a a' x d h
    rw [spendK] at h
    split at h
    · rename_i a1 h1
      obtain ⟨rfl, -⟩ := spend_ok a a1 x d h1
      have := ih _ a' x d h
      rw [List.replicate_succ (n := j + 1), List.append_cons]
      exact this
    · cases h

/-- `remaining_maximal`, in terms of `spend` itself: when the returned epsilon is more than half a final bracket
below the ceiling, `k` spends of any epsilon `x` at least half a bracket above it are refused at some step — the
only way all `k` are accepted is that the total lands exactly on the ceiling -/
theorem remaining_maximal_refuses (a : Acc ℝ) (k fuel : Nat) (r : Tot ℝ) (n : Nat)
    (h : a.remaining k fuel = .ok (r, n))
    (hc : 0 ≤ a.ceilEps) (hfit : (totalCore a.spent a.slack).eps ≤ a.ceilEps)
    (hs0 : 0 ≤ a.slack) (hs1 : a.slack ≤ 1)
    (hbelow : r.eps + a.ceilEps / 2 ^ (n + 1) < a.ceilEps)
    (x : ℝ) (hx : r.eps + a.ceilEps / 2 ^ (n + 1) ≤ x) (a' : Acc ℝ) (hacc : spendK a x 0 k = .ok a') :
    afterK a.spent a.slack k x = a.ceilEps := by
  have hk : 1 ≤ k := (remaining_ok a k fuel r n h).1
  obtain ⟨j, rfl⟩ : ∃ j, k = j + 1 := ⟨k - 1, by omega⟩
  exact le_antisymm (spendK_ok_total_le j a a' x 0 hacc)
    (remaining_maximal a (j + 1) fuel r n h hc hfit hs0 hs1 hbelow x hx)

/-! ### `remaining` does not grow when a spend is recorded -/

/-- `remaining_antitone` (general form): for two accountants with the same epsilon ceiling, if every candidate
epsilon costs at least as much on `a₁` as on `a₂`, then `a₁.remaining k` returns no more epsilon than `a₂.remaining k`
(same fuel) -/
theorem remaining_antitone_of_le (a₁ a₂ : Acc ℝ) (k fuel : Nat) (r₁ r₂ : Tot ℝ) (n₁ n₂ : Nat)
    (hce : a₁.ceilEps = a₂.ceilEps) (hc : 0 ≤ a₁.ceilEps)
    (hF : ∀ x, afterK a₂.spent a₂.slack k x ≤ afterK a₁.spent a₁.slack k x)
    (h₁ : a₁.remaining k fuel = .ok (r₁, n₁)) (h₂ : a₂.remaining k fuel = .ok (r₂, n₂)) :
    r₁.eps ≤ r₂.eps := by
  obtain ⟨-, -, b₁, -, hl₁, he₁, -⟩ := remaining_ok a₁ k fuel r₁ n₁ h₁
  obtain ⟨-, -, b₂, -, hl₂, he₂, -⟩ := remaining_ok a₂ k fuel r₂ n₂ h₂
  rw [← hce] at hl₂
  obtain ⟨o1, o2, o3⟩ := remLoop_lockstep a₁ a₂ k hce hF fuel _ _ b₁ b₂ n₁ n₂ (by exact hc) (by exact hc)
    (Or.inl rfl) hl₁ hl₂
  rw [he₁, he₂]
  rcases o3 with ⟨e1, e2⟩ | hd
  · rw [e1, e2]
  · linarith

/-- `remaining_antitone`: recording one more spend `(e, d)` with `e ≥ 0` never increases the epsilon that
`remaining(k)` returns -/
theorem remaining_antitone (a : Acc ℝ) (k fuel : Nat) (e d : ℝ) (r r' : Tot ℝ) (n n' : Nat)
    (hc : 0 ≤ a.ceilEps) (hs0 : 0 ≤ a.slack) (hs1 : a.slack ≤ 1) (he : 0 ≤ e)
    (h : a.remaining k fuel = .ok (r, n))
    (h' : ({ a with spent := a.spent ++ [⟨e, d⟩] } : Acc ℝ).remaining k fuel = .ok (r', n')) :
    r'.eps ≤ r.eps :=
  remaining_antitone_of_le { a with spent := a.spent ++ [⟨e, d⟩] } a k fuel r' r n' n rfl hc
    (fun x => afterK_append_ge a.spent a.slack k hs0 hs1 ⟨e, d⟩ he x) h' h

/-! ### non-vacuity -/

/-- a concrete accountant over ℝ (ceiling (1, 1/2), one recorded spend (1/4, 0), zero slack) on which `remaining 1`
with fuel 1 returns after one halving: bracket [1/2, 1], midpoint 3/4, delta 1/2 — so the hypotheses
`a.remaining k fuel = .ok (r, n)` of the theorems above are satisfiable with `n = fuel` -/
example : (⟨1, 1 / 2, 0, 0, [⟨1 / 4, 0⟩]⟩ : Acc ℝ).remaining 1 1 = .ok (⟨3 / 4, 1 / 2⟩, 1) := by
  norm_num [Acc.remaining, Acc.total, Acc.remLoop, Acc.remStep, totalGiven, totalCore, epsSums, totalDeltaSafe,
    sortAsc, insertSorted, mkBudget, checkEpsDelta, feq, bind, Except.bind, pure, Except.pure, List.forM,
    List.replicate, List.foldl]

/-- … and with an exact root, where the loop stops by its own test (`n = 2 < fuel = 10`): spent 1/2 of 1, k = 1 -/
example : (⟨1, 1 / 2, 0, 0, [⟨1 / 2, 0⟩]⟩ : Acc ℝ).remaining 1 10 = .ok (⟨1 / 2, 1 / 2⟩, 2) := by
  norm_num [Acc.remaining, Acc.total, Acc.remLoop, Acc.remStep, totalGiven, totalCore, epsSums, totalDeltaSafe,
    sortAsc, insertSorted, mkBudget, checkEpsDelta, feq, bind, Except.bind, pure, Except.pure, List.forM,
    List.replicate, List.foldl]

/-- the hypotheses of `remaining_spendable_accepts` are jointly satisfiable: on the accountant of the first example
(remaining 3/4 after one halving, half a bracket = 1/4) one spend of 1/2 is accepted -/
example : spendK (⟨1, 1 / 2, 0, 0, [⟨1 / 4, 0⟩]⟩ : Acc ℝ) (1 / 2) 0 1 =
    .ok ⟨1, 1 / 2, 0, 0, [⟨1 / 4, 0⟩] ++ List.replicate 1 ⟨1 / 2, 0⟩⟩ := by
  have hrem : (⟨1, 1 / 2, 0, 0, [⟨1 / 4, 0⟩]⟩ : Acc ℝ).remaining 1 1 = .ok (⟨3 / 4, 1 / 2⟩, 1) := by
    norm_num [Acc.remaining, Acc.total, Acc.remLoop, Acc.remStep, totalGiven, totalCore, epsSums, totalDeltaSafe,
      sortAsc, insertSorted, mkBudget, checkEpsDelta, feq, bind, Except.bind, pure, Except.pure, List.forM,
      List.replicate, List.foldl]
  refine remaining_spendable_accepts _ 1 1 _ 1 hrem ?_ ?_ ?_ ?_ ?_ ?_ (1 / 2) ?_ ?_ ?_
  · intro sp hsp
    rw [List.mem_singleton.mp hsp]
    exact checkEpsDelta_of _ _ (by norm_num) (by norm_num) (by norm_num) (by norm_num)
  · norm_num
  · rw [totalCore_eps_zero]; norm_num
  · rw [totalCore_delta]; norm_num
  · norm_num
  · norm_num
  · norm_num
  · norm_num
  · norm_num

/-- the hypothesis of `remaining_unlimited` is satisfiable (over ℝ only by the zero ceiling; on doubles by `inf`,
which is what the driver exhibits: 0 iterations, `(inf, 1.0)`) -/
example : ¬ ((0 : ℝ) - 0 < (0 - 0) * 2) := by norm_num

end DPL.C18
