/-
C20 — callers' arrays are not modified; fit_transform = fit then transform.
Soundness of the alias check w.r.t. the heap semantics (core Lean; no Mathlib needed), and the transformer corollary.
The per-entry-point instances (`decide` over the IR regenerated from /repo's sources on every run) are in
DPL/Generated/C20IR.lean.
-/
import DPL.Model.Alias
namespace DPL.C20
open DPL.Alias

/-- invariant: every name bound to a caller-owned location is in `T`; caller-owned locations are already allocated -/
def Inv (isCaller : Nat → Bool) (T : List Name) (h : Heap) : Prop :=
  (∀ x l, h.env x = some l → isCaller l = true → T.contains x = true) ∧ (∀ l, isCaller l = true → l < h.next)

theorem bindFresh_inv (isCaller : Nat → Bool) (T : List Name) (h : Heap) (x : Name) (hi : Inv isCaller T h) :
    Inv isCaller T (bindFresh h x) := by
  obtain ⟨h1, h2⟩ := hi
  refine ⟨?_, fun l hl => Nat.lt_succ_of_lt (h2 l hl)⟩
  intro y l hy hl
  simp only [bindFresh, upd] at hy
  split at hy
  · cases hy; exact absurd (h2 _ hl) (Nat.lt_irrefl _)
  · exact h1 y l hy hl

theorem bindFresh_ver (h : Heap) (x : Name) : (bindFresh h x).ver = h.ver := rfl

/-- one instance of a statement of a checked program preserves the invariant and every caller-owned location -/
theorem step_sound (isCaller : Nat → Bool) (P : List AStmt) (T callers : List Name)
    (hc : check P T callers = true) (h : Heap) (hi : Inv isCaller T h) (s : AStmt) (hs : s ∈ P)
    (choice : Option Name) :
    Inv isCaller T (step h s choice) ∧ ∀ l, isCaller l = true → (step h s choice).ver l = h.ver l := by
  have hP : ∀ s ∈ P, (match s with
      | .fresh _ => true
      | .alias x ys => !(ys.any (fun y => T.contains y)) || T.contains x
      | .write xs => !(xs.any (fun x => T.contains x))) = true := by
    simp only [check, Bool.and_eq_true, List.all_eq_true] at hc
    exact hc.2
  have hs' := hP s hs
  cases s with
  | fresh x => exact ⟨bindFresh_inv isCaller T h x hi, fun l _ => rfl⟩
  | alias x ys =>
    cases choice with
    | none => exact ⟨bindFresh_inv isCaller T h x hi, fun l _ => rfl⟩
    | some y =>
      simp only [step]
      split
      · rename_i hy
        split
        · rename_i l hl
          refine ⟨⟨?_, hi.2⟩, fun _ _ => rfl⟩
          intro z l' hz hl'
          simp only [upd] at hz
          split at hz
          · rename_i hzx
            cases hz
            -- y is bound to a caller location, hence y ∈ T, hence (closedness) x ∈ T
            have hyT := hi.1 y l hl hl'
            simp only [Bool.or_eq_true, Bool.not_eq_true'] at hs'
            rcases hs' with hno | hx
            · have : ys.any (fun y => T.contains y) = true := List.any_eq_true.mpr ⟨y, hy, hyT⟩
              rw [this] at hno; cases hno
            · rw [hzx]; exact hx
          · exact hi.1 z l' hz hl'
        · exact ⟨bindFresh_inv isCaller T h x hi, fun l _ => rfl⟩
      · exact ⟨bindFresh_inv isCaller T h x hi, fun l _ => rfl⟩
  | write xs =>
    cases choice with
    | none => exact ⟨hi, fun _ _ => rfl⟩
    | some x =>
      simp only [step]
      split
      · rename_i hx
        split
        · rename_i l hl
          refine ⟨⟨hi.1, hi.2⟩, ?_⟩
          intro l' hl'
          simp only [updN]
          split
          · rename_i heq
            -- the written location is caller-owned: then x ∈ T, contradicting the check
            subst heq
            have hxT := hi.1 x l' hl hl'
            simp only [Bool.not_eq_true'] at hs'
            have : xs.any (fun x => T.contains x) = true := List.any_eq_true.mpr ⟨x, hx, hxT⟩
            rw [this] at hs'; cases hs'
          · rfl
        · exact ⟨hi, fun _ _ => rfl⟩
      · exact ⟨hi, fun _ _ => rfl⟩

/-- C20 (model): if the translator's IR of an entry point passes `check`, then along EVERY execution — any order and
multiplicity of the statements (so every control flow), any resolution of the may-aliases — every caller-owned
location is written zero times. -/
theorem caller_unchanged (isCaller : Nat → Bool) (P : List AStmt) (T callers : List Name)
    (hc : check P T callers = true) (run : List (AStmt × Option Name)) (hrun : ∀ p ∈ run, p.1 ∈ P)
    (h : Heap) (hi : Inv isCaller T h) :
    ∀ l, isCaller l = true → (exec h run).ver l = h.ver l := by
  induction run generalizing h with
  | nil => intro l _; rfl
  | cons p rest ih =>
    intro l hl
    obtain ⟨s, c⟩ := p
    have hs := step_sound isCaller P T callers hc h hi s (hrun (s, c) (by simp)) c
    simp only [exec]
    rw [ih (fun q hq => hrun q (by simp [hq])) (step h s c) hs.1 l hl]
    exact hs.2 l hl

/-- the initial heap of a call: the caller's names point to caller-owned memory, everything else is unbound -/
theorem initial_inv (isCaller : Nat → Bool) (T callers : List Name) (h : Heap)
    (hT : ∀ c ∈ callers, T.contains c = true)
    (hb : ∀ x l, h.env x = some l → isCaller l = true → x ∈ callers)
    (hn : ∀ l, isCaller l = true → l < h.next) : Inv isCaller T h :=
  ⟨fun x l hx hl => hT x (hb x l hx hl), hn⟩

/-- non-vacuity / contrast: the statement set of the repaired defect `X -= self.mean_` on the validated (aliased)
array does NOT pass the check, and indeed has an execution that writes the caller's array -/
theorem inplace_centre_cex :
    check [.alias 1 [0], .write [1]] [0, 1] [0] = false ∧
    (exec ⟨fun n => if n = 0 then some 0 else none, fun _ => 0, 1⟩
        [(.alias 1 [0], some 0), (.write [1], some 1)]).ver 0 = 1 := by
  constructor <;> decide

example : check [.alias 1 [0], .fresh 2, .write [2]] [0, 1] [0] = true := by decide

/-- transformers: if `fit` leaves the caller's array as it was, `fit_transform(X)` — which is `transform` applied to
the array AFTER `fit` — equals `transform` applied to the ORIGINAL data -/
theorem fit_transform_eq {State Arr Out : Type} (fit : Arr → State × Arr) (transform : State → Arr → Out) (X : Arr)
    (h : (fit X).2 = X) : transform (fit X).1 (fit X).2 = transform (fit X).1 X := by rw [h]

end DPL.C20
