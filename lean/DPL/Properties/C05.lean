/-
C05 — the accountant's total is the Kairouz–Oh–Viswanath heterogeneous composition expression.

The model (`totalCore`, `DPL/Model/Accountant.lean`) transcribes `BudgetAccountant.total` statement by statement:
three running sums, the sorted `prod += delta - prod*delta` accumulation that starts with the slack, the `slack == 0`
early return, the two advanced-composition expressions and Python's `min`.  The driver runs that definition on IEEE
doubles against the implementation; here the same definition is instantiated at ℝ and shown equal to the
specification `kov` / `kovDelta`, which is stated below independently of the model.

Cited, not proved: that the KOV expression is a valid (ε, δ) composition bound (Kairouz, Oh, Viswanath 2017, Thm 3.5).
-/
import DPL.Model.Accountant
import DPL.Proofs.RealCarrier
import DPL.Proofs.AccountantTotal
import DPL.Proofs.AccountantCompose
import Mathlib.Analysis.Complex.Trigonometric

namespace DPL.C05
open DPL

/-! ### the specification -/

/-- basic composition: Σ εᵢ -/
noncomputable def sumEps (l : List (Spend ℝ)) : ℝ := (l.map (fun s => s.eps)).sum

/-- Σ (1 − e^{−εᵢ}) εᵢ / (1 + e^{−εᵢ})   (= Σ εᵢ·tanh(εᵢ/2), see `term_eq_tanh`) -/
noncomputable def sumTanh (l : List (Spend ℝ)) : ℝ :=
  (l.map (fun s => (1 - Real.exp (-s.eps)) * s.eps / (1 + Real.exp (-s.eps)))).sum

/-- Σ εᵢ² -/
noncomputable def sumSq (l : List (Spend ℝ)) : ℝ := (l.map (fun s => s.eps ^ 2)).sum

/-- the epsilon of the KOV bound with slack `δ̃ > 0`: the least of basic composition and the two
advanced-composition expressions -/
noncomputable def kov (l : List (Spend ℝ)) (slack : ℝ) : ℝ :=
  min (sumEps l)
    (min (sumTanh l + Real.sqrt (2 * sumSq l * Real.log (1 / slack)))
         (sumTanh l + Real.sqrt (2 * sumSq l * Real.log (Real.exp 1 + Real.sqrt (sumSq l) / slack))))

/-- the delta of the KOV bound: `1 − (1 − δ̃)·Π(1 − δᵢ)` -/
noncomputable def kovDelta (l : List (Spend ℝ)) (slack : ℝ) : ℝ :=
  1 - (1 - slack) * (l.map (fun s => 1 - s.delta)).prod

/-- the coded per-spend term is `ε·tanh(ε/2)` -/
theorem term_eq_tanh (e : ℝ) :
    (1 - Real.exp (-e)) * e / (1 + Real.exp (-e)) = e * Real.tanh (e / 2) := by
  rw [Real.tanh_eq_sinh_div_cosh, Real.sinh_eq, Real.cosh_eq]
  have h1 : Real.exp (-e) = Real.exp (-(e / 2)) * Real.exp (-(e / 2)) := by
    rw [← Real.exp_add]; congr 1; ring
  have h2 : Real.exp (e / 2) = 1 / Real.exp (-(e / 2)) := by
    rw [Real.exp_neg]; simp
  have hq : 0 < Real.exp (-(e / 2)) := Real.exp_pos _
  rw [h1, h2]
  generalize Real.exp (-(e / 2)) = q at *
  field_simp

/-! ### model = specification -/

theorem sq_map (l : List (Spend ℝ)) :
    (l.map (fun sp => sp.eps * sp.eps)).sum = sumSq l := by
  unfold sumSq; congr 1; apply List.map_congr_left; intro s _; ring

/-- the sorted fold `prod += delta - prod*delta` over `[slack] ++ deltas` equals `1 − (1−slack)·Π(1−δᵢ)` -/
theorem total_delta_eq (l : List (Spend ℝ)) (slack : ℝ) :
    (totalCore l slack).delta = kovDelta l slack :=
  totalCore_delta l slack

/-- for a non-zero slack the epsilon the model computes is the KOV expression -/
theorem total_eps_eq (l : List (Spend ℝ)) (slack : ℝ) (h : 0 < slack) :
    (totalCore l slack).eps = kov l slack := by
  rw [totalCore_eps_pos l slack h.ne', epsOf, sq_map]
  rfl

/-- with zero slack the total is exactly basic composition `(Σ εᵢ, 1 − Π(1−δᵢ))` -/
theorem total_basic (l : List (Spend ℝ)) :
    (totalCore l 0).eps = sumEps l ∧ (totalCore l 0).delta = 1 - (l.map (fun s => 1 - s.delta)).prod := by
  refine ⟨totalCore_eps_zero l, ?_⟩
  rw [totalCore_delta]; ring

/-- what the public `total(spent_budget=…, slack=…)` returns when it returns: the KOV pair -/
theorem total_given_eq (cd : ℝ) (l : List (Spend ℝ)) (slack : ℝ) (t : Tot ℝ) (h : totalGiven cd l slack = .ok t) :
    t.delta = kovDelta l slack ∧ (0 < slack → t.eps = kov l slack) ∧ (slack = 0 → t.eps = sumEps l) := by
  obtain ⟨rfl, -, -, -⟩ := totalGiven_ok cd l slack t h
  refine ⟨total_delta_eq l slack, total_eps_eq l slack, ?_⟩
  rintro rfl
  exact totalCore_eps_zero l

/-- the total does not depend on the order in which the spends were recorded -/
theorem total_perm (l₁ l₂ : List (Spend ℝ)) (h : l₁.Perm l₂) (slack : ℝ) :
    totalCore l₁ slack = totalCore l₂ slack := by
  have hd : (totalCore l₁ slack).delta = (totalCore l₂ slack).delta := by
    rw [totalCore_delta, totalCore_delta, (h.map _).prod_eq]
  have he : (totalCore l₁ slack).eps = (totalCore l₂ slack).eps := by
    by_cases h0 : slack = 0
    · subst h0
      rw [totalCore_eps_zero, totalCore_eps_zero, (h.map _).sum_eq]
    · rw [totalCore_eps_pos _ _ h0, totalCore_eps_pos _ _ h0, (h.map _).sum_eq, (h.map _).sum_eq, (h.map _).sum_eq]
  cases h1 : totalCore l₁ slack
  cases h2 : totalCore l₂ slack
  rw [h1, h2] at hd he
  simp only at hd he
  rw [hd, he]

/-- recording one more spend `(e, d)` with `e ≥ 0`, `d ≥ 0` never decreases either component of the total
(every recorded delta and the slack at most 1, slack non-negative) -/
theorem total_mono (l : List (Spend ℝ)) (slack e d : ℝ)
    (hl : ∀ sp ∈ l, sp.delta ≤ 1) (hs0 : 0 ≤ slack) (hs1 : slack ≤ 1) (he : 0 ≤ e) (hd0 : 0 ≤ d) :
    (totalCore l slack).eps ≤ (totalCore (l ++ [⟨e, d⟩]) slack).eps ∧
    (totalCore l slack).delta ≤ (totalCore (l ++ [⟨e, d⟩]) slack).delta :=
  totalCore_mono_append l slack e d hl hs0 hs1 he hd0

/-- the total is non-negative and its delta lies in [0, 1] for validated spends -/
theorem total_range (l : List (Spend ℝ)) (slack : ℝ)
    (hl : ∀ sp ∈ l, 0 ≤ sp.delta ∧ sp.delta ≤ 1) (hs0 : 0 ≤ slack) (hs1 : slack ≤ 1) :
    0 ≤ (totalCore l slack).delta ∧ (totalCore l slack).delta ≤ 1 :=
  totalCore_delta_range l slack hl hs0 hs1

/-! ### along a run: the total is the KOV pair of the ACCEPTED spends -/

section generic
variable {α : Type} [OfNat α 0] [OfNat α 1] [OfNat α 2] [Add α] [Sub α] [Mul α] [Div α] [Neg α]
  [LT α] [LE α] [DecidableLT α] [DecidableLE α] [NatCast α] [Transc α] [HasInf α]

/-- the spend a single operation gets recorded: `[(e, d)]` for an accepted `spend(e, d)`, nothing otherwise -/
def acceptedBy (a : Acc α) : AOp α → List (Spend α)
  | .spend e d => match a.spend e d with
    | .ok _ => [⟨e, d⟩]
    | .error _ => []
  | _ => []

/-- the spends an operation sequence gets recorded on accountant `a` (the harness's ledger) -/
def acceptedSpends (a : Acc α) : List (AOp α) → List (Spend α)
  | [] => []
  | op :: rest => acceptedBy a op ++ acceptedSpends (a.step op).1 rest

theorem step_spent (a : Acc α) (op : AOp α) : (a.step op).1.spent = a.spent ++ acceptedBy a op := by
  cases op with
  | spend e d =>
    simp only [acceptedBy, Acc.step]
    cases h : a.spend e d with
    | ok a' =>
      unfold Acc.spend at h
      simp only [bind, Except.bind, pure, Except.pure] at h
      split at h
      · cases h
      · cases h; simp
    | error x => simp
  | check e d => simp [Acc.step, acceptedBy]
  | setSlack s =>
    simp only [acceptedBy, Acc.step]
    cases h : a.setSlack s with
    | ok a' =>
      unfold Acc.setSlack at h
      simp only [bind, Except.bind, pure, Except.pure] at h
      split at h
      · cases h
      · split at h
        · cases h
        · split at h
          · cases h
          · cases h; simp
    | error x => simp
  | query => simp [Acc.step, acceptedBy]

/-- ★ (any carrier) after any operation sequence the recorded history is the initial one followed by exactly the
accepted spends: refused attempts (whatever the error kind), checks, slack changes and queries record nothing -/
theorem run_spent_eq (ops : List (AOp α)) (a : Acc α) : (a.run ops).spent = a.spent ++ acceptedSpends a ops := by
  unfold Acc.run
  induction ops generalizing a with
  | nil => simp [acceptedSpends]
  | cons op rest ih =>
    simp only [List.foldl_cons, acceptedSpends]
    rw [ih, step_spent, List.append_assoc]
end generic

/-- C05 along a run: after ANY sequence of operations on an accountant over ℝ, `total()` is the KOV pair of the
initial spends followed by the accepted ones, at the current slack -/
theorem run_total_kov (a : Acc ℝ) (ops : List (AOp ℝ)) (t : Tot ℝ) (h : (a.run ops).total = .ok t) :
    t.delta = kovDelta (a.spent ++ acceptedSpends a ops) (a.run ops).slack ∧
    (0 < (a.run ops).slack → t.eps = kov (a.spent ++ acceptedSpends a ops) (a.run ops).slack) ∧
    ((a.run ops).slack = 0 → t.eps = sumEps (a.spent ++ acceptedSpends a ops)) := by
  unfold Acc.total at h
  obtain ⟨rfl, -, -, -⟩ := mkBudget_ok _ _ t h
  rw [← run_spent_eq]
  refine ⟨total_delta_eq _ _, total_eps_eq _ _, ?_⟩
  intro h0
  rw [h0]
  exact totalCore_eps_zero _
/-- non-vacuity of `run_total_kov`: on a fresh accountant with ceiling (1, 0) the sequence
[spend(1/2, 0) accepted, spend(-1, 0) refused as invalid, spend(1, 0) refused as over budget] records exactly [(1/2, 0)] -/
example : acceptedSpends (⟨1, 0, 0, 0, []⟩ : Acc ℝ) [.spend (1 / 2) 0, .spend (-1) 0, .spend 1 0] = [⟨1 / 2, 0⟩] := by
  norm_num [acceptedSpends, acceptedBy, Acc.step, Acc.spend, Acc.check, checkEpsDelta, feq, Acc.unlimited, totalCore,
    epsSums, totalDeltaSafe, sortAsc, insertSorted, mkBudget, bind, Except.bind, pure, Except.pure, HasInf.isPosInf,
    List.forM, List.foldl, throw, throwThe, MonadExceptOf.throw]

/-! ### non-vacuity -/

/-- a concrete history on which the statements are about something: two spends, zero slack -/
example : (totalCore [⟨1, 0⟩, ⟨2, 1 / 2⟩] (0 : ℝ)).eps = 3 ∧ (totalCore [⟨1, 0⟩, ⟨2, 1 / 2⟩] (0 : ℝ)).delta = 1 / 2 := by
  obtain ⟨h1, h2⟩ := total_basic [⟨1, 0⟩, ⟨2, 1 / 2⟩]
  rw [h1, h2]; norm_num [sumEps]

/-- `total_mono`'s hypotheses are satisfiable with a positive slack, and then the KOV branch is in force -/
example : (totalCore [⟨1, 0⟩, ⟨2, 1 / 2⟩] (1 / 10 : ℝ)).eps ≤ (totalCore ([⟨1, 0⟩, ⟨2, 1 / 2⟩] ++ [⟨1, 1 / 4⟩]) (1 / 10 : ℝ)).eps ∧
    (totalCore [⟨1, 0⟩, ⟨2, 1 / 2⟩] (1 / 10 : ℝ)).eps = kov [⟨1, 0⟩, ⟨2, 1 / 2⟩] (1 / 10) := by
  refine ⟨(total_mono _ _ 1 (1 / 4) ?_ (by norm_num) (by norm_num) (by norm_num) (by norm_num)).1,
    total_eps_eq _ _ (by norm_num)⟩
  intro sp hsp
  simp only [List.mem_cons, List.not_mem_nil, or_false] at hsp
  rcases hsp with rfl | rfl <;> norm_num

/-- the delta formula on a concrete history with slack: 1 − (1 − 1/10)(1 − 0)(1 − 1/2) = 11/20 -/
example : (totalCore [⟨1, 0⟩, ⟨2, 1 / 2⟩] (1 / 10 : ℝ)).delta = 11 / 20 := by
  rw [total_delta_eq]; norm_num [kovDelta]

/-- a genuine permutation -/
example : totalCore [⟨1, 0⟩, ⟨2, 1 / 2⟩] (1 / 10 : ℝ) = totalCore [⟨2, 1 / 2⟩, ⟨1, 0⟩] (1 / 10 : ℝ) :=
  total_perm _ _ (List.Perm.swap _ _ _) _

/-! ### composition validity — a THEOREM in the pure-DP / slack-0 regime

The header cites "the KOV expression is a valid (ε, δ) composition bound".  With slack 0 and every recorded δᵢ = 0
the total is (Σ εᵢ, 0) (`total_basic`), and that Σ εᵢ bounds every ADAPTIVE composition of stages that are εᵢ-DP
respectively is `Compose.adaptive_composition_list` (`DPL/Proofs/ModelsCompose.lean`; stage `i` is a pair of kernels
`(κᵢ, κᵢ′)` on a state space `Y` — take `Y` = the history of outputs for full adaptivity —, `Compose.iter` pushes a start
law through the stages).  The general statement (δᵢ > 0, slack > 0) stays cited: `accountant_total_sound_full`. -/

section Soundness
open MeasureTheory ProbabilityTheory

/-- **the accountant's total is a valid composition bound (pure DP, slack 0)**: if the recorded spends are
`(εᵢ, 0)` and stage `i` of an adaptive composition is `εᵢ`-DP (`κᵢ y S ≤ e^{εᵢ} κᵢ′ y S`, every state `y`, every
measurable `S`), then the composed laws from a common start law are within `e^{total.eps}`, and `total.delta = 0` -/
theorem accountant_total_sound_pure {Y : Type*} [MeasurableSpace Y] (stages : List (ℝ × Kernel Y Y × Kernel Y Y))
    (hst : ∀ t ∈ stages, ∀ y S, MeasurableSet S → t.2.1 y S ≤ ENNReal.ofReal (Real.exp t.1) * t.2.2 y S)
    (l : List (Spend ℝ)) (hrec : l.map (fun s => s.eps) = stages.map Prod.fst) (hδ : ∀ s ∈ l, s.delta = 0)
    (μ : Measure Y) (S : Set Y) (hS : MeasurableSet S) :
    (totalCore l 0).eps = sumEps l ∧ (totalCore l 0).delta = 0 ∧
    Compose.iter (fun t => t.2.1) μ stages S ≤
      ENNReal.ofReal (Real.exp (totalCore l 0).eps) * Compose.iter (fun t => t.2.2) μ stages S :=
  ⟨(total_basic l).1, (AccCompose.total_sound_pure stages hst l hrec hδ μ S hS).1,
    (AccCompose.total_sound_pure stages hst l hrec hδ μ S hS).2⟩

/-- … for what `total()` returns on an accountant with slack 0 after ANY operation sequence: the recorded history
is the initial spends followed by the accepted ones (`run_spent_eq`) -/
theorem accountant_run_sound_pure {Y : Type*} [MeasurableSpace Y] (a : Acc ℝ) (ops : List (AOp ℝ))
    (h0 : (a.run ops).slack = 0) (hδ : ∀ s ∈ a.spent ++ acceptedSpends a ops, s.delta = 0)
    (t : Tot ℝ) (ht : (a.run ops).total = .ok t) (stages : List (ℝ × Kernel Y Y × Kernel Y Y))
    (hst : ∀ u ∈ stages, ∀ y S, MeasurableSet S → u.2.1 y S ≤ ENNReal.ofReal (Real.exp u.1) * u.2.2 y S)
    (hrec : (a.spent ++ acceptedSpends a ops).map (fun s => s.eps) = stages.map Prod.fst)
    (μ : Measure Y) (S : Set Y) (hS : MeasurableSet S) :
    t.eps = sumEps (a.spent ++ acceptedSpends a ops) ∧ t.delta = 0 ∧
    Compose.iter (fun u => u.2.1) μ stages S ≤
      ENNReal.ofReal (Real.exp t.eps) * Compose.iter (fun u => u.2.2) μ stages S := by
  rw [← run_spent_eq] at hδ hrec ⊢
  exact AccCompose.acc_total_sound_pure (a.run ops) h0 hδ t ht stages hst hrec μ S hS

/-- non-vacuity: two recorded spends (1, 0), (2, 0); two stages that are 1-DP and 2-DP (identical kernels are);
the hypotheses hold and the reported epsilon is 3 -/
example (κ : Kernel ℝ ℝ) :
    (∀ t ∈ [((1 : ℝ), κ, κ), (2, κ, κ)], ∀ y S, MeasurableSet S →
      t.2.1 y S ≤ ENNReal.ofReal (Real.exp t.1) * t.2.2 y S) ∧
    ([⟨1, 0⟩, ⟨2, 0⟩] : List (Spend ℝ)).map (fun s => s.eps) = [((1 : ℝ), κ, κ), (2, κ, κ)].map Prod.fst ∧
    (∀ s ∈ ([⟨1, 0⟩, ⟨2, 0⟩] : List (Spend ℝ)), s.delta = 0) ∧ (totalCore [⟨1, 0⟩, ⟨2, 0⟩] (0 : ℝ)).eps = 3 := by
  refine ⟨?_, by simp, by simp, ?_⟩
  · intro t ht y S _
    simp only [List.mem_cons, List.not_mem_nil, or_false] at ht
    have h1 : ∀ e : ℝ, 0 ≤ e → (1 : ENNReal) ≤ ENNReal.ofReal (Real.exp e) := fun e he => by
      rw [← ENNReal.ofReal_one]; exact ENNReal.ofReal_le_ofReal (Real.one_le_exp he)
    rcases ht with rfl | rfl
    · exact le_mul_of_one_le_left' (h1 1 (by norm_num))
    · exact le_mul_of_one_le_left' (h1 2 (by norm_num))
  · rw [(total_basic _).1]; norm_num [sumEps]

/-- the GENERAL statement (recorded δᵢ > 0, slack δ̃ > 0) — CITED, not proved: Kairouz, Oh, Viswanath 2017, Thm 3.5
(heterogeneous adaptive composition): stages that are (εᵢ, δᵢ)-DP in both directions compose to
(`total.eps`, `total.delta`)-DP, where `total` is `kov` / `kovDelta` (`total_eps_eq`, `total_delta_eq`); at slack 0
it is basic composition (Σ εᵢ, 1 − Π(1 − δᵢ)).  `accountant_total_sound_pure` is the instance δᵢ = 0, slack = 0. -/
def accountant_total_sound_full : Prop :=
  ∀ (Y : Type) [MeasurableSpace Y] (stages : List (Spend ℝ × Kernel Y Y × Kernel Y Y)) (slack : ℝ),
    0 ≤ slack → slack ≤ 1 →
    (∀ t ∈ stages, 0 ≤ t.1.eps ∧ 0 ≤ t.1.delta ∧ t.1.delta ≤ 1 ∧ IsMarkovKernel t.2.1 ∧ IsMarkovKernel t.2.2 ∧
      ∀ y S, MeasurableSet S →
        t.2.1 y S ≤ ENNReal.ofReal (Real.exp t.1.eps) * t.2.2 y S + ENNReal.ofReal t.1.delta ∧
        t.2.2 y S ≤ ENNReal.ofReal (Real.exp t.1.eps) * t.2.1 y S + ENNReal.ofReal t.1.delta) →
    ∀ (μ : Measure Y) [IsProbabilityMeasure μ] (S : Set Y), MeasurableSet S →
      Compose.iter (fun t => t.2.1) μ (stages.map fun t => (t.1.eps, t.2.1, t.2.2)) S ≤
        ENNReal.ofReal (Real.exp (totalCore (stages.map Prod.fst) slack).eps) *
          Compose.iter (fun t => t.2.2) μ (stages.map fun t => (t.1.eps, t.2.1, t.2.2)) S +
        ENNReal.ofReal (totalCore (stages.map Prod.fst) slack).delta

end Soundness

end DPL.C05
