/-
C04 — the budget accountant never lets the recorded spend exceed its ceiling.

All theorems in the first part hold for an ARBITRARY numeric carrier `α` with arbitrary (possibly non-transitive,
NaN-afflicted) comparison and arithmetic — hence also for the IEEE doubles the Python code really computes with.
The second part specialises to ℝ, where the invariant unfolds to `total ≤ ceiling` componentwise.
-/
import DPL.Model.Accountant
import Mathlib.Data.Real.Basic
import Mathlib.Analysis.SpecialFunctions.Pow.Real
import DPL.Proofs.RealCarrier

namespace DPL.C04
open DPL

section generic
variable {α : Type} [OfNat α 0] [OfNat α 1] [OfNat α 2] [Add α] [Sub α] [Mul α] [Div α] [Neg α]
  [LT α] [LE α] [DecidableLT α] [DecidableLE α] [NatCast α] [Transc α] [HasInf α]

/-- "the accountant's own `total()` is accepted by the comparison the code performs against the ceiling":
either the unlimited shortcut applies, or `Budget(ceiling) >= total` (the test in `check`), or
`not (ceiling < total)` componentwise (the test in the slack setter). -/
def Fits (a : Acc α) : Prop :=
  a.unlimited = true ∨
  (∃ t, a.total = .ok t ∧ t.eps ≤ a.ceilEps ∧ t.delta ≤ a.ceilDelta) ∨
  (∃ t, a.total = .ok t ∧ ¬ a.ceilEps < t.eps ∧ ¬ a.ceilDelta < t.delta)

theorem check_ok_fits (a : Acc α) (e d : α) (h : a.check e d = .ok ()) :
    Fits { a with spent := a.spent ++ [⟨e, d⟩] } := by
  unfold Acc.check at h
  simp only [bind, Except.bind, pure, Except.pure] at h
  split at h
  · cases h
  · by_cases hu : a.unlimited = true
    · left; simpa [Acc.unlimited] using hu
    · right; left
      simp only [hu, Bool.false_eq_true, ↓reduceIte] at h
      split at h
      · cases h
      · split at h
        · cases h
        · rename_i hf
          split at h
          · cases h
          · rename_i b hb
            split at h
            · rename_i hc
              simp only [Bool.and_eq_true, decide_eq_true_eq] at hc
              exact ⟨b, by simpa [Acc.total] using hb, hc.1, hc.2⟩
            · cases h

theorem spend_ok_fits (a a' : Acc α) (e d : α) (h : a.spend e d = .ok a') : Fits a' := by
  unfold Acc.spend at h
  simp only [bind, Except.bind, pure, Except.pure] at h
  split at h
  · cases h
  · rename_i u hu
    cases u
    cases h
    exact check_ok_fits a e d hu

theorem setSlack_ok_fits (a a' : Acc α) (s : α) (h : a.setSlack s = .ok a') : Fits a' := by
  unfold Acc.setSlack at h
  simp only [bind, Except.bind, pure, Except.pure] at h
  split at h
  · cases h
  · split at h
    · cases h
    · rename_i b hb
      split at h
      · cases h
      · rename_i hc
        cases h
        simp only [Bool.or_eq_true, decide_eq_true_eq, not_or] at hc
        right; right
        exact ⟨b, by simpa [Acc.total] using hb, hc.1, hc.2⟩

/-- one step preserves the invariant -/
theorem step_fits (a : Acc α) (op : AOp α) (h : Fits a) : Fits (a.step op).1 := by
  cases op with
  | spend e d =>
    simp only [Acc.step]
    split
    · rename_i a' ha; exact spend_ok_fits a a' e d ha
    · exact h
  | check e d => exact h
  | setSlack s =>
    simp only [Acc.step]
    split
    · rename_i a' ha; exact setSlack_ok_fits a a' s ha
    · exact h
  | query => exact h

/-- ★ C04 (any carrier): after ANY finite sequence of operations the accountant's own total is accepted by the
very comparison the code performs against the ceiling. -/
theorem run_fits (ops : List (AOp α)) (a : Acc α) (h : Fits a) : Fits (a.run ops) := by
  unfold Acc.run
  induction ops generalizing a with
  | nil => exact h
  | cons op ops ih => exact ih _ (step_fits a op h)

/-- ★ the constructor (with prior spends) establishes the invariant -/
theorem new_fits (eps delta slack mf : α) (prior : List (Spend α)) (a : Acc α)
    (h : Acc.new eps delta slack mf prior = .ok a) : Fits a := by
  unfold Acc.new at h
  simp only [bind, Except.bind, pure, Except.pure] at h
  split at h
  · cases h
  · split at h
    · cases h
    · rename_i a1 h1
      have f1 := setSlack_ok_fits _ a1 slack h1
      clear h1
      induction prior generalizing a1 with
      | nil => simp only [List.foldlM, pure, Except.pure] at h; cases h; exact f1
      | cons sp rest ih =>
        simp only [List.foldlM, bind, Except.bind] at h
        split at h
        · cases h
        · rename_i a2 h2
          exact ih a2 h (spend_ok_fits a1 a2 _ _ h2)

/-- ★ a refused operation (any error kind) leaves spends, slack and ceilings exactly as they were -/
theorem step_refused_noop (a : Acc α) (op : AOp α) (h : (a.step op).2 ≠ .ok) : (a.step op).1 = a := by
  cases op with
  | spend e d => simp only [Acc.step] at *; split <;> simp_all
  | check e d => rfl
  | setSlack s => simp only [Acc.step] at *; split <;> simp_all
  | query => rfl

/-- ★ recorded spends can only be appended to; ceilings never change -/
theorem step_spent_prefix (a : Acc α) (op : AOp α) :
    (∃ l, (a.step op).1.spent = a.spent ++ l) ∧ (a.step op).1.ceilEps = a.ceilEps ∧
      (a.step op).1.ceilDelta = a.ceilDelta := by
  cases op with
  | spend e d =>
    simp only [Acc.step]
    split
    · rename_i a' ha
      unfold Acc.spend at ha
      simp only [bind, Except.bind, pure, Except.pure] at ha
      split at ha
      · cases ha
      · cases ha; exact ⟨⟨_, rfl⟩, rfl, rfl⟩
    · exact ⟨⟨[], by simp⟩, rfl, rfl⟩
  | check e d => exact ⟨⟨[], by simp [Acc.step]⟩, rfl, rfl⟩
  | setSlack s =>
    simp only [Acc.step]
    split
    · rename_i a' ha
      unfold Acc.setSlack at ha
      simp only [bind, Except.bind, pure, Except.pure] at ha
      split at ha
      · cases ha
      · split at ha
        · cases ha
        · split at ha
          · cases ha
          · cases ha; exact ⟨⟨[], by simp⟩, rfl, rfl⟩
    · exact ⟨⟨[], by simp⟩, rfl, rfl⟩
  | query => exact ⟨⟨[], by simp [Acc.step]⟩, rfl, rfl⟩

theorem run_spent_prefix (ops : List (AOp α)) (a : Acc α) : ∃ l, (a.run ops).spent = a.spent ++ l := by
  unfold Acc.run
  induction ops generalizing a with
  | nil => exact ⟨[], by simp⟩
  | cons op ops ih =>
    obtain ⟨l1, h1⟩ := (step_spent_prefix a op).1
    obtain ⟨l2, h2⟩ := ih (a.step op).1
    exact ⟨l1 ++ l2, by simp only [List.foldl_cons]; rw [h2, h1, List.append_assoc]⟩

/-- a spend is recorded iff the check accepts it, and then exactly that spend is appended -/
theorem spend_iff_check (a : Acc α) (e d : α) :
    (a.step (.spend e d)).2 = (a.step (.check e d)).2 ∧
    ((a.step (.spend e d)).2 = .ok → (a.step (.spend e d)).1.spent = a.spent ++ [⟨e, d⟩]) := by
  simp only [Acc.step, Acc.spend, bind, Except.bind, pure, Except.pure]
  cases hc : a.check e d <;> simp [Res.ofExcept]

end generic

/-! ### over ℝ: the invariant is `total ≤ ceiling` componentwise -/

/-- C04 over ℝ: every accountant reachable from the constructor by any operation sequence reports a total that is
at most the ceiling in both components. -/
theorem total_le_ceiling (eps delta slack mf : ℝ) (prior : List (Spend ℝ)) (a : Acc ℝ)
    (h : Acc.new eps delta slack mf prior = .ok a) (ops : List (AOp ℝ)) :
    ∃ t, (a.run ops).total = .ok t ∧ t.eps ≤ (a.run ops).ceilEps ∧ t.delta ≤ (a.run ops).ceilDelta := by
  have hf := run_fits ops a (new_fits eps delta slack mf prior a h)
  rcases hf with hu | ⟨t, ht, h1, h2⟩ | ⟨t, ht, h1, h2⟩
  · simp [Acc.unlimited, HasInf.isPosInf] at hu
  · exact ⟨t, ht, h1, h2⟩
  · exact ⟨t, ht, not_lt.mp h1, not_lt.mp h2⟩

/-- non-vacuity: a concrete accountant over ℝ is constructed and accepts a spend -/
example : ∃ a, Acc.new (1 : ℝ) 0 0 0 [] = .ok a ∧ (a.step (.spend (1/2) 0)).2 = .ok := by
  refine ⟨⟨1, 0, 0, 0, []⟩, ?_, ?_⟩
  · norm_num [Acc.new, checkEpsDelta, feq, Acc.setSlack, totalCore, epsSums, totalDeltaSafe, sortAsc, insertSorted,
      mkBudget, bind, Except.bind, pure, Except.pure, HasInf.isPosInf]
  · norm_num [Acc.step, Acc.spend, Acc.check, checkEpsDelta, feq, Acc.unlimited, totalCore, epsSums,
      totalDeltaSafe, sortAsc, insertSorted, mkBudget, bind, Except.bind, pure, Except.pure, HasInf.isPosInf,
      List.forM, List.foldl]

end DPL.C04
