/-
C04 — the budget accountant never lets the recorded spend exceed its ceiling.

All theorems in the first part hold for an ARBITRARY numeric carrier `α` with arbitrary (possibly non-transitive,
NaN-afflicted) comparison and arithmetic — hence also for the IEEE doubles the Python code really computes with.
The second part specialises to ℝ, where the invariant unfolds to `total ≤ ceiling` componentwise.
The third part (`sum_fp_bound`, DESIGN §6 C04 stretch) explains the property's 1e-12 exact-arithmetic slack for slack-0
accountants: under the standard model of floating-point addition (an explicit hypothesis about the carrier's `+`) the
EXACT sum of the `n` recorded epsilons of any reachable accountant is at most `ceiling · g^(n−1)`, and for binary64
`g^(n−1) ≤ 1 + 1e-12` up to `n = 9000`.
-/
import DPL.Model.Accountant
import Mathlib.Data.Real.Basic
import Mathlib.Analysis.SpecialFunctions.Pow.Real
import DPL.Proofs.RealCarrier
import DPL.Proofs.AccountantFp
import DPL.Proofs.AccountantIR

namespace DPL.C04
open DPL

section generic
variable {α : Type} [OfNat α 0] [OfNat α 1] [OfNat α 2] [Add α] [Sub α] [Mul α] [Div α] [Neg α]
  [LT α] [LE α] [DecidableLT α] [DecidableLE α] [NatCast α] [Transc α] [HasInf α]

/-- "the accountant's own `total()` is accepted by the comparison the code performs against the ceiling":
either the unlimited shortcut applies, or `Budget(ceiling) >= total` (the test in `check`), or
`not (ceiling < total)` componentwise (the test in the slack setter). -/
def Fits (a : Acc α) : Prop :=
  a.unlimited = true ∨
  (∃ t, a.total = .ok t ∧ t.eps ≤ a.ceilEps ∧ t.delta ≤ a.ceilDelta) ∨
  (∃ t, a.total = .ok t ∧ ¬ a.ceilEps < t.eps ∧ ¬ a.ceilDelta < t.delta)

theorem check_ok_fits (a : Acc α) (e d : α) (h : a.check e d = .ok ()) :
    Fits { a with spent := a.spent ++ [⟨e, d⟩] } := by
  unfold Acc.check at h
  simp only [bind, Except.bind, pure, Except.pure] at h
  split at h
  · cases h
  · by_cases hu : a.unlimited = true
    · left; simpa [Acc.unlimited] using hu
    · right; left
      simp only [hu, Bool.false_eq_true, ↓reduceIte] at h
      split at h
      · cases h
      · split at h
        · cases h
        · rename_i hf
          split at h
          · cases h
          · rename_i b hb
            split at h
            · rename_i hc
              simp only [Bool.and_eq_true, decide_eq_true_eq] at hc
              exact ⟨b, by simpa [Acc.total] using hb, hc.1, hc.2⟩
            · cases h

theorem spend_ok_fits (a a' : Acc α) (e d : α) (h : a.spend e d = .ok a') : Fits a' := by
  unfold Acc.spend at h
  simp only [bind, Except.bind, pure, Except.pure] at h
  split at h
  · cases h
  · rename_i u hu
    cases u
    cases h
    exact check_ok_fits a e d hu

theorem setSlack_ok_fits (a a' : Acc α) (s : α) (h : a.setSlack s = .ok a') : Fits a' := by
  unfold Acc.setSlack at h
  simp only [bind, Except.bind, pure, Except.pure] at h
  split at h
  · cases h
  · split at h
    · cases h
    · rename_i b hb
      split at h
      · cases h
      · rename_i hc
        cases h
        simp only [Bool.or_eq_true, decide_eq_true_eq, not_or] at hc
        right; right
        exact ⟨b, by simpa [Acc.total] using hb, hc.1, hc.2⟩

/-- one step preserves the invariant -/
theorem step_fits (a : Acc α) (op : AOp α) (h : Fits a) : Fits (a.step op).1 := by
  cases op with
  | spend e d =>
    simp only [Acc.step]
    split
    · rename_i a' ha; exact spend_ok_fits a a' e d ha
    · exact h
  | check e d => exact h
  | setSlack s =>
    simp only [Acc.step]
    split
    · rename_i a' ha; exact setSlack_ok_fits a a' s ha
    · exact h
  | query => exact h

/-- ★ C04 (any carrier): after ANY finite sequence of operations the accountant's own total is accepted by the
very comparison the code performs against the ceiling. -/
theorem run_fits (ops : List (AOp α)) (a : Acc α) (h : Fits a) : Fits (a.run ops) := by
  unfold Acc.run
  induction ops generalizing a with
  | nil => exact h
  | cons op ops ih => exact ih _ (step_fits a op h)

/-- ★ the constructor (with prior spends) establishes the invariant -/
theorem new_fits (eps delta slack mf : α) (prior : List (Spend α)) (a : Acc α)
    (h : Acc.new eps delta slack mf prior = .ok a) : Fits a := by
  unfold Acc.new at h
  simp only [bind, Except.bind, pure, Except.pure] at h
  split at h
  · cases h
  · split at h
    · cases h
    · rename_i a1 h1
      have f1 := setSlack_ok_fits _ a1 slack h1
      clear h1
      induction prior generalizing a1 with
      | nil => simp only [List.foldlM, pure, Except.pure] at h; cases h; exact f1
      | cons sp rest ih =>
        simp only [List.foldlM, bind, Except.bind] at h
        split at h
        · cases h
        · rename_i a2 h2
          exact ih a2 h (spend_ok_fits a1 a2 _ _ h2)

/-- ★ a refused operation (any error kind) leaves spends, slack and ceilings exactly as they were -/
theorem step_refused_noop (a : Acc α) (op : AOp α) (h : (a.step op).2 ≠ .ok) : (a.step op).1 = a := by
  cases op with
  | spend e d => simp only [Acc.step] at *; split <;> simp_all
  | check e d => rfl
  | setSlack s => simp only [Acc.step] at *; split <;> simp_all
  | query => rfl

/-- ★ recorded spends can only be appended to; ceilings never change -/
theorem step_spent_prefix (a : Acc α) (op : AOp α) :
    (∃ l, (a.step op).1.spent = a.spent ++ l) ∧ (a.step op).1.ceilEps = a.ceilEps ∧
      (a.step op).1.ceilDelta = a.ceilDelta := by
  cases op with
  | spend e d =>
    simp only [Acc.step]
    split
    · rename_i a' ha
      unfold Acc.spend at ha
      simp only [bind, Except.bind, pure, Except.pure] at ha
      split at ha
      · cases ha
      · cases ha; exact ⟨⟨_, rfl⟩, rfl, rfl⟩
    · exact ⟨⟨[], by simp⟩, rfl, rfl⟩
  | check e d => exact ⟨⟨[], by simp [Acc.step]⟩, rfl, rfl⟩
  | setSlack s =>
    simp only [Acc.step]
    split
    · rename_i a' ha
      unfold Acc.setSlack at ha
      simp only [bind, Except.bind, pure, Except.pure] at ha
      split at ha
      · cases ha
      · split at ha
        · cases ha
        · split at ha
          · cases ha
          · cases ha; exact ⟨⟨[], by simp⟩, rfl, rfl⟩
    · exact ⟨⟨[], by simp⟩, rfl, rfl⟩
  | query => exact ⟨⟨[], by simp [Acc.step]⟩, rfl, rfl⟩

theorem run_spent_prefix (ops : List (AOp α)) (a : Acc α) : ∃ l, (a.run ops).spent = a.spent ++ l := by
  unfold Acc.run
  induction ops generalizing a with
  | nil => exact ⟨[], by simp⟩
  | cons op ops ih =>
    obtain ⟨l1, h1⟩ := (step_spent_prefix a op).1
    obtain ⟨l2, h2⟩ := ih (a.step op).1
    exact ⟨l1 ++ l2, by simp only [List.foldl_cons]; rw [h2, h1, List.append_assoc]⟩

/-- a spend is recorded iff the check accepts it, and then exactly that spend is appended -/
theorem spend_iff_check (a : Acc α) (e d : α) :
    (a.step (.spend e d)).2 = (a.step (.check e d)).2 ∧
    ((a.step (.spend e d)).2 = .ok → (a.step (.spend e d)).1.spent = a.spent ++ [⟨e, d⟩]) := by
  simp only [Acc.step, Acc.spend, bind, Except.bind, pure, Except.pure]
  cases hc : a.check e d <;> simp [Res.ofExcept]

/-! #### every recorded ε passed `check_epsilon_delta` (needed by `sum_fp_bound`) -/

/-- every recorded spend satisfies the carrier's comparison `0 ≤ ε` -/
def SpendsValid (a : Acc α) : Prop := ∀ sp ∈ a.spent, 0 ≤ sp.eps

theorem check_ok_nonneg (a : Acc α) (e d : α) (h : a.check e d = .ok ()) : 0 ≤ e := by
  unfold Acc.check at h
  simp only [bind, Except.bind, pure, Except.pure] at h
  split at h
  · cases h
  · rename_i u hu
    unfold checkEpsDelta at hu
    split at hu
    · cases hu
    · rename_i hc
      simpa using hc

theorem spend_ok_valid (a a' : Acc α) (e d : α) (h : a.spend e d = .ok a') (hv : SpendsValid a) : SpendsValid a' := by
  unfold Acc.spend at h
  simp only [bind, Except.bind, pure, Except.pure] at h
  split at h
  · cases h
  · rename_i u hu
    cases u
    cases h
    intro sp hsp
    rcases List.mem_append.mp hsp with h1 | h1
    · exact hv sp h1
    · have : sp = ⟨e, d⟩ := by simpa using h1
      subst this
      exact check_ok_nonneg a e d hu

theorem setSlack_ok_spent (a a' : Acc α) (s : α) (h : a.setSlack s = .ok a') : a'.spent = a.spent := by
  unfold Acc.setSlack at h
  simp only [bind, Except.bind, pure, Except.pure] at h
  split at h
  · cases h
  · split at h
    · cases h
    · split at h
      · cases h
      · cases h; rfl

theorem step_valid (a : Acc α) (op : AOp α) (h : SpendsValid a) : SpendsValid (a.step op).1 := by
  cases op with
  | spend e d =>
    simp only [Acc.step]
    split
    · rename_i a' ha; exact spend_ok_valid a a' e d ha h
    · exact h
  | check e d => exact h
  | setSlack s =>
    simp only [Acc.step]
    split
    · rename_i a' ha
      intro sp hsp
      rw [setSlack_ok_spent a a' s ha] at hsp
      exact h sp hsp
    · exact h
  | query => exact h

theorem run_valid (ops : List (AOp α)) (a : Acc α) (h : SpendsValid a) : SpendsValid (a.run ops) := by
  unfold Acc.run
  induction ops generalizing a with
  | nil => exact h
  | cons op ops ih => exact ih _ (step_valid a op h)

theorem new_valid (eps delta slack mf : α) (prior : List (Spend α)) (a : Acc α)
    (h : Acc.new eps delta slack mf prior = .ok a) : SpendsValid a := by
  unfold Acc.new at h
  simp only [bind, Except.bind, pure, Except.pure] at h
  split at h
  · cases h
  · split at h
    · cases h
    · rename_i a1 h1
      have f1 : SpendsValid a1 := by
        intro sp hsp
        rw [setSlack_ok_spent _ a1 slack h1] at hsp
        simp at hsp
      clear h1
      induction prior generalizing a1 with
      | nil => simp only [List.foldlM, pure, Except.pure] at h; cases h; exact f1
      | cons sp rest ih =>
        simp only [List.foldlM, bind, Except.bind] at h
        split at h
        · cases h
        · rename_i a2 h2
          exact ih a2 h (spend_ok_valid a1 a2 _ _ h2 f1)

end generic

/-! ### over ℝ: the invariant is `total ≤ ceiling` componentwise -/

/-- C04 over ℝ: every accountant reachable from the constructor by any operation sequence reports a total that is
at most the ceiling in both components. -/
theorem total_le_ceiling (eps delta slack mf : ℝ) (prior : List (Spend ℝ)) (a : Acc ℝ)
    (h : Acc.new eps delta slack mf prior = .ok a) (ops : List (AOp ℝ)) :
    ∃ t, (a.run ops).total = .ok t ∧ t.eps ≤ (a.run ops).ceilEps ∧ t.delta ≤ (a.run ops).ceilDelta := by
  have hf := run_fits ops a (new_fits eps delta slack mf prior a h)
  rcases hf with hu | ⟨t, ht, h1, h2⟩ | ⟨t, ht, h1, h2⟩
  · simp [Acc.unlimited, HasInf.isPosInf] at hu
  · exact ⟨t, ht, h1, h2⟩
  · exact ⟨t, ht, not_lt.mp h1, not_lt.mp h2⟩

/-- non-vacuity: a concrete accountant over ℝ is constructed and accepts a spend -/
example : ∃ a, Acc.new (1 : ℝ) 0 0 0 [] = .ok a ∧ (a.step (.spend (1/2) 0)).2 = .ok := by
  refine ⟨⟨1, 0, 0, 0, []⟩, ?_, ?_⟩
  · norm_num [Acc.new, checkEpsDelta, feq, Acc.setSlack, totalCore, epsSums, totalDeltaSafe, sortAsc, insertSorted,
      mkBudget, bind, Except.bind, pure, Except.pure, HasInf.isPosInf]
  · norm_num [Acc.step, Acc.spend, Acc.check, checkEpsDelta, feq, Acc.unlimited, totalCore, epsSums,
      totalDeltaSafe, sortAsc, insertSorted, mkBudget, bind, Except.bind, pure, Except.pure, HasInf.isPosInf,
      List.forM, List.foldl]

/-! ### `sum_fp_bound`: the exact sum of the recorded epsilons vs the ceiling, for slack-0 accountants

With slack 0 the accountant's total ε is the sequentially accumulated sum of the recorded epsilons, computed with the
carrier's `+` (`Fp.total_eps_slack0`, any carrier).  The carrier's relation to exact arithmetic is an explicit
hypothesis (`FpCarrier`): a valuation `val : α → ℝ` under which `0`, `0 + x` and the comparisons mean what they say
and every addition of non-negative numbers loses at most a factor `g` — which is what the standard model of
floating-point addition gives (`fpCarrier_of_inv`: `g = 1 + u`; `fpCarrier_of_std`: `g = 1/(1−u)`). -/

section fp
variable {α : Type} [OfNat α 0] [OfNat α 1] [OfNat α 2] [Add α] [Sub α] [Mul α] [Div α] [Neg α]
  [LT α] [LE α] [DecidableLT α] [DecidableLE α] [NatCast α] [Transc α] [HasInf α]

/-- what is assumed of the carrier (IEEE doubles without overflow/NaN are the intended instance) -/
structure FpCarrier (val : α → ℝ) (g : ℝ) : Prop where
  one_le : 1 ≤ g
  zero : val (0 : α) = 0
  exact0 : ∀ x : α, val (0 + x) = val x
  add : ∀ a b : α, 0 ≤ val a → 0 ≤ val b → val a + val b ≤ val (a + b) * g
  le : ∀ a b : α, a ≤ b → val a ≤ val b
  nlt : ∀ a b : α, ¬ a < b → val b ≤ val a

/-- the standard model in the form `a + b = fl(a+b)(1+θ)`, `|θ| ≤ u` (Higham (2.5)) gives the factor `1 + u` -/
theorem fpCarrier_of_inv (val : α → ℝ) (u : ℝ) (hu0 : 0 ≤ u) (hu1 : u < 1)
    (hstd : Fp.StdModelInv val (fun a b : α => a + b) u) (hzero : val (0 : α) = 0)
    (hexact0 : ∀ x : α, val (0 + x) = val x) (hle : ∀ a b : α, a ≤ b → val a ≤ val b)
    (hnlt : ∀ a b : α, ¬ a < b → val b ≤ val a) : FpCarrier val (1 + u) :=
  ⟨by linarith, hzero, hexact0, Fp.loss_of_inv val _ u hu1 hstd, hle, hnlt⟩

/-- the standard model in the form `fl(a+b) = (a+b)(1+θ)`, `|θ| ≤ u` (Higham (2.4)) gives the factor `1/(1−u)` -/
theorem fpCarrier_of_std (val : α → ℝ) (u : ℝ) (hu0 : 0 ≤ u) (hu1 : u < 1)
    (hstd : Fp.StdModel val (fun a b : α => a + b) u) (hzero : val (0 : α) = 0)
    (hexact0 : ∀ x : α, val (0 + x) = val x) (hle : ∀ a b : α, a ≤ b → val a ≤ val b)
    (hnlt : ∀ a b : α, ¬ a < b → val b ≤ val a) : FpCarrier val (1 / (1 - u)) :=
  ⟨by rw [le_div_iff₀ (by linarith)]; linarith, hzero, hexact0, Fp.loss_of_std val _ u hu1 hstd, hle, hnlt⟩

/-- ★ `sum_fp_bound`: for EVERY accountant reachable from the constructor by any operation sequence, if it is limited
and its slack is 0, the EXACT real sum of its `n` recorded epsilons is at most `ceiling · g^(n−1)` — because its own
carrier-computed total passed the comparison against the ceiling (`run_fits`) and every recorded ε is non-negative
(`run_valid`) -/
theorem sum_fp_bound (val : α → ℝ) (g : ℝ) (hc : FpCarrier val g)
    (eps delta slack mf : α) (prior : List (Spend α)) (a : Acc α) (h : Acc.new eps delta slack mf prior = .ok a)
    (ops : List (AOp α)) (hlim : (a.run ops).unlimited = false) (hs : feq (a.run ops).slack 0 = true) :
    ((a.run ops).spent.map fun sp => val sp.eps).sum ≤
      val (a.run ops).ceilEps * g ^ ((a.run ops).spent.length - 1) := by
  have hf := run_fits ops a (new_fits eps delta slack mf prior a h)
  have hv := run_valid ops a (new_valid eps delta slack mf prior a h)
  have hnn : ∀ sp ∈ (a.run ops).spent, 0 ≤ val sp.eps := fun sp hsp => by
    have := hc.le 0 sp.eps (hv sp hsp)
    rwa [hc.zero] at this
  have hg0 : 0 ≤ g ^ ((a.run ops).spent.length - 1) := pow_nonneg (le_trans zero_le_one hc.one_le) _
  rcases hf with hu | ⟨t, ht, h1, _⟩ | ⟨t, ht, h1, _⟩
  · rw [hlim] at hu; cases hu
  · exact le_trans (Fp.acc_sum_le_total val g hc.one_le hc.zero hc.exact0 hc.add _ hs hnn t ht)
      (mul_le_mul_of_nonneg_right (hc.le _ _ h1) hg0)
  · exact le_trans (Fp.acc_sum_le_total val g hc.one_le hc.zero hc.exact0 hc.add _ hs hnn t ht)
      (mul_le_mul_of_nonneg_right (hc.nlt _ _ h1) hg0)

/-- … instantiated for binary64 (`u = 2⁻⁵³`, either form of the standard model) and at most 9000 recorded spends: the
exact sum is at most `ceiling · (1 + 1e-12)` — the slack the direct check of C04 allows in exact arithmetic -/
theorem sum_fp_bound_binary64 (val : α → ℝ)
    (hstd : Fp.StdModelInv val (fun a b : α => a + b) Fp.u64 ∨ Fp.StdModel val (fun a b : α => a + b) Fp.u64)
    (hzero : val (0 : α) = 0) (hexact0 : ∀ x : α, val (0 + x) = val x)
    (hle : ∀ a b : α, a ≤ b → val a ≤ val b) (hnlt : ∀ a b : α, ¬ a < b → val b ≤ val a)
    (eps delta slack mf : α) (prior : List (Spend α)) (a : Acc α) (h : Acc.new eps delta slack mf prior = .ok a)
    (ops : List (AOp α)) (hlim : (a.run ops).unlimited = false) (hs : feq (a.run ops).slack 0 = true)
    (hlen : (a.run ops).spent.length ≤ 9000) :
    ((a.run ops).spent.map fun sp => val sp.eps).sum ≤ val (a.run ops).ceilEps * (1 + 1 / 10 ^ 12) := by
  have hk : (a.run ops).spent.length - 1 ≤ 8999 := by omega
  have hfac := Fp.factor_9000 _ hk
  have hv := run_valid ops a (new_valid eps delta slack mf prior a h)
  have hsum0 : 0 ≤ ((a.run ops).spent.map fun sp => val sp.eps).sum := by
    apply List.sum_nonneg
    intro x hx
    obtain ⟨sp, hsp, rfl⟩ := List.mem_map.mp hx
    have := hle 0 sp.eps (hv sp hsp)
    rwa [hzero] at this
  -- in both forms: sum ≤ ceiling · g^(n−1) with 0 < g^(n−1) ≤ 1 + 1e-12
  have key : ∀ g : ℝ, FpCarrier val g → g ^ ((a.run ops).spent.length - 1) ≤ 1 + 1 / 10 ^ 12 →
      ((a.run ops).spent.map fun sp => val sp.eps).sum ≤ val (a.run ops).ceilEps * (1 + 1 / 10 ^ 12) := by
    intro g hc hg
    have hb := sum_fp_bound val g hc eps delta slack mf prior a h ops hlim hs
    have hgpos : 0 < g ^ ((a.run ops).spent.length - 1) := pow_pos (lt_of_lt_of_le one_pos hc.one_le) _
    have hceil : 0 ≤ val (a.run ops).ceilEps := by
      by_contra hneg
      have : val (a.run ops).ceilEps * g ^ ((a.run ops).spent.length - 1) < 0 :=
        mul_neg_of_neg_of_pos (not_le.mp hneg) hgpos
      linarith
    exact le_trans hb (mul_le_mul_of_nonneg_left hg hceil)
  rcases hstd with hm | hm
  · exact key _ (fpCarrier_of_inv val Fp.u64 Fp.u64_pos.le Fp.u64_lt_one hm hzero hexact0 hle hnlt) hfac.1
  · exact key _ (fpCarrier_of_std val Fp.u64 Fp.u64_pos.le Fp.u64_lt_one hm hzero hexact0 hle hnlt) hfac.2

end fp

/-- the list form over ℝ, for an abstract rounded addition `fl_add` with exact `0 ⊕ x`: the exact sum of `n`
non-negative numbers vs their float-accumulated sum `((0 ⊕ x₁) ⊕ x₂) ⊕ … ⊕ xₙ`, in both forms of the standard model -/
theorem sum_fp_bound_list (fl_add : ℝ → ℝ → ℝ) (u : ℝ) (hu0 : 0 ≤ u) (hu1 : u < 1) (hzero : ∀ x, fl_add 0 x = x)
    (xs : List ℝ) (hx : ∀ x ∈ xs, 0 ≤ x) :
    (Fp.StdModelInv id fl_add u → xs.sum ≤ xs.foldl fl_add 0 * (1 + u) ^ (xs.length - 1)) ∧
    (Fp.StdModel id fl_add u → xs.sum * (1 - u) ^ (xs.length - 1) ≤ xs.foldl fl_add 0) := by
  constructor
  · intro hm
    have := Fp.sum_le_accumulated fl_add id 0 (1 + u) (by linarith) rfl hzero (Fp.loss_of_inv id fl_add u hu1 hm) xs hx
    simpa using this
  · intro hm
    have hpos : 0 < 1 - u := by linarith
    have := Fp.sum_le_accumulated fl_add id 0 (1 / (1 - u)) (by rw [le_div_iff₀ hpos]; linarith) rfl hzero
      (Fp.loss_of_std id fl_add u hu1 hm) xs hx
    rw [List.map_id, one_div_pow, mul_one_div, le_div_iff₀ (pow_pos hpos _)] at this
    exact this

/-- binary64: `(1 + 2⁻⁵³)^(n−1) ≤ 1 + 1e-12` and `(1 − 2⁻⁵³)^(−(n−1)) ≤ 1 + 1e-12` for `n ≤ 9000` -/
theorem fp_slack_9000 (n : ℕ) (hn : n ≤ 9000) :
    (1 + (1 : ℝ) / 2 ^ 53) ^ (n - 1) ≤ 1 + 1 / 10 ^ 12 ∧ (1 / (1 - (1 : ℝ) / 2 ^ 53)) ^ (n - 1) ≤ 1 + 1 / 10 ^ 12 :=
  Fp.factor_9000 (n - 1) (by omega)

/-- non-vacuity of `FpCarrier`: exact arithmetic (ℝ itself, `g = 1`) is an instance, and so is any rounded addition
on ℝ that is exact on `0 + x` and follows the standard model -/
example : FpCarrier (α := ℝ) id 1 :=
  ⟨le_refl _, rfl, fun x => zero_add x, fun a b _ _ => by simp, fun _ _ h => h, fun _ _ h => not_lt.mp h⟩

/-! ### the methods as coded: static control-flow tie (`DPL/Model/AccountantIR.lean`)

The bodies of `check`, `spend` and the `slack` setter, written as terms of a small IR and interpreted statement by
statement (validation call, guards, `total(…)` bindings, raises, append, assignment, returns), ARE the model's `Acc.step`
— the machine `run_fits`, `spend_iff_check`, `step_refused_noop` … are about.  `DPL/Generated/C04Methods.lean` proves the
same for the bodies re-read from /repo's current AST on every run (same proof scripts). -/
section methods
open AccIR
variable {α : Type} [OfNat α 0] [OfNat α 1] [OfNat α 2] [Add α] [Sub α] [Mul α] [Div α] [Neg α]
  [LT α] [LE α] [DecidableLT α] [DecidableLE α] [NatCast α] [Transc α] [HasInf α]

/-- for ANY carrier: final state (also of a refused call) and outcome of the interpreted bodies = the model's step -/
theorem accountant_methods_as_coded (a : Acc α) (e d s : α) :
    execCheck handCheck a e d = a.step (.check e d) ∧
    execSpend handCheck handSpend a e d = a.step (.spend e d) ∧
    execSetSlack handSetSlack a s = a.step (.setSlack s) :=
  ⟨handCheck_ok a e d, handSpend_ok a e d, handSetSlack_ok a s⟩

/-- … as equalities of functions of state and arguments with the model's `check` / `spend` / `setSlack` -/
theorem accountant_methods_as_coded_fun :
    (fun (a : Acc α) e d => execCheck handCheck a e d) = (fun a e d => (a, Res.ofExcept (a.check e d))) ∧
    (fun (a : Acc α) e d => execSpend handCheck handSpend a e d) =
      (fun a e d => match a.spend e d with | .ok a' => (a', .ok) | .error x => (a, .err x)) ∧
    (fun (a : Acc α) s => execSetSlack handSetSlack a s) =
      (fun a s => match a.setSlack s with | .ok a' => (a', .ok) | .error x => (a, .err x)) :=
  ⟨funext fun a => funext fun e => funext fun d => handCheck_ok a e d,
   funext fun a => funext fun e => funext fun d => handSpend_ok a e d,
   funext fun a => funext fun s => handSetSlack_ok a s⟩

/-- the operation machine with the three methods run from their bodies -/
def stepCoded (a : Acc α) : AOp α → Acc α × Res
  | .spend e d => execSpend handCheck handSpend a e d
  | .check e d => execCheck handCheck a e d
  | .setSlack s => execSetSlack handSetSlack a s
  | .query => (a, .ok)

theorem stepCoded_eq (a : Acc α) (op : AOp α) : stepCoded a op = a.step op := by
  cases op
  · exact handSpend_ok a _ _
  · exact handCheck_ok a _ _
  · exact handSetSlack_ok a _
  · rfl

/-- the invariant of C04 for the machine run from the bodies -/
theorem run_coded_fits (ops : List (AOp α)) (a : Acc α) (h : Fits a) :
    Fits (ops.foldl (fun a op => (stepCoded a op).1) a) := by
  have : (fun (a : Acc α) op => (stepCoded a op).1) = fun a op => (a.step op).1 := by
    funext a op; rw [stepCoded_eq]
  rw [this]; exact run_fits ops a h

end methods

section methods_cex
open AccIR

/-- `check` comparing the new total ε with `<` instead of `<=` -/
def badCheckLt : Prog :=
  [ .validate .eps .delta false,
    .retIf (.and (.isInf .ceilEps) (.eq .ceilDelta .one)),
    .raiseIf .valueError (.and (.lt .zero .eps) (.lt .eps .minEps)),
    .letTotal (.ownPlus .eps .delta) .own,
    .retIf (.and (.lt .totEps .ceilEps) (.le .totDelta .ceilDelta)),
    .raise .budgetError ]

/-- `check` that forgets the δ comparison -/
def badCheckNoDelta : Prog :=
  [ .validate .eps .delta false,
    .retIf (.and (.isInf .ceilEps) (.eq .ceilDelta .one)),
    .raiseIf .valueError (.and (.lt .zero .eps) (.lt .eps .minEps)),
    .letTotal (.ownPlus .eps .delta) .own,
    .retIf (.le .totEps .ceilEps),
    .raise .budgetError ]

/-- `spend` that appends before it calls `check` -/
def badSpendAppendFirst : Prog :=
  [ .append .eps .delta, .callCheck .eps .delta, .ret ]

/-- the accountant `BudgetAccountant(1, 0)` over ℝ -/
def acc10 : Acc ℝ := ⟨1, 0, 0, 0, []⟩

/-- the tie discriminates `<` from `<=`: spending exactly the ceiling is accepted by the model (and the code), refused by
the `<` variant -/
theorem check_lt_cex :
    execCheck badCheckLt acc10 1 0 = (acc10, .err .budgetError) ∧ acc10.step (.check 1 0) = (acc10, .ok) ∧
    ¬ CheckOk badCheckLt := by
  have h1 : execCheck badCheckLt acc10 1 0 = (acc10, .err .budgetError) := by
    norm_num [execCheck, badCheckLt, exec, evalC, evalA, evalSpent, evalSlack, totalOf, acc10, checkEpsDelta, feq,
      totalCore, epsSums, totalDeltaSafe, sortAsc, insertSorted, mkBudget, HasInf.isPosInf, List.forM, List.foldl,
      bind, Except.bind, pure, Except.pure, throw, throwThe, MonadExceptOf.throw]
  have h2 : acc10.step (.check 1 0) = (acc10, .ok) := by
    norm_num [Acc.step, Acc.check, Res.ofExcept, acc10, checkEpsDelta, feq, Acc.unlimited, totalCore, epsSums,
      totalDeltaSafe, sortAsc, insertSorted, mkBudget, HasInf.isPosInf, List.forM, List.foldl,
      bind, Except.bind, pure, Except.pure, throw, throwThe, MonadExceptOf.throw]
  refine ⟨h1, h2, fun h => ?_⟩
  have := h acc10 1 0
  rw [h1, h2] at this
  cases this

/-- the tie sees a dropped δ comparison: `(0, 1/2)` against a δ-ceiling of 0 -/
theorem check_no_delta_cex :
    execCheck badCheckNoDelta acc10 0 (1/2) = (acc10, .ok) ∧
    acc10.step (.check 0 (1/2)) = (acc10, .err .budgetError) ∧ ¬ CheckOk badCheckNoDelta := by
  have h1 : execCheck badCheckNoDelta acc10 0 (1/2) = (acc10, .ok) := by
    norm_num [execCheck, badCheckNoDelta, exec, evalC, evalA, evalSpent, evalSlack, totalOf, acc10, checkEpsDelta, feq,
      totalCore, epsSums, totalDeltaSafe, sortAsc, insertSorted, mkBudget, HasInf.isPosInf, List.forM, List.foldl,
      bind, Except.bind, pure, Except.pure, throw, throwThe, MonadExceptOf.throw]
  have h2 : acc10.step (.check 0 (1/2)) = (acc10, .err .budgetError) := by
    norm_num [Acc.step, Acc.check, Res.ofExcept, acc10, checkEpsDelta, feq, Acc.unlimited, totalCore, epsSums,
      totalDeltaSafe, sortAsc, insertSorted, mkBudget, HasInf.isPosInf, List.forM, List.foldl,
      bind, Except.bind, pure, Except.pure, throw, throwThe, MonadExceptOf.throw]
  refine ⟨h1, h2, fun h => ?_⟩
  have := h acc10 0 (1/2)
  rw [h1, h2] at this
  cases this

/-- the tie sees the ORDER of `check` and `append` in `spend`: appending first refuses a spend of exactly the ceiling
(the total then counts it twice) and leaves it recorded although the call raised — the model (and the code) accept it -/
theorem spend_append_first_cex :
    execSpend handCheck badSpendAppendFirst acc10 1 0 = ({ acc10 with spent := [⟨1, 0⟩] }, .err .budgetError) ∧
    acc10.step (.spend 1 0) = ({ acc10 with spent := [⟨1, 0⟩] }, .ok) ∧
    ¬ SpendOk handCheck badSpendAppendFirst := by
  have h1 : execSpend handCheck badSpendAppendFirst acc10 1 0 =
      ({ acc10 with spent := [⟨1, 0⟩] }, .err .budgetError) := by
    norm_num [execSpend, execCheck, handCheck, badSpendAppendFirst, exec, evalC, evalA, evalSpent, evalSlack, totalOf,
      acc10, checkEpsDelta, feq, totalCore, epsSums, totalDeltaSafe, sortAsc, insertSorted, mkBudget, HasInf.isPosInf,
      List.forM, List.foldl, bind, Except.bind, pure, Except.pure, throw, throwThe, MonadExceptOf.throw]
  have h2 : acc10.step (.spend 1 0) = ({ acc10 with spent := [⟨1, 0⟩] }, .ok) := by
    norm_num [Acc.step, Acc.spend, Acc.check, acc10, checkEpsDelta, feq, Acc.unlimited, totalCore, epsSums,
      totalDeltaSafe, sortAsc, insertSorted, mkBudget, HasInf.isPosInf, List.forM, List.foldl,
      bind, Except.bind, pure, Except.pure, throw, throwThe, MonadExceptOf.throw]
  refine ⟨h1, h2, fun h => ?_⟩
  have := h acc10 1 0
  rw [h1, h2] at this
  cases this

/-- non-vacuity: the hand bodies do satisfy the contracts the bad ones fail, and on the very inputs of the
counter-examples the interpreted hand bodies give the model's answers -/
example : CheckOk handCheck ∧ SpendOk handCheck handSpend ∧ SetSlackOk handSetSlack :=
  ⟨handCheck_ok, handSpend_ok, handSetSlack_ok⟩
example : execCheck handCheck acc10 1 0 = (acc10, .ok) := by
  rw [handCheck_ok]; exact check_lt_cex.2.1
example : execSpend handCheck handSpend acc10 1 0 = ({ acc10 with spent := [⟨1, 0⟩] }, .ok) := by
  rw [handSpend_ok]; exact spend_append_first_cex.2.1

end methods_cex

end DPL.C04
