/-
C07 — tools: the noise matches one record's true influence and the ε split adds up.

The release plans are the executable definitions of `DPL/Model/PlanTools.lean` (the ones `Drivers/Tools.lean` runs on
IEEE doubles against the real tools, with interposed, forced mechanism outputs).  Here they are instantiated at ℝ.
Neighbouring datasets are `pre ++ x :: post` and `pre ++ y :: post`: one record replaced, at any position, for
EVERY size n ≥ 1, records arbitrary — also outside the bounds, because every plan clips first.

For a pair of traces of the same plan (same forced outputs) `dispOk` says `max_i d_i / sens_i ≤ 1` and `privLoss` is
`Σ_i ε_i · d_i / sens_i` (`DPL/Model/PrivLoss.lean`).

Known findings at HEAD (the model is faithful, the counter-examples are theorems, the proved statements are the
`_partial` ones — scalar AND `axis=` variants: `nanmean/nanvar/nanstd[_axis]_privloss_partial` on NaN-free data,
`nansum[_axis]_privloss_partial` on all data when 0 lies within the bounds —, the full statements are kept as
`def …_full : Prop`):
  * nanmean / nanvar / nanstd configure the sensitivity with `array.size`, which counts NaNs;
  * nansum: a NaN that becomes a value moves the sum by |clip v| > u − l when 0 ∉ [l, u];
  * histogram* with `weights`: the count moves by the weight, the sensitivity stays 1.
Not proved, tied by correspondence only: for the quantile family, that the coded interval representation (sorted
clipped data, interval lengths as base measure, utilities −|i − q k| per interval, uniform draw inside the selected
interval) has the rank-form density `rankDensity` about which `rank_exp_density_dp` speaks.
-/
import DPL.Model.PlanTools
import DPL.Model.PrivLoss
import DPL.Proofs.ToolsPlan
import DPL.Proofs.ToolsSens
import DPL.Proofs.ToolsHist
import DPL.Proofs.ToolsQuantile
import DPL.Proofs.ToolsNanAxis
import DPL.Proofs.ToolsCompose
import DPL.Proofs.ToolsCompose2
import DPL.Proofs.ToolsComposeGeom
import DPL.Proofs.KernelBridge
import DPL.Proofs.KernelBridge2

namespace DPL.C07
open DPL DPL.Tools

/-! ## sensitivity lemmas (every n ≥ 1, arbitrary records) -/

/-- `|mean(clip D) − mean(clip D')| ≤ (u − l)/n` -/
theorem mean_sens {l u : ℝ} (h : l ≤ u) (pre post : List ℝ) (x y : ℝ) :
    |mean ((pre ++ x :: post).map (clip l u)) - mean ((pre ++ y :: post).map (clip l u))| ≤
      (u - l) / ((pre ++ x :: post).length : ℝ) := Tools.mean_sens h pre post x y

/-- `|Σ clip D − Σ clip D'| ≤ u − l` -/
theorem sum_sens {l u : ℝ} (h : l ≤ u) (pre post : List ℝ) (x y : ℝ) :
    |Tools.sum ((pre ++ x :: post).map (clip l u)) - Tools.sum ((pre ++ y :: post).map (clip l u))| ≤ u - l :=
  Tools.sum_sens h pre post x y

/-- `|var(clip D) − var(clip D')| ≤ ((u − l)/n)² (n − 1)` -/
theorem var_sens {l u : ℝ} (h : l ≤ u) (pre post : List ℝ) (x y : ℝ) :
    |var ((pre ++ x :: post).map (clip l u)) - var ((pre ++ y :: post).map (clip l u))| ≤
      varSens (pre ++ x :: post).length l u := Tools.var_sens h pre post x y

/-- `count_nonzero`: the number of non-zero entries moves by at most 1 -/
theorem count_sens (pre post : List ℝ) (x y : ℝ) :
    |Tools.sum ((pre ++ x :: post).map (fun x => if eqv x 0 then (0 : ℝ) else 1)) -
      Tools.sum ((pre ++ y :: post).map (fun x => if eqv x 0 then (0 : ℝ) else 1))| ≤ 1 :=
  Tools.count_sens pre post x y

/-- `sum(dtype=int)`: clipped to the float bounds, truncated, summed: moves by at most `int(u) − int(l)` -/
theorem intsum_sens {l u : ℝ} (h : l ≤ u) (pre post : List ℝ) (x y : ℝ) :
    |Tools.sum ((pre ++ x :: post).map (fun x => truncv (clip l u x))) -
      Tools.sum ((pre ++ y :: post).map (fun x => truncv (clip l u x)))| ≤ truncv u - truncv l :=
  Tools.intsum_sens h pre post x y

/-- hist_sens: replacing one record changes the count of a bin by the difference of two 0/1 indicators — by at most
1 —, and of no bin at all when the record stays in its bin (any number of dimensions, any edges) -/
theorem hist_sens (edges : List (List ℝ)) (cell : List Nat) (pre post : List (WRow ℝ)) (r r' : WRow ℝ) :
    |cellCount edges false cell (pre ++ r :: post) - cellCount edges false cell (pre ++ r' :: post)| ≤ 1 ∧
    (binOf edges r.x = binOf edges r'.x →
      cellCount edges false cell (pre ++ r :: post) = cellCount edges false cell (pre ++ r' :: post)) ∧
    (binOf edges r.x ≠ some cell → binOf edges r'.x ≠ some cell →
      cellCount edges false cell (pre ++ r :: post) = cellCount edges false cell (pre ++ r' :: post)) := by
  refine ⟨cellCount_sens edges cell pre post r r', cellCount_same_bin edges cell pre post r r', ?_⟩
  intro h1 h2
  have := cellCount_replace edges cell pre post r r'
  unfold inCell at this
  simp only [beq_iff_eq, h1, h2, if_false, sub_self] at this
  linarith

/-! ## ε splits -/

/-- wrap_axis_split: the `size` output cells get `ε/size` each, which adds up to `ε`; and a record (one index along
the reduced axes = one row of the records × cells matrix) contributes exactly one entry to every cell, so
replacing it replaces one entry of every cell's sub-array -/
theorem wrap_axis_split (ε : ℝ) (size : Nat) (h : 0 < size) :
    ((List.range size).map (fun _ => ε / (size : ℝ))).sum = ε ∧
    ∀ {β : Type} (dflt : β) (c : Nat) (pre post : List (List β)) (r : List β),
      column dflt c (pre ++ r :: post) = column dflt c pre ++ r.getD c dflt :: column dflt c post :=
  ⟨split_sum ε size h, fun dflt c pre post r => column_replace dflt c pre post r⟩

/-- multi_quantile_split: `m` quantiles get `ε/m` each; over an axis with `n` cells every (quantile, cell) gets
`ε/m/n`; both add up to `ε` -/
theorem multi_quantile_split (ε : ℝ) (m n : Nat) (hm : 0 < m) (hn : 0 < n) :
    ((List.range m).map (fun _ => ε / (m : ℝ))).sum = ε ∧
    ((List.range (m * n)).map (fun _ => ε / (m : ℝ) / (n : ℝ))).sum = ε :=
  ⟨split_sum ε m hm, split_sum_nested ε m n hm hn⟩

/-! ## tool_privloss — scalar tools -/

/-- what C07 asks of a pair of traces: same configuration, same release, every displacement within its sensitivity,
weighted sum of the epsilons at most `bound` -/
def PrivLossOk {ρ : Type} (t t' : Trace ℝ ρ) (bound : ℝ) : Prop :=
  t.calls = t'.calls ∧ t.release = t'.release ∧ t.release.isSome ∧
    dispOk t.calls t.inputs t'.inputs = true ∧ privLoss t.calls t.inputs t'.inputs ≤ bound

/-- a one-invocation plan whose input moves by at most the configured sensitivity -/
theorem oneCall_privloss {δ ρ : Type} (c : MechCall ℝ) (inp : δ → ℝ) (g : ℝ → ρ) (D D' : δ) (o : ℝ)
    (hs : |inp D - inp D'| ≤ c.sens) (he : 0 ≤ c.eps) :
    PrivLossOk ((oneCall c inp g).run D [o]) ((oneCall c inp g).run D' [o]) c.eps := by
  rw [run_oneCall, run_oneCall]
  have hr := relDisp_le_one c (inp D) (inp D') hs
  refine ⟨rfl, rfl, rfl, ?_, ?_⟩
  · simp [dispOk, hr.2]
  · simp only [privLoss, add_zero]
    calc c.eps * relDisp c (inp D) (inp D') ≤ c.eps * 1 := mul_le_mul_of_nonneg_left hr.2 he
      _ = c.eps := mul_one _

theorem mean_privloss (ε l u : ℝ) (hε : 0 ≤ ε) (h : l ≤ u) (pre post : List ℝ) (x y o : ℝ) :
    PrivLossOk ((meanPlan (pre ++ x :: post).length ε l u).run (pre ++ x :: post) [o])
      ((meanPlan (pre ++ x :: post).length ε l u).run (pre ++ y :: post) [o]) ε :=
  oneCall_privloss _ _ id _ _ o (Tools.mean_sens h pre post x y) hε

theorem var_privloss (ε l u : ℝ) (hε : 0 ≤ ε) (h : l ≤ u) (pre post : List ℝ) (x y o : ℝ) :
    PrivLossOk ((varPlan (pre ++ x :: post).length ε l u).run (pre ++ x :: post) [o])
      ((varPlan (pre ++ x :: post).length ε l u).run (pre ++ y :: post) [o]) ε :=
  oneCall_privloss _ _ id _ _ o (Tools.var_sens h pre post x y) hε

theorem std_privloss (ε l u : ℝ) (hε : 0 ≤ ε) (h : l ≤ u) (pre post : List ℝ) (x y o : ℝ) :
    PrivLossOk ((stdPlan (pre ++ x :: post).length ε l u).run (pre ++ x :: post) [o])
      ((stdPlan (pre ++ x :: post).length ε l u).run (pre ++ y :: post) [o]) ε := by
  unfold stdPlan varPlan
  rw [single_eq_oneCall, map_oneCall]
  exact oneCall_privloss _ _ _ _ _ o (Tools.var_sens h pre post x y) hε

theorem sum_privloss (ε l u : ℝ) (hε : 0 ≤ ε) (h : l ≤ u) (pre post : List ℝ) (x y o : ℝ) :
    PrivLossOk ((sumPlan (pre ++ x :: post).length ε l u).run (pre ++ x :: post) [o])
      ((sumPlan (pre ++ x :: post).length ε l u).run (pre ++ y :: post) [o]) ε :=
  oneCall_privloss _ _ id _ _ o (Tools.sum_sens h pre post x y) hε

theorem intsum_privloss (ε l u : ℝ) (hε : 0 ≤ ε) (h : l ≤ u) (pre post : List ℝ) (x y o : ℝ) :
    PrivLossOk ((intSumPlan (pre ++ x :: post).length ε l u (truncv l) (truncv u)).run (pre ++ x :: post) [o])
      ((intSumPlan (pre ++ x :: post).length ε l u (truncv l) (truncv u)).run (pre ++ y :: post) [o]) ε :=
  oneCall_privloss _ _ id _ _ o (Tools.intsum_sens h pre post x y) hε

theorem count_privloss (ε : ℝ) (hε : 0 ≤ ε) (pre post : List ℝ) (x y o : ℝ) :
    PrivLossOk ((countNonzeroPlan (pre ++ x :: post).length ε).run (pre ++ x :: post) [o])
      ((countNonzeroPlan (pre ++ x :: post).length ε).run (pre ++ y :: post) [o]) ε := by
  apply oneCall_privloss _ _ id _ _ o _ hε
  show _ ≤ (1 : ℝ) - 0
  rw [sub_zero]
  exact Tools.count_sens pre post x y

/-! ## tool_privloss — `_wrap_axis` (every number of output cells, per-cell bounds) -/

/-- list form of the generic bound -/
theorem privLoss_map_le {ι : Type} (xs : List ι) (C : ι → MechCall ℝ) (A B : ι → ℝ)
    (h : ∀ i ∈ xs, |A i - B i| ≤ (C i).sens ∧ 0 ≤ (C i).eps) :
    dispOk (xs.map C) (xs.map A) (xs.map B) = true ∧
      privLoss (xs.map C) (xs.map A) (xs.map B) ≤ (xs.map (fun i => (C i).eps)).sum := by
  induction xs with
  | nil => simp [dispOk, privLoss]
  | cons i is ih =>
    have hi := h i (by simp)
    have hr := relDisp_le_one (C i) (A i) (B i) hi.1
    have hrest := ih (fun j hj => h j (List.mem_cons_of_mem _ hj))
    constructor
    · simp only [List.map_cons, dispOk, Bool.and_eq_true, decide_eq_true_eq]
      exact ⟨hr.2, hrest.1⟩
    · simp only [List.map_cons, privLoss, List.sum_cons]
      have : (C i).eps * relDisp (C i) (A i) (B i) ≤ (C i).eps := by
        calc _ ≤ (C i).eps * 1 := mul_le_mul_of_nonneg_left hr.2 hi.2
          _ = _ := mul_one _
      linarith [hrest.2]

/-- `_wrap_axis` over any one-invocation cell plan: if every cell is configured with `ε/size` and a sensitivity
that bounds the influence of one entry of the cell's sub-array, then replacing one record (one row: one entry in
every cell) keeps every displacement within its sensitivity and the weighted sum of the epsilons within `ε` -/
theorem wrapAxis_privloss {β ρ : Type} (dflt : β) (size : Nat) (hsize : 0 < size) (ε : ℝ) (hε : 0 ≤ ε)
    (bounds : Nat → ℝ × ℝ) (cell : (ε l u : ℝ) → Plan (List β) ℝ ρ) (mk : (l u : ℝ) → Cell (List β) ℝ ρ)
    (hcell : ∀ l u, cell (ε / (size : ℝ)) l u = (mk l u).plan)
    (heps : ∀ l u, (mk l u).c.eps = ε / (size : ℝ))
    (pre post : List (List β)) (r r' : List β)
    (hsens : ∀ c, ∀ (p q : List β) (x y : β), p.length = pre.length → q.length = post.length →
      |(mk (bounds c).1 (bounds c).2).inp (p ++ x :: q) - (mk (bounds c).1 (bounds c).2).inp (p ++ y :: q)| ≤
        (mk (bounds c).1 (bounds c).2).c.sens)
    (outs : List ℝ) (hlen : outs.length = size) :
    PrivLossOk ((wrapAxis dflt size ε bounds cell).run (pre ++ r :: post) outs)
      ((wrapAxis dflt size ε bounds cell).run (pre ++ r' :: post) outs) ε := by
  rw [wrapAxis_eq_cells dflt size ε bounds cell mk hcell]
  have hl : outs.length = (axisCells dflt size bounds mk).length := by simp [axisCells, hlen]
  rw [run_seq_cells _ _ _ hl, run_seq_cells _ _ _ hl]
  refine ⟨rfl, rfl, rfl, ?_⟩
  simp only [axisCells, List.map_map, Function.comp_def]
  have hb := privLoss_map_le (List.range size)
    (fun c => (mk (bounds c).1 (bounds c).2).c)
    (fun c => (mk (bounds c).1 (bounds c).2).inp (column dflt c (pre ++ r :: post)))
    (fun c => (mk (bounds c).1 (bounds c).2).inp (column dflt c (pre ++ r' :: post)))
    (fun c _ => by
      refine ⟨?_, ?_⟩
      · rw [column_replace, column_replace]
        exact hsens c _ _ _ _ (column_length dflt c pre) (column_length dflt c post)
      · rw [heps]; positivity)
  refine ⟨hb.1, le_trans hb.2 (le_of_eq ?_)⟩
  simp only [heps]
  exact split_sum ε size hsize

/-- the same with the influence bound asked only of the two matrices at hand (cell by cell): what the nan-variants
need, whose sensitivity expression is right on some data only -/
theorem wrapAxis_privloss_cols {β ρ : Type} (dflt : β) (size : Nat) (hsize : 0 < size) (ε : ℝ) (hε : 0 ≤ ε)
    (bounds : Nat → ℝ × ℝ) (cell : (ε l u : ℝ) → Plan (List β) ℝ ρ) (mk : (l u : ℝ) → Cell (List β) ℝ ρ)
    (hcell : ∀ l u, cell (ε / (size : ℝ)) l u = (mk l u).plan)
    (heps : ∀ l u, (mk l u).c.eps = ε / (size : ℝ))
    (D D' : List (List β))
    (hsens : ∀ c, c < size →
      |(mk (bounds c).1 (bounds c).2).inp (column dflt c D) - (mk (bounds c).1 (bounds c).2).inp (column dflt c D')| ≤
        (mk (bounds c).1 (bounds c).2).c.sens)
    (outs : List ℝ) (hlen : outs.length = size) :
    PrivLossOk ((wrapAxis dflt size ε bounds cell).run D outs) ((wrapAxis dflt size ε bounds cell).run D' outs) ε := by
  rw [wrapAxis_eq_cells dflt size ε bounds cell mk hcell]
  have hl : outs.length = (axisCells dflt size bounds mk).length := by simp [axisCells, hlen]
  rw [run_seq_cells _ _ _ hl, run_seq_cells _ _ _ hl]
  refine ⟨rfl, rfl, rfl, ?_⟩
  simp only [axisCells, List.map_map, Function.comp_def]
  have hb := privLoss_map_le (List.range size)
    (fun c => (mk (bounds c).1 (bounds c).2).c)
    (fun c => (mk (bounds c).1 (bounds c).2).inp (column dflt c D))
    (fun c => (mk (bounds c).1 (bounds c).2).inp (column dflt c D'))
    (fun c hc => ⟨hsens c (List.mem_range.mp hc), by rw [heps]; positivity⟩)
  refine ⟨hb.1, le_trans hb.2 (le_of_eq ?_)⟩
  simp only [heps]
  exact split_sum ε size hsize

/-- `mean(…, axis=…)`: for every number of cells, every per-cell bounds, every number of records -/
theorem mean_axis_privloss (size : Nat) (hsize : 0 < size) (ε : ℝ) (hε : 0 ≤ ε) (bounds : Nat → ℝ × ℝ)
    (hb : ∀ c, (bounds c).1 ≤ (bounds c).2) (pre post : List (List ℝ)) (r r' : List ℝ)
    (outs : List ℝ) (hlen : outs.length = size) :
    PrivLossOk ((wrapAxis 0 size ε bounds (meanPlan (pre ++ r :: post).length)).run (pre ++ r :: post) outs)
      ((wrapAxis 0 size ε bounds (meanPlan (pre ++ r :: post).length)).run (pre ++ r' :: post) outs) ε := by
  apply wrapAxis_privloss 0 size hsize ε hε bounds _
    (fun l u => ⟨⟨"LaplaceTruncated", ε / (size : ℝ), 0, (u - l) / ((pre ++ r :: post).length : ℝ), l, u, .osCsprng⟩,
      fun D => mean (D.map (clip l u)), id⟩)
    (fun l u => rfl) (fun l u => rfl) pre post r r' _ outs hlen
  intro c p q x y hp hq
  have := Tools.mean_sens (hb c) p q x y
  simpa [hp, hq] using this

theorem var_axis_privloss (size : Nat) (hsize : 0 < size) (ε : ℝ) (hε : 0 ≤ ε) (bounds : Nat → ℝ × ℝ)
    (hb : ∀ c, (bounds c).1 ≤ (bounds c).2) (pre post : List (List ℝ)) (r r' : List ℝ)
    (outs : List ℝ) (hlen : outs.length = size) :
    PrivLossOk ((wrapAxis 0 size ε bounds (varPlan (pre ++ r :: post).length)).run (pre ++ r :: post) outs)
      ((wrapAxis 0 size ε bounds (varPlan (pre ++ r :: post).length)).run (pre ++ r' :: post) outs) ε := by
  apply wrapAxis_privloss 0 size hsize ε hε bounds _
    (fun l u => ⟨⟨"LaplaceBoundedDomain", ε / (size : ℝ), 0, varSens (pre ++ r :: post).length l u, 0,
      ((u - l) * (u - l)) / 4, .osCsprng⟩, fun D => var (D.map (clip l u)), id⟩)
    (fun l u => rfl) (fun l u => rfl) pre post r r' _ outs hlen
  intro c p q x y hp hq
  have := Tools.var_sens (hb c) p q x y
  simpa [hp, hq] using this

theorem std_axis_privloss (size : Nat) (hsize : 0 < size) (ε : ℝ) (hε : 0 ≤ ε) (bounds : Nat → ℝ × ℝ)
    (hb : ∀ c, (bounds c).1 ≤ (bounds c).2) (pre post : List (List ℝ)) (r r' : List ℝ)
    (outs : List ℝ) (hlen : outs.length = size) :
    PrivLossOk ((wrapAxis 0 size ε bounds (stdPlan (pre ++ r :: post).length)).run (pre ++ r :: post) outs)
      ((wrapAxis 0 size ε bounds (stdPlan (pre ++ r :: post).length)).run (pre ++ r' :: post) outs) ε := by
  apply wrapAxis_privloss 0 size hsize ε hε bounds _
    (fun l u => ⟨⟨"LaplaceBoundedDomain", ε / (size : ℝ), 0, varSens (pre ++ r :: post).length l u, 0,
      ((u - l) * (u - l)) / 4, .osCsprng⟩, fun D => var (D.map (clip l u)), fun o => Transc.sqrt o⟩)
    (fun l u => by
      unfold stdPlan varPlan
      rw [single_eq_oneCall, map_oneCall]; rfl)
    (fun l u => rfl) pre post r r' _ outs hlen
  intro c p q x y hp hq
  have := Tools.var_sens (hb c) p q x y
  simpa [hp, hq] using this

theorem sum_axis_privloss (size : Nat) (hsize : 0 < size) (ε : ℝ) (hε : 0 ≤ ε) (bounds : Nat → ℝ × ℝ)
    (hb : ∀ c, (bounds c).1 ≤ (bounds c).2) (pre post : List (List ℝ)) (r r' : List ℝ)
    (outs : List ℝ) (hlen : outs.length = size) :
    PrivLossOk ((wrapAxis 0 size ε bounds (sumPlan (pre ++ r :: post).length)).run (pre ++ r :: post) outs)
      ((wrapAxis 0 size ε bounds (sumPlan (pre ++ r :: post).length)).run (pre ++ r' :: post) outs) ε := by
  apply wrapAxis_privloss 0 size hsize ε hε bounds _
    (fun l u => ⟨⟨"LaplaceTruncated", ε / (size : ℝ), 0, u - l, l * ((pre ++ r :: post).length : ℝ),
      u * ((pre ++ r :: post).length : ℝ), .osCsprng⟩, fun D => Tools.sum (D.map (clip l u)), id⟩)
    (fun l u => rfl) (fun l u => rfl) pre post r r' _ outs hlen
  intro c p q x y _ _
  exact Tools.sum_sens (hb c) p q x y

theorem count_axis_privloss (size : Nat) (hsize : 0 < size) (ε : ℝ) (hε : 0 ≤ ε) (bounds : Nat → ℝ × ℝ)
    (pre post : List (List ℝ)) (r r' : List ℝ) (outs : List ℝ) (hlen : outs.length = size) :
    PrivLossOk
      ((wrapAxis 0 size ε bounds (fun e _ _ => countNonzeroPlan (pre ++ r :: post).length e)).run (pre ++ r :: post) outs)
      ((wrapAxis 0 size ε bounds (fun e _ _ => countNonzeroPlan (pre ++ r :: post).length e)).run (pre ++ r' :: post) outs)
      ε := by
  apply wrapAxis_privloss 0 size hsize ε hε bounds _
    (fun _ _ => ⟨⟨"GeometricTruncated", ε / (size : ℝ), 0, 1 - 0, 0 * ((pre ++ r :: post).length : ℝ),
      1 * ((pre ++ r :: post).length : ℝ), .osCsprng⟩,
      fun D => Tools.sum (D.map (fun x => if eqv x 0 then (0 : ℝ) else 1)), id⟩)
    (fun l u => rfl) (fun l u => rfl) pre post r r' _ outs hlen
  intro c p q x y _ _
  show _ ≤ (1 : ℝ) - 0
  rw [sub_zero]
  exact Tools.count_sens p q x y

/-! ## tool_privloss — histograms (factor 2 exactly when the record moves between two bins) -/

/-- `histogram` / `histogram2d` / `histogramdd` without weights: every bin count is within its sensitivity 1;
the weighted sum of the epsilons is at most `2 ε`, at most `ε` when the record enters or leaves the range, and
`0` when it stays in its bin -/
theorem hist_privloss (edges : List (List ℝ)) (ε maxsize : ℝ) (hε : 0 ≤ ε) (pre post : List (WRow ℝ))
    (r r' : WRow ℝ) (outs : List ℝ)
    (h : outs.length = (cellsOf (edges.map (fun e => e.length - 1))).length) :
    let p := histCalls edges false ε maxsize
    let t := p.run (pre ++ r :: post) outs
    let t' := p.run (pre ++ r' :: post) outs
    t.calls = t'.calls ∧ dispOk t.calls t.inputs t'.inputs = true ∧
      privLoss t.calls t.inputs t'.inputs ≤ ε * 2 ∧
      ((binOf edges r.x = none ∨ binOf edges r'.x = none) → privLoss t.calls t.inputs t'.inputs ≤ ε) ∧
      (binOf edges r.x = binOf edges r'.x → privLoss t.calls t.inputs t'.inputs = 0) :=
  Tools.hist_privloss edges ε maxsize hε pre post r r' outs h

/-- the density post-processing sees only the noisy counts: same forced outputs, same release (C06 instance) -/
theorem hist_release_eq (edges : List ℝ) (weighted density : Bool) (ε maxsize : ℝ) (D D' : List (WRow ℝ))
    (outs : List ℝ) :
    ((histogramPlan edges weighted density ε maxsize).run D outs).release =
      ((histogramPlan edges weighted density ε maxsize).run D' outs).release := by
  apply (Plan.noninterference_probeFree _ _ D D' outs).2
  unfold histogramPlan histCalls calls
  apply Plan.probeFree_map
  apply Plan.probeFree_seq
  intro p hp
  obtain ⟨ci, _, rfl⟩ := List.mem_map.mp hp
  intro o; trivial

/-! ## the quantile family -/

/-- the utilities the code hands to `Exponential` are the rank utilities: entry `i` is `−|i − q k|` -/
theorem quantile_utility (D : List ℝ) (l u q : ℝ) (i : Nat) (hi : i < D.length + 1) :
    (quantileSetup D l u q).utility[i]? = some (-|(i : ℝ) - q * (D.length : ℝ)|) := by
  unfold quantileSetup
  simp only [List.getElem?_map, List.getElem?_range hi, Option.map_some]
  congr 2
  unfold absv
  split
  · rename_i h; rw [abs_of_neg h]
  · rename_i h; rw [abs_of_nonneg (not_lt.mp h)]

/-- rank_exp_density_dp: for the q-quantile of the clipped data, released with density
`exp(ε/2 · util_D(y)) / Z_D`, `util_D(y) = −|rank_D(y) − q k|`, one replacement (records arbitrary, clipped first)
changes the density by a factor of at most `e^ε` at EVERY output `y` -/
theorem rank_exp_density_dp (ε q l u : ℝ) (hε : 0 ≤ ε) (hlu : l < u) (pre post : List ℝ) (x x' : ℝ) (y : ℝ) :
    rankDensity ε q l u ((pre ++ x :: post).map (clip l u)) y ≤
      Real.exp ε * rankDensity ε q l u ((pre ++ x' :: post).map (clip l u)) y := by
  simp only [List.map_append, List.map_cons]
  exact Tools.rank_exp_density_dp ε q l u hε hlu _ _ _ _ y

/-! ## the nan-variants and weighted histograms: counter-examples, full statements, proved partial statements -/

/-- full statement for `nanmean` (FALSE for the code as it is) -/
def nanmean_privloss_full : Prop :=
  ∀ (ε l u : ℝ), 0 ≤ ε → l ≤ u → ∀ (pre post : List (Option ℝ)) (x y : Option ℝ) (o : ℝ),
    PrivLossOk ((nanmeanPlan (pre ++ x :: post).length ε l u).run (pre ++ x :: post) [o])
      ((nanmeanPlan (pre ++ x :: post).length ε l u).run (pre ++ y :: post) [o]) ε

/-- `nanmean([0, nan, nan, nan], bounds=(0,1))` vs `[1, nan, nan, nan]`: the input moves by 1, the configured
sensitivity is (u − l)/size = 1/4 -/
theorem nanmean_sens_cex : ¬ nanmean_privloss_full := by
  intro h
  have := (h 1 0 1 (by norm_num) (by norm_num) [] [none, none, none] (some 0) (some 1) 0).2.2.2.1
  revert this
  simp only [nanmeanPlan, single, Plan.run, dispOk, relDisp, absDiff_real, List.nil_append, List.length_cons,
    List.length_nil, vals_cons_some, vals_cons_none, vals_nil]
  norm_num [mean, Tools.sum, clip]

/-- proved part: without NaNs `nanmean` is `mean` -/
theorem nanmean_privloss_partial (ε l u : ℝ) (hε : 0 ≤ ε) (h : l ≤ u) (pre post : List ℝ) (x y o : ℝ) :
    PrivLossOk
      ((nanmeanPlan (pre.map some ++ some x :: post.map some).length ε l u).run (pre.map some ++ some x :: post.map some) [o])
      ((nanmeanPlan (pre.map some ++ some x :: post.map some).length ε l u).run (pre.map some ++ some y :: post.map some) [o])
      ε := by
  apply oneCall_privloss _ _ id _ _ o _ hε
  have e1 : vals (pre.map some ++ some x :: post.map some) = pre ++ x :: post := by
    rw [← vals_map_some (pre ++ x :: post)]; simp
  have e2 : vals (pre.map some ++ some y :: post.map some) = pre ++ y :: post := by
    rw [← vals_map_some (pre ++ y :: post)]; simp
  simp only [e1, e2]
  have := Tools.mean_sens h pre post x y
  simpa using this

def nanvar_privloss_full : Prop :=
  ∀ (ε l u : ℝ), 0 ≤ ε → l ≤ u → ∀ (pre post : List (Option ℝ)) (x y : Option ℝ) (o : ℝ),
    PrivLossOk ((nanvarPlan (pre ++ x :: post).length ε l u).run (pre ++ x :: post) [o])
      ((nanvarPlan (pre ++ x :: post).length ε l u).run (pre ++ y :: post) [o]) ε

/-- `nanvar([0, 0, nan, nan], bounds=(0,1))` vs `[1, 0, nan, nan]`: 0 → 1/4, configured sensitivity 3/16
(`nanstd` hands the same input to the same mechanism) -/
theorem nanvar_sens_cex : ¬ nanvar_privloss_full := by
  intro h
  have := (h 1 0 1 (by norm_num) (by norm_num) [] [some 0, none, none] (some 0) (some 1) 0).2.2.2.1
  revert this
  simp only [nanvarPlan, single, Plan.run, dispOk, relDisp, absDiff_real, List.nil_append, List.length_cons,
    List.length_nil, vals_cons_some, vals_cons_none, vals_nil]
  norm_num [var, mean, Tools.sum, clip, varSens]

theorem nanvar_privloss_partial (ε l u : ℝ) (hε : 0 ≤ ε) (h : l ≤ u) (pre post : List ℝ) (x y o : ℝ) :
    PrivLossOk
      ((nanvarPlan (pre.map some ++ some x :: post.map some).length ε l u).run (pre.map some ++ some x :: post.map some) [o])
      ((nanvarPlan (pre.map some ++ some x :: post.map some).length ε l u).run (pre.map some ++ some y :: post.map some) [o])
      ε := by
  apply oneCall_privloss _ _ id _ _ o _ hε
  have e1 : vals (pre.map some ++ some x :: post.map some) = pre ++ x :: post := by
    rw [← vals_map_some (pre ++ x :: post)]; simp
  have e2 : vals (pre.map some ++ some y :: post.map some) = pre ++ y :: post := by
    rw [← vals_map_some (pre ++ y :: post)]; simp
  simp only [e1, e2]
  have := Tools.var_sens h pre post x y
  simpa using this

def nansum_privloss_full : Prop :=
  ∀ (ε l u : ℝ), 0 ≤ ε → l ≤ u → ∀ (pre post : List (Option ℝ)) (x y : Option ℝ) (o : ℝ),
    PrivLossOk ((nansumPlan (pre ++ x :: post).length ε l u).run (pre ++ x :: post) [o])
      ((nansumPlan (pre ++ x :: post).length ε l u).run (pre ++ y :: post) [o]) ε

/-- `nansum([5.5, nan], bounds=(5,6))` vs `[5.5, 5.5]`: the sum moves by 5.5, the configured sensitivity is 1 -/
theorem nansum_sens_cex : ¬ nansum_privloss_full := by
  intro h
  have := (h 1 5 6 (by norm_num) (by norm_num) [some (11 / 2)] [] none (some (11 / 2)) 0).2.2.2.1
  revert this
  simp only [nansumPlan, single, Plan.run, dispOk, relDisp, absDiff_real, List.length_cons,
    List.length_nil, List.cons_append, List.nil_append, vals_cons_some, vals_cons_none, vals_nil]
  norm_num [Tools.sum, clip]

/-- proved part: when 0 lies within the bounds (a NaN then counts as a value inside the bounds) `nansum` is fine
for ALL data, NaNs included -/
theorem nansum_privloss_partial (ε l u : ℝ) (hε : 0 ≤ ε) (h : l ≤ u) (h0 : l ≤ 0 ∧ 0 ≤ u)
    (pre post : List (Option ℝ)) (x y : Option ℝ) (o : ℝ) :
    PrivLossOk ((nansumPlan (pre ++ x :: post).length ε l u).run (pre ++ x :: post) [o])
      ((nansumPlan (pre ++ x :: post).length ε l u).run (pre ++ y :: post) [o]) ε :=
  oneCall_privloss _ _ id _ _ o (Tools.nansum_sens_partial h h0 pre post x y) hε

/-- `nanstd` hands the same input to the same mechanism as `nanvar` (`np.sqrt` of its release): proved part -/
theorem nanstd_privloss_partial (ε l u : ℝ) (hε : 0 ≤ ε) (h : l ≤ u) (pre post : List ℝ) (x y o : ℝ) :
    PrivLossOk
      ((nanstdPlan (pre.map some ++ some x :: post.map some).length ε l u).run (pre.map some ++ some x :: post.map some) [o])
      ((nanstdPlan (pre.map some ++ some x :: post.map some).length ε l u).run (pre.map some ++ some y :: post.map some) [o])
      ε := by
  unfold nanstdPlan nanvarPlan
  rw [single_eq_oneCall, map_oneCall]
  apply oneCall_privloss _ _ _ _ _ o _ hε
  have e1 : vals (pre.map some ++ some x :: post.map some) = pre ++ x :: post := by
    rw [← vals_map_some (pre ++ x :: post)]; simp
  have e2 : vals (pre.map some ++ some y :: post.map some) = pre ++ y :: post := by
    rw [← vals_map_some (pre ++ y :: post)]; simp
  simp only [e1, e2]
  have := Tools.var_sens h pre post x y
  simpa using this

/-! ### the nan-variants over an axis (`_wrap_axis`): proved parts, by the same route as the plain axis theorems.
NaN-free region = a proper NaN-free matrix (`someRows`: every entry `some`, every row with at least `size` entries) -/

theorem nanmean_axis_privloss_partial (size : Nat) (hsize : 0 < size) (ε : ℝ) (hε : 0 ≤ ε) (bounds : Nat → ℝ × ℝ)
    (hb : ∀ c, (bounds c).1 ≤ (bounds c).2) (pre post : List (List ℝ)) (r r' : List ℝ)
    (hrows : ∀ row ∈ pre ++ r :: r' :: post, size ≤ row.length) (outs : List ℝ) (hlen : outs.length = size) :
    PrivLossOk
      ((wrapAxis none size ε bounds (nanmeanPlan (pre ++ r :: post).length)).run (someRows (pre ++ r :: post)) outs)
      ((wrapAxis none size ε bounds (nanmeanPlan (pre ++ r :: post).length)).run (someRows (pre ++ r' :: post)) outs)
      ε := by
  apply wrapAxis_privloss_cols none size hsize ε hε bounds _
    (fun l u => ⟨⟨"LaplaceTruncated", ε / (size : ℝ), 0, (u - l) / ((pre ++ r :: post).length : ℝ), l, u, .osCsprng⟩,
      fun D => mean ((vals D).map (clip l u)), id⟩)
    (fun l u => rfl) (fun l u => rfl) _ _ _ outs hlen
  intro c hc
  have h1 : ∀ row ∈ pre ++ r :: post, c < row.length := fun row hrow =>
    lt_of_lt_of_le hc (hrows row (by simp only [List.mem_append, List.mem_cons] at hrow ⊢; tauto))
  have h2 : ∀ row ∈ pre ++ r' :: post, c < row.length := fun row hrow =>
    lt_of_lt_of_le hc (hrows row (by simp only [List.mem_append, List.mem_cons] at hrow ⊢; tauto))
  simp only [vals_column_someRows c _ h1, vals_column_someRows c _ h2, column_replace]
  have := Tools.mean_sens (hb c) (column 0 c pre) (column 0 c post) (r.getD c 0) (r'.getD c 0)
  simpa [column_length] using this

theorem nanvar_axis_privloss_partial (size : Nat) (hsize : 0 < size) (ε : ℝ) (hε : 0 ≤ ε) (bounds : Nat → ℝ × ℝ)
    (hb : ∀ c, (bounds c).1 ≤ (bounds c).2) (pre post : List (List ℝ)) (r r' : List ℝ)
    (hrows : ∀ row ∈ pre ++ r :: r' :: post, size ≤ row.length) (outs : List ℝ) (hlen : outs.length = size) :
    PrivLossOk
      ((wrapAxis none size ε bounds (nanvarPlan (pre ++ r :: post).length)).run (someRows (pre ++ r :: post)) outs)
      ((wrapAxis none size ε bounds (nanvarPlan (pre ++ r :: post).length)).run (someRows (pre ++ r' :: post)) outs)
      ε := by
  apply wrapAxis_privloss_cols none size hsize ε hε bounds _
    (fun l u => ⟨⟨"LaplaceBoundedDomain", ε / (size : ℝ), 0, varSens (pre ++ r :: post).length l u, 0,
      ((u - l) * (u - l)) / 4, .osCsprng⟩, fun D => var ((vals D).map (clip l u)), id⟩)
    (fun l u => rfl) (fun l u => rfl) _ _ _ outs hlen
  intro c hc
  have h1 : ∀ row ∈ pre ++ r :: post, c < row.length := fun row hrow =>
    lt_of_lt_of_le hc (hrows row (by simp only [List.mem_append, List.mem_cons] at hrow ⊢; tauto))
  have h2 : ∀ row ∈ pre ++ r' :: post, c < row.length := fun row hrow =>
    lt_of_lt_of_le hc (hrows row (by simp only [List.mem_append, List.mem_cons] at hrow ⊢; tauto))
  simp only [vals_column_someRows c _ h1, vals_column_someRows c _ h2, column_replace]
  have := Tools.var_sens (hb c) (column 0 c pre) (column 0 c post) (r.getD c 0) (r'.getD c 0)
  simpa [column_length] using this

theorem nanstd_axis_privloss_partial (size : Nat) (hsize : 0 < size) (ε : ℝ) (hε : 0 ≤ ε) (bounds : Nat → ℝ × ℝ)
    (hb : ∀ c, (bounds c).1 ≤ (bounds c).2) (pre post : List (List ℝ)) (r r' : List ℝ)
    (hrows : ∀ row ∈ pre ++ r :: r' :: post, size ≤ row.length) (outs : List ℝ) (hlen : outs.length = size) :
    PrivLossOk
      ((wrapAxis none size ε bounds (nanstdPlan (pre ++ r :: post).length)).run (someRows (pre ++ r :: post)) outs)
      ((wrapAxis none size ε bounds (nanstdPlan (pre ++ r :: post).length)).run (someRows (pre ++ r' :: post)) outs)
      ε := by
  apply wrapAxis_privloss_cols none size hsize ε hε bounds _
    (fun l u => ⟨⟨"LaplaceBoundedDomain", ε / (size : ℝ), 0, varSens (pre ++ r :: post).length l u, 0,
      ((u - l) * (u - l)) / 4, .osCsprng⟩, fun D => var ((vals D).map (clip l u)), fun o => Transc.sqrt o⟩)
    (fun l u => by
      unfold nanstdPlan nanvarPlan
      rw [single_eq_oneCall, map_oneCall]; rfl)
    (fun l u => rfl) _ _ _ outs hlen
  intro c hc
  have h1 : ∀ row ∈ pre ++ r :: post, c < row.length := fun row hrow =>
    lt_of_lt_of_le hc (hrows row (by simp only [List.mem_append, List.mem_cons] at hrow ⊢; tauto))
  have h2 : ∀ row ∈ pre ++ r' :: post, c < row.length := fun row hrow =>
    lt_of_lt_of_le hc (hrows row (by simp only [List.mem_append, List.mem_cons] at hrow ⊢; tauto))
  simp only [vals_column_someRows c _ h1, vals_column_someRows c _ h2, column_replace]
  have := Tools.var_sens (hb c) (column 0 c pre) (column 0 c post) (r.getD c 0) (r'.getD c 0)
  simpa [column_length] using this

/-- `nansum(…, axis=…)`: when 0 lies within every cell's bounds, for ALL data — NaNs, short rows (read as NaN) included -/
theorem nansum_axis_privloss_partial (size : Nat) (hsize : 0 < size) (ε : ℝ) (hε : 0 ≤ ε) (bounds : Nat → ℝ × ℝ)
    (hb : ∀ c, (bounds c).1 ≤ (bounds c).2) (h0 : ∀ c, (bounds c).1 ≤ 0 ∧ 0 ≤ (bounds c).2)
    (pre post : List (List (Option ℝ))) (r r' : List (Option ℝ)) (outs : List ℝ) (hlen : outs.length = size) :
    PrivLossOk ((wrapAxis none size ε bounds (nansumPlan (pre ++ r :: post).length)).run (pre ++ r :: post) outs)
      ((wrapAxis none size ε bounds (nansumPlan (pre ++ r :: post).length)).run (pre ++ r' :: post) outs) ε := by
  apply wrapAxis_privloss none size hsize ε hε bounds _
    (fun l u => ⟨⟨"LaplaceTruncated", ε / (size : ℝ), 0, u - l, l * ((pre ++ r :: post).length : ℝ),
      u * ((pre ++ r :: post).length : ℝ), .osCsprng⟩, fun D => Tools.sum ((vals D).map (clip l u)), id⟩)
    (fun l u => rfl) (fun l u => rfl) pre post r r' _ outs hlen
  intro c p q x y _ _
  exact Tools.nansum_sens_partial (hb c) (h0 c) p q x y

/-- full statement for histograms including weights (FALSE for the code as it is; `hist_privloss` is the part that
is proved: `weights=None`) -/
def hist_sens_full : Prop :=
  ∀ (weighted : Bool) (edges : List (List ℝ)) (cell : List Nat) (pre post : List (WRow ℝ)) (r r' : WRow ℝ),
    |cellCount edges weighted cell (pre ++ r :: post) - cellCount edges weighted cell (pre ++ r' :: post)| ≤ 1

/-- `histogram([0.5], bins=1, range=(0,1), weights=[3])` vs the record moved out of the range: 3 → 0, sensitivity 1 -/
theorem hist_weights_cex : ¬ hist_sens_full := fun h => Tools.hist_weights_cex (h true)

/-! ## non-vacuity -/

example : PrivLossOk ((meanPlan 2 1 0 1).run [0, 1] [(1 : ℝ) / 2]) ((meanPlan 2 1 0 1).run [1, 1] [(1 : ℝ) / 2]) 1 := by
  have := mean_privloss 1 0 1 (by norm_num) (by norm_num) [] [1] 0 1 (1 / 2)
  simpa using this

/-- the mean bound is attained: corner-to-corner replacement moves the mean by exactly (u − l)/n -/
example : |mean (([] ++ (0 : ℝ) :: [1]).map (clip 0 1)) - mean (([] ++ (1 : ℝ) :: [1]).map (clip 0 1))| = (1 - 0) / 2 := by
  norm_num [mean, Tools.sum, clip]

/-- the NaN-free region of the axis variants is inhabited: a 2 × 1 matrix, one cell -/
example : PrivLossOk ((wrapAxis none 1 1 (fun _ => ((0 : ℝ), (1 : ℝ))) (nanmeanPlan 2)).run (someRows [[0], [1]]) [1 / 2])
    ((wrapAxis none 1 1 (fun _ => ((0 : ℝ), (1 : ℝ))) (nanmeanPlan 2)).run (someRows [[1], [1]]) [1 / 2]) 1 := by
  have := nanmean_axis_privloss_partial 1 (by norm_num) 1 (by norm_num) (fun _ => ((0 : ℝ), (1 : ℝ)))
    (by intro c; norm_num) [] [[1]] [0] [1] (by simp) [1 / 2] rfl
  simpa using this

/-! ## tool_dp — the semantic step: the OUTPUT LAW of every tool is ε-DP

`Plan.law M p D` is the law of the release when invocation `c` on input `a` draws from the measure `M c a` (C08's
composition layer, `DPL/Proofs/ModelsCompose*.lean`); `PM.MetricDP P M`: on the invocations satisfying `P`, inputs
within the configured sensitivity give laws within `exp(ε·|a−b|/sens)` on every measurable set.  The `…_privloss`
theorems above bound the displacement-weighted loss along every forced-output sequence; here they are turned into
`law D S ≤ e^ε · law D' S` for every measurable `S` — same neighbour relation (`pre ++ x :: post` vs
`pre ++ y :: post`), same parameter region (`l ≤ u`, every `n ≥ 1`) except that `ε` must be positive.  Degenerate
configurations (sensitivity 0: `l = u`, or `n = 1` for the variance) need no hypothesis: the input then does not move.

The mechanism family `M` is a hypothesis: `PM.MetricDP` on invocations with positive ε and sensitivity for the
Laplace-type tools; `Tools.CountDP` for the count tools (count_nonzero, histograms) — metric DP between INTEGER inputs
of sensitivity-1 invocations, which is all a lattice mechanism can satisfy and is implied by `PM.MetricDP`
(`count_dp_of_metric_dp`).  Discharged: `LaplaceTruncated` by `PM.truncLapKernel` (the clamped Laplace law — mean, sum
and their axis variants: the `…_laplace` theorems) and `GeometricTruncated` (sensitivity 1) by `PM.geomKernel`
(`ModelsCompose7.lean`, from C01's `geom_post_dp` — count_nonzero, histograms: the `…_geometric` theorems).
No kernel is constructed for `LaplaceBoundedDomain` (var, std) and for `GeometricTruncated` with sensitivity
`int(u) − int(l) ≠ 1` (integer sum): for those tools `MetricDP M` stays a hypothesis. -/

section ToolDP
open MeasureTheory
open scoped DPL.PM

/-- the hypothesis on `M` is satisfiable: the (clamped) Laplace families are metric-DP families of probability laws -/
example : ∃ M : MechCall ℝ → ℝ → Measure ℝ,
    PM.MetricDP (fun c => 0 < c.eps ∧ 0 < c.sens) M ∧ ∀ c a, IsProbabilityMeasure (M c a) :=
  ⟨PM.truncLapKernel, PM.truncLapKernel_metricDP, PM.truncLapKernel_isProb⟩

/-- **`mean` is ε-DP** -/
theorem mean_tool_dp (ε l u : ℝ) (hε : 0 < ε) (h : l ≤ u) (pre post : List ℝ) (x y : ℝ)
    (M : MechCall ℝ → ℝ → Measure ℝ) (hM : PM.MetricDP (fun c => 0 < c.eps ∧ 0 < c.sens) M)
    (S : Set ℝ) (hS : MeasurableSet S) :
    (meanPlan (pre ++ x :: post).length ε l u).law M (pre ++ x :: post) S ≤
      ENNReal.ofReal (Real.exp ε) * (meanPlan (pre ++ x :: post).length ε l u).law M (pre ++ y :: post) S :=
  Tools.oneCall_dp M hM _ _ id measurable_id _ _ hε (Tools.mean_sens h pre post x y) S hS

/-- … with the draw from the clamped Laplace law `LaplaceTruncated` uses: no hypothesis on the mechanism left -/
theorem mean_tool_dp_laplace (ε l u : ℝ) (hε : 0 < ε) (h : l ≤ u) (pre post : List ℝ) (x y : ℝ)
    (S : Set ℝ) (hS : MeasurableSet S) :
    (meanPlan (pre ++ x :: post).length ε l u).law PM.truncLapKernel (pre ++ x :: post) S ≤
      ENNReal.ofReal (Real.exp ε) *
        (meanPlan (pre ++ x :: post).length ε l u).law PM.truncLapKernel (pre ++ y :: post) S :=
  mean_tool_dp ε l u hε h pre post x y _ PM.truncLapKernel_metricDP S hS

/-- non-vacuity: ε = 1, bounds (0, 1), two records, corner-to-corner replacement -/
example (S : Set ℝ) (hS : MeasurableSet S) :
    (meanPlan 2 1 0 1).law PM.truncLapKernel [0, 1] S ≤
      ENNReal.ofReal (Real.exp 1) * (meanPlan 2 1 0 1).law PM.truncLapKernel [1, 1] S := by
  have := mean_tool_dp_laplace 1 0 1 (by norm_num) (by norm_num) [] [1] 0 1 S hS
  simpa using this

/-- **`sum` is ε-DP** -/
theorem sum_tool_dp (ε l u : ℝ) (hε : 0 < ε) (h : l ≤ u) (pre post : List ℝ) (x y : ℝ)
    (M : MechCall ℝ → ℝ → Measure ℝ) (hM : PM.MetricDP (fun c => 0 < c.eps ∧ 0 < c.sens) M)
    (S : Set ℝ) (hS : MeasurableSet S) :
    (sumPlan (pre ++ x :: post).length ε l u).law M (pre ++ x :: post) S ≤
      ENNReal.ofReal (Real.exp ε) * (sumPlan (pre ++ x :: post).length ε l u).law M (pre ++ y :: post) S :=
  Tools.oneCall_dp M hM _ _ id measurable_id _ _ hε (Tools.sum_sens h pre post x y) S hS

theorem sum_tool_dp_laplace (ε l u : ℝ) (hε : 0 < ε) (h : l ≤ u) (pre post : List ℝ) (x y : ℝ)
    (S : Set ℝ) (hS : MeasurableSet S) :
    (sumPlan (pre ++ x :: post).length ε l u).law PM.truncLapKernel (pre ++ x :: post) S ≤
      ENNReal.ofReal (Real.exp ε) *
        (sumPlan (pre ++ x :: post).length ε l u).law PM.truncLapKernel (pre ++ y :: post) S :=
  sum_tool_dp ε l u hε h pre post x y _ PM.truncLapKernel_metricDP S hS

/-- **`var` is ε-DP** (`M` metric-DP: a hypothesis for `LaplaceBoundedDomain`) -/
theorem var_tool_dp (ε l u : ℝ) (hε : 0 < ε) (h : l ≤ u) (pre post : List ℝ) (x y : ℝ)
    (M : MechCall ℝ → ℝ → Measure ℝ) (hM : PM.MetricDP (fun c => 0 < c.eps ∧ 0 < c.sens) M)
    (S : Set ℝ) (hS : MeasurableSet S) :
    (varPlan (pre ++ x :: post).length ε l u).law M (pre ++ x :: post) S ≤
      ENNReal.ofReal (Real.exp ε) * (varPlan (pre ++ x :: post).length ε l u).law M (pre ++ y :: post) S :=
  Tools.oneCall_dp M hM _ _ id measurable_id _ _ hε (Tools.var_sens h pre post x y) S hS

/-- **`std` is ε-DP**: `np.sqrt` of `var`'s release is measurable post-processing -/
theorem std_tool_dp (ε l u : ℝ) (hε : 0 < ε) (h : l ≤ u) (pre post : List ℝ) (x y : ℝ)
    (M : MechCall ℝ → ℝ → Measure ℝ) (hM : PM.MetricDP (fun c => 0 < c.eps ∧ 0 < c.sens) M)
    (S : Set ℝ) (hS : MeasurableSet S) :
    (stdPlan (pre ++ x :: post).length ε l u).law M (pre ++ x :: post) S ≤
      ENNReal.ofReal (Real.exp ε) * (stdPlan (pre ++ x :: post).length ε l u).law M (pre ++ y :: post) S := by
  unfold stdPlan varPlan
  rw [single_eq_oneCall, map_oneCall]
  exact Tools.oneCall_dp M hM _ _ _ Tools.measurable_sqrt _ _ hε (Tools.var_sens h pre post x y) S hS

/-- the count hypothesis is weaker than the input-blind one -/
theorem count_dp_of_metric_dp (M : MechCall ℝ → ℝ → Measure ℝ)
    (hM : PM.MetricDP (fun c => 0 < c.eps ∧ 0 < c.sens) M) : Tools.CountDP M :=
  Tools.countDP_of_metricDP M hM

/-- … and satisfiable: the geometric kernel (C01: `geom_post_dp`) -/
example : ∃ M : MechCall ℝ → ℝ → Measure ℝ, Tools.CountDP M ∧ ∀ c a, IsProbabilityMeasure (M c a) :=
  ⟨PM.geomKernel, Tools.geomKernel_countDP, PM.geomKernel_isProb⟩

/-- **`count_nonzero` is ε-DP** for every count mechanism (`Tools.CountDP`: metric DP between integer inputs) -/
theorem count_tool_dp (ε : ℝ) (hε : 0 < ε) (pre post : List ℝ) (x y : ℝ)
    (M : MechCall ℝ → ℝ → Measure ℝ) (hM : Tools.CountDP M) (S : Set ℝ) (hS : MeasurableSet S) :
    (countNonzeroPlan (pre ++ x :: post).length ε).law M (pre ++ x :: post) S ≤
      ENNReal.ofReal (Real.exp ε) * (countNonzeroPlan (pre ++ x :: post).length ε).law M (pre ++ y :: post) S :=
  Tools.oneCall_dp_count M hM _ _ id measurable_id _ _ hε (by norm_num) (Tools.count_int _) (Tools.count_int _)
    (Tools.count_sens pre post x y) S hS

/-- … with the geometric kernel: no hypothesis on the mechanism left -/
theorem count_tool_dp_geometric (ε : ℝ) (hε : 0 < ε) (pre post : List ℝ) (x y : ℝ) (S : Set ℝ)
    (hS : MeasurableSet S) :
    (countNonzeroPlan (pre ++ x :: post).length ε).law PM.geomKernel (pre ++ x :: post) S ≤
      ENNReal.ofReal (Real.exp ε) *
        (countNonzeroPlan (pre ++ x :: post).length ε).law PM.geomKernel (pre ++ y :: post) S :=
  count_tool_dp ε hε pre post x y _ Tools.geomKernel_countDP S hS

/-- non-vacuity: a zero entry replaced by a non-zero one -/
example (S : Set ℝ) (hS : MeasurableSet S) :
    (countNonzeroPlan 2 1).law PM.geomKernel [0, 3] S ≤
      ENNReal.ofReal (Real.exp 1) * (countNonzeroPlan 2 1).law PM.geomKernel [5, 3] S := by
  have := count_tool_dp_geometric 1 (by norm_num) [] [3] 0 5 S hS
  simpa using this

/-- **`sum(dtype=int)` is ε-DP** given an input-blind metric-DP family `M`.  Caveat: the code uses
`GeometricTruncated` with sensitivity `int(u) − int(l)`; a lattice mechanism is metric-DP between integer inputs only
(the inputs here ARE integers), and no such kernel is constructed for sensitivity ≠ 1 — the integer-input refinement
(`Tools.CountDP` for general sensitivity) is not done for this tool -/
theorem intsum_tool_dp (ε l u : ℝ) (hε : 0 < ε) (h : l ≤ u) (pre post : List ℝ) (x y : ℝ)
    (M : MechCall ℝ → ℝ → Measure ℝ) (hM : PM.MetricDP (fun c => 0 < c.eps ∧ 0 < c.sens) M)
    (S : Set ℝ) (hS : MeasurableSet S) :
    (intSumPlan (pre ++ x :: post).length ε l u (truncv l) (truncv u)).law M (pre ++ x :: post) S ≤
      ENNReal.ofReal (Real.exp ε) *
        (intSumPlan (pre ++ x :: post).length ε l u (truncv l) (truncv u)).law M (pre ++ y :: post) S :=
  Tools.oneCall_dp M hM _ _ id measurable_id _ _ hε (Tools.intsum_sens h pre post x y) S hS

/-- non-vacuity of the degenerate region the theorems cover: `l = u` and `n = 1` (sensitivity 0) -/
example (S : Set ℝ) (hS : MeasurableSet S) (M : MechCall ℝ → ℝ → Measure ℝ)
    (hM : PM.MetricDP (fun c => 0 < c.eps ∧ 0 < c.sens) M) :
    (varPlan 1 1 2 2).law M [5] S ≤ ENNReal.ofReal (Real.exp 1) * (varPlan 1 1 2 2).law M [7] S := by
  have := var_tool_dp 1 2 2 (by norm_num) (le_refl _) [] [] 5 7 M hM S hS
  simpa using this

/-! ### `_wrap_axis`: the whole vector of per-cell releases is ε-DP (release space `List ℝ`, σ-algebra generated by
the length and the coordinates, `PM.listMS`) -/

/-- **`_wrap_axis` over any one-invocation cell plan is ε-DP as a whole**: every cell configured with `ε/size` and a
sensitivity that bounds the displacement of the cell's input between the two matrices; `g` = the cell's (measurable)
post-processing -/
theorem wrap_axis_tool_dp {β : Type} (dflt : β) (size : Nat) (hsize : 0 < size) (ε : ℝ) (hε : 0 < ε)
    (bounds : Nat → ℝ × ℝ) (cell : (ε l u : ℝ) → Plan (List β) ℝ ℝ) (mk : (l u : ℝ) → Cell (List β) ℝ ℝ)
    (hcell : ∀ l u, cell (ε / (size : ℝ)) l u = (mk l u).plan)
    (heps : ∀ l u, (mk l u).c.eps = ε / (size : ℝ)) (hg : ∀ l u, Measurable (mk l u).g)
    (D D' : List (List β))
    (hsens : ∀ c, c < size →
      |(mk (bounds c).1 (bounds c).2).inp (column dflt c D) - (mk (bounds c).1 (bounds c).2).inp (column dflt c D')| ≤
        (mk (bounds c).1 (bounds c).2).c.sens)
    (M : MechCall ℝ → ℝ → Measure ℝ) (hprob : ∀ c a, IsProbabilityMeasure (M c a))
    (hM : PM.MetricDP (fun c => 0 < c.eps ∧ 0 < c.sens) M) (S : Set (List ℝ)) (hS : MeasurableSet S) :
    (wrapAxis dflt size ε bounds cell).law M D S ≤
      ENNReal.ofReal (Real.exp ε) * (wrapAxis dflt size ε bounds cell).law M D' S :=
  Tools.wrapAxis_dp dflt size hsize ε hε bounds cell mk hcell heps hg D D' hsens M hprob hM S hS

/-- **`mean(…, axis=…)` is ε-DP**: every number of cells, per-cell bounds, every number of records -/
theorem mean_axis_tool_dp (size : Nat) (hsize : 0 < size) (ε : ℝ) (hε : 0 < ε) (bounds : Nat → ℝ × ℝ)
    (hb : ∀ c, (bounds c).1 ≤ (bounds c).2) (pre post : List (List ℝ)) (r r' : List ℝ)
    (M : MechCall ℝ → ℝ → Measure ℝ) (hprob : ∀ c a, IsProbabilityMeasure (M c a))
    (hM : PM.MetricDP (fun c => 0 < c.eps ∧ 0 < c.sens) M) (S : Set (List ℝ)) (hS : MeasurableSet S) :
    (wrapAxis 0 size ε bounds (meanPlan (pre ++ r :: post).length)).law M (pre ++ r :: post) S ≤
      ENNReal.ofReal (Real.exp ε) *
        (wrapAxis 0 size ε bounds (meanPlan (pre ++ r :: post).length)).law M (pre ++ r' :: post) S := by
  apply Tools.wrapAxis_dp 0 size hsize ε hε bounds _
    (fun l u => ⟨⟨"LaplaceTruncated", ε / (size : ℝ), 0, (u - l) / ((pre ++ r :: post).length : ℝ), l, u, .osCsprng⟩,
      fun D => mean (D.map (clip l u)), id⟩)
    (fun l u => rfl) (fun l u => rfl) (fun l u => measurable_id) _ _ _ M hprob hM S hS
  intro c _
  simp only [column_replace]
  have := Tools.mean_sens (hb c) (column 0 c pre) (column 0 c post) (r.getD c 0) (r'.getD c 0)
  simpa [column_length] using this

theorem mean_axis_tool_dp_laplace (size : Nat) (hsize : 0 < size) (ε : ℝ) (hε : 0 < ε) (bounds : Nat → ℝ × ℝ)
    (hb : ∀ c, (bounds c).1 ≤ (bounds c).2) (pre post : List (List ℝ)) (r r' : List ℝ)
    (S : Set (List ℝ)) (hS : MeasurableSet S) :
    (wrapAxis 0 size ε bounds (meanPlan (pre ++ r :: post).length)).law PM.truncLapKernel (pre ++ r :: post) S ≤
      ENNReal.ofReal (Real.exp ε) *
        (wrapAxis 0 size ε bounds (meanPlan (pre ++ r :: post).length)).law PM.truncLapKernel (pre ++ r' :: post) S :=
  mean_axis_tool_dp size hsize ε hε bounds hb pre post r r' _ PM.truncLapKernel_isProb PM.truncLapKernel_metricDP S hS

/-- non-vacuity: two cells with different bounds, two records -/
example (S : Set (List ℝ)) (hS : MeasurableSet S) :
    (wrapAxis 0 2 1 (fun c => ((0 : ℝ), (c : ℝ) + 1)) (meanPlan 2)).law PM.truncLapKernel [[0, 0], [1, 2]] S ≤
      ENNReal.ofReal (Real.exp 1) *
        (wrapAxis 0 2 1 (fun c => ((0 : ℝ), (c : ℝ) + 1)) (meanPlan 2)).law PM.truncLapKernel [[1, 2], [1, 2]] S := by
  have := mean_axis_tool_dp_laplace 2 (by norm_num) 1 (by norm_num) (fun c => ((0 : ℝ), (c : ℝ) + 1))
    (by intro c; simp; positivity) [] [[1, 2]] [0, 0] [1, 2] S hS
  simpa using this

theorem sum_axis_tool_dp (size : Nat) (hsize : 0 < size) (ε : ℝ) (hε : 0 < ε) (bounds : Nat → ℝ × ℝ)
    (hb : ∀ c, (bounds c).1 ≤ (bounds c).2) (pre post : List (List ℝ)) (r r' : List ℝ)
    (M : MechCall ℝ → ℝ → Measure ℝ) (hprob : ∀ c a, IsProbabilityMeasure (M c a))
    (hM : PM.MetricDP (fun c => 0 < c.eps ∧ 0 < c.sens) M) (S : Set (List ℝ)) (hS : MeasurableSet S) :
    (wrapAxis 0 size ε bounds (sumPlan (pre ++ r :: post).length)).law M (pre ++ r :: post) S ≤
      ENNReal.ofReal (Real.exp ε) *
        (wrapAxis 0 size ε bounds (sumPlan (pre ++ r :: post).length)).law M (pre ++ r' :: post) S := by
  apply Tools.wrapAxis_dp 0 size hsize ε hε bounds _
    (fun l u => ⟨⟨"LaplaceTruncated", ε / (size : ℝ), 0, u - l, l * ((pre ++ r :: post).length : ℝ),
      u * ((pre ++ r :: post).length : ℝ), .osCsprng⟩, fun D => Tools.sum (D.map (clip l u)), id⟩)
    (fun l u => rfl) (fun l u => rfl) (fun l u => measurable_id) _ _ _ M hprob hM S hS
  intro c _
  simp only [column_replace]
  exact Tools.sum_sens (hb c) _ _ _ _

theorem sum_axis_tool_dp_laplace (size : Nat) (hsize : 0 < size) (ε : ℝ) (hε : 0 < ε) (bounds : Nat → ℝ × ℝ)
    (hb : ∀ c, (bounds c).1 ≤ (bounds c).2) (pre post : List (List ℝ)) (r r' : List ℝ)
    (S : Set (List ℝ)) (hS : MeasurableSet S) :
    (wrapAxis 0 size ε bounds (sumPlan (pre ++ r :: post).length)).law PM.truncLapKernel (pre ++ r :: post) S ≤
      ENNReal.ofReal (Real.exp ε) *
        (wrapAxis 0 size ε bounds (sumPlan (pre ++ r :: post).length)).law PM.truncLapKernel (pre ++ r' :: post) S :=
  sum_axis_tool_dp size hsize ε hε bounds hb pre post r r' _ PM.truncLapKernel_isProb PM.truncLapKernel_metricDP S hS

theorem var_axis_tool_dp (size : Nat) (hsize : 0 < size) (ε : ℝ) (hε : 0 < ε) (bounds : Nat → ℝ × ℝ)
    (hb : ∀ c, (bounds c).1 ≤ (bounds c).2) (pre post : List (List ℝ)) (r r' : List ℝ)
    (M : MechCall ℝ → ℝ → Measure ℝ) (hprob : ∀ c a, IsProbabilityMeasure (M c a))
    (hM : PM.MetricDP (fun c => 0 < c.eps ∧ 0 < c.sens) M) (S : Set (List ℝ)) (hS : MeasurableSet S) :
    (wrapAxis 0 size ε bounds (varPlan (pre ++ r :: post).length)).law M (pre ++ r :: post) S ≤
      ENNReal.ofReal (Real.exp ε) *
        (wrapAxis 0 size ε bounds (varPlan (pre ++ r :: post).length)).law M (pre ++ r' :: post) S := by
  apply Tools.wrapAxis_dp 0 size hsize ε hε bounds _
    (fun l u => ⟨⟨"LaplaceBoundedDomain", ε / (size : ℝ), 0, varSens (pre ++ r :: post).length l u, 0,
      ((u - l) * (u - l)) / 4, .osCsprng⟩, fun D => var (D.map (clip l u)), id⟩)
    (fun l u => rfl) (fun l u => rfl) (fun l u => measurable_id) _ _ _ M hprob hM S hS
  intro c _
  simp only [column_replace]
  have := Tools.var_sens (hb c) (column 0 c pre) (column 0 c post) (r.getD c 0) (r'.getD c 0)
  simpa [column_length] using this

theorem std_axis_tool_dp (size : Nat) (hsize : 0 < size) (ε : ℝ) (hε : 0 < ε) (bounds : Nat → ℝ × ℝ)
    (hb : ∀ c, (bounds c).1 ≤ (bounds c).2) (pre post : List (List ℝ)) (r r' : List ℝ)
    (M : MechCall ℝ → ℝ → Measure ℝ) (hprob : ∀ c a, IsProbabilityMeasure (M c a))
    (hM : PM.MetricDP (fun c => 0 < c.eps ∧ 0 < c.sens) M) (S : Set (List ℝ)) (hS : MeasurableSet S) :
    (wrapAxis 0 size ε bounds (stdPlan (pre ++ r :: post).length)).law M (pre ++ r :: post) S ≤
      ENNReal.ofReal (Real.exp ε) *
        (wrapAxis 0 size ε bounds (stdPlan (pre ++ r :: post).length)).law M (pre ++ r' :: post) S := by
  apply Tools.wrapAxis_dp 0 size hsize ε hε bounds _
    (fun l u => ⟨⟨"LaplaceBoundedDomain", ε / (size : ℝ), 0, varSens (pre ++ r :: post).length l u, 0,
      ((u - l) * (u - l)) / 4, .osCsprng⟩, fun D => var (D.map (clip l u)), fun o => Transc.sqrt o⟩)
    (fun l u => by
      unfold stdPlan varPlan
      rw [single_eq_oneCall, map_oneCall]; rfl)
    (fun l u => rfl) (fun l u => Tools.measurable_sqrt) _ _ _ M hprob hM S hS
  intro c _
  simp only [column_replace]
  have := Tools.var_sens (hb c) (column 0 c pre) (column 0 c post) (r.getD c 0) (r'.getD c 0)
  simpa [column_length] using this

theorem count_axis_tool_dp (size : Nat) (hsize : 0 < size) (ε : ℝ) (hε : 0 < ε) (bounds : Nat → ℝ × ℝ)
    (pre post : List (List ℝ)) (r r' : List ℝ)
    (M : MechCall ℝ → ℝ → Measure ℝ) (hprob : ∀ c a, IsProbabilityMeasure (M c a)) (hM : Tools.CountDP M)
    (S : Set (List ℝ)) (hS : MeasurableSet S) :
    (wrapAxis 0 size ε bounds (fun e _ _ => countNonzeroPlan (pre ++ r :: post).length e)).law M (pre ++ r :: post) S ≤
      ENNReal.ofReal (Real.exp ε) *
        (wrapAxis 0 size ε bounds (fun e _ _ => countNonzeroPlan (pre ++ r :: post).length e)).law M
          (pre ++ r' :: post) S :=
  Tools.countAxis_dp size hsize ε hε bounds _ pre post r r' M hprob hM S hS

theorem count_axis_tool_dp_geometric (size : Nat) (hsize : 0 < size) (ε : ℝ) (hε : 0 < ε) (bounds : Nat → ℝ × ℝ)
    (pre post : List (List ℝ)) (r r' : List ℝ) (S : Set (List ℝ)) (hS : MeasurableSet S) :
    (wrapAxis 0 size ε bounds (fun e _ _ => countNonzeroPlan (pre ++ r :: post).length e)).law PM.geomKernel
        (pre ++ r :: post) S ≤
      ENNReal.ofReal (Real.exp ε) *
        (wrapAxis 0 size ε bounds (fun e _ _ => countNonzeroPlan (pre ++ r :: post).length e)).law PM.geomKernel
          (pre ++ r' :: post) S :=
  count_axis_tool_dp size hsize ε hε bounds pre post r r' _ PM.geomKernel_isProb Tools.geomKernel_countDP S hS

/-! ### histograms (`weights=None`): one `GeometricTruncated(ε, sensitivity 1)` per bin on the integer bin count —
for every count mechanism (`Tools.CountDP`), in particular the geometric kernel -/

/-- **the noisy bin counts of `histogram` / `histogram2d` / `histogramdd` are `2ε`-DP**, `ε`-DP when the record
enters or leaves the range, and not affected at all when the record stays in its bin -/
theorem hist_tool_dp (edges : List (List ℝ)) (ε maxsize : ℝ) (hε : 0 < ε) (pre post : List (WRow ℝ)) (r r' : WRow ℝ)
    (M : MechCall ℝ → ℝ → Measure ℝ) (hprob : ∀ c a, IsProbabilityMeasure (M c a)) (hM : Tools.CountDP M)
    (S : Set (List ℝ)) (hS : MeasurableSet S) :
    let p := histCalls edges false ε maxsize
    p.law M (pre ++ r :: post) S ≤ ENNReal.ofReal (Real.exp (ε * 2)) * p.law M (pre ++ r' :: post) S ∧
    ((binOf edges r.x = none ∨ binOf edges r'.x = none) →
      p.law M (pre ++ r :: post) S ≤ ENNReal.ofReal (Real.exp ε) * p.law M (pre ++ r' :: post) S) ∧
    (binOf edges r.x = binOf edges r'.x → p.law M (pre ++ r :: post) S ≤ p.law M (pre ++ r' :: post) S) := by
  intro p
  obtain ⟨h2, h1, h0⟩ := Tools.histCalls_lossLe edges ε maxsize hε.le pre post r r'
  refine ⟨Tools.histCalls_dp_count edges ε maxsize hε _ _ _ _ _ h2 M hprob hM S hS,
    fun hn => Tools.histCalls_dp_count edges ε maxsize hε _ _ _ _ _ (h1 hn) M hprob hM S hS, fun hs => ?_⟩
  have := Tools.histCalls_dp_count edges ε maxsize hε _ _ _ _ _ (h0 hs) M hprob hM S hS
  simpa using this

/-- … with the geometric kernel: no hypothesis on the mechanism left -/
theorem hist_tool_dp_geometric (edges : List (List ℝ)) (ε maxsize : ℝ) (hε : 0 < ε) (pre post : List (WRow ℝ))
    (r r' : WRow ℝ) (S : Set (List ℝ)) (hS : MeasurableSet S) :
    let p := histCalls edges false ε maxsize
    p.law PM.geomKernel (pre ++ r :: post) S ≤
      ENNReal.ofReal (Real.exp (ε * 2)) * p.law PM.geomKernel (pre ++ r' :: post) S ∧
    ((binOf edges r.x = none ∨ binOf edges r'.x = none) →
      p.law PM.geomKernel (pre ++ r :: post) S ≤
        ENNReal.ofReal (Real.exp ε) * p.law PM.geomKernel (pre ++ r' :: post) S) ∧
    (binOf edges r.x = binOf edges r'.x →
      p.law PM.geomKernel (pre ++ r :: post) S ≤ p.law PM.geomKernel (pre ++ r' :: post) S) :=
  hist_tool_dp edges ε maxsize hε pre post r r' _ PM.geomKernel_isProb Tools.geomKernel_countDP S hS

/-- **`histogram` (1-d, with or without `density`) is `2ε`-DP**, set-function semantics (`Plan.lawOn`: every set of
releases, no measurability condition on the density post-processing) -/
theorem histogram_tool_dp (edges : List ℝ) (density : Bool) (ε maxsize : ℝ) (hε : 0 < ε) (pre post : List (WRow ℝ))
    (r r' : WRow ℝ) (M : MechCall ℝ → ℝ → Measure ℝ) (hM : Tools.CountDP M) (S : Set (List ℝ)) :
    (histogramPlan edges false density ε maxsize).lawOn M (pre ++ r :: post) S ≤
      ENNReal.ofReal (Real.exp (ε * 2)) * (histogramPlan edges false density ε maxsize).lawOn M (pre ++ r' :: post) S :=
  Tools.histCalls_map_lawOn_dp_count _ [edges] ε maxsize hε _ _ _ _ _
    (Tools.histCalls_lossLe [edges] ε maxsize hε.le pre post r r').1 M hM S

/-- **`histogramdd` / `histogram2d` (with or without `density`) is `2ε`-DP**, set-function semantics -/
theorem histogramdd_tool_dp (edges : List (List ℝ)) (density : Bool) (ε maxsize : ℝ) (hε : 0 < ε)
    (pre post : List (WRow ℝ)) (r r' : WRow ℝ) (M : MechCall ℝ → ℝ → Measure ℝ) (hM : Tools.CountDP M)
    (S : Set (List ℝ)) :
    (histogramddPlan edges false density ε maxsize).lawOn M (pre ++ r :: post) S ≤
      ENNReal.ofReal (Real.exp (ε * 2)) *
        (histogramddPlan edges false density ε maxsize).lawOn M (pre ++ r' :: post) S :=
  Tools.histCalls_map_lawOn_dp_count _ edges ε maxsize hε _ _ _ _ _
    (Tools.histCalls_lossLe edges ε maxsize hε.le pre post r r').1 M hM S

theorem histogramdd_tool_dp_geometric (edges : List (List ℝ)) (density : Bool) (ε maxsize : ℝ) (hε : 0 < ε)
    (pre post : List (WRow ℝ)) (r r' : WRow ℝ) (S : Set (List ℝ)) :
    (histogramddPlan edges false density ε maxsize).lawOn PM.geomKernel (pre ++ r :: post) S ≤
      ENNReal.ofReal (Real.exp (ε * 2)) *
        (histogramddPlan edges false density ε maxsize).lawOn PM.geomKernel (pre ++ r' :: post) S :=
  histogramdd_tool_dp edges density ε maxsize hε pre post r r' _ Tools.geomKernel_countDP S

/-- non-vacuity: one dimension, two bins, the record moves from the first bin to the second (the `2ε` case) -/
example : binOf [[(0 : ℝ), 1, 2]] [(1 : ℝ) / 2] ≠ binOf [[(0 : ℝ), 1, 2]] [(3 : ℝ) / 2] ∧
    binOf [[(0 : ℝ), 1, 2]] [(1 : ℝ) / 2] ≠ none ∧ binOf [[(0 : ℝ), 1, 2]] [(3 : ℝ) / 2] ≠ none := by
  have h1 : binOf [[(0 : ℝ), 1, 2]] [(1 : ℝ) / 2] = some [0] := by
    norm_num [binOf, binIdx, eqv, List.zipWith, List.filter]
  have h2 : binOf [[(0 : ℝ), 1, 2]] [(3 : ℝ) / 2] = some [1] := by
    norm_num [binOf, binIdx, eqv, List.zipWith, List.filter]
  rw [h1, h2]; simp

end ToolDP

/-! ## end_to_end — from the uniform draws of the samplers to the ε-DP of a tool's release

The kernels of `ToolDP` (`PM.lapKernel`, `PM.truncLapKernel`, `PM.geomKernel`) are measures; C03 / C01 prove that the
model's SAMPLERS, as functions of the uniforms they draw, have these laws.  Here the two are connected
(`DPL/Proofs/KernelBridge.lean`): each kernel IS the push-forward of the uniform measure (`Smp.unif01x4` = four
independent `random()` draws in the order drawn; `Discrete.unif01` = one draw) under the model's `randomise` function
(`PM.lapSampler` = `Smp.laplace`, `PM.truncLapSampler` = `Smp.laplaceTruncated` = sampler then `_truncate`,
`PM.geomSampler` = `Discrete.geomRandomise` then the clamp), for calls with `δ = 0` (the kernels use the scale `sens/ε`,
which is the coded `sens/(ε − log(1−δ))` at `δ = 0` — all the tools pass `delta = 0`), `ε > 0`, `sens ≥ 0` and
`lower ≤ upper`.  Consequently `mean`, `sum`, `count_nonzero` — clip, aggregate, sampler, truncation:
`Tools.meanRun`, `Tools.sumRun`, `Tools.countRun`, functions of the data and of the uniform draws — are ε-DP with
respect to the uniform measure on the draws: nothing between the random bits and the release is assumed.
Trusted: that `random()` returns independent uniforms on `[0,1)`, and real arithmetic (C12/C19 for the floats). -/

section EndToEnd
open MeasureTheory
open scoped DPL.PM

/-- **`lapKernel` = law of `Laplace.randomise` on four uniforms** (C03 `laplace_mech_law` + `laplaceScale` at `δ = 0`) -/
theorem lapKernel_eq_sampler_law (c : MechCall ℝ) (hε : 0 < c.eps) (hs : 0 ≤ c.sens) (hδ : c.delta = 0) (a : ℝ) :
    PM.lapKernel c a = Smp.unif01x4.map (fun w : ℝ × ℝ × ℝ × ℝ =>
      Smp.laplace c.eps c.delta c.sens a w.1 w.2.1 w.2.2.1 w.2.2.2) :=
  PM.lapKernel_eq_sampler_law c hε hs hδ a

/-- **`truncLapKernel` = law of `LaplaceTruncated.randomise`** (the sampler followed by the model's `_truncate`);
`lower ≤ upper` is needed: `_truncate` and the clamp differ otherwise (`PM.truncate_ne_clamp_cex`) -/
theorem truncLapKernel_eq_sampler_law (c : MechCall ℝ) (hε : 0 < c.eps) (hs : 0 ≤ c.sens) (hδ : c.delta = 0)
    (hb : c.lower ≤ c.upper) (a : ℝ) :
    PM.truncLapKernel c a = Smp.unif01x4.map (fun w : ℝ × ℝ × ℝ × ℝ =>
      Smp.laplaceTruncated c.eps c.delta c.sens c.lower c.upper a w.1 w.2.1 w.2.2.1 w.2.2.2) :=
  PM.truncLapKernel_eq_sampler_law c hε hs hδ hb a

/-- non-vacuity: the call `_mean` configures for ε = 1, bounds (0, 1), two records -/
example : let c : MechCall ℝ := ⟨"LaplaceTruncated", 1, 0, (1 - 0) / 2, 0, 1, .osCsprng⟩
    0 < c.eps ∧ 0 ≤ c.sens ∧ c.delta = 0 ∧ c.lower ≤ c.upper := by
  norm_num

/-- **`geomKernel` = law of `Geometric.randomise`** (sensitivity 1, on `⌊a⌋`) on one uniform, then the clamp to the
call's bounds; its unclamped atoms are C01's pmf (`PM.geomRandomise_atom`, from `Discrete.geom_law`) -/
theorem geomKernel_eq_sampler_law (c : MechCall ℝ) (hε : 0 < c.eps) (a : ℝ) :
    PM.geomKernel c a = Discrete.unif01.map (fun v : ℝ =>
      max c.lower (min ((Discrete.geomRandomise c.eps 1 ⌊a⌋ v : ℤ) : ℝ) c.upper)) :=
  PM.geomKernel_eq_sampler_law c hε a

/-- the atoms of `Geometric.randomise(x)` under `unif01`: `(1−r)/(1+r)·r^|k|` at `x + k`, `r = e^{−ε}` -/
theorem geom_sampler_atoms (ε : ℝ) (hε : 0 < ε) (x k : ℤ) :
    Discrete.unif01 ((Discrete.geomRandomise ε 1 x) ⁻¹' {x + k})
      = ENNReal.ofReal ((1 - Real.exp (-ε)) / (1 + Real.exp (-ε)) * Real.exp (-ε) ^ k.natAbs) :=
  PM.geomRandomise_atom ε hε x k

/-- the output law of the mean / sum / count_nonzero plans under the kernels is the law of the run under the draws -/
theorem tool_law_eq_run (n : ℕ) (ε l u : ℝ) (hε : 0 < ε) (h : l ≤ u) (D : List ℝ) :
    (meanPlan n ε l u).law PM.truncLapKernel D = Smp.unif01x4.map (Tools.meanRun n ε l u D) ∧
    (sumPlan n ε l u).law PM.truncLapKernel D = Smp.unif01x4.map (Tools.sumRun n ε l u D) ∧
    (countNonzeroPlan n ε).law PM.geomKernel D = Discrete.unif01.map (Tools.countRun n ε D) :=
  ⟨Tools.meanPlan_law_eq_run n ε l u hε h D, Tools.sumPlan_law_eq_run n ε l u hε h D,
    Tools.countNonzeroPlan_law_eq_run n ε hε D⟩

/-- **`mean`, from uniform draws to the release, is ε-DP**: for neighbouring arrays and every measurable `S`, the
probability — over the four uniforms `Laplace._laplace_sampler` draws — that
`LaplaceTruncated(ε, 0, (u−l)/n, l, u).randomise(mean(clip(D)))` lands in `S` moves by at most `e^ε` -/
theorem mean_tool_end_to_end (ε l u : ℝ) (hε : 0 < ε) (h : l ≤ u) (pre post : List ℝ) (x y : ℝ)
    (S : Set ℝ) (hS : MeasurableSet S) :
    Smp.unif01x4 (Tools.meanRun (pre ++ x :: post).length ε l u (pre ++ x :: post) ⁻¹' S) ≤
      ENNReal.ofReal (Real.exp ε) *
        Smp.unif01x4 (Tools.meanRun (pre ++ x :: post).length ε l u (pre ++ y :: post) ⁻¹' S) := by
  have key := mean_tool_dp_laplace ε l u hε h pre post x y S hS
  rw [Tools.meanPlan_law_eq_run _ ε l u hε h, Tools.meanPlan_law_eq_run _ ε l u hε h,
    Measure.map_apply (Tools.measurable_meanRun _ _ _ _ _) hS,
    Measure.map_apply (Tools.measurable_meanRun _ _ _ _ _) hS] at key
  exact key

/-- non-vacuity: ε = 1, bounds (0, 1), `[0, 1]` vs `[1, 1]`; and the run is the code's formula (all four uniforms 0:
no noise, the clipped mean is released) -/
example (S : Set ℝ) (hS : MeasurableSet S) :
    Smp.unif01x4 (Tools.meanRun 2 1 0 1 [0, 1] ⁻¹' S) ≤
      ENNReal.ofReal (Real.exp 1) * Smp.unif01x4 (Tools.meanRun 2 1 0 1 [1, 1] ⁻¹' S) := by
  have := mean_tool_end_to_end 1 0 1 (by norm_num) (by norm_num) [] [1] 0 1 S hS
  simpa using this

example : Tools.meanRun 2 1 0 1 [0, 1] (0, 0, 0, 0) = 1 / 2 := by
  norm_num [Tools.meanRun, Smp.laplaceTruncated, Smp.laplace, Smp.lap4, Smp.truncate, Tools.mean, Tools.sum,
    Tools.clip]

/-- **`sum`, from uniform draws to the release, is ε-DP** -/
theorem sum_tool_end_to_end (ε l u : ℝ) (hε : 0 < ε) (h : l ≤ u) (pre post : List ℝ) (x y : ℝ)
    (S : Set ℝ) (hS : MeasurableSet S) :
    Smp.unif01x4 (Tools.sumRun (pre ++ x :: post).length ε l u (pre ++ x :: post) ⁻¹' S) ≤
      ENNReal.ofReal (Real.exp ε) *
        Smp.unif01x4 (Tools.sumRun (pre ++ x :: post).length ε l u (pre ++ y :: post) ⁻¹' S) := by
  have key := sum_tool_dp_laplace ε l u hε h pre post x y S hS
  rw [Tools.sumPlan_law_eq_run _ ε l u hε h, Tools.sumPlan_law_eq_run _ ε l u hε h,
    Measure.map_apply (Tools.measurable_sumRun _ _ _ _ _) hS,
    Measure.map_apply (Tools.measurable_sumRun _ _ _ _ _) hS] at key
  exact key

example (S : Set ℝ) (hS : MeasurableSet S) :
    Smp.unif01x4 (Tools.sumRun 2 1 0 1 [0, 1] ⁻¹' S) ≤
      ENNReal.ofReal (Real.exp 1) * Smp.unif01x4 (Tools.sumRun 2 1 0 1 [1, 1] ⁻¹' S) := by
  have := sum_tool_end_to_end 1 0 1 (by norm_num) (by norm_num) [] [1] 0 1 S hS
  simpa using this

/-- **`count_nonzero`, from the uniform draw to the release, is ε-DP**: the probability — over the uniform
`Geometric.randomise` draws — that `GeometricTruncated(ε, 1, 0, n).randomise(count)` lands in `S` moves by at most `e^ε` -/
theorem count_tool_end_to_end (ε : ℝ) (hε : 0 < ε) (pre post : List ℝ) (x y : ℝ) (S : Set ℝ)
    (hS : MeasurableSet S) :
    Discrete.unif01 (Tools.countRun (pre ++ x :: post).length ε (pre ++ x :: post) ⁻¹' S) ≤
      ENNReal.ofReal (Real.exp ε) *
        Discrete.unif01 (Tools.countRun (pre ++ x :: post).length ε (pre ++ y :: post) ⁻¹' S) := by
  have key := count_tool_dp_geometric ε hε pre post x y S hS
  rw [Tools.countNonzeroPlan_law_eq_run _ ε hε, Tools.countNonzeroPlan_law_eq_run _ ε hε,
    Measure.map_apply_of_aemeasurable (Tools.aemeasurable_countRun _ ε hε _) hS,
    Measure.map_apply_of_aemeasurable (Tools.aemeasurable_countRun _ ε hε _) hS] at key
  exact key

/-- the run in `count_tool_end_to_end` is C01's model of `GeometricTruncated.randomise` (integer `_truncate` with the
bounds `0`, `n`; `Discrete.geomTruncRandomise`) applied to the count, embedded in the reals -/
theorem count_run_is_model (n : ℕ) (ε : ℝ) (D : List ℝ) (v : ℝ) :
    Tools.countRun n ε D v = (((Discrete.geomTruncRandomise ε 1 (.half (2 * 0)) (.half (2 * (n : ℤ)))
      ⌊Tools.sum (D.map (fun x => if eqv x 0 then (0 : ℝ) else 1))⌋ v).getD 0 : ℤ) : ℝ) :=
  Tools.countRun_eq_model n ε D v

example (S : Set ℝ) (hS : MeasurableSet S) :
    Discrete.unif01 (Tools.countRun 2 1 [0, 3] ⁻¹' S) ≤
      ENNReal.ofReal (Real.exp 1) * Discrete.unif01 (Tools.countRun 2 1 [5, 3] ⁻¹' S) := by
  have := count_tool_end_to_end 1 (by norm_num) [] [3] 0 5 S hS
  simpa using this

/-! ### more than one invocation: independent blocks of draws (`Measure.pi`), block `i` feeds call `i` -/

/-- **the law of a sequence of `k` one-invocation plans is the law of the run on `k` independent blocks of draws**:
if on every configured call the kernel is the push-forward of `ν` (one block) under the sampler `samp`, the output law
of `Plan.seq` is the push-forward of `ν^k` under `PM.runCells` (`List.ofFn fun i => gᵢ (samp cᵢ (inpᵢ D) (ω i))`) -/
theorem law_seq_eq_pi_run {δ Ω : Type} [MeasurableSpace Ω] (ν : Measure Ω) [IsProbabilityMeasure ν]
    (M : MechCall ℝ → ℝ → Measure ℝ) (hprob : ∀ c a, IsProbabilityMeasure (M c a))
    (samp : MechCall ℝ → ℝ → Ω → ℝ) {k : ℕ} (f : Fin k → Tools.Cell δ ℝ ℝ)
    (hM : ∀ i a, M (f i).c a = ν.map (samp (f i).c a)) (hs : ∀ i a, Measurable (samp (f i).c a))
    (hg : ∀ i, Measurable (f i).g) (D : δ) :
    (Plan.seq (List.ofFn fun i => (f i).plan)).law M D
      = (Measure.pi fun _ : Fin k => ν).map (PM.runCells samp f D) :=
  PM.law_seq_eq_pi_run ν M hprob samp f hM hs hg D

/-- non-vacuity: two `LaplaceTruncated` cells under `truncLapKernel`, blocks of four uniforms -/
example (D : List ℝ) :
    (Plan.seq (List.ofFn fun i : Fin 2 => (Tools.meanMk 2 3 1 0 1).plan)).law PM.truncLapKernel D
      = (Measure.pi fun _ : Fin 2 => Smp.unif01x4).map
          (PM.runCells PM.truncLapSampler (fun _ : Fin 2 => Tools.meanMk 2 3 1 0 1) D) :=
  law_seq_eq_pi_run Smp.unif01x4 PM.truncLapKernel PM.truncLapKernel_isProb PM.truncLapSampler _
    (fun _ a => PM.truncLapKernel_eq_sampler_law _ (by norm_num [Tools.meanMk]) (by norm_num [Tools.meanMk]) rfl
      (by norm_num [Tools.meanMk]) a)
    (fun _ _ => PM.measurable_truncLapSampler _ _) (fun _ => measurable_id) D

/-- the output law of `mean(axis=…)` / `sum(axis=…)` is the law of the run (cell `c`: `meanRun` / `sumRun` on column `c`
with `ε/size`, the cell's bounds and the `c`-th block of four uniforms) under `size` independent blocks -/
theorem axis_tool_law_eq_run (size n : ℕ) (hsize : 0 < size) (ε : ℝ) (hε : 0 < ε) (bounds : ℕ → ℝ × ℝ)
    (hb : ∀ c, (bounds c).1 ≤ (bounds c).2) (D : List (List ℝ)) :
    (wrapAxis 0 size ε bounds (meanPlan n)).law PM.truncLapKernel D
      = (Measure.pi fun _ : Fin size => Smp.unif01x4).map (Tools.meanAxisRun size n ε bounds D) ∧
    (wrapAxis 0 size ε bounds (sumPlan n)).law PM.truncLapKernel D
      = (Measure.pi fun _ : Fin size => Smp.unif01x4).map (Tools.sumAxisRun size n ε bounds D) :=
  ⟨Tools.meanAxis_law_eq_run size n hsize ε hε bounds hb D, Tools.sumAxis_law_eq_run size n hsize ε hε bounds hb D⟩

/-- **`mean(axis=…)`, from `4·size` uniform draws to the released vector, is ε-DP**: neighbouring records × cells
matrices, every measurable set of output vectors; probability over `size` independent blocks of four uniforms -/
theorem mean_axis_tool_end_to_end (size : ℕ) (hsize : 0 < size) (ε : ℝ) (hε : 0 < ε) (bounds : ℕ → ℝ × ℝ)
    (hb : ∀ c, (bounds c).1 ≤ (bounds c).2) (pre post : List (List ℝ)) (r r' : List ℝ)
    (S : Set (List ℝ)) (hS : MeasurableSet S) :
    (Measure.pi fun _ : Fin size => Smp.unif01x4)
        (Tools.meanAxisRun size (pre ++ r :: post).length ε bounds (pre ++ r :: post) ⁻¹' S) ≤
      ENNReal.ofReal (Real.exp ε) * (Measure.pi fun _ : Fin size => Smp.unif01x4)
        (Tools.meanAxisRun size (pre ++ r :: post).length ε bounds (pre ++ r' :: post) ⁻¹' S) := by
  have key := mean_axis_tool_dp_laplace size hsize ε hε bounds hb pre post r r' S hS
  rw [Tools.meanAxis_law_eq_run size _ hsize ε hε bounds hb, Tools.meanAxis_law_eq_run size _ hsize ε hε bounds hb,
    Measure.map_apply (Tools.measurable_meanAxisRun _ _ _ _ _) hS,
    Measure.map_apply (Tools.measurable_meanAxisRun _ _ _ _ _) hS] at key
  exact key

/-- non-vacuity: two cells with different bounds, two records -/
example (S : Set (List ℝ)) (hS : MeasurableSet S) :
    (Measure.pi fun _ : Fin 2 => Smp.unif01x4)
        (Tools.meanAxisRun 2 2 1 (fun c => ((0 : ℝ), (c : ℝ) + 1)) [[0, 0], [1, 2]] ⁻¹' S) ≤
      ENNReal.ofReal (Real.exp 1) * (Measure.pi fun _ : Fin 2 => Smp.unif01x4)
        (Tools.meanAxisRun 2 2 1 (fun c => ((0 : ℝ), (c : ℝ) + 1)) [[1, 2], [1, 2]] ⁻¹' S) := by
  have := mean_axis_tool_end_to_end 2 (by norm_num) 1 (by norm_num) (fun c => ((0 : ℝ), (c : ℝ) + 1))
    (by intro c; simp; positivity) [] [[1, 2]] [0, 0] [1, 2] S hS
  simpa using this

/-- **`sum(axis=…)`, from `4·size` uniform draws to the released vector, is ε-DP** -/
theorem sum_axis_tool_end_to_end (size : ℕ) (hsize : 0 < size) (ε : ℝ) (hε : 0 < ε) (bounds : ℕ → ℝ × ℝ)
    (hb : ∀ c, (bounds c).1 ≤ (bounds c).2) (pre post : List (List ℝ)) (r r' : List ℝ)
    (S : Set (List ℝ)) (hS : MeasurableSet S) :
    (Measure.pi fun _ : Fin size => Smp.unif01x4)
        (Tools.sumAxisRun size (pre ++ r :: post).length ε bounds (pre ++ r :: post) ⁻¹' S) ≤
      ENNReal.ofReal (Real.exp ε) * (Measure.pi fun _ : Fin size => Smp.unif01x4)
        (Tools.sumAxisRun size (pre ++ r :: post).length ε bounds (pre ++ r' :: post) ⁻¹' S) := by
  have key := sum_axis_tool_dp_laplace size hsize ε hε bounds hb pre post r r' S hS
  rw [Tools.sumAxis_law_eq_run size _ hsize ε hε bounds hb, Tools.sumAxis_law_eq_run size _ hsize ε hε bounds hb,
    Measure.map_apply (Tools.measurable_sumAxisRun _ _ _ _ _) hS,
    Measure.map_apply (Tools.measurable_sumAxisRun _ _ _ _ _) hS] at key
  exact key

example (S : Set (List ℝ)) (hS : MeasurableSet S) :
    (Measure.pi fun _ : Fin 2 => Smp.unif01x4)
        (Tools.sumAxisRun 2 2 1 (fun c => ((0 : ℝ), (c : ℝ) + 1)) [[0, 0], [1, 2]] ⁻¹' S) ≤
      ENNReal.ofReal (Real.exp 1) * (Measure.pi fun _ : Fin 2 => Smp.unif01x4)
        (Tools.sumAxisRun 2 2 1 (fun c => ((0 : ℝ), (c : ℝ) + 1)) [[1, 2], [1, 2]] ⁻¹' S) := by
  have := sum_axis_tool_end_to_end 2 (by norm_num) 1 (by norm_num) (fun c => ((0 : ℝ), (c : ℝ) + 1))
    (by intro c; simp; positivity) [] [[1, 2]] [0, 0] [1, 2] S hS
  simpa using this

/-- **`histogram*` (unweighted), from one uniform draw per bin to the released counts, is `2ε`-DP** (`ε` when the
record enters or leaves the range, `0` when it stays in its bin): probability over independent `unif01` draws, one per
bin; the run (`Tools.histRun`) feeds draw `i` to the `GeometricTruncated(ε, 1, 0, maxsize)` invocation of bin `i`.
The sampler is `Tools.geomSamplerT`: `Geometric.randomise` then the clamp on `[0,1)` (`Tools.geomSamplerT_eq`), the
value 0 off the range of `random()` — the measurable version of `PM.geomSampler` -/
theorem hist_tool_end_to_end (edges : List (List ℝ)) (ε maxsize : ℝ) (hε : 0 < ε) (pre post : List (WRow ℝ))
    (r r' : WRow ℝ) (S : Set (List ℝ)) (hS : MeasurableSet S) :
    let μ := Measure.pi fun _ : Fin (Tools.histCells edges false ε maxsize).length => Discrete.unif01
    let run := Tools.histRun edges ε maxsize
    μ (run (pre ++ r :: post) ⁻¹' S) ≤ ENNReal.ofReal (Real.exp (ε * 2)) * μ (run (pre ++ r' :: post) ⁻¹' S) ∧
    ((binOf edges r.x = none ∨ binOf edges r'.x = none) →
      μ (run (pre ++ r :: post) ⁻¹' S) ≤ ENNReal.ofReal (Real.exp ε) * μ (run (pre ++ r' :: post) ⁻¹' S)) ∧
    (binOf edges r.x = binOf edges r'.x → μ (run (pre ++ r :: post) ⁻¹' S) ≤ μ (run (pre ++ r' :: post) ⁻¹' S)) := by
  have key := hist_tool_dp_geometric edges ε maxsize hε pre post r r' S hS
  simp only [Tools.hist_law_eq_run edges ε maxsize hε,
    Measure.map_apply (Tools.measurable_histRun edges ε maxsize hε _) hS] at key
  exact key

/-- non-vacuity: one dimension, two bins — two independent draws; the record moves from the first bin to the second -/
example (S : Set (List ℝ)) (hS : MeasurableSet S) :
    let μ := Measure.pi fun _ : Fin (Tools.histCells [[(0 : ℝ), 1, 2]] false 1 10).length => Discrete.unif01
    μ (Tools.histRun [[(0 : ℝ), 1, 2]] 1 10 [⟨[1 / 2], 1⟩] ⁻¹' S) ≤
      ENNReal.ofReal (Real.exp (1 * 2)) * μ (Tools.histRun [[(0 : ℝ), 1, 2]] 1 10 [⟨[3 / 2], 1⟩] ⁻¹' S) :=
  (hist_tool_end_to_end [[(0 : ℝ), 1, 2]] 1 10 (by norm_num) [] [] ⟨[1 / 2], 1⟩ ⟨[3 / 2], 1⟩ S hS).1

example : (Tools.histCells [[(0 : ℝ), 1, 2]] false 1 10).length = 2 := by
  simp [Tools.histCells, cellsOf]

end EndToEnd

end DPL.C07
