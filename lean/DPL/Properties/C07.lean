import DPL.Model.PlanTools
namespace DPL.C07
theorem stub : True := trivial
end DPL.C07
