import DPL.Model.Calibration
namespace DPL.C02
end DPL.C02
