/-
C02 — calibrated noise laws satisfy the (ε, δ) inequality.

The calibration functions are the executable model `DPL/Model/Calibration.lean` (run on IEEE doubles against the Python
code by `Drivers/Continuous.lean` on every check); here the same definitions are instantiated at ℝ.

Proved in full:   Laplace with optional δ (also truncated / folded, by post-processing), uniform, staircase (density
                  ratio, every γ, and the sampler's mixture weights), the snapping identity, the objective identities of
                  the analytic and the discrete Gaussian, the bracket invariants of all three root finders (★ = for an
                  arbitrary carrier, hence for doubles), "the discrete-Gaussian root finder returns a point whose objective is ≤ 0";
                  bounded-noise Laplace END TO END (`bounded_noise_dp`, = `bounded_noise_dp_full`: the renormalised
                  restriction of the Laplace law to [x-A, x+A] satisfies P[M(x)∈S] ≤ e^ε P[M(x')∈S] + δ, δ ≤ 1/2);
                  the classical Gaussian mechanism END TO END for ε ≤ 1 (`gauss_classical_dp`: Mathlib's normal law with
                  the coded σ; `gauss_classical_dp_full_true`: Balle–Wang's expression ≤ 0 for the true erfc, defined
                  as 2/√π ∫_x^∞ e^{-t²}; `gauss_classical_dp_of_tail`: for any erfc satisfying three tail facts);
                  bounded-domain Laplace for EVERY scale on the private side of the fixed point
                  (`bounded_domain_dp_of_fixpoint`, `bounded_domain_density_dp`; the normaliser bound — Holohan et al.
                  Lemma 3.4 — is now proved: `bounded_domain_normaliser_bound`).
Partial (`…_partial`, full statement kept as `def …_full : Prop`):
                  bounded-domain Laplace: what is left of `bounded_domain_dp_full` is exactly the side of the root on
                  which the returned bracket midpoint falls (`bounded_domain_dp_full_of_private_side`);
                  analytic Gaussian: Balle–Wang Thm 8 (sufficiency) is now PROVED for the normal law
                  (`gauss_dp_of_balleWang`); what is left of `analytic_gauss_dp_full` is the midpoint's side of the root
                  (`analytic_gauss_dp_of_private_side`), for the true erfc;
                  discrete Gaussian (Canonne–Kamath–Steinke Thm 7) and snapping (Mironov Thm 1): cited hypotheses,
                  never axioms.
Not provable even in exact arithmetic: that a bracket MIDPOINT (bounded-domain, analytic Gaussian) lies on the private
side of the root — it is within half a (tiny) bracket of it; checked numerically on every run.
-/
import DPL.Model.Calibration
import DPL.Proofs.RealCarrier
import DPL.Proofs.ContinuousCalib
import DPL.Proofs.ContinuousRoots
import DPL.Proofs.ContinuousIntegrals
import DPL.Proofs.ContinuousDP
import DPL.Proofs.ContinuousObjective
import DPL.Proofs.ContinuousBoundedNoise
import DPL.Proofs.ContinuousBoundedDomain
import DPL.Proofs.ContinuousBoundedDomainDP
import DPL.Proofs.ContinuousGaussTail
import DPL.Proofs.ContinuousGaussErfc
import DPL.Proofs.ContinuousGaussDP
import DPL.Proofs.ContinuousGaussBW
import DPL.Proofs.KernelsFolded

namespace DPL.C02
open DPL DPL.Cont MeasureTheory ProbabilityTheory

/-! ## Laplace (optional δ), truncated, folded -/

/-- pointwise: two Laplace densities with the same scale and centres at most `Δ` apart differ by at most `e^{Δ/b}` -/
theorem laplace_density_ratio (b x x' y Δ : ℝ) (hb : 0 < b) (hx : |x - x'| ≤ Δ) :
    lapDensity b x y ≤ Real.exp (Δ / b) * lapDensity b x' y := by
  unfold lapDensity
  have := laplace_ratio b x x' y Δ hb hx
  rw [← mul_div_assoc]
  exact div_le_div_of_nonneg_right this (by positivity)

/-- with the coded scale `sens / (ε - log(1-δ))` the worst-case ratio is exactly `e^ε / (1-δ)` -/
theorem laplace_scale_ratio (eps delta sens : ℝ) (hs : 0 < sens) (hd : delta < 1)
    (hpos : 0 < eps - Real.log (1 - delta)) :
    Real.exp (sens / laplaceScale eps delta sens) = Real.exp eps / (1 - delta) :=
  exp_sens_div_laplaceScale eps delta sens hs hd hpos

/-- `P ≤ e^ε/(1-δ) · P'` and `P ≤ 1` give `P ≤ e^ε P' + δ` -/
theorem approx_of_scaled (P P' e d : ℝ) (hP1 : P ≤ 1) (hP' : 0 ≤ P') (he : 0 < e) (hd0 : 0 ≤ d) (hd1 : d < 1)
    (h : P ≤ e / (1 - d) * P') : P ≤ e * P' + d :=
  Cont.approx_of_scaled P P' e d hP1 hP' he hd0 hd1 h

/-- the Laplace law is normalised (so that `P ≤ 1` above is not an assumption) -/
theorem laplace_normalised (b x : ℝ) (hb : 0 < b) : lapMeasure b x Set.univ = 1 := lapMeasure_univ b x hb

/-- **Laplace mechanism, (ε, δ)-DP**: with the coded scale, for all inputs at most `sens` apart and every measurable
output set -/
theorem laplace_dp (eps delta sens x x' : ℝ) (hs : 0 < sens) (hd0 : 0 ≤ delta) (hd1 : delta < 1)
    (hpos : 0 < eps - Real.log (1 - delta)) (hx : |x - x'| ≤ sens) (S : Set ℝ) (hS : MeasurableSet S) :
    lapMeasure (laplaceScale eps delta sens) x S ≤
      ENNReal.ofReal (Real.exp eps) * lapMeasure (laplaceScale eps delta sens) x' S + ENNReal.ofReal delta := by
  have hb : 0 < laplaceScale eps delta sens := by rw [laplaceScale_real]; positivity
  apply approx_of_scaled_ennreal _ _ _ _ (lapMeasure_le_one _ _ hb S) hd0 hd1
  rw [← exp_sens_div_laplaceScale eps delta sens hs hd1 hpos]
  exact lapMeasure_ratio _ x x' sens hb hx S hS

/-- non-vacuity of the hypotheses of `laplace_dp` (ε = 1, δ = 1/2, sens = 1) -/
example : (0:ℝ) < 1 ∧ (0:ℝ) ≤ 1/2 ∧ (1/2:ℝ) < 1 ∧ 0 < (1:ℝ) - Real.log (1 - 1/2) ∧ |(0:ℝ) - 1| ≤ 1 := by
  refine ⟨by norm_num, by norm_num, by norm_num, ?_, by norm_num⟩
  have : Real.log (1 - 1/2) < 0 := Real.log_neg (by norm_num) (by norm_num)
  linarith

/-- post-processing: any measurable map of the output (in particular truncation and folding) keeps the guarantee -/
theorem laplace_postprocess_dp (eps delta sens x x' : ℝ) (hs : 0 < sens) (hd0 : 0 ≤ delta) (hd1 : delta < 1)
    (hpos : 0 < eps - Real.log (1 - delta)) (hx : |x - x'| ≤ sens) (g : ℝ → ℝ) (hg : Measurable g)
    (T : Set ℝ) (hT : MeasurableSet T) :
    ((lapMeasure (laplaceScale eps delta sens) x).map g) T ≤
      ENNReal.ofReal (Real.exp eps) * ((lapMeasure (laplaceScale eps delta sens) x').map g) T + ENNReal.ofReal delta :=
  dp_postprocess _ _ (fun S hS => laplace_dp eps delta sens x x' hs hd0 hd1 hpos hx S hS) g hg T hT

/-- **truncated Laplace** (`LaplaceTruncated`): the clamp to `[lo, hi]` is such a map -/
theorem laplace_truncated_dp (eps delta sens x x' lo hi : ℝ) (hs : 0 < sens) (hd0 : 0 ≤ delta) (hd1 : delta < 1)
    (hpos : 0 < eps - Real.log (1 - delta)) (hx : |x - x'| ≤ sens) (T : Set ℝ) (hT : MeasurableSet T) :
    ((lapMeasure (laplaceScale eps delta sens) x).map (fun y => max lo (min y hi))) T ≤
      ENNReal.ofReal (Real.exp eps) * ((lapMeasure (laplaceScale eps delta sens) x').map (fun y => max lo (min y hi))) T
        + ENNReal.ofReal delta :=
  laplace_postprocess_dp eps delta sens x x' hs hd0 hd1 hpos hx _ (measurable_truncate lo hi) T hT

/-! ## uniform (ε = 0) -/

/-- **uniform mechanism, (0, δ)-DP**: with the coded half width `sens/δ/2`, a shift `0 ≤ t ≤ sens` moves mass at most
`δ`, in both directions, for every measurable output set -/
theorem uniform_dp (delta sens x t : ℝ) (hd : 0 < delta) (hs : 0 < sens) (ht0 : 0 ≤ t) (ht : t ≤ sens)
    (S : Set ℝ) (hS : MeasurableSet S) :
    unifMeasure (uniformHalfWidth delta sens) x S ≤
        unifMeasure (uniformHalfWidth delta sens) (x + t) S + ENNReal.ofReal delta ∧
    unifMeasure (uniformHalfWidth delta sens) (x + t) S ≤
        unifMeasure (uniformHalfWidth delta sens) x S + ENNReal.ofReal delta := by
  have hw : 0 < uniformHalfWidth delta sens := by rw [uniformHalfWidth_real]; positivity
  have hle : t / (2 * uniformHalfWidth delta sens) ≤ delta := by
    rw [uniformHalfWidth_real, div_le_iff₀ (by positivity)]
    have : delta * (2 * (sens / delta / 2)) = sens := by field_simp
    rw [this]; exact ht
  obtain ⟨h1, h2⟩ := unifMeasure_shift _ x t hw ht0 S hS
  have hmono := ENNReal.ofReal_le_ofReal hle
  exact ⟨h1.trans (add_le_add le_rfl hmono), h2.trans (add_le_add le_rfl hmono)⟩

/-! ## staircase -/

/-- pointwise density ratio `≤ e^ε` under shifts `≤ sens` (floor arithmetic), for every `γ` -/
theorem staircase_density_ratio (a eps gamma sens x x' y : ℝ) (ha : 0 ≤ a) (he : 0 ≤ eps) (hs : 0 < sens)
    (hx : |x - x'| ≤ sens) :
    stairDensity a eps gamma sens x y ≤ Real.exp eps * stairDensity a eps gamma sens x' y :=
  stairDensity_ratio a eps gamma sens x x' y ha he hs hx

/-- **staircase mechanism, ε-DP** on every output set (for any base measure), every `γ` -/
theorem staircase_dp {μ : Measure ℝ} (a eps gamma sens x x' : ℝ) (ha : 0 ≤ a) (he : 0 ≤ eps) (hs : 0 < sens)
    (hx : |x - x'| ≤ sens) (S : Set ℝ) :
    ∫⁻ y in S, ENNReal.ofReal (stairDensity a eps gamma sens x y) ∂μ ≤
      ENNReal.ofReal (Real.exp eps) * ∫⁻ y in S, ENNReal.ofReal (stairDensity a eps gamma sens x' y) ∂μ := by
  apply set_bound_of_pointwise _ _ _ ENNReal.ofReal_ne_top
  intro y
  rw [← ENNReal.ofReal_mul (Real.exp_pos _).le]
  exact ENNReal.ofReal_le_ofReal (stairDensity_ratio a eps gamma sens x x' y ha he hs hx)

/-- the sampler's parameters realise that density: the geometric draw has ratio `e^{-ε}`, and the binary threshold
`q₀ = γ/(γ + (1-γ)e^{-ε})` makes the second sub-step `e^{-ε}` times as high as the first
(`(1-q₀)/(1-γ) = e^{-ε} · q₀/γ`), which is also the height of the first sub-step of the next level -/
theorem staircase_sampler_params (eps gamma : ℝ) (hg0 : 0 < gamma) (hg1 : gamma < 1) :
    1 - staircaseGeomP eps = Real.exp (-eps) ∧
    (1 - staircaseBinThresh eps gamma) / (1 - gamma) = Real.exp (-eps) * (staircaseBinThresh eps gamma / gamma) := by
  unfold staircaseGeomP staircaseBinThresh
  simp only [transc_exp]
  have hE : 0 < Real.exp (-eps) := Real.exp_pos _
  have hden : 0 < gamma + (1 - gamma) * Real.exp (-eps) := by
    have : 0 < (1 - gamma) * Real.exp (-eps) := mul_pos (by linarith) hE
    linarith
  refine ⟨by ring, ?_⟩
  have h1 : 1 - gamma ≠ 0 := by linarith
  field_simp
  ring

/-! ## snapping -/

/-- **snapping**: the internal epsilon `ε' = (ε - 2η)/(1 + 12Bη)` satisfies `ε'(1 + 12Bη) + 2η = ε` and
`0 < ε' ≤ ε`; Mironov's Theorem 1 (the mechanism run with `ε'` on `[-B, B]` is `(ε'(1+12Bη) + 2η)`-DP) is the cited
hypothesis that turns this into ε-DP -/
theorem snapping_eff_eps (eta eps B : ℝ) (hB : 0 ≤ B) (heta : 0 ≤ eta) (he : 2 * eta < eps) :
    snapEffEps eta eps B * (1 + 12 * B * eta) + 2 * eta = eps ∧
    0 < snapEffEps eta eps B ∧ snapEffEps eta eps B ≤ eps :=
  ⟨snap_identity eta eps B hB heta, snap_pos eta eps B hB heta he, snap_le eta eps B hB heta he⟩

/-- end to end, with Mironov's theorem as an explicit hypothesis about an abstract guarantee `isDP internalEps B ε` -/
theorem snapping_dp_of_mironov (isDP : ℝ → ℝ → ℝ → Prop) (eta : ℝ) (heta : 0 ≤ eta)
    (mironov : ∀ e' B, 0 < e' → 0 ≤ B → isDP e' B (e' * (1 + 12 * B * eta) + 2 * eta))
    (eps B : ℝ) (hB : 0 ≤ B) (he : 2 * eta < eps) : isDP (snapEffEps eta eps B) B eps := by
  have h := mironov (snapEffEps eta eps B) B (snap_pos eta eps B hB heta he) hB
  rwa [snap_identity eta eps B hB heta] at h

example : (0:ℝ) ≤ 500 ∧ (0:ℝ) ≤ 2⁻¹ ^ 53 ∧ 2 * (2⁻¹ ^ 53 : ℝ) < 1 := by norm_num

/-! ## bounded-noise Laplace (Geng et al.) -/

/-- the full statement (PROVED below: `bounded_noise_dp`, `bounded_noise_dp_full_holds`) -/
def bounded_noise_dp_full : Prop :=
  ∀ (eps delta sens x x' : ℝ), 0 < eps → 0 < delta → delta < 1/2 → 0 < sens → |x - x'| ≤ sens →
    ∀ S : Set ℝ, MeasurableSet S →
      let b := sens / eps
      let A := boundedNoiseBound eps delta sens
      let law := fun c : ℝ => (ENNReal.ofReal (1 / (1 - Real.exp (-A / b)))) •
        ((lapMeasure b c).restrict (Set.Icc (c - A) (c + A)))
      law x S ≤ ENNReal.ofReal (Real.exp eps) * law x' S + ENNReal.ofReal delta

/-- **bounded-noise Laplace, the three facts** (assembled into the end-to-end statement by `bounded_noise_dp`): with scale `b = sens/ε` and the coded bound `A`,
(i) where both truncated densities are positive their ratio is at most `e^ε` (same normaliser),
(ii) `e^{-A/b} = 2δ/(2δ + e^ε - 1)`, and
(iii) the mass within `sens` of an end of the support — `e^{-A/b}(e^{sens/b} - 1) / (2(1 - e^{-A/b}))` once the
integral of `e^{-|z|/b}/(2b(1 - e^{-A/b}))` over `[A - sens, A]` is evaluated — is exactly `δ`. -/
theorem bounded_noise_dp_partial (eps delta sens : ℝ) (he : 0 < eps) (hd : 0 < delta) (hs : 0 < sens) :
    (∀ x x' y : ℝ, |x - x'| ≤ sens →
        lapDensity (sens / eps) x y ≤ Real.exp eps * lapDensity (sens / eps) x' y) ∧
    Real.exp (-(boundedNoiseBound eps delta sens) / (sens / eps)) = 2 * delta / (2 * delta + Real.exp eps - 1) ∧
    (let b := sens / eps
     let q := Real.exp (-(boundedNoiseBound eps delta sens) / b)
     q * (Real.exp (sens / b) - 1) / (2 * (1 - q)) = delta) := by
  refine ⟨?_, exp_neg_bound_div_scale eps delta sens he hd hs, bounded_noise_tail_mass eps delta sens he hd hs⟩
  intro x x' y hx
  have hb : 0 < sens / eps := by positivity
  have h := laplace_density_ratio (sens / eps) x x' y sens hb hx
  have : sens / (sens / eps) = eps := by field_simp
  rwa [this] at h

/-- the law in `bounded_noise_dp_full` is a probability law: the normaliser `1 - e^{-A/b}` is the Laplace mass of
`[c - A, c + A]` -/
theorem bounded_noise_law_normalised (eps delta sens c : ℝ) (he : 0 < eps) (hd : 0 < delta) (hs : 0 < sens) :
    let b := sens / eps
    let A := boundedNoiseBound eps delta sens
    ((ENNReal.ofReal (1 / (1 - Real.exp (-A / b)))) •
      ((lapMeasure b c).restrict (Set.Icc (c - A) (c + A)))) Set.univ = 1 :=
  bounded_noise_law_univ eps delta sens c he hd hs

/-- **bounded-noise Laplace, (ε, δ)-DP end to end** (`LaplaceBoundedNoise`, `δ ≤ 1/2`): with scale `b = sens/ε` and the
coded noise bound `A`, the law of `x + noise` — the Laplace density restricted to `[x - A, x + A]` and divided by
`1 - e^{-A/b}` — satisfies `P[M(x) ∈ S] ≤ e^ε P[M(x') ∈ S] + δ` for all `|x - x'| ≤ sens` and every measurable `S`.
Assembled from the facts of `bounded_noise_dp_partial`: ratio `≤ e^ε` on the overlap of the supports, and the part of
the support of `M(x)` outside that of `M(x')` is an end piece of width `≤ sens` (here `sens ≤ A` is where `δ ≤ 1/2`
enters) whose normalised mass — the integral of the density is now evaluated — is exactly `δ`. -/
theorem bounded_noise_dp (eps delta sens x x' : ℝ) (he : 0 < eps) (hd : 0 < delta) (hd2 : delta ≤ 1 / 2)
    (hs : 0 < sens) (hx : |x - x'| ≤ sens) (S : Set ℝ) (hS : MeasurableSet S) :
    let b := sens / eps
    let A := boundedNoiseBound eps delta sens
    let law := fun c : ℝ => (ENNReal.ofReal (1 / (1 - Real.exp (-A / b)))) •
      ((lapMeasure b c).restrict (Set.Icc (c - A) (c + A)))
    law x S ≤ ENNReal.ofReal (Real.exp eps) * law x' S + ENNReal.ofReal delta :=
  bounded_noise_dp_measure eps delta sens x x' he hd hd2 hs hx S hS

/-- the statement kept as `bounded_noise_dp_full` holds -/
theorem bounded_noise_dp_full_holds : bounded_noise_dp_full :=
  fun eps delta sens x x' he hd hd2 hs hx S hS => bounded_noise_dp eps delta sens x x' he hd hd2.le hs hx S hS

/-- non-vacuity of the hypotheses of `bounded_noise_dp` (ε = 1, δ = 1/4, sens = 1, x = 0, x' = 1) -/
example : (0:ℝ) < 1 ∧ (0:ℝ) < 1/4 ∧ (1/4:ℝ) ≤ 1/2 ∧ |(0:ℝ) - 1| ≤ 1 := by norm_num

/-! ## bounded-domain Laplace (Holohan et al.) -/

/-- the full statement: the scale the root finder returns is private (not provable: the returned midpoint lies within
half a bracket of the fixed point, on either side) -/
def bounded_domain_dp_full : Prop :=
  ∀ (eps delta sens lo hi x x' y : ℝ), 0 < eps → 0 ≤ delta → delta < 1 → 0 < sens → lo < hi →
    lo ≤ x → x ≤ hi → lo ≤ x' → x' ≤ hi → |x - x'| ≤ sens → lo ≤ y → y ≤ hi →
    let b := (bdScale eps delta sens (hi - lo)).1
    let C := fun c : ℝ => 1 - (Real.exp (-(c - lo) / b) + Real.exp (-(hi - c) / b)) / 2
    Real.exp (-|y - x| / b) / (2 * b * C x) ≤
      Real.exp eps / (1 - delta) * (Real.exp (-|y - x'| / b) / (2 * b * C x'))

/-- **bounded-domain Laplace, partial** (superseded by `bounded_domain_density_dp`, which needs no `hnorm`): IF the scale `b` is at least the fixed-point expression
`sens / (ε - log ΔC - log(1-δ))` for a `ΔC` that bounds the ratio of the normalisers (Holohan et al. Lemma 3.4:
`ΔC(b)` of the code does), THEN the density ratio is at most `e^ε/(1-δ)` — which `approx_of_scaled` turns into
(ε, δ)-DP -/
theorem bounded_domain_dp_partial (eps delta sens b dC cx cx' x x' y : ℝ) (hb : 0 < b) (hd : delta < 1)
    (hdC : 0 < dC) (hcx : 0 < cx) (hcx' : 0 < cx')
    (hden : 0 < eps - Real.log dC - Real.log (1 - delta))
    (hfix : sens / (eps - Real.log dC - Real.log (1 - delta)) ≤ b)
    (hnorm : cx' / cx ≤ dC) (hx : |x - x'| ≤ sens) :
    Real.exp (-|y - x| / b) / (2 * b * cx) ≤
      Real.exp eps / (1 - delta) * (Real.exp (-|y - x'| / b) / (2 * b * cx')) :=
  bounded_domain_ratio eps delta sens b dC cx cx' x x' y hb hd hdC hcx hcx' hden hfix hnorm hx

example : (0:ℝ) < 1 ∧ (0:ℝ) < 1 - Real.log 1 - Real.log (1 - 0) ∧ (1:ℝ) / (1 - Real.log 1 - Real.log (1 - 0)) ≤ 1 := by
  simp

/-- **the normaliser bound, proved** (Holohan et al. Lemma 3.4 in the form the guarantee needs; it was a cited
hypothesis): with `c(a) = 1 - (e^{-a/b} + e^{-(D-a)/b})/2` the normaliser at offset `a = x - lo` in a domain of width
`D`, for offsets `a, a' ∈ [0, D]` with `|a - a'| ≤ Δ ≤ D`:  `e^{|a-a'|/b}·c(a')·c(0) ≤ e^{Δ/b}·c(Δ)·c(a)`, i.e.
`e^{|x-x'|/b}·C(x')/C(x) ≤ e^{Δ/b}·ΔC(b)` with the coded `ΔC = c(Δ)/c(0)` (`bdDeltaC_real`).
(`C(x')/C(x) ≤ ΔC` alone — hypothesis `hnorm` of `bounded_domain_dp_partial` — fails for `Δ > D/2`; the product with
the exponential factor is what is bounded, and what the density ratio needs.) -/
theorem bounded_domain_normaliser_bound (b D a a' Δ : ℝ) (hb : 0 < b) (hD : 0 < D) (ha : 0 ≤ a) (haD : a ≤ D)
    (ha' : 0 ≤ a') (ha'D : a' ≤ D) (hd : |a - a'| ≤ Δ) (hΔD : Δ ≤ D) :
    Real.exp (|a - a'| / b) * bdNorm b D a' * bdNorm b D 0 ≤ Real.exp (Δ / b) * bdNorm b D Δ * bdNorm b D a ∧
    (0 < Δ → bdDeltaC Δ D b = bdNorm b D Δ / bdNorm b D 0) :=
  ⟨bdNorm_ratio b D a a' Δ hb hD ha haD ha' ha'D hd hΔD, fun _ => bdDeltaC_real Δ D b hb hD⟩

/-- **bounded-domain Laplace, density ratio with the model's own `_delta_c` and `_f`, no hypothesis on the
normalisers**: if the scale `b` satisfies `_f(b) ≤ b` (it lies on the private side of the fixed point the root finder
approximates), then for inputs of the domain at most `sens` apart the density ratio is at most `e^ε/(1-δ)` at every
output.  This is the conclusion of `bounded_domain_dp_full` for ANY such `b`. -/
theorem bounded_domain_density_dp (eps delta sens lo hi b x x' y : ℝ) (hb : 0 < b) (hd : delta < 1)
    (hs : 0 < sens) (hlohi : lo < hi) (hx1 : lo ≤ x) (hx2 : x ≤ hi) (hx'1 : lo ≤ x') (hx'2 : x' ≤ hi)
    (hxx : |x - x'| ≤ sens)
    (hden : 0 < eps - Real.log (bdDeltaC (pyMin2 sens (hi - lo)) (hi - lo) b) - Real.log (1 - delta))
    (hfix : bdF eps delta (pyMin2 sens (hi - lo)) (hi - lo) b ≤ b) :
    Real.exp (-|y - x| / b) / (2 * b * (1 - (Real.exp (-(x - lo) / b) + Real.exp (-(hi - x) / b)) / 2)) ≤
      Real.exp eps / (1 - delta) *
        (Real.exp (-|y - x'| / b) / (2 * b * (1 - (Real.exp (-(x' - lo) / b) + Real.exp (-(hi - x') / b)) / 2))) :=
  bounded_domain_density_ratio eps delta sens lo hi b x x' y hb hd hs hlohi hx1 hx2 hx'1 hx'2 hxx hden hfix

/-- **bounded-domain Laplace, (ε, δ)-DP end to end for every scale on the private side of the fixed point**: with
`bdLaw b lo hi x` the Laplace law centred at `x` conditioned on `[lo, hi]` (a probability law: `C19.moment_laws_normalised`),
`P[M(x) ∈ S] ≤ e^ε P[M(x') ∈ S] + δ` for inputs of the domain at most `sens` apart and every measurable `S` -/
theorem bounded_domain_dp_of_fixpoint (eps delta sens lo hi b x x' : ℝ) (hb : 0 < b) (hd0 : 0 ≤ delta)
    (hd : delta < 1) (hs : 0 < sens) (hlohi : lo < hi) (hx1 : lo ≤ x) (hx2 : x ≤ hi) (hx'1 : lo ≤ x')
    (hx'2 : x' ≤ hi) (hxx : |x - x'| ≤ sens)
    (hden : 0 < eps - Real.log (bdDeltaC (pyMin2 sens (hi - lo)) (hi - lo) b) - Real.log (1 - delta))
    (hfix : bdF eps delta (pyMin2 sens (hi - lo)) (hi - lo) b ≤ b) (S : Set ℝ) (hS : MeasurableSet S) :
    bdLaw b lo hi x S ≤ ENNReal.ofReal (Real.exp eps) * bdLaw b lo hi x' S + ENNReal.ofReal delta :=
  bdLaw_dp eps delta sens lo hi b x x' hb hd0 hd hs hlohi hx1 hx2 hx'1 hx'2 hxx hden hfix S hS

/-- what is left of `bounded_domain_dp_full` is EXACTLY the side of the root: if the scale `bdScale` returns is positive
and satisfies `_f(b) ≤ b` (with a positive denominator), the full statement holds -/
theorem bounded_domain_dp_full_of_private_side
    (hside : ∀ (eps delta sens lo hi : ℝ), 0 < eps → 0 ≤ delta → delta < 1 → 0 < sens → lo < hi →
      let b := (bdScale eps delta sens (hi - lo)).1
      0 < b ∧ 0 < eps - Real.log (bdDeltaC (pyMin2 sens (hi - lo)) (hi - lo) b) - Real.log (1 - delta) ∧
        bdF eps delta (pyMin2 sens (hi - lo)) (hi - lo) b ≤ b) :
    bounded_domain_dp_full := by
  intro eps delta sens lo hi x x' y he hd0 hd hs hlohi hx1 hx2 hx'1 hx'2 hxx _ _
  obtain ⟨hb, hden, hfix⟩ := hside eps delta sens lo hi he hd0 hd hs hlohi
  exact bounded_domain_density_ratio eps delta sens lo hi _ x x' y hb hd hs hlohi hx1 hx2 hx'1 hx'2 hxx hden hfix

section generic
variable {α : Type} [OfNat α 0] [OfNat α 1] [OfNat α 2] [Add α] [Sub α] [Mul α] [Div α] [Neg α]
  [LT α] [LE α] [DecidableLT α] [DecidableLE α] [NatCast α] [Transc α]

/-- ★ **bisect_bracket** (any carrier, any `f`, any fuel): the loop of `LaplaceBoundedDomain._find_scale` keeps
`f(left) ≥ left ∧ f(right) ≤ right` -/
theorem bisect_bracket (f : α → α) (fuel : Nat) (b : Bracket α) (h : BdInv f b) :
    BdInv f (bisectLoop f fuel b).1 :=
  bisectLoop_inv f fuel b h

/-- ★ the same for the model's `bdScale` as a whole: if the initial bracket `[left, f(left)]` has
`f(f(left)) ≤ f(left)` and `left ≤ f(left)` (what the code silently assumes), the final bracket still satisfies it -/
theorem bdScale_bracket (eps delta sens diam : α) (fuel : Nat) :
    let dq := pyMin2 sens diam
    let f := bdF eps delta dq diam
    let left := dq / (eps - Transc.log (1 - delta))
    BdInv f ⟨left, f left, (f left - left) * 2⟩ →
      BdInv f (bisectLoop f fuel ⟨left, f left, (f left - left) * 2⟩).1 := by
  intro dq f left h
  exact bisectLoop_inv f fuel _ h

/-- ★ analytic Gaussian: the binary search keeps a sign change of the objective across the bracket -/
theorem analytic_gauss_bisect_bracket (f : α → α) (fuel : Nat) (b : Bracket α) (h : AgInv f b) :
    AgInv f (agLoop f fuel b).1 :=
  agLoop_inv f fuel b h

/-- ★ analytic Gaussian: when the doubling loop ends before its fuel, the objective's product at the ends is not
positive (so the binary search starts from a sign change) -/
theorem analytic_gauss_doubling_exit (f : α → α) (fuel : Nat) (l r : α) :
    (agDouble f fuel l r).2.2 < fuel → ¬ 0 < f (agDouble f fuel l r).1 * f (agDouble f fuel l r).2.1 :=
  agDouble_exit f fuel l r

/-- ★ discrete Gaussian: the bisection keeps "stored values = objective at the ends, product not positive" -/
theorem discrete_gauss_bisect_bracket (obj : α → Option α) (rtol atol : α) (fuel : Nat) (b r : DgBracket α) (n : Nat)
    (h : DgInv obj b) (hr : dgBisect obj rtol atol fuel b = some (r, n)) : DgInv obj r :=
  dgBisect_inv obj rtol atol fuel b r n h hr

/-- ★ discrete Gaussian: the expansion loop keeps the stored values in step with the bracket and ends on a
non-positive product -/
theorem discrete_gauss_expand_bracket (obj : α → Option α) (step : α) (fuel : Nat) (b r : DgBracket α) (n : Nat)
    (h : DgTrack obj step b) (hr : dgExpand obj step fuel b = some (r, n)) :
    DgTrack obj step r ∧ ¬ 0 < r.f0 * r.f1 :=
  dgExpand_inv obj step fuel b r n h hr

end generic

/-- over ℝ: the bounded-domain bracket stays ordered and its width after `n` iterations is at most `initial / 2^n`;
the returned midpoint lies in it -/
theorem bisect_bracket_width (f : ℝ → ℝ) (fuel : Nat) (b : Bracket ℝ) (h : b.left ≤ b.right) :
    let r := bisectLoop f fuel b
    r.1.left ≤ (r.1.right + r.1.left) / 2 ∧ (r.1.right + r.1.left) / 2 ≤ r.1.right ∧
    r.1.right - r.1.left ≤ (b.right - b.left) / 2 ^ r.2 := by
  intro r
  obtain ⟨h1, h2⟩ := bisectLoop_width f fuel b h
  obtain ⟨m1, m2⟩ := mid_mem _ _ h1
  exact ⟨m1, m2, h2⟩

/-- over ℝ: with a sign change across the bracket the analytic-Gaussian binary search halves it at every step -/
theorem analytic_gauss_step_width (f : ℝ → ℝ) (b : Bracket ℝ) (h : b.left ≤ b.right) (hs : f b.left * f b.right ≤ 0) :
    (agStep f b).left ≤ (agStep f b).right ∧ (agStep f b).right - (agStep f b).left ≤ (b.right - b.left) / 2 :=
  agStep_width f b h hs

/-! ## Gaussian family -/

section gauss
variable [HasErf ℝ]

/-- **analytic_gauss_objective** (pure algebra, any `erf`): at `v = (left+right)/2` the coded `b_plus` (branch
`delta_0 < 0`, `α = √(1+v/2) - √(v/2)`) and `b_minus` (other branch, `α = √(1+v/2) + √(v/2)`) are the Balle–Wang
expression `Φ(Δ/2σ - εσ/Δ) - e^ε Φ(-Δ/2σ - εσ/Δ) - δ` at the very `σ = α Δ/√(2ε)` the code returns -/
theorem analytic_gauss_objective (eps delta sens l r : ℝ) (he : 0 < eps) (hs : 0 < sens) (hv : 0 ≤ l + r) :
    bPlus eps delta ((l + r) / 2) = balleWang eps delta sens (agSigma true eps sens l r) ∧
    bMinus eps delta ((l + r) / 2) = balleWang eps delta sens (agSigma false eps sens l r) :=
  ⟨bPlus_eq_balleWang eps delta sens l r he hs hv, bMinus_eq_balleWang eps delta sens l r he hs hv⟩

/-- the model's `analyticGaussScale` returns exactly `agSigma` of its final bracket, in the branch it chose -/
theorem analytic_gauss_scale_eq (eps delta sens : ℝ) (h : sens / eps ≠ 0) :
    (analyticGaussScale eps delta sens).scale =
      agSigma (analyticGaussScale eps delta sens).usedPlus eps sens
        (analyticGaussScale eps delta sens).left (analyticGaussScale eps delta sens).right := by
  unfold analyticGaussScale agSigma
  simp only [feq_real, h, decide_false, Bool.false_eq_true, if_false, transc_sqrt]

/-- the full statement for the analytic Gaussian: not proved — it is the side of the root on which the midpoint falls
(decided numerically on every run).  That it implies (ε, δ)-DP for the normal law (Balle–Wang Thm 8) is proved:
`gauss_dp_of_balleWang`, `analytic_gauss_dp_of_private_side`. -/
def analytic_gauss_dp_full : Prop :=
  ∀ (eps delta sens : ℝ), 0 < eps → 0 < delta → delta < 1 → 0 < sens →
    balleWang eps delta sens (analyticGaussScale eps delta sens).scale ≤ 0

/-- the full statement for the classical Gaussian mechanism (ε ≤ 1), for the `erfc` of the carrier.  For an ARBITRARY
`erfc` it is not a true statement; it is proved for the true `erfc` (`gauss_classical_dp_full_true`), under three tail
facts for any `erfc` (`gauss_classical_dp_of_tail`), and end to end for the normal law (`gauss_classical_dp`). -/
def gauss_classical_dp_full : Prop :=
  ∀ (eps delta sens : ℝ), 0 < eps → eps ≤ 1 → 0 < delta → delta < 1 → 0 < sens →
    balleWang eps delta sens (gaussSigma eps delta sens) ≤ 0

/-- **classical Gaussian, reduced to three tail facts**: for ANY `erfc`, if the model's `phi` satisfies
(H0) `0 ≤ phi x`, (H1) `phi(-t) ≤ e^{-t²/2}/2` for `t ≥ 0` (Chernoff bound with the factor ½) and (H2) `phi t ≤ ½ + t/2`
for `t ≥ 0` (density ≤ ½) — all three TRUE for the normal cdf, see `true_phi_tail_facts` — then the coded
`σ = √(2 log(1.25/δ))·Δ/ε` makes Balle–Wang's expression `≤ 0` for all `0 < ε ≤ 1`, `0 < δ < 1`.
(H2 is only used for `δ > 15/16`, where the argument of the first `phi` can be positive.) -/
theorem gauss_classical_dp_of_tail
    (H0 : ∀ x : ℝ, 0 ≤ phi x)
    (H1 : ∀ t : ℝ, 0 ≤ t → phi (-t) ≤ Real.exp (-t ^ 2 / 2) / 2)
    (H2 : ∀ t : ℝ, 0 ≤ t → phi t ≤ 1 / 2 + t / 2) : gauss_classical_dp_full :=
  gauss_classical_of_tail H0 H1 H2

end gauss

/-! ## Gaussian family with the TRUE normal cdf (`erfc x = 2/√π ∫_x^∞ e^{-t²} dt`, `ContinuousGaussErfc`) -/

/-- the tail facts asked for by `gauss_classical_dp_of_tail` hold for the model's `phi` under the true `erfc`
(`phiTrue`), which moreover is monotone with `phiTrue 0 = ½` -/
theorem true_phi_tail_facts :
    (∀ x : ℝ, 0 ≤ phiTrue x) ∧
    (∀ t : ℝ, 0 ≤ t → phiTrue (-t) ≤ Real.exp (-t ^ 2 / 2) / 2) ∧
    (∀ t : ℝ, 0 ≤ t → phiTrue t ≤ 1 / 2 + t / 2) ∧
    (∀ x y : ℝ, x ≤ y → phiTrue x ≤ phiTrue y) ∧ phiTrue 0 = 1 / 2 :=
  ⟨phiTrue_nonneg, phiTrue_neg_le, phiTrue_le, fun _ _ h => phiTrue_mono h, phiTrue_zero⟩

/-- `phiTrue` IS the normal cdf: the upper tail of Mathlib's `N(μ, σ²)` beyond `a` is `phiTrue(-(a-μ)/σ)` -/
theorem true_phi_is_normal_cdf (μ σ a : ℝ) (hσ : 0 < σ) :
    gaussianReal μ (sqNN σ) (Set.Ioi a) = ENNReal.ofReal (phiTrue (-((a - μ) / σ))) :=
  gaussianReal_Ioi μ σ a hσ

/-- **`gauss_classical_dp_full` holds for the true `erfc`**: the coded classical `σ` makes Balle–Wang's expression
`≤ 0` for all `0 < ε ≤ 1`, `0 < δ < 1`, `Δ > 0` -/
theorem gauss_classical_dp_full_true : @gauss_classical_dp_full trueErf :=
  gauss_classical_true

/-- **the classical Gaussian mechanism is (ε, δ)-DP, end to end**: for the Gaussian law `N(x, σ²)` itself (Mathlib's
`gaussianReal`, variance `sqNN σ = σ²`) with the coded `σ = gaussSigma ε δ Δ`, all `0 < ε ≤ 1`, `0 < δ < 1`, centres at
most `Δ` apart and every measurable output set.  No cited result: the good set `{p_x ≤ e^ε p_x'}` is a half-line, its
complement has mass `Φ(Δ'/2σ - εσ/Δ') ≤ δ` by the Chernoff bound proved from `∫ e^{-t²}`. -/
theorem gauss_classical_dp (eps delta sens x x' : ℝ) (he : 0 < eps) (he1 : eps ≤ 1) (hd : 0 < delta)
    (hd1 : delta < 1) (hs : 0 < sens) (hx : |x - x'| ≤ sens) (S : Set ℝ) (hS : MeasurableSet S) :
    gaussianReal x (sqNN (gaussSigma eps delta sens)) S
      ≤ ENNReal.ofReal (Real.exp eps) * gaussianReal x' (sqNN (gaussSigma eps delta sens)) S
        + ENNReal.ofReal delta :=
  gaussianReal_classical_dp eps delta sens x x' he he1 hd hd1 hs hx S hS

/-- non-vacuity of the hypotheses of `gauss_classical_dp` (ε = 1, δ = 1/2, Δ = 1), and `sqNN σ` is `σ²` -/
example : (0:ℝ) < 1 ∧ (1:ℝ) ≤ 1 ∧ (0:ℝ) < 1/2 ∧ (1/2:ℝ) < 1 ∧ |(0:ℝ) - 1| ≤ 1 := by norm_num
example (σ : ℝ) : ((sqNN σ : NNReal) : ℝ) = σ ^ 2 := rfl

/-- **Balle–Wang Thm 8, sufficiency — proved for the normal law** (it was a cited hypothesis): for ANY `σ > 0`, if
Balle–Wang's expression with the true normal cdf at distance `Δ = sens` is `≤ 0`, then `N(x, σ²)` is (ε, δ)-DP with
respect to `N(x', σ²)` for all centres at most `sens` apart and every measurable output set.
Proof (`ContinuousGaussBW`): the hockey-stick inequality with the half-line `{p_x > e^ε p_x'}`, its two tails are
`Φ(d/2σ - εσ/d)` and `Φ(-d/2σ - εσ/d)` at the actual distance `d`, and `d ↦ Φ(d/2σ - εσ/d) - e^ε Φ(-d/2σ - εσ/d)` is
monotone (its derivative is `φ(d/2σ - εσ/d)/σ > 0`, from `Φ' = φ`). -/
theorem gauss_dp_of_balleWang (eps delta sens σ x x' : ℝ) (he : 0 ≤ eps) (hσ : 0 < σ) (hs : 0 < sens)
    (hd : 0 ≤ delta) (hbw : @balleWang trueErf eps delta sens σ ≤ 0) (hx : |x - x'| ≤ sens)
    (S : Set ℝ) (hS : MeasurableSet S) :
    gaussianReal x (sqNN σ) S ≤ ENNReal.ofReal (Real.exp eps) * gaussianReal x' (sqNN σ) S + ENNReal.ofReal delta :=
  gaussianReal_dp_of_balleWang eps delta sens σ x x' he hσ hs hd hbw hx S hS

section trueGauss
attribute [local instance] trueErf

/-- **analytic Gaussian: what is left is exactly the side of the root.**  With the true `erfc` as the carrier's `erfc`:
if the scale `GaussianAnalytic._find_scale` returns (the model's `analyticGaussScale`) is positive and Balle–Wang's
expression at it is `≤ 0` — the conclusion of `analytic_gauss_dp_full`, i.e. the returned bracket midpoint lies on the
private side of the root — then the mechanism's law `N(x, scale²)` is (ε, δ)-DP on every measurable set. -/
theorem analytic_gauss_dp_of_private_side (eps delta sens x x' : ℝ) (he : 0 < eps) (hd : 0 < delta) (hs : 0 < sens)
    (hσ : 0 < (analyticGaussScale eps delta sens).scale)
    (hside : balleWang eps delta sens (analyticGaussScale eps delta sens).scale ≤ 0)
    (hx : |x - x'| ≤ sens) (S : Set ℝ) (hS : MeasurableSet S) :
    gaussianReal x (sqNN (analyticGaussScale eps delta sens).scale) S ≤
      ENNReal.ofReal (Real.exp eps) * gaussianReal x' (sqNN (analyticGaussScale eps delta sens).scale) S
        + ENNReal.ofReal delta :=
  gaussianReal_dp_of_balleWang eps delta sens _ x x' he.le hσ hs hd.le hside hx S hS

end trueGauss

/-- **discrete Gaussian objective** = partial sums of the discrete hockey-stick expression: after `n` passes,
`lhs = Σ_{|k| ≤ n, k > idx₀} w_k`, `rhs = Σ_{1 ≤ k ≤ n, k > idx₁} w_k`, `denom = Σ_{|k| ≤ n} w_k` with
`w_k = e^{-k²/2σ²}` (written over `k = 1..n` with the mirrored and the `k = 0` term explicit), so that
`(lhs - e^ε rhs)/denom - δ → P[X > idx₀] - e^ε P[X > idx₁] - δ`, the expression of Canonne–Kamath–Steinke Thm 7 -/
theorem discrete_gauss_objective_sums (sigma : ℝ) (idx0 idx1 : ℤ) (n : ℕ) :
    (dgIter sigma idx0 idx1 n).lhs =
      (if idx0 < 0 then 1 else 0) +
        ∑ i ∈ Finset.range n, ((if idx0 < ((i + 1 : ℕ) : ℤ) then dgTerm sigma (i + 1) else 0) +
          (if idx0 < ((i + 1 : ℕ) : ℤ) ∧ idx0 < -((i + 1 : ℕ) : ℤ) then dgTerm sigma (i + 1) else 0)) ∧
    (dgIter sigma idx0 idx1 n).rhs =
      ∑ i ∈ Finset.range n,
        (if idx0 < ((i + 1 : ℕ) : ℤ) ∧ idx1 < ((i + 1 : ℕ) : ℤ) then dgTerm sigma (i + 1) else 0) ∧
    (dgIter sigma idx0 idx1 n).denom = 1 + 2 * ∑ i ∈ Finset.range n, dgTerm sigma (i + 1) :=
  dgIter_sums sigma idx0 idx1 n

/-- the value `objective` returns is built from one of those iterates -/
theorem discrete_gauss_objective_is_iterate (eps delta : ℝ) (sens : ℕ) (sigma : ℝ) (cap : ℕ) (v : ℝ) (s : DgState ℝ)
    (h : dgObjective eps delta sens sigma cap = some (v, s)) :
    (∃ n, s = dgIter sigma (dgIdx0 sigma eps sens) (dgIdx1 sigma eps sens) n) ∧
    v = (s.lhs - Real.exp eps * s.rhs) / s.denom - delta := by
  unfold dgObjective at h
  dsimp only at h
  split at h
  · cases h
  · rename_i s' hs'
    simp only [Option.some.injEq, Prod.mk.injEq] at h
    obtain ⟨hv, hss⟩ := h
    subst hss
    exact ⟨dgLoop_iter sigma _ _ cap (cap + 1) 0 s' hs', hv.symm⟩

/-- **the discrete-Gaussian root finder never settles on the non-private side**: over ℝ, whenever
`discreteGaussScale` returns a non-degenerate scale, the objective at that scale is `≤ 0`
(Canonne–Kamath–Steinke Thm 7 — cited — says that this is (ε, δ)-DP for the summed-to-infinity objective). -/
theorem discrete_gauss_private_side (eps delta : ℝ) (sens : ℕ) (half rtol atol : ℝ) (cap fuel : ℕ)
    (r : DgResult ℝ) (hne : (sens : ℝ) / eps ≠ 0)
    (h : discreteGaussScale eps delta sens half rtol atol cap fuel = some r) :
    ∃ v, (dgObjective eps delta sens r.scale cap).map (·.1) = some v ∧ v ≤ 0 := by
  unfold discreteGaussScale at h
  simp only [feq_real, hne, decide_false, Bool.false_eq_true, if_false] at h
  split at h
  · cases h
  · rename_i f0 hf0
    split at h
    · cases h
    · rename_i f1 hf1
      split at h
      · cases h
      · rename_i b ne hexp
        split at h
        · cases h
        · rename_i rb nb hbis
          cases h
          have htrack : DgTrack (fun s => (dgObjective eps delta sens s cap).map (·.1))
              (if 0 < f0 then 2 else half) ⟨1, if 0 < f0 then 2 else half, f0, f1⟩ :=
            ⟨hf0, hf1, one_mul _⟩
          obtain ⟨⟨t0, t1, _⟩, hprod⟩ := dgExpand_inv _ _ fuel _ b ne htrack hexp
          have hinv : DgInv (fun s => (dgObjective eps delta sens s cap).map (·.1)) b :=
            ⟨t0, t1, Or.inr (not_lt.mp hprod)⟩
          have hfin := dgBisect_inv _ rtol atol fuel b rb nb hinv hbis
          exact dgPick_nonpos _ rb hfin

end DPL.C02

/-! ## `LaplaceFolded` as a kernel of the release plans (C07 / C08 compose over `MechCall ↦ input ↦ Measure ℝ` families)

`PM.foldLapKernel c a` = the law of `a + Laplace(sens/ε)` pushed through the folding map `Cont.foldMap lower upper`
(the triangle wave that `_fold` computes, ContinuousFoldModel.lean).  Metric DP is inherited by post-processing
(`PM.metricDP_map`), exactly as for `LaplaceTruncated` (`PM.truncLapKernel`): the plans' DP theorems hold verbatim with
the genuine folded kernel, no stand-in needed. -/

namespace DPL.C02
open DPL DPL.PM MeasureTheory

/-- post-processing of every invocation's output by a measurable map keeps a mechanism family metric-DP -/
theorem metricDP_postprocess (P : MechCall ℝ → Prop) (M : MechCall ℝ → ℝ → Measure ℝ) (hM : MetricDP P M)
    (g : MechCall ℝ → ℝ → ℝ) (hg : ∀ c, Measurable (g c)) : MetricDP P (fun c a => (M c a).map (g c)) :=
  metricDP_map P M hM g hg

/-- **LaplaceFolded is metric-DP**: inputs within the sensitivity ⇒ output laws within `exp(ε·|a−b|/sens)` -/
theorem foldLapKernel_metricDP : MetricDP (fun c => 0 < c.eps ∧ 0 < c.sens) foldLapKernel :=
  PM.foldLapKernel_metricDP

/-- … it is a probability law supported in `[lower, upper]` -/
theorem foldLapKernel_prob_support (c : MechCall ℝ) (a : ℝ) (hlu : c.lower < c.upper) :
    IsProbabilityMeasure (foldLapKernel c a) ∧ foldLapKernel c a (Set.Icc c.lower c.upper)ᶜ = 0 :=
  ⟨foldLapKernel_isProb c a, foldLapKernel_support c a hlu⟩

/-- the family dispatching on the class name (folded / truncated / plain Laplace) is metric-DP and a probability law -/
theorem lapFamilyKernel_metricDP : MetricDP (fun c => 0 < c.eps ∧ 0 < c.sens) lapFamilyKernel :=
  PM.lapFamilyKernel_metricDP

/-- non-vacuity: an invocation satisfying the side condition -/
example : (fun c : MechCall ℝ => 0 < c.eps ∧ 0 < c.sens) ⟨"LaplaceFolded", 1, 0, 1, 0, 1, .osCsprng⟩ := by
  constructor <;> norm_num

end DPL.C02
