import DPL.Model.Validation
namespace DPL.C13
end DPL.C13
