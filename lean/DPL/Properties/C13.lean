/-
C13 — invalid privacy parameters are refused before anything is released.

`DPL.Val.chainOf / checkAllBlocks / ctorBlocks` are the validation chains of the library as (test, exception) lists in
evaluation order (re-extracted from /repo on every run and proved equal to these tables in
`DPL/Generated/C13Chains.lean`); `Valid` states the documented ranges independently of the chains.  The theorems are
universal over the value domain (`PyVal` with extended-rational numbers), by case analysis and order lemmas.
-/
import DPL.Model.Validation
import DPL.Proofs.Validation

namespace DPL.C13
open DPL DPL.Val

/-- every block that `_check_all` does not run has an empty chain, so "all blocks it runs accept" = "all blocks accept" -/
theorem checkAll_blocks (m : Mech) (env : Env) :
    (∀ b ∈ checkAllBlocks m, runChain env (chainOf m b) = .ok ()) ↔ ∀ b, runChain env (chainOf m b) = .ok () := by
  constructor
  · intro H b
    cases m <;> cases b <;> first | (refine H _ ?_; decide) | rfl
  · exact fun H b _ => H b

/-- the constructor runs every parameter block (all but the tests on the value to randomise and on `n`) -/
theorem ctor_blocks (m : Mech) (env : Env) :
    (∀ b ∈ ctorBlocks m, runChain env (chainOf m b) = .ok ()) ↔
      ∀ b, b ≠ .value → b ≠ .nLt1 → runChain env (chainOf m b) = .ok () := by
  constructor
  · intro H b h1 h2
    cases m <;> cases b <;> first | exact absurd rfl h1 | exact absurd rfl h2 | (refine H _ ?_; decide) | rfl
  · intro H b hb
    apply H b <;> (intro hv; subst hv; revert hb; cases m <;> simp [ctorBlocks])

/-- `Valid` is exactly "every parameter block accepts" -/
theorem valid_iff_blocks (m : Mech) (env : Env) :
    Valid m env ↔ ∀ b, b ≠ .value → b ≠ .nLt1 → runChain env (chainOf m b) = .ok () := by
  unfold Valid
  rw [← epsDelta_ok_iff, ← sens_ok_iff, ← bounds_ok_iff, ← other_ok_iff, ← structured_ok_iff]
  constructor
  · rintro ⟨h1, h2, h3, ⟨h4, h5, h6⟩, h7, h8⟩ b hv hn
    cases b <;> first | assumption | exact absurd rfl hv | exact absurd rfl hn
  · intro H
    exact ⟨H _ (by decide) (by decide), H _ (by decide) (by decide), H _ (by decide) (by decide),
      ⟨H _ (by decide) (by decide), H _ (by decide) (by decide), H _ (by decide) (by decide)⟩,
      H _ (by decide) (by decide), H _ (by decide) (by decide)⟩

/-- **`randomise` accepts exactly the documented ranges**: `_check_all` — the first statement of every `randomise`,
whatever was assigned to the attributes after construction — returns iff the parameters are `Valid` (and the value to
randomise passes its own tests) -/
theorem randomise_ok_iff (m : Mech) (env : Env) :
    randomiseCheck m env = .ok () ↔
      Valid m env ∧ runChain env (chainOf m .value) = .ok () ∧ runChain env (chainOf m .nLt1) = .ok () := by
  unfold randomiseCheck blocksChain
  rw [runChain_flatMap_ok, checkAll_blocks, valid_iff_blocks]
  constructor
  · intro H; exact ⟨fun b _ _ => H b, H _, H _⟩
  · rintro ⟨H, hv, hn⟩ b
    by_cases h1 : b = .value
    · subst h1; exact hv
    · by_cases h2 : b = .nLt1
      · subst h2; exact hn
      · exact H b h1 h2

/-- **the constructor accepts exactly the documented ranges** (on the arguments it passes to the checks: classes that
do not expose `delta` / `epsilon` pass the constant 0) -/
theorem construct_ok_iff (m : Mech) (env : Env) : construct m env = .ok () ↔ Valid m (ctorEnv m env) := by
  unfold construct blocksChain
  rw [runChain_flatMap_ok, ctor_blocks, valid_iff_blocks]

/-- **C13 (mechanisms, at randomise time)**: for every mechanism class and every assignment of values of the value
domain to its attributes, parameters outside the documented range make `randomise` raise before it draws anything -/
theorem refuse_invalid (m : Mech) (env : Env) (h : ¬ Valid m env) : ∃ e, randomiseCheck m env = .error e := by
  rcases runChain_ok_or_error env (blocksChain m (checkAllBlocks m)) with hok | herr
  · exact absurd ((randomise_ok_iff m env).mp hok).1 h
  · exact herr

/-- **C13 (mechanisms, at construction)** -/
theorem refuse_invalid_construct (m : Mech) (env : Env) (h : ¬ Valid m (ctorEnv m env)) :
    ∃ e, construct m env = .error e := by
  rcases runChain_ok_or_error (ctorEnv m env) (blocksChain m (ctorBlocks m)) with hok | herr
  · exact absurd ((construct_ok_iff m env).mp hok) h
  · exact herr

/-! ### the property's own list of invalid parameters is outside `Valid` -/

/-- epsilon that is not a number (None, a string, complex), NaN or negative -/
def BadEpsilon (v : PyVal) : Prop := ∀ x, v.real? = some x → ¬ x.Nonneg

/-- delta that is not a number or outside [0, 1] -/
def BadDelta (v : PyVal) : Prop := ∀ y, v.real? = some y → ¬ y.In01

theorem bad_epsilon_invalid (m : Mech) (env : Env) (h : BadEpsilon (env.v .epsilon)) : ¬ Valid m env := by
  rintro ⟨⟨x, y, hx, -, nx, -⟩, -⟩; exact h x hx nx

theorem bad_delta_invalid (m : Mech) (env : Env) (h : BadDelta (env.v .delta)) : ¬ Valid m env := by
  rintro ⟨⟨x, y, -, hy, -, ny, -⟩, -⟩; exact h y hy ny

theorem nan_is_bad_epsilon : BadEpsilon (.flt .nan) := by
  intro x hx; cases hx; simp [Ext.Nonneg]

theorem negative_is_bad_epsilon (q : Rat) (hq : q < 0) : BadEpsilon (.flt (.fin q)) := by
  intro x hx; cases hx; simp only [Ext.Nonneg, not_le]; exact hq

theorem nonnumeric_is_bad_epsilon :
    BadEpsilon .none ∧ (∀ s, BadEpsilon (.str s)) ∧ ∀ r, BadEpsilon (.complex r) := by
  refine ⟨?_, ?_, ?_⟩
  · intro x hx; simp [PyVal.real?] at hx
  · intro s x hx; simp [PyVal.real?] at hx
  · intro r x hx; simp [PyVal.real?] at hx

/-- NaN epsilon is refused by every class, at randomise time and (for the classes that take epsilon) at construction -/
theorem nan_epsilon_refused (m : Mech) (env : Env) (h : env.v .epsilon = .flt .nan) :
    ∃ e, randomiseCheck m env = .error e :=
  refuse_invalid m env (bad_epsilon_invalid m env (h ▸ nan_is_bad_epsilon))

theorem both_zero_invalid (m : Mech) (env : Env) (x y : Ext) (hx : (env.v .epsilon).real? = some x)
    (hy : (env.v .delta).real? = some y) (zx : x.IsZero) (zy : y.IsZero) : ¬ Valid m env := by
  rintro ⟨⟨x', y', hx', hy', -, -, hz, -⟩, -⟩
  rw [hx] at hx'; rw [hy] at hy'; cases hx'; cases hy'
  exact hz ⟨zx, zy⟩

/-- negative, NaN or non-numeric sensitivity (every class that has one) -/
theorem bad_sensitivity_invalid (m : Mech) (env : Env)
    (hm : m ≠ .Binary ∧ m ≠ .ExponentialCategorical ∧ m ≠ .ExponentialHierarchical)
    (h : ∀ x, (env.v .sensitivity).real? = some x → ¬ x.Nonneg) : ¬ Valid m env := by
  rintro ⟨-, hs, -⟩
  have key : realNonneg (env.v .sensitivity) → False := fun ⟨x, hx, nx⟩ => h x hx nx
  cases m <;> first | exact key hs | exact key hs.2 | exact key hs.1 | simp at hm

/-- lower bound above upper bound (every class with bounds) -/
theorem lower_above_upper_invalid (m : Mech) (env : Env)
    (hm : m = .LaplaceTruncated ∨ m = .LaplaceFolded ∨ m = .LaplaceBoundedDomain ∨ m = .Snapping ∨
      m = .GeometricTruncated ∨ m = .GeometricFolded)
    (l u : Ext) (hl : (env.v .lower).real? = some l) (hu : (env.v .upper).real? = some u) (h : l.Gt u) :
    ¬ Valid m env := by
  rintro ⟨-, -, hb, -⟩
  have key : baseBoundsOk env → False := by
    rintro ⟨l', u', hl', hu', hn⟩
    rw [hl] at hl'; rw [hu] at hu'; cases hl'; cases hu'; exact hn h
  rcases hm with rfl | rfl | rfl | rfl | rfl | rfl
  · exact key hb
  · exact key hb
  · exact key hb
  · exact key hb.1
  · exact key hb.2.2
  · exact key hb.2

/-- delta ≠ 0 for a pure mechanism (incl. Binary and Snapping, also when set after construction) -/
theorem pure_nonzero_delta_invalid (m : Mech) (env : Env)
    (hm : m = .Binary ∨ m = .Bingham ∨ m = .Exponential ∨ m = .PermuteAndFlip ∨ m = .ExponentialCategorical ∨
      m = .ExponentialHierarchical ∨ m = .Geometric ∨ m = .GeometricTruncated ∨ m = .GeometricFolded ∨
      m = .Snapping ∨ m = .Staircase ∨ m = .Vector)
    (h : ∀ y, (env.v .delta).real? = some y → ¬ y.IsZero) : ¬ Valid m env := by
  rintro ⟨⟨x, y, -, hy, -, -, -, hc⟩, -⟩
  rcases hm with rfl | rfl | rfl | rfl | rfl | rfl | rfl | rfl | rfl | rfl | rfl | rfl <;>
    first | exact h y hy hc | exact h y hy hc.1

/-- epsilon > 1 for the classical Gaussian -/
theorem gaussian_epsilon_above_one_invalid (env : Env) (q : Rat) (h : env.v .epsilon = .flt (.fin q)) (hq : 1 < q) :
    ¬ Valid .Gaussian env := by
  rintro ⟨⟨x, y, hx, -, -, -, -, -, -, hl⟩, -⟩
  rw [h] at hx; cases hx
  simp only [Ext.LeOne] at hl; exact absurd hl (not_le.mpr hq)

/-- delta ≥ 1/2 for the bounded-noise Laplace mechanism -/
theorem boundedNoise_delta_half_invalid (env : Env) (q : Rat) (h : env.v .delta = .flt (.fin q)) (hq : 1 / 2 ≤ q) :
    ¬ Valid .LaplaceBoundedNoise env := by
  rintro ⟨⟨x, y, -, hy, -, -, -, -, -, hl⟩, -⟩
  rw [h] at hy; cases hy
  simp only [Ext.LtHalf] at hl; exact absurd hl (not_lt.mpr hq)

/-- delta > 1/2 for the uniform mechanism -/
theorem uniform_delta_above_half_invalid (env : Env) (q : Rat) (h : env.v .delta = .flt (.fin q)) (hq : 1 / 2 < q) :
    ¬ Valid .Uniform env := by
  rintro ⟨⟨x, y, -, hy, -, -, -, -, -, hl⟩, -⟩
  rw [h] at hy; cases hy
  simp only [Ext.LeHalf] at hl; exact absurd hl (not_le.mpr hq)

/-! ### validation.py, Budget, the accountant, tools and estimators -/

/-- `validation.check_epsilon_delta(epsilon, delta, allow_zero)` accepts exactly a budget in range -/
theorem checkEpsilonDelta_ok_iff (az : Bool) (env : Env) :
    runChain env (checkEpsilonDelta az) = .ok () ↔ ValidBudget az env := by
  unfold checkEpsilonDelta ValidBudget
  cases az
  · simp only [Bool.false_eq_true, ↓reduceIte, List.cons_append, List.nil_append, forall_const]
    have := baseEpsDelta_ok env
    unfold baseEpsDelta BaseED at this
    exact this
  · simp only [↓reduceIte, List.append_nil, runChain_cons_ok, notRealEither_ok, notGe0_ok, notIn01_ok, runChain_nil,
      and_true, Bool.true_eq_false, false_imp_iff, and_true]
    constructor
    · rintro ⟨⟨x, y, hx, hy⟩, ⟨x', hx', nx⟩, ⟨y', hy', ny⟩⟩
      rw [hx] at hx'; rw [hy] at hy'; cases hx'; cases hy'
      exact ⟨x, y, hx, hy, nx, ny⟩
    · rintro ⟨x, y, hx, hy, nx, ny⟩
      exact ⟨⟨x, y, hx, hy⟩, ⟨x, hx, nx⟩, ⟨y, hy, ny⟩⟩

/-- `Budget(epsilon, delta)` -/
theorem budgetNew_ok_iff (env : Env) :
    runChain env budgetNew = .ok () ↔
      ∃ x y, (env.v .epsilon).real? = some x ∧ (env.v .delta).real? = some y ∧ x.Nonneg ∧ y.In01 := by
  unfold budgetNew
  simp only [runChain_cons_ok, notGe0_ok, notIn01_ok, runChain_nil, and_true]
  constructor
  · rintro ⟨⟨x, hx, nx⟩, ⟨y, hy, ny⟩⟩; exact ⟨x, y, hx, hy, nx, ny⟩
  · rintro ⟨x, y, hx, hy, nx, ny⟩; exact ⟨⟨x, hx, nx⟩, ⟨y, hy, ny⟩⟩

theorem check_ok_valid (a : AccV) (env : Env) (h : a.check env = .ok ()) : ValidBudget false env := by
  unfold AccV.check at h
  simp only [bind, Except.bind] at h
  rw [← checkEpsilonDelta_ok_iff]
  cases hc : runChain env (checkEpsilonDelta false) with
  | ok u => rfl
  | error e => rw [hc] at h; cases h

/-- **C13 (accountant)**: `check` and `spend` refuse an invalid budget (ValueError / TypeError), whatever the state of
the accountant, and a refused `spend` returns no new state: nothing is recorded -/
theorem accountant_refuses (a : AccV) (env : Env) (h : ¬ ValidBudget false env) :
    (∃ e, a.check env = .error e) ∧ (∃ e, a.spend env = .error e) := by
  have hc : ∃ e, a.check env = .error e := by
    cases hk : a.check env with
    | ok u => exact absurd (check_ok_valid a env hk) h
    | error e => exact ⟨e, rfl⟩
  refine ⟨hc, ?_⟩
  obtain ⟨e, he⟩ := hc
  exact ⟨e, by simp [AccV.spend, he, bind, Except.bind]⟩

/-- an accepted spend appends exactly the pair that was checked -/
theorem spend_ok_appends (a a' : AccV) (env : Env) (h : a.spend env = .ok a') :
    a.check env = .ok () ∧ ∃ e d, a'.spent = a.spent ++ [(e, d)] ∧ a'.ceilEps = a.ceilEps ∧ a'.ceilDelta = a.ceilDelta := by
  unfold AccV.spend at h
  simp only [bind, Except.bind, pure, Except.pure] at h
  cases hc : a.check env with
  | error e => rw [hc] at h; cases h
  | ok u =>
    rw [hc] at h
    refine ⟨rfl, ?_⟩
    cases he : needReal (env.v .epsilon) with
    | error e => simp [he] at h
    | ok e =>
      cases hd : needReal (env.v .delta) with
      | error e => simp [he, hd] at h
      | ok d =>
        simp only [he, hd, Except.ok.injEq] at h
        subst h
        exact ⟨e, d, rfl, rfl, rfl⟩

/-- folding `spend` over a list fails as soon as one entry is refused, whatever the state reached so far -/
theorem foldlM_spend_error (prior : List (PyVal × PyVal)) (a : AccV)
    (h : ∃ p ∈ prior, ¬ ValidBudget false (pairEnv p.1 p.2)) :
    ∃ e, prior.foldlM (fun a p => a.spend (pairEnv p.1 p.2)) a = .error e := by
  induction prior generalizing a with
  | nil => obtain ⟨p, hp, -⟩ := h; cases hp
  | cons q rest ih =>
    simp only [List.foldlM_cons, bind, Except.bind]
    cases hs : a.spend (pairEnv q.1 q.2) with
    | error e => exact ⟨e, rfl⟩
    | ok a' =>
      obtain ⟨p, hp, hbad⟩ := h
      rcases List.mem_cons.mp hp with rfl | hr
      · obtain ⟨e, he⟩ := (accountant_refuses a _ hbad).2
        rw [he] at hs; cases hs
      · exact ih a' ⟨p, hr, hbad⟩

/-- **C13 (accountant constructor with prior spends)**: `BudgetAccountant(epsilon, delta, spent_budget=[…])` raises —
and so constructs nothing — as soon as ANY entry of the list is invalid, wherever it stands and however large the valid
entries around it are (each entry is validated by itself, not through a composed total) -/
theorem new_refuses_invalid_prior (ce cd : PyVal) (prior : List (PyVal × PyVal))
    (h : ∃ p ∈ prior, ¬ ValidBudget false (pairEnv p.1 p.2)) : ∃ e, AccV.new ce cd prior = .error e := by
  unfold AccV.new
  simp only [bind, Except.bind]
  cases runChain (pairEnv ce cd) (checkEpsilonDelta false) with
  | error e => exact ⟨e, rfl⟩
  | ok u =>
    cases needReal ce with
    | error e => exact ⟨e, rfl⟩
    | ok x =>
      cases needReal cd with
      | error e => exact ⟨e, rfl⟩
      | ok y => exact foldlM_spend_error prior _ h

/-- … and an invalid ceiling is refused as well -/
theorem new_refuses_invalid_ceiling (ce cd : PyVal) (prior : List (PyVal × PyVal))
    (h : ¬ ValidBudget false (pairEnv ce cd)) : ∃ e, AccV.new ce cd prior = .error e := by
  unfold AccV.new
  simp only [bind, Except.bind]
  cases hc : runChain (pairEnv ce cd) (checkEpsilonDelta false) with
  | error e => exact ⟨e, rfl⟩
  | ok u => exact absurd ((checkEpsilonDelta_ok_iff false _).mp hc) h

/-- **C13 (accountant, caller-supplied lists)**: `total(spent_budget=items, …)` raises as soon as ANY item of the list is
invalid — at whatever position, and whatever the accountant itself has recorded (its state does not enter the
validation: no prefix of the list is trusted) -/
theorem total_refuses_invalid_item (a : AccV) (items : List (PyVal × PyVal)) (slack : Option PyVal)
    (h : ∃ p ∈ items, ¬ ValidBudget false (pairEnv p.1 p.2)) : ∃ e, a.totalGiven items slack = .error e := by
  have hf : ∃ e, validateItems items = .error e := by
    induction items with
    | nil => obtain ⟨p, hp, -⟩ := h; cases hp
    | cons q rest ih =>
      simp only [validateItems]
      cases hq : runChain (pairEnv q.1 q.2) (checkEpsilonDelta false) with
      | error e => exact ⟨e, rfl⟩
      | ok u =>
        obtain ⟨p, hp, hbad⟩ := h
        rcases List.mem_cons.mp hp with rfl | hr
        · exact absurd ((checkEpsilonDelta_ok_iff false _).mp hq) hbad
        · exact ih ⟨p, hr, hbad⟩
  obtain ⟨e, he⟩ := hf
  exact ⟨e, by simp [AccV.totalGiven, he, bind, Except.bind]⟩

/-- the validation of `total(spent_budget=…)` does not depend on the accountant's recorded spends -/
theorem total_validation_state_independent (a b : AccV) (items : List (PyVal × PyVal)) (slack : Option PyVal)
    (h : a.ceilDelta = b.ceilDelta) : a.totalGiven items slack = b.totalGiven items slack := by
  simp [AccV.totalGiven, h]

/-- **C13 (tools and estimators)**: their first privacy-relevant statements are `check_bounds` and
`accountant.check(epsilon, 0)`; an epsilon that is not a number, NaN, negative or zero never gets past them -/
theorem tool_refuses (a : AccV) (bounds : Option (PyVal × PyVal)) (env : Env)
    (h : ∀ x, (env.v .epsilon).real? = some x → ¬ x.Pos) : ∃ e, toolEntry a bounds env = .error e := by
  cases hk : toolEntry a bounds env with
  | error e => exact ⟨e, rfl⟩
  | ok u =>
    exfalso
    unfold toolEntry at hk
    simp only [bind, Except.bind, pure, Except.pure] at hk
    have hc : ∃ env', env'.v .epsilon = env.v .epsilon ∧ env'.v .delta = .int 0 ∧ a.check env' = .ok () := by
      refine ⟨{ env with v := fun x => if x = .delta then .int 0 else env.v x }, by simp, by simp, ?_⟩
      cases bounds with
      | none => simpa using hk
      | some b =>
        cases hb : checkBounds b.1 b.2 with
        | error e => simp [hb] at hk
        | ok p => simpa [hb] using hk
    obtain ⟨env', he, hd, hok⟩ := hc
    obtain ⟨x, y, hx, hy, nx, -, hz⟩ := check_ok_valid a env' hok
    rw [he] at hx
    rw [hd] at hy; cases hy
    apply h x hx
    cases x <;> simp_all [Ext.Pos, Ext.Nonneg, Ext.IsZero]
    rename_i q
    exact lt_of_le_of_ne nx (Ne.symm hz)

/-- `check_bounds((lower, upper))` refuses a lower bound above the upper bound -/
theorem checkBounds_refuses (lower upper : PyVal) (l u : Ext) (hl : asFloat lower = .ok l) (hu : asFloat upper = .ok u)
    (h : l.Gt u) : checkBounds lower upper = .error .valueError := by
  have : Ext.lt u l = true := by
    cases hlt : Ext.lt u l with
    | true => rfl
    | false => exact absurd h ((lt_false_iff_not_gt l u).mp hlt)
  simp [checkBounds, hl, hu, this, bind, Except.bind, throw, throwThe, MonadExceptOf.throw]

/-! ### non-vacuity and regression witnesses -/

/-- a valid Laplace parameter set is constructed -/
example : construct .Laplace (.ofList [(.epsilon, .flt (.fin (1/2))), (.delta, .flt (.fin 0))]) = .ok () := by
  decide +kernel

/-- … and so is a truncated geometric mechanism with an infinite upper bound, which then randomises an integer -/
example : randomiseCheck .GeometricTruncated (.ofList [(.epsilon, .int 1), (.delta, .flt (.fin 0)), (.lower, .int 0),
    (.upper, .flt .posInf), (.value, .int 3)]) = .ok () := by decide +kernel

/-- NaN epsilon: refused at construction -/
example : construct .Laplace (.ofList [(.epsilon, .flt .nan), (.delta, .flt (.fin 0))]) = .error .valueError := by
  decide +kernel

/-- delta = 1/2 assigned to a Binary mechanism after construction: refused at randomise -/
example : randomiseCheck .Binary (.ofList [(.epsilon, .flt (.fin 1)), (.delta, .flt (.fin (1/2)))]) =
    .error .valueError := by decide +kernel

/-- regression witness for the repaired defect 5b4c2f9: the OLD chain (`epsilon < 0`, `epsilon + delta == 0`) lets a
NaN epsilon through, because every comparison with NaN is False -/
theorem old_chain_accepts_nan : oldBaseAccepts .nan (.fin 0) = true := by decide

/-- … while the chain at HEAD (`not epsilon >= 0`) refuses it for every delta -/
theorem new_chain_refuses_nan (env : Env) (h : env.v .epsilon = .flt .nan) :
    ∃ e, runChain env baseEpsDelta = .error e := by
  rcases runChain_ok_or_error env baseEpsDelta with hok | herr
  · obtain ⟨x, y, hx, -, nx, -⟩ := (baseEpsDelta_ok env).mp hok
    rw [h] at hx; cases hx; simp [Ext.Nonneg] at nx
  · exact herr

end DPL.C13
