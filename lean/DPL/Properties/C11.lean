/-
C11 — no silent leak: whenever an entry point has to derive a domain parameter from the data it raises a
PrivacyLeakWarning, on every call.

`DPL.Warn.table` is the hand-written guard table; `DPL.Generated.C11Table.genTable` is regenerated from the sources
of /repo on every run and proved equal to it there (`gen_eq_hand`), and `gen_complete` re-proves completeness over the
generated table directly.
-/
import DPL.Model.Warnings

namespace DPL.C11
open DPL DPL.Warn

/-- lifting the finite check to every call: if no enumerated shape has a silent fallback, then on EVERY call shape
(of the right arity) a derivation implies that a guarding PrivacyLeakWarning statement executes -/
theorem complete_lift (ep : EntryPoint) (h : ep.completeOn = true) (shapes : List AShape) (flags : List Bool)
    (hs : shapes.length = ep.params.length) (hf : flags.length = ep.flags.length)
    (hd : ep.derives shapes flags = true) : ep.warns shapes flags = true := by
  have h1 : shapes ∈ allLists allShapes ep.params.length := hs ▸ mem_allLists allShapes mem_allShapes shapes
  have h2 : flags ∈ allLists [true, false] ep.flags.length :=
    hf ▸ mem_allLists [true, false] (by intro b; cases b <;> simp) flags
  unfold EntryPoint.completeOn at h
  rw [List.all_eq_true] at h
  have h3 := h shapes h1
  rw [List.all_eq_true] at h3
  have h4 := h3 flags h2
  simp only [EntryPoint.silent, Bool.not_eq_true', List.any_eq_false, Bool.and_eq_true, Bool.not_eq_true',
    not_and, Bool.not_eq_false] at h4
  simp only [EntryPoint.derives, List.any_eq_true] at hd
  obtain ⟨r, hr, hdr⟩ := hd
  simp only [EntryPoint.warns, List.any_eq_true]
  exact ⟨r, hr, h4 r hr hdr⟩

/-- every entry point of the table passes the finite check -/
theorem table_complete : table.all (·.completeOn) = true := by decide +kernel

/-- **C11 (completeness)**: for every public entry point and every subset of omitted domain parameters (every call
shape over `given / None / list or tuple with or without None entries` and every setting of the flags),
`derives → warns`. -/
theorem warn_complete (ep : EntryPoint) (hep : ep ∈ table) (shapes : List AShape) (flags : List Bool)
    (hs : shapes.length = ep.params.length) (hf : flags.length = ep.flags.length) :
    ep.derives shapes flags = true → ep.warns shapes flags = true := by
  have h := table_complete
  rw [List.all_eq_true] at h
  exact complete_lift ep (h ep hep) shapes flags hs hf

/-- all 24 public entry points are in the table (15 tools, 8 estimators, covariance_eig) -/
theorem table_covers (e : Entry) : ∃ ep, lookup table e = some ep ∧ ep.entry = e := by
  cases e <;> exact ⟨_, rfl, rfl⟩

/-- monotonicity lemma behind the lift to per-dimension lists of ANY length: a dimension that derives its range makes
both abstract facts true that the guard looks at -/
theorem hist_abstract (c : HistCall) (h : c.derives = true) :
    c.flag = true ∧ (c.rangeNone = true ∨ c.dims.any (·.rangeMissing) = true) := by
  simp only [HistCall.derives, List.any_eq_true, Bool.and_eq_true, Bool.not_eq_true', Bool.or_eq_true] at h
  obtain ⟨d, hd, he, hm⟩ := h
  refine ⟨?_, ?_⟩
  · simp only [HistCall.flag, List.any_eq_true, Bool.not_eq_true']
    exact ⟨d, hd, he⟩
  · rcases hm with hm | hm
    · exact Or.inl hm
    · right
      simp only [List.any_eq_true]
      exact ⟨d, hd, hm⟩

/-- **C11 for histogramdd / histogram2d with any number of dimensions**, list and tuple forms, partially specified
ranges, mixed count / explicit-edges bins: if numpy takes some dimension's range from the data then the library's
guard executes its PrivacyLeakWarning. -/
theorem hist_warn_complete (e : Entry) (he : e = .histogramdd ∨ e = .histogram2d) (c : HistCall)
    (h : c.derives = true) :
    ∃ ep, lookup table e = some ep ∧ ep.warns [c.shape] [c.flag] = true := by
  obtain ⟨hf, hn⟩ := hist_abstract c h
  have key : histRow.derive.eval [c.shape] [c.flag] = true := by
    simp only [histRow, Cond.eval, List.getD, List.getElem?_cons_zero, Option.getD_some, hf, Bool.true_and,
      Bool.or_eq_true]
    unfold HistCall.shape
    rcases hn with hn | hn
    · left; simp [hn]
    · by_cases hr : c.rangeNone = true
      · left; simp [hr]
      · right; simp [hr, hn]
  rcases he with rfl | rfl
  · refine ⟨_, rfl, ?_⟩
    apply warn_complete _ (by decide) [c.shape] [c.flag] rfl rfl
    simpa [EntryPoint.derives] using key
  · refine ⟨_, rfl, ?_⟩
    apply warn_complete _ (by decide) [c.shape] [c.flag] rfl rfl
    simpa [EntryPoint.derives] using key

/-- non-vacuity: a 3-dimensional call with a tuple of ranges whose middle entry is None derives and warns -/
example : (HistCall.mk false false [⟨false, false⟩, ⟨false, true⟩, ⟨true, false⟩]).derives = true := by decide

/-- regression witness for the repaired defect (0de6bf3): with the OLD guard `isinstance(range, list) and None in
range` a TUPLE of ranges with a None entry derives that range silently -/
theorem old_hist_guard_tuple_silent :
    (EntryPoint.mk .histogramdd [.range] [.someBinIsCount] [histRowOld]).silent [.seq false true] [true] = true := by
  decide

/-- … and the finite check would have caught it -/
theorem old_hist_guard_incomplete :
    (EntryPoint.mk .histogramdd [.range] [.someBinIsCount] [histRowOld]).completeOn = false := by decide +kernel

/-! ### every call, not only the first -/

/-- under `always` every occurrence is delivered, whatever the registries contain -/
theorem always_delivers (r : Registry) (os : List Occ) : deliverAll .always r os = os.map (fun _ => true) := by
  induction os generalizing r with
  | nil => rfl
  | cons o os ih => simp [deliverAll, deliver, ih]

/-- **C11 (every call)**: with the library's `simplefilter('always', PrivacyLeakWarning)` the n-th occurrence of the
same warning from the same location is delivered as well as the first -/
theorem warn_every_call (r : Registry) (os : List Occ) (n : Nat) (h : n < os.length) :
    (deliverAll .always r os)[n]? = some true := by
  rw [always_delivers]
  simp [h]

/-- why the filter matters (and what the runtime check looks for): under `once` or `default` the second identical
occurrence is swallowed -/
theorem once_second_silent (o : Occ) : deliverAll .once .empty [o, o] = [true, false] := by
  simp [deliverAll, deliver, Registry.empty]

theorem default_second_silent (o : Occ) : deliverAll .default .empty [o, o] = [true, false] := by
  simp [deliverAll, deliver, Registry.empty]

/-- non-vacuity of `warn_complete`: LinearRegression with only `bounds_y` omitted derives (and hence warns) -/
example : ∃ ep, lookup table .LinearRegression = some ep ∧ ep.derives [.given, .none] [] = true :=
  ⟨_, rfl, by decide⟩

end DPL.C11
