/-
C17 — objective perturbation for logistic regression is calibrated as Chaudhuri–Monteleoni–Sarwate prove.

The statements are about the executable model `DPL/Model/LogReg.lean` (transcribed from
`models/logistic_regression.py` and `mechanisms/vector.py`; the same definitions the driver runs on doubles against
the real code), instantiated at ℝ; `expm1 x = exp x − 1`.

CITED, not re-proved: CMS (JMLR 2011) Theorem 9 — objective perturbation with the parameters of their Algorithm 2 is
ε-differentially private for a loss with |ℓ''| ≤ c and rows of norm ≤ 1 (here: rows of norm ≤ s, loss rescaled).  What is
proved here is that the code's parameters ARE those of Algorithm 2 (`cms_rule_as_printed`) and satisfy its accounting
identity (`cms_calibration`).
NOT proved (validated statistically by the harness): ‖b‖ ~ Gamma(d, 2s/ε′) from four Gamma(d/4) draws, and the
direction of b uniform on the sphere.
-/
import DPL.Proofs.SamplersLogReg

namespace DPL.C17
open DPL DPL.Smp DPL.LogReg

/-! ### 1. the ε′ / Δ rule -/

/-- both branches of `Vector.randomise`: `0 < ε′`, `0 ≤ Δ`, the accounting identity
`ε′ + 2·log(1 + c·s/(α + n·Δ)) = ε`, and `scale = 2s/ε′` -/
theorem cms_calibration (eps c s alpha : ℝ) (n : Nat) (he : 0 < eps) (hc : 0 ≤ c) (hs : 0 ≤ s) (ha : 0 < alpha)
    (hn : 0 < n) :
    0 < (vectorCalib eps c s alpha n).epsP ∧
    0 ≤ (vectorCalib eps c s alpha n).delta ∧
    (vectorCalib eps c s alpha n).epsP
      + 2 * Real.log (1 + c * s / (alpha + n * (vectorCalib eps c s alpha n).delta)) = eps ∧
    (vectorCalib eps c s alpha n).scale = 2 * s / (vectorCalib eps c s alpha n).epsP := by
  have hnR : (0 : ℝ) < n := by exact_mod_cast hn
  have hcs : 0 ≤ c * s := mul_nonneg hc hs
  unfold vectorCalib
  simp only [transc_log, expm1, transc_exp]
  split_ifs with h
  · -- fallback branch
    set E := Real.exp (eps / 4) with hE
    have hE1 : 1 < E := by rw [hE]; exact Real.one_lt_exp_iff.mpr (by linarith)
    have hA : 0 < 1 + c * s / alpha := by positivity
    have h2 : Real.exp (eps / 2) ≤ 1 + c * s / alpha := by
      rw [← Real.le_log_iff_exp_le hA]; linarith
    have h3 : E ≤ Real.exp (eps / 2) := by rw [hE]; exact Real.exp_le_exp.mpr (by linarith)
    have h4 : E - 1 ≤ c * s / alpha := by linarith
    have h5 : alpha * (E - 1) ≤ c * s := by
      have := mul_le_mul_of_nonneg_left h4 ha.le
      rwa [mul_div_cancel₀ _ ha.ne'] at this
    have hE0 : 0 < E - 1 := by linarith
    have hcspos : 0 < c * s := lt_of_lt_of_le (mul_pos ha hE0) h5
    have h6 : alpha ≤ c * s / (E - 1) := by rw [le_div_iff₀ hE0]; exact h5
    refine ⟨by linarith, ?_, ?_, by ring⟩
    · exact div_nonneg (by linarith) hnR.le
    · have : alpha + n * ((c * s / (E - 1) - alpha) / n) = c * s / (E - 1) := by field_simp; ring
      rw [this]
      have : 1 + c * s / (c * s / (E - 1)) = E := by
        rw [div_div_eq_mul_div, mul_comm, mul_div_assoc, div_self hcspos.ne']; ring
      rw [this, hE, Real.log_exp]; ring
  · -- plain branch
    rw [not_le] at h
    refine ⟨h, le_refl _, ?_, by ring⟩
    simp only [mul_zero, add_zero]; ring

/-- non-vacuity of the fallback branch: parameters with `ε − 2 log(1 + cs/α) ≤ 0` exist (ε = 1/10, c = 1/4, s = 1, α = 1) -/
example : ∃ eps c s alpha : ℝ, 0 < eps ∧ 0 ≤ c ∧ 0 ≤ s ∧ 0 < alpha ∧ eps - 2 * Real.log (1 + c * s / alpha) ≤ 0 := by
  refine ⟨1 / 10, 1 / 4, 1, 1, by norm_num, by norm_num, by norm_num, by norm_num, ?_⟩
  have h : (1 / 20 : ℝ) ≤ Real.log (1 + 1 / 4 * 1 / 1) := by
    rw [Real.le_log_iff_exp_le (by norm_num)]
    have := Real.exp_bound_div_one_sub_of_interval' (x := 1 / 20) (by norm_num) (by norm_num)
    norm_num at this ⊢
    linarith
  linarith

/-- Algorithm 2 of CMS as printed, with loss-curvature bound `c`, regulariser `Λ`, `n` samples -/
def CMSRule (eps c lam : ℝ) (n : Nat) (epsP delta : ℝ) : Prop :=
  let e0 := eps - Real.log (1 + 2 * c / (n * lam) + c ^ 2 / (n ^ 2 * lam ^ 2))
  (0 < e0 ∧ epsP = e0 ∧ delta = 0) ∨
  (e0 ≤ 0 ∧ delta = c / (n * (Real.exp (eps / 4) - 1)) - lam ∧ epsP = eps / 2)

/-- the code's `(ε′, Δ)` are exactly Algorithm 2's for curvature bound `c·s` and `Λ = α/n` -/
theorem cms_rule_as_printed (eps c s alpha : ℝ) (n : Nat) (hc : 0 ≤ c) (hs : 0 ≤ s) (ha : 0 < alpha) (hn : 0 < n) :
    CMSRule eps (c * s) (alpha / n) n (vectorCalib eps c s alpha n).epsP (vectorCalib eps c s alpha n).delta := by
  have hnR : (0 : ℝ) < n := by exact_mod_cast hn
  have hcs : 0 ≤ c * s := mul_nonneg hc hs
  have hlog : Real.log (1 + 2 * (c * s) / (n * (alpha / n)) + (c * s) ^ 2 / ((n : ℝ) ^ 2 * (alpha / n) ^ 2))
      = 2 * Real.log (1 + c * s / alpha) := by
    have : 1 + 2 * (c * s) / (n * (alpha / n)) + (c * s) ^ 2 / ((n : ℝ) ^ 2 * (alpha / n) ^ 2)
        = (1 + c * s / alpha) ^ 2 := by field_simp; ring
    rw [this, Real.log_pow]; norm_num
  unfold CMSRule vectorCalib
  simp only [transc_log, expm1, transc_exp, hlog]
  split_ifs with h
  · right
    refine ⟨h, ?_, rfl⟩
    field_simp
  · left
    rw [not_le] at h
    exact ⟨h, rfl, rfl⟩

/-! ### 2. the call site -/

/-- the mechanism's regulariser `Λ = α/n` IS the objective's `l2_reg_strength` -/
theorem reg_strength_consistent (eps C norm : ℝ) (k d n : Nat) (ic : Bool) :
    (callSite eps C norm k d n ic).alpha / ((callSite eps C norm k d n ic).n : ℝ)
      = (callSite eps C norm k d n ic).l2 := by
  simp only [callSite]
  rw [div_div]

/-- the call site passes `c = ¼`, `α = 1/C`, `s = √(norm²+1)` with an intercept (else `norm`), dimension d (+1) -/
theorem call_site_arguments (eps C norm : ℝ) (k d n : Nat) :
    (callSite eps C norm k d n true).c = 1 / 4 ∧ (callSite eps C norm k d n true).alpha = 1 / C ∧
    (callSite eps C norm k d n true).s = Real.sqrt (norm ^ 2 + 1) ∧ (callSite eps C norm k d n false).s = norm ∧
    (callSite eps C norm k d n true).dim = d + 1 ∧ (callSite eps C norm k d n false).dim = d := by
  simp [callSite, dataNorm']

/-- the one-vs-rest problems share ε exactly: `k · (ε/k) = ε`, and two classes make ONE problem -/
theorem per_problem_split (eps : ℝ) (nClasses : Nat) (h : 2 ≤ nClasses) :
    (numProblems nClasses : ℝ) * perProblemEps eps nClasses = eps ∧ numProblems 2 = 1 ∧
    (nClasses ≠ 2 → numProblems nClasses = nClasses) := by
  refine ⟨?_, by simp [numProblems], fun hne => by simp [numProblems, hne]⟩
  have : (numProblems nClasses : ℝ) ≠ 0 := by
    unfold numProblems; split_ifs <;> simp; omega
  unfold perProblemEps
  field_simp

/-- the whole fit: with the regulariser the objective really uses (`l2_reg_strength`), every one-vs-rest problem
satisfies the CMS accounting identity for its share `ε/k` of the budget -/
theorem fit_calibration (eps C norm : ℝ) (k d n : Nat) (ic : Bool) (he : 0 < eps) (hC : 0 < C) (hnorm : 0 ≤ norm)
    (hk : 2 ≤ k) (hn : 0 < n) :
    let cs : CallSite ℝ := callSite eps C norm k d n ic
    let r := fitCalib eps C norm k d n ic
    0 < r.epsP ∧ 0 ≤ r.delta ∧
    r.epsP + 2 * Real.log (1 + cs.c * cs.s / ((n : ℝ) * (cs.l2 + r.delta))) = eps / (numProblems k : ℝ) ∧
    r.scale = 2 * cs.s / r.epsP := by
  intro cs r
  have hnR : (0 : ℝ) < n := by exact_mod_cast hn
  have hkR : (0 : ℝ) < (numProblems k : ℝ) := by
    unfold numProblems; split_ifs <;> simp; omega
  have hs : 0 ≤ cs.s := by
    simp only [cs, callSite, dataNorm']
    split_ifs
    · simp only [transc_sqrt]; exact Real.sqrt_nonneg _
    · exact hnorm
  have hal : 0 < cs.alpha := by simp only [cs, callSite]; positivity
  have hc : 0 ≤ cs.c := by simp only [cs, callSite]; norm_num
  have hek : 0 < cs.eps := by simp only [cs, callSite, perProblemEps]; positivity
  obtain ⟨h1, h2, h3, h4⟩ := cms_calibration cs.eps cs.c cs.s cs.alpha cs.n hek hc hs hal hn
  have hl2 : (n : ℝ) * (cs.l2 + r.delta) = cs.alpha + n * r.delta := by
    have : (n : ℝ) * cs.l2 = cs.alpha := by
      simp only [cs, callSite]; field_simp
    rw [mul_add, this]
  refine ⟨h1, h2, ?_, h4⟩
  rw [hl2]
  exact h3

/-! ### 3. the rows the optimiser sees -/

/-- after `clip_to_norm` every row has norm ≤ `data_norm` -/
theorem clipped_row_norm (row : List ℝ) (clip : ℝ) (hclip : 0 < clip) : norm2 (clipRow row clip) ≤ clip := by
  unfold clipRow
  simp only
  split_ifs with h
  · rw [norm2_div _ 1 one_pos, div_one]
    have := (div_lt_one hclip).mp h
    exact this.le
  · rw [not_lt] at h
    have hm : 0 < norm2 row / clip := lt_of_lt_of_le one_pos h
    rw [norm2_div _ _ hm]
    have hr : 0 < norm2 row := by
      by_contra hneg
      have : norm2 row = 0 := le_antisymm (not_lt.mp hneg) (norm2_nonneg row)
      rw [this, zero_div] at hm; exact lt_irrefl _ hm
    rw [div_div_eq_mul_div, mul_comm, mul_div_assoc, div_self hr.ne', mul_one]

/-- unclipped rows (norm ≤ clip) pass through unchanged -/
theorem clipRow_inside (row : List ℝ) (clip : ℝ) (h : norm2 row / clip < 1) : clipRow row clip = row := by
  unfold clipRow
  simp [h]

/-- with an intercept the loss sees `(x, 1)`, whose norm is at most the enlarged `data_sensitivity = √(norm²+1)` -/
theorem augmented_row_norm (row : List ℝ) (norm : ℝ) (h : norm2 row ≤ norm) :
    norm2 (augment row) ≤ dataNorm' norm true := by
  unfold augment dataNorm'
  simp only [↓reduceIte, transc_sqrt, transc_pow]
  unfold norm2
  simp only [transc_sqrt]
  rw [sumSq_append_one]
  apply Real.sqrt_le_sqrt
  have h0 := norm2_nonneg row
  have : sumSq row ≤ norm ^ 2 := by
    rw [← norm2_sq]; exact pow_le_pow_left₀ h0 h 2
  have h2 : norm ^ (2 : ℝ) = norm ^ 2 := by norm_num
  rw [h2]; linarith

/-! ### 4. the shape of the perturbation -/

/-- noisy objective − clean objective = `b·w/n + ½Δ‖w‖²`; noisy gradient = clean gradient + `b/n + Δw` -/
theorem perturbation_shape (f : List ℝ → ℝ) (g : List ℝ → List ℝ) (b : List ℝ) (delta : ℝ) (n : Nat) (w : List ℝ) :
    noisyObjective f b delta n w - f w = dot b w / n + 1 / 2 * delta * dot w w ∧
    noisyObjective f b delta n w - f w = perturbation b delta n w ∧
    noisyGradient g b delta n w = zipWith3 (fun gi bi wi => gi + (bi / (n : ℝ) + delta * wi)) (g w) b w ∧
    perturbationGrad b delta n w = List.zipWith (fun bi wi => bi / (n : ℝ) + delta * wi) b w := by
  refine ⟨?_, ?_, rfl, rfl⟩ <;> simp only [noisyObjective, perturbation] <;> ring

/-- `b/n + Δw` is the gradient of the perturbation: exact second-order expansion in any direction `h` -/
theorem perturbation_gradient (b w h : List ℝ) (delta : ℝ) (n : Nat) (h1 : b.length = w.length)
    (h2 : w.length = h.length) :
    perturbation b delta n (List.zipWith (· + ·) w h) - perturbation b delta n w
      = dot (perturbationGrad b delta n w) h + 1 / 2 * delta * dot h h := by
  unfold perturbation perturbationGrad
  have hwh : (List.zipWith (· + ·) w h).length = h.length := by simp [h2]
  rw [dot_add_right b w h h2, dot_add_right _ w h h2, dot_comm (List.zipWith (· + ·) w h) w,
    dot_comm (List.zipWith (· + ·) w h) h, dot_add_right w w h h2, dot_add_right h w h h2,
    dot_zipWith_left b w h _ _ h1 h2, dot_comm h w]
  ring

end DPL.C17
