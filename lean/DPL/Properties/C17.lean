/-
C17 — objective perturbation for logistic regression is calibrated as Chaudhuri–Monteleoni–Sarwate prove.

The statements are about the executable model `DPL/Model/LogReg.lean` (transcribed from
`models/logistic_regression.py` and `mechanisms/vector.py`; the same definitions the driver runs on doubles against
the real code), instantiated at ℝ; `expm1 x = exp x − 1`.

CITED, not re-proved: CMS (JMLR 2011) Theorem 9 — objective perturbation with the parameters of their Algorithm 2 is
ε-differentially private for a loss with |ℓ''| ≤ c and rows of norm ≤ 1 (here: rows of norm ≤ s, loss rescaled).  What is
proved here is that the code's parameters ARE those of Algorithm 2 (`cms_rule_as_printed`) and satisfy its accounting
identity (`cms_calibration`).
PROVED about the law of the noise vector b, on the real-number model, for INPUT draws with the ideal laws (independent
`Gamma(d/4, 1)` unit gammas = Mathlib's `gammaMeasure`, independent N(0,1) = `gaussianReal 0 1`):
  §5  `noise_norm_law` / `fit_noise_norm_law` — `noisy_norm` (four gamma draws) ~ Gamma(shape d, rate ε′/(2s)), i.e. scale
      2s/ε′, in both branches of the rule, generically and at the logistic-regression call site;
      `noise_vector_norm_law` — the same for the Euclidean norm ‖b‖ of the model's noise vector, whatever the direction draws;
  §6  `direction_coordinate_law`, `direction_coordinates_iid` — the direction vector is d i.i.d. N(0,1);
      `direction_rotation_invariant`, `direction_on_sphere` — its normalisation has a rotation-invariant law on the sphere;
      `sphere_invariant_measure_unique` — such a law is unique (not in Mathlib; proved here with characteristic functions);
      `direction_uniform` — hence b/‖b‖ is uniform on the sphere (= normalised surface measure `Measure.toSphere`);
      `noise_vector_law` / `fit_noise_vector_law` — b ~ r·u, u uniform on the sphere, r ~ Gamma(d, rate ε′/(2s)) independent
      (independence is by construction: norm and direction use separate draws, i.e. the input is a product measure);
      `direction_model_bridge`, `noise_vector_model_bridge` — the List ℝ model is the Euclidean vector, by coordinates.
NOT proved (validated statistically by the harness): that CPython's `random.gammavariate(d/4, ·)` / `normalvariate(0, 1)`
(on the rng the mechanism holds) produce draws with those Gamma / Normal laws, independent from call to call; and that the
floating-point evaluation does not distort them (the theorems are about the model over ℝ).  No measure is put on
`List ℝ`: the vector law is stated in `EuclideanSpace ℝ (Fin d)` and tied to the model's lists pointwise by the two bridges.
-/
import DPL.Proofs.SamplersLogReg
import DPL.Proofs.SamplersNoiseNorm
import DPL.Proofs.SamplersNoiseNormJoint

namespace DPL.C17
open DPL DPL.Smp DPL.LogReg

/-! ### 1. the ε′ / Δ rule -/

/-- both branches of `Vector.randomise`: `0 < ε′`, `0 ≤ Δ`, the accounting identity
`ε′ + 2·log(1 + c·s/(α + n·Δ)) = ε`, and `scale = 2s/ε′` -/
theorem cms_calibration (eps c s alpha : ℝ) (n : Nat) (he : 0 < eps) (hc : 0 ≤ c) (hs : 0 ≤ s) (ha : 0 < alpha)
    (hn : 0 < n) :
    0 < (vectorCalib eps c s alpha n).epsP ∧
    0 ≤ (vectorCalib eps c s alpha n).delta ∧
    (vectorCalib eps c s alpha n).epsP
      + 2 * Real.log (1 + c * s / (alpha + n * (vectorCalib eps c s alpha n).delta)) = eps ∧
    (vectorCalib eps c s alpha n).scale = 2 * s / (vectorCalib eps c s alpha n).epsP := by
  have hnR : (0 : ℝ) < n := by exact_mod_cast hn
  have hcs : 0 ≤ c * s := mul_nonneg hc hs
  unfold vectorCalib
  simp only [transc_log, expm1, transc_exp]
  split_ifs with h
  · -- fallback branch
    set E := Real.exp (eps / 4) with hE
    have hE1 : 1 < E := by rw [hE]; exact Real.one_lt_exp_iff.mpr (by linarith)
    have hA : 0 < 1 + c * s / alpha := by positivity
    have h2 : Real.exp (eps / 2) ≤ 1 + c * s / alpha := by
      rw [← Real.le_log_iff_exp_le hA]; linarith
    have h3 : E ≤ Real.exp (eps / 2) := by rw [hE]; exact Real.exp_le_exp.mpr (by linarith)
    have h4 : E - 1 ≤ c * s / alpha := by linarith
    have h5 : alpha * (E - 1) ≤ c * s := by
      have := mul_le_mul_of_nonneg_left h4 ha.le
      rwa [mul_div_cancel₀ _ ha.ne'] at this
    have hE0 : 0 < E - 1 := by linarith
    have hcspos : 0 < c * s := lt_of_lt_of_le (mul_pos ha hE0) h5
    have h6 : alpha ≤ c * s / (E - 1) := by rw [le_div_iff₀ hE0]; exact h5
    refine ⟨by linarith, ?_, ?_, by ring⟩
    · exact div_nonneg (by linarith) hnR.le
    · have : alpha + n * ((c * s / (E - 1) - alpha) / n) = c * s / (E - 1) := by field_simp; ring
      rw [this]
      have : 1 + c * s / (c * s / (E - 1)) = E := by
        rw [div_div_eq_mul_div, mul_comm, mul_div_assoc, div_self hcspos.ne']; ring
      rw [this, hE, Real.log_exp]; ring
  · -- plain branch
    rw [not_le] at h
    refine ⟨h, le_refl _, ?_, by ring⟩
    simp only [mul_zero, add_zero]; ring

/-- non-vacuity of the fallback branch: parameters with `ε − 2 log(1 + cs/α) ≤ 0` exist (ε = 1/10, c = 1/4, s = 1, α = 1) -/
example : ∃ eps c s alpha : ℝ, 0 < eps ∧ 0 ≤ c ∧ 0 ≤ s ∧ 0 < alpha ∧ eps - 2 * Real.log (1 + c * s / alpha) ≤ 0 := by
  refine ⟨1 / 10, 1 / 4, 1, 1, by norm_num, by norm_num, by norm_num, by norm_num, ?_⟩
  have h : (1 / 20 : ℝ) ≤ Real.log (1 + 1 / 4 * 1 / 1) := by
    rw [Real.le_log_iff_exp_le (by norm_num)]
    have := Real.exp_bound_div_one_sub_of_interval' (x := 1 / 20) (by norm_num) (by norm_num)
    norm_num at this ⊢
    linarith
  linarith

/-- Algorithm 2 of CMS as printed, with loss-curvature bound `c`, regulariser `Λ`, `n` samples -/
def CMSRule (eps c lam : ℝ) (n : Nat) (epsP delta : ℝ) : Prop :=
  let e0 := eps - Real.log (1 + 2 * c / (n * lam) + c ^ 2 / (n ^ 2 * lam ^ 2))
  (0 < e0 ∧ epsP = e0 ∧ delta = 0) ∨
  (e0 ≤ 0 ∧ delta = c / (n * (Real.exp (eps / 4) - 1)) - lam ∧ epsP = eps / 2)

/-- the code's `(ε′, Δ)` are exactly Algorithm 2's for curvature bound `c·s` and `Λ = α/n` -/
theorem cms_rule_as_printed (eps c s alpha : ℝ) (n : Nat) (hc : 0 ≤ c) (hs : 0 ≤ s) (ha : 0 < alpha) (hn : 0 < n) :
    CMSRule eps (c * s) (alpha / n) n (vectorCalib eps c s alpha n).epsP (vectorCalib eps c s alpha n).delta := by
  have hnR : (0 : ℝ) < n := by exact_mod_cast hn
  have hcs : 0 ≤ c * s := mul_nonneg hc hs
  have hlog : Real.log (1 + 2 * (c * s) / (n * (alpha / n)) + (c * s) ^ 2 / ((n : ℝ) ^ 2 * (alpha / n) ^ 2))
      = 2 * Real.log (1 + c * s / alpha) := by
    have : 1 + 2 * (c * s) / (n * (alpha / n)) + (c * s) ^ 2 / ((n : ℝ) ^ 2 * (alpha / n) ^ 2)
        = (1 + c * s / alpha) ^ 2 := by field_simp; ring
    rw [this, Real.log_pow]; norm_num
  unfold CMSRule vectorCalib
  simp only [transc_log, expm1, transc_exp, hlog]
  split_ifs with h
  · right
    refine ⟨h, ?_, rfl⟩
    field_simp
  · left
    rw [not_le] at h
    exact ⟨h, rfl, rfl⟩

/-! ### 2. the call site -/

/-- the mechanism's regulariser `Λ = α/n` IS the objective's `l2_reg_strength` -/
theorem reg_strength_consistent (eps C norm : ℝ) (k d n : Nat) (ic : Bool) :
    (callSite eps C norm k d n ic).alpha / ((callSite eps C norm k d n ic).n : ℝ)
      = (callSite eps C norm k d n ic).l2 := by
  simp only [callSite]
  rw [div_div]

/-- the call site passes `c = ¼`, `α = 1/C`, `s = √(norm²+1)` with an intercept (else `norm`), dimension d (+1) -/
theorem call_site_arguments (eps C norm : ℝ) (k d n : Nat) :
    (callSite eps C norm k d n true).c = 1 / 4 ∧ (callSite eps C norm k d n true).alpha = 1 / C ∧
    (callSite eps C norm k d n true).s = Real.sqrt (norm ^ 2 + 1) ∧ (callSite eps C norm k d n false).s = norm ∧
    (callSite eps C norm k d n true).dim = d + 1 ∧ (callSite eps C norm k d n false).dim = d := by
  simp [callSite, dataNorm']

/-- the one-vs-rest problems share ε exactly: `k · (ε/k) = ε`, and two classes make ONE problem -/
theorem per_problem_split (eps : ℝ) (nClasses : Nat) (h : 2 ≤ nClasses) :
    (numProblems nClasses : ℝ) * perProblemEps eps nClasses = eps ∧ numProblems 2 = 1 ∧
    (nClasses ≠ 2 → numProblems nClasses = nClasses) := by
  refine ⟨?_, by simp [numProblems], fun hne => by simp [numProblems, hne]⟩
  have : (numProblems nClasses : ℝ) ≠ 0 := by
    unfold numProblems; split_ifs <;> simp; omega
  unfold perProblemEps
  field_simp

/-- the whole fit: with the regulariser the objective really uses (`l2_reg_strength`), every one-vs-rest problem
satisfies the CMS accounting identity for its share `ε/k` of the budget -/
theorem fit_calibration (eps C norm : ℝ) (k d n : Nat) (ic : Bool) (he : 0 < eps) (hC : 0 < C) (hnorm : 0 ≤ norm)
    (hk : 2 ≤ k) (hn : 0 < n) :
    let cs : CallSite ℝ := callSite eps C norm k d n ic
    let r := fitCalib eps C norm k d n ic
    0 < r.epsP ∧ 0 ≤ r.delta ∧
    r.epsP + 2 * Real.log (1 + cs.c * cs.s / ((n : ℝ) * (cs.l2 + r.delta))) = eps / (numProblems k : ℝ) ∧
    r.scale = 2 * cs.s / r.epsP := by
  intro cs r
  have hnR : (0 : ℝ) < n := by exact_mod_cast hn
  have hkR : (0 : ℝ) < (numProblems k : ℝ) := by
    unfold numProblems; split_ifs <;> simp; omega
  have hs : 0 ≤ cs.s := by
    simp only [cs, callSite, dataNorm']
    split_ifs
    · simp only [transc_sqrt]; exact Real.sqrt_nonneg _
    · exact hnorm
  have hal : 0 < cs.alpha := by simp only [cs, callSite]; positivity
  have hc : 0 ≤ cs.c := by simp only [cs, callSite]; norm_num
  have hek : 0 < cs.eps := by simp only [cs, callSite, perProblemEps]; positivity
  obtain ⟨h1, h2, h3, h4⟩ := cms_calibration cs.eps cs.c cs.s cs.alpha cs.n hek hc hs hal hn
  have hl2 : (n : ℝ) * (cs.l2 + r.delta) = cs.alpha + n * r.delta := by
    have : (n : ℝ) * cs.l2 = cs.alpha := by
      simp only [cs, callSite]; field_simp
    rw [mul_add, this]
  refine ⟨h1, h2, ?_, h4⟩
  rw [hl2]
  exact h3

/-! ### 3. the rows the optimiser sees -/

/-- after `clip_to_norm` every row has norm ≤ `data_norm` -/
theorem clipped_row_norm (row : List ℝ) (clip : ℝ) (hclip : 0 < clip) : norm2 (clipRow row clip) ≤ clip := by
  unfold clipRow
  simp only
  split_ifs with h
  · rw [norm2_div _ 1 one_pos, div_one]
    have := (div_lt_one hclip).mp h
    exact this.le
  · rw [not_lt] at h
    have hm : 0 < norm2 row / clip := lt_of_lt_of_le one_pos h
    rw [norm2_div _ _ hm]
    have hr : 0 < norm2 row := by
      by_contra hneg
      have : norm2 row = 0 := le_antisymm (not_lt.mp hneg) (norm2_nonneg row)
      rw [this, zero_div] at hm; exact lt_irrefl _ hm
    rw [div_div_eq_mul_div, mul_comm, mul_div_assoc, div_self hr.ne', mul_one]

/-- unclipped rows (norm ≤ clip) pass through unchanged -/
theorem clipRow_inside (row : List ℝ) (clip : ℝ) (h : norm2 row / clip < 1) : clipRow row clip = row := by
  unfold clipRow
  simp [h]

/-- with an intercept the loss sees `(x, 1)`, whose norm is at most the enlarged `data_sensitivity = √(norm²+1)` -/
theorem augmented_row_norm (row : List ℝ) (norm : ℝ) (h : norm2 row ≤ norm) :
    norm2 (augment row) ≤ dataNorm' norm true := by
  unfold augment dataNorm'
  simp only [↓reduceIte, transc_sqrt, transc_pow]
  unfold norm2
  simp only [transc_sqrt]
  rw [sumSq_append_one]
  apply Real.sqrt_le_sqrt
  have h0 := norm2_nonneg row
  have : sumSq row ≤ norm ^ 2 := by
    rw [← norm2_sq]; exact pow_le_pow_left₀ h0 h 2
  have h2 : norm ^ (2 : ℝ) = norm ^ 2 := by norm_num
  rw [h2]; linarith

/-! ### 4. the shape of the perturbation -/

/-- noisy objective − clean objective = `b·w/n + ½Δ‖w‖²`; noisy gradient = clean gradient + `b/n + Δw` -/
theorem perturbation_shape (f : List ℝ → ℝ) (g : List ℝ → List ℝ) (b : List ℝ) (delta : ℝ) (n : Nat) (w : List ℝ) :
    noisyObjective f b delta n w - f w = dot b w / n + 1 / 2 * delta * dot w w ∧
    noisyObjective f b delta n w - f w = perturbation b delta n w ∧
    noisyGradient g b delta n w = zipWith3 (fun gi bi wi => gi + (bi / (n : ℝ) + delta * wi)) (g w) b w ∧
    perturbationGrad b delta n w = List.zipWith (fun bi wi => bi / (n : ℝ) + delta * wi) b w := by
  refine ⟨?_, ?_, rfl, rfl⟩ <;> simp only [noisyObjective, perturbation] <;> ring

/-- `b/n + Δw` is the gradient of the perturbation: exact second-order expansion in any direction `h` -/
theorem perturbation_gradient (b w h : List ℝ) (delta : ℝ) (n : Nat) (h1 : b.length = w.length)
    (h2 : w.length = h.length) :
    perturbation b delta n (List.zipWith (· + ·) w h) - perturbation b delta n w
      = dot (perturbationGrad b delta n w) h + 1 / 2 * delta * dot h h := by
  unfold perturbation perturbationGrad
  have hwh : (List.zipWith (· + ·) w h).length = h.length := by simp [h2]
  rw [dot_add_right b w h h2, dot_add_right _ w h h2, dot_comm (List.zipWith (· + ·) w h) w,
    dot_comm (List.zipWith (· + ·) w h) h, dot_add_right w w h h2, dot_add_right h w h h2,
    dot_zipWith_left b w h _ _ h1 h2, dot_comm h w]
  ring

/-! ### 5. the law of the noise norm -/

/-- consequence of `cms_calibration` for `s > 0`: the gamma scale is positive and its inverse is the rate `ε′/(2s)` -/
theorem calib_scale_rate (eps c s alpha : ℝ) (n : Nat) (he : 0 < eps) (hc : 0 ≤ c) (hs : 0 < s) (ha : 0 < alpha)
    (hn : 0 < n) :
    0 < (vectorCalib eps c s alpha n).scale ∧
    1 / (vectorCalib eps c s alpha n).scale = (vectorCalib eps c s alpha n).epsP / (2 * s) := by
  obtain ⟨h1, -, -, h4⟩ := cms_calibration eps c s alpha n he hc hs.le ha hn
  refine ⟨?_, ?_⟩
  · rw [h4]; exact div_pos (by positivity) h1
  · rw [h4, one_div, inv_div]

/-- at the call site every hypothesis of the calibration holds: `ε/k > 0`, `c = ¼ ≥ 0`, `α = 1/C > 0`, and — with an
intercept always, without one when `0 < data_norm` and `0 < n_features` — `s > 0` and `dim ≥ 1` -/
theorem call_site_positive (eps C norm : ℝ) (k dim n : Nat) (ic : Bool) (he : 0 < eps) (hC : 0 < C) (hk : 2 ≤ k)
    (hpos : ic = false → 0 < norm ∧ 0 < dim) :
    let cs : CallSite ℝ := callSite eps C norm k dim n ic
    0 < cs.eps ∧ 0 ≤ cs.c ∧ 0 < cs.s ∧ 0 < cs.alpha ∧ 0 < cs.dim := by
  intro cs
  have hkR : (0 : ℝ) < (numProblems k : ℝ) := by
    unfold numProblems; split_ifs <;> simp; omega
  have hs : 0 < cs.s := by
    simp only [cs, callSite, dataNorm']
    split_ifs with h
    · simp only [transc_sqrt, transc_pow]
      apply Real.sqrt_pos.mpr
      have h2 : norm ^ (2 : ℝ) = norm ^ 2 := by norm_num
      rw [h2]; positivity
    · exact (hpos (by simpa using h)).1
  have hd : 0 < cs.dim := by
    simp only [cs, callSite]
    split_ifs with h
    · omega
    · have := (hpos (by simpa using h)).2
      omega
  have hal : 0 < cs.alpha := by simp only [cs, callSite]; positivity
  have hc : 0 ≤ cs.c := by simp only [cs, callSite]; norm_num
  have hek : 0 < cs.eps := by simp only [cs, callSite, perProblemEps]; positivity
  exact ⟨hek, hc, hs, hal, hd⟩

/-- non-vacuity of `hpos`: without an intercept and with `data_norm = 0` the sensitivity `s` IS 0 (no gamma law) -/
example : (callSite (1 : ℝ) 1 0 2 3 10 false).s = 0 := by simp [callSite, dataNorm']

open MeasureTheory ProbabilityTheory in
/-- **‖b‖ ~ Gamma(d, scale 2s/ε′)** in BOTH branches of the rule: `noisy_norm = sum(gammavariate(d/4, scale) for _ in
range(4))` — the model's `vecNorm K.scale` of four independent unit gammas `Gamma(d/4, rate 1)` — has the law
`Gamma(shape d, rate ε′/(2s))` with the `ε′` the rule actually chose (`K.epsP`), which is what CMS Algorithm 2 asks of
the norm of `b`.  (`gammaMeasure a r` is Mathlib's gamma law with shape `a` and RATE `r`.) -/
theorem noise_norm_law (eps c s alpha : ℝ) (n : Nat) (d : ℝ) (he : 0 < eps) (hc : 0 ≤ c) (hs : 0 < s)
    (ha : 0 < alpha) (hn : 0 < n) (hd : 0 < d) :
    let K := vectorCalib eps c s alpha n
    ((gammaMeasure (d / 4) 1).prod ((gammaMeasure (d / 4) 1).prod ((gammaMeasure (d / 4) 1).prod
        (gammaMeasure (d / 4) 1)))).map
      (fun g : ℝ × ℝ × ℝ × ℝ => vecNorm K.scale [g.1, g.2.1, g.2.2.1, g.2.2.2])
      = gammaMeasure d (K.epsP / (2 * s)) := by
  intro K
  obtain ⟨hscale, hrate⟩ := calib_scale_rate eps c s alpha n he hc hs ha hn
  rw [← hrate]
  exact gamma_sum_map d K.scale hd hscale

/-- non-vacuity: the hypotheses hold in the fallback branch (the parameters of the example of §1) … -/
example := noise_norm_law (1 / 10) (1 / 4) 1 1 1 4 (by norm_num) (by norm_num) (by norm_num) (by norm_num)
  (by norm_num) (by norm_num)

/-- … and in the plain branch, where (c = 0) the rate is `ε/(2s)` itself -/
example : (vectorCalib (1 : ℝ) 0 1 1 1).epsP / (2 * 1) = 1 / 2 ∧ (vectorCalib (1 : ℝ) 0 1 1 1).scale = 2 := by
  norm_num [vectorCalib]

open MeasureTheory ProbabilityTheory in
/-- the same at the logistic-regression call site: in every one-vs-rest problem of a fit the norm of the noise vector
has the law `Gamma(dim, rate ε′/(2s))` with `dim = n_features (+1 with an intercept)`, `s = data_sensitivity` and `ε′`
the fit's own `epsilon_p`.  With an intercept `s = √(norm²+1) > 0` and `dim ≥ 1` always; without one, `0 < norm` and
`0 < n_features` are needed. -/
theorem fit_noise_norm_law (eps C norm : ℝ) (k dim n : Nat) (ic : Bool) (he : 0 < eps) (hC : 0 < C)
    (hnorm : 0 ≤ norm) (hk : 2 ≤ k) (hn : 0 < n) (hpos : ic = false → 0 < norm ∧ 0 < dim) :
    let cs : CallSite ℝ := callSite eps C norm k dim n ic
    let K := fitCalib eps C norm k dim n ic
    ((gammaMeasure ((cs.dim : ℝ) / 4) 1).prod ((gammaMeasure ((cs.dim : ℝ) / 4) 1).prod
        ((gammaMeasure ((cs.dim : ℝ) / 4) 1).prod (gammaMeasure ((cs.dim : ℝ) / 4) 1)))).map
      (fun g : ℝ × ℝ × ℝ × ℝ => vecNorm K.scale [g.1, g.2.1, g.2.2.1, g.2.2.2])
      = gammaMeasure (cs.dim : ℝ) (K.epsP / (2 * cs.s)) := by
  intro cs K
  obtain ⟨hek, hc, hs, hal, hd⟩ := call_site_positive eps C norm k dim n ic he hC hk hpos
  exact noise_norm_law cs.eps cs.c cs.s cs.alpha cs.n (cs.dim : ℝ) hek hc hs hal hn (by exact_mod_cast hd)

/-- non-vacuity, both intercept settings (ε = 1, C = 1, data_norm = 1, two classes, three features, ten samples) -/
example := fit_noise_norm_law 1 1 1 2 3 10 true (by norm_num) (by norm_num) (by norm_num) (by norm_num)
  (by norm_num) (by simp)
example := fit_noise_norm_law 1 1 1 2 3 10 false (by norm_num) (by norm_num) (by norm_num) (by norm_num)
  (by norm_num) (by simp)

open MeasureTheory ProbabilityTheory in
/-- **the Euclidean norm of the noise vector itself** — `np.linalg.norm` of the model's
`vecNoise K.scale normals gammas = direction / ‖direction‖ · noisy_norm` — has the law `Gamma(d, rate ε′/(2s))` for EVERY
fixed non-degenerate outcome of the direction draws: a gamma draw is a.s. ≥ 0, so `‖b‖ = noisy_norm` almost surely
(`vecNoise_norm_eq`).  In particular the law of ‖b‖ does not depend on the direction draws. -/
theorem noise_vector_norm_law (eps c s alpha : ℝ) (n : Nat) (d : ℝ) (he : 0 < eps) (hc : 0 ≤ c) (hs : 0 < s)
    (ha : 0 < alpha) (hn : 0 < n) (hd : 0 < d) (normals : List ℝ) (hdir : norm2 (vecDir normals) ≠ 0) :
    let K := vectorCalib eps c s alpha n
    ((gammaMeasure (d / 4) 1).prod ((gammaMeasure (d / 4) 1).prod ((gammaMeasure (d / 4) 1).prod
        (gammaMeasure (d / 4) 1)))).map
      (fun g : ℝ × ℝ × ℝ × ℝ => norm2 (vecNoise K.scale normals [g.1, g.2.1, g.2.2.1, g.2.2.2]))
      = gammaMeasure d (K.epsP / (2 * s)) := by
  intro K
  obtain ⟨hscale, hrate⟩ := calib_scale_rate eps c s alpha n he hc hs ha hn
  rw [← hrate]
  exact gamma_sum_map_noise d K.scale hd hscale normals hdir

/-- non-vacuity: four draws equal to 1 give the direction `[2]`, of norm 2 -/
example : norm2 (vecDir [(1 : ℝ), 1, 1, 1]) ≠ 0 := by
  simp only [vecDir, norm2, sumSq, List.foldl, transc_sqrt]
  rw [Real.sqrt_ne_zero'] ; norm_num

/-! ### 6. the direction of the noise, and the law of the whole noise vector

`normed_noisy_vector = np.reshape(normals, (-1, 4)).sum(axis=1) / 2` (the model's `vecDir`): coordinate `i` is
`(n₄ᵢ + n₄ᵢ₊₁ + n₄ᵢ₊₂ + n₄ᵢ₊₃)/2` of its OWN four `normalvariate(0,1)` draws (`direction_draws`), hence standard normal
(`direction_coordinate_law`); the coordinates use disjoint draws, so the direction vector is `d` i.i.d. N(0,1)
(`direction_coordinates_iid`), i.e. `stdGaussian (EuclideanSpace ℝ (Fin d))` read by coordinates (Mathlib's
`map_pi_eq_stdGaussian`, used in `direction_iid_law`).  The bridge `List ℝ ↔ EuclideanSpace` is by coordinates
(`direction_model_bridge`, `noise_vector_model_bridge`).  `unitDir x = ‖x‖⁻¹ • x`, `half4 n = (n₁+n₂+n₃+n₄)/2` and
`quad n = [n₁,n₂,n₃,n₄]` are defined in `DPL/Proofs/SamplersNoiseNorm*.lean`. -/

open MeasureTheory ProbabilityTheory

/-- every coordinate of the direction consumes its own four normal draws; on `4·d` draws grouped in fours the direction
is the list of the `d` half-sums -/
theorem direction_draws (a b c d : ℝ) (rest : List ℝ) (l : List (ℝ × ℝ × ℝ × ℝ)) :
    vecDir (a :: b :: c :: d :: rest) = (a + b + c + d) / 2 :: vecDir rest ∧
    vecDir (l.flatMap quad) = l.map half4 :=
  ⟨vecDir_cons4 a b c d rest, vecDir_flatMap l⟩

/-- `(n₁+n₂+n₃+n₄)/2` of four independent standard normals is standard normal -/
theorem direction_coordinate_law :
    ((gaussianReal 0 1).prod ((gaussianReal 0 1).prod ((gaussianReal 0 1).prod (gaussianReal 0 1)))).map
      (fun n : ℝ × ℝ × ℝ × ℝ => (n.1 + n.2.1 + n.2.2.1 + n.2.2.2) / 2) = gaussianReal 0 1 :=
  gauss4_half_map

/-- `d` groups of four independent standard normals give `d` INDEPENDENT standard normal coordinates -/
theorem direction_coordinates_iid (d : ℕ) :
    (Measure.pi fun _ : Fin d =>
        (gaussianReal 0 1).prod ((gaussianReal 0 1).prod ((gaussianReal 0 1).prod (gaussianReal 0 1)))).map
      (fun x i => half4 (x i)) = Measure.pi fun _ : Fin d => gaussianReal 0 1 :=
  gauss4_half_pi d

/-- the model's `norm2` is the Euclidean norm, and the model's unit direction `v / ‖v‖` (which `vecNoise` multiplies by
`noisy_norm`) is `unitDir x = ‖x‖⁻¹ • x` of `EuclideanSpace ℝ (Fin d)`, coordinate by coordinate -/
theorem direction_model_bridge {d : ℕ} (x : Fin d → ℝ) :
    norm2 (List.ofFn x) = ‖(WithLp.toLp 2 x : EuclideanSpace ℝ (Fin d))‖ ∧
    (List.ofFn x).map (fun c => c / norm2 (List.ofFn x))
      = List.ofFn (fun i => (unitDir (WithLp.toLp 2 x : EuclideanSpace ℝ (Fin d))) i) :=
  ⟨norm2_ofFn x, modelDir_ofFn x⟩

/-- the direction of `d` i.i.d. N(0,1) coordinates has the law of the direction of a standard Gaussian vector -/
theorem direction_iid_law (d : ℕ) :
    (Measure.pi (fun _ : Fin d => gaussianReal 0 1)).map
        (fun x => unitDir (WithLp.toLp 2 x : EuclideanSpace ℝ (Fin d)))
      = (stdGaussian (EuclideanSpace ℝ (Fin d))).map unitDir := by
  rw [← map_pi_eq_stdGaussian, Measure.map_map measurable_unitDir (by fun_prop)]
  rfl

/-- **rotation invariance**: the law of the direction `x/‖x‖` of a standard Gaussian vector is invariant under every
linear isometry (rotation or reflection) `f` of the space — because `dir (f x) = f (dir x)` and the standard Gaussian is
itself invariant (`stdGaussian_map`). -/
theorem direction_rotation_invariant (d : ℕ)
    (f : EuclideanSpace ℝ (Fin d) ≃ₗᵢ[ℝ] EuclideanSpace ℝ (Fin d)) :
    ((stdGaussian (EuclideanSpace ℝ (Fin d))).map unitDir).map f
      = (stdGaussian (EuclideanSpace ℝ (Fin d))).map unitDir :=
  stdGaussian_dir_map f

/-- the direction is almost surely a unit vector (a standard Gaussian vector in dimension ≥ 1 is a.s. non-zero): its law
is a probability measure carried by the unit sphere -/
theorem direction_on_sphere (d : ℕ) (hd : 0 < d) :
    (stdGaussian (EuclideanSpace ℝ (Fin d))).map unitDir (Metric.sphere (0 : EuclideanSpace ℝ (Fin d)) 1)ᶜ = 0 ∧
    IsProbabilityMeasure ((stdGaussian (EuclideanSpace ℝ (Fin d))).map unitDir) := by
  have : Nonempty (Fin d) := ⟨⟨0, hd⟩⟩
  have : Nontrivial (EuclideanSpace ℝ (Fin d)) := inferInstance
  exact ⟨stdGaussian_dir_sphere, Measure.isProbabilityMeasure_map measurable_unitDir.aemeasurable⟩

/-- the sphere statement needs `0 < d`: the zero vector has no direction (`unitDir 0 = 0`) -/
example : unitDir (0 : EuclideanSpace ℝ (Fin 3)) = 0 := by simp [unitDir]

/-- **uniqueness of the rotation-invariant law on the sphere** (not in Mathlib; proved in
`DPL/Proofs/SamplersNoiseNormUnique.lean` with characteristic functions: two vectors of equal norm are exchanged by a
reflection, so the characteristic function of an invariant measure is radial; averaging it over the other measure gives
an expression symmetric in the two measures by Fubini): a probability measure carried by the unit sphere of a
finite-dimensional real inner product space and invariant under every linear isometry is unique -/
theorem sphere_invariant_measure_unique {E : Type*} [NormedAddCommGroup E] [InnerProductSpace ℝ E]
    [FiniteDimensional ℝ E] [MeasurableSpace E] [BorelSpace E] (μ ν : Measure E)
    [IsProbabilityMeasure μ] [IsProbabilityMeasure ν]
    (hμs : μ (Metric.sphere (0 : E) 1)ᶜ = 0) (hνs : ν (Metric.sphere (0 : E) 1)ᶜ = 0)
    (hμ : ∀ f : E ≃ₗᵢ[ℝ] E, μ.map f = μ) (hν : ∀ f : E ≃ₗᵢ[ℝ] E, ν.map f = ν) : μ = ν :=
  sphere_invariant_unique hμs hνs hμ hν

/-- the uniform law on the sphere: `sphereUniform E` IS the normalised surface measure (Mathlib's `Measure.toSphere` of
Lebesgue measure) pushed to the ambient space; it is a probability measure, carried by the unit sphere, and invariant
under every linear isometry — so the hypotheses of `sphere_invariant_measure_unique` are satisfiable -/
theorem surface_measure (d : ℕ) (hd : 0 < d) :
    sphereUniform (EuclideanSpace ℝ (Fin d))
      = (((volume : Measure (EuclideanSpace ℝ (Fin d))).toSphere Set.univ)⁻¹
          • (volume : Measure (EuclideanSpace ℝ (Fin d))).toSphere).map Subtype.val ∧
    IsProbabilityMeasure (sphereUniform (EuclideanSpace ℝ (Fin d))) ∧
    sphereUniform (EuclideanSpace ℝ (Fin d)) (Metric.sphere (0 : EuclideanSpace ℝ (Fin d)) 1)ᶜ = 0 ∧
    ∀ f : EuclideanSpace ℝ (Fin d) ≃ₗᵢ[ℝ] EuclideanSpace ℝ (Fin d),
      (sphereUniform (EuclideanSpace ℝ (Fin d))).map f = sphereUniform (EuclideanSpace ℝ (Fin d)) := by
  have : Nonempty (Fin d) := ⟨⟨0, hd⟩⟩
  have : Nontrivial (EuclideanSpace ℝ (Fin d)) := inferInstance
  exact ⟨rfl, isProbabilityMeasure_sphereUniform, sphereUniform_sphere, sphereUniform_map⟩

/-- **the direction is uniform on the sphere**: the law of `x/‖x‖` for a standard Gaussian vector `x` (= `d` i.i.d.
N(0,1) coordinates, `direction_iid_law`) is the normalised surface measure of the unit sphere -/
theorem direction_uniform (d : ℕ) (hd : 0 < d) :
    (stdGaussian (EuclideanSpace ℝ (Fin d))).map unitDir
      = (((volume : Measure (EuclideanSpace ℝ (Fin d))).toSphere Set.univ)⁻¹
          • (volume : Measure (EuclideanSpace ℝ (Fin d))).toSphere).map Subtype.val := by
  have : Nonempty (Fin d) := ⟨⟨0, hd⟩⟩
  have : Nontrivial (EuclideanSpace ℝ (Fin d)) := inferInstance
  exact stdGaussian_dir_uniform

/-- **pointwise bridge for the whole vector**: on `4·d` normal draws grouped in fours (`x i` = group `i`) and unit
gammas `gs`, the model's noise vector `vecNoise scale normals gs` is the Euclidean vector
`vecNorm scale gs • unitDir z`, `z i = half4 (x i)`, read by coordinates -/
theorem noise_vector_model_bridge {d : ℕ} (scale : ℝ) (x : Fin d → ℝ × ℝ × ℝ × ℝ) (gs : List ℝ) :
    vecNoise scale ((List.ofFn x).flatMap quad) gs
      = List.ofFn (fun i => (vecNorm scale gs •
          unitDir (WithLp.toLp 2 (fun j => half4 (x j)) : EuclideanSpace ℝ (Fin d))) i) :=
  vecNoise_ofFn scale x gs

/-- **the law of the noise vector `b`**, from the raw draws: `4·d` independent `normalvariate(0,1)` (grouped in fours)
and, independently, four unit gammas `Gamma(d/4, 1)`.  The vector `vecNorm K.scale g • unitDir z` — which IS the model's
`vecNoise` by `noise_vector_model_bridge` — has the law of `r • u` with `u` uniform on the unit sphere of `ℝ^d` and,
independently, `r ~ Gamma(d, rate ε′/(2s))`: exactly the noise of CMS Algorithm 2 (density ∝ `exp(−ε′‖b‖/(2s))`), in both
branches of the rule.  Independence of norm and direction is by construction (separate draws = product measure). -/
theorem noise_vector_law (eps c s alpha : ℝ) (n : Nat) (d : ℕ) (he : 0 < eps) (hc : 0 ≤ c) (hs : 0 < s)
    (ha : 0 < alpha) (hn : 0 < n) (hd : 0 < d) :
    let K := vectorCalib eps c s alpha n
    ((Measure.pi fun _ : Fin d =>
        (gaussianReal 0 1).prod ((gaussianReal 0 1).prod ((gaussianReal 0 1).prod (gaussianReal 0 1)))).prod
      ((gammaMeasure ((d : ℝ) / 4) 1).prod ((gammaMeasure ((d : ℝ) / 4) 1).prod
        ((gammaMeasure ((d : ℝ) / 4) 1).prod (gammaMeasure ((d : ℝ) / 4) 1))))).map
      (fun p : (Fin d → ℝ × ℝ × ℝ × ℝ) × ℝ × ℝ × ℝ × ℝ =>
        vecNorm K.scale [p.2.1, p.2.2.1, p.2.2.2.1, p.2.2.2.2] •
          unitDir (WithLp.toLp 2 (fun j => half4 (p.1 j)) : EuclideanSpace ℝ (Fin d)))
      = ((sphereUniform (EuclideanSpace ℝ (Fin d))).prod (gammaMeasure (d : ℝ) (K.epsP / (2 * s)))).map
          (fun q : EuclideanSpace ℝ (Fin d) × ℝ => q.2 • q.1) := by
  intro K
  obtain ⟨hscale, hrate⟩ := calib_scale_rate eps c s alpha n he hc hs ha hn
  rw [← hrate]
  exact noise_full_map d hd (d : ℝ) K.scale (by exact_mod_cast hd) hscale

/-- non-vacuity: the hypotheses hold (fallback-branch parameters of §1, three coordinates) -/
example := noise_vector_law (1 / 10) (1 / 4) 1 1 1 3 (by norm_num) (by norm_num) (by norm_num) (by norm_num)
  (by norm_num) (by norm_num)

/-- the same in every one-vs-rest problem of a fit (`dim = n_features (+1)`, `s = data_sensitivity`, `ε′` the fit's) -/
theorem fit_noise_vector_law (eps C norm : ℝ) (k dim n : Nat) (ic : Bool) (he : 0 < eps) (hC : 0 < C)
    (hnorm : 0 ≤ norm) (hk : 2 ≤ k) (hn : 0 < n) (hpos : ic = false → 0 < norm ∧ 0 < dim) :
    let cs : CallSite ℝ := callSite eps C norm k dim n ic
    let K := fitCalib eps C norm k dim n ic
    ((Measure.pi fun _ : Fin cs.dim =>
        (gaussianReal 0 1).prod ((gaussianReal 0 1).prod ((gaussianReal 0 1).prod (gaussianReal 0 1)))).prod
      ((gammaMeasure ((cs.dim : ℝ) / 4) 1).prod ((gammaMeasure ((cs.dim : ℝ) / 4) 1).prod
        ((gammaMeasure ((cs.dim : ℝ) / 4) 1).prod (gammaMeasure ((cs.dim : ℝ) / 4) 1))))).map
      (fun p : (Fin cs.dim → ℝ × ℝ × ℝ × ℝ) × ℝ × ℝ × ℝ × ℝ =>
        vecNorm K.scale [p.2.1, p.2.2.1, p.2.2.2.1, p.2.2.2.2] •
          unitDir (WithLp.toLp 2 (fun j => half4 (p.1 j)) : EuclideanSpace ℝ (Fin cs.dim)))
      = ((sphereUniform (EuclideanSpace ℝ (Fin cs.dim))).prod (gammaMeasure (cs.dim : ℝ) (K.epsP / (2 * cs.s)))).map
          (fun q : EuclideanSpace ℝ (Fin cs.dim) × ℝ => q.2 • q.1) := by
  intro cs K
  obtain ⟨hek, hc, hs, hal, hd⟩ := call_site_positive eps C norm k dim n ic he hC hk hpos
  exact noise_vector_law cs.eps cs.c cs.s cs.alpha cs.n cs.dim hek hc hs hal hn hd

/-- non-vacuity, both intercept settings -/
example := fit_noise_vector_law 1 1 1 2 3 10 true (by norm_num) (by norm_num) (by norm_num) (by norm_num)
  (by norm_num) (by simp)
example := fit_noise_vector_law 1 1 1 2 3 10 false (by norm_num) (by norm_num) (by norm_num) (by norm_num)
  (by norm_num) (by simp)

end DPL.C17
