/-
C17 — objective perturbation for logistic regression is calibrated as Chaudhuri–Monteleoni–Sarwate prove.

The statements are about the executable model `DPL/Model/LogReg.lean` (transcribed from
`models/logistic_regression.py` and `mechanisms/vector.py`; the same definitions the driver runs on doubles against
the real code), instantiated at ℝ; `expm1 x = exp x − 1`.

CITED, not re-proved: CMS (JMLR 2011) Theorem 9 — objective perturbation with the parameters of their Algorithm 2 is
ε-differentially private for a loss with |ℓ''| ≤ c and rows of norm ≤ 1 (here: rows of norm ≤ s, loss rescaled).  What is
proved here is that the code's parameters ARE those of Algorithm 2 (`cms_rule_as_printed`) and satisfy its accounting
identity (`cms_calibration`).
PROVED about the law of the noise vector b, on the real-number model, for INPUT draws with the ideal laws (independent
`Gamma(d/4, 1)` unit gammas = Mathlib's `gammaMeasure`, independent N(0,1) = `gaussianReal 0 1`):
  §5  `noise_norm_law` / `fit_noise_norm_law` — `noisy_norm` (four gamma draws) ~ Gamma(shape d, rate ε′/(2s)), i.e. scale
      2s/ε′, in both branches of the rule, generically and at the logistic-regression call site;
      `noise_vector_norm_law` — the same for the Euclidean norm ‖b‖ of the model's noise vector, whatever the direction draws;
  §6  `direction_coordinate_law`, `direction_coordinates_iid` — the direction vector is d i.i.d. N(0,1);
      `direction_rotation_invariant`, `direction_on_sphere` — its normalisation has a rotation-invariant law on the sphere;
      `sphere_invariant_measure_unique` — such a law is unique (not in Mathlib; proved here with characteristic functions);
      `direction_uniform` — hence b/‖b‖ is uniform on the sphere (= normalised surface measure `Measure.toSphere`);
      `noise_vector_law` / `fit_noise_vector_law` — b ~ r·u, u uniform on the sphere, r ~ Gamma(d, rate ε′/(2s)) independent
      (independence is by construction: norm and direction use separate draws, i.e. the input is a product measure);
      `direction_model_bridge`, `noise_vector_model_bridge` — the List ℝ model is the Euclidean vector, by coordinates.
NOT proved (validated statistically by the harness): that CPython's `random.gammavariate(d/4, ·)` / `normalvariate(0, 1)`
(on the rng the mechanism holds) produce draws with those Gamma / Normal laws, independent from call to call; and that the
floating-point evaluation does not distort them (the theorems are about the model over ℝ).  No measure is put on
`List ℝ`: the vector law is stated in `EuclideanSpace ℝ (Fin d)` and tied to the model's lists pointwise by the two bridges.
-/
import DPL.Proofs.SamplersLogReg
import DPL.Proofs.SamplersNoiseNorm
import DPL.Proofs.SamplersNoiseNormJoint
import DPL.Proofs.LogRegCMS2

namespace DPL.C17
open DPL DPL.Smp DPL.LogReg

/-! ### 1. the ε′ / Δ rule -/

/-- both branches of `Vector.randomise`: `0 < ε′`, `0 ≤ Δ`, the accounting identity
`ε′ + 2·log(1 + c·s/(α + n·Δ)) = ε`, and `scale = 2s/ε′` -/
theorem cms_calibration (eps c s alpha : ℝ) (n : Nat) (he : 0 < eps) (hc : 0 ≤ c) (hs : 0 ≤ s) (ha : 0 < alpha)
    (hn : 0 < n) :
    0 < (vectorCalib eps c s alpha n).epsP ∧
    0 ≤ (vectorCalib eps c s alpha n).delta ∧
    (vectorCalib eps c s alpha n).epsP
      + 2 * Real.log (1 + c * s / (alpha + n * (vectorCalib eps c s alpha n).delta)) = eps ∧
    (vectorCalib eps c s alpha n).scale = 2 * s / (vectorCalib eps c s alpha n).epsP := by
  have hnR : (0 : ℝ) < n := by exact_mod_cast hn
  have hcs : 0 ≤ c * s := mul_nonneg hc hs
  unfold vectorCalib
  simp only [transc_log, expm1, transc_exp]
  split_ifs with h
  · -- fallback branch
    set E := Real.exp (eps / 4) with hE
    have hE1 : 1 < E := by rw [hE]; exact Real.one_lt_exp_iff.mpr (by linarith)
    have hA : 0 < 1 + c * s / alpha := by positivity
    have h2 : Real.exp (eps / 2) ≤ 1 + c * s / alpha := by
      rw [← Real.le_log_iff_exp_le hA]; linarith
    have h3 : E ≤ Real.exp (eps / 2) := by rw [hE]; exact Real.exp_le_exp.mpr (by linarith)
    have h4 : E - 1 ≤ c * s / alpha := by linarith
    have h5 : alpha * (E - 1) ≤ c * s := by
      have := mul_le_mul_of_nonneg_left h4 ha.le
      rwa [mul_div_cancel₀ _ ha.ne'] at this
    have hE0 : 0 < E - 1 := by linarith
    have hcspos : 0 < c * s := lt_of_lt_of_le (mul_pos ha hE0) h5
    have h6 : alpha ≤ c * s / (E - 1) := by rw [le_div_iff₀ hE0]; exact h5
    refine ⟨by linarith, ?_, ?_, by ring⟩
    · exact div_nonneg (by linarith) hnR.le
    · have : alpha + n * ((c * s / (E - 1) - alpha) / n) = c * s / (E - 1) := by field_simp; ring
      rw [this]
      have : 1 + c * s / (c * s / (E - 1)) = E := by
        rw [div_div_eq_mul_div, mul_comm, mul_div_assoc, div_self hcspos.ne']; ring
      rw [this, hE, Real.log_exp]; ring
  · -- plain branch
    rw [not_le] at h
    refine ⟨h, le_refl _, ?_, by ring⟩
    simp only [mul_zero, add_zero]; ring

/-- non-vacuity of the fallback branch: parameters with `ε − 2 log(1 + cs/α) ≤ 0` exist (ε = 1/10, c = 1/4, s = 1, α = 1) -/
example : ∃ eps c s alpha : ℝ, 0 < eps ∧ 0 ≤ c ∧ 0 ≤ s ∧ 0 < alpha ∧ eps - 2 * Real.log (1 + c * s / alpha) ≤ 0 := by
  refine ⟨1 / 10, 1 / 4, 1, 1, by norm_num, by norm_num, by norm_num, by norm_num, ?_⟩
  have h : (1 / 20 : ℝ) ≤ Real.log (1 + 1 / 4 * 1 / 1) := by
    rw [Real.le_log_iff_exp_le (by norm_num)]
    have := Real.exp_bound_div_one_sub_of_interval' (x := 1 / 20) (by norm_num) (by norm_num)
    norm_num at this ⊢
    linarith
  linarith

/-- Algorithm 2 of CMS as printed, with loss-curvature bound `c`, regulariser `Λ`, `n` samples -/
def CMSRule (eps c lam : ℝ) (n : Nat) (epsP delta : ℝ) : Prop :=
  let e0 := eps - Real.log (1 + 2 * c / (n * lam) + c ^ 2 / (n ^ 2 * lam ^ 2))
  (0 < e0 ∧ epsP = e0 ∧ delta = 0) ∨
  (e0 ≤ 0 ∧ delta = c / (n * (Real.exp (eps / 4) - 1)) - lam ∧ epsP = eps / 2)

/-- the code's `(ε′, Δ)` are exactly Algorithm 2's for curvature bound `c·s` and `Λ = α/n` -/
theorem cms_rule_as_printed (eps c s alpha : ℝ) (n : Nat) (hc : 0 ≤ c) (hs : 0 ≤ s) (ha : 0 < alpha) (hn : 0 < n) :
    CMSRule eps (c * s) (alpha / n) n (vectorCalib eps c s alpha n).epsP (vectorCalib eps c s alpha n).delta := by
  have hnR : (0 : ℝ) < n := by exact_mod_cast hn
  have hcs : 0 ≤ c * s := mul_nonneg hc hs
  have hlog : Real.log (1 + 2 * (c * s) / (n * (alpha / n)) + (c * s) ^ 2 / ((n : ℝ) ^ 2 * (alpha / n) ^ 2))
      = 2 * Real.log (1 + c * s / alpha) := by
    have : 1 + 2 * (c * s) / (n * (alpha / n)) + (c * s) ^ 2 / ((n : ℝ) ^ 2 * (alpha / n) ^ 2)
        = (1 + c * s / alpha) ^ 2 := by field_simp; ring
    rw [this, Real.log_pow]; norm_num
  unfold CMSRule vectorCalib
  simp only [transc_log, expm1, transc_exp, hlog]
  split_ifs with h
  · right
    refine ⟨h, ?_, rfl⟩
    field_simp
  · left
    rw [not_le] at h
    exact ⟨h, rfl, rfl⟩

/-! ### 2. the call site -/

/-- the mechanism's regulariser `Λ = α/n` IS the objective's `l2_reg_strength` -/
theorem reg_strength_consistent (eps C norm : ℝ) (k d n : Nat) (ic : Bool) :
    (callSite eps C norm k d n ic).alpha / ((callSite eps C norm k d n ic).n : ℝ)
      = (callSite eps C norm k d n ic).l2 := by
  simp only [callSite]
  rw [div_div]

/-- the call site passes `c = ¼`, `α = 1/C`, `s = √(norm²+1)` with an intercept (else `norm`), dimension d (+1) -/
theorem call_site_arguments (eps C norm : ℝ) (k d n : Nat) :
    (callSite eps C norm k d n true).c = 1 / 4 ∧ (callSite eps C norm k d n true).alpha = 1 / C ∧
    (callSite eps C norm k d n true).s = Real.sqrt (norm ^ 2 + 1) ∧ (callSite eps C norm k d n false).s = norm ∧
    (callSite eps C norm k d n true).dim = d + 1 ∧ (callSite eps C norm k d n false).dim = d := by
  simp [callSite, dataNorm']

/-- the one-vs-rest problems share ε exactly: `k · (ε/k) = ε`, and two classes make ONE problem -/
theorem per_problem_split (eps : ℝ) (nClasses : Nat) (h : 2 ≤ nClasses) :
    (numProblems nClasses : ℝ) * perProblemEps eps nClasses = eps ∧ numProblems 2 = 1 ∧
    (nClasses ≠ 2 → numProblems nClasses = nClasses) := by
  refine ⟨?_, by simp [numProblems], fun hne => by simp [numProblems, hne]⟩
  have : (numProblems nClasses : ℝ) ≠ 0 := by
    unfold numProblems; split_ifs <;> simp; omega
  unfold perProblemEps
  field_simp

/-- the whole fit: with the regulariser the objective really uses (`l2_reg_strength`), every one-vs-rest problem
satisfies the CMS accounting identity for its share `ε/k` of the budget -/
theorem fit_calibration (eps C norm : ℝ) (k d n : Nat) (ic : Bool) (he : 0 < eps) (hC : 0 < C) (hnorm : 0 ≤ norm)
    (hk : 2 ≤ k) (hn : 0 < n) :
    let cs : CallSite ℝ := callSite eps C norm k d n ic
    let r := fitCalib eps C norm k d n ic
    0 < r.epsP ∧ 0 ≤ r.delta ∧
    r.epsP + 2 * Real.log (1 + cs.c * cs.s / ((n : ℝ) * (cs.l2 + r.delta))) = eps / (numProblems k : ℝ) ∧
    r.scale = 2 * cs.s / r.epsP := by
  intro cs r
  have hnR : (0 : ℝ) < n := by exact_mod_cast hn
  have hkR : (0 : ℝ) < (numProblems k : ℝ) := by
    unfold numProblems; split_ifs <;> simp; omega
  have hs : 0 ≤ cs.s := by
    simp only [cs, callSite, dataNorm']
    split_ifs
    · simp only [transc_sqrt]; exact Real.sqrt_nonneg _
    · exact hnorm
  have hal : 0 < cs.alpha := by simp only [cs, callSite]; positivity
  have hc : 0 ≤ cs.c := by simp only [cs, callSite]; norm_num
  have hek : 0 < cs.eps := by simp only [cs, callSite, perProblemEps]; positivity
  obtain ⟨h1, h2, h3, h4⟩ := cms_calibration cs.eps cs.c cs.s cs.alpha cs.n hek hc hs hal hn
  have hl2 : (n : ℝ) * (cs.l2 + r.delta) = cs.alpha + n * r.delta := by
    have : (n : ℝ) * cs.l2 = cs.alpha := by
      simp only [cs, callSite]; field_simp
    rw [mul_add, this]
  refine ⟨h1, h2, ?_, h4⟩
  rw [hl2]
  exact h3

/-! ### 3. the rows the optimiser sees -/

/-- after `clip_to_norm` every row has norm ≤ `data_norm` -/
theorem clipped_row_norm (row : List ℝ) (clip : ℝ) (hclip : 0 < clip) : norm2 (clipRow row clip) ≤ clip := by
  unfold clipRow
  simp only
  split_ifs with h
  · rw [norm2_div _ 1 one_pos, div_one]
    have := (div_lt_one hclip).mp h
    exact this.le
  · rw [not_lt] at h
    have hm : 0 < norm2 row / clip := lt_of_lt_of_le one_pos h
    rw [norm2_div _ _ hm]
    have hr : 0 < norm2 row := by
      by_contra hneg
      have : norm2 row = 0 := le_antisymm (not_lt.mp hneg) (norm2_nonneg row)
      rw [this, zero_div] at hm; exact lt_irrefl _ hm
    rw [div_div_eq_mul_div, mul_comm, mul_div_assoc, div_self hr.ne', mul_one]

/-- unclipped rows (norm ≤ clip) pass through unchanged -/
theorem clipRow_inside (row : List ℝ) (clip : ℝ) (h : norm2 row / clip < 1) : clipRow row clip = row := by
  unfold clipRow
  simp [h]

/-- with an intercept the loss sees `(x, 1)`, whose norm is at most the enlarged `data_sensitivity = √(norm²+1)` -/
theorem augmented_row_norm (row : List ℝ) (norm : ℝ) (h : norm2 row ≤ norm) :
    norm2 (augment row) ≤ dataNorm' norm true := by
  unfold augment dataNorm'
  simp only [↓reduceIte, transc_sqrt, transc_pow]
  unfold norm2
  simp only [transc_sqrt]
  rw [sumSq_append_one]
  apply Real.sqrt_le_sqrt
  have h0 := norm2_nonneg row
  have : sumSq row ≤ norm ^ 2 := by
    rw [← norm2_sq]; exact pow_le_pow_left₀ h0 h 2
  have h2 : norm ^ (2 : ℝ) = norm ^ 2 := by norm_num
  rw [h2]; linarith

/-! ### 4. the shape of the perturbation -/

/-- noisy objective − clean objective = `b·w/n + ½Δ‖w‖²`; noisy gradient = clean gradient + `b/n + Δw` -/
theorem perturbation_shape (f : List ℝ → ℝ) (g : List ℝ → List ℝ) (b : List ℝ) (delta : ℝ) (n : Nat) (w : List ℝ) :
    noisyObjective f b delta n w - f w = dot b w / n + 1 / 2 * delta * dot w w ∧
    noisyObjective f b delta n w - f w = perturbation b delta n w ∧
    noisyGradient g b delta n w = zipWith3 (fun gi bi wi => gi + (bi / (n : ℝ) + delta * wi)) (g w) b w ∧
    perturbationGrad b delta n w = List.zipWith (fun bi wi => bi / (n : ℝ) + delta * wi) b w := by
  refine ⟨?_, ?_, rfl, rfl⟩ <;> simp only [noisyObjective, perturbation] <;> ring

/-- `b/n + Δw` is the gradient of the perturbation: exact second-order expansion in any direction `h` -/
theorem perturbation_gradient (b w h : List ℝ) (delta : ℝ) (n : Nat) (h1 : b.length = w.length)
    (h2 : w.length = h.length) :
    perturbation b delta n (List.zipWith (· + ·) w h) - perturbation b delta n w
      = dot (perturbationGrad b delta n w) h + 1 / 2 * delta * dot h h := by
  unfold perturbation perturbationGrad
  have hwh : (List.zipWith (· + ·) w h).length = h.length := by simp [h2]
  rw [dot_add_right b w h h2, dot_add_right _ w h h2, dot_comm (List.zipWith (· + ·) w h) w,
    dot_comm (List.zipWith (· + ·) w h) h, dot_add_right w w h h2, dot_add_right h w h h2,
    dot_zipWith_left b w h _ _ h1 h2, dot_comm h w]
  ring

/-! ### 5. the law of the noise norm -/

/-- consequence of `cms_calibration` for `s > 0`: the gamma scale is positive and its inverse is the rate `ε′/(2s)` -/
theorem calib_scale_rate (eps c s alpha : ℝ) (n : Nat) (he : 0 < eps) (hc : 0 ≤ c) (hs : 0 < s) (ha : 0 < alpha)
    (hn : 0 < n) :
    0 < (vectorCalib eps c s alpha n).scale ∧
    1 / (vectorCalib eps c s alpha n).scale = (vectorCalib eps c s alpha n).epsP / (2 * s) := by
  obtain ⟨h1, -, -, h4⟩ := cms_calibration eps c s alpha n he hc hs.le ha hn
  refine ⟨?_, ?_⟩
  · rw [h4]; exact div_pos (by positivity) h1
  · rw [h4, one_div, inv_div]

/-- at the call site every hypothesis of the calibration holds: `ε/k > 0`, `c = ¼ ≥ 0`, `α = 1/C > 0`, and — with an
intercept always, without one when `0 < data_norm` and `0 < n_features` — `s > 0` and `dim ≥ 1` -/
theorem call_site_positive (eps C norm : ℝ) (k dim n : Nat) (ic : Bool) (he : 0 < eps) (hC : 0 < C) (hk : 2 ≤ k)
    (hpos : ic = false → 0 < norm ∧ 0 < dim) :
    let cs : CallSite ℝ := callSite eps C norm k dim n ic
    0 < cs.eps ∧ 0 ≤ cs.c ∧ 0 < cs.s ∧ 0 < cs.alpha ∧ 0 < cs.dim := by
  intro cs
  have hkR : (0 : ℝ) < (numProblems k : ℝ) := by
    unfold numProblems; split_ifs <;> simp; omega
  have hs : 0 < cs.s := by
    simp only [cs, callSite, dataNorm']
    split_ifs with h
    · simp only [transc_sqrt, transc_pow]
      apply Real.sqrt_pos.mpr
      have h2 : norm ^ (2 : ℝ) = norm ^ 2 := by norm_num
      rw [h2]; positivity
    · exact (hpos (by simpa using h)).1
  have hd : 0 < cs.dim := by
    simp only [cs, callSite]
    split_ifs with h
    · omega
    · have := (hpos (by simpa using h)).2
      omega
  have hal : 0 < cs.alpha := by simp only [cs, callSite]; positivity
  have hc : 0 ≤ cs.c := by simp only [cs, callSite]; norm_num
  have hek : 0 < cs.eps := by simp only [cs, callSite, perProblemEps]; positivity
  exact ⟨hek, hc, hs, hal, hd⟩

/-- non-vacuity of `hpos`: without an intercept and with `data_norm = 0` the sensitivity `s` IS 0 (no gamma law) -/
example : (callSite (1 : ℝ) 1 0 2 3 10 false).s = 0 := by simp [callSite, dataNorm']

open MeasureTheory ProbabilityTheory in
/-- **‖b‖ ~ Gamma(d, scale 2s/ε′)** in BOTH branches of the rule: `noisy_norm = sum(gammavariate(d/4, scale) for _ in
range(4))` — the model's `vecNorm K.scale` of four independent unit gammas `Gamma(d/4, rate 1)` — has the law
`Gamma(shape d, rate ε′/(2s))` with the `ε′` the rule actually chose (`K.epsP`), which is what CMS Algorithm 2 asks of
the norm of `b`.  (`gammaMeasure a r` is Mathlib's gamma law with shape `a` and RATE `r`.) -/
theorem noise_norm_law (eps c s alpha : ℝ) (n : Nat) (d : ℝ) (he : 0 < eps) (hc : 0 ≤ c) (hs : 0 < s)
    (ha : 0 < alpha) (hn : 0 < n) (hd : 0 < d) :
    let K := vectorCalib eps c s alpha n
    ((gammaMeasure (d / 4) 1).prod ((gammaMeasure (d / 4) 1).prod ((gammaMeasure (d / 4) 1).prod
        (gammaMeasure (d / 4) 1)))).map
      (fun g : ℝ × ℝ × ℝ × ℝ => vecNorm K.scale [g.1, g.2.1, g.2.2.1, g.2.2.2])
      = gammaMeasure d (K.epsP / (2 * s)) := by
  intro K
  obtain ⟨hscale, hrate⟩ := calib_scale_rate eps c s alpha n he hc hs ha hn
  rw [← hrate]
  exact gamma_sum_map d K.scale hd hscale

/-- non-vacuity: the hypotheses hold in the fallback branch (the parameters of the example of §1) … -/
example := noise_norm_law (1 / 10) (1 / 4) 1 1 1 4 (by norm_num) (by norm_num) (by norm_num) (by norm_num)
  (by norm_num) (by norm_num)

/-- … and in the plain branch, where (c = 0) the rate is `ε/(2s)` itself -/
example : (vectorCalib (1 : ℝ) 0 1 1 1).epsP / (2 * 1) = 1 / 2 ∧ (vectorCalib (1 : ℝ) 0 1 1 1).scale = 2 := by
  norm_num [vectorCalib]

open MeasureTheory ProbabilityTheory in
/-- the same at the logistic-regression call site: in every one-vs-rest problem of a fit the norm of the noise vector
has the law `Gamma(dim, rate ε′/(2s))` with `dim = n_features (+1 with an intercept)`, `s = data_sensitivity` and `ε′`
the fit's own `epsilon_p`.  With an intercept `s = √(norm²+1) > 0` and `dim ≥ 1` always; without one, `0 < norm` and
`0 < n_features` are needed. -/
theorem fit_noise_norm_law (eps C norm : ℝ) (k dim n : Nat) (ic : Bool) (he : 0 < eps) (hC : 0 < C)
    (hnorm : 0 ≤ norm) (hk : 2 ≤ k) (hn : 0 < n) (hpos : ic = false → 0 < norm ∧ 0 < dim) :
    let cs : CallSite ℝ := callSite eps C norm k dim n ic
    let K := fitCalib eps C norm k dim n ic
    ((gammaMeasure ((cs.dim : ℝ) / 4) 1).prod ((gammaMeasure ((cs.dim : ℝ) / 4) 1).prod
        ((gammaMeasure ((cs.dim : ℝ) / 4) 1).prod (gammaMeasure ((cs.dim : ℝ) / 4) 1)))).map
      (fun g : ℝ × ℝ × ℝ × ℝ => vecNorm K.scale [g.1, g.2.1, g.2.2.1, g.2.2.2])
      = gammaMeasure (cs.dim : ℝ) (K.epsP / (2 * cs.s)) := by
  intro cs K
  obtain ⟨hek, hc, hs, hal, hd⟩ := call_site_positive eps C norm k dim n ic he hC hk hpos
  exact noise_norm_law cs.eps cs.c cs.s cs.alpha cs.n (cs.dim : ℝ) hek hc hs hal hn (by exact_mod_cast hd)

/-- non-vacuity, both intercept settings (ε = 1, C = 1, data_norm = 1, two classes, three features, ten samples) -/
example := fit_noise_norm_law 1 1 1 2 3 10 true (by norm_num) (by norm_num) (by norm_num) (by norm_num)
  (by norm_num) (by simp)
example := fit_noise_norm_law 1 1 1 2 3 10 false (by norm_num) (by norm_num) (by norm_num) (by norm_num)
  (by norm_num) (by simp)

open MeasureTheory ProbabilityTheory in
/-- **the Euclidean norm of the noise vector itself** — `np.linalg.norm` of the model's
`vecNoise K.scale normals gammas = direction / ‖direction‖ · noisy_norm` — has the law `Gamma(d, rate ε′/(2s))` for EVERY
fixed non-degenerate outcome of the direction draws: a gamma draw is a.s. ≥ 0, so `‖b‖ = noisy_norm` almost surely
(`vecNoise_norm_eq`).  In particular the law of ‖b‖ does not depend on the direction draws. -/
theorem noise_vector_norm_law (eps c s alpha : ℝ) (n : Nat) (d : ℝ) (he : 0 < eps) (hc : 0 ≤ c) (hs : 0 < s)
    (ha : 0 < alpha) (hn : 0 < n) (hd : 0 < d) (normals : List ℝ) (hdir : norm2 (vecDir normals) ≠ 0) :
    let K := vectorCalib eps c s alpha n
    ((gammaMeasure (d / 4) 1).prod ((gammaMeasure (d / 4) 1).prod ((gammaMeasure (d / 4) 1).prod
        (gammaMeasure (d / 4) 1)))).map
      (fun g : ℝ × ℝ × ℝ × ℝ => norm2 (vecNoise K.scale normals [g.1, g.2.1, g.2.2.1, g.2.2.2]))
      = gammaMeasure d (K.epsP / (2 * s)) := by
  intro K
  obtain ⟨hscale, hrate⟩ := calib_scale_rate eps c s alpha n he hc hs ha hn
  rw [← hrate]
  exact gamma_sum_map_noise d K.scale hd hscale normals hdir

/-- non-vacuity: four draws equal to 1 give the direction `[2]`, of norm 2 -/
example : norm2 (vecDir [(1 : ℝ), 1, 1, 1]) ≠ 0 := by
  simp only [vecDir, norm2, sumSq, List.foldl, transc_sqrt]
  rw [Real.sqrt_ne_zero'] ; norm_num

/-! ### 6. the direction of the noise, and the law of the whole noise vector

`normed_noisy_vector = np.reshape(normals, (-1, 4)).sum(axis=1) / 2` (the model's `vecDir`): coordinate `i` is
`(n₄ᵢ + n₄ᵢ₊₁ + n₄ᵢ₊₂ + n₄ᵢ₊₃)/2` of its OWN four `normalvariate(0,1)` draws (`direction_draws`), hence standard normal
(`direction_coordinate_law`); the coordinates use disjoint draws, so the direction vector is `d` i.i.d. N(0,1)
(`direction_coordinates_iid`), i.e. `stdGaussian (EuclideanSpace ℝ (Fin d))` read by coordinates (Mathlib's
`map_pi_eq_stdGaussian`, used in `direction_iid_law`).  The bridge `List ℝ ↔ EuclideanSpace` is by coordinates
(`direction_model_bridge`, `noise_vector_model_bridge`).  `unitDir x = ‖x‖⁻¹ • x`, `half4 n = (n₁+n₂+n₃+n₄)/2` and
`quad n = [n₁,n₂,n₃,n₄]` are defined in `DPL/Proofs/SamplersNoiseNorm*.lean`. -/

open MeasureTheory ProbabilityTheory

/-- every coordinate of the direction consumes its own four normal draws; on `4·d` draws grouped in fours the direction
is the list of the `d` half-sums -/
theorem direction_draws (a b c d : ℝ) (rest : List ℝ) (l : List (ℝ × ℝ × ℝ × ℝ)) :
    vecDir (a :: b :: c :: d :: rest) = (a + b + c + d) / 2 :: vecDir rest ∧
    vecDir (l.flatMap quad) = l.map half4 :=
  ⟨vecDir_cons4 a b c d rest, vecDir_flatMap l⟩

/-- `(n₁+n₂+n₃+n₄)/2` of four independent standard normals is standard normal -/
theorem direction_coordinate_law :
    ((gaussianReal 0 1).prod ((gaussianReal 0 1).prod ((gaussianReal 0 1).prod (gaussianReal 0 1)))).map
      (fun n : ℝ × ℝ × ℝ × ℝ => (n.1 + n.2.1 + n.2.2.1 + n.2.2.2) / 2) = gaussianReal 0 1 :=
  gauss4_half_map

/-- `d` groups of four independent standard normals give `d` INDEPENDENT standard normal coordinates -/
theorem direction_coordinates_iid (d : ℕ) :
    (Measure.pi fun _ : Fin d =>
        (gaussianReal 0 1).prod ((gaussianReal 0 1).prod ((gaussianReal 0 1).prod (gaussianReal 0 1)))).map
      (fun x i => half4 (x i)) = Measure.pi fun _ : Fin d => gaussianReal 0 1 :=
  gauss4_half_pi d

/-- the model's `norm2` is the Euclidean norm, and the model's unit direction `v / ‖v‖` (which `vecNoise` multiplies by
`noisy_norm`) is `unitDir x = ‖x‖⁻¹ • x` of `EuclideanSpace ℝ (Fin d)`, coordinate by coordinate -/
theorem direction_model_bridge {d : ℕ} (x : Fin d → ℝ) :
    norm2 (List.ofFn x) = ‖(WithLp.toLp 2 x : EuclideanSpace ℝ (Fin d))‖ ∧
    (List.ofFn x).map (fun c => c / norm2 (List.ofFn x))
      = List.ofFn (fun i => (unitDir (WithLp.toLp 2 x : EuclideanSpace ℝ (Fin d))) i) :=
  ⟨norm2_ofFn x, modelDir_ofFn x⟩

/-- the direction of `d` i.i.d. N(0,1) coordinates has the law of the direction of a standard Gaussian vector -/
theorem direction_iid_law (d : ℕ) :
    (Measure.pi (fun _ : Fin d => gaussianReal 0 1)).map
        (fun x => unitDir (WithLp.toLp 2 x : EuclideanSpace ℝ (Fin d)))
      = (stdGaussian (EuclideanSpace ℝ (Fin d))).map unitDir := by
  rw [← map_pi_eq_stdGaussian, Measure.map_map measurable_unitDir (by fun_prop)]
  rfl

/-- **rotation invariance**: the law of the direction `x/‖x‖` of a standard Gaussian vector is invariant under every
linear isometry (rotation or reflection) `f` of the space — because `dir (f x) = f (dir x)` and the standard Gaussian is
itself invariant (`stdGaussian_map`). -/
theorem direction_rotation_invariant (d : ℕ)
    (f : EuclideanSpace ℝ (Fin d) ≃ₗᵢ[ℝ] EuclideanSpace ℝ (Fin d)) :
    ((stdGaussian (EuclideanSpace ℝ (Fin d))).map unitDir).map f
      = (stdGaussian (EuclideanSpace ℝ (Fin d))).map unitDir :=
  stdGaussian_dir_map f

/-- the direction is almost surely a unit vector (a standard Gaussian vector in dimension ≥ 1 is a.s. non-zero): its law
is a probability measure carried by the unit sphere -/
theorem direction_on_sphere (d : ℕ) (hd : 0 < d) :
    (stdGaussian (EuclideanSpace ℝ (Fin d))).map unitDir (Metric.sphere (0 : EuclideanSpace ℝ (Fin d)) 1)ᶜ = 0 ∧
    IsProbabilityMeasure ((stdGaussian (EuclideanSpace ℝ (Fin d))).map unitDir) := by
  have : Nonempty (Fin d) := ⟨⟨0, hd⟩⟩
  have : Nontrivial (EuclideanSpace ℝ (Fin d)) := inferInstance
  exact ⟨stdGaussian_dir_sphere, Measure.isProbabilityMeasure_map measurable_unitDir.aemeasurable⟩

/-- the sphere statement needs `0 < d`: the zero vector has no direction (`unitDir 0 = 0`) -/
example : unitDir (0 : EuclideanSpace ℝ (Fin 3)) = 0 := by simp [unitDir]

/-- **uniqueness of the rotation-invariant law on the sphere** (not in Mathlib; proved in
`DPL/Proofs/SamplersNoiseNormUnique.lean` with characteristic functions: two vectors of equal norm are exchanged by a
reflection, so the characteristic function of an invariant measure is radial; averaging it over the other measure gives
an expression symmetric in the two measures by Fubini): a probability measure carried by the unit sphere of a
finite-dimensional real inner product space and invariant under every linear isometry is unique -/
theorem sphere_invariant_measure_unique {E : Type*} [NormedAddCommGroup E] [InnerProductSpace ℝ E]
    [FiniteDimensional ℝ E] [MeasurableSpace E] [BorelSpace E] (μ ν : Measure E)
    [IsProbabilityMeasure μ] [IsProbabilityMeasure ν]
    (hμs : μ (Metric.sphere (0 : E) 1)ᶜ = 0) (hνs : ν (Metric.sphere (0 : E) 1)ᶜ = 0)
    (hμ : ∀ f : E ≃ₗᵢ[ℝ] E, μ.map f = μ) (hν : ∀ f : E ≃ₗᵢ[ℝ] E, ν.map f = ν) : μ = ν :=
  sphere_invariant_unique hμs hνs hμ hν

/-- the uniform law on the sphere: `sphereUniform E` IS the normalised surface measure (Mathlib's `Measure.toSphere` of
Lebesgue measure) pushed to the ambient space; it is a probability measure, carried by the unit sphere, and invariant
under every linear isometry — so the hypotheses of `sphere_invariant_measure_unique` are satisfiable -/
theorem surface_measure (d : ℕ) (hd : 0 < d) :
    sphereUniform (EuclideanSpace ℝ (Fin d))
      = (((volume : Measure (EuclideanSpace ℝ (Fin d))).toSphere Set.univ)⁻¹
          • (volume : Measure (EuclideanSpace ℝ (Fin d))).toSphere).map Subtype.val ∧
    IsProbabilityMeasure (sphereUniform (EuclideanSpace ℝ (Fin d))) ∧
    sphereUniform (EuclideanSpace ℝ (Fin d)) (Metric.sphere (0 : EuclideanSpace ℝ (Fin d)) 1)ᶜ = 0 ∧
    ∀ f : EuclideanSpace ℝ (Fin d) ≃ₗᵢ[ℝ] EuclideanSpace ℝ (Fin d),
      (sphereUniform (EuclideanSpace ℝ (Fin d))).map f = sphereUniform (EuclideanSpace ℝ (Fin d)) := by
  have : Nonempty (Fin d) := ⟨⟨0, hd⟩⟩
  have : Nontrivial (EuclideanSpace ℝ (Fin d)) := inferInstance
  exact ⟨rfl, isProbabilityMeasure_sphereUniform, sphereUniform_sphere, sphereUniform_map⟩

/-- **the direction is uniform on the sphere**: the law of `x/‖x‖` for a standard Gaussian vector `x` (= `d` i.i.d.
N(0,1) coordinates, `direction_iid_law`) is the normalised surface measure of the unit sphere -/
theorem direction_uniform (d : ℕ) (hd : 0 < d) :
    (stdGaussian (EuclideanSpace ℝ (Fin d))).map unitDir
      = (((volume : Measure (EuclideanSpace ℝ (Fin d))).toSphere Set.univ)⁻¹
          • (volume : Measure (EuclideanSpace ℝ (Fin d))).toSphere).map Subtype.val := by
  have : Nonempty (Fin d) := ⟨⟨0, hd⟩⟩
  have : Nontrivial (EuclideanSpace ℝ (Fin d)) := inferInstance
  exact stdGaussian_dir_uniform

/-- **pointwise bridge for the whole vector**: on `4·d` normal draws grouped in fours (`x i` = group `i`) and unit
gammas `gs`, the model's noise vector `vecNoise scale normals gs` is the Euclidean vector
`vecNorm scale gs • unitDir z`, `z i = half4 (x i)`, read by coordinates -/
theorem noise_vector_model_bridge {d : ℕ} (scale : ℝ) (x : Fin d → ℝ × ℝ × ℝ × ℝ) (gs : List ℝ) :
    vecNoise scale ((List.ofFn x).flatMap quad) gs
      = List.ofFn (fun i => (vecNorm scale gs •
          unitDir (WithLp.toLp 2 (fun j => half4 (x j)) : EuclideanSpace ℝ (Fin d))) i) :=
  vecNoise_ofFn scale x gs

/-- **the law of the noise vector `b`**, from the raw draws: `4·d` independent `normalvariate(0,1)` (grouped in fours)
and, independently, four unit gammas `Gamma(d/4, 1)`.  The vector `vecNorm K.scale g • unitDir z` — which IS the model's
`vecNoise` by `noise_vector_model_bridge` — has the law of `r • u` with `u` uniform on the unit sphere of `ℝ^d` and,
independently, `r ~ Gamma(d, rate ε′/(2s))`: exactly the noise of CMS Algorithm 2 (density ∝ `exp(−ε′‖b‖/(2s))`), in both
branches of the rule.  Independence of norm and direction is by construction (separate draws = product measure). -/
theorem noise_vector_law (eps c s alpha : ℝ) (n : Nat) (d : ℕ) (he : 0 < eps) (hc : 0 ≤ c) (hs : 0 < s)
    (ha : 0 < alpha) (hn : 0 < n) (hd : 0 < d) :
    let K := vectorCalib eps c s alpha n
    ((Measure.pi fun _ : Fin d =>
        (gaussianReal 0 1).prod ((gaussianReal 0 1).prod ((gaussianReal 0 1).prod (gaussianReal 0 1)))).prod
      ((gammaMeasure ((d : ℝ) / 4) 1).prod ((gammaMeasure ((d : ℝ) / 4) 1).prod
        ((gammaMeasure ((d : ℝ) / 4) 1).prod (gammaMeasure ((d : ℝ) / 4) 1))))).map
      (fun p : (Fin d → ℝ × ℝ × ℝ × ℝ) × ℝ × ℝ × ℝ × ℝ =>
        vecNorm K.scale [p.2.1, p.2.2.1, p.2.2.2.1, p.2.2.2.2] •
          unitDir (WithLp.toLp 2 (fun j => half4 (p.1 j)) : EuclideanSpace ℝ (Fin d)))
      = ((sphereUniform (EuclideanSpace ℝ (Fin d))).prod (gammaMeasure (d : ℝ) (K.epsP / (2 * s)))).map
          (fun q : EuclideanSpace ℝ (Fin d) × ℝ => q.2 • q.1) := by
  intro K
  obtain ⟨hscale, hrate⟩ := calib_scale_rate eps c s alpha n he hc hs ha hn
  rw [← hrate]
  exact noise_full_map d hd (d : ℝ) K.scale (by exact_mod_cast hd) hscale

/-- non-vacuity: the hypotheses hold (fallback-branch parameters of §1, three coordinates) -/
example := noise_vector_law (1 / 10) (1 / 4) 1 1 1 3 (by norm_num) (by norm_num) (by norm_num) (by norm_num)
  (by norm_num) (by norm_num)

/-- the same in every one-vs-rest problem of a fit (`dim = n_features (+1)`, `s = data_sensitivity`, `ε′` the fit's) -/
theorem fit_noise_vector_law (eps C norm : ℝ) (k dim n : Nat) (ic : Bool) (he : 0 < eps) (hC : 0 < C)
    (hnorm : 0 ≤ norm) (hk : 2 ≤ k) (hn : 0 < n) (hpos : ic = false → 0 < norm ∧ 0 < dim) :
    let cs : CallSite ℝ := callSite eps C norm k dim n ic
    let K := fitCalib eps C norm k dim n ic
    ((Measure.pi fun _ : Fin cs.dim =>
        (gaussianReal 0 1).prod ((gaussianReal 0 1).prod ((gaussianReal 0 1).prod (gaussianReal 0 1)))).prod
      ((gammaMeasure ((cs.dim : ℝ) / 4) 1).prod ((gammaMeasure ((cs.dim : ℝ) / 4) 1).prod
        ((gammaMeasure ((cs.dim : ℝ) / 4) 1).prod (gammaMeasure ((cs.dim : ℝ) / 4) 1))))).map
      (fun p : (Fin cs.dim → ℝ × ℝ × ℝ × ℝ) × ℝ × ℝ × ℝ × ℝ =>
        vecNorm K.scale [p.2.1, p.2.2.1, p.2.2.2.1, p.2.2.2.2] •
          unitDir (WithLp.toLp 2 (fun j => half4 (p.1 j)) : EuclideanSpace ℝ (Fin cs.dim)))
      = ((sphereUniform (EuclideanSpace ℝ (Fin cs.dim))).prod (gammaMeasure (cs.dim : ℝ) (K.epsP / (2 * cs.s)))).map
          (fun q : EuclideanSpace ℝ (Fin cs.dim) × ℝ => q.2 • q.1) := by
  intro cs K
  obtain ⟨hek, hc, hs, hal, hd⟩ := call_site_positive eps C norm k dim n ic he hC hk hpos
  exact noise_vector_law cs.eps cs.c cs.s cs.alpha cs.n cs.dim hek hc hs hal hn hd

/-- non-vacuity, both intercept settings -/
example := fit_noise_vector_law 1 1 1 2 3 10 true (by norm_num) (by norm_num) (by norm_num) (by norm_num)
  (by norm_num) (by simp)
example := fit_noise_vector_law 1 1 1 2 3 10 false (by norm_num) (by norm_num) (by norm_num) (by norm_num)
  (by norm_num) (by simp)

/-! ### 7. towards CMS Theorem 9 itself (was: cited)

What the proof of CMS Theorem 9 needs, and what is now a theorem:
  (a) the loss is convex, differentiable, `|ℓ′| ≤ 1`, `0 ≤ ℓ″ ≤ c` — `logistic_loss_hypotheses`, with `c = ¼` the code's
      `function_sensitivity` (`logistic_c_is_quarter`);
  (b) noise-density ratio ≤ `e^{ε′}` for the density `∝ e^{−ε′‖b‖/(2s)}` that `noise_vector_law` proves the sampler has —
      `per_record_gradient_bound`, `noise_vectors_close`, `noise_density_ratio_le`;
  (c) Jacobian ratio ≤ `(1 + c·s²/(n(Λ+Δ)))²` (CMS Lemma 10) — proved in rank one (`rank_one_jacobian`, bound ATTAINED) and
      in dimension one; in general it stays a hypothesis of `cms_theorem9_reduced`;
  (d) the budget split `e^{ε′}·(1 + c·s²/(α+nΔ))² ≤ e^{ε}` — `cms_privacy_budget_split`, for `s ≤ 1` ONLY: the code pays for
      `c·s/α` where the Jacobian costs `c·s²/α`, so for `s > 1` the split FAILS (`cms_privacy_budget_split_cex`); with an
      intercept `s = √(norm²+1) > 1` whenever `norm > 0` (`call_site_intercept_s_gt_one`);
  (e) the change-of-variables formula for the minimiser map — hypothesis `CMS.ChangeOfVariables` (CMS Section 3.3).
`cms_theorem9_reduced` assembles (a)–(e); `cms_theorem9_reduced_dim_one` needs (e) only.  `cms_density_cex`: for `s = 10` the
change-of-variables densities themselves differ by more than `e^{ε}` at a point (so the gap for `s > 1` is in the release, not
only in the proof).  `cms_theorem9_full` (a `def … : Prop`) is the unconditional statement, not proved. -/

section CMS9
open CMS MeasureTheory

/-- the hypotheses of CMS Theorem 9 on the loss hold for `ℓ(z) = log(1 + e^{−z})`: differentiable with
`ℓ′ = −1/(1+e^z) ∈ (−1, 0)`, twice differentiable with `ℓ″ = e^z/(1+e^z)² ∈ (0, ¼]`, convex -/
theorem logistic_loss_hypotheses :
    (∀ z, HasDerivAt logistic (-1 / (1 + Real.exp z)) z) ∧
    (∀ z, HasDerivAt (fun t => -1 / (1 + Real.exp t)) (Real.exp z / (1 + Real.exp z) ^ 2) z) ∧
    (∀ z : ℝ, -1 < -1 / (1 + Real.exp z) ∧ -1 / (1 + Real.exp z) < 0 ∧ |(-1) / (1 + Real.exp z)| ≤ 1) ∧
    (∀ z : ℝ, 0 < Real.exp z / (1 + Real.exp z) ^ 2 ∧ Real.exp z / (1 + Real.exp z) ^ 2 ≤ 1 / 4) ∧
    ConvexOn ℝ Set.univ logistic ∧ StrictConvexOn ℝ Set.univ logistic :=
  ⟨hasDerivAt_logistic, hasDerivAt_logistic',
    fun z => ⟨logistic'_gt z, logistic'_neg z, abs_logistic'_le z⟩,
    fun z => ⟨logistic''_pos z, logistic''_le z⟩, convexOn_logistic, strictConvexOn_logistic⟩

/-- `function_sensitivity = 0.25` at the call site IS the curvature bound of the logistic loss, and it is the best one
(attained at margin 0) -/
theorem logistic_c_is_quarter (eps C norm : ℝ) (k d n : Nat) (ic : Bool) :
    (callSite eps C norm k d n ic).c = 1 / 4 ∧
    (∀ z, logistic'' z ≤ (callSite eps C norm k d n ic).c) ∧
    logistic'' 0 = (callSite eps C norm k d n ic).c := by
  have h : (callSite eps C norm k d n ic).c = 1 / 4 := by simp [callSite]
  exact ⟨h, fun z => h ▸ logistic''_le z, h ▸ logistic''_zero⟩

/-- rows of norm ≤ s, labels ±1: the per-record gradient `ℓ′(y⟪w,x⟫)·y•x` (it IS the gradient: `CMS.recGrad_is_gradient`)
has norm ≤ s, and the per-record Hessian weight is in `(0, ¼]` -/
theorem per_record_gradient_bound {d : ℕ} (x w : EuclideanSpace ℝ (Fin d)) (y s : ℝ) (hx : ‖x‖ ≤ s)
    (hy : y = 1 ∨ y = -1) :
    ‖recGrad x y w‖ ≤ s ∧ 0 < recCurv x y w ∧ recCurv x y w ≤ 1 / 4 :=
  ⟨norm_recGrad_le x y w s hx hy, recCurv_bounds x y w hy⟩

/-- same minimiser `w` on neighbouring data sets (shared gradient sum `G`, differing records `(x,y)`, `(x',y')`): the two
noise vectors solving the stationarity equation `A•w + G + g + b = 0` are within `2s` -/
theorem noise_vectors_close {d : ℕ} (A s : ℝ) (w G x x' : EuclideanSpace ℝ (Fin d)) (y y' : ℝ)
    (hx : ‖x‖ ≤ s) (hx' : ‖x'‖ ≤ s) (hy : y = 1 ∨ y = -1) (hy' : y' = 1 ∨ y' = -1) :
    ‖noiseFor A w G (recGrad x y w) - noiseFor A w G (recGrad x' y' w)‖ ≤ 2 * s :=
  noiseFor_diff_le A s w G _ _ (norm_recGrad_le x y w s hx hy) (norm_recGrad_le x' y' w s hx' hy')

/-- the noise-density ratio step with the model's rate `β = ε′/(2s)` (the rate in `noise_vector_law`), both branches:
`ν(b) ≤ e^{ε′}·ν(b′)` whenever `‖b − b′‖ ≤ 2s`; and the general `ν(b)/ν(b′) ≤ e^{β‖b−b′‖}` -/
theorem noise_density_ratio_le {d : ℕ} (eps c s alpha : ℝ) (n : Nat) (he : 0 < eps) (hc : 0 ≤ c) (hs : 0 < s)
    (ha : 0 < alpha) (hn : 0 < n) (b b' : EuclideanSpace ℝ (Fin d)) :
    let K := vectorCalib eps c s alpha n
    Real.exp (-(K.epsP / (2 * s)) * ‖b‖) / Real.exp (-(K.epsP / (2 * s)) * ‖b'‖)
      ≤ Real.exp (K.epsP / (2 * s) * ‖b - b'‖) ∧
    (‖b - b'‖ ≤ 2 * s →
      Real.exp (-(K.epsP / (2 * s)) * ‖b‖) ≤ Real.exp K.epsP * Real.exp (-(K.epsP / (2 * s)) * ‖b'‖)) := by
  intro K
  obtain ⟨h1, -, -, -⟩ := cms_calibration eps c s alpha n he hc hs.le ha hn
  exact ⟨noise_density_ratio _ (div_nonneg h1.le (by positivity)) b b', noise_density_le K.epsP s h1.le hs b b'⟩

/-- what the code's rule pays for, exactly: `e^{ε′}·(1 + c·s/(α+nΔ))² = e^{ε}` (exponentiated `cms_calibration`) -/
theorem cms_budget_exact (eps c s alpha : ℝ) (n : Nat) (he : 0 < eps) (hc : 0 ≤ c) (hs : 0 ≤ s) (ha : 0 < alpha)
    (hn : 0 < n) :
    let K := vectorCalib eps c s alpha n
    0 < alpha + n * K.delta ∧
    Real.exp K.epsP * (1 + c * s / (alpha + n * K.delta)) ^ 2 = Real.exp eps := by
  intro K
  obtain ⟨-, h2, h3, -⟩ := cms_calibration eps c s alpha n he hc hs ha hn
  have hA : 0 < alpha + n * K.delta := by
    have : 0 ≤ (n : ℝ) * K.delta := mul_nonneg (Nat.cast_nonneg n) h2
    linarith
  have hX : 0 < 1 + c * s / (alpha + n * K.delta) := by
    have : 0 ≤ c * s / (alpha + n * K.delta) := div_nonneg (mul_nonneg hc hs) hA.le
    linarith
  refine ⟨hA, ?_⟩
  rw [← h3, Real.exp_add, two_mul, Real.exp_add, Real.exp_log hX]
  ring

/-- **budget split of CMS Theorem 9 for the model's calibration, rows of norm `s ≤ 1`**: noise ratio `e^{ε′}` times Jacobian
ratio `(1 + c·s²/(α+nΔ))²` (`α + nΔ = n(Λ+Δ)`) stays within `e^{ε}`, in both branches of the rule -/
theorem cms_privacy_budget_split (eps c s alpha : ℝ) (n : Nat) (he : 0 < eps) (hc : 0 ≤ c) (hs : 0 ≤ s) (hs1 : s ≤ 1)
    (ha : 0 < alpha) (hn : 0 < n) :
    let K := vectorCalib eps c s alpha n
    Real.exp K.epsP * (1 + c * s ^ 2 / (alpha + n * K.delta)) ^ 2 ≤ Real.exp eps := by
  intro K
  obtain ⟨hA, hE⟩ := cms_budget_exact eps c s alpha n he hc hs ha hn
  rw [← hE]
  apply mul_le_mul_of_nonneg_left _ (Real.exp_pos _).le
  have h1 : c * s ^ 2 / (alpha + n * K.delta) ≤ c * s / (alpha + n * K.delta) := by
    apply div_le_div_of_nonneg_right _ hA.le
    have : s ^ 2 ≤ s := by nlinarith
    exact mul_le_mul_of_nonneg_left this hc
  have h0 : 0 ≤ c * s ^ 2 / (alpha + n * K.delta) := div_nonneg (mul_nonneg hc (sq_nonneg s)) hA.le
  exact pow_le_pow_left₀ (by linarith) (by linarith) 2

/-- **for rows of norm `s > 1` the split FAILS** (any `c > 0`, both branches): the product of the two ratios that the CMS
proof bounds exceeds `e^{ε}` — the code charges `c·s/α` for a Jacobian that costs `c·s²/α` (`rank_one_jacobian`) -/
theorem cms_privacy_budget_split_cex (eps c s alpha : ℝ) (n : Nat) (he : 0 < eps) (hc : 0 < c) (hs1 : 1 < s)
    (ha : 0 < alpha) (hn : 0 < n) :
    let K := vectorCalib eps c s alpha n
    Real.exp eps < Real.exp K.epsP * (1 + c * s ^ 2 / (alpha + n * K.delta)) ^ 2 := by
  intro K
  have hs : 0 ≤ s := by linarith
  obtain ⟨hA, hE⟩ := cms_budget_exact eps c s alpha n he hc.le hs ha hn
  rw [← hE]
  apply mul_lt_mul_of_pos_left _ (Real.exp_pos _)
  have h1 : c * s / (alpha + n * K.delta) < c * s ^ 2 / (alpha + n * K.delta) := by
    apply div_lt_div_of_pos_right _ hA
    have : s < s ^ 2 := by nlinarith
    exact mul_lt_mul_of_pos_left this hc
  have h0 : 0 ≤ c * s / (alpha + n * K.delta) := div_nonneg (mul_nonneg hc.le hs) hA.le
  exact pow_lt_pow_left₀ (by linarith) (by linarith) (by norm_num)

/-- with an intercept the call site's `s` exceeds 1 as soon as `data_norm > 0`: the region of `cms_privacy_budget_split`
is left, that of `cms_privacy_budget_split_cex` entered -/
theorem call_site_intercept_s_gt_one (eps C norm : ℝ) (k d n : Nat) (hnorm : 0 < norm) :
    1 < (callSite eps C norm k d n true).s := by
  rw [(call_site_arguments eps C norm k d n).2.2.1]
  rw [Real.lt_sqrt (by norm_num)]
  have : 0 < norm ^ 2 := by positivity
  linarith

/-- CMS Lemma 10, rank-one case, as a determinant over `Matrix (Fin d) (Fin d) ℝ`: `det(I + u vᵀ) = 1 + v·u`; for one record's
Hessian `a·x xᵀ` (`0 ≤ a ≤ c`, `‖x‖² ≤ s²`) over `A·I`: `|det(I + (a/A) x xᵀ)| ≤ 1 + c·s²/A`, with EQUALITY at `a = c`, `‖x‖² = s²` -/
theorem rank_one_jacobian {d : ℕ} (u v x : Fin d → ℝ) (a A c s : ℝ) (hA : 0 < A) (ha : 0 ≤ a) (hac : a ≤ c)
    (hx : x ⬝ᵥ x ≤ s ^ 2) :
    (1 + Matrix.vecMulVec u v).det = 1 + v ⬝ᵥ u ∧
    |(1 + Matrix.vecMulVec ((a / A) • x) x).det| ≤ 1 + c * s ^ 2 / A ∧
    (x ⬝ᵥ x = s ^ 2 → (1 + Matrix.vecMulVec ((c / A) • x) x).det = 1 + c * s ^ 2 / A) :=
  ⟨det_one_add_rank_one u v, (det_rank_one_update x a A c s hA ha hac hx).2.2,
    fun h => det_rank_one_update_attained x A c s h⟩

/-- **CMS Theorem 9, reduced to the change of variables** — for the model's calibration `(ε′, Δ)` (both branches), rows of norm
`≤ s ≤ 1`, labels ±1, `c = ¼`: IF the released minimiser has the change-of-variables density on both neighbouring data sets
(`CMS.ChangeOfVariables`, noise density `Z·e^{−ε′‖b‖/(2s)}` = the law of `noise_vector_law`, noise maps from stationarity with
`A = α + nΔ`) and the Jacobians obey CMS Lemma 10 (`jac ≤ (1 + ¼s²/A)²·jac'`; proved here in rank one and in dimension one),
THEN the release is ε-DP.  Loss hypotheses, gradient bound, noise ratio and budget split are discharged. -/
theorem cms_theorem9_reduced {d : ℕ} (eps s alpha : ℝ) (n : Nat) (he : 0 < eps) (hs : 0 < s) (hs1 : s ≤ 1)
    (ha : 0 < alpha) (hn : 0 < n)
    (μ μ' : Measure (EuclideanSpace ℝ (Fin d))) (Z : ℝ) (hZ : 0 ≤ Z)
    (G : EuclideanSpace ℝ (Fin d) → EuclideanSpace ℝ (Fin d)) (x x' : EuclideanSpace ℝ (Fin d)) (y y' : ℝ)
    (hx : ‖x‖ ≤ s) (hx' : ‖x'‖ ≤ s) (hy : y = 1 ∨ y = -1) (hy' : y' = 1 ∨ y' = -1)
    (jac jac' : EuclideanSpace ℝ (Fin d) → ℝ) :
    let K := vectorCalib eps (1 / 4) s alpha n
    let A := alpha + n * K.delta
    ChangeOfVariables volume μ (K.epsP / (2 * s)) Z (fun w => noiseFor A w (G w) (recGrad x y w)) jac →
    ChangeOfVariables volume μ' (K.epsP / (2 * s)) Z (fun w => noiseFor A w (G w) (recGrad x' y' w)) jac' →
    (∀ w, 0 ≤ jac' w ∧ jac w ≤ (1 + 1 / 4 * s ^ 2 / A) ^ 2 * jac' w) →
    ∀ S, MeasurableSet S → μ S ≤ ENNReal.ofReal (Real.exp eps) * μ' S := by
  intro K A hcov hcov' hjac S hS
  obtain ⟨h1, -, -, -⟩ := cms_calibration eps (1 / 4) s alpha n he (by norm_num) hs.le ha hn
  exact dp_logistic_of_change_of_variables volume μ μ' eps K.epsP s Z _ A G x x' y y' jac jac' h1.le hs hZ
    (sq_nonneg _) hx hx' hy hy' hcov hcov' hjac
    (cms_privacy_budget_split eps (1 / 4) s alpha n he (by norm_num) hs.le hs1 ha hn) S hS

/-- non-vacuity: all hypotheses of `cms_theorem9_reduced` are satisfiable together (identical records, `jac = 1`) -/
example : ∃ (x x' : EuclideanSpace ℝ (Fin 2)) (jac jac' : EuclideanSpace ℝ (Fin 2) → ℝ),
    let K := vectorCalib (1 : ℝ) (1 / 4) 1 1 10
    let A := (1 : ℝ) + (10 : ℕ) * K.delta
    (‖x‖ ≤ 1 ∧ ‖x'‖ ≤ 1 ∧ ∀ w, 0 ≤ jac' w ∧ jac w ≤ (1 + 1 / 4 * (1 : ℝ) ^ 2 / A) ^ 2 * jac' w) ∧
    ∃ μ μ' : Measure (EuclideanSpace ℝ (Fin 2)),
      ChangeOfVariables volume μ (K.epsP / (2 * 1)) 1 (fun w => noiseFor A w 0 (recGrad x 1 w)) jac ∧
      ChangeOfVariables volume μ' (K.epsP / (2 * 1)) 1 (fun w => noiseFor A w 0 (recGrad x' 1 w)) jac' := by
  refine ⟨0, 0, fun _ => 1, fun _ => 1, ?_⟩
  intro K A
  refine ⟨⟨by simp, by simp, fun w => ⟨zero_le_one, ?_⟩⟩, _, _, rfl, rfl⟩
  obtain ⟨hA, -⟩ := cms_budget_exact 1 (1 / 4) 1 1 10 (by norm_num) (by norm_num) (by norm_num) (by norm_num)
    (by norm_num)
  have h0 : 0 ≤ 1 / 4 * (1 : ℝ) ^ 2 / A := div_nonneg (by norm_num) hA.le
  nlinarith

/-- **dimension one: only the change of variables is assumed.**  One feature, no intercept, rows `|x| ≤ s ≤ 1`: the Jacobians
are `A + M0 w + ℓ″(y·w·x)·x²` (`M0 ≥ 0` the shared records' curvature), Lemma 10 is `CMS.jacobian_ratio_dim_one` -/
theorem cms_theorem9_reduced_dim_one (eps s alpha : ℝ) (n : Nat) (he : 0 < eps) (hs : 0 < s) (hs1 : s ≤ 1)
    (ha : 0 < alpha) (hn : 0 < n) (μ μ' : Measure ℝ) (Z : ℝ) (hZ : 0 ≤ Z) (G M0 : ℝ → ℝ) (hM : ∀ w, 0 ≤ M0 w)
    (x x' y y' : ℝ) (hx : |x| ≤ s) (hx' : |x'| ≤ s) (hy : y = 1 ∨ y = -1) (hy' : y' = 1 ∨ y' = -1) :
    let K := vectorCalib eps (1 / 4) s alpha n
    let A := alpha + n * K.delta
    ChangeOfVariables volume μ (K.epsP / (2 * s)) Z (fun w => noiseFor A w (G w) (recGrad x y w))
      (fun w => A + M0 w + recCurv x y w * x ^ 2) →
    ChangeOfVariables volume μ' (K.epsP / (2 * s)) Z (fun w => noiseFor A w (G w) (recGrad x' y' w))
      (fun w => A + M0 w + recCurv x' y' w * x' ^ 2) →
    ∀ S, MeasurableSet S → μ S ≤ ENNReal.ofReal (Real.exp eps) * μ' S := by
  intro K A hcov hcov' S hS
  obtain ⟨h1, -, -, -⟩ := cms_calibration eps (1 / 4) s alpha n he (by norm_num) hs.le ha hn
  obtain ⟨hA, -⟩ := cms_budget_exact eps (1 / 4) s alpha n he (by norm_num) hs.le ha hn
  have hsplit := cms_privacy_budget_split eps (1 / 4) s alpha n he (by norm_num) hs.le hs1 ha hn
  refine dp_logistic_dim_one volume μ μ' eps K.epsP s Z A G M0 x x' y y' h1.le hs hZ hA hM hx hx' hy hy' hcov hcov'
    (le_trans ?_ hsplit) S hS
  apply mul_le_mul_of_nonneg_left _ (Real.exp_pos _).le
  have h0 : 0 ≤ 1 / 4 * s ^ 2 / A := div_nonneg (by positivity) hA.le
  nlinarith

/-- non-vacuity in dimension one: the two change-of-variables hypotheses hold for the measures they define -/
example : ∃ μ μ' : Measure ℝ,
    let K := vectorCalib (1 : ℝ) (1 / 4) 1 1 10
    let A := (1 : ℝ) + (10 : ℕ) * K.delta
    ChangeOfVariables volume μ (K.epsP / (2 * 1)) 1 (fun w => noiseFor A w 0 (recGrad (1 : ℝ) 1 w))
      (fun w => A + 0 + recCurv (1 : ℝ) 1 w * (1 : ℝ) ^ 2) ∧
    ChangeOfVariables volume μ' (K.epsP / (2 * 1)) 1 (fun w => noiseFor A w 0 (recGrad (0 : ℝ) (-1) w))
      (fun w => A + 0 + recCurv (0 : ℝ) (-1) w * (0 : ℝ) ^ 2) :=
  ⟨_, _, rfl, rfl⟩

/-- **not only the proof, the release itself**: one feature, no intercept, `data_norm = s = 10`, `C = 1` (α = 1), `n = 1`,
`ε = 2·log(7/2) + 1/10` (plain branch: `ε′ = 1/10`, `Δ = 0`), data sets `{(x,y) = (10, 1)}` and `{(0, 1)}`: at `w = 0` the
change-of-variables density of the first exceeds `e^{ε}` times that of the second (`26·e^{−1/40}` against `e^{ε} = 12.25·e^{1/10}`);
both densities are continuous in `w`, so — granted `CMS.ChangeOfVariables` — the release is NOT ε-DP for this `data_norm > 1` -/
theorem cms_density_cex :
    let eps : ℝ := 2 * Real.log (7 / 2) + 1 / 10
    let K := vectorCalib eps (1 / 4) 10 1 1
    let A : ℝ := 1 + (1 : ℕ) * K.delta
    Real.exp eps * (Real.exp (-(K.epsP / (2 * 10)) * ‖noiseFor A (0 : ℝ) 0 (recGrad (0 : ℝ) 1 0)‖)
        * (A + 0 + recCurv (0 : ℝ) 1 0 * (0 : ℝ) ^ 2))
      < Real.exp (-(K.epsP / (2 * 10)) * ‖noiseFor A (0 : ℝ) 0 (recGrad (10 : ℝ) 1 0)‖)
        * (A + 0 + recCurv (10 : ℝ) 1 0 * (10 : ℝ) ^ 2) := by
  intro eps K A
  have hX : (1 + 1 / 4 * 10 / 1 : ℝ) = 7 / 2 := by norm_num
  have hK : K.epsP = 1 / 10 ∧ K.delta = 0 := by
    have hne : ¬ (eps - 2 * Real.log (7 / 2) ≤ 0) := by simp only [eps]; norm_num
    simp only [K, vectorCalib, transc_log, hX, if_neg hne]
    exact ⟨by simp only [eps]; ring, trivial⟩
  have hA : A = 1 := by simp only [A, hK.2]; norm_num
  have hl' : logistic' 0 = -1 / 2 := by unfold logistic'; rw [Real.exp_zero]; norm_num
  have hg0 : noiseFor A (0 : ℝ) 0 (recGrad (0 : ℝ) 1 0) = 0 := by simp [noiseFor, recGrad]
  have hg1 : noiseFor A (0 : ℝ) 0 (recGrad (10 : ℝ) 1 0) = 5 := by
    simp only [noiseFor, recGrad, inner_zero_left, mul_zero, hl', smul_eq_mul]; norm_num
  have hc : recCurv (10 : ℝ) 1 0 = 1 / 4 := by
    simp only [recCurv, inner_zero_left, mul_zero, logistic''_zero]; norm_num
  rw [hg0, hg1, hc, hA, hK.1, norm_zero, mul_zero, Real.exp_zero]
  have h5 : ‖(5 : ℝ)‖ = 5 := by norm_num
  rw [h5]
  have he : Real.exp eps = 49 / 4 * Real.exp (1 / 10) := by
    simp only [eps]
    rw [Real.exp_add, two_mul, Real.exp_add, Real.exp_log (by norm_num)]; ring
  rw [he]
  have e1 : Real.exp (1 / 10) < 10 / 9 := by
    have := Real.exp_bound_div_one_sub_of_interval' (x := 1 / 10) (by norm_num) (by norm_num)
    norm_num at this ⊢; linarith
  have e2 : 39 / 40 ≤ Real.exp (-(1 / 10 / (2 * 10)) * 5) := by
    have := Real.add_one_le_exp (-(1 / 10 / (2 * 10)) * 5 : ℝ)
    norm_num at this ⊢; linarith
  nlinarith [Real.exp_pos (1 / 10)]

/-- the stationarity equation (times n) of the perturbed objective on the data set `D` (rows with labels), total quadratic
coefficient `A = α + nΔ`: `A•w + Σ_i ∇ℓ_i(w) + b = 0` -/
def Stationary {d : ℕ} (A : ℝ) (D : List (EuclideanSpace ℝ (Fin d) × ℝ)) (b w : EuclideanSpace ℝ (Fin d)) : Prop :=
  A • w + (D.map fun r => recGrad r.1 r.2 w).sum + b = 0

/-- **the full statement (NOT proved)**: CMS Theorem 9 for the model's calibration, unconditionally.  For rows of norm
`≤ s ≤ 1`, labels ±1, neighbouring data sets `r :: R`, `r' :: R`, noise `b` with the law of `noise_vector_law`, and `wOf`/`wOf'`
the (measurable) minimiser maps, characterised by stationarity, the released minimiser is ε-DP.  What separates it from
`cms_theorem9_reduced`: `CMS.ChangeOfVariables` (existence/uniqueness/differentiability of the minimiser map and the
change-of-variables formula) and CMS Lemma 10 beyond rank one / dimension one.  The restriction `s ≤ 1` is essential for the
CMS accounting (`cms_privacy_budget_split_cex`). -/
def cms_theorem9_full : Prop :=
  ∀ (d : ℕ) (eps s alpha : ℝ) (n : Nat), 0 < d → 0 < eps → 0 < s → s ≤ 1 → 0 < alpha → 0 < n →
  ∀ (R : List (EuclideanSpace ℝ (Fin d) × ℝ)) (r r' : EuclideanSpace ℝ (Fin d) × ℝ),
    R.length + 1 = n → (∀ q ∈ r :: r' :: R, ‖q.1‖ ≤ s ∧ (q.2 = 1 ∨ q.2 = -1)) →
  ∀ wOf wOf' : EuclideanSpace ℝ (Fin d) → EuclideanSpace ℝ (Fin d), Measurable wOf → Measurable wOf' →
    let K := vectorCalib eps (1 / 4) s alpha n
    (∀ b, Stationary (alpha + n * K.delta) (r :: R) b (wOf b)) →
    (∀ b, Stationary (alpha + n * K.delta) (r' :: R) b (wOf' b)) →
    let noise := ((sphereUniform (EuclideanSpace ℝ (Fin d))).prod
        (ProbabilityTheory.gammaMeasure (d : ℝ) (K.epsP / (2 * s)))).map
        (fun q : EuclideanSpace ℝ (Fin d) × ℝ => q.2 • q.1)
    ∀ S, MeasurableSet S → (noise.map wOf) S ≤ ENNReal.ofReal (Real.exp eps) * (noise.map wOf') S

end CMS9

end DPL.C17
