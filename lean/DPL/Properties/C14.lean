/-
C14 — with `random_state=None` every draw the privacy guarantee relies on comes from the OS CSPRNG
(`secrets.SystemRandom`), never from numpy's / Python's seedable global generators.
-/
import DPL.Model.Rng
import DPL.Model.RngSites

namespace DPL.C14
open DPL DPL.Rng

/-- the decision table of `check_random_state(seed, secure)` -/
theorem crs_table :
    (∀ s, crs s true = match s with
      | .none => .osCsprng | .globalSingleton => .osCsprng | .systemRandom => .osCsprng
      | .int => .seeded | .randomState => .seeded | .other => .error) ∧
    (∀ s, crs s false = match s with
      | .none => .globalNumpy | .globalSingleton => .globalNumpy | .systemRandom => .error
      | .int => .seeded | .randomState => .seeded | .other => .error) := by
  constructor <;> intro s <;> cases s <;> rfl

/-- the secure branch never hands out the global generator, whatever it is given -/
theorem secure_never_global (s : Seed) : crs s true ≠ .globalNumpy := by cases s <;> decide

/-- … and hence no mechanism ever holds it -/
theorem mech_never_global (m : Mech) (s : Seed) : mechRng m s ≠ .globalNumpy := by
  cases m <;> cases s <;> decide

/-- the non-secure preamble is idempotent on what it returns (tools re-enter themselves through `_wrap_axis`,
estimators call tools that call `check_random_state` again) -/
theorem hop_idem (s : Seed) : hop (hop s) = hop s := by cases s <;> rfl

/-- any depth of tool / sub-estimator nesting between the caller's `random_state=None` and the mechanism still ends in
the OS CSPRNG (or, for Staircase / Bingham, in a fresh OS-seeded Generator) -/
theorem nested_secure (m : Mech) (n : Nat) :
    mechRng m (hops n .none) = if m.swaps then .freshGenerator else .osCsprng := by
  have h : ∀ n, hops n .none = .none ∨ hops n .none = .globalSingleton := by
    intro n
    induction n with
    | zero => left; rfl
    | succ k ih =>
      rcases ih with ih | ih <;> (simp only [hops, ih]; right; rfl)
  rcases h n with h | h <;> rw [h] <;> cases m <;> rfl

/-- **C14**: for every modelled entry point (21 mechanisms, 15 tools, 8 estimators, covariance_eig), with
`random_state = None` every mechanism call and every other noise-tagged draw has source `osCsprng` — or
`freshGenerator`, and then only for Staircase / Bingham — -/
theorem unseeded_noise_secure (e : Entry) (d : Draw) (hd : d ∈ plan e .none) (hk : d.kind = .noise) :
    d.secure = true := by
  have h : (plan e .none).all (fun d => d.kind != .noise || d.secure) = true := by
    cases e with
    | mech m => cases m <;> decide
    | _ => decide
  rw [List.all_eq_true] at h
  simpa [hk] using h d hd

/-- … and none of them consumes numpy's global generator -/
theorem unseeded_noise_not_global (e : Entry) (d : Draw) (hd : d ∈ plan e .none) (hk : d.kind = .noise) :
    d.src ≠ .globalNumpy := by
  have h := unseeded_noise_secure e d hd hk
  intro hg
  simp [Draw.secure, hg] at h

/-- stated separately, as a PCG64 stream is not a CSPRNG: the only entry points whose noise comes from a fresh
OS-seeded Generator are those that run Staircase or Bingham (directly, `covariance_eig`, `PCA`) -/
theorem fresh_generator_only_staircase_bingham (e : Entry) (d : Draw) (hd : d ∈ plan e .none)
    (hs : d.src = .freshGenerator) : d.site = .mech .Staircase ∨ d.site = .mech .Bingham := by
  have h : (plan e .none).all
      (fun d => d.src != .freshGenerator || (d.site == .mech .Staircase || d.site == .mech .Bingham)) = true := by
    cases e with
    | mech m => cases m <;> decide
    | _ => decide
  rw [List.all_eq_true] at h
  simpa [hs] using h d hd

/-- the same holds when the caller passes numpy's global singleton explicitly to a mechanism or a tool -/
theorem singleton_mech_secure (m : Mech) : (viaMech m .globalSingleton).secure = true := by cases m <;> decide

/-- what IS taken from the global generator when unseeded is exactly the structural part -/
theorem unseeded_global_is_structural (e : Entry) (d : Draw) (hd : d ∈ plan e .none)
    (hg : d.src = .globalNumpy) : d.kind = .structural := by
  cases hk : d.kind with
  | structural => rfl
  | noise => exact absurd hg (unseeded_noise_not_global e d hd hk)

/-- copying a mechanism (`.copy()`, `copy.copy`, `copy.deepcopy`, pickle) never changes where its noise comes from:
the copy holds a generator of the same source, or no copy is obtained at all -/
theorem copy_preserves_source (w : CopyWay) (m : Mech) (s : Seed) :
    copySrc w m s = mechRng m s ∨ copySrc w m s = .error := by
  cases w <;> cases m <;> cases s <;> decide

/-- … hence every copy of an unseeded mechanism still draws from the OS CSPRNG (fresh Generator for Staircase /
Bingham), and never from numpy's global generator -/
theorem copy_unseeded_secure (w : CopyWay) (m : Mech) :
    copySrc w m .none = .error ∨ (Draw.mk (.mech m) .noise (copySrc w m .none)).secure = true := by
  cases w <;> cases m <;> decide

theorem copy_never_global (w : CopyWay) (m : Mech) (s : Seed) : copySrc w m s ≠ .globalNumpy := by
  cases w <;> cases m <;> cases s <;> decide

/-- why a copy must not RE-DERIVE its generator from `random_state` with the non-secure helper: for an unseeded
mechanism that is numpy's global generator -/
theorem nonsecure_rederive_is_global : crs .none false = .globalNumpy := rfl

/-- non-vacuity: the plans do contain noise draws, e.g. the forest's tree labels and the quantile's uniform -/
example : ∃ d ∈ plan .RandomForestClassifier .none, d.kind = .noise ∧ d.site = .emptyLeaf := by decide
example : ∃ d ∈ plan .median .none, d.kind = .noise ∧ d.site = .quantileUniform ∧ d.src = .osCsprng := by decide
example : ∃ d ∈ plan .KMeans .none, d.kind = .structural ∧ d.src = .globalNumpy := by decide

/-! ### the static site tables (`DPL/Model/RngSites.lean`; the generated table of the CURRENT sources is proved equal to
them in `DPL/Generated/C14Sites.lean` on every run) -/

open DPL.RngSites in
/-- why {None, global singleton, SystemRandom} is the right invariant for "the user did not seed": a mechanism
constructor turns each of them into the OS CSPRNG -/
theorem unseeded_ends_secure (s : Seed) (hs : s ∈ unseeded) : crs s true = .osCsprng := by
  revert s; decide

open DPL.RngSites in
/-- … and a tool / estimator preamble keeps an unseeded caller inside the invariant, or raises -/
theorem unseeded_preamble_closed (s : Seed) (hs : s ∈ unseeded) :
    (crsVal (.obj s) false).handOnOk = true := by
  revert s; decide

open DPL.RngSites in
/-- a value that may be handed on reaches every mechanism as the OS CSPRNG (or nothing is constructed) -/
theorem handOnOk_secure (v : Val) (h : v.handOnOk = true) :
    crsVal v true = .obj .systemRandom ∨ crsVal v true = .raises := by
  cases v with
  | obj s => cases s <;> simp_all [Val.handOnOk, crsVal, crs, Val.ofSrc]
  | _ => simp_all [Val.handOnOk, crsVal]

open DPL.RngSites in
/-- every hand-listed draw that does not come from the OS CSPRNG is classified structural: no site classified `noise`
has a non-secure source -/
theorem nonsecure_sites_structural (c : Classified) (hc : c ∈ structuralDraws) : c.kind = .structural := by
  revert c; decide

open DPL.RngSites in
/-- … each is a draw the model knows: it is the model's `direct` structural draw of that entry point's plan (those the
model's unseeded plan contains), with numpy's global generator as its source -/
theorem structural_sites_in_plan (c : Classified) (hc : c ∈ structuralDraws) (hp : c.inUnseededPlan = true) :
    (⟨c.msite, .structural, .globalNumpy⟩ : Draw) ∈ plan c.entry .none := by
  revert c; decide

open DPL.RngSites in
/-- … and conversely every draw of every unseeded plan that consumes the global generator is one of the listed sites -/
theorem plan_global_draws_listed (e : Entry) (d : Draw) (hd : d ∈ plan e .none) (hg : d.src = .globalNumpy) :
    d.site ∈ structuralDraws.map (·.msite) := by
  have h : (plan e .none).all
      (fun d => d.src != .globalNumpy || (structuralDraws.map (·.msite)).contains d.site) = true := by
    cases e with
    | mech m => cases m <;> decide
    | _ => decide
  rw [List.all_eq_true] at h
  have := h d hd
  simpa [hg] using this

open DPL.RngSites in
/-- the listed sites are really not secure (the table is not padded): each draws from numpy's global generator for
some unseeded caller -/
theorem structural_sites_are_global (c : Classified) (hc : c ∈ structuralDraws) :
    ∃ s ∈ unseeded, (c.site.recv.val s).src = .globalNumpy := by
  revert c; decide

open DPL.RngSites in
/-- what leaves the library (sklearn's `_make_estimator`, the joblib-delayed path function) is `None` when the
estimator is unseeded: the sub-estimators' mechanisms then use the OS CSPRNG -/
theorem external_passes_unseeded_none (p : PassSite) (hp : p ∈ externalPasses) : p.arg.val .none = .obj .none := by
  revert p; decide

open DPL.RngSites in
/-- the mechanisms whose constructor re-assigns `_rng` in the site table are exactly the model's `Mech.swaps`, and what
they assign is the OS-entropy-seeded Generator -/
theorem swap_assigns_match (m : Mech) : m.swaps = true ↔ m ∈ swapAssignMechs := by
  cases m <;> decide

open DPL.RngSites in
theorem swap_assigns_fresh (a : AttrAssign) (ha : a ∈ expectedAttrAssigns) (s : Seed) :
    a.val.val s = .fresh ∨ a.val.val s = .ofSrc (crs s true) := by
  revert a; cases s <;> decide

open DPL.RngSites in
/-- the origin semantics agrees with the model's plumbing: `m._rng` of a mechanism built by a tool from its own
preamble is `mechRng` after one `hop` (quantile's within-interval uniform) -/
theorem mechRng_org_eq (s : Seed) (hs : s ∈ unseeded) :
    ((Org.mechRng (.crs (.param "random_state") false)).val s).src = .osCsprng ∨
    ((Org.mechRng (.crs (.param "random_state") false)).val s) = .raises := by
  revert s; decide

/-- non-vacuity: the tables are inhabited; the regression shapes of the three repaired defects are flagged -/
example : DPL.RngSites.structuralDraws.length = 6 ∧ DPL.RngSites.externalPasses.length = 2 := by decide
open DPL.RngSites in
example : nonSecureDraws [⟨.tools, "tools/quantiles.py", "quantile", .crs (.param "random_state") false, "random"⟩] ≠ [] := by
  decide
open DPL.RngSites in
example : passesClosed [⟨.models, "f", "g", "Tree", .lib, .drawn (.crs (.selfAttr "random_state") false) "randint"⟩] = false := by
  decide
open DPL.RngSites in
example : nonSecureDraws [⟨.tools, "tools/quantiles.py", "quantile", .mechRng (.crs (.param "random_state") false), "random"⟩] = [] := by
  decide

/-! ### regression witnesses for the three repaired defects -/

/-- before d3ce958 the quantile's within-interval uniform came from numpy's global generator -/
theorem old_quantile_uniform_global :
    ∃ d ∈ oldQuantilePlan .none, d.kind = .noise ∧ d.src = .globalNumpy := by decide

/-- before d80d762 an unseeded forest seeded every tree with an int drawn from the global generator, so the trees'
mechanisms were reproducible -/
theorem old_forest_trees_seeded :
    ∃ d ∈ treePlan (oldForestTreeSeed .none), d.kind = .noise ∧ d.src = .seeded := by decide

/-- before 1816d17 the label of an empty leaf came from the tree's non-secure generator -/
theorem old_empty_leaf_global :
    ∃ d ∈ oldTreePlan .none, d.site = .emptyLeaf ∧ d.kind = .noise ∧ d.src = .globalNumpy := by decide

/-- seeded runs are reproducible by construction: every mechanism draw comes from the caller's seed (C15 builds on it) -/
theorem seeded_mech_seeded (m : Mech) : mechRng m .int = .seeded ∧ mechRng m .randomState = .seeded := by
  cases m <;> decide

end DPL.C14
