/-
C15 — seeded runs are reproducible and independent of the parallel schedule.

The model (DPL/Model/Schedule.lean) is the discipline the code follows in `RandomForestClassifier.fit` and (since the
repair of `LogisticRegression.fit`) for the one-vs-rest problems: per-task integer seeds drawn sequentially from the
parent generator BEFORE the parallel section, task inputs by index arithmetic, task `i` reads only `(seed_i, input_i)`
and owns its generator, results collected by index.  A schedule is ANY list of task indices (one entry = one atomic
step of that task): every interleaving, every completion order, hence every `n_jobs`.

Proved here: the indexed result list is the same for every complete schedule and equals the sequential one
(`forest_schedule_independent`); without the discipline it is not (`shared_rng_schedule_dependent`,
`copied_rng_njobs_dependent`: two-task witnesses); the row -> tree arithmetic of forest.py partitions the rows
(`subsets_partition`); a seeded run is a function of the seed (`seeded_deterministic`).
NOT provable from a model, only observed by the harness: the real thread/process interleavings, joblib's ordered
collection, absence of other shared mutable state in numpy/sklearn, and that different seeds give different streams.
-/
import DPL.Model.Schedule
import DPL.Proofs.Schedule
import DPL.Model.RngSites

namespace DPL.C15
open DPL

section discipline
variable {G D T Res : Type}

/-- the general form: under the discipline, every complete schedule yields, index by index, what running each task
alone to completion yields (`fitTree seed_i input_i`) -/
theorem seeded_schedule_independent (R : Gen G) (init : G → D → T) (step : T → T) (need : T → Nat) (result : T → Res)
    (parent : G) (k : Nat) (input : Nat → D) (sch : List Nat)
    (h : Complete need (seededTasks R init parent k input) k sch) :
    seededRun R init step result parent k input sch = seqResult R init step need result parent k input := by
  unfold seededRun seqResult
  apply List.map_congr_left
  intro i hi
  rw [runOwned_eq, h i (List.mem_range.mp hi)]

/-- **C15, forest**: for every number of trees `k`, every number of rows `n`, every parent generator state, every
task behaviour (`init`, `step`, `need`, `result` are arbitrary) and EVERY complete schedule, the list of fitted trees
(by index) equals the sequential one -/
theorem forest_schedule_independent (α : Type) [NatCast α] [Div α] [PyFloorDiv α] [Transc α]
    (R : Gen G) (permOf : G → Nat → (Nat → Nat)) (init : G → List Nat → T) (step : T → T) (need : T → Nat)
    (result : T → Res) (parent : G) (n k : Nat) (sch : List Nat)
    (h : Complete need (seededTasks R init parent k (subset α n k (permOf (drawSeeds R k parent).2 n))) k sch) :
    forestRun α R permOf init step result parent n k sch =
      seqResult R init step need result parent k (subset α n k (permOf (drawSeeds R k parent).2 n)) :=
  seeded_schedule_independent R init step need result parent k _ sch h

/-- any two complete schedules (two values of `n_jobs`, two completion orders) give identical forests -/
theorem forest_njobs_independent (α : Type) [NatCast α] [Div α] [PyFloorDiv α] [Transc α]
    (R : Gen G) (permOf : G → Nat → (Nat → Nat)) (init : G → List Nat → T) (step : T → T) (need : T → Nat)
    (result : T → Res) (parent : G) (n k : Nat) (sch₁ sch₂ : List Nat)
    (h₁ : Complete need (seededTasks R init parent k (subset α n k (permOf (drawSeeds R k parent).2 n))) k sch₁)
    (h₂ : Complete need (seededTasks R init parent k (subset α n k (permOf (drawSeeds R k parent).2 n))) k sch₂) :
    forestRun α R permOf init step result parent n k sch₁ = forestRun α R permOf init step result parent n k sch₂ := by
  rw [forest_schedule_independent α R permOf init step need result parent n k sch₁ h₁,
      forest_schedule_independent α R permOf init step need result parent n k sch₂ h₂]

/-- non-vacuity: the sequential schedule (`n_jobs = 1`) is complete, for every `k` -/
theorem sequential_is_complete (need : T → Nat) (st : Nat → T) (k : Nat) :
    Complete need st k (seqSchedule need st k) := seqSchedule_complete need st k

/-- a seeded run is a function of the integer seed: two runs from the same seed — in the same or another process,
under any two complete schedules — produce the same result list -/
theorem seeded_deterministic (α : Type) [NatCast α] [Div α] [PyFloorDiv α] [Transc α]
    (R : Gen G) (permOf : G → Nat → (Nat → Nat)) (init : G → List Nat → T) (step : T → T) (need : T → Nat)
    (result : T → Res) (seed₁ seed₂ : Nat) (hs : seed₁ = seed₂) (n k : Nat) (sch₁ sch₂ : List Nat)
    (h₁ : Complete need (seededTasks R init (R.ofSeed seed₁) k
            (subset α n k (permOf (drawSeeds R k (R.ofSeed seed₁)).2 n))) k sch₁)
    (h₂ : Complete need (seededTasks R init (R.ofSeed seed₂) k
            (subset α n k (permOf (drawSeeds R k (R.ofSeed seed₂)).2 n))) k sch₂) :
    forestRun α R permOf init step result (R.ofSeed seed₁) n k sch₁ =
      forestRun α R permOf init step result (R.ofSeed seed₂) n k sch₂ := by
  subst hs
  exact forest_njobs_independent α R permOf init step need result _ n k sch₁ sch₂ h₁ h₂

/-- the one-vs-rest problems of LogisticRegression (as repaired: per-class seeds drawn before the parallel section) -/
theorem logreg_schedule_independent (R : Gen G) (init : G → Nat → T) (step : T → T) (need : T → Nat)
    (result : T → Res) (parent : G) (nClasses : Nat) (sch₁ sch₂ : List Nat)
    (h₁ : Complete need (seededTasks R init parent nClasses id) nClasses sch₁)
    (h₂ : Complete need (seededTasks R init parent nClasses id) nClasses sch₂) :
    seededRun R init step result parent nClasses id sch₁ = seededRun R init step result parent nClasses id sch₂ := by
  rw [seeded_schedule_independent R init step need result parent nClasses id sch₁ h₁,
      seeded_schedule_independent R init step need result parent nClasses id sch₂ h₂]

/-- non-vacuity: a genuinely interleaved schedule, with tasks finishing in the order 1, 2, 0, is complete -/
example : Complete (fun _ : Nat => 2) (fun i => i) 3 [0, 1, 2, 1, 2, 0] := by
  intro i hi
  have : i = 0 ∨ i = 1 ∨ i = 2 := by omega
  rcases this with rfl | rfl | rfl <;> rfl

end discipline

/-- non-vacuity of `seeded_schedule_independent` on a concrete instance: three tasks, each appending two draws of its
own generator (seeded with a seed drawn from the parent `counter` generator); an interleaved schedule and the
sequential one give the same indexed results, and the results are not trivial (the tasks' outputs differ) -/
example :
    seededRun (⟨fun g => (g, g + 1), fun s => 10 * s⟩ : Gen Nat) (fun g (_ : Nat) => (g, ([] : List Nat)))
        (fun p => (p.1 + 1, p.2 ++ [p.1])) (fun p => p.2) 5 3 id [0, 1, 2, 1, 2, 0]
      = [[50, 51], [60, 61], [70, 71]] ∧
    seededRun (⟨fun g => (g, g + 1), fun s => 10 * s⟩ : Gen Nat) (fun g (_ : Nat) => (g, ([] : List Nat)))
        (fun p => (p.1 + 1, p.2 ++ [p.1])) (fun p => p.2) 5 3 id [0, 0, 1, 1, 2, 2]
      = [[50, 51], [60, 61], [70, 71]] := by decide

/-! ### the contrast: without the discipline the result depends on the schedule / on n_jobs -/

/-- the counting generator: draws 0, 1, 2, … -/
def counter : Gen Nat := ⟨fun g => (g, g + 1), fun s => s⟩

/-- **shared generator** (every task draws from the parent object): two tasks, one step each; the schedules `[0,1]`
and `[1,0]` are both complete and give DIFFERENT results.  So schedule independence is a property of the
discipline, not of the model language. -/
theorem shared_rng_schedule_dependent :
    ∃ (sch₁ sch₂ : List Nat),
      Complete (fun _ : List Nat => 1) (fun _ => []) 2 sch₁ ∧ Complete (fun _ : List Nat => 1) (fun _ => []) 2 sch₂ ∧
      (List.range 2).map (runShared counter (fun l x => l ++ [x]) sch₁ 0 (fun _ => [])).2 ≠
      (List.range 2).map (runShared counter (fun l x => l ++ [x]) sch₂ 0 (fun _ => [])).2 := by
  refine ⟨[0, 1], [1, 0], ?_, ?_, by decide⟩ <;>
  · intro i hi
    have : i = 0 ∨ i = 1 := by omega
    rcases this with rfl | rfl <;> rfl

/-- **copied generator** (what `LogisticRegression.fit` did before its repair: one `RandomState` handed to every task;
`n_jobs = 1` consumes it sequentially, worker processes each get a pickled copy): the sequential result and the
parallel result differ — the fit depended on `n_jobs` -/
theorem copied_rng_njobs_dependent :
    (List.range 2).map (runShared counter (fun l x => l ++ [x]) [0, 1] 0 (fun _ => [])).2 ≠
    (List.range 2).map (fun i => (runCopied counter (fun l x => l ++ [x]) [0, 1] 0 (fun _ => []) i).2) := by
  decide

/-- … and under the copied generator all tasks that take the same number of steps from the same local state get
the SAME noise (for every generator, every schedule) -/
theorem copied_rng_same_noise {G T : Type} (R : Gen G) (acc : T → Nat → T) (sch : List Nat) (g : G) (st : Nat → T)
    (i j : Nat) (hst : st i = st j) (hc : sch.count i = sch.count j) :
    runCopied R acc sch g st i = runCopied R acc sch g st j := by
  unfold runCopied
  rw [runOwned_eq, runOwned_eq, hc, hst]

/-! ### the row -> tree arithmetic of forest.py -/

/-- ★ disjointness holds for ANY carrier (also IEEE doubles with numpy's `//`): a row is sent to at most one tree -/
theorem subsets_disjoint (α : Type) [NatCast α] [Div α] [PyFloorDiv α] [Transc α] (n k : Nat) (perm : Nat → Nat)
    (i j row : Nat) (hi : row ∈ subset α n k perm i) (hj : row ∈ subset α n k perm j) : i = j := by
  simp only [subset, List.mem_filter, beq_iff_eq] at hi hj
  exact_mod_cast hi.2.symm.trans hj.2

/-- ★ any carrier: every subset consists of distinct valid row numbers, in increasing order -/
theorem subset_rows (α : Type) [NatCast α] [Div α] [PyFloorDiv α] [Transc α] (n k : Nat) (perm : Nat → Nat) (i : Nat) :
    (subset α n k perm i).Nodup ∧ ∀ row ∈ subset α n k perm i, row < n := by
  refine ⟨List.Nodup.filter _ List.nodup_range, ?_⟩
  intro row h
  exact List.mem_range.mp (List.mem_filter.mp h).1

/-- **subsets partition the rows** (exact arithmetic): with `tree_idxs` any map of `[0,n)` into itself (`arange`, or
the permutation drawn when `shuffle=True`), `0 < k` trees and `0 < n` rows, every row belongs to exactly one of the
subsets `X[tree_idxs // (n/k) == i]`, `i < k` -/
theorem subsets_partition (n k : Nat) (perm : Nat → Nat) (hn : 0 < n) (hk : 0 < k) (hperm : ∀ r, r < n → perm r < n)
    (row : Nat) (hrow : row < n) :
    ∃ i, (i < k ∧ row ∈ subset ℝ n k perm i) ∧ ∀ j, (j < k ∧ row ∈ subset ℝ n k perm j) → j = i := by
  obtain ⟨h0, h1⟩ := treeOf_real_range n k (perm row) hn hk (hperm row hrow)
  refine ⟨(treeOf ℝ n k (perm row)).toNat, ⟨?_, ?_⟩, ?_⟩
  · omega
  · simp only [subset, List.mem_filter, List.mem_range, beq_iff_eq]
    exact ⟨hrow, (Int.toNat_of_nonneg h0).symm⟩
  · rintro j ⟨_, hj⟩
    simp only [subset, List.mem_filter, beq_iff_eq] at hj
    omega

/-- the closed form: tree of the row holding index `idx` is `⌊idx·k/n⌋` -/
theorem tree_index_closed_form (n k idx : Nat) (hn : 0 < n) (hk : 0 < k) :
    treeOf ℝ n k idx = ((idx * k / n : Nat) : Int) := treeOf_real n k idx hn hk

/-- non-vacuity of `subsets_partition`: 7 rows, 3 trees, no shuffle: row 3 goes to tree 1 -/
example : treeOf ℝ 7 3 3 = 1 := by rw [treeOf_real 7 3 3 (by norm_num) (by norm_num)]; rfl


/-! ## Static tie: what is handed to the parallel tasks

The schedule-independence theorems above assume that each task owns its randomness (`seeded_schedule_independent`,
`logreg_schedule_independent`) and show that a generator SHARED between tasks makes the result depend on the schedule
(`shared_rng_schedule_dependent`).  Which of the two the code does is read off the source on every run: the randomness-site
translator (`harness/translate/rngsites.py`, shared with C14) regenerates the table of every `random_state` hand-over
and the obligation `DPL.Gen.C14.external_passes` proves that the hand-overs to code outside the library — scikit-learn's
`_make_estimator` (one call per tree) and the joblib-delayed `_logistic_regression_path` (one task per class) — are
exactly `RngSites.externalPasses`.  The theorems below say what that table means for C15. -/

open RngSites in
/-- an expression that denotes a generator OBJECT (which a second task could share) rather than a value drawn from one -/
def sharesGenerator : Org → Bool
  | .none => false
  | .intConst => false
  | .drawn _ _ => false
  | .ifSeeded _ t => sharesGenerator t
  | .join a b => sharesGenerator a || sharesGenerator b
  | _ => true

open RngSites in
/-- the joblib-delayed one-vs-rest tasks of LogisticRegression each receive an integer drawn from the estimator's
generator BEFORE dispatch (or `None` when unseeded) — never the generator itself (the defect repaired in b7f8f89) -/
theorem parallel_tasks_get_seeds :
    ∀ p ∈ externalPasses, p.callee = "path_func" → sharesGenerator p.arg = false := by decide

open RngSites in
/-- the forest hands its own generator to `_make_estimator` sequentially, in tree order, in the parent process (each
call draws the tree's integer seed there); no generator crosses into a parallel task -/
theorem forest_seeds_drawn_in_parent :
    ∀ p ∈ externalPasses, p.fn = "RandomForestClassifier.fit" → p.callee = "self._make_estimator" := by decide

open RngSites in
/-- the predicate discriminates: handing the estimator's own generator to the tasks (the pre-b7f8f89 code) is flagged -/
theorem shared_generator_flagged :
    sharesGenerator (.ifSeeded (.selfAttr "random_state") (.crs (.selfAttr "random_state") false)) = true := by decide

end DPL.C15
