/-
C03: the batch layout of the rejection loop of `LaplaceBoundedDomain` / `LaplaceBoundedNoise`, as a map on streams.

The loop draws `4·s` uniforms per batch (`s = 1, 2, 4, …` capped at 100000) and computes sample `i` of the batch from
uniforms `i, s+i, 2s+i, 3s+i` of the batch.  `idxS s m r` is the position in the uniform stream of the `r`-th uniform
(`r = 0..3`) of candidate number `m` (first batch of size `s`); `candStream s ω` is the stream of standard-Laplace
candidates.  Proved: the index map is injective (`idxS_inj`: no uniform is used twice), and the model's `candidates`
on the first `N` uniforms is a prefix of `candStream` (`candidates_pre`) that gets arbitrarily long (`cnt_unbounded`).
-/
import DPL.Proofs.SamplersReal
import DPL.Proofs.DiscreteStream

namespace DPL.SmpS
open DPL.Discrete

/-- `samples = min(100000, samples * 2)` -/
def nextS (s : ℕ) : ℕ := min 100000 (2 * s)

theorem nextS_pos {s : ℕ} (h : 0 < s) : 0 < nextS s := by unfold nextS; omega

/-- position in the uniform stream of the `r`-th uniform of candidate `m`, when the first batch has size `s` -/
def idxS (s m r : ℕ) : ℕ :=
  if h : m < s ∨ s = 0 then m + r * s else idxS (nextS s) (m - s) r + 4 * s
termination_by m
decreasing_by omega

theorem idxS_lt {s m : ℕ} (h : m < s) (r : ℕ) : idxS s m r = m + r * s := by
  rw [idxS, dif_pos (Or.inl h)]

theorem idxS_ge {s m : ℕ} (hs : 0 < s) (h : s ≤ m) (r : ℕ) : idxS s m r = idxS (nextS s) (m - s) r + 4 * s := by
  rw [idxS, dif_neg (by omega)]

/-- **no uniform is used twice** -/
theorem idxS_inj : ∀ (m s : ℕ), 0 < s → ∀ (m' r r' : ℕ), r < 4 → r' < 4 → idxS s m r = idxS s m' r' →
    m = m' ∧ r = r' := by
  intro m
  induction m using Nat.strong_induction_on with
  | _ m ih =>
    intro s hs m' r r' hr hr' h
    have hrs : r * s ≤ 3 * s := Nat.mul_le_mul_right s (by omega)
    have hrs' : r' * s ≤ 3 * s := Nat.mul_le_mul_right s (by omega)
    by_cases h1 : m < s
    · by_cases h2 : m' < s
      · rw [idxS_lt h1, idxS_lt h2] at h
        have hm : m = m' := by
          have := congrArg (· % s) h
          simpa [Nat.add_mul_mod_self_right, Nat.mod_eq_of_lt h1, Nat.mod_eq_of_lt h2] using this
        subst hm
        have : r * s = r' * s := by omega
        exact ⟨rfl, Nat.eq_of_mul_eq_mul_right hs this⟩
      · rw [idxS_lt h1, idxS_ge hs (by omega)] at h
        omega
    · by_cases h2 : m' < s
      · rw [idxS_ge hs (by omega), idxS_lt h2] at h
        omega
      · rw [idxS_ge hs (by omega), idxS_ge hs (by omega)] at h
        have := ih (m - s) (by omega) (nextS s) (nextS_pos hs) (m' - s) r r' hr hr' (by omega)
        exact ⟨by omega, this.2⟩

/-- the stream of standard-Laplace candidates the loop looks at -/
noncomputable def candStream (s : ℕ) (ω : ℕ → ℝ) (m : ℕ) : ℝ :=
  Smp.lap4 (ω (idxS s m 0)) (ω (idxS s m 1)) (ω (idxS s m 2)) (ω (idxS s m 3))

theorem candStream_lt {s m : ℕ} (h : m < s) (ω : ℕ → ℝ) :
    candStream s ω m = Smp.lap4 (ω m) (ω (m + s)) (ω (m + 2 * s)) (ω (m + 3 * s)) := by
  unfold candStream
  rw [idxS_lt h, idxS_lt h, idxS_lt h, idxS_lt h]
  simp

theorem candStream_ge {s m : ℕ} (hs : 0 < s) (h : s ≤ m) (ω : ℕ → ℝ) :
    candStream s ω m = candStream (nextS s) (shift (4 * s) ω) (m - s) := by
  unfold candStream
  rw [idxS_ge hs h, idxS_ge hs h, idxS_ge hs h, idxS_ge hs h]
  rfl

/-! ### the model's batches on a prefix of the stream -/

theorem pre_take (ω : ℕ → ℝ) {s N : ℕ} (h : s ≤ N) : (pre ω N).take s = pre ω s := by
  unfold pre
  rw [← List.map_take, List.take_range, Nat.min_eq_left h]

theorem zipWith4_map_range' (g : ℝ → ℝ → ℝ → ℝ → ℝ) (a b c d : ℕ → ℝ) : ∀ (s k : ℕ),
    Smp.zipWith4 g ((List.range' k s).map a) ((List.range' k s).map b) ((List.range' k s).map c)
        ((List.range' k s).map d)
      = (List.range' k s).map (fun i => g (a i) (b i) (c i) (d i)) := by
  intro s
  induction s with
  | zero => intro k; simp [Smp.zipWith4]
  | succ s ih =>
    intro k
    simp only [List.range'_succ, List.map_cons, Smp.zipWith4]
    rw [ih]

/-- one batch of the model on a long enough prefix: sample `i` uses uniforms `i, s+i, 2s+i, 3s+i` -/
theorem batchLap_pre (ω : ℕ → ℝ) {s N : ℕ} (h : 4 * s ≤ N) :
    Smp.batchLap (pre ω N) s
      = (List.range s).map (fun i => Smp.lap4 (ω i) (ω (i + s)) (ω (i + 2 * s)) (ω (i + 3 * s))) := by
  unfold Smp.batchLap
  rw [pre_drop, pre_drop, pre_drop, pre_take ω (by omega), pre_take _ (by omega), pre_take _ (by omega),
    pre_take _ (by omega)]
  unfold pre
  rw [List.range_eq_range', zipWith4_map_range']
  rfl

/-- number of candidates the model looks at with `fuel` batches, first batch size `s`, `N` uniforms supplied -/
def cnt : ℕ → ℕ → ℕ → ℕ
  | 0, _, _ => 0
  | fuel + 1, s, N => if N < 4 * s then 0 else s + cnt fuel (nextS s) (N - 4 * s)

/-- **the candidates of the model are a prefix of the candidate stream** -/
theorem candidates_pre (cand : ℝ → ℝ) : ∀ (fuel s : ℕ), 0 < s → ∀ (ω : ℕ → ℝ) (N : ℕ),
    Smp.candidates cand fuel s (pre ω N) = (List.range (cnt fuel s N)).map (fun m => cand (candStream s ω m)) := by
  intro fuel
  induction fuel with
  | zero => intro s _ ω N; simp [Smp.candidates, cnt]
  | succ fuel ih =>
    intro s hs ω N
    unfold Smp.candidates cnt
    rw [pre_length]
    by_cases h : N < 4 * s
    · simp [h]
    · rw [if_neg h, if_neg h, batchLap_pre ω (by omega), pre_drop]
      have := ih (nextS s) (nextS_pos hs) (shift (4 * s) ω) (N - 4 * s)
      unfold nextS at this ⊢
      rw [this, List.range_add, List.map_append, List.map_map, List.map_map]
      congr 1
      · apply List.map_congr_left
        intro i hi
        have hi' : i < s := List.mem_range.mp hi
        simp only [Function.comp]
        rw [candStream_lt hi']
      · apply List.map_congr_left
        intro j _
        simp only [Function.comp]
        rw [candStream_ge hs (by omega)]
        congr 2
        omega

/-- with enough fuel and a long enough prefix the model looks at any given candidate -/
theorem cnt_unbounded : ∀ (n s : ℕ), 0 < s → ∃ fuel N, n < cnt fuel s N := by
  intro n
  induction n using Nat.strong_induction_on with
  | _ n ih =>
    intro s hs
    by_cases h : n < s
    · refine ⟨1, 4 * s, ?_⟩
      simp only [cnt, lt_irrefl, if_false]
      omega
    · obtain ⟨fuel, N, hc⟩ := ih (n - s) (by omega) (nextS s) (nextS_pos hs)
      refine ⟨fuel + 1, 4 * s + N, ?_⟩
      simp only [cnt]
      rw [if_neg (by omega), Nat.add_sub_cancel_left]
      omega

end DPL.SmpS
