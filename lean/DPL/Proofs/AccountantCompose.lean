/-
C05, composition validity in the pure-DP / slack-0 regime: with slack 0 and every recorded δᵢ = 0 the accountant's
total is (Σ εᵢ, 0), and Σ εᵢ IS a valid bound for any adaptive composition of εᵢ-DP stages
(`Compose.adaptive_composition_list`, `DPL/Proofs/ModelsCompose.lean`).
-/
import DPL.Proofs.AccountantTotal
import DPL.Proofs.ModelsCompose

namespace DPL
namespace AccCompose
open MeasureTheory ProbabilityTheory DPL.Compose

/-- slack 0, every recorded δ = 0: the total is exactly (Σ εᵢ, 0) -/
theorem totalCore_pure (l : List (Spend ℝ)) (hδ : ∀ s ∈ l, s.delta = 0) :
    (totalCore l 0).eps = (l.map (fun s => s.eps)).sum ∧ (totalCore l 0).delta = 0 := by
  refine ⟨totalCore_eps_zero l, ?_⟩
  rw [totalCore_delta]
  have h1 : (l.map (fun s => 1 - s.delta)).prod = 1 := by
    apply List.prod_eq_one
    intro x hx
    obtain ⟨s, hs, rfl⟩ := List.mem_map.mp hx
    rw [hδ s hs]; ring
  rw [h1]; ring

/-- the reported total bounds every adaptive composition of stages that are εᵢ-DP respectively -/
theorem total_sound_pure {Y : Type*} [MeasurableSpace Y] (stages : List (ℝ × Kernel Y Y × Kernel Y Y))
    (hst : ∀ t ∈ stages, ∀ y S, MeasurableSet S → t.2.1 y S ≤ ENNReal.ofReal (Real.exp t.1) * t.2.2 y S)
    (l : List (Spend ℝ)) (hrec : l.map (fun s => s.eps) = stages.map Prod.fst) (hδ : ∀ s ∈ l, s.delta = 0)
    (μ : Measure Y) (S : Set Y) (hS : MeasurableSet S) :
    (totalCore l 0).delta = 0 ∧
    iter (fun t => t.2.1) μ stages S ≤
      ENNReal.ofReal (Real.exp (totalCore l 0).eps) * iter (fun t => t.2.2) μ stages S := by
  obtain ⟨he, hd⟩ := totalCore_pure l hδ
  refine ⟨hd, ?_⟩
  have := adaptive_composition_list stages hst μ μ 0 (fun T _ => by simp) S hS
  rwa [zero_add, ← hrec, ← he] at this

/-- … as returned by `total()` on an accountant whose slack is 0 -/
theorem acc_total_sound_pure {Y : Type*} [MeasurableSpace Y] (a : Acc ℝ) (h0 : a.slack = 0)
    (hδ : ∀ s ∈ a.spent, s.delta = 0) (t : Tot ℝ) (ht : a.total = .ok t)
    (stages : List (ℝ × Kernel Y Y × Kernel Y Y))
    (hst : ∀ u ∈ stages, ∀ y S, MeasurableSet S → u.2.1 y S ≤ ENNReal.ofReal (Real.exp u.1) * u.2.2 y S)
    (hrec : a.spent.map (fun s => s.eps) = stages.map Prod.fst)
    (μ : Measure Y) (S : Set Y) (hS : MeasurableSet S) :
    t.eps = (a.spent.map (fun s => s.eps)).sum ∧ t.delta = 0 ∧
    iter (fun u => u.2.1) μ stages S ≤ ENNReal.ofReal (Real.exp t.eps) * iter (fun u => u.2.2) μ stages S := by
  unfold Acc.total at ht
  obtain ⟨rfl, -, -, -⟩ := mkBudget_ok _ _ t ht
  rw [h0]
  obtain ⟨hd, hb⟩ := total_sound_pure stages hst a.spent hrec hδ μ S hS
  exact ⟨(totalCore_pure a.spent hδ).1, hd, hb⟩

end AccCompose
end DPL
