/-
Which estimator plans have no probe at all (C06): StandardScaler, LinearRegression, PCA, LogisticRegression's split.
(GaussianNB, KMeans and the trees probe the occupancy pattern; see `DPL/Properties/C06.lean`.)
-/
import DPL.Model.PlanModels
import DPL.Proofs.Plan

namespace DPL
namespace PM
open DPL
variable {δ α ρ σ ι : Type}

theorem probeFree_one (c : MechCall α) (inp : δ → α) : (one c inp).probeFree := fun _ => trivial

theorem probeFree_forList (l : List ι) (f : ι → Plan δ α σ) (h : ∀ i ∈ l, (f i).probeFree) : (forList l f).probeFree := by
  induction l with
  | nil => trivial
  | cons i is ih =>
    exact Plan.probeFree_bind _ _ (h i (by simp)) fun r =>
      Plan.probeFree_bind _ _ (ih fun j hj => h j (by simp [hj])) fun _ => trivial

section
variable [OfNat α 0] [OfNat α 1] [Add α] [Sub α] [Mul α] [Div α] [Neg α]
  [LT α] [LE α] [DecidableLT α] [DecidableLE α] [NatCast α]

theorem meanAxis0_probeFree (ε : α) (lo hi : List α) (n d : Nat) : (meanAxis0 ε lo hi n d).probeFree :=
  probeFree_forList _ _ fun _ _ => probeFree_one _ _

theorem varAxis0_probeFree (ε : α) (lo hi : List α) (n d : Nat) : (varAxis0 ε lo hi n d).probeFree :=
  probeFree_forList _ _ fun _ _ => probeFree_one _ _

theorem scalerPlan_probeFree (p : ScalerParams α) : (scalerPlan p).probeFree := by
  unfold scalerPlan
  split
  · trivial
  · refine Plan.probeFree_bind _ _ (meanAxis0_probeFree _ _ _ _ _) fun ms => ?_
    split
    · exact Plan.probeFree_bind _ _ (varAxis0_probeFree _ _ _ _ _) fun _ => trivial
    · trivial

theorem linCoefs_probeFree (p : LinParams α) (ε : α) (xo yo : List α) : (linCoefs p ε xo yo).probeFree := by
  unfold linCoefs
  refine Plan.probeFree_bind _ _ (probeFree_forList _ _ fun _ _ => probeFree_one _ _) fun _ => ?_
  refine Plan.probeFree_bind _ _ (probeFree_forList _ _ fun _ _ => probeFree_one _ _) fun _ => ?_
  refine Plan.probeFree_bind _ _ (probeFree_forList _ _ fun ij _ => ?_) fun _ => trivial
  split <;> exact probeFree_one _ _

theorem linPlan_probeFree (p : LinParams α) : (linPlan p).probeFree := by
  unfold linPlan
  split
  · refine Plan.probeFree_bind _ _ (meanAxis0_probeFree _ _ _ _ _) fun xo => ?_
    refine Plan.probeFree_bind _ _ (probeFree_forList _ _ fun _ _ => probeFree_one _ _) fun yo => ?_
    exact Plan.probeFree_bind _ _ (linCoefs_probeFree _ _ _ _) fun _ => trivial
  · exact Plan.probeFree_bind _ _ (linCoefs_probeFree _ _ _ _) fun _ => trivial

theorem pcaPlan_probeFree (p : PcaParams α) (eig bing : DS α → List α → Nat → α) : (pcaPlan p eig bing).probeFree := by
  unfold pcaPlan
  have key : ∀ (share : α) (mean : List α),
      ((forList (List.range p.d) fun i =>
          one ⟨"LaplaceBoundedDomain", share, 0, nat 2, 0, p.inf, .osCsprng⟩ (fun D => eig D mean i)).bind fun ev =>
        (forList (List.range (min p.k (p.d - 1))) fun i =>
          one ⟨"Bingham", share, 0, 1, -p.inf, p.inf, .osCsprng⟩ (fun D => bing D mean i)).bind fun _ =>
        (Plan.release (mean, ev) : Plan (DS α) α (List α × List α))).probeFree := fun share mean =>
    Plan.probeFree_bind _ _ (probeFree_forList _ _ fun _ _ => probeFree_one _ _) fun _ =>
      Plan.probeFree_bind _ _ (probeFree_forList _ _ fun _ _ => probeFree_one _ _) fun _ => trivial
  simp only []
  split
  · exact key _ _
  · exact Plan.probeFree_bind _ _ (meanAxis0_probeFree _ _ _ _ _) fun mean => key _ _

theorem logregPlan_probeFree (eps ds : α) (k : Nat) : (logregPlan eps ds k).probeFree :=
  probeFree_forList _ _ fun _ _ => probeFree_one _ _

end
end PM
end DPL
