/-
C03: the Canonne–Kamath–Steinke loop over the i.i.d. uniform stream returns `y` with the discrete Gaussian probability
`e^{-y²/(2σ²)} / Σ_z e^{-z²/(2σ²)}` (`retI_law`, unbounded loops), and the executable model with its fuel is that law up
to the event that one of its loops runs out of fuel (`cks_model_sandwich`).
-/
import DPL.Proofs.SamplersStreamCKSLimit

namespace DPL.SmpS
open MeasureTheory Set DPL.Discrete
open scoped ENNReal

/-- `e^{-z²/(2σ²)}` -/
noncomputable def gE (σ2 : ℝ) (z : ℤ) : ℝ≥0∞ := ENNReal.ofReal (Real.exp (-((z : ℝ) ^ 2 / (2 * σ2))))

/-- the discrete Gaussian pmf with variance parameter `σ²` -/
noncomputable def dGauss (σ2 : ℝ) (y : ℤ) : ℝ≥0∞ := gE σ2 y / ∑' z : ℤ, gE σ2 z

/-- the `y`-independent factor of the one-pass acceptance probability -/
noncomputable def cC (τ σ2 : ℝ) : ℝ := (1 - Real.exp (-τ)) * (1 / 2) * Real.exp (-(τ ^ 2 * σ2 / 2))

theorem cC_pos (τ σ2 : ℝ) (h0 : 0 < τ) : 0 < cC τ σ2 := by
  have : Real.exp (-τ) < 1 := by rw [Real.exp_lt_one_iff]; linarith
  have : 0 < 1 - Real.exp (-τ) := by linarith
  unfold cC; positivity

/-- the one-pass acceptance probability is `c · e^{-z²/(2σ²)}` -/
theorem Aw_eq (τ σ2 : ℝ) (h0 : 0 < τ) (hσ : 0 < σ2) (z : ℤ) :
    Aw τ σ2 z = ENNReal.ofReal (cC τ σ2) * gE σ2 z := by
  have hq : Real.exp (-τ) < 1 := by rw [Real.exp_lt_one_iff]; linarith
  have hf : 0 ≤ 1 - Real.exp (-τ) := by linarith
  have hpow : 0 ≤ Real.exp (-τ) ^ z.natAbs := pow_nonneg (Real.exp_pos _).le _
  have e1 : Aw τ σ2 z = ENNReal.ofReal (Real.exp (-τ) ^ z.natAbs * (1 - Real.exp (-τ))
      * (1 / 2 * Real.exp (-Smp.cksGamma τ σ2 z.natAbs))) := by
    unfold Aw
    rw [ENNReal.ofReal_mul (mul_nonneg hpow hf), ENNReal.ofReal_mul hpow, ENNReal.ofReal_mul (by norm_num),
      ENNReal.ofReal_pow (Real.exp_pos _).le]
  rw [e1, gE, ← ENNReal.ofReal_mul (cC_pos τ σ2 h0).le]
  congr 1
  have hk : ((z.natAbs : ℕ) : ℝ) ^ 2 = (z : ℝ) ^ 2 := by
    rw [← Int.cast_natCast, Int.natCast_natAbs, Int.cast_abs, sq_abs]
  have h := Smp.cks_exponent τ σ2 hσ.ne' z.natAbs
  rw [hk] at h
  have hexp : Real.exp (-τ) ^ z.natAbs * Real.exp (-Smp.cksGamma τ σ2 z.natAbs)
      = Real.exp (-(τ ^ 2 * σ2 / 2)) * Real.exp (-((z : ℝ) ^ 2 / (2 * σ2))) := by
    rw [← Real.exp_nat_mul, ← Real.exp_add, ← Real.exp_add]
    congr 1; linarith
  unfold cC
  calc _ = (1 - Real.exp (-τ)) * (1 / 2)
        * (Real.exp (-τ) ^ z.natAbs * Real.exp (-Smp.cksGamma τ σ2 z.natAbs)) := by ring
    _ = _ := by rw [hexp]; ring

theorem gE_zero (σ2 : ℝ) : gE σ2 0 = 1 := by simp [gE]

theorem gE_norm_ne_zero (σ2 : ℝ) : (∑' z : ℤ, gE σ2 z) ≠ 0 := by
  have : gE σ2 0 ≤ ∑' z : ℤ, gE σ2 z := ENNReal.le_tsum 0
  rw [gE_zero] at this
  intro h; rw [h] at this; simp at this

theorem gE_norm_ne_top (σ2 : ℝ) (hσ : 0 < σ2) : (∑' z : ℤ, gE σ2 z) ≠ ⊤ := by
  have h := Rw_add_Aw 1 σ2 one_pos hσ
  simp_rw [Aw_eq 1 σ2 one_pos hσ] at h
  rw [ENNReal.tsum_mul_left] at h
  intro htop
  rw [htop, ENNReal.mul_top (by simpa using cC_pos 1 σ2 one_pos)] at h
  simp at h

/-- the discrete Gaussian weights sum to one -/
theorem dGauss_tsum (σ2 : ℝ) (hσ : 0 < σ2) : ∑' y : ℤ, dGauss σ2 y = 1 := by
  unfold dGauss
  simp_rw [div_eq_mul_inv]
  rw [ENNReal.tsum_mul_right]
  exact ENNReal.mul_inv_cancel (gE_norm_ne_zero σ2) (gE_norm_ne_top σ2 hσ)

/-- **the unbounded Canonne–Kamath–Steinke loop has the discrete Gaussian law** -/
theorem retI_law (τ σ2 : ℝ) (h0 : 0 < τ) (hσ : 0 < σ2) (y : ℤ) : streamμ (retI τ σ2 y) = dGauss σ2 y := by
  set X := streamμ (retI τ σ2 y) with hX
  have hfix : X = Aw τ σ2 y + Rw τ σ2 * X := retI_fix τ σ2 h0.le hσ y
  have hRS := Rw_add_Aw τ σ2 h0 hσ
  have hX1 : X ≤ 1 := prob_le_one
  have hXtop : X ≠ ⊤ := ne_top_of_le_ne_top ENNReal.one_ne_top hX1
  have hR1 : Rw τ σ2 ≤ 1 := by rw [← hRS]; exact le_self_add
  have hRX : Rw τ σ2 * X ≠ ⊤ := ENNReal.mul_ne_top (ne_top_of_le_ne_top ENNReal.one_ne_top hR1) hXtop
  have h1 : Rw τ σ2 * X + X * ∑' z : ℤ, Aw τ σ2 z = Rw τ σ2 * X + Aw τ σ2 y := by
    calc _ = X * (Rw τ σ2 + ∑' z : ℤ, Aw τ σ2 z) := by ring
      _ = X := by rw [hRS, mul_one]
      _ = _ := by rw [add_comm]; exact hfix
  have h2 : X * ∑' z : ℤ, Aw τ σ2 z = Aw τ σ2 y := (ENNReal.add_right_inj hRX).mp h1
  simp_rw [Aw_eq τ σ2 h0 hσ] at h2
  rw [ENNReal.tsum_mul_left, ← mul_assoc, mul_comm X, mul_assoc] at h2
  have hc0 : ENNReal.ofReal (cC τ σ2) ≠ 0 := by simpa using cC_pos τ σ2 h0
  have h3 : X * ∑' z : ℤ, gE σ2 z = gE σ2 y := (ENNReal.mul_right_inj hc0 ENNReal.ofReal_ne_top).mp h2
  unfold dGauss
  rw [ENNReal.eq_div_iff (gE_norm_ne_zero σ2) (gE_norm_ne_top σ2 hσ), mul_comm]
  exact h3

/-! ### the executable model -/

/-- "the model's loop, run on the stream with enough outer fuel, returns `y`" -/
def retM (τ σ2 : ℝ) (y : ℤ) : Set (ℕ → ℝ) :=
  {ω | ∃ N fuel rest, Smp.cksLoop τ σ2 fuel (pre ω N) = some (y, rest)}

/-- "the model's loop never returns, however long the prefix and however much outer fuel" (one of the inner loops
exhausts its fixed fuel, or — with probability zero — the loop runs forever) -/
def abortM (τ σ2 : ℝ) : Set (ℕ → ℝ) := {ω | ∀ N fuel, Smp.cksLoop τ σ2 fuel (pre ω N) = none}

theorem retM_subset (τ σ2 : ℝ) (h0 : 0 ≤ τ) (hσ : 0 < σ2) (y : ℤ) : retM τ σ2 y ⊆ retI τ σ2 y := by
  rintro ω ⟨N, fuel, rest, h⟩
  exact mem_iUnion.mpr ⟨(4096, fuel), N, rest, cksLoop_sub τ σ2 h0 hσ fuel _ y rest h⟩

/-- **the model's loop has the discrete Gaussian law up to its fuel-exhaustion event** -/
theorem cks_model_sandwich (τ σ2 : ℝ) (h0 : 0 < τ) (hσ : 0 < σ2) (y : ℤ) :
    streamμ (retM τ σ2 y) ≤ dGauss σ2 y ∧ dGauss σ2 y ≤ streamμ (retM τ σ2 y) + streamμ (abortM τ σ2) := by
  have hle : ∀ z, streamμ (retM τ σ2 z) ≤ dGauss σ2 z := fun z => by
    rw [← retI_law τ σ2 h0 hσ z]; exact measure_mono (retM_subset τ σ2 h0.le hσ z)
  refine ⟨hle y, ?_⟩
  classical
  have hcover : (univ : Set (ℕ → ℝ)) ⊆ (retM τ σ2 y ∪ abortM τ σ2) ∪ ⋃ z : ℤ, (if z = y then ∅ else retM τ σ2 z) := by
    intro ω _
    by_cases hab : ω ∈ abortM τ σ2
    · exact Or.inl (Or.inr hab)
    · simp only [abortM, mem_ofPred_eq, not_forall] at hab
      obtain ⟨N, fuel, hne⟩ := hab
      cases hr : Smp.cksLoop τ σ2 fuel (pre ω N) with
      | none => exact absurd hr hne
      | some p =>
        obtain ⟨z, rest⟩ := p
        by_cases hz : z = y
        · subst hz; exact Or.inl (Or.inl ⟨N, fuel, rest, hr⟩)
        · refine Or.inr (mem_iUnion.mpr ⟨z, ?_⟩)
          rw [if_neg hz]; exact ⟨N, fuel, rest, hr⟩
  set T := ∑' z : ℤ, ite (z = y) 0 (dGauss σ2 z) with hT
  have hsum : dGauss σ2 y + T = 1 := by
    rw [← dGauss_tsum σ2 hσ, ENNReal.tsum_eq_add_tsum_ite y]
    congr 1; apply tsum_congr; intro z
    by_cases hz : z = y <;> simp [hz]
  have hTtop : T ≠ ⊤ := by
    have : T ≤ 1 := by rw [← hsum]; exact le_add_self
    exact ne_top_of_le_ne_top ENNReal.one_ne_top this
  have hrest : streamμ (⋃ z : ℤ, (if z = y then ∅ else retM τ σ2 z)) ≤ T := by
    refine (measure_iUnion_le _).trans (ENNReal.tsum_le_tsum fun z => ?_)
    by_cases hz : z = y
    · rw [if_pos hz, if_pos hz]; simp
    · rw [if_neg hz, if_neg hz]; exact hle z
  have h1 : (1 : ℝ≥0∞) ≤ (streamμ (retM τ σ2 y) + streamμ (abortM τ σ2)) + T := by
    calc (1 : ℝ≥0∞) = streamμ univ := measure_univ.symm
      _ ≤ streamμ ((retM τ σ2 y ∪ abortM τ σ2) ∪ ⋃ z : ℤ, (if z = y then ∅ else retM τ σ2 z)) := measure_mono hcover
      _ ≤ streamμ (retM τ σ2 y ∪ abortM τ σ2) + streamμ (⋃ z : ℤ, (if z = y then ∅ else retM τ σ2 z)) :=
          measure_union_le _ _
      _ ≤ _ := add_le_add (measure_union_le _ _) hrest
  rw [← hsum] at h1
  exact (ENNReal.add_le_add_iff_right hTtop).mp h1

end DPL.SmpS
