/-
Helper lemmas about `totalCore` (the arithmetic of `BudgetAccountant.total`) and the bisection of `remaining`,
used by `DPL/Properties/C05.lean` and `DPL/Properties/C18.lean`.

Part 1 is carrier-independent (sorting is a permutation; unfolding of the `Except` plumbing; the generic loop rule).
Part 2 instantiates the same model definitions at `ℝ`.
-/
import DPL.Model.Accountant
import DPL.Proofs.RealCarrier
import Mathlib.Algebra.BigOperators.Group.List.Basic
import Mathlib.Algebra.Order.BigOperators.Group.List
import Mathlib.Data.List.Perm.Basic
import Mathlib.Analysis.SpecialFunctions.Pow.Real
import Mathlib.Analysis.SpecialFunctions.Exp
import Mathlib.Tactic.Ring
import Mathlib.Tactic.Linarith
import Mathlib.Tactic.Positivity
import Mathlib.Tactic.FieldSimp
import Mathlib.Tactic.NormNum

namespace DPL

/-! ## Part 1 — any carrier -/

section generic
variable {α : Type} [OfNat α 0] [OfNat α 1] [OfNat α 2] [Add α] [Sub α] [Mul α] [Div α] [Neg α]
  [LT α] [LE α] [DecidableLT α] [DecidableLE α] [NatCast α] [Transc α] [HasInf α]

theorem insertSorted_perm (x : α) (l : List α) : (insertSorted x l).Perm (x :: l) := by
  induction l with
  | nil => simp [insertSorted]
  | cons y ys ih =>
    simp only [insertSorted]; split
    · exact (List.Perm.cons y ih).trans (List.Perm.swap x y ys)
    · exact List.Perm.refl _

theorem sortAsc_perm (l : List α) : (sortAsc l).Perm l := by
  induction l with
  | nil => simp [sortAsc]
  | cons x xs ih => exact (insertSorted_perm x _).trans (List.Perm.cons x ih)

/-- what a successful `checkEpsDelta` says (any carrier) -/
theorem checkEpsDelta_ok (e d : α) (h : checkEpsDelta e d = .ok ()) :
    0 ≤ e ∧ 0 ≤ d ∧ d ≤ 1 ∧ feq (e + d) 0 = false := by
  unfold checkEpsDelta at h
  by_cases h1 : 0 ≤ e
  · by_cases h2 : 0 ≤ d
    · by_cases h3 : d ≤ 1
      · cases h4 : feq (e + d) 0
        · exact ⟨h1, h2, h3, rfl⟩
        · simp [h1, h2, h3, h4] at h
      · simp [h1, h2, h3] at h
    · simp [h1, h2] at h
  · simp [h1] at h

theorem forM_checkEpsDelta_ok (l : List (Spend α))
    (h : l.forM (fun sp => checkEpsDelta sp.eps sp.delta) = .ok ()) :
    ∀ sp ∈ l, checkEpsDelta sp.eps sp.delta = .ok () := by
  induction l with
  | nil => intro sp hsp; cases hsp
  | cons x xs ih =>
    simp only [List.forM] at h
    simp only [bind, Except.bind] at h
    split at h
    · cases h
    · rename_i u hu
      intro sp hsp
      rcases List.mem_cons.mp hsp with rfl | hm
      · cases u; exact hu
      · exact ih h sp hm

/-- what a successful `mkBudget` says -/
theorem mkBudget_ok (e d : α) (t : Tot α) (h : mkBudget e d = .ok t) :
    t = ⟨e, d⟩ ∧ 0 ≤ e ∧ 0 ≤ d ∧ d ≤ 1 := by
  unfold mkBudget at h
  by_cases h1 : 0 ≤ e
  · by_cases h2 : 0 ≤ d
    · by_cases h3 : d ≤ 1
      · simp only [h1, h2, h3, decide_true, Bool.not_true, Bool.false_eq_true, if_false, Bool.and_self,
          Except.ok.injEq] at h
        exact ⟨h.symm, h1, h2, h3⟩
      · simp [h1, h2, h3] at h
    · simp [h1, h2] at h
  · simp [h1] at h

/-- what a successful `totalGiven` says: the result is `totalCore`, every spend and the slack passed validation -/
theorem totalGiven_ok (cd : α) (spent : List (Spend α)) (slack : α) (t : Tot α)
    (h : totalGiven cd spent slack = .ok t) :
    t = totalCore spent slack ∧ (∀ sp ∈ spent, checkEpsDelta sp.eps sp.delta = .ok ()) ∧
      0 ≤ slack ∧ slack ≤ cd := by
  unfold totalGiven at h
  simp only [bind, Except.bind, pure, Except.pure] at h
  split at h
  · cases h
  · rename_i u hu
    split at h
    · cases h
    · rename_i hs
      have hs' : 0 ≤ slack ∧ slack ≤ cd := by
        by_cases h2 : 0 ≤ slack
        · by_cases h3 : slack ≤ cd
          · exact ⟨h2, h3⟩
          · simp [h2, h3] at hs
        · simp [h2] at hs
      have hb := mkBudget_ok _ _ t h
      refine ⟨?_, forM_checkEpsDelta_ok spent (by cases u; exact hu), hs'.1, hs'.2⟩
      rw [hb.1]

/-- one bisection step, unfolded (any carrier) -/
theorem remStep_ok (a : Acc α) (k : Nat) (b b' : Bis α) (h : a.remStep k b = .ok b') :
    ∃ t, totalGiven a.ceilDelta (a.spent ++ List.replicate k ⟨(b.upper + b.lower) / 2, 0⟩) a.slack = .ok t ∧
      b' = ⟨if t.eps ≤ a.ceilEps then (b.upper + b.lower) / 2 else b.lower,
            if a.ceilEps ≤ t.eps then (b.upper + b.lower) / 2 else b.upper,
            b.upper - b.lower⟩ := by
  unfold Acc.remStep at h
  simp only [bind, Except.bind, pure, Except.pure] at h
  split at h
  · cases h
  · rename_i t ht
    cases h
    exact ⟨t, ht, rfl⟩

/-- ★ the loop rule for `remaining`'s `while` (any carrier): an indexed invariant that every executed iteration
advances is established for the final state; the loop reports how many iterations ran, and it stops either because
the fuel is exhausted or because the code's own test `old_interval_size > upper - lower` fails. -/
theorem remLoop_spec (a : Acc α) (k : Nat) (P : Nat → Bis α → Prop)
    (hstep : ∀ i b b', P i b → b.upper - b.lower < b.old → a.remStep k b = .ok b' → P (i + 1) b') :
    ∀ (fuel i : Nat) (b r : Bis α) (n : Nat), P i b → a.remLoop k fuel b = .ok (r, n) →
      P (i + n) r ∧ n ≤ fuel ∧ (n = fuel ∨ ¬ (r.upper - r.lower < r.old)) := by
  intro fuel
  induction fuel with
  | zero =>
    intro i b r n hP h
    simp only [Acc.remLoop] at h
    cases h
    exact ⟨hP, Nat.le_refl _, Or.inl rfl⟩
  | succ fuel ih =>
    intro i b r n hP h
    simp only [Acc.remLoop] at h
    split at h
    · rename_i hc
      simp only [bind, Except.bind, pure, Except.pure] at h
      split at h
      · cases h
      · rename_i b' hb'
        split at h
        · cases h
        · rename_i rn hrn
          obtain ⟨r', n'⟩ := rn
          simp only [Except.ok.injEq, Prod.mk.injEq] at h
          obtain ⟨rfl, rfl⟩ := h
          have := ih (i + 1) b' r' n' (hstep i b b' hP hc hb') hrn
          refine ⟨by simpa [Nat.add_assoc, Nat.add_comm 1 n'] using this.1, Nat.succ_le_succ this.2.1, ?_⟩
          rcases this.2.2 with h1 | h1
          · exact Or.inl (by rw [h1])
          · exact Or.inr h1
    · rename_i hc
      cases h
      exact ⟨hP, Nat.zero_le _, Or.inr hc⟩

/-- `remaining`, unfolded (any carrier) -/
theorem remaining_ok (a : Acc α) (k fuel : Nat) (r : Tot α) (n : Nat) (h : a.remaining k fuel = .ok (r, n)) :
    1 ≤ k ∧ ∃ t b, a.total = .ok t ∧
      a.remLoop k fuel ⟨0, a.ceilEps, (a.ceilEps - 0) * 2⟩ = .ok (b, n) ∧
      r.eps = (b.upper + b.lower) / 2 ∧
      r.delta = (if t.delta < 1 then 1 - Transc.pow ((1 - a.ceilDelta) / (1 - t.delta)) (1 / (k : α)) else 1) ∧
      0 ≤ r.eps ∧ 0 ≤ r.delta ∧ r.delta ≤ 1 := by
  unfold Acc.remaining at h
  by_cases hk : k < 1
  · simp [hk, bind, Except.bind, throw, throwThe, MonadExceptOf.throw] at h
  · simp only [hk, if_false, bind, Except.bind, pure, Except.pure] at h
    split at h
    · cases h
    · rename_i t ht
      split at h
      · cases h
      · rename_i bn hbn
        obtain ⟨b, n'⟩ := bn
        split at h
        · cases h
        · rename_i rr hrr
          simp only [Except.ok.injEq, Prod.mk.injEq] at h
          obtain ⟨rfl, rfl⟩ := h
          have hb := mkBudget_ok _ _ _ hrr
          refine ⟨Nat.le_of_not_lt hk, t, b, ht, hbn, ?_, ?_, ?_, ?_, ?_⟩
          · rw [hb.1]
          · rw [hb.1]
          · rw [hb.1]; exact hb.2.1
          · rw [hb.1]; exact hb.2.2.1
          · rw [hb.1]; exact hb.2.2.2

end generic

/-! ## Part 2 — the model at `ℝ` -/

/-- the coded per-spend term of the advanced-composition sums -/
noncomputable def gTerm (e : ℝ) : ℝ := (1 - Real.exp (-e)) * e / (1 + Real.exp (-e))

theorem feq_real (a b : ℝ) : feq a b = true ↔ a = b := by
  simp only [feq, Bool.and_eq_true, decide_eq_true_eq]
  exact ⟨fun h => le_antisymm h.1 h.2, fun h => ⟨h.le, h.ge⟩⟩

theorem pyMin3_real (a b c : ℝ) : pyMin3 a b c = min a (min b c) := by
  unfold pyMin3
  by_cases h1 : b < a
  · simp only [h1, if_true]
    by_cases h2 : c < b
    · simp only [h2, if_true]; rw [min_eq_right h2.le, min_eq_right (h2.trans h1).le]
    · simp only [h2, if_false]; rw [min_eq_left (not_lt.mp h2), min_eq_right h1.le]
  · simp only [h1, if_false]
    by_cases h2 : c < a
    · simp only [h2, if_true]
      rw [min_eq_right (h2.le.trans (not_lt.mp h1)), min_eq_right h2.le]
    · simp only [h2, if_false]
      exact (min_eq_left (le_min (not_lt.mp h1) (not_lt.mp h2))).symm

theorem deltaFold_eq (l : List ℝ) (p : ℝ) :
    l.foldl (fun p d => p + (d - p * d)) p = 1 - (1 - p) * (l.map (fun d => 1 - d)).prod := by
  induction l generalizing p with
  | nil => simp
  | cons d ds ih =>
    simp only [List.foldl_cons, List.map_cons, List.prod_cons]
    rw [ih]; ring

/-- the sorted, numerically careful accumulation is `1 − (1−slack)·Π(1−δᵢ)` -/
theorem totalDeltaSafe_eq (deltas : List ℝ) (slack : ℝ) :
    totalDeltaSafe deltas slack = 1 - (1 - slack) * (deltas.map (fun d => 1 - d)).prod := by
  unfold totalDeltaSafe
  rw [deltaFold_eq]
  have hp := (sortAsc_perm (slack :: deltas)).map (fun d => 1 - d)
  rw [hp.prod_eq]; simp

theorem epsSums_foldl (l : List (Spend ℝ)) (s : Sums ℝ) :
    l.foldl (fun s sp =>
      ({ sum := s.sum + sp.eps
         expSum := s.expSum + (1 - Transc.exp (-sp.eps)) * sp.eps / (1 + Transc.exp (-sp.eps))
         sqSum := s.sqSum + sp.eps * sp.eps } : Sums ℝ)) s =
      ⟨s.sum + (l.map (·.eps)).sum, s.expSum + (l.map (fun sp => gTerm sp.eps)).sum,
       s.sqSum + (l.map (fun sp => sp.eps * sp.eps)).sum⟩ := by
  induction l generalizing s with
  | nil => simp
  | cons x xs ih =>
    simp only [List.foldl_cons, List.map_cons, List.sum_cons]
    rw [ih]
    simp only [transc_exp, gTerm, add_assoc]

/-- the three running sums are the three sums -/
theorem epsSums_eq (l : List (Spend ℝ)) :
    epsSums l = ⟨(l.map (·.eps)).sum, (l.map (fun sp => gTerm sp.eps)).sum,
                 (l.map (fun sp => sp.eps * sp.eps)).sum⟩ := by
  unfold epsSums
  rw [epsSums_foldl]
  simp

/-- the epsilon expression of `total` as a function of the three sums (slack ≠ 0) -/
noncomputable def epsOf (S E Q slack : ℝ) : ℝ :=
  min S (min (E + Real.sqrt (2 * Q * Real.log (1 / slack)))
             (E + Real.sqrt (2 * Q * Real.log (Real.exp 1 + Real.sqrt Q / slack))))

theorem totalCore_eps_pos (l : List (Spend ℝ)) (slack : ℝ) (h : slack ≠ 0) :
    (totalCore l slack).eps =
      epsOf (l.map (·.eps)).sum (l.map (fun sp => gTerm sp.eps)).sum (l.map (fun sp => sp.eps * sp.eps)).sum slack := by
  have hf : feq slack 0 = false := by
    rw [Bool.eq_false_iff]; intro hh; exact h ((feq_real _ _).mp hh)
  simp only [totalCore, hf, Bool.false_eq_true, if_false, pyMin3_real, epsSums_eq, drvEps, kovEps, epsOf,
    transc_sqrt, transc_log, transc_exp]

theorem totalCore_eps_zero (l : List (Spend ℝ)) : (totalCore l 0).eps = (l.map (·.eps)).sum := by
  have hf : feq (0 : ℝ) 0 = true := (feq_real _ _).mpr rfl
  simp only [totalCore, hf, if_true, epsSums_eq]

theorem totalCore_delta (l : List (Spend ℝ)) (slack : ℝ) :
    (totalCore l slack).delta = 1 - (1 - slack) * (l.map (fun sp => 1 - sp.delta)).prod := by
  have : (totalCore l slack).delta = totalDeltaSafe (l.map (·.delta)) slack := by
    simp only [totalCore]; split <;> rfl
  rw [this, totalDeltaSafe_eq, List.map_map]
  rfl

/-! ### monotonicity -/

theorem gTerm_zero : gTerm 0 = 0 := by simp [gTerm]

theorem gTerm_eq (e : ℝ) : gTerm e = e * ((1 - Real.exp (-e)) / (1 + Real.exp (-e))) := by
  unfold gTerm; ring

theorem ratio_nonneg {e : ℝ} (h : 0 ≤ e) : 0 ≤ (1 - Real.exp (-e)) / (1 + Real.exp (-e)) := by
  have h1 : Real.exp (-e) ≤ 1 := Real.exp_le_one_iff.mpr (by linarith)
  have h2 : 0 < Real.exp (-e) := Real.exp_pos _
  exact div_nonneg (by linarith) (by linarith)

theorem gTerm_nonneg {e : ℝ} (h : 0 ≤ e) : 0 ≤ gTerm e := by
  rw [gTerm_eq]; exact mul_nonneg h (ratio_nonneg h)

theorem gTerm_mono {x y : ℝ} (hx : 0 ≤ x) (hxy : x ≤ y) : gTerm x ≤ gTerm y := by
  rw [gTerm_eq, gTerm_eq]
  have ha : 0 < Real.exp (-x) := Real.exp_pos _
  have hb : 0 < Real.exp (-y) := Real.exp_pos _
  have hab : Real.exp (-y) ≤ Real.exp (-x) := Real.exp_le_exp.mpr (by linarith)
  have hr : (1 - Real.exp (-x)) / (1 + Real.exp (-x)) ≤ (1 - Real.exp (-y)) / (1 + Real.exp (-y)) := by
    rw [div_le_div_iff₀ (by linarith) (by linarith)]
    nlinarith
  exact mul_le_mul hxy hr (ratio_nonneg hx) (hx.trans hxy)

/-- the epsilon expression is monotone in each of the three sums -/
theorem epsOf_mono {S S' E E' Q Q' slack : ℝ} (hS : S ≤ S') (hE : E ≤ E') (hQ0 : 0 ≤ Q) (hQ : Q ≤ Q')
    (hs0 : 0 < slack) (hs1 : slack ≤ 1) : epsOf S E Q slack ≤ epsOf S' E' Q' slack := by
  unfold epsOf
  have hL : 0 ≤ Real.log (1 / slack) := Real.log_nonneg (by rw [le_div_iff₀ hs0]; linarith)
  have hsq : Real.sqrt Q / slack ≤ Real.sqrt Q' / slack :=
    div_le_div_of_nonneg_right (Real.sqrt_le_sqrt hQ) hs0.le
  have hq0 : 0 ≤ Real.sqrt Q / slack := div_nonneg (Real.sqrt_nonneg _) hs0.le
  have he1 : (1 : ℝ) ≤ Real.exp 1 := Real.one_le_exp (by norm_num)
  have hK0 : 0 ≤ Real.log (Real.exp 1 + Real.sqrt Q / slack) := Real.log_nonneg (by linarith)
  have hK : Real.log (Real.exp 1 + Real.sqrt Q / slack) ≤ Real.log (Real.exp 1 + Real.sqrt Q' / slack) :=
    Real.log_le_log (by linarith) (by linarith)
  refine min_le_min hS (min_le_min (add_le_add hE (Real.sqrt_le_sqrt ?_)) (add_le_add hE (Real.sqrt_le_sqrt ?_)))
  · exact mul_le_mul_of_nonneg_right (by linarith) hL
  · exact mul_le_mul (by linarith) hK hK0 (by linarith [hQ0.trans hQ])

theorem sum_sq_nonneg (l : List (Spend ℝ)) : 0 ≤ (l.map (fun sp => sp.eps * sp.eps)).sum := by
  apply List.sum_nonneg
  intro x hx
  obtain ⟨sp, _, rfl⟩ := List.mem_map.mp hx
  exact mul_self_nonneg _

theorem prod_one_sub_nonneg (l : List (Spend ℝ)) (h : ∀ sp ∈ l, sp.delta ≤ 1) :
    0 ≤ (l.map (fun sp => 1 - sp.delta)).prod := by
  apply List.prod_nonneg
  intro x hx
  obtain ⟨sp, hsp, rfl⟩ := List.mem_map.mp hx
  linarith [h sp hsp]

theorem prod_one_sub_le_one (l : List (Spend ℝ)) (h : ∀ sp ∈ l, 0 ≤ sp.delta ∧ sp.delta ≤ 1) :
    (l.map (fun sp => 1 - sp.delta)).prod ≤ 1 := by
  induction l with
  | nil => simp
  | cons x xs ih =>
    simp only [List.map_cons, List.prod_cons]
    have h1 := h x (List.mem_cons_self ..)
    have h2 := ih (fun sp hsp => h sp (List.mem_cons_of_mem _ hsp))
    have h3 := prod_one_sub_nonneg xs (fun sp hsp => (h sp (List.mem_cons_of_mem _ hsp)).2)
    nlinarith

/-! ### `f(x)` = total epsilon after `k` further spends of `(x, 0)` -/

/-- total epsilon of the history followed by `k` spends of `(x, 0)` -/
noncomputable def afterK (spent : List (Spend ℝ)) (slack : ℝ) (k : Nat) (x : ℝ) : ℝ :=
  (totalCore (spent ++ List.replicate k ⟨x, 0⟩) slack).eps

theorem sums_append_replicate (spent : List (Spend ℝ)) (k : Nat) (sp : Spend ℝ) (g : Spend ℝ → ℝ) :
    ((spent ++ List.replicate k sp).map g).sum = (spent.map g).sum + k * g sp := by
  simp [List.map_append, List.sum_append, List.map_replicate, List.sum_replicate]

theorem afterK_mono (spent : List (Spend ℝ)) (slack : ℝ) (k : Nat) (hs0 : 0 ≤ slack) (hs1 : slack ≤ 1)
    {x y : ℝ} (hx : 0 ≤ x) (hxy : x ≤ y) : afterK spent slack k x ≤ afterK spent slack k y := by
  unfold afterK
  have hk : (0 : ℝ) ≤ k := Nat.cast_nonneg k
  rcases eq_or_lt_of_le hs0 with h0 | hpos
  · subst h0
    rw [totalCore_eps_zero, totalCore_eps_zero, sums_append_replicate, sums_append_replicate]
    exact add_le_add le_rfl (mul_le_mul_of_nonneg_left hxy hk)
  · rw [totalCore_eps_pos _ _ hpos.ne', totalCore_eps_pos _ _ hpos.ne']
    rw [sums_append_replicate, sums_append_replicate, sums_append_replicate, sums_append_replicate,
      sums_append_replicate, sums_append_replicate]
    apply epsOf_mono _ _ _ _ hpos hs1
    · exact add_le_add le_rfl (mul_le_mul_of_nonneg_left hxy hk)
    · exact add_le_add le_rfl (mul_le_mul_of_nonneg_left (gTerm_mono hx hxy) hk)
    · exact add_nonneg (sum_sq_nonneg _) (mul_nonneg hk (mul_self_nonneg _))
    · exact add_le_add le_rfl (mul_le_mul_of_nonneg_left (mul_self_le_mul_self hx hxy) hk)

theorem afterK_zero (spent : List (Spend ℝ)) (slack : ℝ) (k : Nat) :
    afterK spent slack k 0 = (totalCore spent slack).eps := by
  unfold afterK
  by_cases h0 : slack = 0
  · subst h0
    rw [totalCore_eps_zero, totalCore_eps_zero, sums_append_replicate]; simp
  · rw [totalCore_eps_pos _ _ h0, totalCore_eps_pos _ _ h0]
    rw [sums_append_replicate, sums_append_replicate, sums_append_replicate]
    simp [gTerm_zero]

/-! ### what `check` accepts (over ℝ) -/

theorem checkEpsDelta_of (e d : ℝ) (he : 0 ≤ e) (hd0 : 0 ≤ d) (hd1 : d ≤ 1) (hne : e + d ≠ 0) :
    checkEpsDelta e d = .ok () := by
  have hf : feq (e + d) 0 = false := by
    rw [Bool.eq_false_iff]; intro hh; exact hne ((feq_real _ _).mp hh)
  simp [checkEpsDelta, he, hd0, hd1, hf]

theorem mkBudget_of (e d : ℝ) (he : 0 ≤ e) (hd0 : 0 ≤ d) (hd1 : d ≤ 1) : mkBudget e d = .ok ⟨e, d⟩ := by
  simp [mkBudget, he, hd0, hd1]

theorem forM_of_forall {α : Type} (f : α → Except Err Unit) (l : List α) (h : ∀ x ∈ l, f x = .ok ()) :
    l.forM f = .ok () := by
  induction l with
  | nil => rfl
  | cons x xs ih =>
    simp only [List.forM]
    simp only [bind, Except.bind, h x (List.mem_cons_self ..)]
    exact ih (fun y hy => h y (List.mem_cons_of_mem _ hy))

theorem totalCore_eps_nonneg (l : List (Spend ℝ)) (slack : ℝ) (hl : ∀ sp ∈ l, 0 ≤ sp.eps) :
    0 ≤ (totalCore l slack).eps := by
  have hS : 0 ≤ (l.map (·.eps)).sum := by
    apply List.sum_nonneg; intro x hx
    obtain ⟨sp, hsp, rfl⟩ := List.mem_map.mp hx
    exact hl sp hsp
  by_cases h0 : slack = 0
  · subst h0; rw [totalCore_eps_zero]; exact hS
  · rw [totalCore_eps_pos _ _ h0, epsOf]
    have hE : 0 ≤ (l.map (fun sp => gTerm sp.eps)).sum := by
      apply List.sum_nonneg; intro x hx
      obtain ⟨sp, hsp, rfl⟩ := List.mem_map.mp hx
      exact gTerm_nonneg (hl sp hsp)
    exact le_min hS (le_min (add_nonneg hE (Real.sqrt_nonneg _)) (add_nonneg hE (Real.sqrt_nonneg _)))

theorem totalCore_delta_range (l : List (Spend ℝ)) (slack : ℝ)
    (hl : ∀ sp ∈ l, 0 ≤ sp.delta ∧ sp.delta ≤ 1) (hs0 : 0 ≤ slack) (hs1 : slack ≤ 1) :
    0 ≤ (totalCore l slack).delta ∧ (totalCore l slack).delta ≤ 1 := by
  rw [totalCore_delta]
  have hp := prod_one_sub_nonneg l (fun sp h => (hl sp h).2)
  have hp1 := prod_one_sub_le_one l hl
  constructor
  · nlinarith
  · nlinarith

/-- appending one spend `(e, d)`, `e ≥ 0`, `d ≥ 0`, does not decrease either component -/
theorem totalCore_mono_append (l : List (Spend ℝ)) (slack e d : ℝ)
    (hl : ∀ sp ∈ l, sp.delta ≤ 1) (hs0 : 0 ≤ slack) (hs1 : slack ≤ 1) (he : 0 ≤ e) (hd0 : 0 ≤ d) :
    (totalCore l slack).eps ≤ (totalCore (l ++ [⟨e, d⟩]) slack).eps ∧
    (totalCore l slack).delta ≤ (totalCore (l ++ [⟨e, d⟩]) slack).delta := by
  constructor
  · rcases eq_or_lt_of_le hs0 with h0 | hpos
    · subst h0
      rw [totalCore_eps_zero, totalCore_eps_zero]
      simp only [List.map_append, List.sum_append, List.map_cons, List.map_nil, List.sum_cons, List.sum_nil]
      linarith
    · rw [totalCore_eps_pos _ _ hpos.ne', totalCore_eps_pos _ _ hpos.ne']
      simp only [List.map_append, List.sum_append, List.map_cons, List.map_nil, List.sum_cons, List.sum_nil]
      apply epsOf_mono _ _ (sum_sq_nonneg l) _ hpos hs1
      · linarith
      · linarith [gTerm_nonneg he]
      · linarith [mul_self_nonneg e]
  · rw [totalCore_delta, totalCore_delta]
    simp only [List.map_append, List.prod_append, List.map_cons, List.map_nil, List.prod_cons, List.prod_nil]
    have hp := prod_one_sub_nonneg l hl
    have : 0 ≤ (1 - slack) * (l.map (fun sp => 1 - sp.delta)).prod * d :=
      mul_nonneg (mul_nonneg (by linarith) hp) hd0
    nlinarith

/-- a prefix of `j` further identical spends costs no more than all of them -/
theorem totalCore_le_append_replicate (l : List (Spend ℝ)) (slack e d : ℝ) (j : Nat)
    (hl : ∀ sp ∈ l, sp.delta ≤ 1) (hs0 : 0 ≤ slack) (hs1 : slack ≤ 1) (he : 0 ≤ e) (hd0 : 0 ≤ d) (hd1 : d ≤ 1) :
    (totalCore l slack).eps ≤ (totalCore (l ++ List.replicate j ⟨e, d⟩) slack).eps ∧
    (totalCore l slack).delta ≤ (totalCore (l ++ List.replicate j ⟨e, d⟩) slack).delta := by
  induction j with
  | zero => simp
  | succ j ih =>
    rw [List.replicate_succ', ← List.append_assoc]
    have hl' : ∀ sp ∈ l ++ List.replicate j ⟨e, d⟩, sp.delta ≤ 1 := by
      intro sp hsp
      rcases List.mem_append.mp hsp with h | h
      · exact hl sp h
      · rw [(List.mem_replicate.mp h).2]; exact hd1
    have := totalCore_mono_append (l ++ List.replicate j ⟨e, d⟩) slack e d hl' hs0 hs1 he hd0
    exact ⟨ih.1.trans this.1, ih.2.trans this.2⟩

/-- `check(e, d)` over ℝ accepts whenever the arguments are valid, `e` is not below the minimum spend, the history
is valid and the total including the new spend is within the ceiling -/
theorem check_accepts (a : Acc ℝ) (e d : ℝ)
    (hvalid : ∀ sp ∈ a.spent, checkEpsDelta sp.eps sp.delta = .ok ())
    (he : 0 ≤ e) (hd0 : 0 ≤ d) (hd1 : d ≤ 1) (hne : e + d ≠ 0) (hmin : ¬ (0 < e ∧ e < a.minEps))
    (hs0 : 0 ≤ a.slack) (hs1 : a.slack ≤ 1)
    (heps : (totalCore (a.spent ++ [⟨e, d⟩]) a.slack).eps ≤ a.ceilEps)
    (hdel : (totalCore (a.spent ++ [⟨e, d⟩]) a.slack).delta ≤ a.ceilDelta) :
    a.check e d = .ok () := by
  have h1 := checkEpsDelta_of e d he hd0 hd1 hne
  have hall : ∀ sp ∈ a.spent ++ [⟨e, d⟩], checkEpsDelta sp.eps sp.delta = .ok () := by
    intro sp hsp
    rcases List.mem_append.mp hsp with h | h
    · exact hvalid sp h
    · rw [List.mem_singleton.mp h]; exact h1
  have h4 := forM_of_forall (fun sp : Spend ℝ => checkEpsDelta sp.eps sp.delta) _ hall
  have hrange : ∀ sp ∈ a.spent ++ [⟨e, d⟩], 0 ≤ sp.eps ∧ 0 ≤ sp.delta ∧ sp.delta ≤ 1 := by
    intro sp hsp
    have := checkEpsDelta_ok sp.eps sp.delta (hall sp hsp)
    exact ⟨this.1, this.2.1, this.2.2.1⟩
  have h5e := totalCore_eps_nonneg (a.spent ++ [⟨e, d⟩]) a.slack (fun sp h => (hrange sp h).1)
  have h5d := totalCore_delta_range (a.spent ++ [⟨e, d⟩]) a.slack (fun sp h => (hrange sp h).2) hs0 hs1
  have h5 := mkBudget_of _ _ h5e h5d.1 h5d.2
  have h3 : (decide (0 < e) && decide (e < a.minEps)) = false := by
    rw [Bool.eq_false_iff]; intro hh
    simp only [Bool.and_eq_true, decide_eq_true_eq] at hh
    exact hmin hh
  unfold Acc.check
  simp only [bind, Except.bind, pure, Except.pure, h1, Acc.unlimited, isPosInf_real, Bool.false_and,
    Bool.false_eq_true, if_false, h3, h4, h5, heps, hdel, decide_true, Bool.and_self, if_true]

/-- conversely, over ℝ an accepted `check(e, d)` means the total including the new spend is within the ceiling -/
theorem check_ok_total_le (a : Acc ℝ) (e d : ℝ) (h : a.check e d = .ok ()) :
    (totalCore (a.spent ++ [⟨e, d⟩]) a.slack).eps ≤ a.ceilEps ∧
    (totalCore (a.spent ++ [⟨e, d⟩]) a.slack).delta ≤ a.ceilDelta := by
  unfold Acc.check at h
  simp only [bind, Except.bind, pure, Except.pure, Acc.unlimited, isPosInf_real, Bool.false_and,
    Bool.false_eq_true, if_false] at h
  split at h
  · cases h
  · split at h
    · cases h
    · split at h
      · cases h
      · split at h
        · cases h
        · rename_i b hb
          obtain ⟨rfl, -, -, -⟩ := mkBudget_ok _ _ b hb
          split at h
          · rename_i hc
            simp only [Bool.and_eq_true, decide_eq_true_eq] at hc
            exact hc
          · cases h

theorem spend_ok (a a' : Acc ℝ) (e d : ℝ) (h : a.spend e d = .ok a') :
    a' = { a with spent := a.spent ++ [⟨e, d⟩] } ∧ a.check e d = .ok () := by
  unfold Acc.spend at h
  simp only [bind, Except.bind, pure, Except.pure] at h
  split at h
  · cases h
  · rename_i u hu
    cases u
    cases h
    exact ⟨rfl, hu⟩

/-- recording one more spend `(e, d)` with `e ≥ 0` in the history does not decrease `afterK` at any `x` -/
theorem afterK_append_ge (spent : List (Spend ℝ)) (slack : ℝ) (k : Nat) (hs0 : 0 ≤ slack) (hs1 : slack ≤ 1)
    (sp : Spend ℝ) (he : 0 ≤ sp.eps) (x : ℝ) :
    afterK spent slack k x ≤ afterK (spent ++ [sp]) slack k x := by
  unfold afterK
  rcases eq_or_lt_of_le hs0 with h0 | hpos
  · subst h0
    rw [totalCore_eps_zero, totalCore_eps_zero]
    simp only [List.map_append, List.sum_append, List.map_cons, List.map_nil, List.sum_cons, List.sum_nil]
    linarith
  · rw [totalCore_eps_pos _ _ hpos.ne', totalCore_eps_pos _ _ hpos.ne']
    simp only [List.map_append, List.sum_append, List.map_cons, List.map_nil, List.sum_cons, List.sum_nil]
    apply epsOf_mono _ _ _ _ hpos hs1
    · linarith
    · linarith [gTerm_nonneg he]
    · exact add_nonneg (sum_sq_nonneg _) (List.sum_nonneg (by
        intro y hy
        obtain ⟨z, _, rfl⟩ := List.mem_map.mp hy
        exact mul_self_nonneg _))
    · linarith [mul_self_nonneg sp.eps]

/-! ### the bisection over ℝ: staying inside the bracket, and two bisections in lockstep -/

/-- `a.total` over ℝ, when it returns, returns `totalCore` -/
theorem total_ok (a : Acc ℝ) (t : Tot ℝ) (h : a.total = .ok t) :
    t = totalCore a.spent a.slack ∧ 0 ≤ t.eps ∧ 0 ≤ t.delta ∧ t.delta ≤ 1 := by
  unfold Acc.total at h
  obtain ⟨rfl, h1, h2, h3⟩ := mkBudget_ok _ _ t h
  exact ⟨rfl, h1, h2, h3⟩

/-- one bisection step stays inside the bracket -/
theorem remStep_sub (a : Acc ℝ) (k : Nat) (b b' : Bis ℝ) (hb' : a.remStep k b = .ok b') (hlu : b.lower ≤ b.upper) :
    b.lower ≤ b'.lower ∧ b'.lower ≤ b'.upper ∧ b'.upper ≤ b.upper := by
  obtain ⟨t, -, rfl⟩ := remStep_ok a k b b' hb'
  dsimp only
  have hlm : b.lower ≤ (b.upper + b.lower) / 2 := by linarith
  have hmu : (b.upper + b.lower) / 2 ≤ b.upper := by linarith
  by_cases c1 : t.eps ≤ a.ceilEps <;> by_cases c2 : a.ceilEps ≤ t.eps
  · rw [if_pos c1, if_pos c2]; exact ⟨hlm, le_rfl, hmu⟩
  · rw [if_pos c1, if_neg c2]; exact ⟨hlm, hmu, le_rfl⟩
  · rw [if_neg c1, if_pos c2]; exact ⟨le_rfl, hlm, hmu⟩
  · exfalso; exact c2 (le_of_lt (not_le.mp c1))

/-- the whole loop stays inside its initial bracket -/
theorem remLoop_sub (a : Acc ℝ) (k fuel : Nat) (b r : Bis ℝ) (n : Nat) (hlu : b.lower ≤ b.upper)
    (h : a.remLoop k fuel b = .ok (r, n)) : b.lower ≤ r.lower ∧ r.lower ≤ r.upper ∧ r.upper ≤ b.upper := by
  have := remLoop_spec a k (fun _ x => b.lower ≤ x.lower ∧ x.lower ≤ x.upper ∧ x.upper ≤ b.upper) ?_
    fuel 0 b r n ⟨le_rfl, hlu, le_rfl⟩ h
  · exact this.1
  · intro i x x' hP _ hx'
    obtain ⟨h1, h2, h3⟩ := remStep_sub a k x x' hx' hP.2.1
    exact ⟨hP.1.trans h1, h2, h3.trans hP.2.2⟩

/-- two bisections run in lockstep against pointwise ordered totals (`a₁` is the more expensive history): the
brackets stay either identical or ordered -/
theorem remLoop_lockstep (a₁ a₂ : Acc ℝ) (k : Nat) (hce : a₁.ceilEps = a₂.ceilEps)
    (hF : ∀ x, afterK a₂.spent a₂.slack k x ≤ afterK a₁.spent a₁.slack k x) :
    ∀ (fuel : Nat) (b₁ b₂ r₁ r₂ : Bis ℝ) (n₁ n₂ : Nat), b₁.lower ≤ b₁.upper → b₂.lower ≤ b₂.upper →
      (b₁ = b₂ ∨ b₁.upper ≤ b₂.lower) →
      a₁.remLoop k fuel b₁ = .ok (r₁, n₁) → a₂.remLoop k fuel b₂ = .ok (r₂, n₂) →
      r₁.lower ≤ r₁.upper ∧ r₂.lower ≤ r₂.upper ∧
        ((r₁.lower = r₂.lower ∧ r₁.upper = r₂.upper) ∨ r₁.upper ≤ r₂.lower) := by
  intro fuel
  induction fuel with
  | zero =>
    intro b₁ b₂ r₁ r₂ n₁ n₂ h1 h2 hrel e1 e2
    simp only [Acc.remLoop] at e1 e2
    cases e1; cases e2
    rcases hrel with rfl | hd
    · exact ⟨h1, h2, Or.inl ⟨rfl, rfl⟩⟩
    · exact ⟨h1, h2, Or.inr hd⟩
  | succ fuel ih =>
    intro b₁ b₂ r₁ r₂ n₁ n₂ h1 h2 hrel e1 e2
    rcases hrel with rfl | hd
    · -- identical brackets: the loop test is the same for both
      simp only [Acc.remLoop] at e1 e2
      by_cases hc : b₁.upper - b₁.lower < b₁.old
      · rw [if_pos hc] at e1 e2
        simp only [bind, Except.bind, pure, Except.pure] at e1 e2
        split at e1
        · cases e1
        · rename_i b₁' hb₁'
          split at e2
          · cases e2
          · rename_i b₂' hb₂'
            split at e1
            · cases e1
            · rename_i rn₁ hrn₁
              split at e2
              · cases e2
              · rename_i rn₂ hrn₂
                obtain ⟨r₁', m₁⟩ := rn₁
                obtain ⟨r₂', m₂⟩ := rn₂
                simp only [Except.ok.injEq, Prod.mk.injEq] at e1 e2
                obtain ⟨rfl, -⟩ := e1
                obtain ⟨rfl, -⟩ := e2
                have s1 := remStep_sub a₁ k b₁ b₁' hb₁' h1
                have s2 := remStep_sub a₂ k b₁ b₂' hb₂' h1
                refine ih b₁' b₂' r₁' r₂' m₁ m₂ s1.2.1 s2.2.1 ?_ hrn₁ hrn₂
                obtain ⟨t₁, ht₁, rfl⟩ := remStep_ok a₁ k b₁ b₁' hb₁'
                obtain ⟨t₂, ht₂, rfl⟩ := remStep_ok a₂ k b₁ b₂' hb₂'
                obtain ⟨rfl, -, -, -⟩ := totalGiven_ok _ _ _ t₁ ht₁
                obtain ⟨rfl, -, -, -⟩ := totalGiven_ok _ _ _ t₂ ht₂
                have hv := hF ((b₁.upper + b₁.lower) / 2)
                unfold afterK at hv
                rw [← hce]
                set v₁ := (totalCore (a₁.spent ++ List.replicate k ⟨(b₁.upper + b₁.lower) / 2, 0⟩) a₁.slack).eps
                set v₂ := (totalCore (a₂.spent ++ List.replicate k ⟨(b₁.upper + b₁.lower) / 2, 0⟩) a₂.slack).eps
                by_cases c1 : v₁ ≤ a₁.ceilEps
                · have c1' : v₂ ≤ a₁.ceilEps := hv.trans c1
                  by_cases c2 : a₁.ceilEps ≤ v₁
                  · by_cases c3 : a₁.ceilEps ≤ v₂
                    · left; rw [if_pos c1, if_pos c2, if_pos c1', if_pos c3]
                    · right; rw [if_pos c2, if_pos c1']
                  · have c3 : ¬ a₁.ceilEps ≤ v₂ := fun h => c2 (h.trans hv)
                    left; rw [if_pos c1, if_neg c2, if_pos c1', if_neg c3]
                · have c2 : a₁.ceilEps ≤ v₁ := le_of_lt (not_le.mp c1)
                  by_cases c1' : v₂ ≤ a₁.ceilEps
                  · right; rw [if_pos c2, if_pos c1']
                  · have c3 : a₁.ceilEps ≤ v₂ := le_of_lt (not_le.mp c1')
                    left; rw [if_neg c1, if_pos c2, if_neg c1', if_pos c3]
      · rw [if_neg hc] at e1 e2
        cases e1; cases e2
        exact ⟨h1, h1, Or.inl ⟨rfl, rfl⟩⟩
    · -- ordered brackets stay ordered because each loop stays inside its own bracket
      have s1 := remLoop_sub a₁ k _ b₁ r₁ n₁ h1 e1
      have s2 := remLoop_sub a₂ k _ b₂ r₂ n₂ h2 e2
      exact ⟨s1.2.1, s2.2.1, Or.inr (s1.2.2.trans (hd.trans s2.1))⟩

end DPL
