/-
C04 stretch theorem `sum_fp_bound` (DESIGN §6 C04): why a slack-0 accountant whose FLOAT total passed the comparison
against the ceiling can exceed the ceiling in EXACT arithmetic by at most a factor `1 + 1e-12`.

With slack 0 the accountant's total ε is the sequentially accumulated floating-point sum of the recorded epsilons
(`totalCore_eps_slack0`, any carrier).  Under the standard model of floating-point addition — an explicit hypothesis
about an abstract rounded addition, never an axiom — every addition loses at most a factor `g` (`g = 1 + u` in the
form `a + b = fl(a+b)(1+θ)`, Higham (2.5); `g = 1/(1−u)` in the form `fl(a+b) = (a+b)(1+θ)`, Higham (2.4); `|θ| ≤ u`),
the first addition `0 + x` is exact, so the exact sum of `n` non-negative terms is at most `g^(n−1)` times the
accumulated one.  For binary64 (`u = 2⁻⁵³`) both factors stay below `1 + 1e-12` up to `n = 9000` spends.

The carrier is abstract (`β`, with a valuation `val : β → ℝ`), so that the statement applies to the model's
accountant on any carrier that embeds into ℝ; `β = ℝ`, `val = id` gives the plain list statement.
-/
import DPL.Model.Accountant
import DPL.Proofs.RealCarrier
import Mathlib.Algebra.BigOperators.Group.List.Basic
import Mathlib.Algebra.Order.BigOperators.Group.List
import Mathlib.Tactic.Ring
import Mathlib.Tactic.Linarith
import Mathlib.Tactic.Positivity
import Mathlib.Tactic.NormNum
import Mathlib.Tactic.FieldSimp

namespace DPL
namespace Fp

/-! ### the accumulation bound -/

/-- core induction: accumulate `xs` onto `acc` with a rounded addition `op` that loses at most a factor `g` -/
theorem accumulate_bound {β : Type} (op : β → β → β) (val : β → ℝ) (g : ℝ) (hg : 1 ≤ g)
    (hadd : ∀ a b, 0 ≤ val a → 0 ≤ val b → val a + val b ≤ val (op a b) * g)
    (xs : List β) (hx : ∀ x ∈ xs, 0 ≤ val x) (acc : β) (hacc : 0 ≤ val acc) (S : ℝ) (k : ℕ)
    (hS : S ≤ val acc * g ^ k) :
    S + (xs.map val).sum ≤ val (xs.foldl op acc) * g ^ (k + xs.length) := by
  have hg0 : 0 < g := lt_of_lt_of_le one_pos hg
  induction xs generalizing acc S k with
  | nil => simpa using hS
  | cons x xs ih =>
    have hx0 : 0 ≤ val x := hx x (by simp)
    have h1 := hadd acc x hacc hx0
    have hop : 0 ≤ val (op acc x) := by
      by_contra hneg
      have : val (op acc x) * g < 0 := mul_neg_of_neg_of_pos (not_le.mp hneg) hg0
      linarith
    have hgk : 1 ≤ g ^ k := one_le_pow₀ hg
    have hS' : S + val x ≤ val (op acc x) * g ^ (k + 1) := by
      have e1 : S + val x ≤ (val acc + val x) * g ^ k := by nlinarith
      have e2 : (val acc + val x) * g ^ k ≤ val (op acc x) * g * g ^ k :=
        mul_le_mul_of_nonneg_right h1 (by positivity)
      calc S + val x ≤ val (op acc x) * g * g ^ k := le_trans e1 e2
        _ = val (op acc x) * g ^ (k + 1) := by ring
    have := ih (fun y hy => hx y (by simp [hy])) (op acc x) hop (S + val x) (k + 1) hS'
    simp only [List.map_cons, List.sum_cons, List.foldl_cons, List.length_cons]
    have e : k + (xs.length + 1) = k + 1 + xs.length := by ring
    rw [e]
    linarith

/-- the exact sum of `n` non-negative terms is at most `g^(n−1)` times their float-accumulated sum
(`((0 ⊕ x₁) ⊕ x₂) ⊕ …`, the first addition `0 ⊕ x₁` being exact) -/
theorem sum_le_accumulated {β : Type} (op : β → β → β) (val : β → ℝ) (zero : β) (g : ℝ) (hg : 1 ≤ g)
    (hzero : val zero = 0) (hexact0 : ∀ x, val (op zero x) = val x)
    (hadd : ∀ a b, 0 ≤ val a → 0 ≤ val b → val a + val b ≤ val (op a b) * g)
    (xs : List β) (hx : ∀ x ∈ xs, 0 ≤ val x) :
    (xs.map val).sum ≤ val (xs.foldl op zero) * g ^ (xs.length - 1) := by
  cases xs with
  | nil => simp [hzero]
  | cons x xs =>
    have hx0 : 0 ≤ val x := hx x (by simp)
    have := accumulate_bound op val g hg hadd xs (fun y hy => hx y (by simp [hy])) (op zero x)
      (by rw [hexact0]; exact hx0) (val x) 0 (by rw [hexact0]; simp)
    simpa using this

/-! ### the two forms of the standard model -/

/-- `fl(a+b) = (a+b)(1+θ)`, `|θ| ≤ u` (Higham, Accuracy and Stability of Numerical Algorithms, (2.4)) -/
def StdModel {β : Type} (val : β → ℝ) (op : β → β → β) (u : ℝ) : Prop :=
  ∀ a b, ∃ θ : ℝ, |θ| ≤ u ∧ val (op a b) = (val a + val b) * (1 + θ)

/-- `fl(a+b) = (a+b)/(1+θ)`, `|θ| ≤ u` (Higham (2.5); both forms hold for round-to-nearest without overflow) -/
def StdModelInv {β : Type} (val : β → ℝ) (op : β → β → β) (u : ℝ) : Prop :=
  ∀ a b, ∃ θ : ℝ, |θ| ≤ u ∧ val a + val b = val (op a b) * (1 + θ)

theorem loss_of_inv {β : Type} (val : β → ℝ) (op : β → β → β) (u : ℝ) (hu1 : u < 1)
    (h : StdModelInv val op u) (a b : β) (ha : 0 ≤ val a) (hb : 0 ≤ val b) :
    val a + val b ≤ val (op a b) * (1 + u) := by
  obtain ⟨θ, hθ, e⟩ := h a b
  have h1 := (abs_le.mp hθ).1
  have h2 := (abs_le.mp hθ).2
  have hpos : 0 < 1 + θ := by linarith
  have hop : 0 ≤ val (op a b) := by
    by_contra hneg
    have : val (op a b) * (1 + θ) < 0 := mul_neg_of_neg_of_pos (not_le.mp hneg) hpos
    linarith
  rw [e]
  exact mul_le_mul_of_nonneg_left (by linarith) hop

theorem loss_of_std {β : Type} (val : β → ℝ) (op : β → β → β) (u : ℝ) (hu1 : u < 1)
    (h : StdModel val op u) (a b : β) (ha : 0 ≤ val a) (hb : 0 ≤ val b) :
    val a + val b ≤ val (op a b) * (1 / (1 - u)) := by
  obtain ⟨θ, hθ, e⟩ := h a b
  have h1 := (abs_le.mp hθ).1
  have hpos : 0 < 1 - u := by linarith
  rw [e, mul_one_div, le_div_iff₀ hpos]
  exact mul_le_mul_of_nonneg_left (by linarith) (by linarith)

/-! ### binary64: both factors stay below 1 + 1e-12 up to 9000 terms -/

theorem bernoulli_sub (x : ℝ) (hx1 : x ≤ 1) (k : ℕ) : 1 - k * x ≤ (1 - x) ^ k := by
  induction k with
  | zero => simp
  | succ k ih =>
    have h0 : 0 ≤ 1 - x := by linarith
    have := mul_le_mul_of_nonneg_right ih h0
    rw [pow_succ]
    push_cast
    nlinarith [mul_self_nonneg x, (Nat.cast_nonneg k : (0 : ℝ) ≤ k)]

/-- `(1+x)^k ≤ (1/(1−x))^k ≤ 1/(1 − k x)` -/
theorem pow_factor_le (x : ℝ) (hx0 : 0 ≤ x) (hx1 : x < 1) (k : ℕ) (hk : k * x < 1) :
    (1 + x) ^ k ≤ (1 / (1 - x)) ^ k ∧ (1 / (1 - x)) ^ k ≤ 1 / (1 - k * x) := by
  have hpos : 0 < 1 - x := by linarith
  constructor
  · apply pow_le_pow_left₀ (by linarith)
    rw [le_div_iff₀ hpos]
    nlinarith [mul_self_nonneg x]
  · rw [one_div_pow, one_div, one_div]
    apply inv_anti₀ (by linarith)
    exact bernoulli_sub x hx1.le k

/-- the unit roundoff of binary64 -/
noncomputable def u64 : ℝ := 1 / 2 ^ 53

theorem u64_pos : 0 < u64 := by unfold u64; positivity
theorem u64_lt_one : u64 < 1 := by unfold u64; norm_num

/-- up to 9000 spends (8999 rounded additions) both loss factors are below `1 + 1e-12` -/
theorem factor_9000 (k : ℕ) (hk : k ≤ 8999) :
    (1 + u64) ^ k ≤ 1 + 1 / 10 ^ 12 ∧ (1 / (1 - u64)) ^ k ≤ 1 + 1 / 10 ^ 12 := by
  have hk' : (k : ℝ) ≤ 8999 := by exact_mod_cast hk
  have hku : (k : ℝ) * u64 ≤ 8999 * u64 := mul_le_mul_of_nonneg_right hk' u64_pos.le
  have h8 : (8999 : ℝ) * u64 < 1 := by unfold u64; norm_num
  have h := pow_factor_le u64 u64_pos.le u64_lt_one k (by linarith)
  have hlast : 1 / (1 - (k : ℝ) * u64) ≤ 1 + 1 / 10 ^ 12 := by
    have h1 : 1 / (1 - (k : ℝ) * u64) ≤ 1 / (1 - 8999 * u64) :=
      one_div_le_one_div_of_le (by linarith) (by linarith)
    have h2 : 1 / (1 - 8999 * u64) ≤ 1 + 1 / 10 ^ 12 := by unfold u64; norm_num
    exact le_trans h1 h2
  exact ⟨le_trans h.1 (le_trans h.2 hlast), le_trans h.2 hlast⟩

/-! ### the tie to the accountant model (any carrier) -/

section model
variable {α : Type} [OfNat α 0] [OfNat α 1] [OfNat α 2] [Add α] [Sub α] [Mul α] [Div α] [Neg α]
  [LT α] [LE α] [DecidableLT α] [DecidableLE α] [NatCast α] [Transc α] [HasInf α]

/-- the `sum` component of `total()`'s running sums is the sequentially accumulated sum of the recorded epsilons -/
theorem epsSums_sum (spent : List (Spend α)) :
    (epsSums spent).sum = (spent.map (·.eps)).foldl (· + ·) 0 := by
  unfold epsSums
  suffices h : ∀ s0 : Sums α,
      (spent.foldl (fun s sp =>
        ({ sum := s.sum + sp.eps
           expSum := s.expSum + (1 - Transc.exp (-sp.eps)) * sp.eps / (1 + Transc.exp (-sp.eps))
           sqSum := s.sqSum + sp.eps * sp.eps } : Sums α)) s0).sum
        = (spent.map (·.eps)).foldl (· + ·) s0.sum from h ⟨0, 0, 0⟩
  induction spent with
  | nil => intro s0; rfl
  | cons sp rest ih => intro s0; simp only [List.foldl_cons, List.map_cons]; rw [ih]

/-- with slack 0 the accountant's total ε is that accumulated sum (the `slack == 0` branch of `total`) -/
theorem totalCore_eps_slack0 (spent : List (Spend α)) (slack : α) (h : feq slack 0 = true) :
    (totalCore spent slack).eps = (spent.map (·.eps)).foldl (· + ·) 0 := by
  unfold totalCore
  simp only [h, if_true]
  exact epsSums_sum spent

theorem total_eps_slack0 (a : Acc α) (h : feq a.slack 0 = true) (t : Tot α) (ht : a.total = .ok t) :
    t.eps = (a.spent.map (·.eps)).foldl (· + ·) 0 := by
  unfold Acc.total mkBudget at ht
  simp only at ht
  split at ht
  · cases ht
  · split at ht
    · cases ht
    · cases ht
      exact totalCore_eps_slack0 a.spent a.slack h

/-- the exact sum of the recorded epsilons of a slack-0 accountant is at most `g^(n−1)` times the accountant's own
(carrier-computed) total ε — for any carrier with a valuation in ℝ whose addition loses at most the factor `g` -/
theorem acc_sum_le_total (val : α → ℝ) (g : ℝ) (hg : 1 ≤ g) (hzero : val (0 : α) = 0)
    (hexact0 : ∀ x : α, val (0 + x) = val x)
    (hadd : ∀ a b : α, 0 ≤ val a → 0 ≤ val b → val a + val b ≤ val (a + b) * g)
    (a : Acc α) (hs : feq a.slack 0 = true) (hnn : ∀ sp ∈ a.spent, 0 ≤ val sp.eps)
    (t : Tot α) (ht : a.total = .ok t) :
    (a.spent.map fun sp => val sp.eps).sum ≤ val t.eps * g ^ (a.spent.length - 1) := by
  rw [total_eps_slack0 a hs t ht]
  have := sum_le_accumulated (fun x y : α => x + y) val 0 g hg hzero hexact0 hadd (a.spent.map (·.eps))
    (by
      intro x hx
      obtain ⟨sp, hsp, rfl⟩ := List.mem_map.mp hx
      exact hnn sp hsp)
  simpa [List.map_map, Function.comp_def] using this

end model

end Fp
end DPL
