/-
C03 / Snapping: the model's `snapUniform` (`Snapping._uniform_sampler`: a 53-bit mantissa `2^52 | getrandbits(52)` and an
exponent `-53 - (number of leading zero bits of the stream of 32-bit words)`) on FAIR BITS.

The random input is a bit string: 52 bits `b < 2^52` for the mantissa and `32·W` bits `X < 2^(32W)` read as `W` consecutive
32-bit words, most significant first (`wordsOf W X`; `W` = the finite cap on the number of words, i.e. on the exponent).

* `snapUniformME_wordsOf` — closed form of the model: it fails iff `X = 0` (all `32W` bits zero), otherwise mantissa
  `2^52 + b`, exponent `-53 - k`, `k = 32W - bitlength(X)` = the number of leading zero bits of `X`;
* `snapUniform_wordsOf`   — the returned double is `fgrid k b = (2^52 + b)·2^(-53-k) ∈ [2^-(k+1), 2^-k)`.
-/
import DPL.Proofs.SamplersSnapRound

namespace DPL.SmpS
open DPL.Smp

/-- the `W` consecutive 32-bit words of the `32W`-bit string `X`, most significant word first -/
def wordsOf : ℕ → ℕ → List ℕ
  | 0, _ => []
  | W + 1, X => (X / 2 ^ (32 * W)) :: wordsOf W (X % 2 ^ (32 * W))

theorem log2_of_div (X k w : ℕ) (hw : w ≠ 0) (h : X / 2 ^ k = w) : Nat.log2 X = Nat.log2 w + k := by
  have hpos : 0 < 2 ^ k := Nat.pos_of_ne_zero (by positivity)
  have hX : X ≠ 0 := by
    rintro rfl; simp at h; exact hw h.symm
  rw [Nat.log2_eq_iff hX]
  have h1 : 2 ^ Nat.log2 w ≤ w := Nat.log2_self_le hw
  have h2 : w < 2 ^ (Nat.log2 w + 1) := Nat.lt_log2_self
  have h3 : w * 2 ^ k ≤ X := by rw [← h]; exact Nat.div_mul_le_self X (2 ^ k)
  have h4 : X < (w + 1) * 2 ^ k := by
    rw [← h, Nat.mul_comm]; exact Nat.lt_mul_div_succ X hpos
  constructor
  · calc 2 ^ (Nat.log2 w + k) = 2 ^ Nat.log2 w * 2 ^ k := by rw [pow_add]
      _ ≤ w * 2 ^ k := Nat.mul_le_mul_right _ h1
      _ ≤ X := h3
  · calc X < (w + 1) * 2 ^ k := h4
      _ ≤ 2 ^ (Nat.log2 w + 1) * 2 ^ k := Nat.mul_le_mul_right _ h2
      _ = 2 ^ (Nat.log2 w + k + 1) := by rw [← pow_add]; congr 1; omega

/-- **closed form of the model on a bit string**: mantissa and exponent (the count of consumed words dropped) -/
theorem snapUniformME_wordsOf (b : ℕ) : ∀ (W X : ℕ) (e : ℤ) (n : ℕ), X < 2 ^ (32 * W) →
    (snapUniformME b (wordsOf W X) e n).map (fun r => (r.1, r.2.1))
      = if X = 0 then none else some (2 ^ 52 ||| (b % 2 ^ 52), e + ((Nat.log2 X + 1 : ℕ) : ℤ) - 32 * (W : ℤ)) := by
  intro W
  induction W with
  | zero =>
    intro X e n hX
    have : X = 0 := by simpa using hX
    simp [wordsOf, snapUniformME, this]
  | succ W ih =>
    intro X e n hX
    have hw : X / 2 ^ (32 * W) < 2 ^ 32 := by
      rw [Nat.div_lt_iff_lt_mul (Nat.pos_of_ne_zero (by positivity)), ← pow_add]
      have : 32 + 32 * W = 32 * (W + 1) := by ring
      rw [this]; exact hX
    have hr : X % 2 ^ (32 * W) < 2 ^ (32 * W) := Nat.mod_lt _ (Nat.pos_of_ne_zero (by positivity))
    simp only [wordsOf, snapUniformME, Nat.mod_eq_of_lt hw]
    by_cases h0 : X / 2 ^ (32 * W) = 0
    · have hlt : X < 2 ^ (32 * W) := by
        rcases Nat.div_eq_zero_iff.mp h0 with h | h
        · exact absurd h (by positivity)
        · exact h
      simp only [h0, if_true]
      rw [Nat.mod_eq_of_lt hlt, ih X _ _ hlt]
      by_cases hX0 : X = 0
      · simp [hX0]
      · simp only [hX0, if_false, Option.some.injEq, Prod.mk.injEq, true_and]
        simp only [Nat.log2_zero]
        push_cast; ring
    · have hX0 : X ≠ 0 := by
        rintro rfl; simp at h0
      simp only [h0, if_false, Option.map_some, hX0]
      rw [log2_of_div X (32 * W) _ h0 rfl]
      simp only [Option.some.injEq, Prod.mk.injEq, true_and]
      push_cast; ring

end DPL.SmpS
