/-
C01 helper lemmas: the inverse-CDF selection `first index with u < cum_i` of `Exponential.randomise`
(`firstLt`, `expSelect` on `cumFrom 0 ps`): the preimage of an index is the interval `[cum_{i-1}, cum_i)`.
-/
import DPL.Proofs.DiscreteBasic
import Mathlib.MeasureTheory.Measure.Lebesgue.Basic

namespace DPL.Discrete
open MeasureTheory Set

theorem firstLt_cons (u c : ℝ) (cs : List ℝ) :
    firstLt u (c :: cs) = if u < c then some 0 else (firstLt u cs).map (· + 1) := rfl

/-- preimage of index `i` among the uniforms at or above the running sum `acc` -/
theorem select_preimage (ps : List ℝ) (hnn : ∀ p ∈ ps, 0 ≤ p) (acc : ℝ) (i : ℕ) (hi : i < ps.length) (u : ℝ)
    (hu : acc ≤ u) :
    firstLt u (cumFrom acc ps) = some i ↔ acc + (ps.take i).sum ≤ u ∧ u < acc + (ps.take (i + 1)).sum := by
  induction ps generalizing acc i with
  | nil => simp at hi
  | cons p ps ih =>
    have hp : 0 ≤ p := hnn p List.mem_cons_self
    have hnn' : ∀ q ∈ ps, 0 ≤ q := fun q hq => hnn q (List.mem_cons_of_mem _ hq)
    simp only [cumFrom, firstLt_cons]
    cases i with
    | zero =>
      simp only [List.take_zero, List.sum_nil, add_zero, zero_add, List.take_succ_cons, List.sum_cons]
      by_cases hc : u < acc + p
      · simp [hc, hu]
      · simp only [hc, if_false, and_false, iff_false]
        intro h
        cases hf : firstLt u (cumFrom (acc + p) ps) <;> simp [hf] at h
    | succ j =>
      have hj : j < ps.length := by simpa using hi
      simp only [List.take_succ_cons, List.sum_cons]
      by_cases hc : u < acc + p
      · simp only [hc, if_true]
        constructor
        · intro h; cases h
        · rintro ⟨h1, _⟩
          have : 0 ≤ (ps.take j).sum := List.sum_nonneg (fun q hq => hnn' q (List.mem_of_mem_take hq))
          linarith
      · have hu' : acc + p ≤ u := not_lt.mp hc
        simp only [hc, if_false]
        have := ih hnn' (acc + p) j hj hu'
        constructor
        · intro h
          cases hf : firstLt u (cumFrom (acc + p) ps) with
          | none => simp [hf] at h
          | some m =>
            simp only [hf, Option.map_some, Option.some.injEq] at h
            have hm : m = j := by omega
            subst hm
            have := this.mp hf
            constructor <;> linarith [this.1, this.2]
        · rintro ⟨h1, h2⟩
          have hh := this.mpr ⟨by linarith, by linarith⟩
          simp [hh]

theorem firstLt_isSome (ps : List ℝ) (hne : ps ≠ []) (acc u : ℝ) (h : u < acc + ps.sum)
    (hnn : ∀ p ∈ ps, 0 ≤ p) : ∃ i, firstLt u (cumFrom acc ps) = some i := by
  induction ps generalizing acc with
  | nil => exact absurd rfl hne
  | cons p ps ih =>
    simp only [cumFrom, firstLt_cons]
    by_cases hc : u < acc + p
    · exact ⟨0, by simp [hc]⟩
    · simp only [hc, if_false]
      cases ps with
      | nil => simp at h; exact absurd h hc
      | cons q qs =>
        obtain ⟨i, hi⟩ := ih (by simp) (acc + p) (by simp only [List.sum_cons] at h ⊢; linarith)
          (fun r hr => hnn r (List.mem_cons_of_mem _ hr))
        exact ⟨i + 1, by simp [hi]⟩

theorem take_succ_sum (ps : List ℝ) (i : ℕ) (hi : i < ps.length) :
    (ps.take (i + 1)).sum = (ps.take i).sum + ps[i] := by
  rw [List.take_succ_eq_append_getElem hi, List.sum_append]; simp

/-- with non-negative probabilities summing to one, the uniforms in `[0,1)` that select index `i` are exactly the
interval `[p_0+…+p_{i-1}, p_0+…+p_i)` -/
theorem select_cell (ps : List ℝ) (hnn : ∀ p ∈ ps, 0 ≤ p) (hsum : ps.sum = 1) (i : ℕ) (hi : i < ps.length) :
    {u : ℝ | u ∈ Ico (0:ℝ) 1 ∧ firstLt u (cumFrom 0 ps) = some i} = Ico (ps.take i).sum (ps.take (i + 1)).sum := by
  have ha0 : 0 ≤ (ps.take i).sum := List.sum_nonneg (fun q hq => hnn q (List.mem_of_mem_take hq))
  have hb1 : (ps.take (i + 1)).sum ≤ 1 := by
    rw [← hsum]
    conv_rhs => rw [← List.take_append_drop (i + 1) ps]
    rw [List.sum_append]
    have : 0 ≤ (ps.drop (i + 1)).sum := List.sum_nonneg (fun q hq => hnn q (List.mem_of_mem_drop hq))
    linarith
  ext u
  simp only [mem_ofPred_eq, mem_Ico]
  constructor
  · rintro ⟨⟨h0, _⟩, hsel⟩
    have := (select_preimage ps hnn 0 i hi u h0).mp hsel
    simpa using this
  · rintro ⟨h1, h2⟩
    have h0 : 0 ≤ u := le_trans ha0 h1
    refine ⟨⟨h0, lt_of_lt_of_le h2 hb1⟩, (select_preimage ps hnn 0 i hi u h0).mpr ?_⟩
    simpa using And.intro h1 h2

/-- law of the selection: index `i` is returned for a set of uniforms of Lebesgue measure `ps[i]` -/
theorem select_law (ps : List ℝ) (hnn : ∀ p ∈ ps, 0 ≤ p) (hsum : ps.sum = 1) (i : ℕ) (hi : i < ps.length) :
    volume {u : ℝ | u ∈ Ico (0:ℝ) 1 ∧ firstLt u (cumFrom 0 ps) = some i} = ENNReal.ofReal ps[i] := by
  rw [select_cell ps hnn hsum i hi, Real.volume_Ico, take_succ_sum ps i hi]
  congr 1; ring

/-- the `isclose` fallback and the RuntimeError of `Exponential.randomise` are unreachable for `u < 1` when the
probabilities sum to one: `expSelect` is `firstLt` -/
theorem expSelect_eq_firstLt (rtol atol : ℝ) (ps : List ℝ) (hne : ps ≠ []) (hnn : ∀ p ∈ ps, 0 ≤ p) (hsum : ps.sum = 1)
    (u : ℝ) (hu : u < 1) (i : ℕ) :
    expSelect rtol atol (cumFrom 0 ps) u = .ok i ↔ firstLt u (cumFrom 0 ps) = some i := by
  obtain ⟨j, hj⟩ := firstLt_isSome ps hne 0 u (by rw [hsum]; linarith) hnn
  unfold expSelect
  simp [hj]

theorem expSelect_law (rtol atol : ℝ) (ps : List ℝ) (hnn : ∀ p ∈ ps, 0 ≤ p) (hsum : ps.sum = 1) (i : ℕ)
    (hi : i < ps.length) :
    volume {u : ℝ | u ∈ Ico (0:ℝ) 1 ∧ expSelect rtol atol (cumFrom 0 ps) u = .ok i} = ENNReal.ofReal ps[i] := by
  have hne : ps ≠ [] := by rintro rfl; simp at hi
  rw [← select_law ps hnn hsum i hi]
  congr 1
  ext u
  simp only [mem_ofPred_eq, mem_Ico]
  constructor
  · rintro ⟨⟨h0, h1⟩, h⟩; exact ⟨⟨h0, h1⟩, (expSelect_eq_firstLt rtol atol ps hne hnn hsum u h1 i).mp h⟩
  · rintro ⟨⟨h0, h1⟩, h⟩; exact ⟨⟨h0, h1⟩, (expSelect_eq_firstLt rtol atol ps hne hnn hsum u h1 i).mpr h⟩

end DPL.Discrete
