/-
C01 helper lemmas: the inverse-CDF selection `first index with u ≤ cum_i` of `Exponential.randomise`
(`firstLe`, `expSelect` on `cumFrom 0 ps`): preimage of an index is the interval between consecutive cumulative sums.
-/
import DPL.Proofs.DiscreteBasic
import Mathlib.MeasureTheory.Measure.Lebesgue.Basic

namespace DPL.Discrete
open MeasureTheory Set

theorem firstLe_cons (u c : ℝ) (cs : List ℝ) :
    firstLe u (c :: cs) = if u ≤ c then some 0 else (firstLe u cs).map (· + 1) := rfl

/-- preimage of index `i` among the uniforms above the running sum `acc` -/
theorem select_preimage (ps : List ℝ) (hnn : ∀ p ∈ ps, 0 ≤ p) (acc : ℝ) (i : ℕ) (hi : i < ps.length) (u : ℝ)
    (hu : acc < u) :
    firstLe u (cumFrom acc ps) = some i ↔ acc + (ps.take i).sum < u ∧ u ≤ acc + (ps.take (i + 1)).sum := by
  induction ps generalizing acc i with
  | nil => simp at hi
  | cons p ps ih =>
    have hp : 0 ≤ p := hnn p List.mem_cons_self
    have hnn' : ∀ q ∈ ps, 0 ≤ q := fun q hq => hnn q (List.mem_cons_of_mem _ hq)
    simp only [cumFrom, firstLe_cons]
    cases i with
    | zero =>
      simp only [List.take_zero, List.sum_nil, add_zero, zero_add, List.take_succ_cons, List.sum_cons]
      by_cases hc : u ≤ acc + p
      · simp [hc, hu]
      · simp only [hc, if_false, and_false, iff_false]
        intro h
        cases hf : firstLe u (cumFrom (acc + p) ps) <;> simp [hf] at h
    | succ j =>
      have hj : j < ps.length := by simpa using hi
      simp only [List.take_succ_cons, List.sum_cons]
      by_cases hc : u ≤ acc + p
      · simp only [hc, if_true]
        constructor
        · intro h; cases h
        · rintro ⟨h1, _⟩
          have : 0 ≤ (ps.take j).sum := List.sum_nonneg (fun q hq => hnn' q (List.mem_of_mem_take hq))
          linarith
      · have hu' : acc + p < u := not_le.mp hc
        simp only [hc, if_false]
        have := ih hnn' (acc + p) j hj hu'
        constructor
        · intro h
          cases hf : firstLe u (cumFrom (acc + p) ps) with
          | none => simp [hf] at h
          | some m =>
            simp only [hf, Option.map_some, Option.some.injEq] at h
            have hm : m = j := by omega
            subst hm
            have := this.mp hf
            constructor <;> linarith [this.1, this.2]
        · rintro ⟨h1, h2⟩
          have hh := this.mpr ⟨by linarith, by linarith⟩
          simp [hh]

theorem firstLe_isSome (ps : List ℝ) (hne : ps ≠ []) (acc u : ℝ) (h : u ≤ acc + ps.sum)
    (hnn : ∀ p ∈ ps, 0 ≤ p) : ∃ i, firstLe u (cumFrom acc ps) = some i := by
  induction ps generalizing acc with
  | nil => exact absurd rfl hne
  | cons p ps ih =>
    simp only [cumFrom, firstLe_cons]
    by_cases hc : u ≤ acc + p
    · exact ⟨0, by simp [hc]⟩
    · simp only [hc, if_false]
      cases ps with
      | nil => simp at h; exact absurd h hc
      | cons q qs =>
        obtain ⟨i, hi⟩ := ih (by simp) (acc + p) (by simp only [List.sum_cons] at h ⊢; linarith)
          (fun r hr => hnn r (List.mem_cons_of_mem _ hr))
        exact ⟨i + 1, by simp [hi]⟩

theorem take_succ_sum (ps : List ℝ) (i : ℕ) (hi : i < ps.length) :
    (ps.take (i + 1)).sum = (ps.take i).sum + ps[i] := by
  rw [List.take_succ_eq_append_getElem hi, List.sum_append]; simp

/-- law of the selection: with non-negative probabilities summing to one, index `i` is returned for a set of uniforms
of Lebesgue measure `ps[i]` -/
theorem select_law (ps : List ℝ) (hnn : ∀ p ∈ ps, 0 ≤ p) (hsum : ps.sum = 1) (i : ℕ) (hi : i < ps.length) :
    volume {u : ℝ | u ∈ Ico (0:ℝ) 1 ∧ firstLe u (cumFrom 0 ps) = some i} = ENNReal.ofReal ps[i] := by
  set a := (ps.take i).sum with ha
  set b := (ps.take (i + 1)).sum with hb
  have hab : b = a + ps[i] := take_succ_sum ps i hi
  have ha0 : 0 ≤ a := List.sum_nonneg (fun q hq => hnn q (List.mem_of_mem_take hq))
  have hb1 : b ≤ 1 := by
    rw [← hsum]
    conv_rhs => rw [← List.take_append_drop (i + 1) ps]
    rw [List.sum_append]
    have : 0 ≤ (ps.drop (i + 1)).sum := List.sum_nonneg (fun q hq => hnn q (List.mem_of_mem_drop hq))
    linarith
  have hpi : 0 ≤ ps[i] := hnn _ (List.getElem_mem hi)
  have key : ∀ u : ℝ, 0 < u → (firstLe u (cumFrom 0 ps) = some i ↔ a < u ∧ u ≤ b) := by
    intro u hu
    have := select_preimage ps hnn 0 i hi u hu
    simpa using this
  apply le_antisymm
  · calc volume {u : ℝ | u ∈ Ico (0:ℝ) 1 ∧ firstLe u (cumFrom 0 ps) = some i}
        ≤ volume (Icc a b) := by
          apply measure_mono
          rintro u ⟨⟨h0, h1⟩, hsel⟩
          rcases eq_or_lt_of_le h0 with h00 | hpos
          · -- u = 0: the first index with 0 ≤ cum is 0
            subst h00
            cases ps with
            | nil => simp at hi
            | cons p qs =>
              have hp : (0:ℝ) ≤ p := hnn p List.mem_cons_self
              simp only [cumFrom, firstLe_cons, zero_add, hp, if_true, Option.some.injEq] at hsel
              subst hsel
              simp only [List.take_zero, List.sum_nil] at ha
              constructor
              · rw [ha]
              · rw [hab, ha]; simpa using hpi
          · have := (key u hpos).mp hsel
            exact ⟨this.1.le, this.2⟩
      _ = ENNReal.ofReal ps[i] := by rw [Real.volume_Icc]; congr 1; linarith
  · calc ENNReal.ofReal ps[i] = volume (Ioo a b) := by rw [Real.volume_Ioo]; congr 1; linarith
      _ ≤ _ := by
          apply measure_mono
          rintro u ⟨h1, h2⟩
          have hpos : 0 < u := lt_of_le_of_lt ha0 h1
          exact ⟨⟨hpos.le, lt_of_lt_of_le h2 hb1⟩, (key u hpos).mpr ⟨h1, h2.le⟩⟩

/-- the `isclose` fallback and the RuntimeError of `Exponential.randomise` are unreachable for `u < 1` when the
probabilities sum to one: `expSelect` is `firstLe` -/
theorem expSelect_eq_firstLe (rtol atol : ℝ) (ps : List ℝ) (hne : ps ≠ []) (hnn : ∀ p ∈ ps, 0 ≤ p) (hsum : ps.sum = 1)
    (u : ℝ) (hu : u < 1) (i : ℕ) :
    expSelect rtol atol (cumFrom 0 ps) u = .ok i ↔ firstLe u (cumFrom 0 ps) = some i := by
  obtain ⟨j, hj⟩ := firstLe_isSome ps hne 0 u (by rw [hsum]; linarith) hnn
  unfold expSelect
  simp [hj]

theorem expSelect_law (rtol atol : ℝ) (ps : List ℝ) (hnn : ∀ p ∈ ps, 0 ≤ p) (hsum : ps.sum = 1) (i : ℕ)
    (hi : i < ps.length) :
    volume {u : ℝ | u ∈ Ico (0:ℝ) 1 ∧ expSelect rtol atol (cumFrom 0 ps) u = .ok i} = ENNReal.ofReal ps[i] := by
  have hne : ps ≠ [] := by rintro rfl; simp at hi
  rw [← select_law ps hnn hsum i hi]
  congr 1
  ext u
  simp only [mem_ofPred_eq, mem_Ico]
  constructor
  · rintro ⟨⟨h0, h1⟩, h⟩; exact ⟨⟨h0, h1⟩, (expSelect_eq_firstLe rtol atol ps hne hnn hsum u h1 i).mp h⟩
  · rintro ⟨⟨h0, h1⟩, h⟩; exact ⟨⟨h0, h1⟩, (expSelect_eq_firstLe rtol atol ps hne hnn hsum u h1 i).mpr h⟩

end DPL.Discrete
