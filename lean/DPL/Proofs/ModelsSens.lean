/-
Sensitivity lemmas and epsilon-split identities used by C08 (pure algebra over ℝ).
-/
import DPL.Proofs.ModelsCalc

namespace DPL
namespace PM
open DPL

/-! ### the Python helpers over ℝ -/

theorem pmax_eq (a b : ℝ) : pmax a b = max a b := by
  unfold pmax; split
  · rename_i h; exact (max_eq_right h.le).symm
  · rename_i h; exact (max_eq_left (not_lt.mp h)).symm

theorem pmin_eq (a b : ℝ) : pmin a b = min a b := by
  unfold pmin; split
  · rename_i h; exact (min_eq_right h.le).symm
  · rename_i h; exact (min_eq_left (not_lt.mp h)).symm

theorem pabs_eq (a : ℝ) : pabs a = |a| := by
  unfold pabs; split
  · rename_i h; exact (abs_of_neg h).symm
  · rename_i h; exact (abs_of_nonneg (not_lt.mp h)).symm

theorem clip_mem (lo hi x : ℝ) (h : lo ≤ hi) : lo ≤ clip lo hi x ∧ clip lo hi x ≤ hi := by
  unfold clip
  split
  · exact ⟨le_refl _, h⟩
  · split
    · exact ⟨h, le_refl _⟩
    · constructor <;> linarith

theorem sumSens_eq (lo hi : ℝ) : sumSens lo hi = max (max |lo| |hi|) (hi - lo) := by
  simp [sumSens, pmax_eq, pabs_eq]

/-! ### sensitivities -/

/-- a clipped value that joins or leaves a sum moves it by at most `max(|l|,|u|,u-l)`; a replaced one by `u - l` -/
theorem sum_group_change_sens (l u v v' : ℝ) (hv : l ≤ v ∧ v ≤ u) (hv' : l ≤ v' ∧ v' ≤ u) :
    |v| ≤ sumSens l u ∧ |v - v'| ≤ sumSens l u ∧ |v - v'| ≤ u - l := by
  rw [sumSens_eq]
  have h3 : |v - v'| ≤ u - l := by rw [abs_le]; constructor <;> linarith [hv.1, hv.2, hv'.1, hv'.2]
  refine ⟨?_, le_trans h3 (le_max_right _ _), h3⟩
  refine le_trans ?_ (le_max_left _ _)
  rw [abs_le]
  constructor
  · have : -|l| ≤ l := neg_abs_le l
    have := le_max_left |l| |u|
    linarith [hv.1]
  · have : u ≤ |u| := le_abs_self u
    have := le_max_right |l| |u|
    linarith [hv.2]

theorem sumSens_nonneg (l u : ℝ) : 0 ≤ sumSens l u := by
  rw [sumSens_eq]; exact le_trans (abs_nonneg l) (le_trans (le_max_left _ _) (le_max_left _ _))

/-- x ∈ [l,u] ⇒ x² ≤ max(|l|,|u|)² -/
theorem sq_le_sqSens (l u x : ℝ) (hx : l ≤ x ∧ x ≤ u) : 0 ≤ x * x ∧ x * x ≤ sqSens l u := by
  simp only [sqSens, pmax_eq, pabs_eq]
  have hm : |x| ≤ max |l| |u| := by
    rw [abs_le]; constructor
    · have := neg_abs_le l; have := le_max_left |l| |u|; linarith [hx.1]
    · have := le_abs_self u; have := le_max_right |l| |u|; linarith [hx.2]
  refine ⟨mul_self_nonneg x, ?_⟩
  have : x * x = |x| * |x| := (abs_mul_abs_self x).symm
  rw [this]
  exact mul_le_mul hm hm (abs_nonneg _) (le_trans (abs_nonneg _) hm)

/-- `sq_sens`: x, x' ∈ [l,u] ⇒ |x² − x'²| ≤ max(|l|,|u|)²  (also the shifted version: apply it to `l - o`, `u - o`) -/
theorem sq_sens (l u x x' : ℝ) (hx : l ≤ x ∧ x ≤ u) (hx' : l ≤ x' ∧ x' ≤ u) : |x * x - x' * x'| ≤ sqSens l u := by
  have h1 := sq_le_sqSens l u x hx
  have h2 := sq_le_sqSens l u x' hx'
  rw [abs_le]; constructor <;> linarith [h1.1, h1.2, h2.1, h2.2]

theorem sqSens_nonneg (l u : ℝ) : 0 ≤ sqSens l u := by
  simp only [sqSens]; exact mul_self_nonneg _

/-- GaussianNB's squared deviations: for x ∈ [l,u] and ANY centre μ: (x-μ)² ≤ max(μ-l, u-μ)² -/
theorem sqdev_le (l u mu x : ℝ) (hx : l ≤ x ∧ x ≤ u) :
    0 ≤ (x - mu) * (x - mu) ∧ (x - mu) * (x - mu) ≤ pmax (mu - l) (u - mu) * pmax (mu - l) (u - mu) := by
  rw [pmax_eq]
  have hm : |x - mu| ≤ max (mu - l) (u - mu) := by
    rw [abs_le]; constructor
    · have := le_max_left (mu - l) (u - mu); linarith [hx.1]
    · have := le_max_right (mu - l) (u - mu); linarith [hx.2]
  refine ⟨mul_self_nonneg _, ?_⟩
  rw [← abs_mul_abs_self (x - mu)]
  exact mul_le_mul hm hm (abs_nonneg _) (le_trans (abs_nonneg _) hm)

/-- bilinear extremes sit at the corners -/
theorem mul_le_corner (a b c d x y : ℝ) (hx : a ≤ x ∧ x ≤ b) (hy : c ≤ y ∧ y ≤ d) :
    x * y ≤ max (max (max (c * a) (c * b)) (d * a)) (d * b) := by
  rcases le_total 0 x with h0 | h0
  · have h1 : x * y ≤ x * d := mul_le_mul_of_nonneg_left hy.2 h0
    rcases le_total 0 d with hd | hd
    · have : x * d ≤ d * b := by nlinarith [hx.2]
      exact le_trans (le_trans h1 this) (le_max_right _ _)
    · have : x * d ≤ d * a := by nlinarith [hx.1]
      exact le_trans (le_trans h1 this) (le_trans (le_max_right _ _) (le_max_left _ _))
  · have h1 : x * y ≤ x * c := by nlinarith [hy.1]
    rcases le_total 0 c with hc | hc
    · have : x * c ≤ c * b := by nlinarith [hx.2]
      exact le_trans (le_trans h1 this)
        (le_trans (le_max_right _ _) (le_trans (le_max_left _ _) (le_max_left _ _)))
    · have : x * c ≤ c * a := by nlinarith [hx.1]
      exact le_trans (le_trans h1 this)
        (le_trans (le_max_left _ _) (le_trans (le_max_left _ _) (le_max_left _ _)))

theorem corner_le_mul (a b c d x y : ℝ) (hx : a ≤ x ∧ x ≤ b) (hy : c ≤ y ∧ y ≤ d) :
    min (min (min (c * a) (c * b)) (d * a)) (d * b) ≤ x * y := by
  rcases le_total 0 x with h0 | h0
  · have h1 : x * c ≤ x * y := mul_le_mul_of_nonneg_left hy.1 h0
    rcases le_total 0 c with hc | hc
    · have : c * a ≤ x * c := by nlinarith [hx.1]
      exact le_trans (le_trans (min_le_left _ _) (le_trans (min_le_left _ _) (min_le_left _ _))) (le_trans this h1)
    · have : c * b ≤ x * c := by nlinarith [hx.2]
      exact le_trans (le_trans (min_le_left _ _) (le_trans (min_le_left _ _) (min_le_right _ _))) (le_trans this h1)
  · have h1 : x * d ≤ x * y := by nlinarith [hy.2]
    rcases le_total 0 d with hd | hd
    · have : d * a ≤ x * d := by nlinarith [hx.1]
      exact le_trans (le_trans (min_le_left _ _) (min_le_right _ _)) (le_trans this h1)
    · have : d * b ≤ x * d := by nlinarith [hx.2]
      exact le_trans (min_le_right _ _) (le_trans this h1)

/-- `corner_product_sens`: x, x' ∈ [a,b], y, y' ∈ [c,d] ⇒ |xy − x'y'| ≤ max corners − min corners -/
theorem corner_product_sens (a b c d x y x' y' : ℝ) (hx : a ≤ x ∧ x ≤ b) (hy : c ≤ y ∧ y ≤ d)
    (hx' : a ≤ x' ∧ x' ≤ b) (hy' : c ≤ y' ∧ y' ≤ d) : |x * y - x' * y'| ≤ cornerSens c d a b := by
  simp only [cornerSens, pmax_eq, pmin_eq]
  have h1 := mul_le_corner a b c d x y hx hy
  have h2 := corner_le_mul a b c d x y hx hy
  have h3 := mul_le_corner a b c d x' y' hx' hy'
  have h4 := corner_le_mul a b c d x' y' hx' hy'
  rw [abs_le]; constructor <;> linarith

theorem cornerSens_nonneg (a b c d : ℝ) (hab : a ≤ b) (hcd : c ≤ d) : 0 ≤ cornerSens c d a b := by
  have := corner_product_sens a b c d a c a c ⟨le_refl _, hab⟩ ⟨le_refl _, hcd⟩ ⟨le_refl _, hab⟩ ⟨le_refl _, hcd⟩
  exact le_trans (abs_nonneg _) this

/-- mean of `n` clipped values with one replaced moves by ≤ (u-l)/n -/
theorem mean_sens (l u v v' : ℝ) (n : ℕ) (hn : 0 < n) (hv : l ≤ v ∧ v ≤ u) (hv' : l ≤ v' ∧ v' ≤ u) (s : ℝ) :
    |(s + v) / n - (s + v') / n| ≤ (u - l) / n := by
  have hn' : (0 : ℝ) < n := by exact_mod_cast hn
  rw [← sub_div, abs_div, abs_of_pos hn']
  apply div_le_div_of_nonneg_right _ hn'.le
  have : s + v - (s + v') = v - v' := by ring
  rw [this, abs_le]; constructor <;> linarith [hv.1, hv.2, hv'.1, hv'.2]

/-- core inequality behind the variance sensitivity `((u-l)/n)² (n-1)`: one of `m+1` values in `[0,w]` replaced -/
theorem var_core (m w x y S : ℝ) (hm : 0 ≤ m) (hw : 0 ≤ w)
    (hx0 : 0 ≤ x) (hx1 : x ≤ w) (hy0 : 0 ≤ y) (hy1 : y ≤ w) (hS0 : 0 ≤ S) (hS1 : S ≤ m * w) :
    |(x - y) * (m * (x + y) - 2 * S)| ≤ m * w ^ 2 := by
  rw [abs_le]
  constructor
  · rcases le_total y x with h | h
    · have h1 : (x - y) * (m * (x + y) - 2 * S) ≥ (x - y) * (m * (x + y) - 2 * (m * w)) := by
        apply mul_le_mul_of_nonneg_left _ (sub_nonneg.mpr h); linarith
      have h2 : (x - y) * (2 * w - x - y) ≤ w ^ 2 := by nlinarith [sq_nonneg (w - x), mul_nonneg hy0 (sub_nonneg.mpr hy1)]
      have h3 : (x - y) * (m * (x + y) - 2 * (m * w)) = - (m * ((x - y) * (2 * w - x - y))) := by ring
      have h4 := mul_le_mul_of_nonneg_left h2 hm
      linarith
    · nlinarith [mul_nonneg (sub_nonneg.mpr h) hS0, mul_nonneg hm (mul_nonneg hx0 hx0),
        mul_nonneg hm (mul_nonneg hy0 (sub_nonneg.mpr hy1)), mul_nonneg hm (mul_nonneg hy0 hy0),
        mul_nonneg hm (mul_nonneg (sub_nonneg.mpr hy1) (sub_nonneg.mpr hy1)),mul_nonneg hm (mul_nonneg hx0 (sub_nonneg.mpr hy1)),
        mul_nonneg hm (mul_nonneg hy0 (sub_nonneg.mpr hx1))]
  · rcases le_total y x with h | h
    · nlinarith [mul_nonneg (sub_nonneg.mpr h) hS0, mul_nonneg hm (mul_nonneg hy0 hy0),
        mul_nonneg hm (mul_nonneg hx0 (sub_nonneg.mpr hx1)), mul_nonneg hm (mul_nonneg (sub_nonneg.mpr hx1) (sub_nonneg.mpr hx1)),
        mul_nonneg hm (mul_nonneg hx0 hx0)]
    · nlinarith [mul_nonneg (sub_nonneg.mpr h) (sub_nonneg.mpr hS1), mul_nonneg hm (mul_nonneg (sub_nonneg.mpr hx1) (sub_nonneg.mpr hx1)),
        mul_nonneg hm (mul_nonneg (sub_nonneg.mpr hy1) (sub_nonneg.mpr hy1)), mul_nonneg hm (mul_nonneg (sub_nonneg.mpr h) (sub_nonneg.mpr hy1)),
        mul_nonneg hm (mul_nonneg (sub_nonneg.mpr hy1) hy0), mul_nonneg hm (mul_nonneg (sub_nonneg.mpr hy1) hx0),
        mul_nonneg hm (mul_nonneg (sub_nonneg.mpr hx1) hx0)]

/-! ### group counts -/

/-- a replaced record moves a group count by at most 1, and only in the (≤ 2) groups it leaves or joins -/
theorem count_change (g : Rec ℝ → Nat) (c : Nat) (pre post : DS ℝ) (r r' : Rec ℝ) :
    |(((grp g c (pre ++ r :: post)).length : Nat) : ℝ) - (((grp g c (pre ++ r' :: post)).length : Nat) : ℝ)|
      ≤ (if c = g r ∨ c = g r' then 1 else 0) ∧
    (g r = g r' → (((grp g c (pre ++ r :: post)).length : Nat) : ℝ) = (((grp g c (pre ++ r' :: post)).length : Nat) : ℝ)) := by
  rw [grp_len_diff]
  constructor
  · by_cases h1 : g r = c <;> by_cases h2 : g r' = c <;> simp [h1, h2, eq_comm]
    · simp [Ne.symm h1, Ne.symm h2]
  · intro h
    have := grp_len_diff g c pre post r r'
    by_cases h1 : g r = c
    · have h2 : g r' = c := h ▸ h1
      simp [h1, h2] at this; linarith
    · have h2 : ¬ g r' = c := h ▸ h1
      simp [h1, h2] at this; linarith

theorem single_sum_le (l : List Nat) (hl : l.Nodup) (a : Nat) (w : ℝ) (hw : 0 ≤ w) :
    (l.map fun c => if c = a then w else 0).sum ≤ w := by
  induction l with
  | nil => simpa using hw
  | cons c cs ih =>
    have hc : c ∉ cs := (List.nodup_cons.mp hl).1
    have hcs := (List.nodup_cons.mp hl).2
    simp only [List.map_cons, List.sum_cons]
    by_cases h : c = a
    · have hz : (cs.map fun c' => if c' = a then w else 0).sum = 0 := by
        apply List.sum_eq_zero
        intro x hx
        simp only [List.mem_map] at hx
        obtain ⟨y, hy, rfl⟩ := hx
        have : y ≠ a := fun h' => hc (h ▸ h' ▸ hy)
        simp [this]
      simp [h, hz]
    · simp only [h, if_false, zero_add]; exact ih hcs

theorem sum_map_add' (l : List Nat) (f g : Nat → ℝ) :
    (l.map fun c => f c + g c).sum = (l.map f).sum + (l.map g).sum := by
  induction l with
  | nil => simp
  | cons c cs ih => simp only [List.map_cons, List.sum_cons, ih]; ring

theorem sum_map_le' (l : List Nat) (f g : Nat → ℝ) (h : ∀ c, f c ≤ g c) : (l.map f).sum ≤ (l.map g).sum := by
  induction l with
  | nil => simp
  | cons c cs ih => simp only [List.map_cons, List.sum_cons]; linarith [h c]

/-- the number of groups a replaced record touches: indicator sums over any duplicate-free list of groups -/
theorem touched_sum_le (l : List Nat) (hl : l.Nodup) (a b : Nat) (w : ℝ) (hw : 0 ≤ w) :
    (l.map fun c => if c = a ∨ c = b then w else 0).sum ≤ (if a = b then 1 else 2) * w := by
  by_cases hab : a = b
  · subst hab
    simp only [or_self, if_true, one_mul]
    exact single_sum_le l hl a w hw
  · simp only [hab, if_false]
    have h1 := single_sum_le l hl a w hw
    have h2 := single_sum_le l hl b w hw
    have h3 := sum_map_le' l (fun c => if c = a ∨ c = b then w else 0)
      (fun c => (if c = a then w else 0) + (if c = b then w else 0)) (by
        intro c
        beta_reduce
        rcases em (c = a) with h1 | h1 <;> rcases em (c = b) with h2 | h2
        · exact absurd (h1.symm.trans h2) hab
        · rw [if_pos (Or.inl h1), if_pos h1, if_neg h2]; linarith
        · rw [if_pos (Or.inr h2), if_neg h1, if_pos h2]; linarith
        · rw [if_neg (by tauto), if_neg h1, if_neg h2]; linarith)
    rw [sum_map_add'] at h3
    linarith

/-! ### epsilon splits (the shares of all invocations one record can touch add up to epsilon) -/

theorem gnb_split (ε : ℝ) (d : ℕ) (hd : 0 < d) :
    ε / 3 + d * (ε / 3 / d) + d * (ε / 3 / d) = ε := by
  have : (d : ℝ) ≠ 0 := by exact_mod_cast hd.ne'
  field_simp; ring

theorem scaler_split (ε : ℝ) (d : ℕ) (hd : 0 < d) : d * (ε / 2 / d) + d * (ε / 2 / d) = ε := by
  have : (d : ℝ) ≠ 0 := by exact_mod_cast hd.ne'
  field_simp; ring

/-- KMeans: `iters · (ε₀ + d·ε_i) = ε` for the coded split, whatever the value `c ≥ 0` of the cube root -/
theorem kmeans_split (ε c : ℝ) (d iters : ℕ) (hd : 0 < d) (hi : 0 < iters) (hc : 0 ≤ c) :
    let norm := ε / iters / (d + c)
    (iters : ℝ) * (c * norm + d * (1 * norm)) = ε := by
  intro norm
  have h1 : (iters : ℝ) ≠ 0 := by exact_mod_cast hi.ne'
  have h2 : (d : ℝ) + c ≠ 0 := by
    have : (0 : ℝ) < d := by exact_mod_cast hd
    linarith
  simp only [norm]; field_simp; ring

/-- regression witness for the repaired swap: with the pair swapped (count gets `1·norm`, every coordinate `c·norm`) an
iteration spends more than `ε/iters` as soon as `c > 1` and `d > 1` — and `c = cbrt(4·d·0.225²) > 1` from `d = 5` on -/
theorem kmeans_swapped_exceeds (ε c : ℝ) (d iters : ℕ) (hd : 1 < d) (hi : 0 < iters) (hc : 1 < c) (hε : 0 < ε) :
    let norm := ε / iters / (d + c)
    ε / iters < 1 * norm + d * (c * norm) := by
  intro norm
  have h1 : (0 : ℝ) < iters := by exact_mod_cast hi
  have hd' : (1 : ℝ) < d := by exact_mod_cast hd
  have h2 : (0 : ℝ) < d + c := by linarith
  have hn : 0 < norm := div_pos (div_pos hε h1) h2
  have : ε / iters = norm * (d + c) := by simp only [norm]; field_simp
  rw [this]
  nlinarith [mul_pos (sub_pos.mpr hd') (sub_pos.mpr hc)]

theorem kmeans_swapped_d5 : (1 : ℝ) < 4 * 5 * (225 / 1000 * (225 / 1000)) := by norm_num

/-- LinearRegression: intercept share halved between the two means + remainder over the monomial coefficients -/
theorem linreg_split (ε : ℝ) (d t : ℕ) (hd : 0 < d) (ht : 0 < t) :
    let s : ℝ := 1 / ((d + 1 : ℕ) : ℝ)
    let cnt : ℝ := ((t + t * d : ℕ) : ℝ) + ((d * (d + 1) : ℕ) : ℝ) / 2
    (d : ℝ) * (ε * s / 2 / d) + ε * s / 2 + cnt * (ε * (1 - s) / cnt) = ε ∧
    ε * (1 - s) / cnt * cnt = ε * (1 - 1 / ((d : ℝ) + 1)) := by
  intro s cnt
  have h1 : (d : ℝ) ≠ 0 := by exact_mod_cast hd.ne'
  have hcnt : cnt ≠ 0 := by
    have : (0 : ℝ) < ((t + t * d : ℕ) : ℝ) := by exact_mod_cast (by positivity : 0 < t + t * d)
    have : (0 : ℝ) ≤ ((d * (d + 1) : ℕ) : ℝ) / 2 := by positivity
    simp only [cnt]; linarith
  constructor
  · rw [mul_div_cancel₀ _ hcnt]
    field_simp; ring
  · rw [div_mul_cancel₀ _ hcnt]; simp only [s]; push_cast; ring

/-- regression witnesses for the repaired LinearRegression defects -/
theorem linreg_old_intercept_exceeds (ε : ℝ) (d : ℕ) (hε : 0 < ε) :
    let s : ℝ := 1 / ((d : ℝ) + 1)
    ε < ε * s + ε * s + ε * (1 - s) := by
  intro s
  have : 0 < s := by simp only [s]; positivity
  nlinarith

theorem linreg_old_count_exceeds (e : ℝ) (d t : ℕ) (he : 0 < e) (ht : 1 < t) :
    let old : ℝ := 1 + (t * d : ℕ) + ((d * (d + 1) : ℕ) : ℝ) / 2
    let cnt : ℝ := ((t + t * d : ℕ) : ℝ) + ((d * (d + 1) : ℕ) : ℝ) / 2
    e < e / old * cnt := by
  intro old cnt
  have hold : 0 < old := by simp only [old]; positivity
  have : old < cnt := by
    simp only [old, cnt]; push_cast
    have : (1 : ℝ) < t := by exact_mod_cast ht
    linarith
  rw [div_mul_eq_mul_div, lt_div_iff₀ hold]
  nlinarith

/-- old squared-feature sensitivity `max(|l|,|l|)²` fails for `[0,1]`: x² moves by 1, sensitivity 0 -/
theorem linreg_old_sq_sens_cex : ¬ (∀ l u x x' : ℝ, l ≤ x ∧ x ≤ u → l ≤ x' ∧ x' ≤ u → |x * x - x' * x'| ≤ sqSens l l) := by
  intro h
  have := h 0 1 1 0 ⟨by norm_num, by norm_num⟩ ⟨by norm_num, by norm_num⟩
  simp [sqSens, pmax, pabs] at this
  linarith

/-- old class/cluster-sum sensitivity `u - l` fails for bounds (10, 11): a record leaving the group moves the sum by 10 -/
theorem sum_old_sens_cex : ¬ (∀ l u v : ℝ, l ≤ v ∧ v ≤ u → |v| ≤ u - l) := by
  intro h
  have := h 10 11 10 ⟨by norm_num, by norm_num⟩
  norm_num at this

/-- PCA / covariance_eig: one eigenvalue share plus the Bingham shares make up the whole budget -/
theorem pca_split (εc : ℝ) (k d : ℕ) (hd : 0 < d) (hk : k ≤ d) :
    let share := εc / ((k + (if k = d then 0 else 1) : ℕ) : ℝ)
    share + (min k (d - 1) : ℕ) * share = εc := by
  intro share
  by_cases h : k = d
  · subst h
    have h1 : min k (k - 1) = k - 1 := by omega
    have h2 : ((k : ℕ) : ℝ) ≠ 0 := by exact_mod_cast hd.ne'
    simp only [share, h1, if_true, add_zero]
    have : ((k - 1 : ℕ) : ℝ) = (k : ℝ) - 1 := by rw [Nat.cast_sub hd]; simp
    rw [this]; field_simp; ring
  · have h1 : min k (d - 1) = k := by omega
    simp only [share, h1, h, if_false]
    have : ((k + 1 : ℕ) : ℝ) ≠ 0 := by positivity
    push_cast at this ⊢
    field_simp; ring

theorem pca_uncentred_split (ε : ℝ) (d : ℕ) (hd : 0 < d) : (d : ℝ) * (ε / 2 / d) + ε / 2 = ε := by
  have : (d : ℝ) ≠ 0 := by exact_mod_cast hd.ne'
  field_simp; ring

theorem logreg_split (ε : ℝ) (m : ℕ) (hm : 0 < m) : (m : ℝ) * (ε / m) = ε := by
  have : (m : ℝ) ≠ 0 := by exact_mod_cast hm.ne'
  field_simp

end PM
end DPL
