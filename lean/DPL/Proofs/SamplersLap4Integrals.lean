/-
The two one-dimensional integrals behind the 4-uniform Laplace sampler of Holohan–Braghin:

  (b)  ∫₀¹ exp(i·a·log(1−u)) du = 1/(1 + i·a)                  (the characteristic function of −Exp(1) at `a`)
  (c)  ∫₀¹ dv / (1 + i·t·cos(πv)) = 1/√(1+t²)

(c) is reduced by the symmetry `v ↦ 1 − v` to the real integral `∫₀¹ dv/(1 + t² cos²(πv))`, whose antiderivative on
(0,1) is `arctan(√(1+t²)·tan(πv − π/2)) / (π√(1+t²))` with one-sided limits `∓1/(2√(1+t²))`.
-/
import Mathlib.Analysis.SpecialFunctions.Integrals.Basic
import Mathlib.Analysis.SpecialFunctions.Trigonometric.ArctanDeriv
import Mathlib.MeasureTheory.Integral.IntervalIntegral.FundThmCalculus
import Mathlib.Tactic

namespace DPL.Smp
open MeasureTheory Set Filter Topology Real

/-! ### (c) the cosine integral -/

theorem integral_inv_one_add_sq_cos (t : ℝ) :
    ∫ v in (0:ℝ)..1, 1 / (1 + t ^ 2 * Real.cos (π * v) ^ 2) = 1 / Real.sqrt (1 + t ^ 2) := by
  set s := Real.sqrt (1 + t ^ 2) with hs
  have hspos : 0 < s := Real.sqrt_pos.mpr (by positivity)
  have hs2 : s ^ 2 = 1 + t ^ 2 := Real.sq_sqrt (by positivity)
  have hpi : 0 < π := Real.pi_pos
  -- antiderivative
  let F : ℝ → ℝ := fun v => Real.arctan (s * Real.tan (π * v - π / 2)) / (π * s)
  have hderiv : ∀ v ∈ Ioo (0:ℝ) 1, HasDerivAt F (1 / (1 + t ^ 2 * Real.cos (π * v) ^ 2)) v := by
    intro v hv
    have hsin : 0 < Real.sin (π * v) := by
      apply Real.sin_pos_of_pos_of_lt_pi
      · exact mul_pos hpi hv.1
      · nlinarith [hv.2]
    have hcosx : Real.cos (π * v - π / 2) = Real.sin (π * v) := by
      rw [Real.cos_sub, Real.cos_pi_div_two, Real.sin_pi_div_two]; ring
    have hsinx : Real.sin (π * v - π / 2) = -Real.cos (π * v) := by
      rw [Real.sin_sub, Real.cos_pi_div_two, Real.sin_pi_div_two]; ring
    have hcne : Real.cos (π * v - π / 2) ≠ 0 := by rw [hcosx]; exact hsin.ne'
    have h1 : HasDerivAt (fun v : ℝ => π * v - π / 2) π v := by
      simpa using ((hasDerivAt_id v).const_mul π).sub_const (π / 2)
    have h2 : HasDerivAt (fun v : ℝ => Real.tan (π * v - π / 2)) (1 / Real.cos (π * v - π / 2) ^ 2 * π) v :=
      HasDerivAt.comp (h₂ := Real.tan) v (Real.hasDerivAt_tan hcne) h1
    have h3 := ((h2.const_mul s).arctan).div_const (π * s)
    refine h3.congr_deriv ?_
    have htan : Real.tan (π * v - π / 2) = -Real.cos (π * v) / Real.sin (π * v) := by
      rw [Real.tan_eq_sin_div_cos, hcosx, hsinx]
    rw [htan, hcosx]
    have hden : 0 < 1 + t ^ 2 * Real.cos (π * v) ^ 2 := by positivity
    have hsc : Real.sin (π * v) ^ 2 = 1 - Real.cos (π * v) ^ 2 := by
      have := Real.sin_sq_add_cos_sq (π * v); linarith
    have hden2 : 0 < 1 + (s * (-Real.cos (π * v) / Real.sin (π * v))) ^ 2 := by positivity
    rw [div_eq_div_iff (by positivity) hden.ne']
    field_simp
    rw [hs2, hsc]
    ring
  have hint : IntervalIntegrable (fun v : ℝ => 1 / (1 + t ^ 2 * Real.cos (π * v) ^ 2)) volume 0 1 := by
    apply Continuous.intervalIntegrable
    refine Continuous.div continuous_const (by fun_prop) (fun v => ?_)
    have : 0 < 1 + t ^ 2 * Real.cos (π * v) ^ 2 := by positivity
    exact this.ne'
  -- limits
  have hlim0 : Tendsto F (𝓝[>] 0) (𝓝 (-(π / 2) / (π * s))) := by
    have h1 : Tendsto (fun v : ℝ => π * v - π / 2) (𝓝[>] 0) (𝓝[>] (-(π / 2))) := by
      rw [tendsto_nhdsWithin_iff]
      constructor
      · have : Tendsto (fun v : ℝ => π * v - π / 2) (𝓝 0) (𝓝 (π * 0 - π / 2)) :=
          (continuous_const.mul continuous_id).sub continuous_const |>.tendsto 0
        have h0 : π * 0 - π / 2 = -(π / 2) := by ring
        rw [h0] at this
        exact this.mono_left nhdsWithin_le_nhds
      · filter_upwards [self_mem_nhdsWithin] with v hv
        have : 0 < π * v := mul_pos hpi hv
        simp only [mem_Ioi]; linarith
    have h2 := Real.tendsto_tan_neg_pi_div_two.comp h1
    have h3 : Tendsto (fun v : ℝ => s * Real.tan (π * v - π / 2)) (𝓝[>] 0) atBot :=
      Tendsto.const_mul_atBot hspos h2
    have h4 := (Real.tendsto_arctan_atBot.mono_right nhdsWithin_le_nhds).comp h3
    exact h4.div_const (π * s)
  have hlim1 : Tendsto F (𝓝[<] 1) (𝓝 ((π / 2) / (π * s))) := by
    have h1 : Tendsto (fun v : ℝ => π * v - π / 2) (𝓝[<] 1) (𝓝[<] (π / 2)) := by
      rw [tendsto_nhdsWithin_iff]
      constructor
      · have : Tendsto (fun v : ℝ => π * v - π / 2) (𝓝 1) (𝓝 (π * 1 - π / 2)) :=
          (continuous_const.mul continuous_id).sub continuous_const |>.tendsto 1
        have h0 : π * 1 - π / 2 = π / 2 := by ring
        rw [h0] at this
        exact this.mono_left nhdsWithin_le_nhds
      · filter_upwards [self_mem_nhdsWithin] with v hv
        have hv' : v < 1 := hv
        have : π * v < π * 1 := mul_lt_mul_of_pos_left hv' hpi
        simp only [mem_Iio]; linarith
    have h2 := Real.tendsto_tan_pi_div_two.comp h1
    have h3 : Tendsto (fun v : ℝ => s * Real.tan (π * v - π / 2)) (𝓝[<] 1) atTop :=
      Tendsto.const_mul_atTop hspos h2
    have h4 := (Real.tendsto_arctan_atTop.mono_right nhdsWithin_le_nhds).comp h3
    exact h4.div_const (π * s)
  rw [intervalIntegral.integral_eq_sub_of_hasDerivAt_of_tendsto zero_lt_one hderiv hint hlim0 hlim1]
  field_simp
  ring

/-- (c): `∫₀¹ dv / (1 + i t cos(πv)) = 1/√(1+t²)` -/
theorem integral_inv_one_add_I_cos (t : ℝ) :
    ∫ v in (0:ℝ)..1, (1 : ℂ) / (1 + (t * Real.cos (π * v) : ℝ) * Complex.I)
      = ((1 / Real.sqrt (1 + t ^ 2) : ℝ) : ℂ) := by
  have hne : ∀ a : ℝ, (1 : ℂ) + (a : ℝ) * Complex.I ≠ 0 := by
    intro a h
    have := congrArg Complex.re h
    simp at this
  have hne' : ∀ a : ℝ, (1 : ℂ) - (a : ℝ) * Complex.I ≠ 0 := by
    intro a h
    have := congrArg Complex.re h
    simp at this
  set h : ℝ → ℂ := fun v => (1 : ℂ) / (1 + (t * Real.cos (π * v) : ℝ) * Complex.I) with hh
  have hcont : Continuous h := by
    refine Continuous.div continuous_const ?_ (fun v => hne _)
    fun_prop
  have hsymm : ∫ v in (0:ℝ)..1, h v = ∫ v in (0:ℝ)..1, h (1 - v) := by
    rw [intervalIntegral.integral_comp_sub_left h 1]; simp
  have hsum : ∀ v : ℝ, h v + h (1 - v) = ((2 * (1 / (1 + t ^ 2 * Real.cos (π * v) ^ 2)) : ℝ) : ℂ) := by
    intro v
    have hc : Real.cos (π * (1 - v)) = -Real.cos (π * v) := by
      rw [mul_sub, mul_one, Real.cos_pi_sub]
    simp only [hh, hc]
    set c := Real.cos (π * v)
    have hden : (1 : ℝ) + t ^ 2 * c ^ 2 ≠ 0 := by positivity
    have hdenC : ((1 : ℂ) + (t:ℂ) ^ 2 * (c:ℂ) ^ 2) ≠ 0 := by
      have : ((1 + t ^ 2 * c ^ 2 : ℝ) : ℂ) ≠ 0 := Complex.ofReal_ne_zero.mpr hden
      simpa using this
    have h1 := hne (t * c)
    have h2 : (1 : ℂ) + ((t * -c : ℝ) : ℂ) * Complex.I ≠ 0 := hne (t * -c)
    push_cast at h1 h2 ⊢
    rw [div_add_div _ _ h1 h2, div_eq_iff (mul_ne_zero h1 h2), mul_div_assoc', div_mul_eq_mul_div,
      eq_div_iff hdenC]
    ring_nf
    rw [Complex.I_sq]
    ring
  have h2I : (2 : ℂ) * ∫ v in (0:ℝ)..1, h v = ((2 * (1 / Real.sqrt (1 + t ^ 2)) : ℝ) : ℂ) := by
    have : (2 : ℂ) * ∫ v in (0:ℝ)..1, h v = (∫ v in (0:ℝ)..1, h v) + ∫ v in (0:ℝ)..1, h (1 - v) := by
      rw [← hsymm]; ring
    have hcont' : Continuous (fun v : ℝ => h (1 - v)) := hcont.comp (continuous_const.sub continuous_id)
    rw [this, ← intervalIntegral.integral_add (f := h) (g := fun v : ℝ => h (1 - v))
      (hcont.intervalIntegrable _ _) (hcont'.intervalIntegrable _ _)]
    simp only [hsum]
    rw [intervalIntegral.integral_ofReal, intervalIntegral.integral_const_mul, integral_inv_one_add_sq_cos]
  have : (∫ v in (0:ℝ)..1, h v) = ((2 * (1 / Real.sqrt (1 + t ^ 2)) : ℝ) : ℂ) / 2 := by
    rw [← h2I]; ring
  rw [this]
  push_cast
  ring

/-! ### (b) the logarithm integral -/

/-- (b): `∫₀¹ exp(i a log(1−u)) du = 1/(1 + i a)` -/
theorem integral_exp_I_log (a : ℝ) :
    ∫ u in (0:ℝ)..1, Complex.exp (((a * Real.log (1 - u) : ℝ) : ℂ) * Complex.I) = 1 / (1 + (a : ℂ) * Complex.I) := by
  set r : ℂ := (a : ℂ) * Complex.I with hr
  have hre : r.re = 0 := by simp [hr]
  have hr1 : r + 1 ≠ 0 := by
    intro h
    have := congrArg Complex.re h
    simp [hre] at this
  -- the integrand is `(1-u)^r` on (0,1)
  have hcongr : ∫ u in (0:ℝ)..1, Complex.exp (((a * Real.log (1 - u) : ℝ) : ℂ) * Complex.I)
      = ∫ u in (0:ℝ)..1, (fun x : ℝ => (x : ℂ) ^ r) (1 - u) := by
    apply intervalIntegral.integral_congr_uIoo
    intro u hu
    rw [uIoo_of_le zero_le_one] at hu
    have h1u : 0 < 1 - u := by linarith [hu.2]
    have hne : ((1 - u : ℝ) : ℂ) ≠ 0 := Complex.ofReal_ne_zero.mpr h1u.ne'
    simp only
    rw [Complex.cpow_def_of_ne_zero hne, ← Complex.ofReal_log h1u.le, hr]
    congr 1
    push_cast; ring
  rw [hcongr, intervalIntegral.integral_comp_sub_left (fun x : ℝ => (x : ℂ) ^ r) 1]
  simp only [sub_self, sub_zero]
  rw [integral_cpow (Or.inl (by rw [hre]; norm_num))]
  simp only [Complex.ofReal_one, Complex.one_cpow, Complex.ofReal_zero, Complex.zero_cpow hr1, sub_zero]
  rw [add_comm]

end DPL.Smp
