/-
Link between the model of the code's `_fold` (`DPL/Model/Range.lean`: modulo step, then the reflection loop) and the
closed-form folding map `foldMap` whose mean is computed in `ContinuousFoldSum`: over ℝ, for `lo < hi`, whatever the
coded fold returns is `foldMap lo hi v`, and it does return (within 3 units of fuel, at most 2 reflections).

Argument: `foldMap` is invariant under the two reflections `v ↦ 2 lo - v`, `v ↦ 2 hi - v` and under the modulo step
(a shift by a whole number of periods), and it is the identity on `[lo, hi]`, where the loop stops.
-/
import DPL.Proofs.ContinuousFoldSum
import DPL.Proofs.RangeLemmas

namespace DPL.Cont
open DPL DPL.RangeL MeasureTheory

/-- the reflection loop computes `foldMap` -/
theorem foldLoop_eq_foldMap (lo hi : ℝ) (hw : lo < hi) :
    ∀ (fuel : ℕ) (v r : ℝ) (k : ℕ), foldLoop lo hi fuel v = some (r, k) → r = foldMap lo hi v
  | 0, _, _, _, h => by simp [foldLoop] at h
  | fuel + 1, v, r, k, h => by
    unfold foldLoop at h
    split at h
    · simp only at h
      split at h
      · rename_i r' n' hrec
        simp only [Option.some.injEq, Prod.mk.injEq] at h
        obtain ⟨rfl, _⟩ := h
        rw [foldLoop_eq_foldMap lo hi hw fuel _ _ _ hrec]
        split
        · exact foldMap_refl_lower lo hi v hw
        · exact foldMap_refl_upper lo hi v hw
      · cases h
    · rename_i hc
      simp only [Option.some.injEq, Prod.mk.injEq] at h
      obtain ⟨rfl, _⟩ := h
      simp only [Bool.or_eq_true, decide_eq_true_eq, not_or, not_lt] at hc
      exact (foldMap_id lo hi _ hw hc.1 hc.2).symm

/-- the modulo step does not change the value of `foldMap` -/
theorem foldMap_foldPre (lo hi v : ℝ) (hw : lo < hi) : foldMap lo hi (foldPre lo hi v) = foldMap lo hi v := by
  unfold foldPre
  simp only
  split
  · obtain ⟨k, hk⟩ := fmod_eq_sub (v - lo) (2 * (hi - lo))
    rw [hk]
    have e : lo + (v - lo - 2 * (hi - lo) * k) = v - k * (2 * (hi - lo)) := by ring
    rw [e, foldMap_sub_period lo hi v hw k]
  · rfl

/-- whatever `_fold` returns over ℝ is the triangle-wave reflection of its argument -/
theorem fold_eq_foldMap (lo hi v : ℝ) (hw : lo < hi) (fuel : ℕ) (r : ℝ) (k : ℕ)
    (h : fold lo hi v fuel = some (r, k)) : r = foldMap lo hi v := by
  unfold fold at h
  rw [feq_false_of_lt hw] at h
  simp only [Bool.false_eq_true, if_false] at h
  rw [foldLoop_eq_foldMap lo hi hw fuel _ _ _ h, foldMap_foldPre lo hi v hw]

/-- and it does return, after at most two reflections -/
theorem fold_spec (lo hi v : ℝ) (hw : lo < hi) (fuel : ℕ) (hf : 3 ≤ fuel) :
    ∃ k, k ≤ 2 ∧ fold lo hi v fuel = some (foldMap lo hi v, k) := by
  have hterm : ∃ r k, fold lo hi v fuel = some (r, k) ∧ k ≤ 2 := by
    unfold fold
    rw [feq_false_of_lt hw]
    simp only [Bool.false_eq_true, if_false]
    obtain ⟨r, k, h, hk, _⟩ := foldLoop_terminates lo hi hw 2 _ (foldPre_dist lo hi v hw) fuel hf
    exact ⟨r, k, h, hk⟩
  obtain ⟨r, k, h, hk⟩ := hterm
  have := fold_eq_foldMap lo hi v hw fuel r k h
  subst this
  exact ⟨k, hk, h⟩

/-- `LaplaceFolded.randomise` as modelled: the output is `foldMap` of the noisy value -/
theorem laplaceFolded_eq_foldMap (lo hi value scale u1 u2 u3 u4 : ℝ) (hw : lo < hi) :
    ∃ k, k ≤ 2 ∧ laplaceFolded lo hi value scale u1 u2 u3 u4 =
      some (foldMap lo hi (laplaceNoisy value scale u1 u2 u3 u4), k) := by
  unfold laplaceFolded
  exact fold_spec lo hi _ hw 64 (by omega)

/-- the value the modelled `_fold` returns (default fuel 64); `0` stands for "did not return", which does not happen -/
noncomputable def foldOut (lo hi y : ℝ) : ℝ := ((fold lo hi y).map Prod.fst).getD 0

theorem foldOut_eq_foldMap (lo hi : ℝ) (hw : lo < hi) : foldOut lo hi = foldMap lo hi := by
  funext y
  obtain ⟨k, _, h⟩ := fold_spec lo hi y hw 64 (by omega)
  unfold foldOut
  rw [h]
  rfl

/-- **C19 for the code's fold**: the mean of the modelled `_fold` applied to a Laplace(v, b) variable, minus `v`, is
the value `LaplaceFolded.bias` reports -/
theorem folded_model_mean (b l u v : ℝ) (hb : 0 < b) (hlu : l < u) (hlv : l ≤ v) (hvu : v ≤ u) :
    (∫ y, foldOut l u y ∂(lapMeasure b v)) - v = foldBiasOf b l u v := by
  rw [foldOut_eq_foldMap l u hlu, integral_foldMap_lapMeasure b l u v hb]
  exact folded_mean b l u v hb hlu hlv hvu

end DPL.Cont
