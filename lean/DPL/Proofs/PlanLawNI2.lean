/-
C06, bridge from the statement-level IR (DPL/Model/TaintIR.lean) to output LAWS.

`lawExec` mirrors `exec` with the forced-output list replaced by a kernel family: `declass x cfg input` draws from
`K (cfg values) (input values)`, `probe x args` evaluates the occupancy function `pr` on its arguments; continuation-
passing, fuel-bounded exactly as `exec` (the law is a measure on `Res ℝ`: returned trace + values, or a halt).
`agreeExec` is the IR analogue of `Plan.inputsAgree ∧ Plan.probesAgree`: along every path of outputs the two runs take
the same decisions, hand every mechanism the same input values and get the same probe answers.
`lawExec_ni` / `taint_law_noninterference`: for a LOOP-FREE function accepted by the checker, two environments that
agree outside the sources and satisfy `agreeExec` have EQUAL output laws, for every kernel family.  Proved directly by
recursion over the statement (the same invariant as `flow_sound`: low-equivalence outside the tainted set), for every
`pc`.  Loops: `taint_law_noninterference_full` (stated, not proved).
-/
import DPL.Proofs.TaintIR
import Mathlib.MeasureTheory.Measure.GiryMonad
import Mathlib.MeasureTheory.Measure.Dirac
import Mathlib.MeasureTheory.Constructions.BorelSpace.Real

namespace DPL
namespace TaintIR
open MeasureTheory

def loopFree : Stmt → Prop
  | .seq a b => loopFree a ∧ loopFree b
  | .branch _ _ t e => loopFree t ∧ loopFree e
  | .loop _ _ _ _ => False
  | _ => True

section
variable [MeasurableSpace (Res ℝ)] (I : Interp ℝ) (K : List ℝ → List ℝ → Measure ℝ) (pr : List ℝ → ℝ)

/-- law of the result of a statement, mechanisms drawn from `K cfg input`, probes answered by `pr` -/
noncomputable def lawExec : Nat → Stmt → St ℝ → (St ℝ → Measure (Res ℝ)) → Measure (Res ℝ)
  | 0, _, _, _ => Measure.dirac (.halt .stuck)
  | _ + 1, .skip, s, k => k s
  | n + 1, .seq a b, s, k => lawExec n a s (fun s' => lawExec n b s' k)
  | _ + 1, .assign x op args, s, k => k { s with env := upd s.env x (I.op op (args.map s.env)) }
  | _ + 1, .declass x cfg inp, s, k =>
    (K (cfg.map s.env) (inp.map s.env)).bind (fun o => k ⟨upd s.env x o, s.outs, s.trace ++ [cfg.map s.env]⟩)
  | _ + 1, .probe x args, s, k => k ⟨upd s.env x (pr (args.map s.env)), s.outs, s.trace⟩
  | n + 1, .branch id c t e, s, k => if I.dec id (c.map s.env) then lawExec n t s k else lawExec n e s k
  | n + 1, .loop kk id c b, s, k =>
    if I.dec id (c.map s.env) then lawExec n b s (fun s' => lawExec n (.loop kk id c b) s' k) else k s
  | _ + 1, .ret vs, s, _ => Measure.dirac (.ret s.trace (vs.map s.env))
  | _ + 1, .halt h, _, _ => Measure.dirac (.halt h)

end

/-- the two runs take the same decisions, hand every mechanism the same inputs and get the same probe answers, along
every path of mechanism outputs -/
def agreeExec (I : Interp ℝ) (pr : List ℝ → ℝ) : Nat → Stmt → St ℝ → St ℝ → (St ℝ → St ℝ → Prop) → Prop
  | 0, _, _, _, _ => True
  | _ + 1, .skip, s1, s2, kP => kP s1 s2
  | n + 1, .seq a b, s1, s2, kP => agreeExec I pr n a s1 s2 (fun a1 a2 => agreeExec I pr n b a1 a2 kP)
  | _ + 1, .assign x op args, s1, s2, kP =>
    kP { s1 with env := upd s1.env x (I.op op (args.map s1.env)) }
       { s2 with env := upd s2.env x (I.op op (args.map s2.env)) }
  | _ + 1, .declass x cfg inp, s1, s2, kP =>
    inp.map s1.env = inp.map s2.env ∧
      ∀ o, kP ⟨upd s1.env x o, s1.outs, s1.trace ++ [cfg.map s1.env]⟩
              ⟨upd s2.env x o, s2.outs, s2.trace ++ [cfg.map s2.env]⟩
  | _ + 1, .probe x args, s1, s2, kP =>
    pr (args.map s1.env) = pr (args.map s2.env) ∧
      kP ⟨upd s1.env x (pr (args.map s1.env)), s1.outs, s1.trace⟩
         ⟨upd s2.env x (pr (args.map s2.env)), s2.outs, s2.trace⟩
  | n + 1, .branch id c t e, s1, s2, kP =>
    I.dec id (c.map s1.env) = I.dec id (c.map s2.env) ∧
      if I.dec id (c.map s1.env) then agreeExec I pr n t s1 s2 kP else agreeExec I pr n e s1 s2 kP
  | n + 1, .loop kk id c b, s1, s2, kP =>
    I.dec id (c.map s1.env) = I.dec id (c.map s2.env) ∧
      if I.dec id (c.map s1.env) then
        agreeExec I pr n b s1 s2 (fun a1 a2 => agreeExec I pr n (.loop kk id c b) a1 a2 kP)
      else kP s1 s2
  | _ + 1, .ret _, _, _, _ => True
  | _ + 1, .halt _, _, _, _ => True

theorem lowEq_upd_ins {Γ : Ctx} {e1 e2 : Var → ℝ} (x : Var) (v1 v2 : ℝ) (h : lowEq Γ e1 e2) :
    lowEq (ins x Γ) (upd e1 x v1) (upd e2 x v2) := by
  intro y hy
  rw [mem_ins] at hy
  have hyx : y ≠ x := fun e => hy (Or.inl e)
  simp only [upd, if_neg hyx]
  exact h y fun hm => hy (Or.inr hm)

theorem lowEq_upd_del {Γ : Ctx} {e1 e2 : Var → ℝ} (x : Var) (v : ℝ) (h : lowEq Γ e1 e2) :
    lowEq (del x Γ) (upd e1 x v) (upd e2 x v) := by
  intro y hy
  rw [mem_del] at hy
  by_cases hyx : y = x
  · simp only [upd, if_pos hyx]
  · simp only [upd, if_neg hyx]
    exact h y fun hm => hy ⟨hyx, hm⟩

section
variable [MeasurableSpace (Res ℝ)] (I : Interp ℝ) (K : List ℝ → List ℝ → Measure ℝ) (pr : List ℝ → ℝ)

/-- **noninterference of the law, statement level** (loop-free fragment, every `pc`) -/
theorem lawExec_ni (s : Stmt) : ∀ (n : Nat) (_ : loopFree s) (Γ Γ' : Ctx) (pc : Bool) (_ : flow s Γ pc = some Γ')
    (s1 s2 : St ℝ) (_ : SEq Γ s1 s2) (k1 k2 : St ℝ → Measure (Res ℝ)) (kP : St ℝ → St ℝ → Prop)
    (_ : agreeExec I pr n s s1 s2 kP) (_ : ∀ a b, SEq Γ' a b → kP a b → k1 a = k2 b),
    lawExec I K pr n s s1 k1 = lawExec I K pr n s s2 k2 := by
  induction s with
  | skip =>
    intro n _ Γ Γ' pc h s1 s2 hs k1 k2 kP hag hk
    cases n with
    | zero => rfl
    | succ n =>
      simp only [flow, Option.some.injEq] at h
      subst h
      exact hk s1 s2 hs hag
  | seq a b iha ihb =>
    intro n hlf Γ Γ' pc h s1 s2 hs k1 k2 kP hag hk
    cases n with
    | zero => rfl
    | succ n =>
      simp only [flow] at h
      cases ha : flow a Γ pc with
      | none => rw [ha] at h; cases h
      | some Γ₁ =>
        rw [ha] at h
        simp only [lawExec]
        exact iha n hlf.1 Γ Γ₁ pc ha s1 s2 hs _ _ _ hag
          (fun a1 a2 hab hP => ihb n hlf.2 Γ₁ Γ' pc h a1 a2 hab _ _ _ hP hk)
  | assign x op args =>
    intro n _ Γ Γ' pc h s1 s2 hs k1 k2 kP hag hk
    cases n with
    | zero => rfl
    | succ n =>
      simp only [flow, Option.some.injEq] at h
      simp only [lawExec]
      refine hk _ _ ?_ hag
      subst h
      by_cases hc : (pc || tainted Γ args) = true
      · rw [if_pos hc]
        exact ⟨lowEq_upd_ins x _ _ hs.1, hs.2⟩
      · rw [if_neg hc]
        have ht : tainted Γ args = false := by
          cases hta : tainted Γ args with
          | false => rfl
          | true => exact absurd (by simp [hta]) hc
        rw [map_eq ht hs.1]
        exact ⟨lowEq_upd_del x _ hs.1, hs.2⟩
  | declass x cfg inp =>
    intro n _ Γ Γ' pc h s1 s2 hs k1 k2 kP hag hk
    cases n with
    | zero => rfl
    | succ n =>
      simp only [flow] at h
      by_cases hc : (pc || tainted Γ cfg) = true
      · rw [if_pos hc] at h; cases h
      · rw [if_neg hc, Option.some.injEq] at h
        subst h
        have ht : tainted Γ cfg = false := by
          cases hta : tainted Γ cfg with
          | false => rfl
          | true => exact absurd (by simp [hta]) hc
        have hcfg := map_eq ht hs.1
        simp only [lawExec]
        rw [hcfg, hag.1]
        congr 1
        funext o
        refine hk _ _ ⟨lowEq_upd_del x o hs.1, hs.2.1, ?_⟩ (by have := hag.2 o; rwa [hcfg] at this)
        show s1.trace ++ _ = s2.trace ++ _
        rw [hs.2.2]
  | probe x args =>
    intro n _ Γ Γ' pc h s1 s2 hs k1 k2 kP hag hk
    cases n with
    | zero => rfl
    | succ n =>
      simp only [flow] at h
      by_cases hc : pc = true
      · rw [if_pos hc] at h; cases h
      · rw [if_neg hc, Option.some.injEq] at h
        subst h
        simp only [lawExec]
        refine hk _ _ ⟨?_, hs.2.1, hs.2.2⟩ hag.2
        show lowEq _ (upd s1.env x _) (upd s2.env x _)
        rw [hag.1]
        exact lowEq_upd_del x _ hs.1
  | branch id c t e iht ihe =>
    intro n hlf Γ Γ' pc h s1 s2 hs k1 k2 kP hag hk
    cases n with
    | zero => rfl
    | succ n =>
      simp only [flow] at h
      cases hta : flow t Γ (pc || tainted Γ c) with
      | none => rw [hta] at h; cases h
      | some A =>
        cases hea : flow e Γ (pc || tainted Γ c) with
        | none => rw [hta, hea] at h; cases h
        | some B =>
          rw [hta, hea, Option.some.injEq] at h
          subst h
          simp only [lawExec]
          simp only [agreeExec] at hag
          rw [← hag.1]
          by_cases hd : I.dec id (List.map s1.env c) = true
          · rw [if_pos hd, if_pos hd]
            have h2 := hag.2
            rw [if_pos hd] at h2
            exact iht n hlf.1 Γ A _ hta s1 s2 hs _ _ _ h2
              (fun a b hab hP => hk a b (SEq.weaken (fun y hy => (mem_union A B y).2 (Or.inl hy)) hab) hP)
          · rw [if_neg hd, if_neg hd]
            have h2 := hag.2
            rw [if_neg hd] at h2
            exact ihe n hlf.2 Γ B _ hea s1 s2 hs _ _ _ h2
              (fun a b hab hP => hk a b (SEq.weaken (fun y hy => (mem_union A B y).2 (Or.inr hy)) hab) hP)
  | loop kk id c b _ =>
    intro n hlf
    exact hlf.elim
  | ret vs =>
    intro n _ Γ Γ' pc h s1 s2 hs k1 k2 kP hag hk
    cases n with
    | zero => rfl
    | succ n =>
      simp only [flow] at h
      by_cases hc : (pc || tainted Γ vs) = true
      · rw [if_pos hc] at h; cases h
      · have ht : tainted Γ vs = false := by
          cases hta : tainted Γ vs with
          | false => rfl
          | true => exact absurd (by simp [hta]) hc
        simp only [lawExec]
        rw [map_eq ht hs.1, hs.2.2]
  | halt hh =>
    intro n _ Γ Γ' pc h s1 s2 hs k1 k2 kP hag hk
    cases n with
    | zero => rfl
    | succ n => rfl

/-- law of the result of a function (falling off the end returns nothing) -/
noncomputable def Fn.law (fuel : Nat) (f : Fn) (env : Var → ℝ) : Measure (Res ℝ) :=
  lawExec I K pr fuel f.body ⟨env, [], []⟩ (fun s => Measure.dirac (.ret s.trace []))

end

/-- same decisions, same mechanism inputs, same probe answers along every path of the function's body -/
def Fn.agree (I : Interp ℝ) (pr : List ℝ → ℝ) (fuel : Nat) (f : Fn) (e1 e2 : Var → ℝ) : Prop :=
  agreeExec I pr fuel f.body ⟨e1, [], []⟩ ⟨e2, [], []⟩ (fun _ _ => True)

/-- **the static tie at the level of laws** (loop-free functions): accepted by the checker + environments equal outside
the data + same mechanism inputs / probe answers / decisions ⇒ EQUAL output laws, for every kernel family -/
theorem taint_law_noninterference [MeasurableSpace (Res ℝ)] (f : Fn) (hf : flowsOk f = true) (hlf : loopFree f.body)
    (I : Interp ℝ) (K : List ℝ → List ℝ → Measure ℝ) (pr : List ℝ → ℝ) (e1 e2 : Var → ℝ)
    (hag : ∀ x, x ∉ f.sources → e1 x = e2 x) (fuel : Nat) (ha : f.agree I pr fuel e1 e2) :
    f.law I K pr fuel e1 = f.law I K pr fuel e2 := by
  unfold flowsOk at hf
  cases hfl : flow f.body f.sources false with
  | none => rw [hfl] at hf; cases hf
  | some Γ' =>
    refine lawExec_ni I K pr f.body fuel hlf f.sources Γ' false hfl ⟨e1, [], []⟩ ⟨e2, [], []⟩ ⟨hag, rfl, rfl⟩ _ _ _ ha ?_
    intro a b hab _
    show Measure.dirac _ = Measure.dirac _
    rw [hab.2.2]

/-- the same for functions WITH loops (the checker's invariant closes the induction as in `flow_sound`); not proved -/
def taint_law_noninterference_full : Prop :=
  ∀ [MeasurableSpace (Res ℝ)] (f : Fn), flowsOk f = true →
    ∀ (I : Interp ℝ) (K : List ℝ → List ℝ → Measure ℝ) (pr : List ℝ → ℝ) (e1 e2 : Var → ℝ),
      (∀ x, x ∉ f.sources → e1 x = e2 x) → ∀ fuel, f.agree I pr fuel e1 e2 →
        f.law I K pr fuel e1 = f.law I K pr fuel e2

end TaintIR
end DPL
