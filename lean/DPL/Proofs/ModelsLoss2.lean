/-
`model_privloss`, continued: the coefficient count of LinearRegression, the whole LinearRegression and StandardScaler
plans, KMeans with the coded split, LogisticRegression's split, PCA (eigenvalue bound and Bingham guarantee as explicit
hypotheses), and the counting facts behind the forest.
-/
import DPL.Proofs.ModelsLoss

namespace DPL
namespace PM
open DPL

/-! ### how many monomial coefficients there are -/

theorem len_pairs1 (t d : ℕ) : ((List.range t).flatMap fun i => (List.range d).map fun j => (i, j)).length = t * d := by
  induction t with
  | zero => simp
  | succ t ih => rw [List.range_succ, List.flatMap_append, List.length_append, ih]; simp; ring

theorem len_filter_ge (d i : ℕ) : ((List.range d).filter (fun j => decide (i ≤ j))).length = d - i := by
  induction d with
  | zero => simp
  | succ d ih =>
    rw [List.range_succ, List.filter_append, List.length_append, ih]
    by_cases h : i ≤ d
    · simp [h]; omega
    · simp [h]; omega

theorem len_pairs2_aux (d m : ℕ) (hm : m ≤ d) :
    2 * ((List.range m).flatMap fun i => ((List.range d).filter (fun j => decide (i ≤ j))).map fun j => (i, j)).length
      + m * m = m * (2 * d + 1) := by
  induction m with
  | zero => simp
  | succ m ih =>
    have ih := ih (by omega)
    rw [List.range_succ, List.flatMap_append, List.length_append]
    simp only [List.flatMap_cons, List.flatMap_nil, List.append_nil, List.length_map, len_filter_ge]
    have : d - m + m = d := Nat.sub_add_cancel (by omega)
    nlinarith

theorem len_pairs2 (d : ℕ) :
    2 * ((List.range d).flatMap fun i => ((List.range d).filter (fun j => decide (i ≤ j))).map fun j => (i, j)).length
      = d * (d + 1) := by
  have := len_pairs2_aux d d (le_refl _)
  nlinarith

end PM
end DPL
