/-
`model_privloss`, continued: the coefficient count of LinearRegression, the whole LinearRegression and StandardScaler
plans, KMeans with the coded split, LogisticRegression's split, PCA (eigenvalue bound and Bingham guarantee as explicit
hypotheses), and the counting facts behind the forest.
-/
import DPL.Proofs.ModelsLoss

namespace DPL
namespace PM
open DPL

/-! ### how many monomial coefficients there are -/

theorem len_pairs1 (t d : ℕ) : ((List.range t).flatMap fun i => (List.range d).map fun j => (i, j)).length = t * d := by
  induction t with
  | zero => simp
  | succ t ih => rw [List.range_succ, List.flatMap_append, List.length_append, ih]; simp; ring

theorem len_filter_ge (d i : ℕ) : ((List.range d).filter (fun j => decide (i ≤ j))).length = d - i := by
  induction d with
  | zero => simp
  | succ d ih =>
    rw [List.range_succ, List.filter_append, List.length_append, ih]
    by_cases h : i ≤ d
    · simp [h]; omega
    · simp [h]; omega

theorem len_pairs2_aux (d m : ℕ) (hm : m ≤ d) :
    2 * ((List.range m).flatMap fun i => ((List.range d).filter (fun j => decide (i ≤ j))).map fun j => (i, j)).length
      + m * m = m * (2 * d + 1) := by
  induction m with
  | zero => simp
  | succ m ih =>
    have ih := ih (by omega)
    rw [List.range_succ, List.flatMap_append, List.length_append]
    simp only [List.flatMap_cons, List.flatMap_nil, List.append_nil, List.length_map, len_filter_ge]
    have : d - m + m = d := Nat.sub_add_cancel (by omega)
    nlinarith

theorem len_pairs2 (d : ℕ) :
    2 * ((List.range d).flatMap fun i => ((List.range d).filter (fun j => decide (i ≤ j))).map fun j => (i, j)).length
      = d * (d + 1) := by
  have := len_pairs2_aux d d (le_refl _)
  nlinarith

theorem lin_lengths (p : LinParams ℝ) :
    (((List.range p.t).length : ℝ) +
      (((List.range p.t).flatMap fun i => (List.range p.d).map fun j => (i, j)).length : ℝ) +
      (((List.range p.d).flatMap fun i => ((List.range p.d).filter (fun j => i ≤ j)).map fun j => (i, j)).length : ℝ))
      = linCount p := by
  rw [len_pairs1]
  have h : (2 : ℝ) * (((List.range p.d).flatMap fun i => ((List.range p.d).filter (fun j => decide (i ≤ j))).map
      fun j => (i, j)).length : ℝ) = ((p.d * (p.d + 1) : ℕ) : ℝ) := by exact_mod_cast len_pairs2 p.d
  simp only [linCount, nat, List.length_range]
  push_cast at h ⊢
  linarith

/-! ### LinearRegression, whole plan -/

theorem linreg_privloss (p : LinParams ℝ) (hε : 0 ≤ p.eps) (hd : 0 < p.d) (ht : 0 < p.t)
    (hb : ∀ j, nth p.lo j ≤ nth p.hi j) (hby : ∀ i, nth p.ylo i ≤ nth p.yhi i) (h1d : p.y1d = true → p.t = 1)
    (pre post : DS ℝ) (r r' : Rec ℝ) (hn : p.n = pre.length + 1 + post.length) :
    lossLe (pre ++ r :: post) (pre ++ r' :: post) (linPlan p) p.eps := by
  have hcnt : 0 < linCount p := by
    have : (0 : ℝ) < ((p.t + p.t * p.d : ℕ) : ℝ) := by exact_mod_cast (by positivity : 0 < p.t + p.t * p.d)
    have : (0 : ℝ) ≤ ((p.d * (p.d + 1) : ℕ) : ℝ) / ((2 : ℕ) : ℝ) := by positivity
    simp only [linCount, nat]; linarith
  have hs0 : (0 : ℝ) < 1 / ((p.d + 1 : ℕ) : ℝ) := by positivity
  have hs1 : 1 / ((p.d + 1 : ℕ) : ℝ) ≤ 1 := by
    rw [div_le_one (by positivity)]; push_cast; linarith [(Nat.cast_nonneg p.d : (0 : ℝ) ≤ p.d)]
  unfold linPlan
  split
  · simp only [nat]
    refine lossLe_mono _ _ _ (le_of_eq ?_)
      (lossLe_bind _ _ _ _ (meanAxis0_loss pre post r r' _ p.lo p.hi p.n p.d (by positivity) hd hb hn) fun xo =>
        lossLe_bind _ _ _ _ (linMeanY_loss p pre post r r' _ (by positivity) h1d hby ht hn) fun yo =>
          lossLe_map _ _ _ _ (linCoefs_loss p pre post r r' (p.eps * (1 - 1 / ((p.d + 1 : ℕ) : ℝ)))
            (mul_nonneg hε (by linarith)) xo yo hcnt hb hby))
    rw [lin_lengths, div_mul_cancel₀ _ hcnt.ne']
    ring
  · refine lossLe_mono _ _ _ (le_of_eq ?_)
      (lossLe_map _ _ _ _ (linCoefs_loss p pre post r r' (p.eps * (1 - 0)) (by simpa using hε) [] [] hcnt hb hby))
    rw [lin_lengths, div_mul_cancel₀ _ hcnt.ne']
    ring

/-! ### StandardScaler -/

/-- StandardScaler: ε/2 over the `d` column means + ε/2 over the `d` column variances.  The list-level variance
sensitivity (`|var D_j − var D'_j| ≤ ((u-l)/n)²(n-1)`) enters as the hypothesis `hvar`; its algebraic core is
`var_core` (the tools' `var_sens` of C07 discharges it). -/
theorem scaler_privloss (p : ScalerParams ℝ) (hε : 0 ≤ p.eps) (hd : 0 < p.d)
    (hb : ∀ j, nth p.lo j ≤ nth p.hi j) (pre post : DS ℝ) (r r' : Rec ℝ) (hn : p.n = pre.length + 1 + post.length)
    (hvar : ∀ j, |varL ((pre ++ r :: post).map (feat p.lo p.hi j)) - varL ((pre ++ r' :: post).map (feat p.lo p.hi j))|
        ≤ 1 * (((nth p.hi j - nth p.lo j) / p.n) * ((nth p.hi j - nth p.lo j) / p.n) * ((p.n : ℝ) - 1))) :
    lossLe (pre ++ r :: post) (pre ++ r' :: post) (scalerPlan p) p.eps := by
  have hN : (1 : ℝ) ≤ p.n := by rw [hn]; push_cast; linarith [(Nat.cast_nonneg pre.length : (0:ℝ) ≤ _), (Nat.cast_nonneg post.length : (0:ℝ) ≤ _)]
  have hdr : (p.d : ℝ) ≠ 0 := by exact_mod_cast hd.ne'
  unfold scalerPlan
  split
  · exact hε
  · by_cases hs : p.withStd = true
    · simp only [hs, if_true, nat]
      have hv : lossLe (pre ++ r :: post) (pre ++ r' :: post) (varAxis0 (p.eps / ((2 : ℕ) : ℝ)) p.lo p.hi p.n p.d)
          (p.eps / ((2 : ℕ) : ℝ)) := by
        have := lossLe_forList_const (pre ++ r :: post) (pre ++ r' :: post) (List.range p.d)
          (fun j => one (varCall (p.eps / ((2 : ℕ) : ℝ) / (p.d : ℝ)) (nth p.lo j) (nth p.hi j) p.n)
            (fun D => varL (D.map (feat p.lo p.hi j))))
          (p.eps / ((2 : ℕ) : ℝ) / p.d * 1) (fun j _ => by
            have := lossLe_one (pre ++ r :: post) (pre ++ r' :: post)
              (varCall (p.eps / ((2 : ℕ) : ℝ) / (p.d : ℝ)) (nth p.lo j) (nth p.hi j) p.n)
              (fun D => varL (D.map (feat p.lo p.hi j))) 1 (by norm_num) (le_refl _)
              (by simp only [varCall]; positivity)
              (by simp only [varCall]; exact mul_nonneg (mul_self_nonneg _) (by linarith))
              (by simpa [varCall] using hvar j)
            simpa [varCall] using this)
        refine lossLe_mono _ _ _ (le_of_eq ?_) this
        simp only [List.length_range]; field_simp
      refine lossLe_mono _ _ _ (le_of_eq ?_)
        (lossLe_bind _ _ _ _ (meanAxis0_loss pre post r r' _ p.lo p.hi p.n p.d (by positivity) hd hb hn) fun ms =>
          lossLe_map _ _ _ _ hv)
      push_cast; ring
    · simp only [hs, if_false]
      have := lossLe_bind _ _ _ (fun ms => (Plan.release (ms, []) : Plan (DS ℝ) ℝ (List ℝ × List ℝ)))
        (meanAxis0_loss pre post r r' p.eps p.lo p.hi p.n p.d hε hd hb hn) (fun _ => lossLe_release _ _ _)
      simpa using this

/-! ### KMeans with the coded iteration count and split -/

noncomputable instance : Cbrt ℝ := ⟨fun x => x ^ ((1 : ℝ) / 3)⟩

theorem kmC_nonneg (d : ℕ) : (0 : ℝ) ≤ kmC d := by
  unfold kmC; exact Real.rpow_nonneg (by unfold nat rho nat; positivity) _

theorem kmIters_pos (p : KmParams ℝ) : 2 ≤ kmIters p := by
  unfold kmIters
  simp only [pmax_eq, nat, transc_floor]
  have : (2 : ℤ) ≤ ⌊max (pmin (p.eps / Transc.sqrt (((500 * p.k ^ 3 : ℕ) : ℝ) / ((p.n ^ 2 : ℕ) : ℝ) *
      Transc.pow ((p.d : ℝ) + kmC p.d) ((3 : ℕ) : ℝ))) ((7 : ℕ) : ℝ)) ((2 : ℕ) : ℝ)⌋ :=
    Int.le_floor.mpr (by push_cast; exact le_max_right _ _)
  omega

/-- KMeans as coded: iterations · (ε₀ + d·ε_i) = ε, a record touches ≤ 2 clusters per iteration ⇒ loss ≤ 2ε -/
theorem kmeans_privloss (p : KmParams ℝ) (hε : 0 ≤ p.eps) (hd : 0 < p.d) (hb : ∀ j, nth p.lo j ≤ nth p.hi j)
    (pre post : DS ℝ) (r r' : Rec ℝ) :
    lossLe (pre ++ r :: post) (pre ++ r' :: post) (kmPlan p) (2 * p.eps) := by
  have hit : 0 < kmIters p := by have := kmIters_pos p; omega
  have hc := kmC_nonneg p.d
  have hpos : (0 : ℝ) < (p.d : ℝ) + kmC p.d := by
    have : (0 : ℝ) < p.d := by exact_mod_cast hd
    linarith
  have hnorm : 0 ≤ p.eps / (kmIters p : ℝ) / ((p.d : ℝ) + kmC p.d) := by positivity
  unfold kmPlan kmPlanWith
  simp only [kmSplit]
  refine lossLe_mono _ _ _ (le_of_eq ?_)
    (kmeans_privloss_with p _ _ (mul_nonneg hc hnorm) (by simpa using hnorm) hb pre post r r' (kmIters p) p.init)
  have := kmeans_split p.eps (kmC p.d) p.d (kmIters p) hd hit hc
  simp only at this
  linarith

theorem kmeans_privloss_stay (p : KmParams ℝ) (hε : 0 ≤ p.eps) (hd : 0 < p.d) (hb : ∀ j, nth p.lo j ≤ nth p.hi j)
    (pre post : DS ℝ) (r r' : Rec ℝ) (hsame : ∀ cs, assign p.lo p.hi cs r = assign p.lo p.hi cs r') :
    lossLe (pre ++ r :: post) (pre ++ r' :: post) (kmPlan p) p.eps := by
  have hit : 0 < kmIters p := by have := kmIters_pos p; omega
  have hc := kmC_nonneg p.d
  have hpos : (0 : ℝ) < (p.d : ℝ) + kmC p.d := by
    have : (0 : ℝ) < p.d := by exact_mod_cast hd
    linarith
  have hnorm : 0 ≤ p.eps / (kmIters p : ℝ) / ((p.d : ℝ) + kmC p.d) := by positivity
  unfold kmPlan kmPlanWith
  simp only [kmSplit]
  refine lossLe_mono _ _ _ (le_of_eq ?_)
    (kmeans_privloss_same p _ _ (mul_nonneg hc hnorm) (by simpa using hnorm) hb pre post r r' hsame (kmIters p) p.init)
  have := kmeans_split p.eps (kmC p.d) p.d (kmIters p) hd hit hc
  simp only at this
  linarith

/-! ### PCA / covariance_eig, relative to the cited facts -/

theorem sum_map_mul_left' (l : List Nat) (a : ℝ) (f : Nat → ℝ) : (l.map fun i => a * f i).sum = a * (l.map f).sum := by
  induction l with
  | nil => simp
  | cons c cs ih => simp only [List.map_cons, List.sum_cons, ih]; ring

/-- PCA: `hEig1`/`hEigSum` = the cited eigenvalue perturbation bound (each eigenvalue of XᵀX/norm² moves by ≤ 2 and
all of them by ≤ 2 in total under one replaced row of norm ≤ norm); `hBing` = the input of every Bingham call moves by
at most the mechanism's sensitivity 1 (spectral norm; the abstract scalar `bing` stands for the matrix). -/
theorem pca_privloss (p : PcaParams ℝ) (eig bing : DS ℝ → List ℝ → Nat → ℝ) (hε : 0 ≤ p.eps) (hd : 0 < p.d)
    (hk : p.k ≤ p.d) (hb : ∀ j, nth p.lo j ≤ nth p.hi j) (pre post : DS ℝ) (r r' : Rec ℝ)
    (hn : p.n = pre.length + 1 + post.length)
    (hEig1 : ∀ mean i, |eig (pre ++ r :: post) mean i - eig (pre ++ r' :: post) mean i| ≤ 2)
    (hEigSum : ∀ mean, ((List.range p.d).map fun i =>
        |eig (pre ++ r :: post) mean i - eig (pre ++ r' :: post) mean i|).sum ≤ 2)
    (hBing : ∀ mean i, |bing (pre ++ r :: post) mean i - bing (pre ++ r' :: post) mean i| ≤ 1) :
    lossLe (pre ++ r :: post) (pre ++ r' :: post) (pcaPlan p eig bing) p.eps := by
  have key : ∀ (εc : ℝ) (mean : List ℝ), 0 ≤ εc →
      lossLe (pre ++ r :: post) (pre ++ r' :: post)
        ((forList (List.range p.d) fun i =>
            one ⟨"LaplaceBoundedDomain", εc / nat (p.k + (if p.k == p.d then 0 else 1)), 0, nat 2, 0, p.inf, .osCsprng⟩
              (fun D => eig D mean i)).bind fun ev =>
          (forList (List.range (min p.k (p.d - 1))) fun i =>
            one ⟨"Bingham", εc / nat (p.k + (if p.k == p.d then 0 else 1)), 0, 1, -p.inf, p.inf, .osCsprng⟩
              (fun D => bing D mean i)).bind fun _ => (Plan.release (mean, ev) : Plan (DS ℝ) ℝ (List ℝ × List ℝ))) εc := by
    intro εc mean hεc
    set share := εc / nat (p.k + (if p.k == p.d then 0 else 1)) with hshare
    have hsh : 0 ≤ share := by simp only [hshare, nat]; positivity
    have hE := lossLe_forList (pre ++ r :: post) (pre ++ r' :: post) (List.range p.d)
      (fun i => one ⟨"LaplaceBoundedDomain", share, 0, nat 2, 0, p.inf, .osCsprng⟩ (fun D => eig D mean i))
      (fun i => share * (|eig (pre ++ r :: post) mean i - eig (pre ++ r' :: post) mean i| / 2)) (fun i _ =>
        lossLe_one _ _ _ _ _ (by positivity) (by linarith [hEig1 mean i]) hsh (by simp [nat]) (by
          simp only [nat]; push_cast; linarith))
    have hB := lossLe_forList_const (pre ++ r :: post) (pre ++ r' :: post) (List.range (min p.k (p.d - 1)))
      (fun i => one ⟨"Bingham", share, 0, 1, -p.inf, p.inf, .osCsprng⟩ (fun D => bing D mean i)) (share * 1)
      (fun i _ => lossLe_one _ _ _ _ 1 (by norm_num) (le_refl _) hsh (by norm_num) (by simpa using hBing mean i))
    refine lossLe_mono _ _ _ ?_ (lossLe_bind _ _ _ _ hE fun ev => lossLe_map _ _ _ _ hB)
    have h1 : ((List.range p.d).map fun i =>
        share * (|eig (pre ++ r :: post) mean i - eig (pre ++ r' :: post) mean i| / 2)).sum ≤ share := by
      have : ((List.range p.d).map fun i =>
          share * (|eig (pre ++ r :: post) mean i - eig (pre ++ r' :: post) mean i| / 2)).sum =
          share / 2 * ((List.range p.d).map fun i =>
            |eig (pre ++ r :: post) mean i - eig (pre ++ r' :: post) mean i|).sum := by
        rw [← sum_map_mul_left']; congr 1; apply List.map_congr_left; intro i _; ring
      rw [this]
      nlinarith [hEigSum mean]
    have h2 := pca_split εc p.k p.d hd hk
    simp only [List.length_range] at h2 ⊢
    have h3 : share = εc / ((p.k + (if p.k = p.d then 0 else 1) : ℕ) : ℝ) := by
      simp only [hshare, nat, beq_iff_eq]
    rw [← h3] at h2
    linarith
  unfold pcaPlan
  simp only []
  split
  · exact key p.eps [] hε
  · have hm := meanAxis0_loss pre post r r' (p.eps / nat 2) p.lo p.hi p.n p.d (by simp only [nat]; positivity) hd hb hn
    refine lossLe_mono _ _ _ (le_of_eq ?_)
      (lossLe_bind _ _ _ _ hm fun mean => key (p.eps / nat 2) mean (by simp only [nat]; positivity))
    simp only [nat]; push_cast; ring

/-! ### forest: disjoint row subsets, leaf × class counts -/

/-- the trees other than the one holding the replaced row see the same rows -/
theorem rowsOf_other (p : ForestParams ℝ) (ti : Nat) (pre post : DS ℝ) (r r' : Rec ℝ)
    (h : p.treeOf.getD pre.length 0 ≠ ti) :
    rowsOf p ti (pre ++ r :: post) = rowsOf p ti (pre ++ r' :: post) := by
  unfold rowsOf
  simp only [List.zipIdx_append, List.zipIdx_cons, List.filter_append, List.filter_cons, zero_add, beq_iff_eq]
  simp only [List.getD_eq_getElem?_getD] at h
  simp [h]

/-- within the tree that holds it, a replaced record changes the count of at most two (leaf, class) cells, each by one:
the cell it leaves and the cell it joins (instance of `count_change` with the grouping `q ↦ code (leaf q) (class q)`) -/
theorem leaf_class_count_change (leaf : Rec ℝ → Nat) (code : Nat → Nat → Nat) (cell : Nat) (pre post : DS ℝ)
    (r r' : Rec ℝ) :
    |(((grp (fun q => code (leaf q) q.y) cell (pre ++ r :: post)).length : Nat) : ℝ) -
        (((grp (fun q => code (leaf q) q.y) cell (pre ++ r' :: post)).length : Nat) : ℝ)|
      ≤ (if cell = code (leaf r) r.y ∨ cell = code (leaf r') r'.y then 1 else 0) :=
  (count_change _ cell pre post r r').1

end PM
end DPL
