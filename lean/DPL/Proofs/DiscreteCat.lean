/-
C01 helper lemmas: ExponentialCategorical (law = normalised weights; ratio bound with the factor 2, and without it
when the normalisers are equal) and the utilities ExponentialHierarchical derives from a hierarchy.
-/
import DPL.Proofs.DiscreteExp

namespace DPL.Discrete

/-- un-normalised probabilities of the row of `value` in domain order -/
noncomputable def catWeights (eps : ℝ) (c : Cat ℝ) (x : ℕ) : List ℝ :=
  c.domain.map (fun t => catProb eps c.util c.sens c.balanced x t)

/-- the constructor leaves `norm` equal to the row sums computed with the final balanced flag -/
def Cat.WF (eps : ℝ) (c : Cat ℝ) : Prop := c.norm = catNorms eps c.util c.sens c.balanced c.domain

theorem catBuild_wf (rtol atol eps : ℝ) (ul : List (ℕ × ℕ × ℝ)) (c : Cat ℝ) (h : catBuild rtol atol eps ul = .ok c) :
    c.WF eps := by
  unfold catBuild at h
  split at h
  · cases h
  · rename_i ut sens domain _
    split at h
    · cases h
    · simp only [Except.ok.injEq] at h
      subst h
      unfold Cat.WF
      simp only
      have hb : ∀ b : Bool, (if b = true then catNorms eps ut sens true domain else catNorms eps ut sens false domain)
          = catNorms eps ut sens b domain := by intro b; cases b <;> rfl
      exact hb _

theorem catUtility_self (ut : List ((ℕ × ℕ) × ℝ)) (a : ℕ) : catUtility ut a a = 0 := by simp [catUtility]

theorem catProb_eq_exp (eps : ℝ) (ut : List ((ℕ × ℕ) × ℝ)) (sens : ℝ) (bal : Bool) (a b : ℕ) :
    catProb eps ut sens bal a b = Real.exp (-eps * catUtility ut a b / (if bal then 1 else 2) / sens) := by
  unfold catProb
  by_cases h : a = b
  · subst h; simp [catUtility_self]
  · simp [h]

theorem catPmf_eq_normalise (eps : ℝ) (c : Cat ℝ) (hwf : c.WF eps) (x : ℕ) (hx : x ∈ c.domain) :
    catPmf eps c x = normalise (catWeights eps c x) := by
  obtain ⟨i, hi⟩ := Option.isSome_iff_exists.mp (List.isSome_idxOf?.mpr hx)
  obtain ⟨hlt, hget, _⟩ := List.idxOf?_eq_some_iff.mp hi
  unfold catPmf normalise catWeights
  simp only [hi, Option.getD_some]
  have hz : c.norm.getD i 0 = lsum (c.domain.map (fun t => catProb eps c.util c.sens c.balanced x t)) := by
    rw [hwf]
    unfold catNorms lsum
    rw [List.getD_eq_getElem?_getD, List.getElem?_map, List.getElem?_eq_getElem hlt]
    simp [hget]
  rw [hz, List.map_map]
  rfl

/-- entrywise ratio of two rows: `|u(x,t) - u(x',t)| ≤ sens` moves each weight by at most `e^{eps/bf}` -/
theorem catWeights_ratio (eps : ℝ) (heps : 0 ≤ eps) (c : Cat ℝ) (hs : 0 < c.sens)
    (hU : ∀ a b, 0 ≤ catUtility c.util a b ∧ catUtility c.util a b ≤ c.sens) (x x' t : ℕ) :
    catProb eps c.util c.sens c.balanced x t
      ≤ Real.exp (eps / (if c.balanced then 1 else 2)) * catProb eps c.util c.sens c.balanced x' t := by
  rw [catProb_eq_exp, catProb_eq_exp, ← Real.exp_add]
  apply Real.exp_le_exp.mpr
  obtain ⟨h1, h2⟩ := hU x t
  obtain ⟨h3, h4⟩ := hU x' t
  have hbf : (0:ℝ) < (if c.balanced then 1 else 2) := by split <;> norm_num
  generalize (if c.balanced then (1:ℝ) else 2) = bf at hbf ⊢
  have key : eps / bf + -eps * catUtility c.util x' t / bf / c.sens - (-eps * catUtility c.util x t / bf / c.sens)
      = eps / (bf * c.sens) * (c.sens - catUtility c.util x' t + catUtility c.util x t) := by
    field_simp; ring
  have hnn : 0 ≤ eps / (bf * c.sens) * (c.sens - catUtility c.util x' t + catUtility c.util x t) :=
    mul_nonneg (div_nonneg heps (mul_pos hbf hs).le) (by linarith)
  linarith

theorem catWeights_length (eps : ℝ) (c : Cat ℝ) (x : ℕ) : (catWeights eps c x).length = c.domain.length := by
  simp [catWeights]

theorem catWeights_getElem (eps : ℝ) (c : Cat ℝ) (x i : ℕ) (h : i < (catWeights eps c x).length) :
    (catWeights eps c x)[i] = catProb eps c.util c.sens c.balanced x (c.domain[i]'(by simpa [catWeights] using h)) := by
  simp [catWeights]

theorem catWeights_sum_pos (eps : ℝ) (c : Cat ℝ) (x : ℕ) (hne : c.domain ≠ []) : 0 < (catWeights eps c x).sum := by
  apply List.sum_pos
  · intro w hw
    simp only [catWeights, List.mem_map] at hw
    obtain ⟨t, _, rfl⟩ := hw
    rw [catProb_eq_exp]; exact Real.exp_pos _
  · simpa [catWeights] using hne

/-- general (unbalanced) case: the factor 2 is kept, every ratio of selection probabilities is at most `e^eps` -/
theorem cat_dp_unbalanced_aux (eps : ℝ) (heps : 0 ≤ eps) (c : Cat ℝ) (hwf : c.WF eps) (hbal : c.balanced = false)
    (hs : 0 < c.sens) (hU : ∀ a b, 0 ≤ catUtility c.util a b ∧ catUtility c.util a b ≤ c.sens)
    (x x' : ℕ) (hx : x ∈ c.domain) (hx' : x' ∈ c.domain) (j : ℕ) :
    (catPmf eps c x).getD j 0 ≤ Real.exp eps * (catPmf eps c x').getD j 0 := by
  have hne : c.domain ≠ [] := List.ne_nil_of_mem hx
  rw [catPmf_eq_normalise eps c hwf x hx, catPmf_eq_normalise eps c hwf x' hx']
  have key := normalise_ratio (catWeights eps c x) (catWeights eps c x') (Real.exp (eps / 2)) (Real.exp (eps / 2))
    (Real.exp_pos _).le (Real.exp_pos _).le (by simp [catWeights_length]) ?_
    (catWeights_sum_pos eps c x hne) (catWeights_sum_pos eps c x' hne) j
  · have : Real.exp (eps / 2) * Real.exp (eps / 2) = Real.exp eps := by rw [← Real.exp_add]; congr 1; ring
    rwa [this] at key
  · intro i h1 h2
    rw [catWeights_getElem, catWeights_getElem]
    have r1 := catWeights_ratio eps heps c hs hU x x' (c.domain[i]'(by simpa [catWeights] using h1))
    have r2 := catWeights_ratio eps heps c hs hU x' x (c.domain[i]'(by simpa [catWeights] using h1))
    have e2 : (if c.balanced then (1:ℝ) else 2) = 2 := by simp [hbal]
    rw [e2] at r1 r2
    refine ⟨?_, r1, r2⟩
    rw [catProb_eq_exp]; exact (Real.exp_pos _).le

/-- balanced case: the factor 2 is dropped; if the two normalisers are EQUAL the ratio is still at most `e^eps` -/
theorem cat_dp_balanced_aux (eps : ℝ) (heps : 0 ≤ eps) (c : Cat ℝ) (hwf : c.WF eps) (hbal : c.balanced = true)
    (hs : 0 < c.sens) (hU : ∀ a b, 0 ≤ catUtility c.util a b ∧ catUtility c.util a b ≤ c.sens)
    (x x' : ℕ) (hx : x ∈ c.domain) (hx' : x' ∈ c.domain)
    (hZ : (catWeights eps c x).sum = (catWeights eps c x').sum) (j : ℕ) :
    (catPmf eps c x).getD j 0 ≤ Real.exp eps * (catPmf eps c x').getD j 0 := by
  have hne : c.domain ≠ [] := List.ne_nil_of_mem hx
  rw [catPmf_eq_normalise eps c hwf x hx, catPmf_eq_normalise eps c hwf x' hx', normalise_getD, normalise_getD]
  have hl : (catWeights eps c x).length = (catWeights eps c x').length := by simp [catWeights_length]
  by_cases hj : j < (catWeights eps c x).length
  · have hj' : j < (catWeights eps c x').length := hl ▸ hj
    simp only [hj, hj', dite_true]
    rw [hZ, ← mul_div_assoc]
    apply div_le_div_of_nonneg_right _ (catWeights_sum_pos eps c x' hne).le
    rw [catWeights_getElem, catWeights_getElem]
    have r1 := catWeights_ratio eps heps c hs hU x x' (c.domain[j]'(by simpa [catWeights] using hj))
    have e1 : (if c.balanced then (1:ℝ) else 2) = 1 := by simp [hbal]
    rw [e1, div_one] at r1
    exact r1
  · have hj' : ¬ j < (catWeights eps c x').length := hl ▸ hj
    simp [hj, hj']

/-! ### the utilities stored by the constructor lie in `[0, sensitivity]` -/

theorem dictGet_dictSet (k k' : ℕ × ℕ) (v : ℝ) (ut : List ((ℕ × ℕ) × ℝ)) :
    dictGet k' (dictSet k v ut) = if k' = k then some v else dictGet k' ut := by
  induction ut with
  | nil =>
    simp only [dictSet, dictGet]
    by_cases h : k = k'
    · subst h; simp
    · have h' : ¬ k' = k := fun e => h e.symm
      simp [h, h']
  | cons e rest ih =>
    obtain ⟨ke, ve⟩ := e
    simp only [dictSet]
    by_cases h1 : ke = k
    · subst h1
      simp only [if_true, dictGet]
      by_cases h2 : ke = k'
      · subst h2; simp
      · have h2' : ¬ k' = ke := fun e => h2 e.symm
        simp [h2, h2']
    · simp only [h1, if_false, dictGet]
      by_cases h2 : ke = k'
      · subst h2; simp [h1]
      · simp only [h2, if_false, ih]

theorem catBuildUtility_inv (ul : List (ℕ × ℕ × ℝ)) (ut : List ((ℕ × ℕ) × ℝ)) (s : ℝ) (d : List ℕ)
    (ut' : List ((ℕ × ℕ) × ℝ)) (s' : ℝ) (d' : List ℕ) (h : catBuildUtility ul ut s d = .ok (ut', s', d'))
    (hs : 0 ≤ s) (hinv : ∀ k v, dictGet k ut = some v → 0 ≤ v ∧ v ≤ s) :
    0 ≤ s' ∧ ∀ k v, dictGet k ut' = some v → 0 ≤ v ∧ v ≤ s' := by
  induction ul generalizing ut s d with
  | nil =>
    simp only [catBuildUtility, Except.ok.injEq, Prod.mk.injEq] at h
    obtain ⟨rfl, rfl, _⟩ := h
    exact ⟨hs, hinv⟩
  | cons e rest ih =>
    obtain ⟨a, b, x⟩ := e
    simp only [catBuildUtility] at h
    split at h
    · cases h
    · rename_i hx
      have hx0 : 0 ≤ x := not_lt.mp hx
      have hs' : 0 ≤ (if s < x then x else s) := by split <;> assumption
      have hle : s ≤ (if s < x then x else s) := by
        split
        · rename_i hlt; exact hlt.le
        · exact le_refl _
      have hxle : x ≤ (if s < x then x else s) := by
        split
        · exact le_refl _
        · rename_i hlt; exact not_lt.mp hlt
      split at h
      · exact ih _ _ _ h hs' (fun k v hk => ⟨(hinv k v hk).1, le_trans (hinv k v hk).2 hle⟩)
      · refine ih _ _ _ h hs' (fun k v hk => ?_)
        rw [dictGet_dictSet] at hk
        by_cases hkk : k = (if a < b then (a, b) else (b, a))
        · rw [if_pos hkk] at hk
          simp only [Option.some.injEq] at hk; subst hk; exact ⟨hx0, hxle⟩
        · rw [if_neg hkk] at hk
          exact ⟨(hinv k v hk).1, le_trans (hinv k v hk).2 hle⟩

/-- for every mechanism the constructor accepts, the stored utilities are in `[0, sensitivity]` -/
theorem catBuild_utility_range (rtol atol eps : ℝ) (ul : List (ℕ × ℕ × ℝ)) (c : Cat ℝ)
    (h : catBuild rtol atol eps ul = .ok c) (a b : ℕ) :
    0 ≤ catUtility c.util a b ∧ catUtility c.util a b ≤ c.sens := by
  unfold catBuild at h
  split at h
  · cases h
  · rename_i ut sens domain hb
    have inv := catBuildUtility_inv ul [] 0 [] ut sens domain hb (le_refl _) (by intro k v hk; simp [dictGet] at hk)
    split at h
    · cases h
    · simp only [Except.ok.injEq] at h
      subst h
      simp only
      unfold catUtility
      split
      · exact ⟨le_refl _, inv.1⟩
      · cases hg : dictGet (if a < b then (a, b) else (b, a)) ut with
        | none => simpa using inv.1
        | some v => simpa using inv.2 _ v hg

/-! ### hierarchy utilities -/

theorem commonPrefix_comm (p q : List ℕ) : commonPrefix p q = commonPrefix q p := by
  induction p generalizing q with
  | nil => cases q <;> simp [commonPrefix]
  | cons a as ih =>
    cases q with
    | nil => simp [commonPrefix]
    | cons b bs =>
      simp only [commonPrefix]
      by_cases h : a = b
      · subst h; simp [ih bs]
      · have h' : ¬ b = a := fun e => h e.symm
        simp [h, h']

theorem commonPrefix_le_left (p q : List ℕ) : commonPrefix p q ≤ p.length := by
  induction p generalizing q with
  | nil => cases q <;> simp [commonPrefix]
  | cons a as ih =>
    cases q with
    | nil => simp [commonPrefix]
    | cons b bs =>
      simp only [commonPrefix]
      split
      · simp only [List.length_cons]; exact Nat.succ_le_succ (ih bs)
      · simp

/-- two locators of the same length that agree on all of it are equal -/
theorem eq_of_commonPrefix_eq_length (p q : List ℕ) (hlen : p.length = q.length) (h : commonPrefix p q = p.length) :
    p = q := by
  induction p generalizing q with
  | nil => cases q with
    | nil => rfl
    | cons b bs => simp at hlen
  | cons a as ih =>
    cases q with
    | nil => simp at hlen
    | cons b bs =>
      simp only [commonPrefix] at h
      by_cases hab : a = b
      · subst hab
        simp only [if_true, List.length_cons, Nat.add_right_cancel_iff] at h
        rw [ih bs (by simpa using hlen) h]
      · simp [hab] at h

/-- the hierarchy's utility is symmetric -/
theorem hierUtility_symm (height : ℕ) (p q : List ℕ) : hierUtility height p q = hierUtility height q p := by
  unfold hierUtility; rw [commonPrefix_comm]

/-- … and lies in `[1, height]` for two different leaves at level `height` -/
theorem hierUtility_range (height : ℕ) (p q : List ℕ) (hp : p.length = height) (hq : q.length = height) (hne : p ≠ q) :
    1 ≤ hierUtility height p q ∧ hierUtility height p q ≤ height := by
  unfold hierUtility
  have h1 := commonPrefix_le_left p q
  have h2 : commonPrefix p q ≠ p.length := fun h => hne (eq_of_commonPrefix_eq_length p q (by rw [hp, hq]) h)
  omega

end DPL.Discrete
