/-
Sensitivity of the statistics the tools hand to their mechanisms (C07/C09), over ℝ.

The model definitions of `DPL/Model/PlanTools.lean` (`clip`, `sum`, `mean`, `var`, `varSens`, `eqv`, `truncv`, `vals`)
are instantiated at ℝ.  Neighbouring datasets are `pre ++ x :: post` and `pre ++ y :: post`: one record replaced, at
any position, records arbitrary reals (the statistic is taken after clipping).

* `sum_sens`, `mean_sens`, `var_sens`, `count_sens`, `intsum_sens` : the sensitivity expressions of the code are
  upper bounds of the change of the statistic;
* `vals_map_some` : on NaN-free data the nan-variants are the plain ones;
* `nanmean_sens_cex`, `nanvar_sens_cex`, `nansum_sens_cex` : the nan-variants as coded are NOT covered by their
  sensitivity expression when a record may be NaN (known findings; the model stays faithful);
  `nansum_sens_partial` : what does hold for `nansum` (0 within the bounds).
-/
import DPL.Model.PlanTools
import DPL.Proofs.RealCarrier
import Mathlib.Data.Real.Basic
import Mathlib.Algebra.BigOperators.Group.List.Basic
import Mathlib.Algebra.Order.BigOperators.Group.List
import Mathlib.Algebra.Order.Floor.Ring
import Mathlib.Tactic.Ring
import Mathlib.Tactic.Linarith
import Mathlib.Tactic.Positivity
import Mathlib.Tactic.FieldSimp
import Mathlib.Tactic.NormNum

namespace DPL.Tools

/-! ### `sum` is `List.sum` -/

theorem foldl_add_eq (xs : List ℝ) (a : ℝ) : xs.foldl (· + ·) a = a + xs.sum := by
  induction xs generalizing a with
  | nil => simp
  | cons x xs ih => simp [ih, add_assoc]

theorem sum_eq_list_sum (xs : List ℝ) : Tools.sum xs = xs.sum := by
  unfold Tools.sum
  rw [foldl_add_eq]
  simp

/-- the sum over a dataset with one distinguished record -/
theorem sum_map_split (f : ℝ → ℝ) (pre post : List ℝ) (x : ℝ) :
    Tools.sum ((pre ++ x :: post).map f) = (pre.map f).sum + f x + (post.map f).sum := by
  rw [sum_eq_list_sum]
  simp [add_assoc]

/-! ### clipping -/

theorem clip_mem {l u : ℝ} (h : l ≤ u) (x : ℝ) : l ≤ clip l u x ∧ clip l u x ≤ u := by
  unfold clip
  split_ifs with h1 h2
  · exact ⟨le_refl _, h⟩
  · exact ⟨h, le_refl _⟩
  · exact ⟨not_lt.mp h1, not_lt.mp h2⟩

theorem clip_of_mem {l u x : ℝ} (h1 : l ≤ x) (h2 : x ≤ u) : clip l u x = x := by
  unfold clip
  rw [if_neg (not_lt.mpr h1), if_neg (not_lt.mpr h2)]

/-! ### a per-record statistic with values in `[a, b]` has sum sensitivity `b - a` -/

theorem sum_sens_of_range {a b : ℝ} (f : ℝ → ℝ) (hf : ∀ z, a ≤ f z ∧ f z ≤ b)
    (pre post : List ℝ) (x y : ℝ) :
    |Tools.sum ((pre ++ x :: post).map f) - Tools.sum ((pre ++ y :: post).map f)| ≤ b - a := by
  rw [sum_map_split, sum_map_split]
  have hx := hf x
  have hy := hf y
  rw [abs_le]
  constructor <;> linarith [hx.1, hx.2, hy.1, hy.2]

theorem sum_sens {l u : ℝ} (h : l ≤ u) (pre post : List ℝ) (x y : ℝ) :
    |Tools.sum ((pre ++ x :: post).map (clip l u)) - Tools.sum ((pre ++ y :: post).map (clip l u))| ≤ u - l :=
  sum_sens_of_range (clip l u) (clip_mem h) pre post x y

/-! ### mean -/

theorem length_split_cast (pre post : List ℝ) (x : ℝ) :
    ((pre ++ x :: post).length : ℝ) = (pre.length : ℝ) + 1 + (post.length : ℝ) := by
  simp only [List.length_append, List.length_cons]
  push_cast
  ring

theorem length_split_pos (pre post : List ℝ) (x : ℝ) : (0 : ℝ) < ((pre ++ x :: post).length : ℝ) := by
  rw [length_split_cast]
  positivity

theorem length_split_eq (pre post : List ℝ) (x y : ℝ) :
    (pre ++ x :: post).length = (pre ++ y :: post).length := by
  simp

theorem mean_sens {l u : ℝ} (h : l ≤ u) (pre post : List ℝ) (x y : ℝ) :
    |mean ((pre ++ x :: post).map (clip l u)) - mean ((pre ++ y :: post).map (clip l u))|
      ≤ (u - l) / ((pre ++ x :: post).length : ℝ) := by
  unfold mean
  rw [List.length_map, List.length_map, ← length_split_eq pre post x y, ← sub_div,
    abs_div, abs_of_pos (length_split_pos pre post x)]
  exact div_le_div_of_nonneg_right (sum_sens h pre post x y) (length_split_pos pre post x).le

theorem mean_sens' {l u : ℝ} (h : l ≤ u) (pre post : List ℝ) (x y : ℝ) :
    |mean ((pre ++ x :: post).map (clip l u)) - mean ((pre ++ y :: post).map (clip l u))|
      ≤ (u - l) / ((pre.length + 1 + post.length : ℕ) : ℝ) := by
  have := mean_sens h pre post x y
  rw [length_split_cast] at this
  push_cast
  exact this

/-! ### variance -/

/-- core inequality behind the variance sensitivity `((u-l)/n)^2 (n-1)`: replacing one record `x` by `y`, the other
`m = n-1` records sum to `S`, everything in `[0, w]` -/
theorem var_core (m w x y S : ℝ) (hm : 0 ≤ m) (hw : 0 ≤ w)
    (hx0 : 0 ≤ x) (hx1 : x ≤ w) (hy0 : 0 ≤ y) (hy1 : y ≤ w) (hS0 : 0 ≤ S) (hS1 : S ≤ m * w) :
    |(x - y) * (m * (x + y) - 2 * S)| ≤ m * w ^ 2 := by
  rw [abs_le]
  constructor
  · rcases le_total y x with h | h
    · have h1 : (x - y) * (m * (x + y) - 2 * S) ≥ (x - y) * (m * (x + y) - 2 * (m * w)) := by
        apply mul_le_mul_of_nonneg_left _ (sub_nonneg.mpr h); linarith
      have h2 : (x - y) * (2 * w - x - y) ≤ w ^ 2 := by
        nlinarith [sq_nonneg (w - x), mul_nonneg hy0 (sub_nonneg.mpr hy1)]
      have h3 : (x - y) * (m * (x + y) - 2 * (m * w)) = - (m * ((x - y) * (2 * w - x - y))) := by ring
      have h4 := mul_le_mul_of_nonneg_left h2 hm
      linarith
    · nlinarith [mul_nonneg (sub_nonneg.mpr h) hS0, mul_nonneg hm (mul_nonneg hx0 hx0),
        mul_nonneg hm (mul_nonneg hy0 (sub_nonneg.mpr hy1)), mul_nonneg hm (mul_nonneg hy0 hy0),
        mul_nonneg hm (mul_nonneg (sub_nonneg.mpr hy1) (sub_nonneg.mpr hy1)),
        mul_nonneg hm (mul_nonneg hx0 (sub_nonneg.mpr hy1)),
        mul_nonneg hm (mul_nonneg hy0 (sub_nonneg.mpr hx1))]
  · rcases le_total y x with h | h
    · nlinarith [mul_nonneg (sub_nonneg.mpr h) hS0, mul_nonneg hm (mul_nonneg hy0 hy0),
        mul_nonneg hm (mul_nonneg hx0 (sub_nonneg.mpr hx1)),
        mul_nonneg hm (mul_nonneg (sub_nonneg.mpr hx1) (sub_nonneg.mpr hx1)),
        mul_nonneg hm (mul_nonneg hx0 hx0)]
    · nlinarith [mul_nonneg (sub_nonneg.mpr h) (sub_nonneg.mpr hS1),
        mul_nonneg hm (mul_nonneg (sub_nonneg.mpr hx1) (sub_nonneg.mpr hx1)),
        mul_nonneg hm (mul_nonneg (sub_nonneg.mpr hy1) (sub_nonneg.mpr hy1)),
        mul_nonneg hm (mul_nonneg (sub_nonneg.mpr h) (sub_nonneg.mpr hy1)),
        mul_nonneg hm (mul_nonneg (sub_nonneg.mpr hy1) hy0), mul_nonneg hm (mul_nonneg (sub_nonneg.mpr hy1) hx0),
        mul_nonneg hm (mul_nonneg (sub_nonneg.mpr hx1) hx0)]

/-- `Σ (xᵢ − m)² = Σ xᵢ² − 2 m Σ xᵢ + n m²` -/
theorem sum_sq_dev (xs : List ℝ) (m : ℝ) :
    (xs.map (fun x => (x - m) * (x - m))).sum
      = (xs.map (fun x => x * x)).sum - 2 * m * xs.sum + (xs.length : ℝ) * (m * m) := by
  induction xs with
  | nil => simp
  | cons x xs ih =>
    simp only [List.map_cons, List.sum_cons, List.length_cons, ih]
    push_cast
    ring

/-- `np.var` as coded (two passes) is `E[x²] − E[x]²` -/
theorem var_eq (xs : List ℝ) (hn : 0 < (xs.length : ℝ)) :
    var xs = (xs.map (fun x => x * x)).sum / (xs.length : ℝ)
      - (xs.sum / (xs.length : ℝ)) * (xs.sum / (xs.length : ℝ)) := by
  unfold var mean
  simp only [sum_eq_list_sum]
  rw [sum_sq_dev]
  have hne : (xs.length : ℝ) ≠ 0 := ne_of_gt hn
  field_simp
  ring

theorem var_split (f : ℝ → ℝ) (pre post : List ℝ) (x : ℝ) :
    var ((pre ++ x :: post).map f)
      = (((pre.map f).map (fun z => z * z)).sum + f x * f x + ((post.map f).map (fun z => z * z)).sum)
          / ((pre.length : ℝ) + 1 + (post.length : ℝ))
        - (((pre.map f).sum + f x + (post.map f).sum) / ((pre.length : ℝ) + 1 + (post.length : ℝ)))
          * (((pre.map f).sum + f x + (post.map f).sum) / ((pre.length : ℝ) + 1 + (post.length : ℝ))) := by
  rw [var_eq]
  · simp only [List.map_append, List.map_cons, List.sum_append, List.sum_cons, List.length_append,
      List.length_cons, List.length_map]
    push_cast
    ring
  · rw [List.length_map]
    exact length_split_pos pre post x

/-- the sum of clipped records lies in `[n l, n u]` -/
theorem sum_clip_range {l u : ℝ} (h : l ≤ u) (xs : List ℝ) :
    (xs.length : ℝ) * l ≤ (xs.map (clip l u)).sum ∧ (xs.map (clip l u)).sum ≤ (xs.length : ℝ) * u := by
  induction xs with
  | nil => simp
  | cons x xs ih =>
    have hx := clip_mem h x
    simp only [List.map_cons, List.sum_cons, List.length_cons]
    push_cast
    constructor <;> linarith [hx.1, hx.2, ih.1, ih.2]

theorem var_sens' {l u : ℝ} (h : l ≤ u) (pre post : List ℝ) (x y : ℝ) :
    |var ((pre ++ x :: post).map (clip l u)) - var ((pre ++ y :: post).map (clip l u))|
      ≤ ((u - l) / ((pre.length : ℝ) + 1 + (post.length : ℝ)))
          * ((u - l) / ((pre.length : ℝ) + 1 + (post.length : ℝ)))
          * ((pre.length : ℝ) + 1 + (post.length : ℝ) - 1) := by
  rw [var_split, var_split]
  have hx := clip_mem h x
  have hy := clip_mem h y
  have hP := sum_clip_range h pre
  have hQ := sum_clip_range h post
  generalize ((pre.map (clip l u)).map (fun z => z * z)).sum = P2
  generalize ((post.map (clip l u)).map (fun z => z * z)).sum = Q2
  generalize (pre.map (clip l u)).sum = P1 at hP ⊢
  generalize (post.map (clip l u)).sum = Q1 at hQ ⊢
  generalize clip l u x = cx at hx ⊢
  generalize clip l u y = cy at hy ⊢
  have hp : (0 : ℝ) ≤ (pre.length : ℝ) := Nat.cast_nonneg _
  have hq : (0 : ℝ) ≤ (post.length : ℝ) := Nat.cast_nonneg _
  generalize (pre.length : ℝ) = p at hP hp ⊢
  generalize (post.length : ℝ) = q at hQ hq ⊢
  have hn : 0 < p + 1 + q := by linarith
  have hne : p + 1 + q ≠ 0 := ne_of_gt hn
  have key : (P2 + cx * cx + Q2) / (p + 1 + q) - (P1 + cx + Q1) / (p + 1 + q) * ((P1 + cx + Q1) / (p + 1 + q))
      - ((P2 + cy * cy + Q2) / (p + 1 + q) - (P1 + cy + Q1) / (p + 1 + q) * ((P1 + cy + Q1) / (p + 1 + q)))
      = ((cx - l) - (cy - l)) * ((p + q) * ((cx - l) + (cy - l)) - 2 * (P1 + Q1 - (p + q) * l)) / (p + 1 + q) ^ 2 := by
    field_simp
    ring
  have core := var_core (p + q) (u - l) (cx - l) (cy - l) (P1 + Q1 - (p + q) * l) (by linarith) (by linarith)
    (by linarith [hx.1]) (by linarith [hx.2]) (by linarith [hy.1]) (by linarith [hy.2])
    (by linarith [hP.1, hQ.1]) (by linarith [hP.2, hQ.2])
  rw [key, abs_div, abs_of_pos (by positivity : (0 : ℝ) < (p + 1 + q) ^ 2)]
  calc _ ≤ (p + q) * (u - l) ^ 2 / (p + 1 + q) ^ 2 := div_le_div_of_nonneg_right core (by positivity)
    _ = _ := by field_simp; ring

theorem var_sens {l u : ℝ} (h : l ≤ u) (pre post : List ℝ) (x y : ℝ) :
    |var ((pre ++ x :: post).map (clip l u)) - var ((pre ++ y :: post).map (clip l u))|
      ≤ varSens (pre ++ x :: post).length l u := by
  unfold varSens
  rw [length_split_cast]
  exact var_sens' h pre post x y

/-! ### count_nonzero -/

theorem count_sens (pre post : List ℝ) (x y : ℝ) :
    |Tools.sum ((pre ++ x :: post).map (fun x => if eqv x 0 then (0:ℝ) else 1))
      - Tools.sum ((pre ++ y :: post).map (fun x => if eqv x 0 then (0:ℝ) else 1))| ≤ 1 := by
  have := sum_sens_of_range (a := 0) (b := 1) (fun x => if eqv x 0 then (0:ℝ) else 1)
    (fun z => by split_ifs <;> norm_num) pre post x y
  simpa using this

/-! ### integer-valued sum: truncation toward zero is monotone -/

theorem truncv_mono {a b : ℝ} (h : a ≤ b) : truncv a ≤ truncv b := by
  unfold truncv
  simp only [transc_floor]
  split_ifs with ha hb hb
  · -- a < 0, b < 0
    have : ⌊-b⌋ ≤ ⌊-a⌋ := Int.floor_le_floor (by linarith)
    have : ((⌊-b⌋ : ℤ) : ℝ) ≤ ((⌊-a⌋ : ℤ) : ℝ) := Int.cast_le.mpr this
    linarith
  · -- a < 0 ≤ b
    have h1 : (0 : ℤ) ≤ ⌊-a⌋ := Int.floor_nonneg.mpr (by linarith)
    have h2 : (0 : ℤ) ≤ ⌊b⌋ := Int.floor_nonneg.mpr (by linarith)
    have h1' : (0 : ℝ) ≤ ((⌊-a⌋ : ℤ) : ℝ) := by exact_mod_cast h1
    have h2' : (0 : ℝ) ≤ ((⌊b⌋ : ℤ) : ℝ) := by exact_mod_cast h2
    linarith
  · -- 0 ≤ a, b < 0 : impossible
    exfalso; linarith
  · exact Int.cast_le.mpr (Int.floor_le_floor h)

theorem intsum_sens {l u : ℝ} (h : l ≤ u) (pre post : List ℝ) (x y : ℝ) :
    |Tools.sum ((pre ++ x :: post).map (fun x => truncv (clip l u x)))
      - Tools.sum ((pre ++ y :: post).map (fun x => truncv (clip l u x)))| ≤ truncv u - truncv l :=
  sum_sens_of_range (fun x => truncv (clip l u x))
    (fun z => ⟨truncv_mono (clip_mem h z).1, truncv_mono (clip_mem h z).2⟩) pre post x y

/-! ### the nan-variants -/

@[simp] theorem vals_nil : vals ([] : List (Option ℝ)) = [] := rfl
@[simp] theorem vals_cons_some (x : ℝ) (xs : List (Option ℝ)) : vals (some x :: xs) = x :: vals xs := rfl
@[simp] theorem vals_cons_none (xs : List (Option ℝ)) : vals (none :: xs) = vals xs := rfl

theorem vals_map_some (D : List ℝ) : vals (D.map some) = D := by
  induction D with
  | nil => rfl
  | cons x xs ih => simp [ih]

theorem vals_append (xs ys : List (Option ℝ)) : vals (xs ++ ys) = vals xs ++ vals ys := by
  unfold vals
  exact List.filterMap_append

theorem vals_split (pre post : List (Option ℝ)) (x : Option ℝ) :
    vals (pre ++ x :: post) = vals pre ++ (x.toList ++ vals post) := by
  rw [vals_append]
  cases x <;> simp

theorem nanmean_sens_cex :
    ¬ (∀ (l u : ℝ), l ≤ u → ∀ (pre post : List (Option ℝ)) (x y : Option ℝ),
      |mean ((vals (pre ++ x :: post)).map (clip l u)) - mean ((vals (pre ++ y :: post)).map (clip l u))|
        ≤ (u - l) / ((pre ++ x :: post).length : ℝ)) := by
  intro H
  have := H 0 1 (by norm_num) [] [none, none, none] (some 0) (some 1)
  simp only [List.nil_append, vals_cons_some, vals_cons_none, vals_nil] at this
  norm_num [mean, Tools.sum, clip] at this

theorem nanvar_sens_cex :
    ¬ (∀ (l u : ℝ), l ≤ u → ∀ (pre post : List (Option ℝ)) (x y : Option ℝ),
      |var ((vals (pre ++ x :: post)).map (clip l u)) - var ((vals (pre ++ y :: post)).map (clip l u))|
        ≤ varSens (pre ++ x :: post).length l u) := by
  intro H
  have := H 0 1 (by norm_num) [] [some 0, none, none] (some 0) (some 1)
  simp only [List.nil_append, vals_cons_some, vals_cons_none, vals_nil] at this
  norm_num [var, mean, Tools.sum, clip, varSens] at this

theorem nansum_sens_cex :
    ¬ (∀ (l u : ℝ), l ≤ u → ∀ (pre post : List (Option ℝ)) (x y : Option ℝ),
      |Tools.sum ((vals (pre ++ x :: post)).map (clip l u)) - Tools.sum ((vals (pre ++ y :: post)).map (clip l u))|
        ≤ u - l) := by
  intro H
  have := H 5 6 (by norm_num) [some (11/2)] [] none (some (11/2))
  simp only [List.cons_append, List.nil_append, vals_cons_some, vals_cons_none, vals_nil] at this
  norm_num [Tools.sum, clip] at this

theorem nansum_sens_partial {l u : ℝ} (h : l ≤ u) (h0 : l ≤ 0 ∧ 0 ≤ u) (pre post : List (Option ℝ))
    (x y : Option ℝ) :
    |Tools.sum ((vals (pre ++ x :: post)).map (clip l u)) - Tools.sum ((vals (pre ++ y :: post)).map (clip l u))|
      ≤ u - l := by
  rw [vals_split, vals_split, sum_eq_list_sum, sum_eq_list_sum]
  rcases x with _ | x <;> rcases y with _ | y <;>
    simp only [Option.toList, List.map_append, List.sum_append, List.map_cons, List.sum_cons,
      List.nil_append, List.cons_append] <;> rw [abs_le]
  · constructor <;> linarith
  · have := clip_mem h y
    constructor <;> linarith [this.1, this.2]
  · have := clip_mem h x
    constructor <;> linarith [this.1, this.2]
  · have hx := clip_mem h x
    have hy := clip_mem h y
    constructor <;> linarith [hx.1, hx.2, hy.1, hy.2]

end DPL.Tools
