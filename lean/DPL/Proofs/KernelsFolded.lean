/-
The kernel of `LaplaceFolded`: the Laplace draw reflected into the configured `[lower, upper]` by the folding map
`Cont.foldMap` (ContinuousFold.lean; tied to the coded `_fold` recursion in ContinuousFoldModel.lean).  It is the
push-forward of `lapKernel` under a fixed measurable map, so it inherits metric DP by post-processing
(`PM.metricDP_map`, ModelsCompose3.lean — restated below for a single map and for the weighted form `MetricDPW`).
-/
import DPL.Proofs.ModelsCompose3
import DPL.Proofs.ModelsCompose5
import DPL.Proofs.ContinuousFold

namespace DPL
namespace PM
open MeasureTheory ENNReal

/-- post-processing by ONE measurable map (the same for every invocation) keeps metric DP -/
theorem metricDP_map_const (P : MechCall ℝ → Prop) (M : MechCall ℝ → ℝ → Measure ℝ) (hM : MetricDP P M)
    (g : ℝ → ℝ) (hg : Measurable g) : MetricDP P (fun c a => (M c a).map g) :=
  metricDP_map P M hM (fun _ => g) (fun _ => hg)

/-- post-processing keeps the weighted form of metric DP as well -/
theorem metricDPW_map (rel wt : Conv) (P : MechCall ℝ → ℝ → ℝ → Prop) (M : MechCall ℝ → ℝ → Measure ℝ)
    (hM : MetricDPW rel wt P M) (g : MechCall ℝ → ℝ → ℝ) (hg : ∀ c, Measurable (g c)) :
    MetricDPW rel wt P (fun c a => (M c a).map (g c)) := by
  intro c a b hc hab S hS
  simp only [Measure.map_apply (hg c) hS]
  exact hM c a b hc hab _ (hg c hS)

/-- `LaplaceFolded`: the Laplace draw folded (reflected) into the configured `[lower, upper]` -/
noncomputable def foldLapKernel (c : MechCall ℝ) (a : ℝ) : Measure ℝ :=
  (lapKernel c a).map (Cont.foldMap c.lower c.upper)

theorem foldLapKernel_metricDP : MetricDP (fun c => 0 < c.eps ∧ 0 < c.sens) foldLapKernel :=
  metricDP_map _ _ lapKernel_metricDP _ (fun c => Cont.measurable_foldMap c.lower c.upper)

theorem foldLapKernel_isProb (c : MechCall ℝ) (a : ℝ) : IsProbabilityMeasure (foldLapKernel c a) := by
  have := lapKernel_isProb c a
  exact Measure.isProbabilityMeasure_map (Cont.measurable_foldMap c.lower c.upper).aemeasurable

/-- the folded draw lands in `[lower, upper]` almost surely -/
theorem foldLapKernel_support (c : MechCall ℝ) (a : ℝ) (hlu : c.lower < c.upper) :
    foldLapKernel c a (Set.Icc c.lower c.upper)ᶜ = 0 := by
  unfold foldLapKernel
  rw [Measure.map_apply (Cont.measurable_foldMap _ _) measurableSet_Icc.compl]
  have : (Cont.foldMap c.lower c.upper) ⁻¹' (Set.Icc c.lower c.upper)ᶜ = ∅ := by
    ext y
    simp only [Set.mem_preimage, Set.mem_compl_iff, Set.mem_Icc, Set.mem_empty_iff_false, iff_false, not_not]
    exact Cont.foldMap_mem c.lower c.upper y hlu
  rw [this, measure_empty]

/-- the family the code dispatches on by class name: folded, truncated or plain Laplace -/
noncomputable def lapFamilyKernel (c : MechCall ℝ) (a : ℝ) : Measure ℝ :=
  if c.kind = "LaplaceFolded" then foldLapKernel c a
  else if c.kind = "LaplaceTruncated" then truncLapKernel c a else lapKernel c a

theorem lapFamilyKernel_metricDP : MetricDP (fun c => 0 < c.eps ∧ 0 < c.sens) lapFamilyKernel := by
  intro c hc a b hab S hS
  unfold lapFamilyKernel
  split
  · exact foldLapKernel_metricDP c hc a b hab S hS
  · split
    · exact truncLapKernel_metricDP c hc a b hab S hS
    · exact lapKernel_metricDP c hc a b hab S hS

theorem lapFamilyKernel_isProb (c : MechCall ℝ) (a : ℝ) : IsProbabilityMeasure (lapFamilyKernel c a) := by
  unfold lapFamilyKernel
  split
  · exact foldLapKernel_isProb c a
  · split
    · exact truncLapKernel_isProb c a
    · exact lapKernel_isProb c a

end PM
end DPL
