/-
The analytic Gaussian mechanism (C02), stage E — the SUFFICIENCY direction of Balle–Wang's Theorem 8 for the true
normal law: for ANY `σ > 0`, if Balle–Wang's expression at the sensitivity,
`Φ(Δ/2σ - εσ/Δ) - e^ε Φ(-Δ/2σ - εσ/Δ)`, is at most `δ`, then `N(x, σ²)(S) ≤ e^ε N(x', σ²)(S) + δ` for all centres at
most `Δ` apart and every measurable `S` (`gaussianReal_dp_of_balleWang`).

Three ingredients:
  * the hockey-stick inequality at the threshold `a = (x+x')/2 + σ²ε/(x-x')`: the set `(a, ∞)` maximises
    `N_x(S) - e^ε N_x'(S)` (`gaussianReal_hockey_stick`);
  * both tails are values of the normal cdf (`gaussianReal_Ioi` of `ContinuousGaussDP.lean`), which makes that maximum
    `bwTrue ε σ d`, `d = x - x'`;
  * `bwTrue ε σ ·` is monotone on `(0, ∞)`: its derivative is `φ(A)/σ > 0` because `φ(A) = e^ε φ(B)` at
    `A = d/2σ - εσ/d`, `B = -d/2σ - εσ/d` (`B² - A² = 2ε`).  This needs `Φ' = φ`, proved here from the fundamental
    theorem of calculus for `erfc`.
-/
import DPL.Proofs.ContinuousGaussDP
import Mathlib.MeasureTheory.Integral.IntervalIntegral.FundThmCalculus
import Mathlib.Analysis.Calculus.Deriv.MeanValue
import Mathlib.Analysis.Calculus.Deriv.Inv
import Mathlib.Analysis.SpecialFunctions.ExpDeriv

namespace DPL.Cont
open DPL Real MeasureTheory Set ProbabilityTheory

/-! ### the reversed ratio and the hockey-stick inequality -/

/-- beyond the threshold the ratio is reversed: `e^ε p_{x'}(y) ≤ p_x(y)` for `y ≥ (x+x')/2 + σ²ε/(x-x')` -/
theorem gaussianPDFReal_ratio_rev (σ eps x x' y : ℝ) (hσ : 0 < σ) (hx : x' < x)
    (hy : (x + x') / 2 + σ ^ 2 * eps / (x - x') ≤ y) :
    Real.exp eps * gaussianPDFReal x' (sqNN σ) y ≤ gaussianPDFReal x (sqNN σ) y := by
  have hd : 0 < x - x' := by linarith
  rw [gaussianPDFReal_def, gaussianPDFReal_def]
  simp only [coe_sqNN]
  rw [mul_left_comm, ← Real.exp_add]
  apply mul_le_mul_of_nonneg_left _ (inv_nonneg.mpr (Real.sqrt_nonneg _))
  apply Real.exp_le_exp.mpr
  have hσ2 : 0 < 2 * σ ^ 2 := by positivity
  have hkey : 2 * (σ ^ 2 * eps) ≤ (2 * y - x - x') * (x - x') := by
    have h1 : σ ^ 2 * eps / (x - x') ≤ y - (x + x') / 2 := by linarith
    have h2 := (div_le_iff₀ hd).mp h1
    linarith
  rw [← sub_nonneg]
  have : -(y - x) ^ 2 / (2 * σ ^ 2) - (eps + -(y - x') ^ 2 / (2 * σ ^ 2))
      = ((2 * y - x - x') * (x - x') - 2 * (σ ^ 2 * eps)) / (2 * σ ^ 2) := by
    field_simp
    ring
  rw [this]
  exact div_nonneg (by linarith) hσ2.le

/-- **hockey-stick inequality**: among all measurable `S`, the half-line `(a, ∞)`, `a = (x+x')/2 + σ²ε/(x-x')`,
maximises `N_x(S) - e^ε N_{x'}(S)` — written additively -/
theorem gaussianReal_hockey_stick (σ eps x x' : ℝ) (hσ : 0 < σ) (hx : x' < x) (S : Set ℝ) (hS : MeasurableSet S) :
    gaussianReal x (sqNN σ) S
        + ENNReal.ofReal (Real.exp eps)
          * gaussianReal x' (sqNN σ) (Set.Ioi ((x + x') / 2 + σ ^ 2 * eps / (x - x')))
      ≤ ENNReal.ofReal (Real.exp eps) * gaussianReal x' (sqNN σ) S
        + gaussianReal x (sqNN σ) (Set.Ioi ((x + x') / 2 + σ ^ 2 * eps / (x - x'))) := by
  set a := (x + x') / 2 + σ ^ 2 * eps / (x - x') with ha
  set c := ENNReal.ofReal (Real.exp eps) with hc
  have hv := sqNN_ne_zero σ hσ
  have hpx' := measurable_gaussianPDF x' (sqNN σ)
  -- below the threshold
  have hgood : gaussianReal x (sqNN σ) (S ∩ Set.Iic a) ≤ c * gaussianReal x' (sqNN σ) (S ∩ Set.Iic a) := by
    calc gaussianReal x (sqNN σ) (S ∩ Set.Iic a)
        = ∫⁻ y in S ∩ Set.Iic a, gaussianPDF x (sqNN σ) y := gaussianReal_apply x hv _
      _ ≤ ∫⁻ y in S ∩ Set.Iic a, c * gaussianPDF x' (sqNN σ) y := by
          apply setLIntegral_mono (hpx'.const_mul _)
          intro y hy
          unfold gaussianPDF
          rw [hc, ← ENNReal.ofReal_mul (Real.exp_pos _).le]
          exact ENNReal.ofReal_le_ofReal (gaussianPDFReal_ratio σ eps x x' y hσ hx hy.2)
      _ = c * ∫⁻ y in S ∩ Set.Iic a, gaussianPDF x' (sqNN σ) y := lintegral_const_mul _ hpx'
      _ = c * gaussianReal x' (sqNN σ) (S ∩ Set.Iic a) := by rw [gaussianReal_apply x' hv]
  -- beyond the threshold, outside S
  have hrev : c * gaussianReal x' (sqNN σ) (Set.Ioi a \ S) ≤ gaussianReal x (sqNN σ) (Set.Ioi a \ S) := by
    calc c * gaussianReal x' (sqNN σ) (Set.Ioi a \ S)
        = c * ∫⁻ y in Set.Ioi a \ S, gaussianPDF x' (sqNN σ) y := by rw [gaussianReal_apply x' hv]
      _ = ∫⁻ y in Set.Ioi a \ S, c * gaussianPDF x' (sqNN σ) y := (lintegral_const_mul _ hpx').symm
      _ ≤ ∫⁻ y in Set.Ioi a \ S, gaussianPDF x (sqNN σ) y := by
          apply setLIntegral_mono (measurable_gaussianPDF x (sqNN σ))
          intro y hy
          unfold gaussianPDF
          rw [hc, ← ENNReal.ofReal_mul (Real.exp_pos _).le]
          exact ENNReal.ofReal_le_ofReal (gaussianPDFReal_ratio_rev σ eps x x' y hσ hx (le_of_lt hy.1))
      _ = gaussianReal x (sqNN σ) (Set.Ioi a \ S) := (gaussianReal_apply x hv _).symm
  -- the four decompositions
  have hset : S \ Set.Iic a = Set.Ioi a ∩ S := by
    ext y
    simp only [Set.mem_sdiff, Set.mem_Iic, not_le, Set.mem_inter_iff, Set.mem_Ioi]
    exact and_comm
  have d1 : gaussianReal x (sqNN σ) S
      = gaussianReal x (sqNN σ) (S ∩ Set.Iic a) + gaussianReal x (sqNN σ) (Set.Ioi a ∩ S) := by
    rw [← hset]; exact (measure_inter_add_sdiff S measurableSet_Iic).symm
  have d2 : gaussianReal x' (sqNN σ) S
      = gaussianReal x' (sqNN σ) (S ∩ Set.Iic a) + gaussianReal x' (sqNN σ) (Set.Ioi a ∩ S) := by
    rw [← hset]; exact (measure_inter_add_sdiff S measurableSet_Iic).symm
  have d3 : gaussianReal x (sqNN σ) (Set.Ioi a)
      = gaussianReal x (sqNN σ) (Set.Ioi a ∩ S) + gaussianReal x (sqNN σ) (Set.Ioi a \ S) :=
    (measure_inter_add_sdiff (Set.Ioi a) hS).symm
  have d4 : gaussianReal x' (sqNN σ) (Set.Ioi a)
      = gaussianReal x' (sqNN σ) (Set.Ioi a ∩ S) + gaussianReal x' (sqNN σ) (Set.Ioi a \ S) :=
    (measure_inter_add_sdiff (Set.Ioi a) hS).symm
  rw [d1, d2, d3, d4, mul_add, mul_add]
  calc gaussianReal x (sqNN σ) (S ∩ Set.Iic a) + gaussianReal x (sqNN σ) (Set.Ioi a ∩ S)
        + (c * gaussianReal x' (sqNN σ) (Set.Ioi a ∩ S) + c * gaussianReal x' (sqNN σ) (Set.Ioi a \ S))
      ≤ c * gaussianReal x' (sqNN σ) (S ∩ Set.Iic a) + gaussianReal x (sqNN σ) (Set.Ioi a ∩ S)
        + (c * gaussianReal x' (sqNN σ) (Set.Ioi a ∩ S) + gaussianReal x (sqNN σ) (Set.Ioi a \ S)) := by
        gcongr
    _ = c * gaussianReal x' (sqNN σ) (S ∩ Set.Iic a) + c * gaussianReal x' (sqNN σ) (Set.Ioi a ∩ S)
        + (gaussianReal x (sqNN σ) (Set.Ioi a ∩ S) + gaussianReal x (sqNN σ) (Set.Ioi a \ S)) := by
        ring

/-! ### `Φ' = φ` -/

/-- the standard normal density -/
noncomputable def gaussDens (x : ℝ) : ℝ := Real.exp (-x ^ 2 / 2) / (Real.sqrt 2 * Real.sqrt Real.pi)

theorem gaussDens_pos (x : ℝ) : 0 < gaussDens x :=
  div_pos (Real.exp_pos _) (mul_pos sqrt_two_pos sqrt_pi_pos)

theorem continuous_exp_neg_sq : Continuous (fun t : ℝ => Real.exp (-t ^ 2)) := by fun_prop

/-- `erfc x = 1 - 2/√π ∫_0^x e^{-t²} dt` -/
theorem erfcR_eq_one_sub (x : ℝ) :
    erfcR x = 1 - 2 / Real.sqrt Real.pi * ∫ t in (0 : ℝ)..x, Real.exp (-t ^ 2) := by
  have h := intervalIntegral.integral_interval_add_Ioi (a := 0) (b := x)
    (integrable_exp_neg_sq.integrableOn) (integrable_exp_neg_sq.integrableOn)
  rw [integral_Ioi_zero_exp_neg_sq] at h
  have hpi := sqrt_pi_pos
  unfold erfcR
  have : ∫ t in Set.Ioi x, Real.exp (-t ^ 2)
      = Real.sqrt Real.pi / 2 - ∫ t in (0 : ℝ)..x, Real.exp (-t ^ 2) := by linarith
  rw [this]
  field_simp

theorem hasDerivAt_erfcR (x : ℝ) :
    HasDerivAt erfcR (-(2 / Real.sqrt Real.pi * Real.exp (-x ^ 2))) x := by
  have h1 : HasDerivAt (fun u => ∫ t in (0 : ℝ)..u, Real.exp (-t ^ 2)) (Real.exp (-x ^ 2)) x :=
    (continuous_exp_neg_sq.integral_hasStrictDerivAt 0 x).hasDerivAt
  have h2 := (h1.const_mul (2 / Real.sqrt Real.pi)).const_sub 1
  have he : erfcR = fun u => 1 - 2 / Real.sqrt Real.pi * ∫ t in (0 : ℝ)..u, Real.exp (-t ^ 2) :=
    funext erfcR_eq_one_sub
  rw [he]
  exact h2

/-- the derivative of the normal cdf is the normal density -/
theorem hasDerivAt_phiTrue (x : ℝ) : HasDerivAt phiTrue (gaussDens x) x := by
  have h2 := sqrt_two_pos
  have hpi := sqrt_pi_pos
  have hin : HasDerivAt (fun y : ℝ => (-y) / Real.sqrt 2) (-1 / Real.sqrt 2) x :=
    (hasDerivAt_id' x).neg.div_const _
  have hcomp := ((hasDerivAt_erfcR ((-x) / Real.sqrt 2)).comp x hin).div_const 2
  have hfun : phiTrue = fun y => (erfcR ∘ fun y : ℝ => (-y) / Real.sqrt 2) y / 2 := by
    funext y; rfl
  rw [hfun]
  refine hcomp.congr_deriv ?_
  unfold gaussDens
  have e : -((-x) / Real.sqrt 2) ^ 2 = -x ^ 2 / 2 := by
    rw [div_pow, Real.sq_sqrt (by norm_num)]; ring
  rw [e]
  field_simp

/-! ### Balle–Wang's expression as a function of the distance -/

/-- Balle–Wang's expression with the true cdf, as a function of the distance `d` -/
noncomputable def bwTrue (eps σ d : ℝ) : ℝ :=
  phiTrue (d / (2 * σ) - eps * σ / d) - Real.exp eps * phiTrue (-d / (2 * σ) - eps * σ / d)

theorem balleWang_trueErf (eps delta sens σ : ℝ) :
    @balleWang trueErf eps delta sens σ = bwTrue eps σ sens - delta := rfl

/-- `e^ε φ(B) = φ(A)` for `A = d/2σ - εσ/d`, `B = -d/2σ - εσ/d` (`B² - A² = 2ε`) -/
theorem exp_mul_gaussDens (eps σ d : ℝ) (hσ : 0 < σ) (hd : 0 < d) :
    Real.exp eps * gaussDens (-d / (2 * σ) - eps * σ / d) = gaussDens (d / (2 * σ) - eps * σ / d) := by
  unfold gaussDens
  rw [← mul_div_assoc, ← Real.exp_add]
  congr 2
  field_simp
  ring

theorem hasDerivAt_bwTrue (eps σ d : ℝ) (hσ : 0 < σ) (hd : 0 < d) :
    HasDerivAt (bwTrue eps σ) (gaussDens (d / (2 * σ) - eps * σ / d) / σ) d := by
  have hinv : HasDerivAt (fun y : ℝ => eps * σ / y) (-(eps * σ) / d ^ 2) d := by
    have := (hasDerivAt_inv hd.ne').const_mul (eps * σ)
    have hf : (fun y : ℝ => eps * σ / y) = fun y => eps * σ * y⁻¹ := by
      funext y; rw [div_eq_mul_inv]
    rw [hf]
    refine this.congr_deriv ?_
    field_simp
  have hA : HasDerivAt (fun y : ℝ => y / (2 * σ) - eps * σ / y) (1 / (2 * σ) - -(eps * σ) / d ^ 2) d :=
    ((hasDerivAt_id' d).div_const _).sub hinv
  have hB : HasDerivAt (fun y : ℝ => -y / (2 * σ) - eps * σ / y) (-1 / (2 * σ) - -(eps * σ) / d ^ 2) d :=
    ((hasDerivAt_id' d).neg.div_const _).sub hinv
  have h := ((hasDerivAt_phiTrue _).comp d hA).sub
    (((hasDerivAt_phiTrue _).comp d hB).const_mul (Real.exp eps))
  have hfun : bwTrue eps σ = fun y =>
      (phiTrue ∘ fun y : ℝ => y / (2 * σ) - eps * σ / y) y
        - Real.exp eps * (phiTrue ∘ fun y : ℝ => -y / (2 * σ) - eps * σ / y) y := by
    funext y; rfl
  rw [hfun]
  refine h.congr_deriv ?_
  rw [← mul_assoc, exp_mul_gaussDens eps σ d hσ hd]
  field_simp
  ring

/-- **monotone in the distance**: the derivative is `φ(A)/σ > 0` -/
theorem bwTrue_monotoneOn (eps σ : ℝ) (hσ : 0 < σ) : MonotoneOn (bwTrue eps σ) (Set.Ioi 0) := by
  apply monotoneOn_of_hasDerivWithinAt_nonneg (convex_Ioi 0)
    (f' := fun d => gaussDens (d / (2 * σ) - eps * σ / d) / σ)
  · intro d hd
    exact (hasDerivAt_bwTrue eps σ d hσ hd).continuousAt.continuousWithinAt
  · intro d hd
    rw [interior_Ioi] at hd ⊢
    exact (hasDerivAt_bwTrue eps σ d hσ hd).hasDerivWithinAt
  · intro d _
    exact div_nonneg (gaussDens_pos _).le hσ.le

theorem bwTrue_mono (eps σ d1 d2 : ℝ) (hσ : 0 < σ) (h1 : 0 < d1) (h12 : d1 ≤ d2) :
    bwTrue eps σ d1 ≤ bwTrue eps σ d2 :=
  bwTrue_monotoneOn eps σ hσ h1 (lt_of_lt_of_le h1 h12) h12

/-! ### sufficiency -/

/-- the two tails at the threshold are the two normal-cdf values of Balle–Wang's expression at `d = x - x'` -/
theorem gaussianReal_threshold_tails (σ eps x x' : ℝ) (hσ : 0 < σ) (hx : x' < x) :
    gaussianReal x (sqNN σ) (Set.Ioi ((x + x') / 2 + σ ^ 2 * eps / (x - x')))
      = ENNReal.ofReal (phiTrue ((x - x') / (2 * σ) - eps * σ / (x - x'))) ∧
    gaussianReal x' (sqNN σ) (Set.Ioi ((x + x') / 2 + σ ^ 2 * eps / (x - x')))
      = ENNReal.ofReal (phiTrue (-(x - x') / (2 * σ) - eps * σ / (x - x'))) := by
  have hd : 0 < x - x' := by linarith
  constructor
  · rw [gaussianReal_Ioi x σ _ hσ]
    congr 2
    field_simp
    ring
  · rw [gaussianReal_Ioi x' σ _ hσ]
    congr 2
    field_simp
    ring

/-- one order of the centres -/
theorem gaussianReal_dp_of_bwTrue_pos (eps delta sens σ x x' : ℝ) (hσ : 0 < σ) (hd : 0 ≤ delta)
    (hbw : bwTrue eps σ sens ≤ delta) (hx : x' < x) (hxs : x - x' ≤ sens) (S : Set ℝ) (hS : MeasurableSet S) :
    gaussianReal x (sqNN σ) S ≤ ENNReal.ofReal (Real.exp eps) * gaussianReal x' (sqNN σ) S + ENNReal.ofReal delta := by
  have hd0 : 0 < x - x' := by linarith
  have hhs := gaussianReal_hockey_stick σ eps x x' hσ hx S hS
  obtain ⟨t1, t2⟩ := gaussianReal_threshold_tails σ eps x x' hσ hx
  rw [t1, t2] at hhs
  have hmono := bwTrue_mono eps σ (x - x') sens hσ hd0 hxs
  set pA := phiTrue ((x - x') / (2 * σ) - eps * σ / (x - x')) with hpA
  set pB := phiTrue (-(x - x') / (2 * σ) - eps * σ / (x - x')) with hpB
  have hpB0 : 0 ≤ pB := phiTrue_nonneg _
  have hle : pA ≤ delta + Real.exp eps * pB := by
    have : bwTrue eps σ (x - x') = pA - Real.exp eps * pB := rfl
    linarith
  have hle' : ENNReal.ofReal pA ≤ ENNReal.ofReal delta + ENNReal.ofReal (Real.exp eps) * ENNReal.ofReal pB := by
    rw [← ENNReal.ofReal_mul (Real.exp_pos _).le, ← ENNReal.ofReal_add hd (by positivity)]
    exact ENNReal.ofReal_le_ofReal hle
  have hK : ENNReal.ofReal (Real.exp eps) * ENNReal.ofReal pB ≠ ⊤ :=
    ENNReal.mul_ne_top ENNReal.ofReal_ne_top ENNReal.ofReal_ne_top
  apply ENNReal.le_of_add_le_add_right hK
  calc gaussianReal x (sqNN σ) S + ENNReal.ofReal (Real.exp eps) * ENNReal.ofReal pB
      ≤ ENNReal.ofReal (Real.exp eps) * gaussianReal x' (sqNN σ) S + ENNReal.ofReal pA := hhs
    _ ≤ ENNReal.ofReal (Real.exp eps) * gaussianReal x' (sqNN σ) S
        + (ENNReal.ofReal delta + ENNReal.ofReal (Real.exp eps) * ENNReal.ofReal pB) := by gcongr
    _ = ENNReal.ofReal (Real.exp eps) * gaussianReal x' (sqNN σ) S + ENNReal.ofReal delta
        + ENNReal.ofReal (Real.exp eps) * ENNReal.ofReal pB := by rw [add_assoc]

/-- **Balle–Wang Thm 8, sufficiency, for the normal law**: if Balle–Wang's expression (true cdf) at the distance
`sens` is `≤ δ`, then `N(·, σ²)` is `(ε, δ)`-indistinguishable for all centres at most `sens` apart — any `σ > 0`,
any `ε ≥ 0` -/
theorem gaussianReal_dp_of_bwTrue (eps delta sens σ x x' : ℝ) (he : 0 ≤ eps) (hσ : 0 < σ) (hd : 0 ≤ delta)
    (hbw : bwTrue eps σ sens ≤ delta) (hx : |x - x'| ≤ sens) (S : Set ℝ) (hS : MeasurableSet S) :
    gaussianReal x (sqNN σ) S ≤ ENNReal.ofReal (Real.exp eps) * gaussianReal x' (sqNN σ) S + ENNReal.ofReal delta := by
  obtain ⟨h1, h2⟩ := abs_le.mp hx
  rcases lt_trichotomy x' x with h | h | h
  · exact gaussianReal_dp_of_bwTrue_pos eps delta sens σ x x' hσ hd hbw h (by linarith) S hS
  · subst h
    have h1e : (1 : ENNReal) ≤ ENNReal.ofReal (Real.exp eps) := by
      rw [← ENNReal.ofReal_one]
      exact ENNReal.ofReal_le_ofReal (Real.one_le_exp he)
    calc gaussianReal x' (sqNN σ) S
        = 1 * gaussianReal x' (sqNN σ) S := (one_mul _).symm
      _ ≤ ENNReal.ofReal (Real.exp eps) * gaussianReal x' (sqNN σ) S := by gcongr
      _ ≤ _ := le_self_add
  · have hrefl : ∀ m : ℝ, gaussianReal m (sqNN σ) S
        = gaussianReal (-m) (sqNN σ) ((fun y : ℝ => -y) ⁻¹' S) := by
      intro m
      have := gaussianReal_map_neg (μ := -m) (v := sqNN σ)
      rw [neg_neg] at this
      rw [← this, Measure.map_apply measurable_neg hS]
    rw [hrefl x, hrefl x']
    exact gaussianReal_dp_of_bwTrue_pos eps delta sens σ (-x) (-x') hσ hd hbw (by linarith) (by linarith) _
      (measurable_neg hS)

/-- the same, phrased with the model's `balleWang` under the true `erfc` -/
theorem gaussianReal_dp_of_balleWang (eps delta sens σ x x' : ℝ) (he : 0 ≤ eps) (hσ : 0 < σ) (_hs : 0 < sens)
    (hd : 0 ≤ delta) (hbw : @balleWang trueErf eps delta sens σ ≤ 0) (hx : |x - x'| ≤ sens)
    (S : Set ℝ) (hS : MeasurableSet S) :
    gaussianReal x (sqNN σ) S ≤ ENNReal.ofReal (Real.exp eps) * gaussianReal x' (sqNN σ) S + ENNReal.ofReal delta := by
  rw [balleWang_trueErf] at hbw
  exact gaussianReal_dp_of_bwTrue eps delta sens σ x x' he hσ hd (by linarith) hx S hS

end DPL.Cont
