/-
Helper lemmas for C16 (core Lean only): the stack below the top is untouched by a program; single steps preserve the
abstraction relation; the specification never raises `AttributeError`; a program that does not enter `a` does not
touch `a.old_default`.
-/
import DPL.Model.Scope
namespace DPL

theorem stepS_below (s : Sp) (o : SOp) : (stepS s o).1.below = s.below := by
  cases o with
  | setDefault a => rfl
  | popDefault => rfl
  | call e => cases e <;> rfl
  | load e => cases e <;> rfl
  | peek => rfl

theorem runS_below (p : Prog) (s : Sp) : (runS p s).1.below = s.below := by
  induction p generalizing s with
  | nil => rfl
  | raise => rfl
  | op o rest ih =>
    simp only [runS]
    rw [ih, stepS_below]
  | block a body rest ihb ihr =>
    have hb := ihb (pushS s a)
    have hpop : (popS (runS body (pushS s a)).1).below = s.below := by
      simp only [pushS] at hb
      simp only [popS, pushS, hb]
    simp only [runS]
    split
    · exact hpop
    · simp only [ihr, hpop]
  | «catch» body rest ihb ihr =>
    simp only [runS]
    rw [ihr, ihb]

/-- popping after a body that ran on `pushS s a` gives back `s`'s top and stack -/
theorem popS_runS_push (body : Prog) (s : Sp) (a : AccId) :
    popS (runS body (pushS s a)).1 = ⟨s.top, s.below, (runS body (pushS s a)).1.fresh⟩ := by
  have hb := runS_below body (pushS s a)
  simp only [pushS] at hb
  simp only [popS, pushS, hb]

theorem stepRel (σ : St) (s : Sp) (opened : List AccId) (o : SOp) (h : Rel σ s opened) :
    (stepI σ o).2 = (stepS s o).2 ∧ Rel (stepI σ o).1 (stepS s o).1 opened := by
  obtain ⟨h1, h2, h3⟩ := h
  cases o with
  | setDefault a => exact ⟨rfl, rfl, h2, h3⟩
  | popDefault => exact ⟨by simp [stepI, stepS, h1], rfl, h2, h3⟩
  | call e =>
    cases e with
    | some e => exact ⟨rfl, h1, h2, h3⟩
    | none =>
      simp only [stepI, stepS, h1, h2]
      exact ⟨trivial, rfl, rfl, h3⟩
  | load e =>
    cases e with
    | some e => exact ⟨rfl, h1, h2, h3⟩
    | none =>
      simp only [stepI, stepS, h1, h2]
      exact ⟨trivial, rfl, rfl, h3⟩
  | peek => exact ⟨by simp [stepI, stepS, h1], h1, h2, h3⟩

/-- the stack specification never raises `AttributeError` -/
theorem runS_exc (p : Prog) (s : Sp) : (runS p s).2.2 ≠ some .attributeError := by
  induction p generalizing s with
  | nil => simp [runS]
  | raise => simp [runS]
  | op o rest ih => simp only [runS]; exact ih _
  | block a body rest ihb ihr =>
    simp only [runS]
    split
    · rename_i e he
      have := ihb (pushS s a)
      rw [he] at this
      simpa using this
    · exact ihr _
  | «catch» body rest ihb ihr => simp only [runS]; exact ihr _

theorem stepI_old (σ : St) (o : SOp) : (stepI σ o).1.old = σ.old := by
  cases o with
  | setDefault a => rfl
  | popDefault => rfl
  | call e => cases e <;> rfl
  | load e => cases e <;> rfl
  | peek => rfl

theorem exitI_old_ne (σ : St) (a b : AccId) (h : b ≠ a) : (exitI σ a).1.old b = σ.old b := by
  unfold exitI
  split
  · rfl
  · simp [upd, h]

/-- a program that never enters `b` leaves `b.old_default` exactly as it was -/
theorem runI_old_untouched (p : Prog) (b : AccId) : ∀ σ : St, b ∉ enteredIn p → (runI p σ).1.old b = σ.old b := by
  induction p with
  | nil => intro σ _; rfl
  | raise => intro σ _; rfl
  | op o rest ih =>
    intro σ h
    simp only [runI]
    rw [ih _ h, stepI_old]
  | block a body rest ihb ihr =>
    intro σ h
    simp only [enteredIn, List.mem_cons, List.mem_append, not_or] at h
    obtain ⟨hba, hbb, hbr⟩ := h
    have hx : (exitI (runI body (enterI σ a)).1 a).1.old b = σ.old b := by
      rw [exitI_old_ne _ _ _ hba, ihb _ hbb]
      simp [enterI, upd, hba]
    simp only [runI]
    split
    · exact hx
    · split
      · exact hx
      · rw [ihr _ hbr]; exact hx
  | «catch» body rest ihb ihr =>
    intro σ h
    simp only [enteredIn, List.mem_append, not_or] at h
    simp only [runI]
    rw [ihr _ h.2, ihb _ h.1]

theorem WF_not_entered (p : Prog) : ∀ (opened : List AccId) (b : AccId), WF p opened → b ∈ opened → b ∉ enteredIn p := by
  induction p with
  | nil => intro _ _ _ _; simp [enteredIn]
  | raise => intro _ _ _ _; simp [enteredIn]
  | op o rest ih => intro opened b h hb; exact ih opened b h hb
  | block a body rest ihb ihr =>
    intro opened b h hb
    obtain ⟨hna, hwb, hwr⟩ := h
    simp only [enteredIn, List.mem_cons, List.mem_append, not_or]
    refine ⟨fun e => hna (e ▸ hb), ihb (a :: opened) b hwb (List.mem_cons_of_mem _ hb), ihr opened b hwr hb⟩
  | «catch» body rest ihb ihr =>
    intro opened b h hb
    simp only [enteredIn, List.mem_append, not_or]
    exact ⟨ihb opened b h.1 hb, ihr opened b h.2 hb⟩

theorem wfb_iff (p : Prog) : ∀ opened : List AccId, wfb p opened = true ↔ WF p opened := by
  induction p with
  | nil => intro _; simp [wfb, WF]
  | raise => intro _; simp [wfb, WF]
  | op o rest ih => intro opened; simp only [wfb, WF]; exact ih opened
  | block a body rest ihb ihr =>
    intro opened
    simp only [wfb, WF, Bool.and_eq_true, Bool.not_eq_true', ihb, ihr]
    constructor
    · rintro ⟨⟨h1, h2⟩, h3⟩
      exact ⟨by simpa using h1, h2, h3⟩
    · rintro ⟨h1, h2, h3⟩
      exact ⟨⟨by simpa using h1, h2⟩, h3⟩
  | «catch» body rest ihb ihr =>
    intro opened
    simp only [wfb, WF, Bool.and_eq_true, ihb, ihr]

instance (p : Prog) (opened : List AccId) : Decidable (WF p opened) :=
  decidable_of_iff _ (wfb_iff p opened)

end DPL
