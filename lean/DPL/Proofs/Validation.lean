/-
Helper lemmas for C13: how `runChain` decomposes, and what each test of the validation chains means when it lets a
value through.
-/
import DPL.Model.Validation
import Mathlib.Tactic.Linarith
import Mathlib.Tactic.NormNum
import Mathlib.Data.Rat.Defs
import Mathlib.Algebra.Order.Field.Rat

namespace DPL.Val

theorem runChain_cons_ok (env : Env) (s : Step) (rest : Chain) :
    runChain env (s :: rest) = .ok () ↔ s.pred.eval env = .ok false ∧ runChain env rest = .ok () := by
  simp only [runChain]
  cases h : s.pred.eval env with
  | error e => simp
  | ok b => cases b <;> simp

@[simp] theorem runChain_nil (env : Env) : runChain env [] = .ok () := rfl

theorem runChain_append_ok (env : Env) (a b : Chain) :
    runChain env (a ++ b) = .ok () ↔ runChain env a = .ok () ∧ runChain env b = .ok () := by
  induction a with
  | nil => simp [runChain]
  | cons s rest ih => simp only [List.cons_append, runChain_cons_ok, ih, and_assoc]

theorem runChain_flatMap_ok {β : Type} (env : Env) (f : β → Chain) (bs : List β) :
    runChain env (bs.flatMap f) = .ok () ↔ ∀ b ∈ bs, runChain env (f b) = .ok () := by
  induction bs with
  | nil => simp [runChain]
  | cons b rest ih => simp [List.flatMap_cons, runChain_append_ok, ih]

/-- a chain either accepts or raises -/
theorem runChain_ok_or_error (env : Env) (c : Chain) : runChain env c = .ok () ∨ ∃ e, runChain env c = .error e := by
  cases h : runChain env c with
  | ok u => left; rfl
  | error e => right; exact ⟨e, rfl⟩

/-! ### single tests -/

theorem needReal_map_ok {v : PyVal} {f : Ext → Bool} {b : Bool} :
    (needReal v).map f = .ok b ↔ ∃ x, v.real? = some x ∧ f x = b := by
  unfold needReal
  cases h : v.real? with
  | none => simp [Except.map]
  | some x => simp [Except.map]

theorem le_zero_iff (x : Ext) : Ext.le .zero x = true ↔ x.Nonneg := by
  cases x <;> simp [Ext.le, Ext.zero, Ext.Nonneg]

theorem in01_iff (x : Ext) : (Ext.le .zero x && Ext.le x .one) = true ↔ x.In01 := by
  cases x <;> simp [Ext.le, Ext.zero, Ext.one, Ext.In01]

theorem beq_zero_iff (x : Ext) : Ext.beq x .zero = true ↔ x.IsZero := by
  cases x <;> simp [Ext.beq, Ext.zero, Ext.IsZero]

theorem eqc_zero_iff (v : PyVal) : v.eqc .zero = true ↔ ∃ x, v.real? = some x ∧ x.IsZero := by
  unfold PyVal.eqc
  cases h : v.real? with
  | none => simp
  | some x => simp [beq_zero_iff]

theorem notGe0_ok {env : Env} {a : Var} :
    (Pred.notGe0 a).eval env = .ok false ↔ ∃ x, (env.v a).real? = some x ∧ x.Nonneg := by
  simp only [Pred.eval, needReal_map_ok, Bool.not_eq_false', le_zero_iff]

theorem notIn01_ok {env : Env} {a : Var} :
    (Pred.notIn01 a).eval env = .ok false ↔ ∃ x, (env.v a).real? = some x ∧ x.In01 := by
  simp only [Pred.eval, needReal_map_ok, Bool.not_eq_false', in01_iff]

theorem notRealEither_ok {env : Env} {a b : Var} :
    (Pred.notRealEither a b).eval env = .ok false ↔
      ∃ x y, (env.v a).real? = some x ∧ (env.v b).real? = some y := by
  simp only [Pred.eval, PyVal.isReal]
  cases (env.v a).real? <;> cases (env.v b).real? <;> simp

theorem notReal_ok {env : Env} {a : Var} :
    (Pred.notReal a).eval env = .ok false ↔ ∃ x, (env.v a).real? = some x := by
  simp only [Pred.eval, PyVal.isReal]
  cases (env.v a).real? <;> simp

theorem notIntegral_ok {env : Env} {a : Var} :
    (Pred.notIntegral a).eval env = .ok false ↔ (env.v a).isIntegral = true := by
  simp [Pred.eval]

theorem notEq0_ok {env : Env} {a : Var} :
    (Pred.notEq0 a).eval env = .ok false ↔ ∃ x, (env.v a).real? = some x ∧ x.IsZero := by
  simp [Pred.eval, eqc_zero_iff]

theorem eq0_ok {env : Env} {a : Var} :
    (Pred.eq0 a).eval env = .ok false ↔ ¬ ∃ x, (env.v a).real? = some x ∧ x.IsZero := by
  simp only [Pred.eval, Except.ok.injEq, ← eqc_zero_iff, Bool.not_eq_true]

theorem eq0Either_ok {env : Env} {a b : Var} :
    (Pred.eq0Either a b).eval env = .ok false ↔
      (¬ ∃ x, (env.v a).real? = some x ∧ x.IsZero) ∧ ¬ ∃ y, (env.v b).real? = some y ∧ y.IsZero := by
  simp only [Pred.eval, Except.ok.injEq, ← eqc_zero_iff, Bool.or_eq_false_iff, Bool.not_eq_true]

theorem flag_ok {env : Env} {f : Flag} : (Pred.flag f).eval env = .ok false ↔ env.f f = false := by
  simp [Pred.eval]

theorem sumEq0_ok {env : Env} {a b : Var} {x y : Ext} (hx : (env.v a).real? = some x)
    (hy : (env.v b).real? = some y) (nx : x.Nonneg) (ny : y.In01) :
    (Pred.sumEq0 a b).eval env = .ok false ↔ ¬ (x.IsZero ∧ y.IsZero) := by
  simp only [Pred.eval, needReal, hx, hy, bind, Except.bind, pure, Except.pure, Except.ok.injEq]
  cases x <;> cases y <;> simp_all [Ext.add, Ext.beq, Ext.zero, Ext.IsZero, Ext.Nonneg, Ext.In01]
  rename_i p q
  constructor
  · intro h hp hq; exact h (by rw [hp, hq]; norm_num)
  · intro h hs
    have hp : p = 0 := by linarith [ny.1]
    have hq : q = 0 := by linarith
    exact h hp hq

/-- the general range of (epsilon, delta): what `DPMechanism._check_epsilon_delta` lets through -/
def BaseED (env : Env) (x y : Ext) : Prop :=
  (env.v .epsilon).real? = some x ∧ (env.v .delta).real? = some y ∧ x.Nonneg ∧ y.In01 ∧ ¬ (x.IsZero ∧ y.IsZero)

theorem baseEpsDelta_ok (env : Env) :
    runChain env baseEpsDelta = .ok () ↔ ∃ x y, BaseED env x y := by
  unfold baseEpsDelta BaseED
  simp only [runChain_cons_ok, notRealEither_ok, notGe0_ok, notIn01_ok, runChain_nil, and_true]
  constructor
  · rintro ⟨⟨x, y, hx, hy⟩, ⟨x', hx', nx⟩, ⟨y', hy', ny⟩, hs⟩
    rw [hx] at hx'; rw [hy] at hy'
    cases hx'; cases hy'
    exact ⟨x, y, hx, hy, nx, ny, (sumEq0_ok hx hy nx ny).mp hs⟩
  · rintro ⟨x, y, hx, hy, nx, ny, hz⟩
    exact ⟨⟨x, y, hx, hy⟩, ⟨x, hx, nx⟩, ⟨y, hy, ny⟩, (sumEq0_ok hx hy nx ny).mpr hz⟩

end DPL.Val
