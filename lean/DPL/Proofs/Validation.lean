/-
Helper lemmas for C13: how `runChain` decomposes, and what each test of the validation chains means when it lets a
value through.
-/
import DPL.Model.Validation
import Mathlib.Tactic.Linarith
import Mathlib.Tactic.NormNum
import Mathlib.Data.Rat.Defs
import Mathlib.Algebra.Order.Field.Rat

namespace DPL.Val

theorem runChain_cons_ok (env : Env) (s : Step) (rest : Chain) :
    runChain env (s :: rest) = .ok () ↔ s.pred.eval env = .ok false ∧ runChain env rest = .ok () := by
  simp only [runChain]
  cases h : s.pred.eval env with
  | error e => simp
  | ok b => cases b <;> simp

@[simp] theorem runChain_nil (env : Env) : runChain env [] = .ok () := rfl

theorem runChain_append_ok (env : Env) (a b : Chain) :
    runChain env (a ++ b) = .ok () ↔ runChain env a = .ok () ∧ runChain env b = .ok () := by
  induction a with
  | nil => simp [runChain]
  | cons s rest ih => simp only [List.cons_append, runChain_cons_ok, ih, and_assoc]

theorem runChain_flatMap_ok {β : Type} (env : Env) (f : β → Chain) (bs : List β) :
    runChain env (bs.flatMap f) = .ok () ↔ ∀ b ∈ bs, runChain env (f b) = .ok () := by
  induction bs with
  | nil => simp [runChain]
  | cons b rest ih => simp [List.flatMap_cons, runChain_append_ok, ih]

/-- a chain either accepts or raises -/
theorem runChain_ok_or_error (env : Env) (c : Chain) : runChain env c = .ok () ∨ ∃ e, runChain env c = .error e := by
  cases h : runChain env c with
  | ok u => left; rfl
  | error e => right; exact ⟨e, rfl⟩

/-! ### single tests -/

theorem needReal_map_ok {v : PyVal} {f : Ext → Bool} {b : Bool} :
    (needReal v).map f = .ok b ↔ ∃ x, v.real? = some x ∧ f x = b := by
  unfold needReal
  cases h : v.real? with
  | none => simp [Except.map]
  | some x => simp [Except.map]

theorem le_zero_iff (x : Ext) : Ext.le .zero x = true ↔ x.Nonneg := by
  cases x <;> simp [Ext.le, Ext.zero, Ext.Nonneg]

theorem in01_iff (x : Ext) : (Ext.le .zero x && Ext.le x .one) = true ↔ x.In01 := by
  cases x <;> simp [Ext.le, Ext.zero, Ext.one, Ext.In01]

theorem beq_zero_iff (x : Ext) : Ext.beq x .zero = true ↔ x.IsZero := by
  cases x <;> simp [Ext.beq, Ext.zero, Ext.IsZero]

theorem eqc_zero_iff (v : PyVal) : v.eqc .zero = true ↔ ∃ x, v.real? = some x ∧ x.IsZero := by
  unfold PyVal.eqc
  cases h : v.real? with
  | none => simp
  | some x => simp [beq_zero_iff]

theorem notGe0_ok {env : Env} {a : Var} :
    (Pred.notGe0 a).eval env = .ok false ↔ ∃ x, (env.v a).real? = some x ∧ x.Nonneg := by
  simp only [Pred.eval, needReal_map_ok, Bool.not_eq_false', le_zero_iff]

theorem notIn01_ok {env : Env} {a : Var} :
    (Pred.notIn01 a).eval env = .ok false ↔ ∃ x, (env.v a).real? = some x ∧ x.In01 := by
  simp only [Pred.eval, needReal_map_ok, Bool.not_eq_false', in01_iff]

theorem notRealEither_ok {env : Env} {a b : Var} :
    (Pred.notRealEither a b).eval env = .ok false ↔
      ∃ x y, (env.v a).real? = some x ∧ (env.v b).real? = some y := by
  simp only [Pred.eval, PyVal.isReal]
  cases (env.v a).real? <;> cases (env.v b).real? <;> simp

theorem notReal_ok {env : Env} {a : Var} :
    (Pred.notReal a).eval env = .ok false ↔ ∃ x, (env.v a).real? = some x := by
  simp only [Pred.eval, PyVal.isReal]
  cases (env.v a).real? <;> simp

theorem notIntegral_ok {env : Env} {a : Var} :
    (Pred.notIntegral a).eval env = .ok false ↔ (env.v a).isIntegral = true := by
  simp [Pred.eval]

theorem notEq0_ok {env : Env} {a : Var} :
    (Pred.notEq0 a).eval env = .ok false ↔ ∃ x, (env.v a).real? = some x ∧ x.IsZero := by
  simp [Pred.eval, eqc_zero_iff]

theorem eq0_ok {env : Env} {a : Var} :
    (Pred.eq0 a).eval env = .ok false ↔ ¬ ∃ x, (env.v a).real? = some x ∧ x.IsZero := by
  simp only [Pred.eval, Except.ok.injEq, ← eqc_zero_iff, Bool.not_eq_true]

theorem eq0Either_ok {env : Env} {a b : Var} :
    (Pred.eq0Either a b).eval env = .ok false ↔
      (¬ ∃ x, (env.v a).real? = some x ∧ x.IsZero) ∧ ¬ ∃ y, (env.v b).real? = some y ∧ y.IsZero := by
  simp only [Pred.eval, Except.ok.injEq, ← eqc_zero_iff, Bool.or_eq_false_iff, Bool.not_eq_true]

theorem flag_ok {env : Env} {f : Flag} : (Pred.flag f).eval env = .ok false ↔ env.f f = false := by
  simp [Pred.eval]

theorem sumEq0_ok {env : Env} {a b : Var} {x y : Ext} (hx : (env.v a).real? = some x)
    (hy : (env.v b).real? = some y) (nx : x.Nonneg) (ny : y.In01) :
    (Pred.sumEq0 a b).eval env = .ok false ↔ ¬ (x.IsZero ∧ y.IsZero) := by
  simp only [Pred.eval, needReal, hx, hy, bind, Except.bind, pure, Except.pure, Except.ok.injEq]
  cases x <;> cases y <;> simp_all [Ext.add, Ext.beq, Ext.zero, Ext.IsZero, Ext.Nonneg, Ext.In01]
  rename_i p q
  constructor
  · intro h hp hq; exact h (by rw [hp, hq]; norm_num)
  · intro h hs
    have hp : p = 0 := by linarith [ny.1]
    have hq : q = 0 := by linarith
    exact h hp hq

/-- the general range of (epsilon, delta): what `DPMechanism._check_epsilon_delta` lets through -/
def BaseED (env : Env) (x y : Ext) : Prop :=
  (env.v .epsilon).real? = some x ∧ (env.v .delta).real? = some y ∧ x.Nonneg ∧ y.In01 ∧ ¬ (x.IsZero ∧ y.IsZero)

theorem baseEpsDelta_ok (env : Env) :
    runChain env baseEpsDelta = .ok () ↔ ∃ x y, BaseED env x y := by
  unfold baseEpsDelta BaseED
  simp only [runChain_cons_ok, notRealEither_ok, notGe0_ok, notIn01_ok, runChain_nil, and_true]
  constructor
  · rintro ⟨⟨x, y, hx, hy⟩, ⟨x', hx', nx⟩, ⟨y', hy', ny⟩, hs⟩
    rw [hx] at hx'; rw [hy] at hy'
    cases hx'; cases hy'
    exact ⟨x, y, hx, hy, nx, ny, (sumEq0_ok hx hy nx ny).mp hs⟩
  · rintro ⟨x, y, hx, hy, nx, ny, hz⟩
    exact ⟨⟨x, y, hx, hy⟩, ⟨x, hx, nx⟩, ⟨y, hy, ny⟩, (sumEq0_ok hx hy nx ny).mpr hz⟩


/-! ### the class-specific (epsilon, delta) chains -/

theorem lt_one_false_iff {x : Ext} (h : x.Nonneg) : Ext.lt .one x = false ↔ x.LeOne := by
  cases x <;> simp_all [Ext.lt, Ext.one, Ext.LeOne, Ext.Nonneg]

theorem pos_ltHalf_iff (y : Ext) : (Ext.lt .zero y && Ext.lt y .half) = true ↔ y.Pos ∧ y.LtHalf := by
  cases y <;> simp [Ext.lt, Ext.zero, Ext.half, Ext.Pos, Ext.LtHalf]

theorem pos_leHalf_iff (y : Ext) : (Ext.lt .zero y && Ext.le y .half) = true ↔ y.Pos ∧ y.LeHalf := by
  cases y <;> simp [Ext.lt, Ext.le, Ext.zero, Ext.half, Ext.Pos, Ext.LeHalf]

theorem le_twoEps_false_iff {x : Ext} (h : x.Nonneg) : Ext.le x .twoEpsneg = false ↔ x.GtTwoEpsneg := by
  cases x <;> simp_all [Ext.le, Ext.twoEpsneg, Ext.GtTwoEpsneg, Ext.Nonneg]

theorem realAndGt1_ok {env : Env} {a : Var} :
    (Pred.realAndGt1 a).eval env = .ok false ↔ ∀ x, (env.v a).real? = some x → Ext.lt .one x = false := by
  simp only [Pred.eval, Except.ok.injEq]
  cases (env.v a).real? <;> simp

theorem realAndNotIn0Half_ok {env : Env} {a : Var} :
    (Pred.realAndNotIn0Half a).eval env = .ok false ↔
      ∀ y, (env.v a).real? = some y → y.Pos ∧ y.LtHalf := by
  simp only [Pred.eval, Except.ok.injEq]
  cases (env.v a).real? <;> simp [← pos_ltHalf_iff]

theorem notIn0HalfClosed_ok {env : Env} {a : Var} :
    (Pred.notIn0HalfClosed a).eval env = .ok false ↔ ∃ y, (env.v a).real? = some y ∧ y.Pos ∧ y.LeHalf := by
  simp only [Pred.eval, needReal_map_ok, Bool.not_eq_false', pos_leHalf_iff]

theorem leTwoEpsneg_ok {env : Env} {a : Var} :
    (Pred.leTwoEpsneg a).eval env = .ok false ↔ ∃ x, (env.v a).real? = some x ∧ Ext.le x .twoEpsneg = false := by
  simp only [Pred.eval, needReal_map_ok]

/-- `_check_epsilon_delta` of every class accepts EXACTLY the documented range -/
theorem epsDelta_ok_iff (m : Mech) (env : Env) :
    runChain env (chainOf m .epsDelta) = .ok () ↔ ValidEpsDelta m env := by
  have pure_iff : runChain env pureEpsDelta = .ok () ↔
      ∃ x y, BaseED env x y ∧ y.IsZero := by
    unfold pureEpsDelta
    rw [runChain_cons_ok, notEq0_ok, baseEpsDelta_ok]
    constructor
    · rintro ⟨⟨y', hy', hz⟩, x, y, hb⟩
      have := hb.2.1; rw [hy'] at this; cases this
      exact ⟨x, y', hb, hz⟩
    · rintro ⟨x, y, hb, hz⟩
      exact ⟨⟨y, hb.2.1, hz⟩, x, y, hb⟩
  have pure_valid : ∀ (hc : ∀ x y, classRange m x y = y.IsZero),
      (∃ x y, BaseED env x y ∧ y.IsZero) ↔ ValidEpsDelta m env := by
    intro hc
    unfold ValidEpsDelta BaseED
    constructor
    · rintro ⟨x, y, ⟨hx, hy, nx, ny, hz⟩, hp⟩; exact ⟨x, y, hx, hy, nx, ny, hz, by rw [hc]; exact hp⟩
    · rintro ⟨x, y, hx, hy, nx, ny, hz, hp⟩; exact ⟨x, y, ⟨hx, hy, nx, ny, hz⟩, by rw [hc] at hp; exact hp⟩
  have zeroEither : ∀ {x y}, BaseED env x y →
      (((¬ ∃ x, (env.v .epsilon).real? = some x ∧ x.IsZero) ∧ ¬ ∃ y, (env.v .delta).real? = some y ∧ y.IsZero) ↔
        (¬ x.IsZero ∧ ¬ y.IsZero)) := by
    intro x y hb
    constructor
    · rintro ⟨h1, h2⟩; exact ⟨fun hz => h1 ⟨x, hb.1, hz⟩, fun hz => h2 ⟨y, hb.2.1, hz⟩⟩
    · rintro ⟨h1, h2⟩
      refine ⟨?_, ?_⟩
      · rintro ⟨x', hx', hz⟩; rw [hb.1] at hx'; cases hx'; exact h1 hz
      · rintro ⟨y', hy', hz⟩; rw [hb.2.1] at hy'; cases hy'; exact h2 hz
  cases m
  case Binary => exact pure_iff.trans (pure_valid (fun _ _ => rfl))
  case Bingham => exact pure_iff.trans (pure_valid (fun _ _ => rfl))
  case Exponential => exact pure_iff.trans (pure_valid (fun _ _ => rfl))
  case PermuteAndFlip => exact pure_iff.trans (pure_valid (fun _ _ => rfl))
  case ExponentialCategorical => exact pure_iff.trans (pure_valid (fun _ _ => rfl))
  case ExponentialHierarchical => exact pure_iff.trans (pure_valid (fun _ _ => rfl))
  case Geometric => exact pure_iff.trans (pure_valid (fun _ _ => rfl))
  case GeometricTruncated => exact pure_iff.trans (pure_valid (fun _ _ => rfl))
  case GeometricFolded => exact pure_iff.trans (pure_valid (fun _ _ => rfl))
  case Staircase => exact pure_iff.trans (pure_valid (fun _ _ => rfl))
  case Vector => exact pure_iff.trans (pure_valid (fun _ _ => rfl))
  case Laplace =>
    show runChain env baseEpsDelta = .ok () ↔ _
    rw [baseEpsDelta_ok]; unfold ValidEpsDelta BaseED classRange; simp
  case LaplaceTruncated =>
    show runChain env baseEpsDelta = .ok () ↔ _
    rw [baseEpsDelta_ok]; unfold ValidEpsDelta BaseED classRange; simp
  case LaplaceFolded =>
    show runChain env baseEpsDelta = .ok () ↔ _
    rw [baseEpsDelta_ok]; unfold ValidEpsDelta BaseED classRange; simp
  case LaplaceBoundedDomain =>
    show runChain env baseEpsDelta = .ok () ↔ _
    rw [baseEpsDelta_ok]; unfold ValidEpsDelta BaseED classRange; simp
  case Snapping =>
    show runChain env (pureEpsDelta ++ _) = .ok () ↔ _
    rw [runChain_append_ok, pure_iff, runChain_cons_ok, leTwoEpsneg_ok, runChain_nil]
    unfold ValidEpsDelta classRange
    constructor
    · rintro ⟨⟨x, y, hb, hz⟩, ⟨x', hx', hl⟩, _⟩
      have hxx : x = x' := Option.some.inj (hb.1.symm.trans hx')
      subst hxx
      exact ⟨x, y, hb.1, hb.2.1, hb.2.2.1, hb.2.2.2.1, hb.2.2.2.2, hz, (le_twoEps_false_iff hb.2.2.1).mp hl⟩
    · rintro ⟨x, y, hx, hy, nx, ny, hz, hp, hg⟩
      exact ⟨⟨x, y, ⟨hx, hy, nx, ny, hz⟩, hp⟩, ⟨x, hx, (le_twoEps_false_iff nx).mpr hg⟩, rfl⟩
  case Gaussian =>
    show runChain env (_ :: _ :: baseEpsDelta) = .ok () ↔ _
    rw [runChain_cons_ok, runChain_cons_ok, eq0Either_ok, realAndGt1_ok, baseEpsDelta_ok]
    unfold ValidEpsDelta classRange
    constructor
    · rintro ⟨hz, hg, x, y, hb⟩
      have h := (zeroEither hb).mp hz
      exact ⟨x, y, hb.1, hb.2.1, hb.2.2.1, hb.2.2.2.1, hb.2.2.2.2, h.1, h.2,
        (lt_one_false_iff hb.2.2.1).mp (hg x hb.1)⟩
    · rintro ⟨x, y, hx, hy, nx, ny, hz, h1, h2, h3⟩
      have hb : BaseED env x y := ⟨hx, hy, nx, ny, hz⟩
      refine ⟨(zeroEither hb).mpr ⟨h1, h2⟩, ?_, x, y, hb⟩
      intro x' hx'; rw [hx] at hx'; cases hx'; exact (lt_one_false_iff nx).mpr h3
  case GaussianAnalytic =>
    show runChain env (_ :: baseEpsDelta) = .ok () ↔ _
    rw [runChain_cons_ok, eq0Either_ok, baseEpsDelta_ok]
    unfold ValidEpsDelta classRange
    constructor
    · rintro ⟨hz, x, y, hb⟩
      have h := (zeroEither hb).mp hz
      exact ⟨x, y, hb.1, hb.2.1, hb.2.2.1, hb.2.2.2.1, hb.2.2.2.2, h.1, h.2⟩
    · rintro ⟨x, y, hx, hy, nx, ny, hz, h1, h2⟩
      have hb : BaseED env x y := ⟨hx, hy, nx, ny, hz⟩
      exact ⟨(zeroEither hb).mpr ⟨h1, h2⟩, x, y, hb⟩
  case GaussianDiscrete =>
    show runChain env (_ :: baseEpsDelta) = .ok () ↔ _
    rw [runChain_cons_ok, eq0Either_ok, baseEpsDelta_ok]
    unfold ValidEpsDelta classRange
    constructor
    · rintro ⟨hz, x, y, hb⟩
      have h := (zeroEither hb).mp hz
      exact ⟨x, y, hb.1, hb.2.1, hb.2.2.1, hb.2.2.2.1, hb.2.2.2.2, h.1, h.2⟩
    · rintro ⟨x, y, hx, hy, nx, ny, hz, h1, h2⟩
      have hb : BaseED env x y := ⟨hx, hy, nx, ny, hz⟩
      exact ⟨(zeroEither hb).mpr ⟨h1, h2⟩, x, y, hb⟩
  case LaplaceBoundedNoise =>
    show runChain env (_ :: _ :: baseEpsDelta) = .ok () ↔ _
    rw [runChain_cons_ok, runChain_cons_ok, eq0_ok, realAndNotIn0Half_ok, baseEpsDelta_ok]
    unfold ValidEpsDelta classRange
    constructor
    · rintro ⟨hz, hh, x, y, hb⟩
      exact ⟨x, y, hb.1, hb.2.1, hb.2.2.1, hb.2.2.2.1, hb.2.2.2.2, fun h => hz ⟨x, hb.1, h⟩, hh y hb.2.1⟩
    · rintro ⟨x, y, hx, hy, nx, ny, hz, h1, h2⟩
      refine ⟨?_, ?_, x, y, hx, hy, nx, ny, hz⟩
      · rintro ⟨x', hx', hz'⟩; rw [hx] at hx'; cases hx'; exact h1 hz'
      · intro y' hy'; rw [hy] at hy'; cases hy'; exact h2
  case Uniform =>
    show runChain env (_ :: _ :: baseEpsDelta) = .ok () ↔ _
    rw [runChain_cons_ok, runChain_cons_ok, notEq0_ok, notIn0HalfClosed_ok, baseEpsDelta_ok]
    unfold ValidEpsDelta classRange
    constructor
    · rintro ⟨⟨x', hx', hz'⟩, ⟨y', hy', hp⟩, x, y, hb⟩
      have h1 := hb.1; rw [hx'] at h1; cases h1
      have h2 := hb.2.1; rw [hy'] at h2; cases h2
      exact ⟨x', y', hb.1, hb.2.1, hb.2.2.1, hb.2.2.2.1, hb.2.2.2.2, hz', hp⟩
    · rintro ⟨x, y, hx, hy, nx, ny, hz, h1, h2⟩
      exact ⟨⟨x, hx, h1⟩, ⟨y, hy, h2⟩, x, y, hx, hy, nx, ny, hz⟩


/-! ### sensitivity, bounds, the other numeric parameters, structured parameters -/

theorem realSens_ok (env : Env) : runChain env realSens = .ok () ↔ realNonneg (env.v .sensitivity) := by
  unfold realSens realNonneg
  simp only [runChain_cons_ok, notReal_ok, notGe0_ok, runChain_nil, and_true]
  constructor
  · rintro ⟨-, h⟩; exact h
  · rintro ⟨x, hx, nx⟩; exact ⟨⟨x, hx⟩, x, hx, nx⟩

theorem intSens_ok (env : Env) :
    runChain env intSens = .ok () ↔ (env.v .sensitivity).isIntegral = true ∧ realNonneg (env.v .sensitivity) := by
  unfold intSens realNonneg
  simp only [runChain_cons_ok, notIntegral_ok, notGe0_ok, runChain_nil, and_true]

theorem sens_ok_iff (m : Mech) (env : Env) :
    runChain env (chainOf m .sensitivity) = .ok () ↔ ValidSens m env := by
  cases m <;> first
    | exact realSens_ok env
    | exact intSens_ok env
    | (show runChain env [] = .ok () ↔ True; simp)
    | skip
  -- Vector
  show runChain env [_, _, _] = .ok () ↔ realNonneg _ ∧ realNonneg _
  unfold realNonneg
  simp only [runChain_cons_ok, notRealEither_ok, notGe0_ok, runChain_nil, and_true]
  constructor
  · rintro ⟨-, h1, h2⟩; exact ⟨h1, h2⟩
  · rintro ⟨⟨x, hx, nx⟩, ⟨y, hy, ny⟩⟩; exact ⟨⟨x, y, hx, hy⟩, ⟨x, hx, nx⟩, ⟨y, hy, ny⟩⟩

theorem lt_false_iff_not_gt (l u : Ext) : Ext.lt u l = false ↔ ¬ l.Gt u := by
  cases l <;> cases u <;> simp [Ext.lt, Ext.Gt]

theorem gt_ok {env : Env} {a b : Var} :
    (Pred.gt a b).eval env = .ok false ↔
      ∃ x y, (env.v a).real? = some x ∧ (env.v b).real? = some y ∧ ¬ x.Gt y := by
  simp only [Pred.eval, needReal, bind, Except.bind, pure, Except.pure]
  cases (env.v a).real? <;> cases (env.v b).real? <;> simp [lt_false_iff_not_gt]

theorem baseBounds_ok (env : Env) : runChain env baseBounds = .ok () ↔ baseBoundsOk env := by
  unfold baseBounds baseBoundsOk
  simp only [runChain_cons_ok, notRealEither_ok, gt_ok, runChain_nil, and_true]
  constructor
  · rintro ⟨-, h⟩; exact h
  · rintro ⟨l, u, hl, hu, h⟩; exact ⟨⟨l, u, hl, hu⟩, l, u, hl, hu, h⟩

theorem notIntegralNotInf_ok {env : Env} {a : Var} :
    (Pred.notIntegralNotInf a).eval env = .ok false ↔ integralOrInf (env.v a) := by
  unfold integralOrInf
  simp only [Pred.eval]
  by_cases hi : (env.v a).isIntegral = true
  · simp [hi]
  · simp only [hi, Bool.false_eq_true, ↓reduceIte, needReal_map_ok, Bool.not_eq_false', false_or]

theorem halfIntView_real {v : PyVal} {x : Ext} (h : v.real? = some x) : halfIntView v = .ok (halfIntClose x) := by
  cases v <;> simp_all [halfIntView, needReal, PyVal.real?, Except.map]

theorem notHalfIntEither_ok {env : Env} {a b : Var} :
    (Pred.notHalfIntEither a b).eval env = .ok false ↔
      halfIntView (env.v a) = .ok true ∧ halfIntView (env.v b) = .ok true := by
  simp only [Pred.eval, bind, Except.bind, pure, Except.pure]
  cases halfIntView (env.v a) with
  | error e => simp
  | ok x =>
    cases x with
    | false => simp
    | true => cases halfIntView (env.v b) with
      | error e => simp
      | ok y => cases y <;> simp

theorem notFiniteDiff_ok {env : Env} {a b : Var} :
    (Pred.notFiniteDiff a b).eval env = .ok false ↔
      ∃ x y, (env.v a).real? = some x ∧ (env.v b).real? = some y ∧ x.isFin = true ∧ y.isFin = true := by
  simp only [Pred.eval, needReal, bind, Except.bind, pure, Except.pure]
  cases (env.v a).real? <;> cases (env.v b).real? <;> simp

theorem bounds_ok_iff (m : Mech) (env : Env) :
    runChain env (chainOf m .bounds) = .ok () ↔ ValidBounds m env := by
  cases m <;> first
    | exact baseBounds_ok env
    | (show runChain env [] = .ok () ↔ True; simp)
    | skip
  · -- GeometricTruncated
    show runChain env (_ :: _ :: baseBounds) = .ok () ↔ _ ∧ _ ∧ _
    rw [runChain_cons_ok, runChain_cons_ok, notIntegralNotInf_ok, notIntegralNotInf_ok, baseBounds_ok]
  · -- GeometricFolded
    show runChain env (_ :: baseBounds) = .ok () ↔ _ ∧ _
    rw [runChain_cons_ok, notHalfIntEither_ok, baseBounds_ok]
    constructor
    · rintro ⟨⟨h1, h2⟩, l, u, hl, hu, hn⟩
      rw [halfIntView_real hl] at h1; rw [halfIntView_real hu] at h2
      exact ⟨⟨l, u, hl, hu, by simpa using h1, by simpa using h2⟩, l, u, hl, hu, hn⟩
    · rintro ⟨⟨l, u, hl, hu, c1, c2⟩, hb⟩
      exact ⟨⟨by rw [halfIntView_real hl, c1], by rw [halfIntView_real hu, c2]⟩, hb⟩
  · -- Snapping
    show runChain env (baseBounds ++ [_]) = .ok () ↔ _ ∧ _
    rw [runChain_append_ok, runChain_cons_ok, notFiniteDiff_ok, baseBounds_ok, runChain_nil]
    constructor
    · rintro ⟨h, ⟨u, l, hu, hl, fu, fl⟩, _⟩; exact ⟨h, l, u, hl, hu, fl, fu⟩
    · rintro ⟨h, l, u, hl, hu, fl, fu⟩; exact ⟨h, ⟨u, l, hu, hl, fu, fl⟩, rfl⟩

theorem le_zero_false_iff (a : Ext) : Ext.le a .zero = false ↔ ¬ a.Nonpos := by
  cases a <;> simp [Ext.le, Ext.zero, Ext.Nonpos]

theorem le0_ok {env : Env} {a : Var} :
    (Pred.le0 a).eval env = .ok false ↔ ∃ x, (env.v a).real? = some x ∧ ¬ x.Nonpos := by
  simp only [Pred.eval, needReal_map_ok, le_zero_false_iff]

theorem dimNotInt_ok {env : Env} {a : Var} :
    (Pred.dimNotInt a).eval env = .ok false ↔
      ∃ q, (env.v a).real? = some (.fin q) ∧ isclose q (truncInt q) = true := by
  simp only [Pred.eval]
  cases (env.v a).real? with
  | none => simp
  | some x => cases x <;> simp

theorem dimLt1_ok {env : Env} {a : Var} :
    (Pred.dimLt1 a).eval env = .ok false ↔ ∃ q, (env.v a).real? = some (.fin q) ∧ 1 ≤ truncInt q := by
  simp only [Pred.eval]
  cases (env.v a).real? with
  | none => simp
  | some x => cases x <;> simp

/-- gamma, alpha, dimension -/
theorem other_ok_iff (m : Mech) (env : Env) :
    (runChain env (chainOf m .gamma) = .ok () ∧ runChain env (chainOf m .alpha) = .ok () ∧
      runChain env (chainOf m .dimension) = .ok ()) ↔ ValidOther m env := by
  cases m <;> first
    | (show (runChain env [] = .ok () ∧ runChain env [] = .ok () ∧ runChain env [] = .ok ()) ↔ True; simp)
    | skip
  · -- Staircase
    show (runChain env [_, _] = .ok () ∧ runChain env [] = .ok () ∧ runChain env [] = .ok ()) ↔ _
    simp only [runChain_cons_ok, notReal_ok, notIn01_ok, runChain_nil, and_true, ValidOther]
    constructor
    · rintro ⟨-, h⟩; exact h
    · rintro ⟨g, hg, ng⟩; exact ⟨⟨g, hg⟩, g, hg, ng⟩
  · -- Vector
    show (runChain env [] = .ok () ∧ runChain env [_, _] = .ok () ∧ runChain env [_, _] = .ok ()) ↔ _
    simp only [runChain_cons_ok, notReal_ok, le0_ok, dimNotInt_ok, dimLt1_ok, runChain_nil, and_true, true_and,
      ValidOther]
    constructor
    · rintro ⟨⟨-, ha⟩, ⟨q, hq, hc⟩, ⟨q', hq', ht⟩⟩
      rw [hq] at hq'; cases hq'
      exact ⟨ha, q, hq, hc, ht⟩
    · rintro ⟨⟨a, ha, na⟩, q, hq, hc, ht⟩
      exact ⟨⟨⟨a, ha⟩, a, ha, na⟩, ⟨q, hq, hc⟩, ⟨q, hq, ht⟩⟩

/-- labels, utility / candidates / measure -/
theorem structured_ok_iff (m : Mech) (env : Env) :
    (runChain env (chainOf m .labels) = .ok () ∧ runChain env (chainOf m .utility) = .ok ()) ↔
      ValidStructured m env := by
  cases m <;> first
    | (show (runChain env [] = .ok () ∧ runChain env [] = .ok ()) ↔ True; simp)
    | skip
  · show (runChain env [_, _, _] = .ok () ∧ runChain env [] = .ok ()) ↔ _
    simp only [runChain_cons_ok, flag_ok, runChain_nil, and_true, ValidStructured]
  · show (runChain env [] = .ok () ∧ runChain env [_, _, _, _, _, _, _, _, _, _, _] = .ok ()) ↔ _
    simp only [runChain_cons_ok, flag_ok, runChain_nil, and_true, true_and, ValidStructured]
  · show (runChain env [] = .ok () ∧ runChain env [_, _, _, _, _, _, _, _, _, _, _] = .ok ()) ↔ _
    simp only [runChain_cons_ok, flag_ok, runChain_nil, and_true, true_and, ValidStructured]

end DPL.Val
