/-
C01 helper lemmas: Binary (law and ratio), the inverse-CDF selection of `Exponential.randomise`, and the
exponential-mechanism ratio bound on the model's weight lists (with base measure; non-monotonic and monotonic).
-/
import DPL.Proofs.DiscreteBasic
import Mathlib.MeasureTheory.Measure.Lebesgue.Basic
import Mathlib.Analysis.SpecialFunctions.Exp
import Mathlib.Tactic.Positivity
import Mathlib.Tactic.FieldSimp
import Mathlib.Tactic.GCongr

namespace DPL.Discrete
open MeasureTheory Set

/-! ### Binary -/

theorem binary_thr_lt_one (eps : ℝ) : Real.exp eps / (Real.exp eps + 1) < 1 := by
  have h := Real.exp_pos eps
  rw [div_lt_one (by linarith)]; linarith

theorem binary_thr_pos (eps : ℝ) : 0 < Real.exp eps / (Real.exp eps + 1) := by
  have h := Real.exp_pos eps
  positivity

theorem binary_flip_iff (eps : ℝ) (ind : Bool) (u : ℝ) :
    binaryRandomise eps 0 ind u = !ind ↔ Real.exp eps / (Real.exp eps + 1) < u := by
  have h := Real.exp_pos eps
  have h1 : (0:ℝ) < Real.exp eps + 1 := by linarith
  unfold binaryRandomise
  simp only [transc_exp, add_zero]
  rw [div_lt_iff₀ h1]
  by_cases hc : Real.exp eps < u * (Real.exp eps + 1)
  · simp [hc]
  · simp [hc]

theorem binary_flip_set (eps : ℝ) (ind : Bool) :
    {u : ℝ | u ∈ Ico (0:ℝ) 1 ∧ binaryRandomise eps 0 ind u = !ind} = Ioo (Real.exp eps / (Real.exp eps + 1)) 1 := by
  ext u
  simp only [mem_ofPred_eq, mem_Ico, mem_Ioo, binary_flip_iff]
  constructor
  · rintro ⟨⟨_, h1⟩, h2⟩; exact ⟨h2, h1⟩
  · rintro ⟨h1, h2⟩; exact ⟨⟨le_trans (binary_thr_pos eps).le h1.le, h2⟩, h1⟩

theorem binary_keep_set (eps : ℝ) (ind : Bool) :
    {u : ℝ | u ∈ Ico (0:ℝ) 1 ∧ binaryRandomise eps 0 ind u = ind} = Icc 0 (Real.exp eps / (Real.exp eps + 1)) := by
  ext u
  have hk : binaryRandomise eps 0 ind u = ind ↔ ¬ (binaryRandomise eps 0 ind u = !ind) := by
    cases h : binaryRandomise eps 0 ind u <;> cases ind <;> simp
  simp only [mem_ofPred_eq, mem_Ico, mem_Icc, hk, binary_flip_iff, not_lt]
  constructor
  · rintro ⟨⟨h0, _⟩, h2⟩; exact ⟨h0, h2⟩
  · rintro ⟨h0, h2⟩; exact ⟨⟨h0, lt_of_le_of_lt h2 (binary_thr_lt_one eps)⟩, h2⟩

theorem binary_flip_volume (eps : ℝ) (ind : Bool) :
    volume {u : ℝ | u ∈ Ico (0:ℝ) 1 ∧ binaryRandomise eps 0 ind u = !ind} = ENNReal.ofReal (binaryFlipProb eps) := by
  rw [binary_flip_set, Real.volume_Ioo]
  congr 1
  have h := Real.exp_pos eps
  unfold binaryFlipProb
  simp only [transc_exp]
  field_simp
  ring

theorem binary_keep_volume (eps : ℝ) (ind : Bool) :
    volume {u : ℝ | u ∈ Ico (0:ℝ) 1 ∧ binaryRandomise eps 0 ind u = ind}
      = ENNReal.ofReal (Real.exp eps * binaryFlipProb eps) := by
  rw [binary_keep_set, Real.volume_Icc]
  congr 1
  unfold binaryFlipProb
  simp only [transc_exp]
  ring

theorem binaryFlipProb_pos (eps : ℝ) : 0 < binaryFlipProb eps := by
  unfold binaryFlipProb; simp only [transc_exp]; have := Real.exp_pos eps; positivity

/-- ratio bound for every pair of inputs and every output -/
theorem binary_ratio (eps : ℝ) (heps : 0 ≤ eps) (ind ind' o : Bool) :
    volume {u : ℝ | u ∈ Ico (0:ℝ) 1 ∧ binaryRandomise eps 0 ind u = o}
      ≤ ENNReal.ofReal (Real.exp eps) * volume {u : ℝ | u ∈ Ico (0:ℝ) 1 ∧ binaryRandomise eps 0 ind' u = o} := by
  have hp := binaryFlipProb_pos eps
  have he : 1 ≤ Real.exp eps := Real.one_le_exp heps
  have hvol : ∀ (i o : Bool), volume {u : ℝ | u ∈ Ico (0:ℝ) 1 ∧ binaryRandomise eps 0 i u = o}
      = ENNReal.ofReal (if o = i then Real.exp eps * binaryFlipProb eps else binaryFlipProb eps) := by
    intro i o
    by_cases h : o = i
    · subst h; rw [if_pos rfl]; exact binary_keep_volume eps o
    · have : o = !i := by cases o <;> cases i <;> simp_all
      subst this; rw [if_neg h]; exact binary_flip_volume eps i
  rw [hvol, hvol, ← ENNReal.ofReal_mul (by positivity)]
  apply ENNReal.ofReal_le_ofReal
  split_ifs
  · nlinarith [mul_pos (Real.exp_pos eps) hp]
  · exact le_refl _
  · nlinarith [mul_pos (Real.exp_pos eps) hp, mul_pos (mul_pos (Real.exp_pos eps) (Real.exp_pos eps)) hp]
  · nlinarith

/-! ### Exponential mechanism on the model's weight lists -/

theorem length_ne_nil {us us' : List ℝ} (hlen : us.length = us'.length) (hne : us ≠ []) : us' ≠ [] := by
  intro h; apply hne; apply List.eq_nil_of_length_eq_zero; rw [hlen, h]; rfl


theorem zipMul_eq (w m : List ℝ) : zipMul w m = List.zipWith (· * ·) w m := by
  induction w generalizing m with
  | nil => cases m <;> simp [zipMul]
  | cons x xs ih => cases m with
    | nil => simp [zipMul]
    | cons y ys => simp [zipMul, ih]

theorem sum_le_mul_sum (v v' : List ℝ) (b : ℝ) (h : List.Forall₂ (fun x y => y ≤ b * x) v v') :
    v'.sum ≤ b * v.sum := by
  induction h with
  | nil => simp
  | cons hxy _ ih => simp only [List.sum_cons, mul_add]; linarith

theorem normalise_getD (w : List ℝ) (i : ℕ) :
    (normalise w).getD i 0 = if h : i < w.length then w[i] / w.sum else 0 := by
  unfold normalise
  simp only [lsum_eq]
  by_cases h : i < w.length
  · simp [h, List.getD_eq_getElem?_getD]
  · simp [h, List.getD_eq_getElem?_getD, List.getElem?_eq_none (not_lt.mp h)]

/-- if the un-normalised weights satisfy `v ≤ a·v'` and `v' ≤ b·v` entrywise, the normalised laws satisfy
`p ≤ a·b·p'` -/
theorem normalise_ratio (v v' : List ℝ) (a b : ℝ) (ha : 0 ≤ a) (hb : 0 ≤ b) (hlen : v.length = v'.length)
    (h : ∀ i (h1 : i < v.length) (h2 : i < v'.length), 0 ≤ v'[i] ∧ v[i] ≤ a * v'[i] ∧ v'[i] ≤ b * v[i])
    (hZ : 0 < v.sum) (hZ' : 0 < v'.sum) (i : ℕ) :
    (normalise v).getD i 0 ≤ a * b * (normalise v').getD i 0 := by
  rw [normalise_getD, normalise_getD]
  by_cases hi : i < v.length
  · have hi' : i < v'.length := hlen ▸ hi
    simp only [hi, hi', dite_true]
    obtain ⟨h0, h1, _⟩ := h i hi hi'
    have hsum : v'.sum ≤ b * v.sum := by
      apply sum_le_mul_sum
      rw [List.forall₂_iff_get]
      exact ⟨hlen, fun j hj hj' => by simpa using (h j hj hj').2.2⟩
    rw [div_le_iff₀ hZ]
    calc v[i] ≤ a * v'[i] := h1
      _ = a * (v'[i] / v'.sum) * v'.sum := by field_simp
      _ ≤ a * (v'[i] / v'.sum) * (b * v.sum) := by
          apply mul_le_mul_of_nonneg_left hsum
          exact mul_nonneg ha (div_nonneg h0 hZ'.le)
      _ = a * b * (v'[i] / v'.sum) * v.sum := by ring
  · have hi' : ¬ i < v'.length := hlen ▸ hi
    simp [hi, hi']

/-- the measure factor the code applies: `1` when no measure is given -/
noncomputable def measAt (ms : List ℝ) (i : ℕ) : ℝ := if ms = [] then 1 else ms.getD i 0

theorem expWeights_length (s tol : ℝ) (us ms : List ℝ) (hms : ms = [] ∨ ms.length = us.length) :
    (expWeights (some s) tol us ms).length = us.length := by
  unfold expWeights
  rcases hms with rfl | h
  · simp
  · cases ms with
    | nil => simp
    | cons m ms' => simp [zipMul_eq, h]

theorem expWeights_getElem (s tol : ℝ) (us ms : List ℝ) (hms : ms = [] ∨ ms.length = us.length) (i : ℕ)
    (hi : i < us.length) (hi' : i < (expWeights (some s) tol us ms).length) :
    (expWeights (some s) tol us ms)[i] = Real.exp (s * (us[i] - pyMax us)) * measAt ms i := by
  unfold expWeights measAt at *
  rcases hms with rfl | h
  · simp
  · cases ms with
    | nil => simp
    | cons m ms' =>
      have hi2 : i < (m :: ms').length := h ▸ hi
      simp [zipMul_eq, List.getD_eq_getElem?_getD, List.getElem?_eq_getElem hi2]

theorem measAt_nonneg (ms : List ℝ) (hm0 : ∀ m ∈ ms, 0 ≤ m) (i : ℕ) : 0 ≤ measAt ms i := by
  unfold measAt
  split
  · exact zero_le_one
  · rw [List.getD_eq_getElem?_getD]
    cases h : ms[i]? with
    | none => simp
    | some x => simp; exact hm0 x (List.mem_of_getElem? h)

/-- core of the exponential-mechanism guarantee on the model's own lists: if every utility moves by an amount in
`[lo, hi]` and `scale·(hi - lo) ≤ eps`, every selection probability changes by a factor at most `e^eps`.
(The shift by `max(utility)` that the code applies moves by an amount in `[lo, hi]` as well and cancels.) -/
theorem exp_dp_core (scale lo hi eps tol : ℝ) (hs : 0 ≤ scale) (hse : scale * (hi - lo) ≤ eps)
    (us us' ms : List ℝ) (hlen : us.length = us'.length) (hne : us ≠ [])
    (hms : ms = [] ∨ ms.length = us.length) (hm0 : ∀ m ∈ ms, 0 ≤ m)
    (h : ∀ i (h1 : i < us.length) (h2 : i < us'.length), lo ≤ us'[i] - us[i] ∧ us'[i] - us[i] ≤ hi)
    (hZ : 0 < (expWeights (some scale) tol us ms).sum) (hZ' : 0 < (expWeights (some scale) tol us' ms).sum) (i : ℕ) :
    (normalise (expWeights (some scale) tol us' ms)).getD i 0
      ≤ Real.exp eps * (normalise (expWeights (some scale) tol us ms)).getD i 0 := by
  have hms' : ms = [] ∨ ms.length = us'.length := by rw [← hlen]; exact hms
  obtain ⟨hlo, hhi⟩ := pyMax_shift us us' hlen hne lo hi h
  set a := pyMax us' - pyMax us with ha
  have hL := expWeights_length scale tol us ms hms
  have hL' := expWeights_length scale tol us' ms hms'
  have key := normalise_ratio (expWeights (some scale) tol us' ms) (expWeights (some scale) tol us ms)
    (Real.exp (scale * (hi - a))) (Real.exp (scale * (a - lo))) (Real.exp_pos _).le (Real.exp_pos _).le
    (by rw [hL, hL', hlen]) ?_ hZ' hZ i
  · refine le_trans key ?_
    have hnn : 0 ≤ (normalise (expWeights (some scale) tol us ms)).getD i 0 := by
      rw [normalise_getD]
      split
      · rename_i hi
        apply div_nonneg _ hZ.le
        rw [expWeights_getElem scale tol us ms hms i (hL ▸ hi) hi]
        exact mul_nonneg (Real.exp_pos _).le (measAt_nonneg ms hm0 i)
      · exact le_refl _
    apply mul_le_mul_of_nonneg_right _ hnn
    rw [← Real.exp_add]
    apply Real.exp_le_exp.mpr
    have : scale * (hi - a) + scale * (a - lo) = scale * (hi - lo) := by ring
    linarith
  · intro j h1 h2
    have hj : j < us.length := hL ▸ h2
    have hj' : j < us'.length := hL' ▸ h1
    rw [expWeights_getElem scale tol us' ms hms' j hj' h1, expWeights_getElem scale tol us ms hms j hj h2]
    have hm := measAt_nonneg ms hm0 j
    obtain ⟨hd1, hd2⟩ := h j hj hj'
    refine ⟨mul_nonneg (Real.exp_pos _).le hm, ?_, ?_⟩
    · rw [← mul_assoc, ← Real.exp_add]
      apply mul_le_mul_of_nonneg_right _ hm
      apply Real.exp_le_exp.mpr
      have : scale * (us'[j] - pyMax us') ≤ scale * (hi - a) + scale * (us[j] - pyMax us) := by
        rw [← mul_add]; apply mul_le_mul_of_nonneg_left _ hs; linarith
      exact this
    · rw [← mul_assoc, ← Real.exp_add]
      apply mul_le_mul_of_nonneg_right _ hm
      apply Real.exp_le_exp.mpr
      have : scale * (us[j] - pyMax us) ≤ scale * (a - lo) + scale * (us'[j] - pyMax us') := by
        rw [← mul_add]; apply mul_le_mul_of_nonneg_left _ hs; linarith
      exact this

/-- a non-negative measure with a positive entry (or no measure at all) gives a positive normaliser -/
theorem expWeights_sum_pos (s tol : ℝ) (us ms : List ℝ) (hne : us ≠ []) (hms : ms = [] ∨ ms.length = us.length)
    (hm0 : ∀ m ∈ ms, 0 ≤ m) (hpos : ms = [] ∨ ∃ m ∈ ms, 0 < m) :
    0 < (expWeights (some s) tol us ms).sum := by
  have hL := expWeights_length s tol us ms hms
  have hnn : ∀ x ∈ expWeights (some s) tol us ms, 0 ≤ x := by
    intro x hx
    obtain ⟨i, hi, rfl⟩ := List.getElem_of_mem hx
    rw [expWeights_getElem s tol us ms hms i (hL ▸ hi) hi]
    exact mul_nonneg (Real.exp_pos _).le (measAt_nonneg ms hm0 i)
  have hex : ∃ x ∈ expWeights (some s) tol us ms, 0 < x := by
    rcases hpos with rfl | ⟨m, hm, hmp⟩
    · have h0 : 0 < us.length := List.length_pos_iff.mpr hne
      refine ⟨(expWeights (some s) tol us [])[0]'(hL ▸ h0), List.getElem_mem _, ?_⟩
      rw [expWeights_getElem s tol us [] hms 0 h0]
      simp [measAt, Real.exp_pos]
    · obtain ⟨i, hi, rfl⟩ := List.getElem_of_mem hm
      have hms2 : ms.length = us.length := by
        rcases hms with rfl | h
        · simp at hi
        · exact h
      have hiu : i < us.length := hms2 ▸ hi
      refine ⟨(expWeights (some s) tol us ms)[i]'(hL ▸ hiu), List.getElem_mem _, ?_⟩
      rw [expWeights_getElem s tol us ms hms i hiu]
      apply mul_pos (Real.exp_pos _)
      have hne' : ms ≠ [] := by rintro rfl; simp at hi
      simp [measAt, hne', List.getD_eq_getElem?_getD, List.getElem?_eq_getElem hi, hmp]
  obtain ⟨x, hx, hxp⟩ := hex
  exact lt_of_lt_of_le hxp (List.single_le_sum hnn x hx)

/-- normalisation cancels a common factor -/
theorem normalise_scale (w : List ℝ) (k : ℝ) (hk : k ≠ 0) : normalise (w.map (· * k)) = normalise w := by
  unfold normalise
  simp only [lsum_eq, List.map_map]
  have hs : (w.map (· * k)).sum = w.sum * k := by
    induction w with
    | nil => simp
    | cons x xs ih => simp only [List.map_cons, List.sum_cons, ih]; ring
  rw [hs]
  apply List.map_congr_left
  intro x _
  simp only [Function.comp]
  by_cases hz : w.sum = 0
  · simp [hz]
  · field_simp

/-- the subtraction of `max(utility)` that the code performs before exponentiating (to avoid overflow) cancels in the
normalisation: shifting every utility by any constant `c` leaves the selection law unchanged -/
theorem exp_shift_cancels (s c : ℝ) (us : List ℝ) :
    normalise (us.map (fun x => Real.exp (s * (x - c)))) = normalise (us.map (fun x => Real.exp (s * x))) := by
  have : us.map (fun x => Real.exp (s * (x - c))) = (us.map (fun x => Real.exp (s * x))).map (· * Real.exp (-(s * c))) := by
    rw [List.map_map]
    apply List.map_congr_left
    intro x _
    simp only [Function.comp]
    rw [← Real.exp_add]; congr 1; ring
  rw [this, normalise_scale _ _ (Real.exp_pos _).ne']

end DPL.Discrete
