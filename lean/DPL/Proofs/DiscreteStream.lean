/-
C01: the multi-uniform samplers as functions of the i.i.d. uniform STREAM `rng.random(), rng.random(), …`.

* `unif01` — the law of one `random()` draw (Lebesgue measure on [0,1); the same definition as `Smp.unif01` of C03);
  `streamμ = Measure.infinitePi (fun _ => unif01)` — the law of the stream.
* a model sampler is a function `f : List ℝ → Except DErr (β × List ℝ)` of a finite prefix of the stream that returns
  its result together with the unread rest (`.error .exhausted` when the prefix was too short).  `Ret f b` is the
  event "on some (hence every longer) prefix of the stream `f` returns `b`".
* `bind_law` — sequential composition under the product measure: if the paths of `f` are countably many disjoint
  BOXES (each consumed uniform is tested against a set fixed by the path: `spec`), then for every continuation `K`
  `P[(f >>= K) returns c] = Σ_paths (Π_i unif01 (box_i)) · P[K (out path) returns c]`.
  The independence of what was consumed from what follows is `box_inter_shift`, a statement about
  `Measure.infinitePi` proved from its uniqueness (`Measure.eq_infinitePi`): no Bernoulli-branch modelling step.
-/
import DPL.Proofs.DiscreteBasic
import Mathlib.Probability.ProductMeasure
import Mathlib.MeasureTheory.Measure.Lebesgue.Basic
import Mathlib.Topology.Algebra.InfiniteSum.ENNReal

namespace DPL.Discrete
open MeasureTheory Set
open scoped ENNReal

/-- the law of one `random()` draw: Lebesgue measure on [0,1) -/
noncomputable def unif01 : Measure ℝ := volume.restrict (Ico 0 1)

instance : IsProbabilityMeasure unif01 := ⟨by simp [unif01]⟩

/-- `unif01 A` is the Lebesgue measure of the uniforms of [0,1) that lie in `A` (no measurability needed) -/
theorem unif01_apply (A : Set ℝ) : unif01 A = volume {u : ℝ | u ∈ Ico (0:ℝ) 1 ∧ u ∈ A} := by
  rw [unif01, Measure.restrict_apply' measurableSet_Ico]
  congr 1; ext u; simp only [mem_inter_iff, mem_ofPred_eq]; exact and_comm

/-- the law of the stream of draws -/
noncomputable def streamμ : Measure (ℕ → ℝ) := Measure.infinitePi (fun _ : ℕ => unif01)

instance : IsProbabilityMeasure streamμ := by unfold streamμ; infer_instance

/-! ### independence of a consumed prefix from the rest of the stream -/

section generic
variable {X : Type*} [MeasurableSpace X]

theorem measurable_shiftX (k : ℕ) : Measurable (fun (ω : ℕ → X) (n : ℕ) => ω (n + k)) :=
  measurable_pi_lambda _ (fun _ => measurable_pi_apply _)

/-- under an i.i.d. product measure a box on the first `k` coordinates is independent of any event of the stream
shifted by `k`, and the shifted stream has the same law -/
theorem box_inter_shift (P : Measure X) [IsProbabilityMeasure P] (k : ℕ) (a : ℕ → Set X)
    (ha : ∀ i, MeasurableSet (a i)) (E : Set (ℕ → X)) (hE : MeasurableSet E) :
    Measure.infinitePi (fun _ : ℕ => P) (Set.pi (Finset.range k : Set ℕ) a ∩ (fun ω n => ω (n + k)) ⁻¹' E)
      = Measure.infinitePi (fun _ : ℕ => P) (Set.pi (Finset.range k : Set ℕ) a)
        * Measure.infinitePi (fun _ : ℕ => P) E := by
  set μ := Measure.infinitePi (fun _ : ℕ => P) with hμ
  set A := Set.pi (Finset.range k : Set ℕ) a with hAdef
  have hA : MeasurableSet A := MeasurableSet.pi (Finset.countable_toSet _) (fun i _ => ha i)
  have hsh := measurable_shiftX (X := X) k
  by_cases h0 : μ A = 0
  · rw [h0, zero_mul]; exact measure_mono_null inter_subset_left h0
  have hfin : μ A ≠ ⊤ := measure_ne_top _ _
  have key : (μ A)⁻¹ • ((μ.restrict A).map (fun ω n => ω (n + k))) = μ := by
    apply Measure.eq_infinitePi
    intro s t ht
    have hbox : MeasurableSet (Set.pi (s : Set ℕ) t) := MeasurableSet.pi (Finset.countable_toSet _) (fun i _ => ht i)
    rw [Measure.smul_apply, Measure.map_apply hsh hbox, Measure.restrict_apply (hsh hbox), smul_eq_mul]
    have hset : (fun (ω : ℕ → X) n => ω (n + k)) ⁻¹' (Set.pi (s : Set ℕ) t) ∩ A
        = Set.pi ((Finset.range k ∪ s.map (addRightEmbedding k) : Finset ℕ) : Set ℕ)
            (fun i => if i < k then a i else t (i - k)) := by
      ext ω
      simp only [hAdef, mem_inter_iff, mem_preimage, Set.mem_pi, Finset.mem_coe, Finset.mem_range, Finset.mem_union,
        Finset.mem_map, addRightEmbedding_apply]
      constructor
      · rintro ⟨h1, h2⟩ i hi
        rcases hi with hi | ⟨j, hj, rfl⟩
        · simpa [hi] using h2 i hi
        · have : ¬ j + k < k := by omega
          show ω (j + k) ∈ (if j + k < k then a (j + k) else t (j + k - k))
          rw [if_neg this, Nat.add_sub_cancel]; exact h1 j hj
      · intro h
        refine ⟨fun j hj => ?_, fun i hi => ?_⟩
        · have := h (j + k) (Or.inr ⟨j, hj, rfl⟩)
          have hn : ¬ j + k < k := by omega
          rw [if_neg hn, Nat.add_sub_cancel] at this; exact this
        · have := h i (Or.inl hi)
          simpa [hi] using this
    have hdisj : Disjoint (Finset.range k) (s.map (addRightEmbedding k)) := by
      rw [Finset.disjoint_left]
      intro i hi hi'
      simp only [Finset.mem_map, addRightEmbedding_apply] at hi'
      obtain ⟨j, _, rfl⟩ := hi'
      simp at hi
    have hμA : μ A = ∏ i ∈ Finset.range k, P (a i) := by
      rw [hAdef, hμ, Measure.infinitePi_pi _ (fun i _ => ha i)]
    have hbig : μ (Set.pi ((Finset.range k ∪ s.map (addRightEmbedding k) : Finset ℕ) : Set ℕ)
          (fun i => if i < k then a i else t (i - k)))
        = (∏ i ∈ Finset.range k, P (a i)) * ∏ i ∈ s, P (t i) := by
      rw [hμ, Measure.infinitePi_pi _ (by
        intro i _
        split_ifs
        · exact ha i
        · exact ht _), Finset.prod_union hdisj, Finset.prod_map]
      congr 1
      · apply Finset.prod_congr rfl
        intro i hi
        simp [Finset.mem_range.mp hi]
      · apply Finset.prod_congr rfl
        intro i _
        have hn : ¬ i + k < k := by omega
        show P (if i + k < k then a (i + k) else t (i + k - k)) = P (t i)
        rw [if_neg hn, Nat.add_sub_cancel]
    rw [hset, hbig, ← hμA, ← mul_assoc, ENNReal.inv_mul_cancel h0 hfin, one_mul]
  have hE' : μ E = (μ A)⁻¹ * μ ((fun (ω : ℕ → X) n => ω (n + k)) ⁻¹' E ∩ A) := by
    conv_lhs => rw [← key]
    rw [Measure.smul_apply, Measure.map_apply hsh hE, Measure.restrict_apply (hsh hE), smul_eq_mul]
  rw [hE', ← mul_assoc, ENNReal.mul_inv_cancel h0 hfin, one_mul, inter_comm]

end generic

/-! ### samplers on a stream -/

/-- the first `N` draws, in the order drawn -/
def pre (ω : ℕ → ℝ) (N : ℕ) : List ℝ := (List.range N).map ω

/-- the stream after `k` draws -/
def shift (k : ℕ) (ω : ℕ → ℝ) : ℕ → ℝ := fun n => ω (n + k)

theorem measurable_shift (k : ℕ) : Measurable (shift k) := measurable_shiftX k

@[simp] theorem pre_length (ω : ℕ → ℝ) (N : ℕ) : (pre ω N).length = N := by simp [pre]

@[simp] theorem pre_getElem (ω : ℕ → ℝ) (N i : ℕ) (h : i < (pre ω N).length) : (pre ω N)[i] = ω i := by
  simp [pre]

theorem pre_drop (ω : ℕ → ℝ) (N k : ℕ) : (pre ω N).drop k = pre (shift k ω) (N - k) := by
  apply List.ext_getElem
  · simp
  · intro i h1 h2
    simp [pre, shift, List.getElem_drop, Nat.add_comm]

theorem pre_zero (ω : ℕ → ℝ) : pre ω 0 = [] := rfl

/-- "run on the stream, `f` returns `b`": on some finite prefix the model function returns `b` (and the unread rest) -/
def Ret {β : Type} (f : List ℝ → Except DErr (β × List ℝ)) (b : β) : Set (ℕ → ℝ) :=
  {ω | ∃ N rest, f (pre ω N) = .ok (b, rest)}

/-- sequential composition of stream samplers: the continuation reads the rest -/
def bindS {β γ : Type} (f : List ℝ → Except DErr (β × List ℝ)) (K : β → List ℝ → Except DErr (γ × List ℝ))
    (l : List ℝ) : Except DErr (γ × List ℝ) :=
  match f l with
  | .error e => .error e
  | .ok (b, rest) => K b rest

/-- returning without reading -/
def retS {β : Type} (b : β) (l : List ℝ) : Except DErr (β × List ℝ) := .ok (b, l)

theorem bindS_retS {β : Type} (f : List ℝ → Except DErr (β × List ℝ)) : bindS f retS = f := by
  funext l
  unfold bindS retS
  cases h : f l with
  | error e => rfl
  | ok p => rfl

theorem bindS_assoc {β γ δ : Type} (f : List ℝ → Except DErr (β × List ℝ))
    (g : β → List ℝ → Except DErr (γ × List ℝ)) (K : γ → List ℝ → Except DErr (δ × List ℝ)) :
    bindS (bindS f g) K = bindS f (fun b => bindS (g b) K) := by
  funext l
  unfold bindS
  cases h : f l with
  | error e => rfl
  | ok p => rfl

theorem Ret_retS {β : Type} [DecidableEq β] (b c : β) : Ret (retS b) c = if b = c then univ else ∅ := by
  ext ω
  by_cases h : b = c
  · subst h; simp only [Ret, retS, mem_ofPred_eq, if_true, mem_univ, iff_true]; exact ⟨0, _, rfl⟩
  · simp only [Ret, retS, mem_ofPred_eq, if_neg h, mem_empty_iff_false, iff_false]
    rintro ⟨N, rest, hr⟩
    injection hr with hr
    exact h (Prod.mk.inj hr).1

theorem Ret_error {β : Type} (e : DErr) (c : β) : Ret (fun _ => (.error e : Except DErr (β × List ℝ))) c = ∅ := by
  ext ω
  simp only [Ret, mem_ofPred_eq, mem_empty_iff_false, iff_false]
  rintro ⟨N, rest, hr⟩
  cases hr

/-- the paths of `f`: path `π` consumes `len π` uniforms, the `i`-th of which must lie in `box π i`, returns `out π`
and leaves the rest unread; nothing else returns -/
def BoxSpec {β ι : Type} (f : List ℝ → Except DErr (β × List ℝ)) (len : ι → ℕ) (out : ι → β)
    (box : ι → ℕ → Set ℝ) : Prop :=
  ∀ (l : List ℝ) (b : β) (rest : List ℝ), f l = .ok (b, rest) ↔
    ∃ π, len π ≤ l.length ∧ (∀ i (h : i < l.length), i < len π → l[i] ∈ box π i) ∧ out π = b ∧ rest = l.drop (len π)

theorem ret_bind_eq {β γ ι : Type} (f : List ℝ → Except DErr (β × List ℝ))
    (K : β → List ℝ → Except DErr (γ × List ℝ)) (len : ι → ℕ) (out : ι → β) (box : ι → ℕ → Set ℝ)
    (spec : BoxSpec f len out box) (c : γ) :
    Ret (bindS f K) c
      = ⋃ π, Set.pi (Finset.range (len π) : Set ℕ) (box π) ∩ (shift (len π)) ⁻¹' (Ret (K (out π)) c) := by
  ext ω
  simp only [Ret, mem_ofPred_eq, mem_iUnion, mem_inter_iff, Set.mem_pi, Finset.mem_coe, Finset.mem_range, mem_preimage]
  constructor
  · rintro ⟨N, rest, h⟩
    unfold bindS at h
    cases hf : f (pre ω N) with
    | error e => rw [hf] at h; cases h
    | ok p =>
      obtain ⟨b, r1⟩ := p
      rw [hf] at h
      obtain ⟨π, hlen, hbox, hout, hr1⟩ := (spec _ _ _).mp hf
      rw [pre_length] at hlen
      refine ⟨π, fun i hi => ?_, N - len π, rest, ?_⟩
      · have := hbox i (by rw [pre_length]; omega) hi
        simpa using this
      · rw [hout, ← pre_drop, ← hr1]; exact h
  · rintro ⟨π, hbox, M, rest, hK⟩
    refine ⟨len π + M, rest, ?_⟩
    have hf : f (pre ω (len π + M)) = .ok (out π, pre (shift (len π) ω) M) := by
      refine (spec _ _ _).mpr ⟨π, by simp, fun i h hi => ?_, rfl, ?_⟩
      · simpa using hbox i hi
      · rw [pre_drop]; simp
    unfold bindS
    rw [hf]; exact hK

/-- **sequential composition under the stream measure** -/
theorem bind_law {β γ ι : Type} [Countable ι] (f : List ℝ → Except DErr (β × List ℝ))
    (K : β → List ℝ → Except DErr (γ × List ℝ)) (len : ι → ℕ) (out : ι → β) (box : ι → ℕ → Set ℝ)
    (spec : BoxSpec f len out box) (hbox : ∀ π i, MeasurableSet (box π i))
    (hdisj : Pairwise (Function.onFun Disjoint (fun π => Set.pi (Finset.range (len π) : Set ℕ) (box π))))
    (c : γ) (hK : ∀ π, MeasurableSet (Ret (K (out π)) c)) :
    MeasurableSet (Ret (bindS f K) c) ∧
    streamμ (Ret (bindS f K) c)
      = ∑' π, (∏ i ∈ Finset.range (len π), unif01 (box π i)) * streamμ (Ret (K (out π)) c) := by
  rw [ret_bind_eq f K len out box spec c]
  have hm : ∀ π, MeasurableSet
      (Set.pi (Finset.range (len π) : Set ℕ) (box π) ∩ (shift (len π)) ⁻¹' (Ret (K (out π)) c)) := fun π =>
    (MeasurableSet.pi (Finset.countable_toSet _) (fun i _ => hbox π i)).inter (measurable_shift _ (hK _))
  refine ⟨MeasurableSet.iUnion hm, ?_⟩
  rw [measure_iUnion ?_ hm]
  · apply tsum_congr
    intro π
    unfold streamμ shift
    rw [box_inter_shift unif01 (len π) (box π) (hbox π) _ (hK _), Measure.infinitePi_pi _ (fun i _ => hbox π i)]
  · intro π π' hne
    exact (hdisj hne).mono inter_subset_left inter_subset_left

/-! ### determinism: the events "returns `b`" are disjoint for different `b` -/

/-- reading more of the stream does not change a result that was already returned -/
def Mono {β : Type} (f : List ℝ → Except DErr (β × List ℝ)) : Prop :=
  ∀ (l : List ℝ) (b : β) (rest ext : List ℝ), f l = .ok (b, rest) → f (l ++ ext) = .ok (b, rest ++ ext)

theorem Mono.of_boxSpec {β ι : Type} {f : List ℝ → Except DErr (β × List ℝ)} {len : ι → ℕ} {out : ι → β}
    {box : ι → ℕ → Set ℝ} (spec : BoxSpec f len out box) : Mono f := by
  intro l b rest ext h
  obtain ⟨π, hlen, hbox, hout, hrest⟩ := (spec _ _ _).mp h
  refine (spec _ _ _).mpr ⟨π, by rw [List.length_append]; omega, fun i hi hiπ => ?_, hout, ?_⟩
  · rw [List.getElem_append_left (by omega)]; exact hbox i (by omega) hiπ
  · rw [hrest, List.drop_append_of_le_length hlen]

theorem Mono.bindS {β γ : Type} {f : List ℝ → Except DErr (β × List ℝ)}
    {K : β → List ℝ → Except DErr (γ × List ℝ)} (hf : Mono f) (hK : ∀ b, Mono (K b)) : Mono (bindS f K) := by
  intro l c rest ext h
  unfold Discrete.bindS at h ⊢
  cases hfl : f l with
  | error e => rw [hfl] at h; cases h
  | ok p =>
    obtain ⟨b, r1⟩ := p
    rw [hfl] at h
    rw [hf l b r1 ext hfl]
    exact hK b r1 c rest ext h

theorem Mono.retS {β : Type} (b : β) : Mono (retS b) := by
  intro l c rest ext h
  unfold Discrete.retS at h ⊢
  injection h with h
  obtain ⟨h1, h2⟩ := Prod.mk.inj h
  subst h1 h2; rfl

theorem Mono.error {β : Type} (e : DErr) : Mono (fun _ => (.error e : Except DErr (β × List ℝ))) := by
  intro l b rest ext h; cases h

theorem pre_append (ω : ℕ → ℝ) (N M : ℕ) : pre ω (N + M) = pre ω N ++ pre (shift N ω) M := by
  apply List.ext_getElem
  · simp
  · intro i h1 h2
    simp only [pre_getElem, List.getElem_append, pre_length]
    split_ifs with h
    · rfl
    · simp only [shift]; congr 1; omega

theorem Ret_disjoint {β : Type} {f : List ℝ → Except DErr (β × List ℝ)} (hf : Mono f) (b b' : β) (hne : b ≠ b') :
    Disjoint (Ret f b) (Ret f b') := by
  rw [Set.disjoint_left]
  rintro ω ⟨N, rest, h⟩ ⟨N', rest', h'⟩
  rcases le_total N N' with hle | hle
  · have := hf _ _ _ (pre (shift N ω) (N' - N)) h
    rw [← pre_append, Nat.add_sub_cancel' hle, h'] at this
    injection this with this
    exact hne (Prod.mk.inj this).1.symm
  · have := hf _ _ _ (pre (shift N' ω) (N - N')) h'
    rw [← pre_append, Nat.add_sub_cancel' hle, h] at this
    injection this with this
    exact hne (Prod.mk.inj this).1

/-- an atom-wise bound on the output law lifts to every set of outputs -/
theorem stream_dp_sets {β : Type} [Countable β] (f f' : List ℝ → Except DErr (β × List ℝ)) (hmono : Mono f')
    (hmeas : ∀ b, MeasurableSet (Ret f' b)) (C : ℝ≥0∞) (hat : ∀ b, streamμ (Ret f b) ≤ C * streamμ (Ret f' b))
    (S : Set β) : streamμ (⋃ b ∈ S, Ret f b) ≤ C * streamμ (⋃ b ∈ S, Ret f' b) := by
  have hS : S.Countable := S.to_countable
  calc streamμ (⋃ b ∈ S, Ret f b) ≤ ∑' b : S, streamμ (Ret f (b : β)) := measure_biUnion_le streamμ hS _
    _ ≤ ∑' b : S, C * streamμ (Ret f' (b : β)) := ENNReal.tsum_le_tsum fun b => hat b
    _ = C * ∑' b : S, streamμ (Ret f' (b : β)) := ENNReal.tsum_mul_left
    _ = C * streamμ (⋃ b ∈ S, Ret f' b) := by
        rw [measure_biUnion hS (fun a _ b _ hab => Ret_disjoint hmono a b hab) (fun b _ => hmeas b)]

end DPL.Discrete
