/-
Helper lemmas for C10 about the clipping model (`DPL/Model/Clip.lean`).
Bounds clipping: over an arbitrary linear order.  Norm clipping: over ℝ.
-/
import DPL.Model.Clip
import DPL.Proofs.RealCarrier
import Mathlib.Order.Lattice
import Mathlib.Order.Defs.LinearOrder
import Mathlib.Analysis.SpecialFunctions.Sqrt
import Mathlib.Tactic.Linarith
import Mathlib.Tactic.FieldSimp
import Mathlib.Tactic.Ring

namespace DPL.ClipL
open DPL

theorem map_eq_self {β : Type} (f : β → β) : ∀ (l : List β), (∀ x ∈ l, f x = x) → l.map f = l
  | [], _ => rfl
  | x :: xs, h => by
    rw [List.map_cons, h x List.mem_cons_self, map_eq_self f xs (fun y hy => h y (List.mem_cons_of_mem _ hy))]

theorem forall₂_exists_left {β γ : Type} {R : β → γ → Prop} : ∀ {l₁ : List β} {l₂ : List γ},
    List.Forall₂ R l₁ l₂ → ∀ b ∈ l₂, ∃ a ∈ l₁, R a b
  | _, _, .nil, b, hb => by cases hb
  | _, _, .cons (a := a) (l₁ := l₁) hab hrest, b, hb => by
    rcases List.mem_cons.mp hb with rfl | hb'
    · exact ⟨a, List.mem_cons_self, hab⟩
    · obtain ⟨a', ha', hr⟩ := forall₂_exists_left hrest b hb'
      exact ⟨a', List.mem_cons_of_mem _ ha', hr⟩

section order
variable {α : Type} [LinearOrder α]

theorem clip1_eq (lo hi x : α) : clip1 lo hi x = min (max x lo) hi := by
  unfold clip1
  by_cases h1 : x < lo
  · simp only [h1, if_true, max_eq_right h1.le]
    by_cases h2 : hi < lo
    · simp [h2, min_eq_right h2.le]
    · simp [h2, min_eq_left (not_lt.mp h2)]
  · simp only [h1, if_false, max_eq_left (not_lt.mp h1)]
    by_cases h2 : hi < x
    · simp [h2, min_eq_right h2.le]
    · simp [h2, min_eq_left (not_lt.mp h2)]

theorem clip1_in_bounds (lo hi x : α) (h : lo ≤ hi) : lo ≤ clip1 lo hi x ∧ clip1 lo hi x ≤ hi := by
  rw [clip1_eq]
  exact ⟨le_min (le_max_right _ _) h, min_le_right _ _⟩

theorem clip1_id (lo hi x : α) (h1 : lo ≤ x) (h2 : x ≤ hi) : clip1 lo hi x = x := by
  rw [clip1_eq, max_eq_left h1, min_eq_left h2]

theorem clip1_idem (lo hi x : α) (h : lo ≤ hi) : clip1 lo hi (clip1 lo hi x) = clip1 lo hi x :=
  clip1_id lo hi _ (clip1_in_bounds lo hi x h).1 (clip1_in_bounds lo hi x h).2

theorem feq_eq {a b : α} (h : feq a b = true) : a = b := by
  unfold feq at h
  simp only [Bool.and_eq_true, decide_eq_true_eq] at h
  exact le_antisymm h.1 h.2

theorem feq_self (a : α) : feq a a = true := by simp [feq]

theorem allEq_mem {xs : List α} {m : α} (h : allEq xs m = true) : ∀ x ∈ xs, x = m := by
  intro x hx
  unfold allEq at h
  rw [List.all_eq_true] at h
  exact feq_eq (h x hx)

/-- `checkBoundsLists` accepts exactly the pairs of equally long lists with `lower[i] ≤ upper[i]` -/
theorem checkBoundsLists_ok : ∀ (ls us : List α), checkBoundsLists ls us = .ok () ↔ List.Forall₂ (· ≤ ·) ls us
  | [], [] => by simp [checkBoundsLists]
  | [], _ :: _ => by simp [checkBoundsLists]
  | _ :: _, [] => by simp [checkBoundsLists]
  | l :: ls, u :: us => by
    unfold checkBoundsLists
    by_cases h : u < l
    · simp [h, List.forall₂_cons, not_le.mpr h]
    · simp [h, List.forall₂_cons, not_lt.mp h, checkBoundsLists_ok ls us]

theorem checkBounds_ok (ls us : List α) :
    checkBounds ls us = .ok () ↔ ls ≠ [] ∧ List.Forall₂ (· ≤ ·) ls us := by
  unfold checkBounds
  cases ls with
  | nil => simp
  | cons l ls => simp [checkBoundsLists_ok]

/-- a successful fast-path test means: every lower bound IS `lo`, every upper bound IS `hi` -/
theorem fastPath_some {lower upper : List α} {lo hi : α} (h : fastPath lower upper = some (lo, hi)) :
    (∀ l ∈ lower, l = lo) ∧ (∀ u ∈ upper, u = hi) := by
  unfold fastPath at h
  split at h
  · rename_i lo' hi' _ _
    split at h
    · rename_i hc
      simp only [Option.some.injEq, Prod.mk.injEq] at h
      obtain ⟨rfl, rfl⟩ := h
      simp only [Bool.and_eq_true] at hc
      exact ⟨allEq_mem hc.1, allEq_mem hc.2⟩
    · cases h
  · cases h

theorem fastPath_le {lower upper : List α} {lo hi : α} (h : fastPath lower upper = some (lo, hi))
    (hc : checkBounds lower upper = .ok ()) : lo ≤ hi := by
  obtain ⟨h1, h2⟩ := fastPath_some h
  obtain ⟨hne, hf⟩ := (checkBounds_ok _ _).mp hc
  cases hf with
  | nil => exact absurd rfl hne
  | cons hlu _ =>
    rw [← h1 _ (List.mem_cons_self), ← h2 _ (List.mem_cons_self)]
    exact hlu

/-! ### the per-feature path -/

theorem clipRow_in : ∀ (ls us xs ys : List α), List.Forall₂ (· ≤ ·) ls us → clipRow ls us xs = .ok ys →
    RowIn ls us ys ∧ ys.length = xs.length
  | [], [], [], ys, _, h => by
    unfold clipRow at h
    cases h
    exact ⟨by unfold RowIn; trivial, rfl⟩
  | [], [], _ :: _, _, _, h => by simp [clipRow] at h
  | [], _ :: _, _, _, hf, _ => by cases hf
  | _ :: _, [], _, _, hf, _ => by cases hf
  | _ :: _, _ :: _, [], _, _, h => by simp [clipRow] at h
  | l :: ls, u :: us, x :: xs, ys, hf, h => by
    rw [List.forall₂_cons] at hf
    unfold clipRow at h
    split at h
    · rename_i ys' hys
      cases h
      obtain ⟨ih1, ih2⟩ := clipRow_in ls us xs ys' hf.2 hys
      refine ⟨?_, by simp [ih2]⟩
      unfold RowIn
      exact ⟨clip1_in_bounds l u x hf.1, ih1⟩
    · cases h

theorem clipRow_id : ∀ (ls us xs : List α), RowIn ls us xs → clipRow ls us xs = .ok xs
  | [], [], [], _ => by unfold clipRow; rfl
  | [], [], _ :: _, h => by simp [RowIn] at h
  | [], _ :: _, _, h => by simp [RowIn] at h
  | _ :: _, [], _, h => by simp [RowIn] at h
  | _ :: _, _ :: _, [], h => by simp [RowIn] at h
  | l :: ls, u :: us, x :: xs, h => by
    unfold RowIn at h
    unfold clipRow
    rw [clipRow_id ls us xs h.2, clip1_id l u x h.1.1 h.1.2]

/-- with all bounds equal, the per-feature path computes what the scalar fast path computes -/
theorem clipRow_const : ∀ (ls us xs : List α) (lo hi : α), (∀ l ∈ ls, l = lo) → (∀ u ∈ us, u = hi) →
    xs.length = ls.length → ls.length = us.length → clipRow ls us xs = .ok (xs.map (clip1 lo hi))
  | [], [], [], _, _, _, _, _, _ => by unfold clipRow; rfl
  | [], [], _ :: _, _, _, _, _, h, _ => by simp at h
  | [], _ :: _, _, _, _, _, _, _, h => by simp at h
  | _ :: _, [], _, _, _, _, _, _, h => by simp at h
  | _ :: _, _ :: _, [], _, _, _, _, h, _ => by simp at h
  | l :: ls, u :: us, x :: xs, lo, hi, h1, h2, h3, h4 => by
    unfold clipRow
    have e1 : l = lo := h1 l List.mem_cons_self
    have e2 : u = hi := h2 u List.mem_cons_self
    rw [clipRow_const ls us xs lo hi (fun l hl => h1 l (List.mem_cons_of_mem _ hl))
      (fun u hu => h2 u (List.mem_cons_of_mem _ hu)) (by simpa using h3) (by simpa using h4), e1, e2]
    rfl

theorem clipRows_in (ls us : List α) (hf : List.Forall₂ (· ≤ ·) ls us) :
    ∀ (rows out : List (List α)), clipRows ls us rows = .ok out →
      List.Forall₂ (fun r o => RowIn ls us o ∧ o.length = r.length) rows out
  | [], out, h => by unfold clipRows at h; cases h; exact List.Forall₂.nil
  | r :: rs, out, h => by
    unfold clipRows at h
    split at h
    · cases h
    · rename_i r' hr
      split at h
      · rename_i rs' hrs
        cases h
        exact List.Forall₂.cons (clipRow_in ls us r r' hf hr) (clipRows_in ls us hf rs rs' hrs)
      · cases h

theorem clipRows_id (ls us : List α) : ∀ (rows : List (List α)), (∀ r ∈ rows, RowIn ls us r) →
    clipRows ls us rows = .ok rows
  | [], _ => by unfold clipRows; rfl
  | r :: rs, h => by
    unfold clipRows
    rw [clipRow_id ls us r (h r List.mem_cons_self),
      clipRows_id ls us rs (fun r hr => h r (List.mem_cons_of_mem _ hr))]

end order

/-! ### norm clipping over ℝ -/
section norm

theorem foldl_sq_acc (row : List ℝ) (a : ℝ) :
    row.foldl (fun s x => s + x * x) a = a + row.foldl (fun s x => s + x * x) 0 := by
  induction row generalizing a with
  | nil => simp
  | cons x xs ih =>
    simp only [List.foldl_cons]
    rw [ih (a + x * x), ih (0 + x * x)]
    ring

theorem sumSq_nil : sumSq ([] : List ℝ) = 0 := rfl

theorem sumSq_cons (x : ℝ) (xs : List ℝ) : sumSq (x :: xs) = x * x + sumSq xs := by
  unfold sumSq
  simp only [List.foldl_cons]
  rw [foldl_sq_acc]
  ring

theorem sumSq_nonneg (row : List ℝ) : 0 ≤ sumSq row := by
  induction row with
  | nil => simp [sumSq_nil]
  | cons x xs ih => rw [sumSq_cons]; nlinarith [mul_self_nonneg x]

theorem sumSq_map_div (row : List ℝ) (k : ℝ) :
    sumSq (row.map (fun x => x / k)) = sumSq row / (k * k) := by
  induction row with
  | nil => simp [sumSq_nil]
  | cons x xs ih =>
    simp only [List.map_cons]
    rw [sumSq_cons, sumSq_cons, ih]
    by_cases hk : k = 0
    · subst hk; simp
    · field_simp

theorem rowNorm_nonneg (row : List ℝ) : 0 ≤ rowNorm row := by
  unfold rowNorm; simp [Real.sqrt_nonneg]

theorem rowNorm_map_div (row : List ℝ) (k : ℝ) (hk : 0 < k) :
    rowNorm (row.map (fun x => x / k)) = rowNorm row / k := by
  unfold rowNorm
  simp only [transc_sqrt]
  rw [sumSq_map_div, Real.sqrt_div (sumSq_nonneg row), Real.sqrt_mul_self hk.le]

/-- the divisor used by `clip_to_norm` for one row -/
noncomputable def divisor (c : ℝ) (row : List ℝ) : ℝ := if rowNorm row / c < 1 then 1 else rowNorm row / c

theorem clipRowNorm_eq (c : ℝ) (row : List ℝ) : clipRowNorm c row = row.map (fun x => x / divisor c row) := rfl

theorem divisor_pos (c : ℝ) (row : List ℝ) : 0 < divisor c row := by
  unfold divisor
  split
  · exact one_pos
  · rename_i h; linarith [not_lt.mp h]

theorem clipRowNorm_norm (c : ℝ) (row : List ℝ) :
    rowNorm (clipRowNorm c row) = rowNorm row / divisor c row := by
  rw [clipRowNorm_eq, rowNorm_map_div _ _ (divisor_pos c row)]

theorem clipRowNorm_le (c : ℝ) (hc : 0 < c) (row : List ℝ) : rowNorm (clipRowNorm c row) ≤ c := by
  rw [clipRowNorm_norm]
  unfold divisor
  split
  · rename_i h
    rw [div_one]
    rw [div_lt_one hc] at h
    exact h.le
  · rename_i h
    have h1 : 1 ≤ rowNorm row / c := not_lt.mp h
    have hn : 0 < rowNorm row := by
      rw [le_div_iff₀ hc] at h1
      linarith
    rw [div_div_eq_mul_div, mul_div_assoc, mul_comm]
    rw [show c / rowNorm row * rowNorm row = c from by field_simp]

theorem clipRowNorm_id (c : ℝ) (hc : 0 < c) (row : List ℝ) (h : rowNorm row ≤ c) : clipRowNorm c row = row := by
  rw [clipRowNorm_eq]
  have hd : divisor c row = 1 := by
    unfold divisor
    split
    · rfl
    · rename_i h1
      have h2 : 1 ≤ rowNorm row / c := not_lt.mp h1
      rw [le_div_iff₀ hc] at h2
      have : rowNorm row = c := le_antisymm h (by linarith)
      rw [this, div_self hc.ne']
  rw [hd]
  simp

end norm
end DPL.ClipL
