/-
The classical Gaussian mechanism (C02), stage B — the TRUE complementary error function
`erfc x = 2/√π ∫_x^∞ e^{-t²} dt` (Mathlib has no `erf`/`erfc`), the instance `trueErf : HasErf ℝ` built from it
(a `def`, not a global instance), and the three facts about the model's `phi` under that instance that
`gauss_classical_of_tail` (`ContinuousGaussTail.lean`) asks for:
  (H0) `0 ≤ phi x`,  (H1) `phi (-t) ≤ e^{-t²/2}/2` for `t ≥ 0`,  (H2) `phi t ≤ 1/2 + t/2` for `t ≥ 0`.
Hence `gauss_classical_true`: Balle–Wang's expression with the true normal cdf is `≤ 0` at the coded
`σ = √(2 log(1.25/δ)) Δ/ε` for all `0 < ε ≤ 1`, `0 < δ < 1`, `Δ > 0`.
-/
import DPL.Proofs.ContinuousGaussTail
import Mathlib.Analysis.SpecialFunctions.Gaussian.GaussianIntegral
import Mathlib.MeasureTheory.Group.Integral
import Mathlib.MeasureTheory.Integral.IntervalIntegral.Basic
import Mathlib.MeasureTheory.Measure.Lebesgue.Basic
import Mathlib.Analysis.Real.Pi.Bounds

namespace DPL.Cont
open DPL Real MeasureTheory Set

/-- `erfc x = 2/√π ∫_x^∞ e^{-t²} dt` -/
noncomputable def erfcR (x : ℝ) : ℝ := 2 / Real.sqrt Real.pi * ∫ t in Set.Ioi x, Real.exp (-t ^ 2)

/-- `erf = 1 - erfc` -/
noncomputable def erfR (x : ℝ) : ℝ := 1 - erfcR x

/-- the true error functions as an instance of the model's carrier class (NOT a global instance) -/
@[reducible] noncomputable def trueErf : HasErf ℝ := ⟨erfR, erfcR⟩

/-- the model's `phi` under `trueErf`: the standard normal cdf -/
noncomputable def phiTrue (x : ℝ) : ℝ := @phi ℝ _ _ _ _ trueErf x

theorem phiTrue_eq (x : ℝ) : phiTrue x = erfcR ((-x) / Real.sqrt 2) / 2 := rfl

/-! ### the integrand -/

theorem integrable_exp_neg_sq : Integrable (fun t : ℝ => Real.exp (-t ^ 2)) := by
  simpa using integrable_exp_neg_mul_sq (b := 1) one_pos

theorem integral_Ioi_zero_exp_neg_sq : ∫ t in Set.Ioi (0 : ℝ), Real.exp (-t ^ 2) = Real.sqrt Real.pi / 2 := by
  simpa using integral_gaussian_Ioi 1

theorem sqrt_pi_pos : 0 < Real.sqrt Real.pi := Real.sqrt_pos.mpr Real.pi_pos

/-- translation of a half-line integral: `∫_{a}^∞ f(t + d) dt = ∫_{a+d}^∞ f` (no integrability needed) -/
theorem integral_Ioi_comp_add (f : ℝ → ℝ) (a d : ℝ) :
    ∫ t in Set.Ioi a, f (t + d) = ∫ t in Set.Ioi (a + d), f t := by
  rw [← integral_indicator measurableSet_Ioi, ← integral_indicator measurableSet_Ioi,
    ← integral_add_right_eq_self (fun t => (Set.Ioi (a + d)).indicator f t) d]
  congr 1
  funext t
  simp only [Set.indicator, Set.mem_Ioi, add_lt_add_iff_right]

/-! ### `erfc` -/

theorem erfcR_nonneg (x : ℝ) : 0 ≤ erfcR x := by
  unfold erfcR
  apply mul_nonneg (div_nonneg (by norm_num) sqrt_pi_pos.le)
  exact setIntegral_nonneg measurableSet_Ioi (fun t _ => (Real.exp_pos _).le)

theorem erfcR_zero : erfcR 0 = 1 := by
  unfold erfcR
  rw [integral_Ioi_zero_exp_neg_sq]
  have := sqrt_pi_pos
  field_simp

/-- antitone: the integrand is non-negative -/
theorem erfcR_antitone {x y : ℝ} (h : x ≤ y) : erfcR y ≤ erfcR x := by
  unfold erfcR
  apply mul_le_mul_of_nonneg_left _ (div_nonneg (by norm_num) sqrt_pi_pos.le)
  apply setIntegral_mono_set integrable_exp_neg_sq.integrableOn
  · exact Filter.Eventually.of_forall (fun t => (Real.exp_pos _).le)
  · exact (Set.Ioi_subset_Ioi h).eventuallyLE

/-- Chernoff with the factor 1/2, in `erfc` form: `erfc u ≤ e^{-u²}` for `u ≥ 0`
(`∫_u^∞ e^{-s²} = ∫_0^∞ e^{-(s+u)²} ≤ e^{-u²} ∫_0^∞ e^{-s²}`) -/
theorem erfcR_le_exp (u : ℝ) (hu : 0 ≤ u) : erfcR u ≤ Real.exp (-u ^ 2) := by
  have hshift : ∫ t in Set.Ioi u, Real.exp (-t ^ 2) = ∫ s in Set.Ioi (0 : ℝ), Real.exp (-(s + u) ^ 2) := by
    have := integral_Ioi_comp_add (fun t => Real.exp (-t ^ 2)) 0 u
    simpa using this.symm
  have hle : ∫ s in Set.Ioi (0 : ℝ), Real.exp (-(s + u) ^ 2)
      ≤ ∫ s in Set.Ioi (0 : ℝ), Real.exp (-u ^ 2) * Real.exp (-s ^ 2) := by
    apply setIntegral_mono_on
    · exact (integrable_exp_neg_sq.comp_add_right u).integrableOn
    · exact (integrable_exp_neg_sq.const_mul _).integrableOn
    · exact measurableSet_Ioi
    · intro s hs
      rw [← Real.exp_add]
      apply Real.exp_le_exp.mpr
      have : 0 ≤ s * u := mul_nonneg (le_of_lt hs) hu
      nlinarith
  have hpi := sqrt_pi_pos
  unfold erfcR
  rw [hshift]
  calc 2 / Real.sqrt Real.pi * ∫ s in Set.Ioi (0 : ℝ), Real.exp (-(s + u) ^ 2)
      ≤ 2 / Real.sqrt Real.pi * ∫ s in Set.Ioi (0 : ℝ), Real.exp (-u ^ 2) * Real.exp (-s ^ 2) :=
        mul_le_mul_of_nonneg_left hle (by positivity)
    _ = Real.exp (-u ^ 2) := by
        rw [integral_const_mul, integral_Ioi_zero_exp_neg_sq]
        field_simp

/-- `erfc(-u) ≤ 1 + 2u/√π` for `u ≥ 0` (the integrand is at most 1 on `(-u, 0]`) -/
theorem erfcR_neg_le (u : ℝ) (hu : 0 ≤ u) : erfcR (-u) ≤ 1 + 2 / Real.sqrt Real.pi * u := by
  have hsplit : ∫ t in Set.Ioi (-u), Real.exp (-t ^ 2)
      = (∫ t in Set.Ioc (-u) 0, Real.exp (-t ^ 2)) + ∫ t in Set.Ioi (0 : ℝ), Real.exp (-t ^ 2) := by
    rw [← Set.Ioc_union_Ioi_eq_Ioi (show -u ≤ 0 by linarith)]
    exact setIntegral_union (Set.Ioc_disjoint_Ioi le_rfl) measurableSet_Ioi
      integrable_exp_neg_sq.integrableOn integrable_exp_neg_sq.integrableOn
  have hle : ∫ t in Set.Ioc (-u) 0, Real.exp (-t ^ 2) ≤ u := by
    have h1 : ∫ t in Set.Ioc (-u) 0, Real.exp (-t ^ 2) ≤ ∫ _t in Set.Ioc (-u) 0, (1 : ℝ) := by
      apply setIntegral_mono_on integrable_exp_neg_sq.integrableOn _ measurableSet_Ioc
      · intro t _
        rw [← Real.exp_zero]
        exact Real.exp_le_exp.mpr (by nlinarith [sq_nonneg t])
      · exact integrableOn_const (by simp)
    rw [setIntegral_const, Real.volume_real_Ioc_of_le (by linarith)] at h1
    simpa using h1
  have hpi := sqrt_pi_pos
  unfold erfcR
  rw [hsplit, integral_Ioi_zero_exp_neg_sq, mul_add]
  have e1 : 2 / Real.sqrt Real.pi * (Real.sqrt Real.pi / 2) = 1 := by field_simp
  rw [e1]
  have : 2 / Real.sqrt Real.pi * ∫ t in Set.Ioc (-u) 0, Real.exp (-t ^ 2) ≤ 2 / Real.sqrt Real.pi * u :=
    mul_le_mul_of_nonneg_left hle (by positivity)
  linarith

/-! ### the three facts about the normal cdf -/

theorem sqrt_two_pos : 0 < Real.sqrt 2 := Real.sqrt_pos.mpr (by norm_num)

/-- (H0) -/
theorem phiTrue_nonneg (x : ℝ) : 0 ≤ phiTrue x := by
  rw [phiTrue_eq]
  exact div_nonneg (erfcR_nonneg _) (by norm_num)

/-- (H1) Chernoff with the factor 1/2 -/
theorem phiTrue_neg_le (t : ℝ) (ht : 0 ≤ t) : phiTrue (-t) ≤ Real.exp (-t ^ 2 / 2) / 2 := by
  rw [phiTrue_eq, neg_neg]
  have h2 := sqrt_two_pos
  have h := erfcR_le_exp (t / Real.sqrt 2) (by positivity)
  have e : -(t / Real.sqrt 2) ^ 2 = -t ^ 2 / 2 := by
    rw [div_pow, Real.sq_sqrt (by norm_num)]; ring
  rw [e] at h
  linarith

/-- (H2) the density is at most `1/√(2π) ≤ 1/2` -/
theorem phiTrue_le (t : ℝ) (ht : 0 ≤ t) : phiTrue t ≤ 1 / 2 + t / 2 := by
  rw [phiTrue_eq, neg_div]
  have h2 := sqrt_two_pos
  have hpi := sqrt_pi_pos
  have h := erfcR_neg_le (t / Real.sqrt 2) (by positivity)
  -- 2/√π · t/√2 ≤ t  since √π √2 = √(2π) ≥ 2
  have hprod : 2 ≤ Real.sqrt Real.pi * Real.sqrt 2 := by
    rw [← Real.sqrt_mul Real.pi_pos.le]
    apply Real.le_sqrt_of_sq_le
    nlinarith [Real.pi_gt_three]
  have hk : 2 / Real.sqrt Real.pi * (t / Real.sqrt 2) ≤ t := by
    have : 2 / Real.sqrt Real.pi * (t / Real.sqrt 2) = 2 * t / (Real.sqrt Real.pi * Real.sqrt 2) := by
      field_simp
    rw [this, div_le_iff₀ (by positivity)]
    nlinarith
  linarith

/-- the normal cdf is monotone -/
theorem phiTrue_mono {x y : ℝ} (h : x ≤ y) : phiTrue x ≤ phiTrue y := by
  rw [phiTrue_eq, phiTrue_eq]
  have h2 := sqrt_two_pos
  have : (-y) / Real.sqrt 2 ≤ (-x) / Real.sqrt 2 := div_le_div_of_nonneg_right (by linarith) h2.le
  have := erfcR_antitone this
  linarith

/-- `Φ(0) = 1/2` -/
theorem phiTrue_zero : phiTrue 0 = 1 / 2 := by
  rw [phiTrue_eq]; simp [erfcR_zero]

/-! ### the classical Gaussian mechanism with the true normal cdf -/

/-- **`gauss_classical_dp_full` for the true `erfc`**: for all `0 < ε ≤ 1`, `0 < δ < 1`, `Δ > 0`,
`Φ(Δ/2σ - εσ/Δ) - e^ε Φ(-Δ/2σ - εσ/Δ) - δ ≤ 0` at the coded `σ = √(2 log(1.25/δ)) Δ/ε`, `Φ` the normal cdf -/
theorem gauss_classical_true :
    ∀ (eps delta sens : ℝ), 0 < eps → eps ≤ 1 → 0 < delta → delta < 1 → 0 < sens →
      @balleWang trueErf eps delta sens (gaussSigma eps delta sens) ≤ 0 :=
  @gauss_classical_of_tail trueErf phiTrue_nonneg phiTrue_neg_le phiTrue_le

/-- the tail of the normal cdf at (or beyond) the calibrated point is at most `δ` -/
theorem phiTrue_tail_le_delta (eps delta : ℝ) (he : 0 < eps) (he1 : eps ≤ 1) (hd : 0 < delta) (hd1 : delta < 1)
    (u : ℝ)
    (hu : Real.sqrt (2 * Real.log (5 / 4 / delta))
        - eps / (2 * Real.sqrt (2 * Real.log (5 / 4 / delta))) ≤ u) :
    phiTrue (-u) ≤ delta :=
  gauss_tail_core phiTrue phiTrue_neg_le phiTrue_le eps delta he he1 hd hd1 u hu

end DPL.Cont
