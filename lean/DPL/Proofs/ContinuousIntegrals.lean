/-
Integrals of the Laplace density needed by C02 (normalisation) and C19 (mean, variance):
  ∫ |y - x|^n e^{-|y - x| / b} dy = 2 b^(n+1) n!    (b > 0)
via translation invariance, `integral_comp_abs` and the Gamma integral.
-/
import Mathlib.Analysis.SpecialFunctions.Gamma.Basic
import Mathlib.MeasureTheory.Measure.Lebesgue.Integral
import Mathlib.MeasureTheory.Group.Integral
import Mathlib.Tactic.FieldSimp
import Mathlib.Tactic.Ring
import Mathlib.Tactic.Positivity

namespace DPL.Cont
open MeasureTheory Real Set

/-- `∫_0^∞ t^n e^{-t/b} dt = b^(n+1) n!` -/
theorem integral_pow_mul_exp_neg_div_Ioi (n : ℕ) (b : ℝ) (hb : 0 < b) :
    ∫ t in Ioi (0:ℝ), t ^ n * Real.exp (-t / b) = b ^ (n + 1) * (n.factorial : ℝ) := by
  have h := Real.integral_rpow_mul_exp_neg_mul_Ioi (a := (n:ℝ) + 1) (r := 1 / b) (by positivity) (by positivity)
  rw [Real.Gamma_nat_eq_factorial] at h
  have e : (1 / (1 / b)) ^ ((n:ℝ) + 1) = b ^ (n + 1) := by
    rw [one_div_one_div]
    rw [show (n:ℝ) + 1 = ((n + 1 : ℕ) : ℝ) by push_cast; ring, Real.rpow_natCast]
  rw [e] at h
  rw [← h]
  refine setIntegral_congr_fun measurableSet_Ioi (fun t ht => ?_)
  have ht' : (0:ℝ) < t := ht
  simp only [add_sub_cancel_right, Real.rpow_natCast]
  congr 2
  field_simp

/-- `∫ |y - x|^n e^{-|y - x|/b} dy = 2 b^(n+1) n!` -/
theorem integral_abs_pow_mul_exp (n : ℕ) (b x : ℝ) (hb : 0 < b) :
    ∫ y : ℝ, |y - x| ^ n * Real.exp (-|y - x| / b) = 2 * (b ^ (n + 1) * (n.factorial : ℝ)) := by
  rw [integral_sub_right_eq_self (μ := volume) (fun t : ℝ => |t| ^ n * Real.exp (-|t| / b)) x]
  rw [integral_comp_abs (f := fun s : ℝ => s ^ n * Real.exp (-s / b))]
  rw [integral_pow_mul_exp_neg_div_Ioi n b hb]

/-- the Laplace density `e^{-|y-x|/b} / (2b)` -/
noncomputable def lapDensity (b x y : ℝ) : ℝ := Real.exp (-|y - x| / b) / (2 * b)

theorem lapDensity_nonneg (b x y : ℝ) (hb : 0 < b) : 0 ≤ lapDensity b x y := by
  unfold lapDensity; positivity

/-- normalisation -/
theorem integral_lapDensity (b x : ℝ) (hb : 0 < b) : ∫ y, lapDensity b x y = 1 := by
  have h := integral_abs_pow_mul_exp 0 b x hb
  simp only [pow_zero, one_mul, zero_add, pow_one, Nat.factorial_zero, Nat.cast_one, mul_one] at h
  unfold lapDensity
  rw [integral_div, h]
  field_simp

theorem integrable_lapDensity (b x : ℝ) (hb : 0 < b) : Integrable (lapDensity b x) := by
  by_contra h
  have := integral_undef h
  rw [integral_lapDensity b x hb] at this
  exact one_ne_zero this

/-- second central moment of the Laplace law: `2 b²` -/
theorem integral_sq_mul_lapDensity (b x : ℝ) (hb : 0 < b) :
    ∫ y, (y - x) ^ 2 * lapDensity b x y = 2 * b ^ 2 := by
  have h := integral_abs_pow_mul_exp 2 b x hb
  have e : (fun y : ℝ => (y - x) ^ 2 * lapDensity b x y) =
      fun y => (|y - x| ^ 2 * Real.exp (-|y - x| / b)) / (2 * b) := by
    funext y; unfold lapDensity; rw [sq_abs]; ring
  rw [e, integral_div, h]
  simp only [Nat.factorial, Nat.cast_ofNat]
  field_simp
  norm_num
  ring

/-- first central moment (bias) of the Laplace law: `0` (odd integrand) -/
theorem integral_sub_mul_lapDensity (b x : ℝ) :
    ∫ y, (y - x) * lapDensity b x y = 0 := by
  have h1 := integral_sub_right_eq_self (μ := volume) (fun t : ℝ => t * (Real.exp (-|t| / b) / (2 * b))) x
  have h2 := integral_neg_eq_self (fun t : ℝ => t * (Real.exp (-|t| / b) / (2 * b))) volume
  simp only [abs_neg, neg_mul] at h2
  rw [integral_neg] at h2
  unfold lapDensity
  rw [h1]
  linarith

end DPL.Cont
