/-
GaussianNB: the side predicates of the semantic step (`probesAgree` given the same label-presence pattern, `callsSat`
with positive ε and sensitivity) — so that `gnb_privloss` turns into ε-DP (2ε when the label changes) of the output law.
-/
import DPL.Proofs.ModelsCompose2
import DPL.Proofs.ModelsFree
import DPL.Proofs.ModelsSens

namespace DPL
namespace PM
open MeasureTheory

theorem gnbFeature_probeFree (p : GnbParams ℝ) (c : Nat) (ni : ℝ) (j : Nat) : (gnbFeature p c ni j).probeFree :=
  fun _ _ => trivial

theorem gnbClass_probeFree (p : GnbParams ℝ) (ci : Nat × ℝ) : (gnbClass p ci).probeFree := by
  unfold gnbClass
  split
  · trivial
  · exact probeFree_forList _ _ fun j _ => gnbFeature_probeFree p _ _ j

/-- the only probe of GaussianNB is the label-presence pattern -/
theorem probesAgree_gnbPlan (p : GnbParams ℝ) (D D' : DS ℝ)
    (h : ((List.range p.K).map fun c => D.any (fun r => r.y == c)) =
      ((List.range p.K).map fun c => D'.any (fun r => r.y == c))) : (gnbPlan p).probesAgree D D' := by
  refine ⟨h, probesAgree_of_probeFree _ _ _ ?_⟩
  refine Plan.probeFree_bind _ _ (probeFree_forList _ _ fun _ _ => probeFree_one _ _) fun raw => ?_
  exact Plan.probeFree_bind _ _ (probeFree_forList _ _ fun ci _ => gnbClass_probeFree p ci) fun _ => trivial

theorem callsSat_gnbPlan (p : GnbParams ℝ) (hε : 0 < p.eps) (hd : 0 < p.d)
    (hb : ∀ j, j < p.d → nth p.lo j < nth p.hi j) : (gnbPlan p).callsSat (fun c => 0 < c.eps ∧ 0 < c.sens) := by
  have hd' : (0 : ℝ) < p.d := by exact_mod_cast hd
  have h3 : (nat 3 : ℝ) = 3 := by simp [nat]
  have he3 : 0 < p.eps / nat 3 := by rw [h3]; positivity
  have hle : 0 < p.eps / nat 3 / (p.d : ℝ) := by positivity
  intro occ
  refine callsSat_bind _ _ _ (callsSat_forList _ _ _ fun c _ => callsSat_one _ _ _ ⟨he3, ?_⟩) fun raw => ?_
  · show (0 : ℝ) < 1; norm_num
  refine callsSat_bind _ _ _ (callsSat_forList _ _ _ fun ci _ => ?_) fun _ => trivial
  unfold gnbClass
  split
  · trivial
  · refine callsSat_forList _ _ _ fun j hj => ?_
    have hlt := hb j (by simpa using hj)
    refine ⟨⟨hle, ?_⟩, fun o => ⟨⟨hle, ?_⟩, fun _ => trivial⟩⟩
    · show 0 < sumSens (nth p.lo j) (nth p.hi j)
      rw [sumSens_eq]
      exact lt_of_lt_of_le (by linarith) (le_max_right _ _)
    · show 0 < pmax (o / ci.2 - nth p.lo j) (nth p.hi j - o / ci.2) * pmax (o / ci.2 - nth p.lo j) (nth p.hi j - o / ci.2)
      rw [pmax_eq]
      have : 0 < max (o / ci.2 - nth p.lo j) (nth p.hi j - o / ci.2) := by
        rcases le_total (o / ci.2 - nth p.lo j) (nth p.hi j - o / ci.2) with h | h
        · rw [max_eq_right h]; linarith
        · rw [max_eq_left h]; linarith
      positivity

end PM
end DPL
