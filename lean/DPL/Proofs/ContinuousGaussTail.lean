/-
The classical Gaussian mechanism (C02), stage A — pure real analysis, no measure theory.

With `c = √(2 log(1.25/δ))` and the coded `σ = c Δ/ε` the first argument of Balle–Wang's expression is
`Δ/(2σ) - εσ/Δ = -(c - ε/(2c))`.  For ANY function `Φ` that satisfies the two bounds the normal cdf satisfies,
  (H1) `Φ(-t) ≤ e^{-t²/2}/2`  for `t ≥ 0`   (Chernoff with the factor 1/2),
  (H2) `Φ(t) ≤ 1/2 + t/2`     for `t ≥ 0`   (the density is at most 1/2),
`Φ(-u) ≤ δ` for every `u ≥ c - ε/(2c)`, for all `0 < ε ≤ 1`, `0 < δ < 1`.  With `Φ ≥ 0` (H0) this is
`balleWang ε δ Δ (gaussSigma ε δ Δ) ≤ 0`, the statement `gauss_classical_dp_full` of `DPL/Properties/C02.lean`.
The instance `HasErf ℝ` stays arbitrary: the hypotheses are on the model's `phi`.
`ContinuousGaussErfc.lean` proves H0–H2 for the true `erfc`.
-/
import DPL.Proofs.ContinuousObjective
import Mathlib.Analysis.SpecialFunctions.Log.Basic
import Mathlib.Analysis.SpecialFunctions.Sqrt
import Mathlib.Tactic.FieldSimp
import Mathlib.Tactic.Linarith
import Mathlib.Tactic.Positivity
import Mathlib.Tactic.Ring

namespace DPL.Cont
open DPL Real

/-! ### numerics -/

theorem exp_half_le_two : Real.exp (1 / 2) ≤ 2 := by
  have := Real.exp_bound_div_one_sub_of_interval (x := 1 / 2) (by norm_num) (by norm_num)
  norm_num at this ⊢
  exact this

theorem exp_quarter_le : Real.exp (1 / 4) ≤ 4 / 3 := by
  have := Real.exp_bound_div_one_sub_of_interval (x := 1 / 4) (by norm_num) (by norm_num)
  norm_num at this ⊢
  exact this

/-- `log(1.25/δ) ≥ 1/5` for `δ < 1` (from `1 - 1/x ≤ log x`) -/
theorem log_c125_div_ge (delta : ℝ) (hd : 0 < delta) (hd1 : delta < 1) : 1 / 5 ≤ Real.log (5 / 4 / delta) := by
  have hpos : (0 : ℝ) < 5 / 4 / delta := by positivity
  have h := Real.one_sub_inv_le_log_of_pos hpos
  have : (5 / 4 / delta)⁻¹ = 4 / 5 * delta := by field_simp
  rw [this] at h
  linarith

/-- `e^{-log(1.25/δ)} = δ/1.25` -/
theorem exp_neg_log_c125_div (delta : ℝ) (hd : 0 < delta) :
    Real.exp (-Real.log (5 / 4 / delta)) = 4 / 5 * delta := by
  have hpos : (0 : ℝ) < 5 / 4 / delta := by positivity
  rw [Real.exp_neg, Real.exp_log hpos]
  field_simp

/-! ### the two regimes -/

/-- the facts about `c = √(2 log(1.25/δ))` and `r = ε/(2c)` that both regimes use:
`c² = 2L`, `c ≥ 1/2`, `r c = ε/2`, `0 ≤ r ≤ 1` -/
theorem gauss_c_facts (eps delta : ℝ) (he : 0 < eps) (he1 : eps ≤ 1) (hd : 0 < delta) (hd1 : delta < 1) :
    let L := Real.log (5 / 4 / delta)
    let c := Real.sqrt (2 * L)
    let r := eps / (2 * c)
    c * c = 2 * L ∧ 1 / 2 ≤ c ∧ r * c = eps / 2 ∧ 0 ≤ r ∧ r ≤ 1 := by
  intro L c r
  have hL : 1 / 5 ≤ L := log_c125_div_ge delta hd hd1
  have hcc : c * c = 2 * L := Real.mul_self_sqrt (by linarith)
  have hc : 1 / 2 ≤ c := by
    apply Real.le_sqrt_of_sq_le
    nlinarith
  have hc0 : 0 < c := by linarith
  have hrc : r * c = eps / 2 := by
    show eps / (2 * c) * c = eps / 2
    field_simp
  have hr0 : 0 ≤ r := by positivity
  refine ⟨hcc, hc, hrc, hr0, ?_⟩
  by_contra hcon
  rw [not_le] at hcon
  nlinarith

/-- regime `u ≥ 0`: the Chernoff bound (with its factor 1/2) at any `u ≥ c - ε/(2c)` is at most `δ`
(`u² ≥ c² - ε`, `e^{-c²/2} = δ/1.25`, `e^{ε/2} ≤ e^{1/2} ≤ 2`) -/
theorem chernoff_le_delta (eps delta : ℝ) (he : 0 < eps) (he1 : eps ≤ 1) (hd : 0 < delta) (hd1 : delta < 1)
    (u : ℝ) (hu0 : 0 ≤ u)
    (hu : Real.sqrt (2 * Real.log (5 / 4 / delta))
        - eps / (2 * Real.sqrt (2 * Real.log (5 / 4 / delta))) ≤ u) :
    Real.exp (-u ^ 2 / 2) / 2 ≤ delta := by
  obtain ⟨hcc, hc, hrc, hr0, hr1⟩ := gauss_c_facts eps delta he he1 hd hd1
  set L := Real.log (5 / 4 / delta) with hLdef
  set c := Real.sqrt (2 * L) with hcdef
  set r := eps / (2 * c) with hrdef
  -- u² ≥ c² - ε in both sub-cases
  have key : c * c - eps ≤ u ^ 2 := by
    rcases le_or_gt r c with h | h
    · have ht0 : 0 ≤ c - r := by linarith
      have : (c - r) ^ 2 ≤ u ^ 2 := by
        apply sq_le_sq'
        · linarith
        · exact hu
      nlinarith [sq_nonneg r]
    · have : c * c < r * c := by
        apply mul_lt_mul_of_pos_right h; linarith
      nlinarith [sq_nonneg u]
  have h1 : -u ^ 2 / 2 ≤ -L + eps / 2 := by linarith
  have h2 : Real.exp (-u ^ 2 / 2) ≤ 4 / 5 * delta * 2 := by
    calc Real.exp (-u ^ 2 / 2) ≤ Real.exp (-L + eps / 2) := Real.exp_le_exp.mpr h1
      _ = 4 / 5 * delta * Real.exp (eps / 2) := by
          rw [Real.exp_add, hLdef, exp_neg_log_c125_div delta hd]
      _ ≤ 4 / 5 * delta * 2 := by
          apply mul_le_mul_of_nonneg_left _ (by positivity)
          exact (Real.exp_le_exp.mpr (by linarith)).trans exp_half_le_two
  linarith

/-- regime `u < 0` (possible only for `δ > 15/16`): then `-u ≤ 1/2` and `1/2 + (-u)/2 ≤ 3/4 < δ` -/
theorem small_arg_le_delta (eps delta : ℝ) (he : 0 < eps) (he1 : eps ≤ 1) (hd : 0 < delta) (hd1 : delta < 1)
    (u : ℝ) (hu0 : u < 0)
    (hu : Real.sqrt (2 * Real.log (5 / 4 / delta))
        - eps / (2 * Real.sqrt (2 * Real.log (5 / 4 / delta))) ≤ u) :
    1 / 2 + (-u) / 2 ≤ delta := by
  obtain ⟨hcc, hc, hrc, hr0, hr1⟩ := gauss_c_facts eps delta he he1 hd hd1
  set L := Real.log (5 / 4 / delta) with hLdef
  set c := Real.sqrt (2 * L) with hcdef
  set r := eps / (2 * c) with hrdef
  have hcr : c < r := by linarith
  have hnu : -u ≤ 1 / 2 := by linarith
  -- c² < ε/2 ≤ 1/2, so L < 1/4 and δ > 15/16
  have hL4 : L < 1 / 4 := by
    have : c * c < r * c := by
      apply mul_lt_mul_of_pos_right hcr; linarith
    linarith
  have hpos : (0 : ℝ) < 5 / 4 / delta := by positivity
  have h3 : 5 / 4 / delta < 4 / 3 := by
    have := (Real.log_lt_iff_lt_exp hpos).mp hL4
    exact this.trans_le exp_quarter_le
  have h4 : 5 / 4 < 4 / 3 * delta := by
    rwa [div_lt_iff₀ hd] at h3
  linarith

/-- **the tail at the calibrated point is at most `δ`** — for any function with the Chernoff-½ bound (H1) and the
density-½ bound (H2), at every `u ≥ c - ε/(2c)`, `c = √(2 log(1.25/δ))` -/
theorem gauss_tail_core (Φ : ℝ → ℝ)
    (H1 : ∀ t, 0 ≤ t → Φ (-t) ≤ Real.exp (-t ^ 2 / 2) / 2)
    (H2 : ∀ t, 0 ≤ t → Φ t ≤ 1 / 2 + t / 2)
    (eps delta : ℝ) (he : 0 < eps) (he1 : eps ≤ 1) (hd : 0 < delta) (hd1 : delta < 1)
    (u : ℝ)
    (hu : Real.sqrt (2 * Real.log (5 / 4 / delta))
        - eps / (2 * Real.sqrt (2 * Real.log (5 / 4 / delta))) ≤ u) :
    Φ (-u) ≤ delta := by
  rcases le_or_gt 0 u with h | h
  · exact (H1 u h).trans (chernoff_le_delta eps delta he he1 hd hd1 u h hu)
  · exact (H2 (-u) (by linarith)).trans (small_arg_le_delta eps delta he he1 hd hd1 u h hu)

/-- when `ε ≤ 4 log(1.25/δ)` (always the case for `δ ≤ 15/16`) the calibrated point is `≥ 0` and H1 alone suffices -/
theorem gauss_tail_core_chernoff (Φ : ℝ → ℝ)
    (H1 : ∀ t, 0 ≤ t → Φ (-t) ≤ Real.exp (-t ^ 2 / 2) / 2)
    (eps delta : ℝ) (he : 0 < eps) (he1 : eps ≤ 1) (hd : 0 < delta) (hd1 : delta < 1)
    (hsmall : eps ≤ 4 * Real.log (5 / 4 / delta)) :
    Φ (-(Real.sqrt (2 * Real.log (5 / 4 / delta))
        - eps / (2 * Real.sqrt (2 * Real.log (5 / 4 / delta))))) ≤ delta := by
  obtain ⟨hcc, hc, hrc, hr0, hr1⟩ := gauss_c_facts eps delta he he1 hd hd1
  set L := Real.log (5 / 4 / delta) with hLdef
  set c := Real.sqrt (2 * L) with hcdef
  set r := eps / (2 * c) with hrdef
  have hrc' : r ≤ c := by
    by_contra hcon
    rw [not_le] at hcon
    have : c * c < r * c := by
      apply mul_lt_mul_of_pos_right hcon; linarith
    linarith
  have h0 : 0 ≤ c - r := by linarith
  exact (H1 _ h0).trans (chernoff_le_delta eps delta he he1 hd hd1 _ h0 le_rfl)

/-! ### the Balle–Wang expression at the classical sigma -/

/-- the first Balle–Wang argument at `σ = c Δ/ε` is `-(c - ε/(2c))` (needs only `c ≠ 0`) -/
theorem classical_arg (eps sens c : ℝ) (he : 0 < eps) (hs : 0 < sens) (hc : 0 < c) :
    sens / (2 * (c * sens / eps)) - eps * (c * sens / eps) / sens = -(c - eps / (2 * c)) := by
  field_simp
  ring

/-- `δ ≤ 15/16` puts one in the Chernoff-only regime -/
theorem eps_le_four_log_of_delta_le (eps delta : ℝ) (he1 : eps ≤ 1) (hd : 0 < delta) (hd2 : delta ≤ 15 / 16) :
    eps ≤ 4 * Real.log (5 / 4 / delta) := by
  have hpos : (0 : ℝ) < 5 / 4 / delta := by positivity
  have h43 : (4 : ℝ) / 3 ≤ 5 / 4 / delta := by
    rw [le_div_iff₀ hd]; linarith
  have : 1 / 4 ≤ Real.log (5 / 4 / delta) := by
    rw [Real.le_log_iff_exp_le hpos]
    exact exp_quarter_le.trans h43
  linarith

section
variable [HasErf ℝ]

/-- **classical Gaussian mechanism, reduced to three facts about the normal cdf**: for ANY `erfc` whose `phi`
is non-negative (H0), has the Chernoff-½ lower tail (H1) and grows at most like `1/2 + t/2` (H2), the coded
`σ = √(2 log(1.25/δ)) Δ/ε` makes Balle–Wang's expression non-positive for all `0 < ε ≤ 1`, `0 < δ < 1`, `Δ > 0`.
The conclusion is `gauss_classical_dp_full` of `DPL/Properties/C02.lean` verbatim. -/
theorem gauss_classical_of_tail
    (H0 : ∀ x : ℝ, 0 ≤ phi x)
    (H1 : ∀ t : ℝ, 0 ≤ t → phi (-t) ≤ Real.exp (-t ^ 2 / 2) / 2)
    (H2 : ∀ t : ℝ, 0 ≤ t → phi t ≤ 1 / 2 + t / 2) :
    ∀ (eps delta sens : ℝ), 0 < eps → eps ≤ 1 → 0 < delta → delta < 1 → 0 < sens →
      balleWang eps delta sens (gaussSigma eps delta sens) ≤ 0 := by
  intro eps delta sens he he1 hd hd1 hs
  obtain ⟨-, hc, -, -, -⟩ := gauss_c_facts eps delta he he1 hd hd1
  unfold balleWang
  rw [gaussSigma_real, classical_arg eps sens _ he hs (by linarith)]
  have h1 := gauss_tail_core phi H1 H2 eps delta he he1 hd hd1 _ le_rfl
  have h2 : 0 ≤ Real.exp eps * phi (-sens / (2 * (Real.sqrt (2 * Real.log (5 / 4 / delta)) * sens / eps))
      - eps * (Real.sqrt (2 * Real.log (5 / 4 / delta)) * sens / eps) / sens) :=
    mul_nonneg (Real.exp_pos _).le (H0 _)
  linarith

/-- the same without H2, in the regime `ε ≤ 4 log(1.25/δ)` (in particular whenever `δ ≤ 15/16`) -/
theorem gauss_classical_of_chernoff
    (H0 : ∀ x : ℝ, 0 ≤ phi x)
    (H1 : ∀ t : ℝ, 0 ≤ t → phi (-t) ≤ Real.exp (-t ^ 2 / 2) / 2) :
    ∀ (eps delta sens : ℝ), 0 < eps → eps ≤ 1 → 0 < delta → delta < 1 → 0 < sens →
      eps ≤ 4 * Real.log (5 / 4 / delta) →
      balleWang eps delta sens (gaussSigma eps delta sens) ≤ 0 := by
  intro eps delta sens he he1 hd hd1 hs hsmall
  obtain ⟨-, hc, -, -, -⟩ := gauss_c_facts eps delta he he1 hd hd1
  unfold balleWang
  rw [gaussSigma_real, classical_arg eps sens _ he hs (by linarith)]
  have h1 := gauss_tail_core_chernoff phi H1 eps delta he he1 hd hd1 hsmall
  have h2 : 0 ≤ Real.exp eps * phi (-sens / (2 * (Real.sqrt (2 * Real.log (5 / 4 / delta)) * sens / eps))
      - eps * (Real.sqrt (2 * Real.log (5 / 4 / delta)) * sens / eps) / sens) :=
    mul_nonneg (Real.exp_pos _).le (H0 _)
  linarith

end

end DPL.Cont
