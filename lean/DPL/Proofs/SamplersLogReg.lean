/-
Helper lemmas for C17: norms of clipped / augmented rows, the quadratic expansion of the perturbation.
-/
import DPL.Proofs.SamplersLaws

namespace DPL.LogReg
open DPL DPL.Smp

theorem sumSq_nonneg (l : List ℝ) : 0 ≤ sumSq l := by
  unfold sumSq
  rw [sumSq_foldl]
  have : ∀ l : List ℝ, 0 ≤ (l.map (fun x => x * x)).sum := by
    intro l
    induction l with
    | nil => simp
    | cons x xs ih => simp only [List.map_cons, List.sum_cons]; nlinarith [mul_self_nonneg x]
  linarith [this l]

theorem norm2_nonneg (l : List ℝ) : 0 ≤ norm2 l := by
  unfold norm2; simp only [transc_sqrt]; exact Real.sqrt_nonneg _

theorem norm2_sq (l : List ℝ) : norm2 l ^ 2 = sumSq l := by
  unfold norm2; simp only [transc_sqrt]; exact Real.sq_sqrt (sumSq_nonneg l)

/-- ‖row / m‖ = ‖row‖ / m for m > 0 -/
theorem norm2_div (l : List ℝ) (m : ℝ) (hm : 0 < m) : norm2 (l.map (· / m)) = norm2 l / m := by
  have : l.map (· / m) = l.map (fun x => x * m⁻¹) := by
    apply List.map_congr_left; intro x _; rw [div_eq_mul_inv]
  rw [this]
  unfold norm2
  simp only [transc_sqrt]
  rw [sumSq_scale, Real.sqrt_mul' _ (sq_nonneg _), Real.sqrt_sq (by positivity), div_eq_mul_inv]

theorem sumSq_append_one (l : List ℝ) : sumSq (l ++ [1]) = sumSq l + 1 := by
  unfold sumSq
  rw [List.foldl_append]
  simp

theorem dot_add_right : ∀ (a w h : List ℝ), w.length = h.length →
    dot a (List.zipWith (· + ·) w h) = dot a w + dot a h := by
  intro a
  induction a with
  | nil => intro w h _; cases w <;> cases h <;> simp [dot]
  | cons x xs ih =>
    intro w h hl
    cases w with
    | nil => cases h with
      | nil => simp [dot]
      | cons _ _ => simp at hl
    | cons y ys => cases h with
      | nil => simp at hl
      | cons z zs =>
        simp only [List.zipWith_cons_cons, dot]
        rw [ih ys zs (by simpa using hl)]; ring

theorem dot_comm : ∀ (a b : List ℝ), dot a b = dot b a := by
  intro a
  induction a with
  | nil => intro b; cases b <;> simp [dot]
  | cons x xs ih => intro b; cases b with
    | nil => simp [dot]
    | cons y ys => simp only [dot]; rw [ih ys]; ring

theorem dot_zipWith_left : ∀ (b w h : List ℝ) (k d : ℝ), b.length = w.length → w.length = h.length →
    dot (List.zipWith (fun bi wi => bi / k + d * wi) b w) h = dot b h / k + d * dot w h := by
  intro b
  induction b with
  | nil => intro w h k d h1 h2; cases w <;> cases h <;> simp_all [dot]
  | cons x xs ih =>
    intro w h k d h1 h2
    cases w with
    | nil => simp at h1
    | cons y ys => cases h with
      | nil => simp at h2
      | cons z zs =>
        simp only [List.zipWith_cons_cons, dot]
        rw [ih ys zs k d (by simpa using h1) (by simpa using h2)]; ring

end DPL.LogReg
