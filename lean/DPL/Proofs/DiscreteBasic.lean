/-
Helper lemmas shared by the C01 proofs: the model's list primitives (`sumFrom`, `lsum`, `pyMax`) at the carrier ℝ.
-/
import DPL.Model.Discrete
import DPL.Proofs.RealCarrier
import Mathlib.Algebra.BigOperators.Group.List.Basic
import Mathlib.Tactic.Linarith
import Mathlib.Tactic.Ring

namespace DPL.Discrete

theorem sumFrom_eq (acc : ℝ) (l : List ℝ) : sumFrom acc l = acc + l.sum := by
  induction l generalizing acc with
  | nil => simp [sumFrom]
  | cons x xs ih => simp [sumFrom, ih, add_assoc]

theorem lsum_eq (l : List ℝ) : lsum l = l.sum := by simp [lsum, sumFrom_eq]

theorem pyMaxFrom_ge_init (m : ℝ) (l : List ℝ) : m ≤ pyMaxFrom m l := by
  induction l generalizing m with
  | nil => simp [pyMaxFrom]
  | cons x xs ih =>
    simp only [pyMaxFrom]
    split
    · rename_i h; exact le_trans h.le (ih x)
    · exact ih m

theorem pyMaxFrom_ge_mem (m : ℝ) (l : List ℝ) (x : ℝ) (hx : x ∈ l) : x ≤ pyMaxFrom m l := by
  induction l generalizing m with
  | nil => cases hx
  | cons y ys ih =>
    simp only [pyMaxFrom]
    rcases List.mem_cons.mp hx with rfl | h
    · split
      · exact pyMaxFrom_ge_init _ _
      · rename_i hlt; exact le_trans (not_lt.mp hlt) (pyMaxFrom_ge_init _ _)
    · exact ih _ h

theorem pyMaxFrom_mem (m : ℝ) (l : List ℝ) : pyMaxFrom m l = m ∨ pyMaxFrom m l ∈ l := by
  induction l generalizing m with
  | nil => left; simp [pyMaxFrom]
  | cons y ys ih =>
    simp only [pyMaxFrom]
    split
    · rcases ih y with h | h
      · right; rw [h]; exact List.mem_cons_self
      · right; exact List.mem_cons_of_mem _ h
    · rcases ih m with h | h
      · left; exact h
      · right; exact List.mem_cons_of_mem _ h

/-- every element is at most Python's `max(list)` -/
theorem pyMax_ge (l : List ℝ) (x : ℝ) (hx : x ∈ l) : x ≤ pyMax l := by
  cases l with
  | nil => cases hx
  | cons y ys =>
    simp only [pyMax]
    rcases List.mem_cons.mp hx with rfl | h
    · exact pyMaxFrom_ge_init _ _
    · exact pyMaxFrom_ge_mem _ _ _ h

/-- Python's `max(list)` is an element of a non-empty list -/
theorem pyMax_mem (l : List ℝ) (hl : l ≠ []) : pyMax l ∈ l := by
  cases l with
  | nil => exact absurd rfl hl
  | cons y ys =>
    simp only [pyMax]
    rcases pyMaxFrom_mem y ys with h | h
    · rw [h]; exact List.mem_cons_self
    · exact List.mem_cons_of_mem _ h

/-- if every coordinate moves by an amount in `[lo, hi]`, so does the maximum -/
theorem pyMax_shift (us us' : List ℝ) (hlen : us.length = us'.length) (hne : us ≠ []) (lo hi : ℝ)
    (h : ∀ i (h1 : i < us.length) (h2 : i < us'.length), lo ≤ us'[i] - us[i] ∧ us'[i] - us[i] ≤ hi) :
    lo ≤ pyMax us' - pyMax us ∧ pyMax us' - pyMax us ≤ hi := by
  have hne' : us' ≠ [] := by
    intro h0; apply hne; apply List.eq_nil_of_length_eq_zero; rw [hlen, h0]; rfl
  constructor
  · obtain ⟨i, hi1, hi2⟩ := List.getElem_of_mem (pyMax_mem us hne)
    have hi' : i < us'.length := hlen ▸ hi1
    have h1 := (h i hi1 hi').1
    have h2 := pyMax_ge us' us'[i] (List.getElem_mem hi')
    rw [hi2] at h1; linarith
  · obtain ⟨i, hi1, hi2⟩ := List.getElem_of_mem (pyMax_mem us' hne')
    have hi' : i < us.length := hlen ▸ hi1
    have h1 := (h i hi' hi1).2
    have h2 := pyMax_ge us us[i] (List.getElem_mem hi')
    rw [hi2] at h1; linarith

end DPL.Discrete
