/-
`model_privloss` for the random forest / decision tree (C08), in the vector-input calculus of `ModelsVecCalc.lean`.

Replacing one record (row index `pre.length`):
  * only the tree `treeOf[pre.length]` sees a different row set (disjoint subsets: `rowsOf_other`, `rowsOf_split`);
  * in that tree the class counts of a leaf move only in the (leaf, class) cell the record leaves and the cell it
    joins, by one each (`cell_count_split`, `leaf_incr_le`);
  * decoded (`decode_pack`), the utility vector of a leaf therefore has `up ≤ [leaf joined]`, `dn ≤ [leaf left]`, both
    0 when the record keeps its cell: every displacement is within the sensitivity 1, and the weights add up to at most 2
    (two pure moves in two leaves, or one label swap inside one leaf), to 0 when the record keeps its cell.
-/
import DPL.Proofs.ModelsVecCalc
import DPL.Proofs.ModelsLoss2

namespace DPL
namespace PM
open DPL

/-! ### decode ∘ pack -/

theorem digit_foldr (n : ℕ) (d : ℕ → ℕ) (hd : ∀ c, d c ≤ n) (l : List ℕ) (i : ℕ) (hi : i < l.length) :
    (l.foldr (fun c acc => acc * (n + 1) + d c) 0) / (n + 1) ^ i % (n + 1) = d l[i] := by
  induction l generalizing i with
  | nil => simp at hi
  | cons c cs ih =>
    simp only [List.foldr_cons]
    have hlt : d c < n + 1 := Nat.lt_succ_of_le (hd c)
    cases i with
    | zero =>
      simp only [pow_zero, Nat.div_one, List.getElem_cons_zero]
      exact Nat.mul_add_mod_of_lt hlt
    | succ i =>
      have hi' : i < cs.length := by simpa using hi
      simp only [List.getElem_cons_succ]
      rw [pow_succ, mul_comm ((n + 1) ^ i) (n + 1), ← Nat.div_div_eq_div_mul,
        mul_comm _ (n + 1), Nat.mul_add_div (Nat.succ_pos n), Nat.div_eq_of_lt hlt, add_zero]
      exact ih i hi'

/-- decoding the number the forest plan hands to PermuteAndFlip gives back the class counts (every count ≤ n) -/
theorem decode_pack (n K : ℕ) (ys : List ℕ) (h : ys.length ≤ n) :
    decodeVec n K (packCounts n K ys : ℝ) = (List.range K).map fun c => (ys.filter (· == c)).length := by
  unfold decodeVec packCounts nat
  rw [transc_floor, Int.floor_natCast, Int.toNat_natCast]
  unfold unpackCounts
  apply List.map_congr_left
  intro c hc
  have hc' : c < (List.range K).length := by simpa using hc
  have := digit_foldr n (fun c => (ys.filter (· == c)).length)
    (fun c => le_trans (List.length_filter_le _ _) h) (List.range K) c hc'
  simpa using this

/-! ### (leaf, class) cell counts under one replaced record -/

/-- the class counts of leaf `l` among the rows `R`: the utility vector handed to PermuteAndFlip -/
def leafCounts (lf : Rec ℝ → Nat) (K l : Nat) (R : DS ℝ) : List Nat :=
  (List.range K).map fun c => (((R.filter fun q => lf q == l).map (·.y)).filter (· == c)).length

theorem cell_count_split (lf : Rec ℝ → Nat) (l c : Nat) (A B : DS ℝ) (q : Rec ℝ) :
    ((((A ++ q :: B).filter fun q => lf q == l).map (·.y)).filter (· == c)).length =
      (((A.filter fun q => lf q == l).map (·.y)).filter (· == c)).length + (if lf q = l ∧ q.y = c then 1 else 0) +
        (((B.filter fun q => lf q == l).map (·.y)).filter (· == c)).length := by
  simp only [List.filter_append, List.filter_cons, List.map_append, List.length_append, beq_iff_eq]
  by_cases h1 : lf q = l <;> by_cases h2 : q.y = c <;> (simp [h1, h2]; try omega)

/-- the increase of a leaf's utility vector is at most 1, and 0 unless the record joins this leaf in a new cell -/
theorem leaf_incr_le (lf : Rec ℝ → Nat) (K l : Nat) (A B : DS ℝ) (r r' : Rec ℝ) :
    maxIncr (leafCounts lf K l (A ++ r :: B)) (leafCounts lf K l (A ++ r' :: B)) ≤
      (if lf r' = l ∧ ¬ (lf r = lf r' ∧ r.y = r'.y) then 1 else 0) := by
  unfold leafCounts
  apply maxIncr_map_le
  intro c _
  rw [cell_count_split, cell_count_split]
  by_cases h1 : lf r' = l ∧ r'.y = c
  · obtain ⟨rfl, rfl⟩ := h1
    by_cases h2 : lf r = lf r' ∧ r.y = r'.y
    · simp [h2]
    · simp only [h2, and_self, if_true, if_false, not_false_eq_true]
      omega
  · rw [if_neg h1]
    split_ifs <;> omega

/-! ### the rows of a tree -/

/-- the tree that holds the replaced row sees the same rows before and after it -/
theorem rowsOf_split (p : ForestParams ℝ) (ti : Nat) (pre post : DS ℝ) (h : p.treeOf.getD pre.length 0 = ti) :
    ∃ A B : DS ℝ, ∀ q, rowsOf p ti (pre ++ q :: post) = A ++ q :: B := by
  refine ⟨(pre.zipIdx.filter fun ri => p.treeOf.getD ri.2 0 == ti).map (·.1),
    ((post.zipIdx (pre.length + 1)).filter fun ri => p.treeOf.getD ri.2 0 == ti).map (·.1), fun q => ?_⟩
  unfold rowsOf
  simp only [List.zipIdx_append, List.zipIdx_cons, List.filter_append, List.filter_cons, zero_add, beq_iff_eq]
  simp only [List.getD_eq_getElem?_getD] at h
  simp [h]

theorem rowsOf_length_le (p : ForestParams ℝ) (ti : Nat) (D : DS ℝ) : (rowsOf p ti D).length ≤ D.length := by
  unfold rowsOf
  rw [List.length_map]
  exact le_trans (List.length_filter_le _ _) (by simp)

/-! ### small list facts -/

theorem map_fst_zip_sublist {β γ : Type} (l : List β) (m : List γ) : List.Sublist ((l.zip m).map Prod.fst) l := by
  induction l generalizing m with
  | nil => simp
  | cons a as ih =>
    cases m with
    | nil => simp
    | cons b bs => simpa using ih bs

theorem sum_map_le_gen {ι : Type} (l : List ι) (f g : ι → ℝ) (h : ∀ i ∈ l, f i ≤ g i) :
    (l.map f).sum ≤ (l.map g).sum := by
  induction l with
  | nil => simp
  | cons c cs ih =>
    simp only [List.map_cons, List.sum_cons]
    linarith [h c (by simp), ih fun i hi => h i (by simp [hi])]

theorem zipIdx_single_sum_le {β : Type} (l : List β) (a : ℕ) (w : ℝ) (hw : 0 ≤ w) :
    (l.zipIdx.map fun ti => if a = ti.2 then w else 0).sum ≤ w := by
  have h : (l.zipIdx.map fun ti => if a = ti.2 then w else 0) =
      ((l.zipIdx.map Prod.snd).map fun c => if c = a then w else 0) := by
    rw [List.map_map]; apply List.map_congr_left; intro x _; simp [eq_comm]
  rw [h, List.zipIdx_map_snd]
  exact single_sum_le _ List.nodup_range' a w hw

/-! ### one invocation -/

theorem isVec_pfCall (p : ForestParams ℝ) : isVec (pfCall p) = true := by simp [isVec, pfCall]

/-- an invocation whose input is the same on both datasets costs nothing -/
theorem lossLeW_one_same {δ : Type} (n K : Nat) (D D' : δ) (c : MechCall ℝ) (inp : δ → ℝ) (h : inp D = inp D') :
    lossLeW (relDispV n K) (wtDispV n K) D D' (one c inp) 0 := by
  refine ⟨?_, fun o => ?_⟩
  · rw [h, (dispV_same n K c _).1]; norm_num
  · show (0 : ℝ) ≤ 0 - c.eps * wtDispV n K c (inp D) (inp D')
    rw [h, (dispV_same n K c _).2]; simp

/-! ### one tree, the forest -/

section forest
variable (p : ForestParams ℝ) (hε : 0 ≤ p.eps) (pre post : DS ℝ) (r r' : Rec ℝ)
  (hn : pre.length + 1 + post.length ≤ p.n)

/-- the replaced record keeps its (leaf, class) cell in tree `t` -/
def sameCell (p : ForestParams ℝ) (t : Tree ℝ) (r r' : Rec ℝ) : Prop :=
  t.leafOf (clipRow p.lo p.hi r) = t.leafOf (clipRow p.lo p.hi r') ∧ r.y = r'.y

noncomputable instance (p : ForestParams ℝ) (t : Tree ℝ) (r r' : Rec ℝ) : Decidable (sameCell p t r r') := by
  unfold sameCell; infer_instance

include hε hn

/-- one PermuteAndFlip invocation of the tree holding the replaced row: displacement within the sensitivity, weight at
most [record joins leaf `l`] + [record leaves leaf `l`], and 0 when it keeps its cell -/
theorem leaf_call_loss (t : Tree ℝ) (ti l : Nat) (A B : DS ℝ) (hrows : ∀ q, rowsOf p ti (pre ++ q :: post) = A ++ q :: B) :
    let lf := fun q : Rec ℝ => t.leafOf (clipRow p.lo p.hi q)
    let w : ℝ := (if sameCell p t r r' then 0 else 1) * p.eps
    lossLeW (relDispV p.n p.K) (wtDispV p.n p.K) (pre ++ r :: post) (pre ++ r' :: post)
      (one (pfCall p) (fun D => packCounts p.n p.K (((rowsOf p ti D).filter fun q => lf q == l).map (·.y))))
      ((if l = lf r' then w else 0) + (if l = lf r then w else 0)) := by
  intro lf w
  have hlen : ∀ q, ((((rowsOf p ti (pre ++ q :: post)).filter fun q => lf q == l).map (·.y))).length ≤ p.n := by
    intro q
    rw [List.length_map]
    refine le_trans (List.length_filter_le _ _) (le_trans (rowsOf_length_le p ti _) ?_)
    have : (pre ++ q :: post).length = pre.length + 1 + post.length := by simp; omega
    omega
  have hdec : ∀ q, decodeVec p.n p.K
      (packCounts p.n p.K (((rowsOf p ti (pre ++ q :: post)).filter fun q => lf q == l).map (·.y)) : ℝ) =
      leafCounts lf p.K l (A ++ q :: B) := by
    intro q
    rw [decode_pack _ _ _ (hlen q), hrows q]; rfl
  have hup := leaf_incr_le lf p.K l A B r r'
  have hdn := leaf_incr_le lf p.K l A B r' r
  have hb := vec_bounds (pfCall p) rfl _ _ _ _ hup hdn (by split <;> norm_num) (by split <;> norm_num)
  have hrel : relDispV p.n p.K (pfCall p)
      (packCounts p.n p.K (((rowsOf p ti (pre ++ r :: post)).filter fun q => lf q == l).map (·.y)))
      (packCounts p.n p.K (((rowsOf p ti (pre ++ r' :: post)).filter fun q => lf q == l).map (·.y))) ≤ 1 := by
    unfold relDispV
    rw [isVec_pfCall, if_pos rfl, hdec r, hdec r']
    exact hb.1
  have hwt : wtDispV p.n p.K (pfCall p)
      (packCounts p.n p.K (((rowsOf p ti (pre ++ r :: post)).filter fun q => lf q == l).map (·.y)))
      (packCounts p.n p.K (((rowsOf p ti (pre ++ r' :: post)).filter fun q => lf q == l).map (·.y))) ≤
      (((if lf r' = l ∧ ¬ (lf r = lf r' ∧ r.y = r'.y) then 1 else 0 : ℕ) : ℝ) +
        ((if lf r = l ∧ ¬ (lf r' = lf r ∧ r'.y = r.y) then 1 else 0 : ℕ) : ℝ)) := by
    unfold wtDispV
    rw [isVec_pfCall, if_pos rfl, hdec r, hdec r']
    exact hb.2
  have e := mul_le_mul_of_nonneg_left hwt hε
  have key : p.eps * (((if lf r' = l ∧ ¬ (lf r = lf r' ∧ r.y = r'.y) then 1 else 0 : ℕ) : ℝ) +
        ((if lf r = l ∧ ¬ (lf r' = lf r ∧ r'.y = r.y) then 1 else 0 : ℕ) : ℝ)) =
      (if l = lf r' then w else 0) + (if l = lf r then w else 0) := by
    by_cases hs : sameCell p t r r'
    · have hs1 : lf r = lf r' ∧ r.y = r'.y := hs
      have hs2 : lf r' = lf r ∧ r'.y = r.y := ⟨hs.1.symm, hs.2.symm⟩
      have hw : w = 0 := by simp [w, hs]
      rw [if_neg (fun h => h.2 hs1), if_neg (fun h => h.2 hs2), hw]
      simp
    · have hs1 : ¬ (lf r = lf r' ∧ r.y = r'.y) := hs
      have hs2 : ¬ (lf r' = lf r ∧ r'.y = r.y) := fun h => hs ⟨h.1.symm, h.2.symm⟩
      have hw : w = p.eps := by simp [w, hs]
      have e1 : (lf r' = l ∧ ¬ (lf r = lf r' ∧ r.y = r'.y)) ↔ l = lf r' := ⟨fun h => h.1.symm, fun h => ⟨h.symm, hs1⟩⟩
      have e2 : (lf r = l ∧ ¬ (lf r' = lf r ∧ r'.y = r.y)) ↔ l = lf r := ⟨fun h => h.1.symm, fun h => ⟨h.symm, hs2⟩⟩
      rw [hw]
      simp only [e1, e2]
      by_cases ha : l = lf r' <;> by_cases hb' : l = lf r
      · rw [if_pos ha, if_pos hb', if_pos ha, if_pos hb']; push_cast; ring
      · rw [if_pos ha, if_neg hb', if_pos ha, if_neg hb']; push_cast; ring
      · rw [if_neg ha, if_pos hb', if_neg ha, if_pos hb']; push_cast; ring
      · rw [if_neg ha, if_neg hb', if_neg ha, if_neg hb']; push_cast; ring
  refine ⟨hrel, fun o => ?_⟩
  show (0 : ℝ) ≤ _ - p.eps * _
  linarith

/-- one tree: 0 for the trees that do not hold the replaced row; for the one that does, at most 2ε, and 0 when the
record keeps its (leaf, class) cell -/
theorem tree_loss (ti : Nat) (t : Tree ℝ) :
    lossLeW (relDispV p.n p.K) (wtDispV p.n p.K) (pre ++ r :: post) (pre ++ r' :: post) (treePlan p ti t)
      (if p.treeOf.getD pre.length 0 = ti then (if sameCell p t r r' then 0 else 2) * p.eps else 0) := by
  unfold treePlan
  intro _
  beta_reduce
  set occ := t.leaves.map fun l => (rowsOf p ti (pre ++ r :: post)).any
    fun q => t.leafOf (clipRow p.lo p.hi q) == l with hocc
  -- the empty leaves: constant input
  have hempty : lossLeW (relDispV p.n p.K) (wtDispV p.n p.K) (pre ++ r :: post) (pre ++ r' :: post)
      (forList (((t.leaves.zip occ).filter (!·.2)).map (·.1)) fun l =>
        (one (pfCall p) (fun _ => 0)).bind fun o => (Plan.release (l, o) : Plan (DS ℝ) ℝ (Nat × ℝ))) 0 :=
    lossLeW_forList_zero _ _ _ _ _ _ fun l _ =>
      lossLeW_map _ _ _ _ _ _ (lossLeW_one_same p.n p.K _ _ (pfCall p) (fun _ => 0) rfl)
  by_cases h : p.treeOf.getD pre.length 0 = ti
  · rw [if_pos h]
    obtain ⟨A, B, hrows⟩ := rowsOf_split p ti pre post h
    set w : ℝ := (if sameCell p t r r' then 0 else 1) * p.eps with hw
    have hw0 : 0 ≤ w := by rw [hw]; split <;> simp [hε]
    set lf := fun q : Rec ℝ => t.leafOf (clipRow p.lo p.hi q) with hlf
    have hocc1 := lossLeW_forList (relDispV p.n p.K) (wtDispV p.n p.K) (pre ++ r :: post) (pre ++ r' :: post)
      (((t.leaves.zip occ).filter (·.2)).map (·.1))
      (fun l => (one (pfCall p) (fun D => packCounts p.n p.K
          (((rowsOf p ti D).filter fun q => lf q == l).map (·.y)))).bind
        fun o => (Plan.release (l, o) : Plan (DS ℝ) ℝ (Nat × ℝ)))
      (fun l => (if l = lf r' then w else 0) + (if l = lf r then w else 0))
      (fun l _ => lossLeW_map _ _ _ _ _ _ (leaf_call_loss p hε pre post r r' hn t ti l A B hrows))
    have hnd : (((t.leaves.zip occ).filter (·.2)).map (·.1)).Nodup := by
      refine List.Nodup.sublist (List.Sublist.trans (List.Sublist.map _ List.filter_sublist)
        (map_fst_zip_sublist _ _)) ?_
      exact List.Nodup.filter _ List.nodup_range
    have hsum : ((((t.leaves.zip occ).filter (·.2)).map (·.1)).map
        fun l => (if l = lf r' then w else 0) + (if l = lf r then w else 0)).sum ≤ w + w := by
      rw [sum_map_add']
      exact add_le_add (single_sum_le _ hnd _ w hw0) (single_sum_le _ hnd _ w hw0)
    refine lossLeW_mono _ _ _ _ _ ?_
      (lossLeW_bind _ _ _ _ _ _ hocc1 fun a => lossLeW_bind _ _ _ _ _ _ hempty fun b => lossLeW_release _ _ _ _ _)
    have : w + w = (if sameCell p t r r' then 0 else 2) * p.eps := by
      rw [hw]; split <;> ring
    linarith
  · rw [if_neg h]
    have hrows := rowsOf_other p ti pre post r r' h
    have hocc1 : lossLeW (relDispV p.n p.K) (wtDispV p.n p.K) (pre ++ r :: post) (pre ++ r' :: post)
        (forList (((t.leaves.zip occ).filter (·.2)).map (·.1)) fun l =>
          (one (pfCall p) (fun D => packCounts p.n p.K
            (((rowsOf p ti D).filter fun q => t.leafOf (clipRow p.lo p.hi q) == l).map (·.y)))).bind
          fun o => (Plan.release (l, o) : Plan (DS ℝ) ℝ (Nat × ℝ))) 0 :=
      lossLeW_forList_zero _ _ _ _ _ _ fun l _ =>
        lossLeW_map _ _ _ _ _ _ (lossLeW_one_same p.n p.K _ _ (pfCall p) _ (by simp only [hrows]))
    refine lossLeW_mono _ _ _ _ _ (le_of_eq ?_)
      (lossLeW_bind _ _ _ _ _ _ hocc1 fun a => lossLeW_bind _ _ _ _ _ _ hempty fun b => lossLeW_release _ _ _ _ _)
    ring

/-- the forest: only the tree holding the replaced row contributes -/
theorem forest_privloss_gen :
    lossLeW (relDispV p.n p.K) (wtDispV p.n p.K) (pre ++ r :: post) (pre ++ r' :: post) (forestPlan p)
      (p.trees.zipIdx.map fun ti => if p.treeOf.getD pre.length 0 = ti.2 then
        (if sameCell p ti.1 r r' then 0 else 2) * p.eps else 0).sum :=
  lossLeW_forList _ _ _ _ _ _ _ fun ti _ => tree_loss p hε pre post r r' hn ti.2 ti.1

/-- RandomForest / DecisionTree: every PermuteAndFlip input moves by at most its sensitivity and Σ εᵢ·wᵢ ≤ 2ε -/
theorem forest_privloss :
    lossLeW (relDispV p.n p.K) (wtDispV p.n p.K) (pre ++ r :: post) (pre ++ r' :: post) (forestPlan p) (2 * p.eps) := by
  refine lossLeW_mono _ _ _ _ _ ?_ (forest_privloss_gen p hε pre post r r' hn)
  refine le_trans (sum_map_le_gen _ _ (fun ti => if p.treeOf.getD pre.length 0 = ti.2 then 2 * p.eps else 0)
    fun ti _ => ?_) (zipIdx_single_sum_le _ _ _ (by positivity))
  split
  · split <;> nlinarith
  · exact le_refl _

/-- … and nothing at all when the replaced record keeps its leaf and its class in every tree -/
theorem forest_privloss_stay (hsame : ∀ t ∈ p.trees, sameCell p t r r') :
    lossLeW (relDispV p.n p.K) (wtDispV p.n p.K) (pre ++ r :: post) (pre ++ r' :: post) (forestPlan p) 0 := by
  refine lossLeW_mono _ _ _ _ _ (le_of_eq ?_) (forest_privloss_gen p hε pre post r r' hn)
  apply List.sum_eq_zero
  intro x hx
  obtain ⟨ti, hti, rfl⟩ := List.mem_map.mp hx
  have hmem : ti.1 ∈ p.trees := by
    have := (List.mem_zipIdx' (x := ti.1) (i := ti.2) hti).2
    rw [this]; exact List.getElem_mem _
  simp [hsame ti.1 hmem]

end forest

end PM
end DPL
