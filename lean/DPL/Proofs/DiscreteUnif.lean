/-
C01: the single-uniform samplers as statements about `unif01` (the law of one `random()` draw): the probability of
an output set `T` is `unif01 (sampler ⁻¹' T)` — the push-forward of `unif01` under the model sampler evaluated at `T`.
Restates the volume-form laws / DP inequalities of `Discrete{Exp,Select,Geom,GeomDP}` in that form and lifts the
atom-wise ones (Binary, Exponential's inverse-CDF selection) to every set of outputs.
-/
import DPL.Proofs.DiscreteStream
import DPL.Proofs.DiscreteExp
import DPL.Proofs.DiscreteSelect
import DPL.Proofs.DiscreteGeomDP
import Mathlib.Data.List.GetD
import Mathlib.MeasureTheory.Function.Floor

namespace DPL.Discrete
open MeasureTheory Set
open scoped ENNReal

/-- `unif01 (f ⁻¹' T)` is the Lebesgue measure of the uniforms of [0,1) that `f` sends into `T` -/
theorem unif01_preimage {β : Type*} (f : ℝ → β) (T : Set β) :
    unif01 (f ⁻¹' T) = volume {u : ℝ | u ∈ Ico (0:ℝ) 1 ∧ f u ∈ T} := unif01_apply _

theorem unif01_preimage' {β : Type*} (f : ℝ → β) (T : Set β) :
    unif01 (f ⁻¹' T) = volume (Ico (0:ℝ) 1 ∩ f ⁻¹' T) := by
  rw [unif01_preimage]; rfl

/-- atoms to sets for a sampler of one uniform -/
theorem unif01_dp_sets {ι : Type*} [Countable ι] (f f' : ℝ → ι)
    (hm' : ∀ o, NullMeasurableSet (Ico (0:ℝ) 1 ∩ f' ⁻¹' {o}) volume) (C : ℝ≥0∞)
    (hat : ∀ o, unif01 (f ⁻¹' {o}) ≤ C * unif01 (f' ⁻¹' {o})) (T : Set ι) :
    unif01 (f ⁻¹' T) ≤ C * unif01 (f' ⁻¹' T) := by
  simp only [unif01_preimage'] at hat ⊢
  exact dp_sets_of_atoms volume (Ico (0:ℝ) 1) f f' hm' C hat T

/-! ### index draw, inverse-CDF selection -/

theorem index_law_unif (n : ℕ) (hn : 0 < n) (j : ℕ) (hj : j < n) :
    unif01 ((fun u : ℝ => (⌊u * (n : ℝ)⌋).toNat) ⁻¹' {j}) = ENNReal.ofReal (1 / (n : ℝ)) := by
  rw [unif01_preimage]; exact index_law n hn j hj

theorem index_measurable (n : ℕ) : Measurable (fun u : ℝ => (⌊u * (n : ℝ)⌋).toNat) :=
  (measurable_from_top (f := Int.toNat)).comp (Int.measurable_floor.comp (measurable_id.mul_const _))

/-- the index draw as a push-forward: `unif01.map (u ↦ int(u·n))` gives every index mass `1/n` -/
theorem index_map_unif (n : ℕ) (hn : 0 < n) (j : ℕ) (hj : j < n) :
    (unif01.map (fun u : ℝ => (⌊u * (n : ℝ)⌋).toNat)) {j} = ENNReal.ofReal (1 / (n : ℝ)) := by
  rw [Measure.map_apply (index_measurable n) (measurableSet_singleton j)]
  exact index_law_unif n hn j hj

theorem expSelect_law_unif (rtol atol : ℝ) (ps : List ℝ) (hnn : ∀ p ∈ ps, 0 ≤ p) (hsum : ps.sum = 1) (i : ℕ)
    (hi : i < ps.length) :
    unif01 ((expSelect rtol atol (cumFrom 0 ps)) ⁻¹' {.ok i}) = ENNReal.ofReal ps[i] := by
  rw [unif01_preimage]; exact expSelect_law rtol atol ps hnn hsum i hi

/-! ### Binary -/

theorem binary_sampler_dp (eps : ℝ) (heps : 0 ≤ eps) (x x' : Bool) (T : Set Bool) :
    unif01 ((binaryRandomise eps 0 x) ⁻¹' T)
      ≤ ENNReal.ofReal (Real.exp eps) * unif01 ((binaryRandomise eps 0 x') ⁻¹' T) := by
  refine unif01_dp_sets _ _ (fun o => ?_) _ (fun o => ?_) T
  · have hset : Ico (0:ℝ) 1 ∩ (binaryRandomise eps 0 x') ⁻¹' {o}
        = {u : ℝ | u ∈ Ico (0:ℝ) 1 ∧ binaryRandomise eps 0 x' u = o} := rfl
    rw [hset]
    by_cases h : o = x'
    · subst h; rw [binary_keep_set]; exact measurableSet_Icc.nullMeasurableSet
    · have : o = !x' := by cases o <;> cases x' <;> simp_all
      subst this; rw [binary_flip_set]; exact measurableSet_Ioo.nullMeasurableSet
  · rw [unif01_preimage, unif01_preimage]
    exact binary_ratio eps heps x x' o

/-! ### Geometric family -/

theorem geom_sampler_dp (eps : ℝ) (heps : 0 < eps) (sens : ℕ) (x x' : ℤ) (hnb : |x - x'| ≤ (sens : ℤ)) (T : Set ℤ) :
    unif01 ((geomRandomise eps sens x) ⁻¹' T)
      ≤ ENNReal.ofReal (Real.exp eps) * unif01 ((geomRandomise eps sens x') ⁻¹' T) := by
  rw [unif01_preimage, unif01_preimage]; exact geom_set_dp eps heps sens x x' hnb T

theorem geom_trunc_sampler_dp (eps : ℝ) (heps : 0 < eps) (sens : ℕ) (x x' : ℤ) (hnb : |x - x'| ≤ (sens : ℤ))
    (lo hi : Bnd) (T : Set (Option ℤ)) :
    unif01 ((geomTruncRandomise eps sens lo hi x) ⁻¹' T)
      ≤ ENNReal.ofReal (Real.exp eps) * unif01 ((geomTruncRandomise eps sens lo hi x') ⁻¹' T) := by
  rw [unif01_preimage, unif01_preimage]; exact geom_trunc_dp eps heps sens x x' hnb lo hi T

theorem geom_fold_sampler_dp (eps : ℝ) (heps : 0 < eps) (sens : ℕ) (x x' : ℤ) (hnb : |x - x'| ≤ (sens : ℤ))
    (lo hi : Bnd) (fuel : ℕ) (T : Set (Option ℤ)) :
    unif01 ((geomFoldRandomise eps sens lo hi fuel x) ⁻¹' T)
      ≤ ENNReal.ofReal (Real.exp eps) * unif01 ((geomFoldRandomise eps sens lo hi fuel x') ⁻¹' T) := by
  rw [unif01_preimage, unif01_preimage]; exact geom_fold_dp eps heps sens x x' hnb lo hi fuel T

/-! ### Exponential: the inverse-CDF selection on every set of results -/

instance : Countable DErr := by
  have : Function.Injective (fun e : DErr =>
      (match e with | .typeError => 0 | .valueError => 1 | .runtimeError => 2 | .exhausted => 3 : ℕ)) := by
    intro a b h; cases a <;> cases b <;> simp_all
  exact this.countable

instance : Countable (Except DErr ℕ) := by
  have : Function.Injective (fun x : Except DErr ℕ =>
      (match x with | .ok i => Sum.inr i | .error e => Sum.inl e : DErr ⊕ ℕ)) := by
    intro a b h; cases a <;> cases b <;> simp_all
  exact this.countable

theorem firstLt_lt_length (u : ℝ) (cs : List ℝ) (i : ℕ) (h : firstLt u cs = some i) : i < cs.length := by
  induction cs generalizing i with
  | nil => simp [firstLt] at h
  | cons c cs ih =>
    rw [firstLt_cons] at h
    split_ifs at h
    · injection h with h; subst h; simp
    · cases hf : firstLt u cs with
      | none => simp [hf] at h
      | some m =>
        simp only [hf, Option.map_some, Option.some.injEq] at h
        subst h
        simpa using ih m hf

theorem cumFrom_length (acc : ℝ) (ps : List ℝ) : (cumFrom acc ps).length = ps.length := by
  induction ps generalizing acc with
  | nil => rfl
  | cons p ps ih => simp [cumFrom, ih]

/-- for a uniform in [0,1) and probabilities summing to one the selection returns an index in range -/
theorem expSelect_ok_of_mem (rtol atol : ℝ) (ps : List ℝ) (hnn : ∀ p ∈ ps, 0 ≤ p) (hsum : ps.sum = 1) (u : ℝ)
    (hu : u ∈ Ico (0:ℝ) 1) : ∃ j, j < ps.length ∧ expSelect rtol atol (cumFrom 0 ps) u = .ok j := by
  have hne : ps ≠ [] := by rintro rfl; simp at hsum
  obtain ⟨j, hj⟩ := firstLt_isSome ps hne 0 u (by rw [hsum]; linarith [hu.2]) hnn
  refine ⟨j, ?_, (expSelect_eq_firstLt rtol atol ps hne hnn hsum u hu.2 j).mpr hj⟩
  have := firstLt_lt_length u _ j hj
  rwa [cumFrom_length] at this

theorem expSelect_atom_measurable (rtol atol : ℝ) (ps : List ℝ) (hnn : ∀ p ∈ ps, 0 ≤ p) (hsum : ps.sum = 1)
    (o : Except DErr ℕ) : MeasurableSet (Ico (0:ℝ) 1 ∩ (expSelect rtol atol (cumFrom 0 ps)) ⁻¹' {o}) := by
  have hne : ps ≠ [] := by rintro rfl; simp at hsum
  by_cases h : ∃ i, i < ps.length ∧ o = .ok i
  · obtain ⟨i, hi, rfl⟩ := h
    have : Ico (0:ℝ) 1 ∩ (expSelect rtol atol (cumFrom 0 ps)) ⁻¹' {.ok i}
        = {u : ℝ | u ∈ Ico (0:ℝ) 1 ∧ firstLt u (cumFrom 0 ps) = some i} := by
      ext u
      simp only [mem_inter_iff, mem_preimage, mem_singleton_iff, mem_ofPred_eq]
      constructor
      · rintro ⟨hu, h⟩; exact ⟨hu, (expSelect_eq_firstLt rtol atol ps hne hnn hsum u hu.2 i).mp h⟩
      · rintro ⟨hu, h⟩; exact ⟨hu, (expSelect_eq_firstLt rtol atol ps hne hnn hsum u hu.2 i).mpr h⟩
    rw [this, select_cell ps hnn hsum i hi]
    exact measurableSet_Ico
  · have : Ico (0:ℝ) 1 ∩ (expSelect rtol atol (cumFrom 0 ps)) ⁻¹' {o} = ∅ := by
      ext u
      simp only [mem_inter_iff, mem_preimage, mem_singleton_iff, mem_empty_iff_false, iff_false]
      rintro ⟨hu, hsel⟩
      obtain ⟨j, hj, hok⟩ := expSelect_ok_of_mem rtol atol ps hnn hsum u hu
      exact h ⟨j, hj, by rw [← hsel, hok]⟩
    rw [this]; exact MeasurableSet.empty

/-- **inverse-CDF selection, every set of results**: if two probability vectors satisfy `p_i ≤ C·p'_i` entrywise, the
results of `Exponential.randomise`'s selection on one uniform satisfy the same bound on every set of results
(errors included: they have probability 0) -/
theorem select_sampler_dp (rtol atol : ℝ) (ps ps' : List ℝ) (hlen : ps.length = ps'.length)
    (hnn : ∀ p ∈ ps, 0 ≤ p) (hsum : ps.sum = 1) (hnn' : ∀ p ∈ ps', 0 ≤ p) (hsum' : ps'.sum = 1) (C : ℝ) (hC : 0 ≤ C)
    (hat : ∀ i, ps.getD i 0 ≤ C * ps'.getD i 0) (T : Set (Except DErr ℕ)) :
    unif01 ((expSelect rtol atol (cumFrom 0 ps)) ⁻¹' T)
      ≤ ENNReal.ofReal C * unif01 ((expSelect rtol atol (cumFrom 0 ps')) ⁻¹' T) := by
  refine unif01_dp_sets _ _ (fun o => (expSelect_atom_measurable rtol atol ps' hnn' hsum' o).nullMeasurableSet) _
    (fun o => ?_) T
  by_cases h : ∃ i, i < ps.length ∧ o = .ok i
  · obtain ⟨i, hi, rfl⟩ := h
    have hi' : i < ps'.length := hlen ▸ hi
    rw [expSelect_law_unif rtol atol ps hnn hsum i hi, expSelect_law_unif rtol atol ps' hnn' hsum' i hi',
      ← ENNReal.ofReal_mul hC]
    apply ENNReal.ofReal_le_ofReal
    have := hat i
    rwa [List.getD_eq_getElem _ _ hi, List.getD_eq_getElem _ _ hi'] at this
  · have : unif01 ((expSelect rtol atol (cumFrom 0 ps)) ⁻¹' {o}) = 0 := by
      rw [unif01_preimage']
      have : Ico (0:ℝ) 1 ∩ (expSelect rtol atol (cumFrom 0 ps)) ⁻¹' {o} = ∅ := by
        ext u
        simp only [mem_inter_iff, mem_preimage, mem_singleton_iff, mem_empty_iff_false, iff_false]
        rintro ⟨hu, hsel⟩
        obtain ⟨j, hj, hok⟩ := expSelect_ok_of_mem rtol atol ps hnn hsum u hu
        exact h ⟨j, hj, by rw [← hsel, hok]⟩
      rw [this, measure_empty]
    rw [this]; exact zero_le

/-! ### the model's `expPmf` is a probability vector -/

theorem sum_map_div (w : List ℝ) (z : ℝ) : (w.map (· / z)).sum = w.sum / z := by
  induction w with
  | nil => simp
  | cons x xs ih => simp only [List.map_cons, List.sum_cons, ih]; ring

theorem expPmf_prob (s tol : ℝ) (us ms : List ℝ) (hne : us ≠ []) (hms : ms = [] ∨ ms.length = us.length)
    (hm0 : ∀ m ∈ ms, 0 ≤ m) (hpos : ms = [] ∨ ∃ m ∈ ms, 0 < m) :
    (∀ p ∈ normalise (expWeights (some s) tol us ms), 0 ≤ p) ∧ (normalise (expWeights (some s) tol us ms)).sum = 1 := by
  have hZ := expWeights_sum_pos s tol us ms hne hms hm0 hpos
  have hL := expWeights_length s tol us ms hms
  have hnn : ∀ x ∈ expWeights (some s) tol us ms, 0 ≤ x := by
    intro x hx
    obtain ⟨i, hi, rfl⟩ := List.getElem_of_mem hx
    rw [expWeights_getElem s tol us ms hms i (hL ▸ hi) hi]
    exact mul_nonneg (Real.exp_pos _).le (measAt_nonneg ms hm0 i)
  unfold normalise
  simp only [lsum_eq]
  constructor
  · intro p hp
    obtain ⟨x, hx, rfl⟩ := List.mem_map.mp hp
    exact div_nonneg (hnn x hx) hZ.le
  · rw [sum_map_div, div_self hZ.ne']

end DPL.Discrete
