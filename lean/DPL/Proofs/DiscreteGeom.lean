/-
The law of the geometric noise of `Geometric.randomise` (C01) as Lebesgue measure of preimages in `[0,1)`:
`volume {u ∈ [0,1) | geomNoise s u = k} = (1-r)/(1+r) · r^|k|`, `r = exp s`, for every `s < 0` and every integer `k`,
with the explicit interval description of each cell; and the uniformity of the `int(u*len)` index draw of
permute-and-flip.
-/
import DPL.Proofs.DiscreteBasic
import Mathlib.MeasureTheory.Measure.Lebesgue.Basic
import Mathlib.Analysis.SpecialFunctions.Log.Basic
import Mathlib.Algebra.Order.Ring.Int
import Mathlib.Tactic.Linarith
import Mathlib.Tactic.Ring
import Mathlib.Tactic.FieldSimp
import Mathlib.Tactic.NormNum

namespace DPL.Discrete
open MeasureTheory Set

/-! ### the closed form -/

theorem geomPmf_eq_pow (s : ℝ) (k : ℤ) :
    geomPmf s k = (1 - Real.exp s) / (1 + Real.exp s) * Real.exp s ^ k.natAbs := by
  simp only [geomPmf, transc_exp]
  rw [← Real.exp_nat_mul, mul_comm s]

/-! ### the magnitude: `⌊log x / s⌋ = k ↔ e^{s(k+1)} < x ≤ e^{sk}` -/

theorem floor_log_div_eq_iff (s x : ℝ) (hs : s < 0) (hx : 0 < x) (k : ℤ) :
    ⌊Real.log x / s⌋ = k ↔ Real.exp (s * ((k : ℝ) + 1)) < x ∧ x ≤ Real.exp (s * (k : ℝ)) := by
  rw [Int.floor_eq_iff]
  constructor
  · rintro ⟨h1, h2⟩
    constructor
    · rw [← Real.lt_log_iff_exp_lt hx]
      have := (div_lt_iff_of_neg hs).mp h2
      linarith
    · rw [← Real.log_le_iff_le_exp hx]
      have := (le_div_iff_of_neg hs).mp h1
      linarith
  · rintro ⟨h1, h2⟩
    constructor
    · rw [le_div_iff_of_neg hs]
      have := (Real.log_le_iff_le_exp hx).mpr h2
      linarith
    · rw [div_lt_iff_of_neg hs]
      have := (Real.lt_log_iff_exp_lt hx).mpr h1
      linarith

/-! ### the three branches of `geomNoise` -/

theorem geomNoise_of_gt (s u : ℝ) (hu : 1 / 2 < u) :
    geomNoise s u = ⌊Real.log ((u - 1 / 2) * (1 + Real.exp s)) / s⌋ := by
  have hc : 0 < 1 + Real.exp s := by have := Real.exp_pos s; linarith
  have hv : ¬ (u - 1 / 2) * (1 + Real.exp s) < 0 :=
    not_lt.mpr (mul_nonneg (by linarith) hc.le)
  simp only [geomNoise, transc_exp, transc_log, transc_floor, if_neg hv]

theorem geomNoise_of_lt (s u : ℝ) (hu : u < 1 / 2) :
    geomNoise s u = -⌊Real.log ((1 / 2 - u) * (1 + Real.exp s)) / s⌋ := by
  have hc : 0 < 1 + Real.exp s := by have := Real.exp_pos s; linarith
  have hv : (u - 1 / 2) * (1 + Real.exp s) < 0 := mul_neg_of_neg_of_pos (by linarith) hc
  simp only [geomNoise, transc_exp, transc_log, transc_floor, if_pos hv]
  rw [show -((u - 1 / 2) * (1 + Real.exp s)) = (1 / 2 - u) * (1 + Real.exp s) by ring]

/-- at `u = ½` the transformed uniform is `0`, `Real.log 0 = 0` and the noise is `0` (Python redraws: measure zero) -/
theorem geomNoise_half (s : ℝ) : geomNoise s (1 / 2) = 0 := by
  simp [geomNoise]

theorem geomNoise_eq_iff_of_gt (s u : ℝ) (hs : s < 0) (hu : 1 / 2 < u) (k : ℤ) :
    geomNoise s u = k ↔
      1 / 2 + Real.exp (s * ((k : ℝ) + 1)) / (1 + Real.exp s) < u ∧
        u ≤ 1 / 2 + Real.exp (s * (k : ℝ)) / (1 + Real.exp s) := by
  have hc : 0 < 1 + Real.exp s := by have := Real.exp_pos s; linarith
  have hx : 0 < (u - 1 / 2) * (1 + Real.exp s) := mul_pos (by linarith) hc
  rw [geomNoise_of_gt s u hu, floor_log_div_eq_iff s _ hs hx k]
  have e1 : Real.exp (s * ((k : ℝ) + 1)) / (1 + Real.exp s) < u - 1 / 2 ↔
      Real.exp (s * ((k : ℝ) + 1)) < (u - 1 / 2) * (1 + Real.exp s) := div_lt_iff₀ hc
  have e2 : u - 1 / 2 ≤ Real.exp (s * (k : ℝ)) / (1 + Real.exp s) ↔
      (u - 1 / 2) * (1 + Real.exp s) ≤ Real.exp (s * (k : ℝ)) := le_div_iff₀ hc
  constructor
  · rintro ⟨h1, h2⟩
    have := e1.mpr h1
    have := e2.mpr h2
    constructor <;> linarith
  · rintro ⟨h1, h2⟩
    exact ⟨e1.mp (by linarith), e2.mp (by linarith)⟩

theorem geomNoise_eq_iff_of_lt (s u : ℝ) (hs : s < 0) (hu : u < 1 / 2) (k : ℤ) :
    geomNoise s u = k ↔
      1 / 2 - Real.exp (s * (-(k : ℝ))) / (1 + Real.exp s) ≤ u ∧
        u < 1 / 2 - Real.exp (s * (-(k : ℝ) + 1)) / (1 + Real.exp s) := by
  have hc : 0 < 1 + Real.exp s := by have := Real.exp_pos s; linarith
  have hx : 0 < (1 / 2 - u) * (1 + Real.exp s) := mul_pos (by linarith) hc
  rw [geomNoise_of_lt s u hu, neg_eq_iff_eq_neg, floor_log_div_eq_iff s _ hs hx (-k), Int.cast_neg]
  have e1 : Real.exp (s * (-(k : ℝ) + 1)) / (1 + Real.exp s) < 1 / 2 - u ↔
      Real.exp (s * (-(k : ℝ) + 1)) < (1 / 2 - u) * (1 + Real.exp s) := div_lt_iff₀ hc
  have e2 : 1 / 2 - u ≤ Real.exp (s * (-(k : ℝ))) / (1 + Real.exp s) ↔
      (1 / 2 - u) * (1 + Real.exp s) ≤ Real.exp (s * (-(k : ℝ))) := le_div_iff₀ hc
  constructor
  · rintro ⟨h1, h2⟩
    have := e1.mpr h1
    have := e2.mpr h2
    constructor <;> linarith
  · rintro ⟨h1, h2⟩
    exact ⟨e1.mp (by linarith), e2.mp (by linarith)⟩

/-! ### size of the interval end points -/

private theorem div_lt_half (s E : ℝ) (hs : s < 0) (hE : E ≤ Real.exp s) : E / (1 + Real.exp s) < 1 / 2 := by
  have hc : 0 < 1 + Real.exp s := by have := Real.exp_pos s; linarith
  have hr : Real.exp s < 1 := by rw [← Real.exp_zero]; exact Real.exp_lt_exp.mpr hs
  rw [div_lt_iff₀ hc]; linarith

private theorem half_lt_div (s E : ℝ) (hs : s < 0) (hE : 1 ≤ E) : 1 / 2 < E / (1 + Real.exp s) := by
  have hc : 0 < 1 + Real.exp s := by have := Real.exp_pos s; linarith
  have hr : Real.exp s < 1 := by rw [← Real.exp_zero]; exact Real.exp_lt_exp.mpr hs
  rw [lt_div_iff₀ hc]; linarith

private theorem exp_mul_le (s j : ℝ) (hs : s < 0) (hj : 1 ≤ j) : Real.exp (s * j) ≤ Real.exp s := by
  apply Real.exp_le_exp.mpr
  have := mul_le_mul_of_nonpos_left hj hs.le
  linarith

private theorem one_le_exp_mul (s j : ℝ) (hs : s < 0) (hj : j ≤ 0) : 1 ≤ Real.exp (s * j) :=
  Real.one_le_exp (mul_nonneg_of_nonpos_of_nonpos hs.le hj)

/-! ### the cells -/

theorem geom_cell_pos (s : ℝ) (hs : s < 0) (k : ℤ) (hk : 0 < k) :
    {u : ℝ | u ∈ Ico (0 : ℝ) 1 ∧ geomNoise s u = k} =
      Ioc (1 / 2 + Real.exp (s * ((k : ℝ) + 1)) / (1 + Real.exp s))
        (1 / 2 + Real.exp (s * (k : ℝ)) / (1 + Real.exp s)) := by
  have hc : 0 < 1 + Real.exp s := by have := Real.exp_pos s; linarith
  have hkR : (1 : ℝ) ≤ (k : ℝ) := by exact_mod_cast hk
  ext u
  simp only [mem_ofPred_eq, mem_Ico, mem_Ioc]
  constructor
  · rintro ⟨⟨h0, h1⟩, hn⟩
    rcases lt_trichotomy u (1 / 2) with hlt | heq | hgt
    · exfalso
      have hb := ((geomNoise_eq_iff_of_lt s u hs hlt k).mp hn).2
      have := half_lt_div s _ hs (one_le_exp_mul s (-(k : ℝ) + 1) hs (by linarith))
      linarith
    · exfalso
      rw [heq, geomNoise_half] at hn
      omega
    · exact (geomNoise_eq_iff_of_gt s u hs hgt k).mp hn
  · rintro ⟨ha, hb⟩
    have hpos : 0 < Real.exp (s * ((k : ℝ) + 1)) / (1 + Real.exp s) := div_pos (Real.exp_pos _) hc
    have hgt : 1 / 2 < u := by linarith
    have hsm := div_lt_half s _ hs (exp_mul_le s (k : ℝ) hs hkR)
    exact ⟨⟨by linarith, by linarith⟩, (geomNoise_eq_iff_of_gt s u hs hgt k).mpr ⟨ha, hb⟩⟩

theorem geom_cell_neg (s : ℝ) (hs : s < 0) (k : ℤ) (hk : k < 0) :
    {u : ℝ | u ∈ Ico (0 : ℝ) 1 ∧ geomNoise s u = k} =
      Ico (1 / 2 - Real.exp (s * (-(k : ℝ))) / (1 + Real.exp s))
        (1 / 2 - Real.exp (s * (-(k : ℝ) + 1)) / (1 + Real.exp s)) := by
  have hc : 0 < 1 + Real.exp s := by have := Real.exp_pos s; linarith
  have hkR : (k : ℝ) ≤ -1 := by exact_mod_cast (by omega : k ≤ -1)
  ext u
  simp only [mem_ofPred_eq, mem_Ico]
  constructor
  · rintro ⟨⟨h0, h1⟩, hn⟩
    rcases lt_trichotomy u (1 / 2) with hlt | heq | hgt
    · exact (geomNoise_eq_iff_of_lt s u hs hlt k).mp hn
    · exfalso
      rw [heq, geomNoise_half] at hn
      omega
    · exfalso
      have ha := ((geomNoise_eq_iff_of_gt s u hs hgt k).mp hn).1
      have := half_lt_div s _ hs (one_le_exp_mul s ((k : ℝ) + 1) hs (by linarith))
      linarith
  · rintro ⟨ha, hb⟩
    have hpos : 0 < Real.exp (s * (-(k : ℝ) + 1)) / (1 + Real.exp s) := div_pos (Real.exp_pos _) hc
    have hlt : u < 1 / 2 := by linarith
    have hsm := div_lt_half s _ hs (exp_mul_le s (-(k : ℝ)) hs (by linarith))
    exact ⟨⟨by linarith, by linarith⟩, (geomNoise_eq_iff_of_lt s u hs hlt k).mpr ⟨ha, hb⟩⟩

theorem geom_cell_zero (s : ℝ) (hs : s < 0) :
    {u : ℝ | u ∈ Ico (0 : ℝ) 1 ∧ geomNoise s u = 0} =
      (Ico 0 (1 / 2 - Real.exp s / (1 + Real.exp s)) ∪ Ioo (1 / 2 + Real.exp s / (1 + Real.exp s)) 1)
        ∪ {1 / 2} := by
  have hc : 0 < 1 + Real.exp s := by have := Real.exp_pos s; linarith
  have hpos : 0 < Real.exp s / (1 + Real.exp s) := div_pos (Real.exp_pos _) hc
  have hbig := half_lt_div s 1 hs le_rfl
  have hgtiff : ∀ u : ℝ, 1 / 2 < u → (geomNoise s u = 0 ↔
      1 / 2 + Real.exp s / (1 + Real.exp s) < u ∧ u ≤ 1 / 2 + 1 / (1 + Real.exp s)) := by
    intro u hu
    have := geomNoise_eq_iff_of_gt s u hs hu 0
    simpa only [Int.cast_zero, zero_add, mul_one, mul_zero, Real.exp_zero] using this
  have hltiff : ∀ u : ℝ, u < 1 / 2 → (geomNoise s u = 0 ↔
      1 / 2 - 1 / (1 + Real.exp s) ≤ u ∧ u < 1 / 2 - Real.exp s / (1 + Real.exp s)) := by
    intro u hu
    have := geomNoise_eq_iff_of_lt s u hs hu 0
    simpa only [Int.cast_zero, neg_zero, zero_add, mul_one, mul_zero, Real.exp_zero] using this
  ext u
  simp only [mem_ofPred_eq, mem_Ico, mem_Ioo, mem_union, mem_singleton_iff]
  constructor
  · rintro ⟨⟨h0, h1⟩, hn⟩
    rcases lt_trichotomy u (1 / 2) with hlt | heq | hgt
    · left; left; exact ⟨h0, ((hltiff u hlt).mp hn).2⟩
    · right; exact heq
    · left; right; exact ⟨((hgtiff u hgt).mp hn).1, h1⟩
  · rintro ((⟨h0, hb⟩ | ⟨ha, h1⟩) | heq)
    · have hlt : u < 1 / 2 := by linarith
      exact ⟨⟨h0, by linarith⟩, (hltiff u hlt).mpr ⟨by linarith, hb⟩⟩
    · have hgt : 1 / 2 < u := by linarith
      exact ⟨⟨by linarith, h1⟩, (hgtiff u hgt).mpr ⟨ha, by linarith⟩⟩
    · rw [heq]
      exact ⟨⟨by norm_num, by norm_num⟩, geomNoise_half s⟩

/-! ### measurability and the law -/

theorem geomNoise_measurable (s : ℝ) (hs : s < 0) (k : ℤ) :
    MeasurableSet {u : ℝ | u ∈ Ico (0 : ℝ) 1 ∧ geomNoise s u = k} := by
  rcases lt_trichotomy k 0 with hk | hk | hk
  · rw [geom_cell_neg s hs k hk]; exact measurableSet_Ico
  · rw [hk, geom_cell_zero s hs]
    exact (measurableSet_Ico.union measurableSet_Ioo).union (measurableSet_singleton _)
  · rw [geom_cell_pos s hs k hk]; exact measurableSet_Ioc

/-- the law of the noise of `Geometric.randomise`: two-sided geometric with ratio `exp s` -/
theorem geom_law (s : ℝ) (hs : s < 0) (k : ℤ) :
    volume {u : ℝ | u ∈ Ico (0 : ℝ) 1 ∧ geomNoise s u = k} = ENNReal.ofReal (geomPmf s k) := by
  have hc : 0 < 1 + Real.exp s := by have := Real.exp_pos s; linarith
  have hr : Real.exp s < 1 := by rw [← Real.exp_zero]; exact Real.exp_lt_exp.mpr hs
  simp only [geomPmf, transc_exp]
  rcases lt_trichotomy k 0 with hk | hk | hk
  · rw [geom_cell_neg s hs k hk, Real.volume_Ico]
    have hcast : (k.natAbs : ℝ) = -(k : ℝ) := by
      rw [Nat.cast_natAbs, abs_of_neg hk, Int.cast_neg]
    rw [hcast]
    congr 1
    rw [show s * (-(k : ℝ) + 1) = s * (-(k : ℝ)) + s by ring, Real.exp_add]
    field_simp
    ring
  · subst hk
    rw [geom_cell_zero s hs]
    have hsm := div_lt_half s _ hs (le_refl (Real.exp s))
    have hpos : 0 < Real.exp s / (1 + Real.exp s) := div_pos (Real.exp_pos _) hc
    have hd1 : Disjoint (Ico (0 : ℝ) (1 / 2 - Real.exp s / (1 + Real.exp s)) ∪
        Ioo (1 / 2 + Real.exp s / (1 + Real.exp s)) 1) {1 / 2} := by
      rw [Set.disjoint_singleton_right]
      simp only [mem_union, mem_Ico, mem_Ioo, not_or, not_and, not_lt]
      exact ⟨fun _ => by linarith, fun h => by linarith⟩
    have hd2 : Disjoint (Ico (0 : ℝ) (1 / 2 - Real.exp s / (1 + Real.exp s)))
        (Ioo (1 / 2 + Real.exp s / (1 + Real.exp s)) 1) := by
      rw [Set.disjoint_left]
      rintro u ⟨_, h1⟩ ⟨h2, _⟩
      linarith
    rw [measure_union hd1 (measurableSet_singleton _), measure_union hd2 measurableSet_Ioo,
      Real.volume_Ico, Real.volume_Ioo, Real.volume_singleton, add_zero,
      ← ENNReal.ofReal_add (by linarith) (by linarith)]
    congr 1
    simp only [Int.natAbs_zero, Nat.cast_zero, mul_zero, Real.exp_zero, mul_one]
    field_simp
    ring
  · rw [geom_cell_pos s hs k hk, Real.volume_Ioc]
    have hcast : (k.natAbs : ℝ) = (k : ℝ) := by
      rw [Nat.cast_natAbs, abs_of_pos hk]
    rw [hcast]
    congr 1
    rw [show s * ((k : ℝ) + 1) = s * (k : ℝ) + s by ring, Real.exp_add]
    field_simp
    ring

/-! ### the index draw of permute-and-flip -/

theorem index_cell (n : ℕ) (hn : 0 < n) (j : ℕ) (hj : j < n) :
    {u : ℝ | u ∈ Ico (0 : ℝ) 1 ∧ (⌊u * (n : ℝ)⌋).toNat = j} = Ico ((j : ℝ) / (n : ℝ)) (((j : ℝ) + 1) / (n : ℝ)) := by
  have hnR : (0 : ℝ) < (n : ℝ) := by exact_mod_cast hn
  have hjn : (j : ℝ) + 1 ≤ (n : ℝ) := by exact_mod_cast hj
  ext u
  simp only [mem_ofPred_eq, mem_Ico]
  rw [div_le_iff₀ hnR, lt_div_iff₀ hnR]
  constructor
  · rintro ⟨⟨h0, _⟩, hfl⟩
    have hnn : 0 ≤ ⌊u * (n : ℝ)⌋ := Int.floor_nonneg.mpr (mul_nonneg h0 hnR.le)
    have hfl' : ⌊u * (n : ℝ)⌋ = (j : ℤ) := by omega
    have := Int.floor_eq_iff.mp hfl'
    simpa using this
  · rintro ⟨h1, h2⟩
    have hjnn : (0 : ℝ) ≤ (j : ℝ) := Nat.cast_nonneg j
    have h0 : 0 ≤ u := by
      by_contra hneg
      have : u * (n : ℝ) < 0 := mul_neg_of_neg_of_pos (not_le.mp hneg) hnR
      linarith
    have hu1 : u < 1 := by
      by_contra hge
      have : (n : ℝ) ≤ u * (n : ℝ) := by
        have := mul_le_mul_of_nonneg_right (not_lt.mp hge) hnR.le
        linarith
      linarith
    refine ⟨⟨h0, hu1⟩, ?_⟩
    have hfl' : ⌊u * (n : ℝ)⌋ = (j : ℤ) := by
      rw [Int.floor_eq_iff]
      exact ⟨by simpa using h1, by simpa using h2⟩
    rw [hfl']
    simp

/-- the `int(u * len(ids))` draw of `PermuteAndFlip.randomise` is uniform on the `n` positions -/
theorem index_law (n : ℕ) (hn : 0 < n) (j : ℕ) (hj : j < n) :
    volume {u : ℝ | u ∈ Ico (0 : ℝ) 1 ∧ (⌊u * (n : ℝ)⌋).toNat = j} = ENNReal.ofReal (1 / (n : ℝ)) := by
  rw [index_cell n hn j hj, Real.volume_Ico]
  congr 1
  ring

end DPL.Discrete
