/-
C03 / Snapping: the floating-point grid of `snapUniform` and "round down to the grid".

* `ulpAt k = 2^(-53-k)` — the spacing of the doubles in the binade `[2^-(k+1), 2^-k)`;
* `fgrid k b = (2^52 + b)·ulpAt k` (`b < 2^52`) — the doubles of that binade: what `snapUniform` returns;
* `flDown U = ⌊U / ulp⌋·ulp`, `ulp = 2^(Int.log 2 U − 52)` — round `U > 0` down to a 53-bit significand;
* `flDown_cell`  — on the cell `[fgrid k b, fgrid k b + ulpAt k)` `flDown` is constantly `fgrid k b`;
* `cell_cover`   — every `U ∈ [2^-N, 1)` lies in a cell with `k < N`;
* `fgrid_inj`    — different `(k, b)` give different doubles;
* `flDown_fiber` — `{U ∈ [2^-N, 1) | flDown U = fgrid k b}` IS the cell (`k < N`).
-/
import DPL.Proofs.SamplersSnapUniform
import Mathlib.Data.Int.Log

namespace DPL.SmpS
open Set

/-- spacing of the doubles in the binade `[2^-(k+1), 2^-k)` -/
noncomputable def ulpAt (k : ℕ) : ℝ := (2 : ℝ) ^ (-53 - (k : ℤ))

/-- the double with mantissa `2^52 + b` and exponent `-53 - k` -/
noncomputable def fgrid (k b : ℕ) : ℝ := ((2 : ℝ) ^ 52 + b) * ulpAt k

/-- round down to the floating-point grid (53-bit significand, unbounded exponent) -/
noncomputable def flDown (U : ℝ) : ℝ :=
  (⌊U / (2 : ℝ) ^ (Int.log 2 U - 52)⌋ : ℝ) * (2 : ℝ) ^ (Int.log 2 U - 52)

theorem ulpAt_pos (k : ℕ) : 0 < ulpAt k := by unfold ulpAt; positivity

theorem two52_mul_ulp (k : ℕ) : (2 : ℝ) ^ 52 * ulpAt k = (2 : ℝ) ^ (-((k : ℤ) + 1)) := by
  unfold ulpAt
  rw [← zpow_natCast, ← zpow_add₀ (two_ne_zero)]
  congr 1; push_cast; ring

theorem two53_mul_ulp (k : ℕ) : (2 : ℝ) ^ 53 * ulpAt k = (2 : ℝ) ^ (-(k : ℤ)) := by
  unfold ulpAt
  rw [← zpow_natCast, ← zpow_add₀ (two_ne_zero)]
  congr 1; push_cast; ring

/-- the binade of `U` determines `Int.log 2 U` -/
theorem log_binade (k : ℕ) (U : ℝ) (h1 : (2 : ℝ) ^ 52 * ulpAt k ≤ U) (h2 : U < (2 : ℝ) ^ 53 * ulpAt k) :
    Int.log 2 U = -((k : ℤ) + 1) := by
  have hU : 0 < U := lt_of_lt_of_le (mul_pos (by positivity) (ulpAt_pos k)) h1
  rw [two52_mul_ulp] at h1
  rw [two53_mul_ulp] at h2
  have a := (Int.zpow_le_iff_le_log (R := ℝ) (b := 2) (by norm_num) hU (x := -((k : ℤ) + 1))).mp
    (by simpa using h1)
  have b := (Int.lt_zpow_iff_log_lt (R := ℝ) (b := 2) (by norm_num) hU (x := -(k : ℤ))).mp
    (by simpa using h2)
  omega

theorem flDown_binade (k : ℕ) (U : ℝ) (h1 : (2 : ℝ) ^ 52 * ulpAt k ≤ U) (h2 : U < (2 : ℝ) ^ 53 * ulpAt k) :
    flDown U = (⌊U / ulpAt k⌋ : ℝ) * ulpAt k := by
  unfold flDown
  rw [log_binade k U h1 h2]
  have : (2 : ℝ) ^ (-((k : ℤ) + 1) - 52) = ulpAt k := by
    unfold ulpAt; congr 1; ring
  rw [this]

/-- **on a cell, rounding down returns the lower end point** -/
theorem flDown_cell (k b : ℕ) (hb : b < 2 ^ 52) (U : ℝ) (h1 : fgrid k b ≤ U) (h2 : U < fgrid k b + ulpAt k) :
    flDown U = fgrid k b := by
  have hp := ulpAt_pos k
  have hbR : (b : ℝ) + 1 ≤ (2 : ℝ) ^ 52 := by exact_mod_cast hb
  have hb0 : (0 : ℝ) ≤ b := Nat.cast_nonneg b
  unfold fgrid at h1 h2
  have g1 : (2 : ℝ) ^ 52 * ulpAt k ≤ U := by nlinarith
  have g2 : U < (2 : ℝ) ^ 53 * ulpAt k := by
    have : ((2 : ℝ) ^ 52 + b) * ulpAt k + ulpAt k ≤ (2 : ℝ) ^ 53 * ulpAt k := by
      have : (2 : ℝ) ^ 53 = 2 ^ 52 + 2 ^ 52 := by norm_num
      rw [this]; nlinarith
    linarith
  rw [flDown_binade k U g1 g2]
  have hc : (((2 ^ 52 + b : ℕ) : ℤ) : ℝ) = (2 : ℝ) ^ 52 + b := by
    simp only [Nat.cast_add, Nat.cast_pow, Nat.cast_ofNat, Int.cast_add, Int.cast_pow, Int.cast_natCast,
      Int.cast_ofNat]
  have hfl : ⌊U / ulpAt k⌋ = ((2 ^ 52 + b : ℕ) : ℤ) := by
    rw [Int.floor_eq_iff, hc]
    constructor
    · rw [le_div_iff₀ hp]; exact h1
    · rw [div_lt_iff₀ hp]; linarith
  rw [hfl, hc]; rfl

theorem fgrid_binade (k b : ℕ) (hb : b < 2 ^ 52) :
    (2 : ℝ) ^ 52 * ulpAt k ≤ fgrid k b ∧ fgrid k b < (2 : ℝ) ^ 53 * ulpAt k := by
  have hp := ulpAt_pos k
  have hbR : (b : ℝ) + 1 ≤ (2 : ℝ) ^ 52 := by exact_mod_cast hb
  have hb0 : (0 : ℝ) ≤ b := Nat.cast_nonneg b
  unfold fgrid
  constructor
  · nlinarith
  · have : (2 : ℝ) ^ 53 = 2 ^ 52 + 2 ^ 52 := by norm_num
    rw [this]; nlinarith

/-- different mantissa / exponent, different double -/
theorem fgrid_inj (k b k' b' : ℕ) (hb : b < 2 ^ 52) (hb' : b' < 2 ^ 52) (h : fgrid k b = fgrid k' b') :
    k = k' ∧ b = b' := by
  have l1 := log_binade k _ (fgrid_binade k b hb).1 (fgrid_binade k b hb).2
  have l2 := log_binade k' _ (fgrid_binade k' b' hb').1 (fgrid_binade k' b' hb').2
  rw [h, l2] at l1
  have hk : k = k' := by omega
  subst hk
  refine ⟨rfl, ?_⟩
  unfold fgrid at h
  have := mul_right_cancel₀ (ulpAt_pos k).ne' h
  have : (b : ℝ) = b' := by linarith
  exact_mod_cast this

/-- **every `U ∈ [2^-N, 1)` lies in a cell of a binade `k < N`** -/
theorem cell_cover (N : ℕ) (U : ℝ) (h1 : (2 : ℝ) ^ (-(N : ℤ)) ≤ U) (h2 : U < 1) :
    ∃ k b, k < N ∧ b < 2 ^ 52 ∧ fgrid k b ≤ U ∧ U < fgrid k b + ulpAt k := by
  have hU : 0 < U := lt_of_lt_of_le (by positivity) h1
  have a : -(N : ℤ) ≤ Int.log 2 U :=
    (Int.zpow_le_iff_le_log (R := ℝ) (b := 2) (by norm_num) hU).mp (by simpa using h1)
  have b : Int.log 2 U < 0 :=
    (Int.lt_zpow_iff_log_lt (R := ℝ) (b := 2) (by norm_num) hU (x := 0)).mp (by simpa using h2)
  obtain ⟨k, hk⟩ : ∃ k : ℕ, Int.log 2 U = -((k : ℤ) + 1) := ⟨(-Int.log 2 U - 1).toNat, by omega⟩
  have hkN : k < N := by omega
  have hp := ulpAt_pos k
  have c1 : (2 : ℝ) ^ 52 * ulpAt k ≤ U := by
    rw [two52_mul_ulp, ← hk]
    have := Int.zpow_log_le_self (R := ℝ) (b := 2) (by norm_num) hU
    simpa using this
  have c2 : U < (2 : ℝ) ^ 53 * ulpAt k := by
    rw [two53_mul_ulp]
    have := Int.lt_zpow_succ_log_self (R := ℝ) (b := 2) (by norm_num) U
    rw [hk] at this
    have e : -((k : ℤ) + 1) + 1 = -(k : ℤ) := by ring
    rw [e] at this
    simpa using this
  have hq0 : 0 ≤ U / ulpAt k := by positivity
  set n := ⌊U / ulpAt k⌋₊ with hn
  have n1 : (n : ℝ) ≤ U / ulpAt k := Nat.floor_le hq0
  have n2 : U / ulpAt k < (n : ℝ) + 1 := Nat.lt_floor_add_one _
  have n3 : 2 ^ 52 ≤ n := by
    apply Nat.le_floor
    rw [le_div_iff₀ hp]; exact_mod_cast c1
  have n4 : n < 2 ^ 53 := by
    rw [hn, Nat.floor_lt hq0, div_lt_iff₀ hp]; exact_mod_cast c2
  refine ⟨k, n - 2 ^ 52, hkN, by omega, ?_, ?_⟩
  · unfold fgrid
    rw [Nat.cast_sub n3]; push_cast
    rw [le_div_iff₀ hp] at n1
    linarith
  · unfold fgrid
    rw [Nat.cast_sub n3]; push_cast
    rw [div_lt_iff₀ hp] at n2
    linarith

/-- **the fiber of `flDown` over a double is its cell** -/
theorem flDown_fiber (N k b : ℕ) (hk : k < N) (hb : b < 2 ^ 52) :
    {U : ℝ | (2 : ℝ) ^ (-(N : ℤ)) ≤ U ∧ U < 1 ∧ flDown U = fgrid k b} = Ico (fgrid k b) (fgrid k b + ulpAt k) := by
  ext U
  simp only [mem_ofPred_eq, mem_Ico]
  constructor
  · rintro ⟨h1, h2, h3⟩
    obtain ⟨k', b', _, hb', c1, c2⟩ := cell_cover N U h1 h2
    rw [flDown_cell k' b' hb' U c1 c2] at h3
    obtain ⟨rfl, rfl⟩ := fgrid_inj k' b' k b hb' hb h3
    exact ⟨c1, c2⟩
  · rintro ⟨c1, c2⟩
    have hp := ulpAt_pos k
    obtain ⟨g1, g2⟩ := fgrid_binade k b hb
    have hbR : (b : ℝ) + 1 ≤ (2 : ℝ) ^ 52 := by exact_mod_cast hb
    refine ⟨?_, ?_, flDown_cell k b hb U c1 c2⟩
    · have : (2 : ℝ) ^ (-(N : ℤ)) ≤ (2 : ℝ) ^ (-((k : ℤ) + 1)) :=
        zpow_le_zpow_right₀ (by norm_num) (by omega)
      rw [← two52_mul_ulp] at this
      linarith
    · have h53 : (2 : ℝ) ^ 53 * ulpAt k ≤ 1 := by
        rw [two53_mul_ulp]
        exact zpow_le_one_of_nonpos₀ (by norm_num) (by omega)
      have : fgrid k b + ulpAt k ≤ (2 : ℝ) ^ 53 * ulpAt k := by
        unfold fgrid
        have : (2 : ℝ) ^ 53 = 2 ^ 52 + 2 ^ 52 := by norm_num
        rw [this]; nlinarith
      linarith

end DPL.SmpS
