/-
Helper lemmas for C17 §5 (the law of the noise norm):

* `vecNoise_norm_eq` — ‖noise vector‖ = `vecNorm scale gs` whenever the direction is non-degenerate and `0 ≤ Σ gs`;
* `gammaMeasure_Iio_zero`, `gammaMeasure_ae_nonneg` — a gamma draw is a.s. non-negative (the density vanishes on `x < 0`);
* `gamma4_ae_nonneg` — hence so are all four coordinates of the 4-fold product;
* `gamma_sum_map_noise` — the push-forward of the 4-fold product under `g ↦ ‖vecNoise scale normals g‖` is the same
  `Gamma(d, rate 1/scale)` as under `g ↦ vecNorm scale g` (`gamma_sum_map`).
-/
import DPL.Proofs.SamplersGammaSum
import DPL.Proofs.SamplersLogReg
import Mathlib.MeasureTheory.Measure.Prod

namespace DPL.Smp
open MeasureTheory ProbabilityTheory Set DPL.LogReg

/-- the noise vector is the direction vector rescaled by `noisy_norm / ‖direction‖` -/
theorem vecNoise_eq_map (scale : ℝ) (normals gs : List ℝ) :
    vecNoise scale normals gs
      = (vecDir normals).map (fun x => x * (vecNorm scale gs / norm2 (vecDir normals))) := by
  unfold vecNoise
  apply List.map_congr_left
  intro x _; ring

/-- ‖noise‖ = `noisy_norm`: for a non-degenerate direction and a non-negative norm draw the Euclidean norm of the
model's noise vector is exactly the model's `vecNorm` -/
theorem vecNoise_norm_eq (scale : ℝ) (hs : 0 < scale) (normals gs : List ℝ)
    (hdir : norm2 (vecDir normals) ≠ 0) (hg : 0 ≤ gs.sum) :
    norm2 (vecNoise scale normals gs) = vecNorm scale gs := by
  rw [vecNoise_eq_map, vecNorm_linear scale hs]
  set n := norm2 (vecDir normals) with hn
  have hn0 : 0 ≤ n := by rw [hn]; exact norm2_nonneg _
  have hnpos : 0 < n := lt_of_le_of_ne hn0 (Ne.symm hdir)
  unfold norm2 at hn ⊢
  simp only [transc_sqrt] at hn ⊢
  rw [sumSq_scale, Real.sqrt_mul' _ (sq_nonneg _), ← hn, Real.sqrt_sq (by positivity)]
  field_simp

/-- the gamma density vanishes on the negative half-line -/
theorem gammaMeasure_Iio_zero (a r : ℝ) : gammaMeasure a r (Iio 0) = 0 := by
  unfold gammaMeasure
  rw [withDensity_apply _ measurableSet_Iio]
  exact setLIntegral_eq_zero measurableSet_Iio (fun x hx => gammaPDF_of_neg hx)

/-- a gamma draw is almost surely non-negative -/
theorem gammaMeasure_ae_nonneg (a r : ℝ) : ∀ᵐ x ∂gammaMeasure a r, 0 ≤ x := by
  rw [ae_iff]
  have : {x : ℝ | ¬ 0 ≤ x} = Iio 0 := by ext x; simp
  rw [this]
  exact gammaMeasure_Iio_zero a r

/-- all four coordinates of the 4-fold product of gamma laws are almost surely non-negative -/
theorem gamma4_ae_nonneg (a r : ℝ) :
    ∀ᵐ g ∂((gammaMeasure a r).prod ((gammaMeasure a r).prod ((gammaMeasure a r).prod (gammaMeasure a r)))),
      0 ≤ g.1 ∧ 0 ≤ g.2.1 ∧ 0 ≤ g.2.2.1 ∧ 0 ≤ g.2.2.2 := by
  set γ := gammaMeasure a r with hγ
  have h0 : ∀ᵐ x ∂γ, 0 ≤ x := gammaMeasure_ae_nonneg a r
  have q1 := Measure.quasiMeasurePreserving_fst (μ := γ) (ν := γ.prod (γ.prod γ))
  have q2 := Measure.quasiMeasurePreserving_snd (μ := γ) (ν := γ.prod (γ.prod γ))
  have q21 := Measure.quasiMeasurePreserving_fst (μ := γ) (ν := γ.prod γ)
  have q22 := Measure.quasiMeasurePreserving_snd (μ := γ) (ν := γ.prod γ)
  have q221 := Measure.quasiMeasurePreserving_fst (μ := γ) (ν := γ)
  have q222 := Measure.quasiMeasurePreserving_snd (μ := γ) (ν := γ)
  have e1 := q1.ae h0
  have e2 := q2.ae (q21.ae h0)
  have e3 := q2.ae (q22.ae (q221.ae h0))
  have e4 := q2.ae (q22.ae (q222.ae h0))
  filter_upwards [e1, e2, e3, e4] with g g1 g2 g3 g4
  exact ⟨g1, g2, g3, g4⟩

/-- **the Euclidean norm of the model's noise vector** has the law `Gamma(d, rate 1/scale)`, whatever the
(non-degenerate) direction draws are: under the 4-fold product of unit gammas `Gamma(d/4, 1)` the map
`g ↦ ‖vecNoise scale normals g‖` agrees almost surely with `g ↦ vecNorm scale g`, whose law is `gamma_sum_map` -/
theorem gamma_sum_map_noise (d scale : ℝ) (hd : 0 < d) (hs : 0 < scale) (normals : List ℝ)
    (hdir : norm2 (vecDir normals) ≠ 0) :
    ((gammaMeasure (d / 4) 1).prod ((gammaMeasure (d / 4) 1).prod ((gammaMeasure (d / 4) 1).prod
        (gammaMeasure (d / 4) 1)))).map
      (fun g : ℝ × ℝ × ℝ × ℝ => norm2 (vecNoise scale normals [g.1, g.2.1, g.2.2.1, g.2.2.2]))
      = gammaMeasure d (1 / scale) := by
  rw [← gamma_sum_map d scale hd hs]
  apply Measure.map_congr
  filter_upwards [gamma4_ae_nonneg (d / 4) 1] with g hg
  obtain ⟨g1, g2, g3, g4⟩ := hg
  apply vecNoise_norm_eq scale hs normals _ hdir
  simp only [List.sum_cons, List.sum_nil]
  linarith

end DPL.Smp
