/-
Loop invariants of the three root finders of `DPL/Model/Calibration.lean` (C02).
The invariants in the first part hold for an ARBITRARY carrier and an arbitrary objective — hence also for the IEEE
doubles the code computes with; the second part specialises to ℝ (bracket width, side of the returned point).
-/
import DPL.Model.Calibration
import DPL.Proofs.RealCarrier
import Mathlib.Tactic.Linarith
import Mathlib.Tactic.Positivity
import Mathlib.Tactic.Ring
import Mathlib.Tactic.FieldSimp

namespace DPL.Cont
open DPL

section generic
variable {α : Type} [OfNat α 0] [OfNat α 1] [OfNat α 2] [Add α] [Sub α] [Mul α] [Div α] [Neg α]
  [LT α] [LE α] [DecidableLT α] [DecidableLE α] [NatCast α] [Transc α]

/-! ### bounded-domain bisection (`bisectStep`, `bisectLoop`) -/

/-- the bracket invariant of `LaplaceBoundedDomain._find_scale`: `f(left) ≥ left` and `f(right) ≤ right` -/
def BdInv (f : α → α) (b : Bracket α) : Prop := b.left ≤ f b.left ∧ f b.right ≤ b.right

theorem bisectStep_inv (f : α → α) (b : Bracket α) (h : BdInv f b) : BdInv f (bisectStep f b) := by
  unfold BdInv bisectStep at *
  constructor
  · show (if (b.right + b.left) / 2 ≤ f ((b.right + b.left) / 2) then (b.right + b.left) / 2 else b.left) ≤
      f (if (b.right + b.left) / 2 ≤ f ((b.right + b.left) / 2) then (b.right + b.left) / 2 else b.left)
    split
    · assumption
    · exact h.1
  · show f (if f ((b.right + b.left) / 2) ≤ (b.right + b.left) / 2 then (b.right + b.left) / 2 else b.right) ≤
      (if f ((b.right + b.left) / 2) ≤ (b.right + b.left) / 2 then (b.right + b.left) / 2 else b.right)
    split
    · assumption
    · exact h.2

/-- ★ the loop keeps `f(left) ≥ left ∧ f(right) ≤ right` — any carrier, any `f`, any fuel -/
theorem bisectLoop_inv (f : α → α) (fuel : Nat) (b : Bracket α) (h : BdInv f b) :
    BdInv f (bisectLoop f fuel b).1 := by
  induction fuel generalizing b with
  | zero => exact h
  | succ n ih =>
    unfold bisectLoop
    split
    · exact ih _ (bisectStep_inv f b h)
    · exact h

/-- each end of the new bracket is an end of the old one or the midpoint -/
theorem bisectStep_ends (f : α → α) (b : Bracket α) :
    ((bisectStep f b).left = b.left ∨ (bisectStep f b).left = (b.right + b.left) / 2) ∧
    ((bisectStep f b).right = b.right ∨ (bisectStep f b).right = (b.right + b.left) / 2) := by
  unfold bisectStep
  dsimp only
  constructor
  · by_cases c : (b.right + b.left) / 2 ≤ f ((b.right + b.left) / 2)
    · rw [if_pos c]; exact Or.inr rfl
    · rw [if_neg c]; exact Or.inl rfl
  · by_cases c : f ((b.right + b.left) / 2) ≤ (b.right + b.left) / 2
    · rw [if_pos c]; exact Or.inr rfl
    · rw [if_neg c]; exact Or.inl rfl

/-! ### analytic Gaussian: doubling and binary search (`agDouble`, `agStep`, `agLoop`) -/

/-- sign change across the bracket, in the two forms the code tests it -/
def AgInv (f : α → α) (b : Bracket α) : Prop := f b.right * f b.left ≤ 0 ∨ f b.left * f b.right ≤ 0

theorem agStep_inv (f : α → α) (b : Bracket α) (h : AgInv f b) : AgInv f (agStep f b) := by
  unfold AgInv agStep at *
  dsimp only
  by_cases c1 : f ((b.right + b.left) / 2) * f b.left ≤ 0
  · rw [if_pos c1]
    by_cases c2 : f ((b.right + b.left) / 2) * f ((b.right + b.left) / 2) ≤ 0
    · rw [if_pos c2]; exact Or.inl c2
    · rw [if_neg c2]; exact Or.inl c1
  · rw [if_neg c1]
    by_cases c2 : f ((b.right + b.left) / 2) * f b.right ≤ 0
    · rw [if_pos c2]; exact Or.inr c2
    · rw [if_neg c2]; exact h

/-- ★ the binary search keeps a sign change across the bracket — any carrier, any objective -/
theorem agLoop_inv (f : α → α) (fuel : Nat) (b : Bracket α) (h : AgInv f b) : AgInv f (agLoop f fuel b).1 := by
  induction fuel generalizing b with
  | zero => exact h
  | succ n ih =>
    unfold agLoop
    split
    · exact ih _ (agStep_inv f b h)
    · exact h

/-- ★ when the doubling loop stops before its fuel runs out, the product of the objective at the two ends is not
positive -/
theorem agDouble_exit (f : α → α) (fuel : Nat) (l r : α) :
    (agDouble f fuel l r).2.2 < fuel →
      ¬ 0 < f (agDouble f fuel l r).1 * f (agDouble f fuel l r).2.1 := by
  induction fuel generalizing l r with
  | zero => intro h; exact absurd h (Nat.not_lt_zero _)
  | succ n ih =>
    unfold agDouble
    split
    · intro h
      exact ih r (r * 2) (Nat.lt_of_succ_lt_succ h)
    · intro _; assumption

/-! ### discrete Gaussian (`dgExpand`, `dgBisect`, `dgPick`) -/

/-- the stored objective values are the objective at the bracket ends, and their product is not positive (in one of
the two forms the code tests) -/
def DgInv (obj : α → Option α) (b : DgBracket α) : Prop :=
  obj b.g0 = some b.f0 ∧ obj b.g1 = some b.f1 ∧ (b.f1 * b.f0 ≤ 0 ∨ b.f0 * b.f1 ≤ 0)

theorem dgBisect_inv (obj : α → Option α) (rtol atol : α) (fuel : Nat) (b r : DgBracket α) (n : Nat)
    (h : DgInv obj b) (hr : dgBisect obj rtol atol fuel b = some (r, n)) : DgInv obj r := by
  induction fuel generalizing b n with
  | zero => simp [dgBisect] at hr
  | succ k ih =>
    unfold dgBisect at hr
    split at hr
    · cases hr; exact h
    · dsimp only at hr
      split at hr
      · cases hr
      · rename_i fm hfm
        split at hr
        · cases hr
        · rename_i r' n' hrec
          cases hr
          refine ih _ _ ?_ hrec
          -- the invariant after one bisection step
          obtain ⟨h0, h1, hs⟩ := h
          by_cases c1 : fm * b.f0 ≤ 0
          · rw [if_pos c1]
            by_cases c2 : fm * fm ≤ 0
            · rw [if_pos c2]; exact ⟨hfm, hfm, Or.inl c2⟩
            · rw [if_neg c2]; exact ⟨h0, hfm, Or.inl c1⟩
          · rw [if_neg c1]
            by_cases c2 : fm * b.f1 ≤ 0
            · rw [if_pos c2]; exact ⟨hfm, h1, Or.inr c2⟩
            · rw [if_neg c2]; exact ⟨h0, h1, hs⟩

/-- tracking invariant of the expansion loop: the stored values are the objective at the ends and `g1 = g0 * step` -/
def DgTrack (obj : α → Option α) (step : α) (b : DgBracket α) : Prop :=
  obj b.g0 = some b.f0 ∧ obj b.g1 = some b.f1 ∧ b.g0 * step = b.g1

theorem dgExpand_inv (obj : α → Option α) (step : α) (fuel : Nat) (b r : DgBracket α) (n : Nat)
    (h : DgTrack obj step b) (hr : dgExpand obj step fuel b = some (r, n)) :
    DgTrack obj step r ∧ ¬ 0 < r.f0 * r.f1 := by
  induction fuel generalizing b n with
  | zero => simp [dgExpand] at hr
  | succ k ih =>
    unfold dgExpand at hr
    split at hr
    · dsimp only at hr
      split at hr
      · cases hr
      · rename_i f1 hf1
        split at hr
        · cases hr
        · rename_i r' n' hrec
          cases hr
          refine ih _ _ ?_ hrec
          obtain ⟨_, h1, hg⟩ := h
          refine ⟨?_, hf1, ?_⟩
          · show obj (b.g0 * step) = some b.f1
            rw [hg]; exact h1
          · show b.g0 * step * step = b.g1 * step
            rw [hg]
    · rename_i hc
      cases hr
      exact ⟨h, hc⟩

end generic

/-! ### over ℝ -/

/-- over ℝ a step halves the bracket (or collapses it) -/
theorem bisectStep_width (f : ℝ → ℝ) (b : Bracket ℝ) (h : b.left ≤ b.right) :
    (bisectStep f b).left ≤ (bisectStep f b).right ∧
    (bisectStep f b).right - (bisectStep f b).left ≤ (b.right - b.left) / 2 := by
  unfold bisectStep
  dsimp only
  rcases le_total ((b.right + b.left) / 2) (f ((b.right + b.left) / 2)) with c | c
  · by_cases c' : f ((b.right + b.left) / 2) ≤ (b.right + b.left) / 2
    · rw [if_pos c, if_pos c']; constructor <;> linarith
    · rw [if_pos c, if_neg c']; constructor <;> linarith
  · by_cases c' : (b.right + b.left) / 2 ≤ f ((b.right + b.left) / 2)
    · rw [if_pos c, if_pos c']; constructor <;> linarith
    · rw [if_pos c, if_neg c']; constructor <;> linarith

/-- over ℝ, after `n` iterations the bracket has width at most `initial / 2^n`, and stays ordered -/
theorem bisectLoop_width (f : ℝ → ℝ) (fuel : Nat) (b : Bracket ℝ) (h : b.left ≤ b.right) :
    (bisectLoop f fuel b).1.left ≤ (bisectLoop f fuel b).1.right ∧
    (bisectLoop f fuel b).1.right - (bisectLoop f fuel b).1.left ≤
      (b.right - b.left) / 2 ^ (bisectLoop f fuel b).2 := by
  induction fuel generalizing b with
  | zero => simp [bisectLoop, h]
  | succ n ih =>
    unfold bisectLoop
    split
    · obtain ⟨h1, h2⟩ := bisectStep_width f b h
      obtain ⟨i1, i2⟩ := ih _ h1
      refine ⟨i1, i2.trans ?_⟩
      rw [pow_succ, ← div_div]
      have hp : (0:ℝ) < 2 ^ (bisectLoop f n (bisectStep f b)).2 := by positivity
      rw [div_div, mul_comm, ← div_div]
      exact div_le_div_of_nonneg_right h2 hp.le
    · simp [h]

/-- the returned midpoint lies in the final bracket -/
theorem mid_mem (l r : ℝ) (h : l ≤ r) : l ≤ (r + l) / 2 ∧ (r + l) / 2 ≤ r := by
  constructor <;> linarith

/-- over ℝ the two forms of the sign-change invariant coincide -/
theorem agInv_real (f : ℝ → ℝ) (b : Bracket ℝ) : AgInv f b ↔ f b.left * f b.right ≤ 0 := by
  unfold AgInv; rw [mul_comm (f b.right)]; simp

/-- over ℝ, with a sign change across the bracket, one of the two tests of `agStep` fires: the bracket is halved -/
theorem agStep_width (f : ℝ → ℝ) (b : Bracket ℝ) (h : b.left ≤ b.right) (hs : f b.left * f b.right ≤ 0) :
    (agStep f b).left ≤ (agStep f b).right ∧
    (agStep f b).right - (agStep f b).left ≤ (b.right - b.left) / 2 := by
  unfold agStep
  dsimp only
  by_cases c1 : f ((b.right + b.left) / 2) * f b.left ≤ 0
  · rw [if_pos c1]
    by_cases c2 : f ((b.right + b.left) / 2) * f ((b.right + b.left) / 2) ≤ 0
    · rw [if_pos c2]; constructor <;> linarith
    · rw [if_neg c2]; constructor <;> linarith
  · rw [if_neg c1]
    by_cases c2 : f ((b.right + b.left) / 2) * f b.right ≤ 0
    · rw [if_pos c2]; constructor <;> linarith
    · exfalso
      -- f mid has the sign of both ends, which have opposite signs
      rw [not_le] at c1 c2
      have hm : f ((b.right + b.left) / 2) ≠ 0 := by
        intro h0; rw [h0] at c1; simp at c1
      nlinarith [mul_pos c1 c2, mul_self_pos.mpr hm,
        mul_nonneg (mul_self_nonneg (f ((b.right + b.left) / 2))) (neg_nonneg.mpr hs)]

/-- over ℝ: the point `GaussianDiscrete._find_scale` returns has a non-positive objective -/
theorem dgPick_nonpos (obj : ℝ → Option ℝ) (b : DgBracket ℝ) (h : DgInv obj b) :
    ∃ v, obj (dgPick b) = some v ∧ v ≤ 0 := by
  obtain ⟨h0, h1, hs⟩ := h
  unfold dgPick
  by_cases c : b.f0 ≤ 0
  · rw [if_pos c]; exact ⟨b.f0, h0, c⟩
  · rw [if_neg c]
    refine ⟨b.f1, h1, ?_⟩
    rw [not_le] at c
    have hs' : b.f0 * b.f1 ≤ 0 := by
      rcases hs with hs | hs
      · rwa [mul_comm] at hs
      · exact hs
    by_contra hpos
    rw [not_le] at hpos
    exact absurd (mul_pos c hpos) (not_lt.mpr hs')

end DPL.Cont
