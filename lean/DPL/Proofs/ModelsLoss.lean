/-
`model_privloss` per estimator (C08): for the Lean plans of `PlanModels.lean`, every dataset, every single-record
replacement and every sequence of forced outputs, the plan satisfies `lossLe … (ε · (1 or 2))`; with `lossLe_run`
this is: parameters coincide, `dispOk`, `privLoss ≤ ε · (1 or 2)`.
-/
import DPL.Proofs.ModelsSens

namespace DPL
namespace PM
open DPL

/-- indicator "group `c` is one the replaced record leaves or joins" -/
noncomputable def touched (c a b : Nat) : ℝ := if c = a ∨ c = b then 1 else 0

theorem touched_nonneg (c a b : Nat) : 0 ≤ touched c a b := by unfold touched; split <;> norm_num
theorem touched_le_one (c a b : Nat) : touched c a b ≤ 1 := by unfold touched; split <;> norm_num

/-- a group statistic `Σ_{r ∈ group c} f r` whose summands are bounded by `S` (and pairwise within `S`) moves by at most
`S` under one replaced record, and not at all in groups the record neither leaves nor joins -/
theorem grp_disp_le (g : Rec ℝ → Nat) (c : Nat) (f : Rec ℝ → ℝ) (S : ℝ) (pre post : DS ℝ) (r r' : Rec ℝ)
    (h1 : |f r| ≤ S) (h2 : |f r'| ≤ S) (h3 : |f r - f r'| ≤ S) :
    |sumL ((grp g c (pre ++ r :: post)).map f) - sumL ((grp g c (pre ++ r' :: post)).map f)|
      ≤ touched c (g r) (g r') * S := by
  rw [grp_sum_diff]
  unfold touched
  by_cases ha : g r = c <;> by_cases hb : g r' = c
  · simp [ha, hb]; exact h3
  · simp [ha, hb]; exact h1
  · simp [ha, hb]; exact h2
  · have : ¬ (c = g r ∨ c = g r') := by
      rintro (h | h)
      · exact ha h.symm
      · exact hb h.symm
    simp [ha, hb, this]

theorem grp_count_disp_le (g : Rec ℝ → Nat) (c : Nat) (pre post : DS ℝ) (r r' : Rec ℝ) :
    |(((grp g c (pre ++ r :: post)).length : Nat) : ℝ) - (((grp g c (pre ++ r' :: post)).length : Nat) : ℝ)|
      ≤ touched c (g r) (g r') * 1 := by
  have := (count_change g c pre post r r').1
  unfold touched
  split <;> simp_all

theorem zip_sum_le {β : Type} (g : Nat → ℝ) (hg : ∀ c, 0 ≤ g c) (l : List Nat) (m : List β) :
    ((l.zip m).map fun ci => g ci.1).sum ≤ (l.map g).sum := by
  induction l generalizing m with
  | nil => simp
  | cons c cs ih =>
    cases m with
    | nil =>
      simp only [List.zip_nil_right, List.map_nil, List.sum_nil]
      exact List.sum_nonneg (by intro x hx; simp only [List.mem_map] at hx; obtain ⟨y, _, rfl⟩ := hx; exact hg y)
    | cons b bs => simp only [List.zip_cons_cons, List.map_cons, List.sum_cons]; linarith [ih bs]

theorem touched_total (l : List Nat) (hl : l.Nodup) (a b : Nat) (w : ℝ) (hw : 0 ≤ w) :
    (l.map fun c => touched c a b * w).sum ≤ (if a = b then 1 else 2) * w := by
  have := touched_sum_le l hl a b w hw
  refine le_trans (le_of_eq ?_) this
  congr 1; apply List.map_congr_left; intro c _; unfold touched; split <;> simp

/-! ### GaussianNB -/

section gnb
variable (p : GnbParams ℝ) (hε : 0 ≤ p.eps) (hd : 0 < p.d) (hb : ∀ j, nth p.lo j ≤ nth p.hi j)
  (pre post : DS ℝ) (r r' : Rec ℝ)
include hε hd hb

theorem gnb_feature_loss (c : Nat) (ni : ℝ) (j : Nat) :
    lossLe (pre ++ r :: post) (pre ++ r' :: post) (gnbFeature p c ni j)
      (2 * (p.eps / 3 / p.d) * touched c r.y r'.y) := by
  have hle : 0 ≤ p.eps / 3 / (p.d : ℝ) := by positivity
  have ht0 := touched_nonneg c r.y r'.y
  have ht1 := touched_le_one c r.y r'.y
  have hf : ∀ q : Rec ℝ, nth p.lo j ≤ feat p.lo p.hi j q ∧ feat p.lo p.hi j q ≤ nth p.hi j :=
    fun q => clip_mem _ _ _ (hb j)
  unfold gnbFeature
  simp only [nat, Nat.cast_ofNat]
  -- first invocation: the clipped class sum
  have hS := sumSens_nonneg (nth p.lo j) (nth p.hi j)
  have h1 : |sumL ((grp lab c (pre ++ r :: post)).map (feat p.lo p.hi j)) -
      sumL ((grp lab c (pre ++ r' :: post)).map (feat p.lo p.hi j))| ≤ touched c r.y r'.y * sumSens (nth p.lo j) (nth p.hi j) :=
    grp_disp_le lab c _ _ pre post r r'
      (sum_group_change_sens _ _ _ _ (hf r) (hf r')).1 (sum_group_change_sens _ _ _ _ (hf r') (hf r)).1
      (sum_group_change_sens _ _ _ _ (hf r) (hf r')).2.1
  have hd1 := relDisp_le ⟨"LaplaceTruncated", p.eps / 3 / (p.d : ℝ), 0, sumSens (nth p.lo j) (nth p.hi j),
    nth p.lo j * ni, nth p.hi j * ni, .osCsprng⟩ _ _ _ ht0 hS h1
  refine ⟨le_trans hd1 ht1, fun o => ?_⟩
  -- second invocation: squared deviations from the noisy mean (whatever the forced output `o` is)
  set mu := o / ni with hmu
  set M := pmax (mu - nth p.lo j) (nth p.hi j - mu) with hM
  have hq : ∀ q : Rec ℝ, 0 ≤ (feat p.lo p.hi j q - mu) * (feat p.lo p.hi j q - mu) ∧
      (feat p.lo p.hi j q - mu) * (feat p.lo p.hi j q - mu) ≤ M * M := fun q => sqdev_le _ _ mu _ (hf q)
  have hMM : 0 ≤ M * M := mul_self_nonneg M
  have h2 := grp_disp_le lab c (fun q => (feat p.lo p.hi j q - mu) * (feat p.lo p.hi j q - mu)) (M * M) pre post r r'
    (by rw [abs_le]; constructor <;> linarith [(hq r).1, (hq r).2])
    (by rw [abs_le]; constructor <;> linarith [(hq r').1, (hq r').2])
    (by rw [abs_le]; constructor <;> linarith [(hq r).1, (hq r).2, (hq r').1, (hq r').2])
  have hd2 := relDisp_le ⟨"LaplaceBoundedDomain", p.eps / 3 / (p.d : ℝ), 0, M * M, 0, M * M * ni, .osCsprng⟩ _ _ _ ht0 hMM h2
  refine ⟨le_trans hd2 ht1, fun o2 => ?_⟩
  show 0 ≤ _
  have e1 := mul_le_mul_of_nonneg_left hd1 hle
  have e2 := mul_le_mul_of_nonneg_left hd2 hle
  simp only at e1 e2 ⊢
  linarith

theorem gnb_class_loss (ci : Nat × ℝ) :
    lossLe (pre ++ r :: post) (pre ++ r' :: post) (gnbClass p ci) (touched ci.1 r.y r'.y * (2 * p.eps / 3)) := by
  have hdr : (p.d : ℝ) ≠ 0 := by exact_mod_cast hd.ne'
  have ht0 := touched_nonneg ci.1 r.y r'.y
  unfold gnbClass
  split
  · show 0 ≤ _; positivity
  · have := lossLe_forList_const (pre ++ r :: post) (pre ++ r' :: post) (List.range p.d)
      (gnbFeature p ci.1 ci.2) _ (fun j _ => gnb_feature_loss p hε hd hb pre post r r' ci.1 ci.2 j)
    refine lossLe_mono _ _ _ (le_of_eq ?_) this
    simp only [List.length_range]; field_simp

/-- GaussianNB: every input moves by ≤ its sensitivity; Σ εᵢ dᵢ/sensᵢ ≤ ε, or ≤ 2ε when the label changes -/
theorem gnb_privloss :
    lossLe (pre ++ r :: post) (pre ++ r' :: post) (gnbPlan p) ((if r.y = r'.y then 1 else 2) * p.eps) := by
  unfold gnbPlan
  intro _
  set present := (List.range p.K).filter fun c =>
    ((List.range p.K).map fun c => (pre ++ r :: post).any fun q => q.y == c).getD c false with hpres
  have hnd : present.Nodup := List.nodup_range.filter _
  have h3 : 0 ≤ p.eps / 3 := by positivity
  -- the noisy counts
  have hcounts : lossLe (pre ++ r :: post) (pre ++ r' :: post) (gnbCounts p present)
      ((if r.y = r'.y then 1 else 2) * (p.eps / 3)) := by
    have := lossLe_forList (pre ++ r :: post) (pre ++ r' :: post) present
      (fun c => one (gnbCountCall p) (fun D => (((grp lab c D).length : Nat) : ℝ)))
      (fun c => touched c r.y r'.y * (p.eps / 3)) (by
        intro c _
        have := lossLe_one (pre ++ r :: post) (pre ++ r' :: post) (gnbCountCall p)
          (fun D => (((grp lab c D).length : Nat) : ℝ)) (touched c r.y r'.y) (touched_nonneg _ _ _)
          (touched_le_one _ _ _) (by simpa [gnbCountCall, nat] using h3) (by simp [gnbCountCall])
          (by simpa [gnbCountCall, lab] using grp_count_disp_le lab c pre post r r')
        refine lossLe_mono _ _ _ (le_of_eq ?_) this
        simp [gnbCountCall, nat]; ring)
    exact lossLe_mono _ _ _ (touched_total present hnd r.y r'.y _ h3) this
  beta_reduce
  refine lossLe_mono _ _ _ (le_of_eq ?_) (lossLe_bind (pre ++ r :: post) (pre ++ r' :: post) (gnbCounts p present) _
    hcounts (B₂ := (if r.y = r'.y then 1 else 2) * (2 * p.eps / 3)) (fun raw => ?_))
  · split <;> ring
  · -- the per-class statistics (post-processing of the counts in between)
    have hcl := lossLe_forList (pre ++ r :: post) (pre ++ r' :: post) (present.zip (repairCounts p.n raw)) (gnbClass p)
      (fun ci => touched ci.1 r.y r'.y * (2 * p.eps / 3)) (fun ci _ => gnb_class_loss p hε hd hb pre post r r' ci)
    have hsum := zip_sum_le (fun c => touched c r.y r'.y * (2 * p.eps / 3))
      (fun c => mul_nonneg (touched_nonneg _ _ _) (by positivity)) present (repairCounts p.n raw)
    have htot := touched_total present hnd r.y r'.y (2 * p.eps / 3) (by positivity)
    exact lossLe_map _ _ _ _ (lossLe_mono _ _ _ (le_trans hsum htot) hcl)

end gnb

/-! ### column means with `axis=0` (StandardScaler, LinearRegression intercept, PCA mean) -/

section means
variable (pre post : DS ℝ) (r r' : Rec ℝ)

theorem mean_disp (f : Rec ℝ → ℝ) (l u : ℝ) (n : ℕ) (hn : n = pre.length + 1 + post.length)
    (hf : ∀ q, l ≤ f q ∧ f q ≤ u) :
    |meanL ((pre ++ r :: post).map f) - meanL ((pre ++ r' :: post).map f)| ≤ 1 * ((u - l) / n) := by
  have hN : (0 : ℝ) < n := by rw [hn]; push_cast; positivity
  have hl1 : (((pre ++ r :: post).map f).length : ℝ) = n := by rw [hn]; simp; ring
  have hl2 : (((pre ++ r' :: post).map f).length : ℝ) = n := by rw [hn]; simp; ring
  unfold meanL
  rw [hl1, hl2, ← sub_div, all_sum_diff, abs_div, abs_of_pos hN, one_mul]
  apply div_le_div_of_nonneg_right _ hN.le
  rw [abs_le]; constructor <;> linarith [(hf r).1, (hf r).2, (hf r').1, (hf r').2]

theorem meanAxis0_loss (ε : ℝ) (lo hi : List ℝ) (n d : ℕ) (hε : 0 ≤ ε) (hd : 0 < d)
    (hb : ∀ j, nth lo j ≤ nth hi j) (hn : n = pre.length + 1 + post.length) :
    lossLe (pre ++ r :: post) (pre ++ r' :: post) (meanAxis0 ε lo hi n d) ε := by
  have hN : (0 : ℝ) < n := by rw [hn]; push_cast; positivity
  have hdr : (d : ℝ) ≠ 0 := by exact_mod_cast hd.ne'
  have := lossLe_forList_const (pre ++ r :: post) (pre ++ r' :: post) (List.range d)
    (fun j => one (meanCall (ε / (d : ℝ)) (nth lo j) (nth hi j) n) (fun D => meanL (D.map (feat lo hi j))))
    (ε / d * 1) (fun j _ => by
      have := lossLe_one (pre ++ r :: post) (pre ++ r' :: post) (meanCall (ε / (d : ℝ)) (nth lo j) (nth hi j) n)
        (fun D => meanL (D.map (feat lo hi j))) 1 (by norm_num) (le_refl _) (by simp only [meanCall]; positivity)
        (by simp only [meanCall]; exact div_nonneg (by linarith [hb j]) hN.le)
        (by simpa [meanCall] using mean_disp pre post r r' (feat lo hi j) _ _ n hn (fun q => clip_mem _ _ _ (hb j)))
      simpa [meanCall] using this)
  refine lossLe_mono _ _ _ (le_of_eq ?_) this
  simp only [List.length_range]; field_simp

end means

/-! ### KMeans -/

section kmeans
variable (p : KmParams ℝ) (e0 ei : ℝ) (h0 : 0 ≤ e0) (hi' : 0 ≤ ei) (hb : ∀ j, nth p.lo j ≤ nth p.hi j)
  (pre post : DS ℝ) (r r' : Rec ℝ)
include h0 hi' hb

theorem km_cluster_loss (centres : List (List ℝ)) (c : Nat) :
    lossLe (pre ++ r :: post) (pre ++ r' :: post) (kmCluster p e0 ei centres c)
      (touched c (assign p.lo p.hi centres r) (assign p.lo p.hi centres r') * (e0 + p.d * ei)) := by
  set g := assign p.lo p.hi centres with hg
  have ht0 := touched_nonneg c (g r) (g r')
  have ht1 := touched_le_one c (g r) (g r')
  unfold kmCluster
  simp only [nat]
  have hd1 := relDisp_le ⟨"GeometricFolded", e0, 0, 1, 1 / ((2 : ℕ) : ℝ), p.inf, .osCsprng⟩ _ _ _ ht0 (by norm_num)
    (grp_count_disp_le g c pre post r r')
  refine ⟨le_trans hd1 ht1, fun nc => ?_⟩
  have hsums := lossLe_forList_const (pre ++ r :: post) (pre ++ r' :: post) (List.range p.d)
    (fun j => one ⟨"LaplaceBoundedDomain", ei, 0, sumSens (nth p.lo j) (nth p.hi j), nc * nth p.lo j, nc * nth p.hi j,
        .osCsprng⟩ (fun D => sumL ((grp g c D).map (feat p.lo p.hi j))))
    (ei * touched c (g r) (g r')) (fun j _ => by
      have hf : ∀ q : Rec ℝ, nth p.lo j ≤ feat p.lo p.hi j q ∧ feat p.lo p.hi j q ≤ nth p.hi j :=
        fun q => clip_mem _ _ _ (hb j)
      exact lossLe_one _ _ _ _ _ ht0 ht1 hi' (sumSens_nonneg _ _)
        (grp_disp_le g c _ _ pre post r r'
          (sum_group_change_sens _ _ _ _ (hf r) (hf r')).1 (sum_group_change_sens _ _ _ _ (hf r') (hf r)).1
          (sum_group_change_sens _ _ _ _ (hf r) (hf r')).2.1))
  refine lossLe_mono _ _ _ ?_ (lossLe_map _ _ _ _ hsums)
  have e1 := mul_le_mul_of_nonneg_left hd1 h0
  simp only [List.length_range] at e1 ⊢
  nlinarith

theorem km_update_loss (centres : List (List ℝ)) :
    lossLe (pre ++ r :: post) (pre ++ r' :: post) (kmUpdate p e0 ei centres)
      ((if assign p.lo p.hi centres r = assign p.lo p.hi centres r' then 1 else 2) * (e0 + p.d * ei)) := by
  unfold kmUpdate
  intro _
  have hw : 0 ≤ e0 + p.d * ei := by positivity
  beta_reduce
  refine lossLe_mono _ _ _ (touched_total (List.range p.k) List.nodup_range _ _ _ hw)
    (lossLe_forList _ _ _ _
      (fun c => touched c (assign p.lo p.hi centres r) (assign p.lo p.hi centres r') * (e0 + p.d * ei)) (fun c _ => ?_))
  beta_reduce
  split
  · exact km_cluster_loss p e0 ei h0 hi' hb pre post r r' centres c
  · show 0 ≤ _; exact mul_nonneg (touched_nonneg _ _ _) hw

/-- KMeans: per iteration a record touches at most two clusters; over `iters` iterations Σ εᵢdᵢ/sensᵢ ≤ 2·iters·(ε₀+d·ε_i) -/
theorem kmeans_privloss_with (iters : ℕ) (centres : List (List ℝ)) :
    lossLe (pre ++ r :: post) (pre ++ r' :: post) (kmLoop p e0 ei iters centres) (iters * (2 * (e0 + p.d * ei))) := by
  have hw : 0 ≤ e0 + p.d * ei := by positivity
  induction iters generalizing centres with
  | zero => show 0 ≤ _; simp
  | succ t ih =>
    simp only [kmLoop]
    have h1 := km_update_loss p e0 ei h0 hi' hb pre post r r' centres
    have h1' : lossLe (pre ++ r :: post) (pre ++ r' :: post) (kmUpdate p e0 ei centres) (2 * (e0 + p.d * ei)) :=
      lossLe_mono _ _ _ (by split <;> nlinarith) h1
    refine lossLe_mono _ _ _ (le_of_eq ?_) (lossLe_bind _ _ _ _ h1' (fun cs => ih cs))
    push_cast; ring

/-- … and ≤ iters·(ε₀+d·ε_i) when the replaced record stays in its cluster whatever the centres are -/
theorem kmeans_privloss_same (hsame : ∀ cs, assign p.lo p.hi cs r = assign p.lo p.hi cs r') (iters : ℕ)
    (centres : List (List ℝ)) :
    lossLe (pre ++ r :: post) (pre ++ r' :: post) (kmLoop p e0 ei iters centres) (iters * (e0 + p.d * ei)) := by
  induction iters generalizing centres with
  | zero => show 0 ≤ _; simp
  | succ t ih =>
    simp only [kmLoop]
    have h1 := km_update_loss p e0 ei h0 hi' hb pre post r r' centres
    rw [if_pos (hsame centres), one_mul] at h1
    refine lossLe_mono _ _ _ (le_of_eq ?_) (lossLe_bind _ _ _ _ h1 (fun cs => ih cs))
    push_cast; ring

end kmeans

/-! ### LinearRegression -/

section linreg
variable (p : LinParams ℝ) (hε : 0 ≤ p.eps) (hd : 0 < p.d) (ht : 0 < p.t)
  (hb : ∀ j, nth p.lo j ≤ nth p.hi j) (hby : ∀ i, nth p.ylo i ≤ nth p.yhi i)
  (pre post : DS ℝ) (r r' : Rec ℝ)

theorem linMeanY_loss (ε : ℝ) (hε' : 0 ≤ ε) (h1d : p.y1d = true → p.t = 1) (hby : ∀ i, nth p.ylo i ≤ nth p.yhi i)
    (ht : 0 < p.t) (hn : p.n = pre.length + 1 + post.length) :
    lossLe (pre ++ r :: post) (pre ++ r' :: post) (linMeanY p ε) ε := by
  have hN : (0 : ℝ) < p.n := by rw [hn]; push_cast; positivity
  have htr : (p.t : ℝ) ≠ 0 := by exact_mod_cast ht.ne'
  unfold linMeanY
  set e := (if p.y1d then ε else ε / (p.t : ℝ)) with he
  have he0 : 0 ≤ e := by simp only [he]; split <;> positivity
  have := lossLe_forList_const (pre ++ r :: post) (pre ++ r' :: post) (List.range p.t)
    (fun i => one (meanCall e (nth p.ylo i) (nth p.yhi i) p.n) (fun D => meanL (D.map (targ p.ylo p.yhi i))))
    (e * 1) (fun i _ => by
      have := lossLe_one (pre ++ r :: post) (pre ++ r' :: post) (meanCall e (nth p.ylo i) (nth p.yhi i) p.n)
        (fun D => meanL (D.map (targ p.ylo p.yhi i))) 1 (by norm_num) (le_refl _) (by simpa [meanCall] using he0)
        (by simp only [meanCall]; exact div_nonneg (by linarith [hby i]) hN.le)
        (by simpa [meanCall] using mean_disp pre post r r' (targ p.ylo p.yhi i) _ _ p.n hn
              (fun q => clip_mem _ _ _ (hby i)))
      simpa [meanCall] using this)
  refine lossLe_mono _ _ _ (le_of_eq ?_) this
  simp only [List.length_range, he]
  by_cases h : p.y1d = true
  · simp [h, h1d h]
  · simp [h]; field_simp

/-- the monomial coefficients: every one of them moves by at most its corner-product / squared-bound sensitivity, so
the loss is at most (number of coefficients) · local_epsilon -/
theorem linCoefs_loss (ε : ℝ) (hε' : 0 ≤ ε) (xo yo : List ℝ) (hcnt : 0 < linCount p)
    (hb : ∀ j, nth p.lo j ≤ nth p.hi j) (hby : ∀ i, nth p.ylo i ≤ nth p.yhi i) :
    lossLe (pre ++ r :: post) (pre ++ r' :: post) (linCoefs p ε xo yo)
      (ε / linCount p *
        (((List.range p.t).length : ℝ) +
         (((List.range p.t).flatMap fun i => (List.range p.d).map fun j => (i, j)).length : ℝ) +
         (((List.range p.d).flatMap fun i => ((List.range p.d).filter (fun j => i ≤ j)).map fun j => (i, j)).length : ℝ))) := by
  have hle : 0 ≤ ε / linCount p := div_nonneg hε' hcnt.le
  have hx : ∀ j (q : Rec ℝ), nth p.lo j - nth xo j ≤ feat p.lo p.hi j q - nth xo j ∧
      feat p.lo p.hi j q - nth xo j ≤ nth p.hi j - nth xo j := fun j q => by
    have := clip_mem (nth p.lo j) (nth p.hi j) (nth q.x j) (hb j); unfold feat; constructor <;> linarith [this.1, this.2]
  have hy : ∀ i (q : Rec ℝ), nth p.ylo i - nth yo i ≤ targ p.ylo p.yhi i q - nth yo i ∧
      targ p.ylo p.yhi i q - nth yo i ≤ nth p.yhi i - nth yo i := fun i q => by
    have := clip_mem (nth p.ylo i) (nth p.yhi i) (nth q.t i) (hby i); unfold targ; constructor <;> linarith [this.1, this.2]
  unfold linCoefs
  simp only []
  have hA := lossLe_forList_const (pre ++ r :: post) (pre ++ r' :: post) (List.range p.t)
    (fun i => one ⟨"LaplaceFolded", ε / linCount p, 0, sqSens (nth p.ylo i - nth yo i) (nth p.yhi i - nth yo i), 0, p.inf,
        .osCsprng⟩
      (fun D => sumL (D.map fun q => (targ p.ylo p.yhi i q - nth yo i) * (targ p.ylo p.yhi i q - nth yo i))))
    (ε / linCount p * 1) (fun i _ =>
      lossLe_one _ _ _ _ 1 (by norm_num) (le_refl _) hle (sqSens_nonneg _ _) (by
        beta_reduce; rw [all_sum_diff, one_mul]; exact sq_sens _ _ _ _ (hy i r) (hy i r')))
  have hB := lossLe_forList_const (pre ++ r :: post) (pre ++ r' :: post)
    ((List.range p.t).flatMap fun i => (List.range p.d).map fun j => (i, j))
    (fun ij : Nat × Nat => one ⟨"Laplace", ε / linCount p, 0,
        cornerSens (nth p.ylo ij.1 - nth yo ij.1) (nth p.yhi ij.1 - nth yo ij.1) (nth p.lo ij.2 - nth xo ij.2)
          (nth p.hi ij.2 - nth xo ij.2), -p.inf, p.inf, .osCsprng⟩
      (fun D => sumL (D.map fun q => (feat p.lo p.hi ij.2 q - nth xo ij.2) * (targ p.ylo p.yhi ij.1 q - nth yo ij.1))))
    (ε / linCount p * 1) (fun ij _ =>
      lossLe_one _ _ _ _ 1 (by norm_num) (le_refl _) hle
        (cornerSens_nonneg _ _ _ _ (by linarith [hb ij.2]) (by linarith [hby ij.1])) (by
        beta_reduce; rw [all_sum_diff, one_mul]
        exact corner_product_sens _ _ _ _ _ _ _ _ (hx ij.2 r) (hy ij.1 r) (hx ij.2 r') (hy ij.1 r')))
  have hC := lossLe_forList_const (pre ++ r :: post) (pre ++ r' :: post)
    ((List.range p.d).flatMap fun i => ((List.range p.d).filter (fun j => i ≤ j)).map fun j => (i, j))
    (fun ij : Nat × Nat =>
      if ij.1 == ij.2 then
        one ⟨"LaplaceFolded", ε / linCount p, 0, sqSens (nth p.lo ij.1 - nth xo ij.1) (nth p.hi ij.1 - nth xo ij.1), 0, p.inf,
            .osCsprng⟩
          (fun D => sumL (D.map fun q => (feat p.lo p.hi ij.1 q - nth xo ij.1) * (feat p.lo p.hi ij.1 q - nth xo ij.1)))
      else
        one ⟨"Laplace", ε / linCount p, 0,
            cornerSens (nth p.lo ij.1 - nth xo ij.1) (nth p.hi ij.1 - nth xo ij.1) (nth p.lo ij.2 - nth xo ij.2)
              (nth p.hi ij.2 - nth xo ij.2), -p.inf, p.inf, .osCsprng⟩
          (fun D => sumL (D.map fun q => (feat p.lo p.hi ij.1 q - nth xo ij.1) * (feat p.lo p.hi ij.2 q - nth xo ij.2))))
    (ε / linCount p * 1) (fun ij _ => by
      beta_reduce
      split
      · exact lossLe_one _ _ _ _ 1 (by norm_num) (le_refl _) hle (sqSens_nonneg _ _) (by
          beta_reduce; rw [all_sum_diff, one_mul]; exact sq_sens _ _ _ _ (hx ij.1 r) (hx ij.1 r'))
      · exact lossLe_one _ _ _ _ 1 (by norm_num) (le_refl _) hle
          (cornerSens_nonneg _ _ _ _ (by linarith [hb ij.2]) (by linarith [hb ij.1])) (by
          beta_reduce; rw [all_sum_diff, one_mul]
          have := corner_product_sens _ _ _ _ _ _ _ _ (hx ij.2 r) (hx ij.1 r) (hx ij.2 r') (hx ij.1 r')
          simpa [mul_comm] using this))
  refine lossLe_mono _ _ _ (le_of_eq ?_)
    (lossLe_bind _ _ _ _ hA fun c0 => lossLe_bind _ _ _ _ hB fun c1 => lossLe_map _ _ _ _ hC)
  ring

end linreg

end PM
end DPL
