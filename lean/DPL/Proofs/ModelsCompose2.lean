/-
Output LAW of a release plan over ℝ and the semantic step of C08: a plan whose privacy-loss sum is bounded by `B` along
every forced-output sequence (`lossLe`, `ModelsCalc.lean`) is `B`-DP as a randomised algorithm, as soon as every
mechanism invocation is a metric-DP family of measures.

`Plan.lawOn M p D S` : the probability of the release landing in `S`, by recursion with the (lower) Lebesgue integral —
defined for every plan and every set, no measurability side condition.
`Plan.law M p D`     : the same as a `Measure ρ`, via `Measure.bind`; it is the genuine law under `Plan.Meas M p`
(measurable continuations), and then `law … S = lawOn … S` on measurable sets (`law_eq_lawOn`).
-/
import DPL.Proofs.ModelsCalc
import DPL.Proofs.ModelsCompose
import Mathlib.MeasureTheory.Constructions.BorelSpace.Real
import Mathlib.MeasureTheory.Measure.Dirac

namespace DPL
open MeasureTheory ENNReal

variable {δ ρ σ ι : Type}

/-- probability that the release of `p` on dataset `D` lands in `S`, mechanisms drawn from `M c input` -/
noncomputable def Plan.lawOn (M : MechCall ℝ → ℝ → Measure ℝ) : Plan δ ℝ ρ → δ → Set ρ → ℝ≥0∞
  | .release r, _, S => S.indicator 1 r
  | .call c inp k, D, S => ∫⁻ o, Plan.lawOn M (k o) D S ∂(M c (inp D))
  | .probe occ k, D, S => Plan.lawOn M (k (occ D)) D S

/-- the output law of `p` on dataset `D` -/
noncomputable def Plan.law [MeasurableSpace ρ] (M : MechCall ℝ → ℝ → Measure ℝ) : Plan δ ℝ ρ → δ → Measure ρ
  | .release r, _ => Measure.dirac r
  | .call c inp k, D => (M c (inp D)).bind (fun o => Plan.law M (k o) D)
  | .probe occ k, D => Plan.law M (k (occ D)) D

/-- the continuations are measurable (what `Measure.bind` needs to be the genuine mixture) -/
def Plan.Meas [MeasurableSpace ρ] (M : MechCall ℝ → ℝ → Measure ℝ) : Plan δ ℝ ρ → Prop
  | .release _ => True
  | .call _ _ k => (∀ D, Measurable fun o => Plan.law M (k o) D) ∧ ∀ o, Plan.Meas M (k o)
  | .probe _ k => ∀ b, Plan.Meas M (k b)

/-- the probes (occupancy patterns) of `D` and `D'` agree along every path — the side condition `lossLe` carries -/
def Plan.probesAgree (D D' : δ) : Plan δ ℝ ρ → Prop
  | .release _ => True
  | .call _ _ k => ∀ o, Plan.probesAgree D D' (k o)
  | .probe occ k => occ D = occ D' ∧ Plan.probesAgree D D' (k (occ D))

/-- every configured invocation satisfies `P` (e.g. positive epsilon and sensitivity) -/
def Plan.callsSat (P : MechCall ℝ → Prop) : Plan δ ℝ ρ → Prop
  | .release _ => True
  | .call c _ k => P c ∧ ∀ o, Plan.callsSat P (k o)
  | .probe _ k => ∀ b, Plan.callsSat P (k b)

namespace PM
open DPL.Compose

/-- over ℝ the relative displacement is just `|a − b| / sens` -/
theorem relDisp_eq (c : MechCall ℝ) (a b : ℝ) : relDisp c a b = |a - b| / c.sens := by
  unfold relDisp
  simp only [absDiff_real]
  split
  · rename_i h
    have : |a - b| = 0 := le_antisymm h (abs_nonneg _)
    rw [this, zero_div]
  · rfl

/-- **metric DP of the mechanism family** on the invocations satisfying `P`: inputs within the configured
sensitivity give output laws within `exp(ε·|a−b|/sens)` on every measurable set -/
def MetricDP (P : MechCall ℝ → Prop) (M : MechCall ℝ → ℝ → Measure ℝ) : Prop :=
  ∀ c, P c → ∀ a b, relDisp c a b ≤ 1 → ∀ S, MeasurableSet S →
    M c a S ≤ ENNReal.ofReal (Real.exp (c.eps * relDisp c a b)) * M c b S

/-- the same in the textbook form -/
theorem metricDP_of_abs (P : MechCall ℝ → Prop) (M : MechCall ℝ → ℝ → Measure ℝ)
    (h : ∀ c, P c → ∀ a b, |a - b| ≤ c.sens → ∀ S, MeasurableSet S →
      M c a S ≤ ENNReal.ofReal (Real.exp (c.eps * |a - b| / c.sens)) * M c b S)
    (hP : ∀ c, P c → 0 < c.sens) : MetricDP P M := by
  intro c hc a b hab S hS
  rw [relDisp_eq] at hab ⊢
  have := h c hc a b (by rwa [div_le_one (hP c hc)] at hab) S hS
  rwa [mul_div_assoc] at this

theorem law_eq_lawOn [MeasurableSpace ρ] (M : MechCall ℝ → ℝ → Measure ℝ) (p : Plan δ ℝ ρ) (hm : p.Meas M) (D : δ)
    (S : Set ρ) (hS : MeasurableSet S) : p.law M D S = p.lawOn M D S := by
  induction p with
  | release r => simp only [Plan.law, Plan.lawOn]; exact Measure.dirac_apply' r hS
  | call c inp k ih =>
    simp only [Plan.law, Plan.lawOn]
    rw [Measure.bind_apply hS (hm.1 D).aemeasurable]
    exact lintegral_congr fun o => ih o (hm.2 o)
  | probe occ k ih => simp only [Plan.law, Plan.lawOn]; exact ih _ (hm _)

/-- **the semantic step, set-function form** (every plan, every set): bounded loss ⇒ `B`-DP -/
theorem lawOn_dp_of_lossLe (P : MechCall ℝ → Prop) (M : MechCall ℝ → ℝ → Measure ℝ) (hM : MetricDP P M) (D D' : δ)
    (p : Plan δ ℝ ρ) (B : ℝ) (hp : lossLe D D' p B) (hpr : p.probesAgree D D') (hc : p.callsSat P) (S : Set ρ) :
    p.lawOn M D S ≤ ENNReal.ofReal (Real.exp B) * p.lawOn M D' S := by
  induction p generalizing B with
  | release r =>
    simp only [Plan.lawOn]
    have h0 : (0 : ℝ) ≤ B := hp
    have : (1 : ℝ≥0∞) ≤ ENNReal.ofReal (Real.exp B) := by
      rw [← ENNReal.ofReal_one]; exact ENNReal.ofReal_le_ofReal (Real.one_le_exp h0)
    exact le_mul_of_one_le_left' this
  | call c inp k ih =>
    simp only [Plan.lawOn]
    have hB : B = c.eps * relDisp c (inp D) (inp D') + (B - c.eps * relDisp c (inp D) (inp D')) := by ring
    rw [hB, ofReal_exp_add]
    exact lintegral_le_of_bounds ofReal_ne_top (hM c hc.1 _ _ hp.1) _ _
      (fun o => ih o _ (hp.2 o) (hpr o) (hc.2 o))
  | probe occ k ih =>
    simp only [Plan.lawOn]
    rw [← hpr.1]
    exact ih _ B (hp hpr.1) hpr.2 (hc _)

/-- **the semantic step**: for a plan with measurable continuations, metric-DP mechanisms and privacy-loss sum
`≤ B` along every forced-output sequence, the output law on `D` is within `e^B` of the output law on `D'` -/
theorem plan_dp_of_lossLe [MeasurableSpace ρ] (P : MechCall ℝ → Prop) (M : MechCall ℝ → ℝ → Measure ℝ)
    (hM : MetricDP P M) (D D' : δ) (p : Plan δ ℝ ρ) (B : ℝ) (hp : lossLe D D' p B) (hpr : p.probesAgree D D')
    (hc : p.callsSat P) (hm : p.Meas M) (S : Set ρ) (hS : MeasurableSet S) :
    p.law M D S ≤ ENNReal.ofReal (Real.exp B) * p.law M D' S := by
  rw [law_eq_lawOn M p hm D S hS, law_eq_lawOn M p hm D' S hS]
  exact lawOn_dp_of_lossLe P M hM D D' p B hp hpr hc S

/-! ### side predicates are compositional -/

theorem probesAgree_of_probeFree (D D' : δ) (p : Plan δ ℝ ρ) (h : p.probeFree) : p.probesAgree D D' := by
  induction p with
  | release r => trivial
  | call c inp k ih => exact fun o => ih o (h o)
  | probe occ k ih => exact absurd h (by simp [Plan.probeFree])

theorem callsSat_bind (P : MechCall ℝ → Prop) (p : Plan δ ℝ ρ) (q : ρ → Plan δ ℝ σ) (hp : p.callsSat P)
    (hq : ∀ r, (q r).callsSat P) : (p.bind q).callsSat P := by
  induction p with
  | release r => exact hq r
  | call c inp k ih => exact ⟨hp.1, fun o => ih o (hp.2 o)⟩
  | probe occ k ih => exact fun b => ih b (hp b)

theorem callsSat_one (P : MechCall ℝ → Prop) (c : MechCall ℝ) (inp : δ → ℝ) (h : P c) : (one c inp).callsSat P :=
  ⟨h, fun _ => trivial⟩

theorem callsSat_forList (P : MechCall ℝ → Prop) (l : List ι) (f : ι → Plan δ ℝ σ) (h : ∀ i ∈ l, (f i).callsSat P) :
    (forList l f).callsSat P := by
  induction l with
  | nil => trivial
  | cons i is ih =>
    exact callsSat_bind P _ _ (h i (by simp)) fun r =>
      callsSat_bind P _ _ (ih fun j hj => h j (by simp [hj])) fun _ => trivial

end PM
end DPL
