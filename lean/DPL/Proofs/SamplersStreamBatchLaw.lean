/-
C03: the batch layout of the rejection loop turns the i.i.d. UNIFORM stream into an i.i.d. stream of standard-Laplace
candidates (`candStream_law`), hence the model's `rejLoop`, run on the uniform stream, returns a value with the law of
one candidate conditioned on acceptance (`rejLoop_stream_law`).

Steps: reindexing an i.i.d. family along an INJECTIVE index map gives an i.i.d. family (`infinitePi_map_reindex`, from
the uniqueness of `Measure.infinitePi`); the index map `idxS` is injective (`idxS_inj`); currying `ℕ × Fin 4 → ℝ`
(`Measure.infinitePi_map_curry`) and mapping each block of four uniforms through `lap4` (`Measure.infinitePi_map_pi`,
`lap4_map` = Holohan–Braghin).
-/
import DPL.Proofs.SamplersStreamBatch
import DPL.Proofs.SamplersLap4Law
import DPL.Proofs.SamplersRejection

namespace DPL.SmpS
open MeasureTheory Set DPL.Discrete

/-- reindexing an i.i.d. family along an injective map gives an i.i.d. family -/
theorem infinitePi_map_reindex {ι κ X : Type*} [MeasurableSpace X] (P : Measure X) [IsProbabilityMeasure P]
    (g : κ → ι) (hg : Function.Injective g) :
    (Measure.infinitePi (fun _ : ι => P)).map (fun ω k => ω (g k)) = Measure.infinitePi (fun _ : κ => P) := by
  classical
  apply Measure.eq_infinitePi
  intro s t ht
  have hmeas : Measurable (fun (ω : ι → X) (k : κ) => ω (g k)) :=
    measurable_pi_lambda _ (fun k => measurable_pi_apply _)
  rw [Measure.map_apply hmeas (MeasurableSet.pi (Finset.countable_toSet _) (fun i _ => ht i))]
  set t' : ι → Set X := fun i => if h : ∃ k ∈ s, g k = i then t h.choose else univ with ht'
  have hchoose : ∀ k, ∀ hex : (∃ k' ∈ s, g k' = g k), hex.choose = k := fun k hex => hg hex.choose_spec.2
  have hpre : (fun (ω : ι → X) (k : κ) => ω (g k)) ⁻¹' (Set.pi (s : Set κ) t)
      = Set.pi ((s.image g : Finset ι) : Set ι) t' := by
    ext ω
    simp only [mem_preimage, Set.mem_pi, Finset.mem_coe, Finset.mem_image]
    constructor
    · rintro h i ⟨k, hk, rfl⟩
      have hex : ∃ k' ∈ s, g k' = g k := ⟨k, hk, rfl⟩
      simp only [ht', dif_pos hex]
      rw [hchoose k hex]; exact h k hk
    · intro h k hk
      have hex : ∃ k' ∈ s, g k' = g k := ⟨k, hk, rfl⟩
      have := h (g k) ⟨k, hk, rfl⟩
      simp only [ht', dif_pos hex] at this
      rw [hchoose k hex] at this; exact this
  have ht'm : ∀ i ∈ (s.image g : Finset ι), MeasurableSet (t' i) := by
    intro i _
    simp only [ht']
    split_ifs
    · exact ht _
    · exact MeasurableSet.univ
  rw [hpre, Measure.infinitePi_pi _ ht'm, Finset.prod_image (fun a _ b _ h => hg h)]
  apply Finset.prod_congr rfl
  intro k hk
  have hex : ∃ k' ∈ s, g k' = g k := ⟨k, hk, rfl⟩
  simp only [ht', dif_pos hex]
  rw [hchoose k hex]

/-! ### four uniforms as a vector -/

/-- the four uniforms of one candidate, as a function on `Fin 4` -/
def vec4 (q : ℝ × ℝ × ℝ × ℝ) (i : Fin 4) : ℝ :=
  if i = 0 then q.1 else if i = 1 then q.2.1 else if i = 2 then q.2.2.1 else q.2.2.2

theorem measurable_vec4 : Measurable vec4 := by
  refine measurable_pi_lambda _ (fun i => ?_)
  unfold vec4
  split_ifs
  · exact measurable_fst
  · exact measurable_snd.fst
  · exact measurable_snd.snd.fst
  · exact measurable_snd.snd.snd

theorem unif01x4_map_vec4 : Smp.unif01x4.map vec4 = Measure.pi (fun _ : Fin 4 => unif01) := by
  symm
  apply Measure.pi_eq
  intro s hs
  rw [Measure.map_apply measurable_vec4 (MeasurableSet.univ_pi hs)]
  have : vec4 ⁻¹' (Set.pi univ s) = s 0 ×ˢ (s 1 ×ˢ (s 2 ×ˢ s 3)) := by
    ext q
    simp only [mem_preimage, Set.mem_pi, mem_univ, forall_true_left, mem_prod, Fin.forall_fin_succ, vec4]
    simp
  rw [this]
  unfold Smp.unif01x4
  rw [Measure.prod_prod, Measure.prod_prod, Measure.prod_prod, Fin.prod_univ_four]
  simp only [mul_assoc]
  rfl

/-- `lap4` on a block of four -/
noncomputable def L4 (v : Fin 4 → ℝ) : ℝ := Smp.lap4 (v 0) (v 1) (v 2) (v 3)

theorem L4_vec4 : L4 ∘ vec4 = fun u : ℝ × ℝ × ℝ × ℝ => Smp.lap4 u.1 u.2.1 u.2.2.1 u.2.2.2 := by
  funext q
  simp [L4, vec4]

theorem measurable_L4 : Measurable L4 := by
  have h : L4 = (fun u : ℝ × ℝ × ℝ × ℝ => Smp.lap4 u.1 u.2.1 u.2.2.1 u.2.2.2)
      ∘ (fun v : Fin 4 → ℝ => (v 0, v 1, v 2, v 3)) := by
    funext v; rfl
  rw [h]
  exact Smp.measurable_lap4.comp (by fun_prop)

/-- Holohan–Braghin for a block of four independent uniforms -/
theorem pi_map_L4 : (Measure.pi (fun _ : Fin 4 => unif01)).map L4 = Cont.lapMeasure 1 0 := by
  rw [← unif01x4_map_vec4, Measure.map_map measurable_L4 measurable_vec4, L4_vec4]
  exact Smp.lap4_map

/-! ### the candidate stream is i.i.d. standard Laplace -/

theorem candStream_eq (s : ℕ) :
    candStream s = (fun (x : ℕ → Fin 4 → ℝ) (m : ℕ) => L4 (x m)) ∘ (MeasurableEquiv.curry ℕ (Fin 4) ℝ)
      ∘ (fun (ω : ℕ → ℝ) (p : ℕ × Fin 4) => ω (idxS s p.1 p.2)) := by
  funext ω m
  rfl

theorem measurable_candStream (s : ℕ) : Measurable (candStream s) := by
  rw [candStream_eq]
  refine (measurable_pi_lambda _ (fun m => measurable_L4.comp (measurable_pi_apply m))).comp
    ((MeasurableEquiv.measurable _).comp (measurable_pi_lambda _ (fun p => measurable_pi_apply _)))

/-- **the batch layout turns the i.i.d. uniform stream into an i.i.d. standard-Laplace candidate stream** -/
theorem candStream_law (s : ℕ) (hs : 0 < s) :
    streamμ.map (candStream s) = Measure.infinitePi (fun _ : ℕ => Cont.lapMeasure 1 0) := by
  have hinj : Function.Injective (fun p : ℕ × Fin 4 => idxS s p.1 p.2) := by
    intro p p' h
    obtain ⟨h1, h2⟩ := idxS_inj p.1 s hs p'.1 p.2 p'.2 p.2.isLt p'.2.isLt h
    exact Prod.ext h1 (Fin.ext h2)
  have h1 := infinitePi_map_reindex unif01 _ hinj
  have h2 := Measure.infinitePi_map_curry (fun (_ : ℕ) (_ : Fin 4) => unif01)
  have h3 := Measure.infinitePi_map_pi (fun _ : ℕ => Measure.infinitePi (fun _ : Fin 4 => unif01))
    (f := fun _ => L4) (fun _ => measurable_L4)
  have hm1 : Measurable (fun (ω : ℕ → ℝ) (p : ℕ × Fin 4) => ω (idxS s p.1 p.2)) :=
    measurable_pi_lambda _ (fun p => measurable_pi_apply _)
  have hm3 : Measurable (fun (x : ℕ → Fin 4 → ℝ) (m : ℕ) => L4 (x m)) :=
    measurable_pi_lambda _ (fun m => measurable_L4.comp (measurable_pi_apply m))
  rw [candStream_eq, ← Measure.map_map hm3 ((MeasurableEquiv.measurable _).comp hm1),
    ← Measure.map_map (MeasurableEquiv.measurable _) hm1]
  unfold streamμ
  rw [h1, h2, h3]
  congr 1
  funext m
  rw [Measure.infinitePi_eq_pi, pi_map_L4]

/-! ### the model's loop on the uniform stream -/

theorem inRange_iff (lo hi v : ℝ) : Smp.inRange lo hi v = true ↔ v ∈ Icc lo hi := by
  simp [Smp.inRange]

/-- the event "the model's loop, with enough fuel and a long enough prefix of the uniform stream, returns a value in `S`"
is the event "the first accepted candidate of the candidate stream lies in `S`" -/
theorem rejLoop_event (cand : ℝ → ℝ) (lo hi : ℝ) (S : Set ℝ) :
    {ω : ℕ → ℝ | ∃ N fuel v n, Smp.rejLoop cand (Smp.inRange lo hi) fuel 1 (pre ω N) 0 = some (v, n) ∧ v ∈ S}
      = (candStream 1) ⁻¹' (Smp.firstAcceptedIn (cand ⁻¹' Icc lo hi) (cand ⁻¹' S)) := by
  ext ω
  simp only [mem_ofPred_eq, mem_preimage, Smp.firstAcceptedIn]
  constructor
  · rintro ⟨N, fuel, v, n, h, hv⟩
    have hfind := Smp.rejLoop_eq_find cand (Smp.inRange lo hi) fuel 1 (pre ω N) 0
    rw [h, candidates_pre cand fuel 1 one_pos ω N] at hfind
    simp only [Option.map_some] at hfind
    obtain ⟨hacc, i, hi, hxi, hbefore⟩ := List.find?_eq_some_iff_getElem.mp hfind.symm
    simp only [List.getElem_map, List.getElem_range] at hxi hbefore
    refine ⟨i, fun m hm => ?_, ?_, ?_⟩
    · have := hbefore m hm
      intro hin
      rw [← inRange_iff] at hin
      rw [hin] at this; simp at this
    · rw [hxi, ← inRange_iff]; exact hacc
    · rw [hxi]; exact hv
  · rintro ⟨n, hbefore, hacc, hS⟩
    obtain ⟨fuel, N, hcnt⟩ := cnt_unbounded n 1 one_pos
    have hfind := Smp.rejLoop_eq_find cand (Smp.inRange lo hi) fuel 1 (pre ω N) 0
    rw [candidates_pre cand fuel 1 one_pos ω N] at hfind
    have hsome : ((List.range (cnt fuel 1 N)).map (fun m => cand (candStream 1 ω m))).find? (Smp.inRange lo hi)
        = some (cand (candStream 1 ω n)) := by
      rw [List.find?_eq_some_iff_getElem]
      refine ⟨(inRange_iff _ _ _).mpr hacc, n, by simpa using hcnt, by simp, fun j hj => ?_⟩
      simp only [List.getElem_map, List.getElem_range]
      have := hbefore j hj
      rw [← inRange_iff] at this
      simpa using this
    rw [hsome] at hfind
    cases hr : Smp.rejLoop cand (Smp.inRange lo hi) fuel 1 (pre ω N) 0 with
    | none => rw [hr] at hfind; simp at hfind
    | some p =>
      rw [hr] at hfind
      simp only [Option.map_some, Option.some.injEq] at hfind
      exact ⟨N, fuel, p.1, p.2, hr, by rw [hfind]; exact hS⟩

/-- **the rejection loop on the uniform stream**: the returned value has the law of one candidate `cand(L)`, `L`
standard Laplace, conditioned on acceptance -/
theorem rejLoop_stream_law (cand : ℝ → ℝ) (hc : Measurable cand) (lo hi : ℝ) (S : Set ℝ) (hS : MeasurableSet S) :
    streamμ {ω : ℕ → ℝ | ∃ N fuel v n,
        Smp.rejLoop cand (Smp.inRange lo hi) fuel 1 (pre ω N) 0 = some (v, n) ∧ v ∈ S}
      = Cont.lapMeasure 1 0 (cand ⁻¹' Icc lo hi ∩ cand ⁻¹' S) / Cont.lapMeasure 1 0 (cand ⁻¹' Icc lo hi) := by
  have : IsProbabilityMeasure (Cont.lapMeasure 1 0) := Smp.lapMeasure_prob 1 0 one_pos
  have hA : MeasurableSet (cand ⁻¹' Icc lo hi) := hc measurableSet_Icc
  have hB : MeasurableSet (cand ⁻¹' S) := hc hS
  have hmeas : MeasurableSet (Smp.firstAcceptedIn (cand ⁻¹' Icc lo hi) (cand ⁻¹' S)) := by
    rw [Smp.firstAcceptedIn_eq_iUnion]
    exact MeasurableSet.iUnion (Smp.acceptAt_measurable hA hB)
  rw [rejLoop_event, ← Measure.map_apply (measurable_candStream 1) hmeas, candStream_law 1 one_pos]
  exact Smp.firstAcceptedIn_measure _ hA hB

end DPL.SmpS
