/-
The carrier instances for ℝ (noncomputable; used only in proofs) and the simp lemmas that turn the generic
operations into Mathlib's.
-/
import DPL.Model.Accountant
import Mathlib.Analysis.SpecialFunctions.Pow.Real
import Mathlib.Analysis.SpecialFunctions.Log.Basic
import Mathlib.Analysis.SpecialFunctions.Sqrt

namespace DPL

noncomputable instance : Transc ℝ := ⟨Real.exp, Real.log, Real.sqrt, fun x y => x ^ y, fun x => ⌊x⌋⟩
instance : HasInf ℝ := ⟨fun _ => false⟩

@[simp] theorem transc_exp (x : ℝ) : Transc.exp x = Real.exp x := rfl
@[simp] theorem transc_log (x : ℝ) : Transc.log x = Real.log x := rfl
@[simp] theorem transc_sqrt (x : ℝ) : Transc.sqrt x = Real.sqrt x := rfl
@[simp] theorem transc_pow (x y : ℝ) : Transc.pow x y = x ^ y := rfl
@[simp] theorem transc_floor (x : ℝ) : Transc.floor x = ⌊x⌋ := rfl
@[simp] theorem isPosInf_real (x : ℝ) : HasInf.isPosInf x = false := rfl

end DPL
