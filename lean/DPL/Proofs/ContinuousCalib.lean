/-
Helper lemmas for C02 over ℝ: the calibration functions of `DPL/Model/Calibration.lean` unfolded at the real
carrier, and the algebraic identities behind each mechanism's guarantee.
-/
import DPL.Model.Calibration
import DPL.Proofs.RealCarrier
import Mathlib.Analysis.SpecialFunctions.Pow.Real
import Mathlib.Analysis.SpecialFunctions.Log.Basic
import Mathlib.Analysis.SpecialFunctions.Sqrt
import Mathlib.Tactic.FieldSimp
import Mathlib.Tactic.Linarith
import Mathlib.Tactic.Positivity
import Mathlib.Tactic.Ring

namespace DPL.Cont
open DPL Real

/-! ### unfolding at ℝ -/

theorem feq_real (a b : ℝ) : feq a b = decide (a = b) := by
  unfold feq
  by_cases h : a = b
  · subst h; simp
  · have : ¬ (a ≤ b ∧ b ≤ a) := fun ⟨h1, h2⟩ => h (le_antisymm h1 h2)
    simp only [h, decide_false]
    rcases not_and_or.mp this with h1 | h1 <;> simp [h1]

theorem laplaceScale_real (eps delta sens : ℝ) :
    laplaceScale eps delta sens = sens / (eps - Real.log (1 - delta)) := rfl

theorem uniformHalfWidth_real (delta sens : ℝ) : uniformHalfWidth delta sens = sens / delta / 2 := rfl

theorem c125_real : (c125 : ℝ) = 5 / 4 := by unfold c125; norm_num

theorem gaussSigma_real (eps delta sens : ℝ) :
    gaussSigma eps delta sens = Real.sqrt (2 * Real.log (5 / 4 / delta)) * sens / eps := by
  unfold gaussSigma; rw [c125_real]; rfl

theorem snapEffEps_real (eta eps bound : ℝ) :
    snapEffEps eta eps bound = (eps - 2 * eta) / (1 + 12 * bound * eta) := by
  unfold snapEffEps; norm_num

theorem boundedNoiseBound_real (eps delta sens : ℝ) (h : sens / eps ≠ 0) :
    boundedNoiseBound eps delta sens = sens / eps * Real.log (1 + (Real.exp eps - 1) / 2 / delta) := by
  unfold boundedNoiseBound boundedNoiseScale
  simp [feq_real, h]

/-! ### Laplace -/

/-- with the coded scale the worst-case density ratio `e^{Δ/b}` is exactly `e^ε / (1 - δ)` -/
theorem exp_sens_div_laplaceScale (eps delta sens : ℝ) (hs : 0 < sens) (hd : delta < 1)
    (hpos : 0 < eps - Real.log (1 - delta)) :
    Real.exp (sens / laplaceScale eps delta sens) = Real.exp eps / (1 - delta) := by
  rw [laplaceScale_real]
  have h1 : sens / (sens / (eps - Real.log (1 - delta))) = eps - Real.log (1 - delta) := by
    field_simp
  rw [h1, Real.exp_sub, Real.exp_log (by linarith)]

/-- pointwise ratio of two Laplace densities with the same scale (normalising constant cancels) -/
theorem laplace_ratio (b x x' y Δ : ℝ) (hb : 0 < b) (hx : |x - x'| ≤ Δ) :
    Real.exp (-|y - x| / b) ≤ Real.exp (Δ / b) * Real.exp (-|y - x'| / b) := by
  rw [← Real.exp_add]
  apply Real.exp_le_exp.mpr
  have h1 : |y - x'| ≤ |y - x| + |x - x'| := by
    have := abs_sub_le y x x'; linarith
  have : (-|y - x|) / b ≤ (Δ + -|y - x'|) / b := by
    apply div_le_div_of_nonneg_right _ hb.le; linarith
  calc -|y - x| / b ≤ (Δ + -|y - x'|) / b := this
    _ = Δ / b + -|y - x'| / b := by ring

/-- [HLM15]: an `e^ε/(1-δ)` ratio bound on probabilities gives `(ε, δ)`-DP -/
theorem approx_of_scaled (P P' e d : ℝ) (hP1 : P ≤ 1) (hP' : 0 ≤ P') (he : 0 < e) (hd0 : 0 ≤ d) (hd1 : d < 1)
    (h : P ≤ e / (1 - d) * P') : P ≤ e * P' + d := by
  have h1d : 0 < 1 - d := by linarith
  by_cases hc : e * P' ≤ 1 - d
  · have : e / (1 - d) * P' = e * P' / (1 - d) := by ring
    rw [this] at h
    have h2 : e * P' / (1 - d) ≤ e * P' + d := by
      rw [div_le_iff₀ h1d]; nlinarith [mul_nonneg he.le hP']
    linarith
  · rw [not_le] at hc; linarith

/-! ### snapping -/

theorem snap_identity (eta eps B : ℝ) (hB : 0 ≤ B) (heta : 0 ≤ eta) :
    snapEffEps eta eps B * (1 + 12 * B * eta) + 2 * eta = eps := by
  rw [snapEffEps_real]
  have : 0 < 1 + 12 * B * eta := by positivity
  field_simp
  ring

theorem snap_pos (eta eps B : ℝ) (hB : 0 ≤ B) (heta : 0 ≤ eta) (he : 2 * eta < eps) :
    0 < snapEffEps eta eps B := by
  rw [snapEffEps_real]
  have : 0 < 1 + 12 * B * eta := by positivity
  apply div_pos <;> linarith

theorem snap_le (eta eps B : ℝ) (hB : 0 ≤ B) (heta : 0 ≤ eta) (he : 2 * eta < eps) :
    snapEffEps eta eps B ≤ eps := by
  rw [snapEffEps_real]
  have h1 : 0 < 1 + 12 * B * eta := by positivity
  rw [div_le_iff₀ h1]
  have : 0 ≤ eps * (12 * B * eta) := by
    have : 0 ≤ eps := by linarith
    positivity
  nlinarith

/-! ### bounded noise (Geng et al.): the algebra of the noise bound -/

/-- `e^{-A/b} = 2δ / (2δ + e^ε - 1)` for the coded bound `A` and scale `b = Δ/ε` -/
theorem exp_neg_bound_div_scale (eps delta sens : ℝ) (he : 0 < eps) (hd : 0 < delta) (hs : 0 < sens) :
    Real.exp (-(boundedNoiseBound eps delta sens) / (sens / eps)) = 2 * delta / (2 * delta + Real.exp eps - 1) := by
  have hne : sens / eps ≠ 0 := by positivity
  rw [boundedNoiseBound_real _ _ _ hne]
  have hE : 0 < Real.exp eps - 1 := by
    have := Real.add_one_lt_exp (ne_of_gt he); linarith
  have harg : 0 < 1 + (Real.exp eps - 1) / 2 / delta := by positivity
  have h1 : -(sens / eps * Real.log (1 + (Real.exp eps - 1) / 2 / delta)) / (sens / eps)
      = -Real.log (1 + (Real.exp eps - 1) / 2 / delta) := by
    field_simp
  rw [h1, Real.exp_neg, Real.exp_log harg]
  have h2 : 2 * delta + Real.exp eps - 1 ≠ 0 := by nlinarith
  have h3 : 1 + (Real.exp eps - 1) / 2 / delta = (2 * delta + Real.exp eps - 1) / (2 * delta) := by
    field_simp; ring
  rw [h3, inv_div]

/-- the mass the truncated Laplacian puts within `Δ` of an end of its support — evaluated symbolically as
`e^{-A/b}(e^{Δ/b} - 1) / (2 (1 - e^{-A/b}))` — equals `δ` exactly for the coded bound -/
theorem bounded_noise_tail_mass (eps delta sens : ℝ) (he : 0 < eps) (hd : 0 < delta) (hs : 0 < sens) :
    let b := sens / eps
    let q := Real.exp (-(boundedNoiseBound eps delta sens) / b)
    q * (Real.exp (sens / b) - 1) / (2 * (1 - q)) = delta := by
  intro b q
  have hq : q = 2 * delta / (2 * delta + Real.exp eps - 1) := exp_neg_bound_div_scale eps delta sens he hd hs
  have hE : 0 < Real.exp eps - 1 := by
    have := Real.add_one_lt_exp (ne_of_gt he); linarith
  have hb : sens / b = eps := by
    show sens / (sens / eps) = eps
    field_simp
  rw [hb, hq]
  have h2 : 2 * delta + Real.exp eps - 1 ≠ 0 := by nlinarith
  have h3 : Real.exp eps - 1 ≠ 0 := ne_of_gt hE
  have h4 : 1 - 2 * delta / (2 * delta + Real.exp eps - 1) = (Real.exp eps - 1) / (2 * delta + Real.exp eps - 1) := by
    field_simp; ring
  rw [h4]
  field_simp

/-! ### bounded domain (Holohan et al.) -/

/-- if the scale satisfies the fixed-point inequality with some `ΔC` that bounds the normaliser ratio, the density
ratio is at most `e^ε/(1-δ)` -/
theorem bounded_domain_ratio (eps delta sens b dC cx cx' x x' y : ℝ) (hb : 0 < b) (hd : delta < 1)
    (hdC : 0 < dC) (hcx : 0 < cx) (hcx' : 0 < cx')
    (hden : 0 < eps - Real.log dC - Real.log (1 - delta))
    (hfix : sens / (eps - Real.log dC - Real.log (1 - delta)) ≤ b)
    (hnorm : cx' / cx ≤ dC) (hx : |x - x'| ≤ sens) :
    Real.exp (-|y - x| / b) / (2 * b * cx) ≤
      Real.exp eps / (1 - delta) * (Real.exp (-|y - x'| / b) / (2 * b * cx')) := by
  have h1d : 0 < 1 - delta := by linarith
  have hr := laplace_ratio b x x' y sens hb hx
  -- e^{sens/b} ≤ e^ε / (dC (1-δ))
  have hsb : sens / b ≤ eps - Real.log dC - Real.log (1 - delta) := by
    rw [div_le_iff₀ hb]
    have := (div_le_iff₀ hden).mp hfix
    linarith [mul_comm b (eps - Real.log dC - Real.log (1 - delta))]
  have hexp : Real.exp (sens / b) ≤ Real.exp eps / (dC * (1 - delta)) := by
    calc Real.exp (sens / b) ≤ Real.exp (eps - Real.log dC - Real.log (1 - delta)) := Real.exp_le_exp.mpr hsb
      _ = Real.exp eps / (dC * (1 - delta)) := by
        rw [Real.exp_sub, Real.exp_sub, Real.exp_log hdC, Real.exp_log h1d]; field_simp
  have hq : 0 ≤ Real.exp (-|y - x'| / b) := (Real.exp_pos _).le
  have hc : cx' ≤ dC * cx := by
    have := (div_le_iff₀ hcx).mp hnorm; linarith
  -- assemble
  have e1 : Real.exp (-|y - x| / b) ≤ Real.exp eps / (dC * (1 - delta)) * Real.exp (-|y - x'| / b) :=
    hr.trans (mul_le_mul_of_nonneg_right hexp hq)
  rw [div_le_iff₀ (by positivity)]
  calc Real.exp (-|y - x| / b)
      ≤ Real.exp eps / (dC * (1 - delta)) * Real.exp (-|y - x'| / b) := e1
    _ = Real.exp eps / (1 - delta) * (Real.exp (-|y - x'| / b) / (2 * b * cx')) * (2 * b * (cx' / dC)) := by
        field_simp
    _ ≤ Real.exp eps / (1 - delta) * (Real.exp (-|y - x'| / b) / (2 * b * cx')) * (2 * b * cx) := by
        apply mul_le_mul_of_nonneg_left
        · have : cx' / dC ≤ cx := by rw [div_le_iff₀ hdC]; linarith
          nlinarith
        · positivity

/-! ### analytic Gaussian: the coded `b_plus`/`b_minus` arguments are the Balle–Wang arguments -/

/-- `α = √(1+s) - √s` has inverse `√(1+s) + √s` -/
theorem alpha_mul (s : ℝ) (hs : 0 ≤ s) :
    (Real.sqrt (1 + s) - Real.sqrt s) * (Real.sqrt (1 + s) + Real.sqrt s) = 1 := by
  have h1 : Real.sqrt (1 + s) * Real.sqrt (1 + s) = 1 + s := Real.mul_self_sqrt (by linarith)
  have h2 : Real.sqrt s * Real.sqrt s = s := Real.mul_self_sqrt hs
  nlinarith

/-- Balle–Wang arguments for `σ = α Δ / √(2ε)`:
`Δ/(2σ) - εσ/Δ = √(ε/2) (1/α - α)` and `-Δ/(2σ) - εσ/Δ = -√(ε/2) (1/α + α)` -/
theorem bw_args (eps sens alpha : ℝ) (he : 0 < eps) (hs : 0 < sens) (ha : 0 < alpha) :
    let sigma := alpha * sens / Real.sqrt (2 * eps)
    sens / (2 * sigma) - eps * sigma / sens = Real.sqrt (eps / 2) * (1 / alpha - alpha) ∧
    -sens / (2 * sigma) - eps * sigma / sens = -(Real.sqrt (eps / 2) * (1 / alpha + alpha)) := by
  intro sigma
  have h2e : 0 < 2 * eps := by linarith
  have hq : 0 < Real.sqrt (2 * eps) := Real.sqrt_pos.mpr h2e
  have hq2 : Real.sqrt (2 * eps) * Real.sqrt (2 * eps) = 2 * eps := Real.mul_self_sqrt h2e.le
  have hhalf : Real.sqrt (eps / 2) = Real.sqrt (2 * eps) / 2 := by
    have : eps / 2 = (Real.sqrt (2 * eps) / 2) ^ 2 := by
      rw [div_pow, sq, hq2]; ring
    rw [this, Real.sqrt_sq (by positivity)]
  have e1 : sens / (2 * sigma) = Real.sqrt (2 * eps) / (2 * alpha) := by
    show sens / (2 * (alpha * sens / Real.sqrt (2 * eps))) = _
    field_simp
  have key : ∀ q : ℝ, 0 < q → q * q = 2 * eps → eps * (alpha * sens / q) / sens = q / 2 * alpha := by
    intro q hq0 hqq
    have : eps = q * q / 2 := by linarith
    rw [this]; field_simp
  have e2 : eps * sigma / sens = Real.sqrt (2 * eps) / 2 * alpha := key _ hq hq2
  constructor
  · rw [e1, e2, hhalf]; field_simp
  · have e1' : -sens / (2 * sigma) = -(Real.sqrt (2 * eps) / (2 * alpha)) := by
      rw [neg_div, e1]
    rw [e1', e2, hhalf]; field_simp; ring

/-- `√(ε/2) · 2√(v/2) = √(εv)` and `√(ε/2) · 2√(1 + v/2) = √(ε(v+2))` -/
theorem sqrt_half_mul (eps v : ℝ) (he : 0 ≤ eps) (hv : 0 ≤ v) :
    Real.sqrt (eps / 2) * (2 * Real.sqrt (v / 2)) = Real.sqrt (eps * v) ∧
    Real.sqrt (eps / 2) * (2 * Real.sqrt (1 + v / 2)) = Real.sqrt (eps * (v + 2)) := by
  constructor
  · have : eps * v = (eps / 2) * (2 * 2 * (v / 2)) := by ring
    rw [this, Real.sqrt_mul (by positivity), Real.sqrt_mul (by positivity)]
    have h4 : Real.sqrt (2 * 2) = 2 := by
      rw [show (2:ℝ) * 2 = 2 ^ 2 by norm_num, Real.sqrt_sq (by norm_num)]
    rw [h4]
  · have : eps * (v + 2) = (eps / 2) * (2 * 2 * (1 + v / 2)) := by ring
    rw [this, Real.sqrt_mul (by positivity), Real.sqrt_mul (by positivity)]
    have h4 : Real.sqrt (2 * 2) = 2 := by
      rw [show (2:ℝ) * 2 = 2 ^ 2 by norm_num, Real.sqrt_sq (by norm_num)]
    rw [h4]

end DPL.Cont
