/-
C03 / Snapping: the rounding step `_round_to_nearest_power_of_2(value, Λ)` of the model is round-half-up to the grid `Λ·ℤ`
(`snapRound_eq`), the grid point `Λk` is released by the rounding exactly on `[(k−½)Λ, (k+½)Λ)` (`snapRound_preimage`),
the post-processing `snapPost` is measurable, and the released value — clamp, add `scale·(±log U)`, round, clamp,
rescale — has the law of `snapPost` applied to a Laplace variable (`snapping_release_map`).
-/
import DPL.Proofs.SamplersSnapLaw

namespace DPL.SmpS
open MeasureTheory Set DPL.Smp
open scoped ENNReal

/-- the model's rounding is round-half-up to the grid `lam·ℤ` -/
theorem snapRound_eq (v lam : ℝ) (hl : 0 < lam) : snapRound v lam = lam * ((⌊v / lam + 1 / 2⌋ : ℤ) : ℝ) := by
  set q := v / lam with hq
  set n := ⌊q⌋ with hn
  have hv : v = lam * q := by rw [hq]; field_simp
  have hn1 : (n : ℝ) ≤ q := Int.floor_le q
  have hn2 : q < n + 1 := Int.lt_floor_add_one q
  have hr : pyMod v lam = lam * (q - n) := by
    unfold pyMod
    simp only [transc_floor]
    rw [← hq, ← hn, hv]; ring
  unfold snapRound
  simp only [hr]
  rcases lt_trichotomy (q - n) (1 / 2) with h | h | h
  · -- round down
    have h1 : ¬ lam / 2 < lam * (q - n) := by
      have := mul_lt_mul_of_pos_left h hl
      linarith
    have h2 : Smp.feq (lam * (q - n)) (lam / 2) = false := by
      simp only [Smp.feq, Bool.and_eq_false_iff, decide_eq_false_iff_not, not_le]
      right
      have := mul_lt_mul_of_pos_left h hl
      linarith
    rw [if_neg h1, h2]
    simp only [Bool.false_eq_true, if_false]
    have hfl : ⌊q + 1 / 2⌋ = n := by
      rw [Int.floor_eq_iff]; constructor <;> linarith
    rw [hfl, hv]; ring
  · -- tie: up
    have h1 : ¬ lam / 2 < lam * (q - n) := by rw [h]; linarith
    have h2 : Smp.feq (lam * (q - n)) (lam / 2) = true := by
      simp only [Smp.feq, Bool.and_eq_true, decide_eq_true_eq]
      rw [h]; constructor <;> linarith
    rw [if_neg h1, h2]
    simp only [if_true]
    have hfl : ⌊q + 1 / 2⌋ = n + 1 := by
      rw [Int.floor_eq_iff]; push_cast; constructor <;> linarith
    rw [hfl, hv, h]
    push_cast
    have : q = n + 1 / 2 := by linarith
    rw [this]; ring
  · -- round up
    have h1 : lam / 2 < lam * (q - n) := by
      have := mul_lt_mul_of_pos_left h hl
      linarith
    rw [if_pos h1]
    have hfl : ⌊q + 1 / 2⌋ = n + 1 := by
      rw [Int.floor_eq_iff]; push_cast; constructor <;> linarith
    rw [hfl, hv]
    push_cast; ring

/-- the rounding releases the grid point `lam·k` exactly on `[(k−½)lam, (k+½)lam)` -/
theorem snapRound_preimage (lam : ℝ) (hl : 0 < lam) (k : ℤ) :
    (fun v => snapRound v lam) ⁻¹' {lam * (k : ℝ)} = Ico (((k : ℝ) - 1 / 2) * lam) (((k : ℝ) + 1 / 2) * lam) := by
  ext v
  simp only [mem_preimage, mem_singleton_iff, mem_Ico]
  rw [snapRound_eq v lam hl, mul_right_inj' hl.ne', Int.cast_inj, Int.floor_eq_iff, ← sub_le_iff_le_add,
    ← lt_sub_iff_add_lt, le_div_iff₀ hl, div_lt_iff₀ hl]
  constructor
  · rintro ⟨h1, h2⟩; constructor <;> nlinarith
  · rintro ⟨h1, h2⟩; constructor <;> nlinarith

theorem measurable_snapRound (lam : ℝ) (hl : 0 < lam) : Measurable (fun v => snapRound v lam) := by
  have : (fun v => snapRound v lam) = fun v => lam * ((⌊v / lam + 1 / 2⌋ : ℤ) : ℝ) := by
    funext v; exact snapRound_eq v lam hl
  rw [this]
  have h1 : Measurable (fun v : ℝ => ⌊v / lam + 1 / 2⌋) := ((measurable_id.div_const lam).add_const _).floor
  exact measurable_const.mul ((measurable_from_top (f := fun z : ℤ => (z : ℝ))).comp h1)

theorem nextPow2_pos (x : ℝ) : 0 < (Bits.nextPow2 x : ℝ) := by
  show 0 < (2 : ℝ) ^ ⌈Real.logb 2 x⌉
  positivity

/-- everything after the noise is a measurable map of the noisy value -/
theorem measurable_snapPost (eps sens lo hi : ℝ) : Measurable (snapPost eps sens lo hi) := by
  unfold snapPost
  exact (measurable_truncate lo hi).comp
    (((((measurable_truncate _ _).comp (measurable_snapRound _ (nextPow2_pos _))).add_const _).mul_const _).add_const _)

theorem measurable_snapLaplace_prod : Measurable (fun p : ℕ × ℝ => snapLaplace p.1 p.2) := by
  apply measurable_from_prod_countable_right
  intro b; exact measurable_snapLaplace b

/-- **law of the released value**: with a fair bit and `U` uniform on [0,1), `post(c + s·(±log U))` has the law of `post`
applied to a Laplace variable with centre `c` and scale `s` -/
theorem snapping_release_map (post : ℝ → ℝ) (hpost : Measurable post) (c s : ℝ) (hs : 0 < s) :
    (bitLaw.prod unif01).map (fun p : ℕ × ℝ => post (c + s * snapLaplace p.1 p.2))
      = (Cont.lapMeasure s c).map post := by
  have hm : Measurable (fun l : ℝ => c + s * l) := measurable_const.add (measurable_const.mul measurable_id)
  have haff := lapMeasure_affine' s c hs.ne'
  rw [abs_of_pos hs] at haff
  have hcomp : (fun p : ℕ × ℝ => post (c + s * snapLaplace p.1 p.2))
      = post ∘ (fun l : ℝ => c + s * l) ∘ (fun p : ℕ × ℝ => snapLaplace p.1 p.2) := rfl
  rw [hcomp, ← Measure.map_map hpost (hm.comp measurable_snapLaplace_prod),
    ← Measure.map_map hm measurable_snapLaplace_prod, snapLaplace_law, haff]

/-- the probability that the rounding step returns the grid point `lam·k` -/
theorem snapRound_pmf (lam c s : ℝ) (hl : 0 < lam) (k : ℤ) :
    (Cont.lapMeasure s c).map (fun v => snapRound v lam) {lam * (k : ℝ)}
      = Cont.lapMeasure s c (Ico (((k : ℝ) - 1 / 2) * lam) (((k : ℝ) + 1 / 2) * lam)) := by
  rw [Measure.map_apply (measurable_snapRound lam hl) (measurableSet_singleton _), snapRound_preimage lam hl k]

theorem truncate_eq_interior (lo hi g y : ℝ) (h1 : lo < g) (h2 : g < hi) : truncate lo hi y = g ↔ y = g := by
  unfold truncate
  constructor
  · intro h
    by_cases a : hi < y
    · rw [if_pos a] at h; linarith
    · rw [if_neg a] at h
      by_cases b : y < lo
      · rw [if_pos b] at h; linarith
      · rw [if_neg b] at h; exact h
  · intro h
    rw [h, if_neg (by linarith), if_neg (by linarith)]

/-- … and the same for the clamped rounded value, at a grid point strictly inside the clamping interval -/
theorem snapRound_clamped_pmf (lam c s B : ℝ) (hl : 0 < lam) (k : ℤ) (h1 : -B < lam * (k : ℝ)) (h2 : lam * (k : ℝ) < B) :
    (Cont.lapMeasure s c).map (fun v => truncate (-B) B (snapRound v lam)) {lam * (k : ℝ)}
      = Cont.lapMeasure s c (Ico (((k : ℝ) - 1 / 2) * lam) (((k : ℝ) + 1 / 2) * lam)) := by
  have hm : Measurable (fun v => truncate (-B) B (snapRound v lam)) :=
    (measurable_truncate _ _).comp (measurable_snapRound lam hl)
  rw [Measure.map_apply hm (measurableSet_singleton _), ← snapRound_preimage lam hl k]
  congr 1
  ext v
  simp only [mem_preimage, mem_singleton_iff]
  exact truncate_eq_interior _ _ _ _ h1 h2

/-- `_truncate` is 1-Lipschitz -/
theorem truncate_lipschitz (lo hi a b : ℝ) (h : lo ≤ hi) : |truncate lo hi a - truncate lo hi b| ≤ |a - b| := by
  unfold truncate
  split_ifs <;> (rw [abs_le]; constructor <;> cases abs_cases (a - b) <;> linarith)

/-- post-processing a Laplace variable: the ratio `e^{Δ/b}` of the Laplace laws survives any measurable map -/
theorem lapMeasure_map_ratio (post : ℝ → ℝ) (hpost : Measurable post) (b c c' Δ : ℝ) (hb : 0 < b) (hc : |c - c'| ≤ Δ)
    (S : Set ℝ) (hS : MeasurableSet S) :
    (Cont.lapMeasure b c).map post S ≤ ENNReal.ofReal (Real.exp (Δ / b)) * (Cont.lapMeasure b c').map post S := by
  rw [Measure.map_apply hpost hS, Measure.map_apply hpost hS]
  exact Cont.lapMeasure_ratio b c c' Δ hb hc _ (hpost hS)

/-- the model's effective epsilon is at most epsilon (`η = 2^-53`, `bound ≥ 0`, `ε ≥ 0`) -/
theorem snapEffEps_le (eps B : ℝ) (he : 0 ≤ eps) (hB : 0 ≤ B) : snapEffEps eps B ≤ eps := by
  unfold snapEffEps epsneg
  simp only [bits_ldexp, Nat.cast_one, one_mul, Nat.cast_ofNat]
  have hη : (0:ℝ) < (2:ℝ) ^ (-53 : ℤ) := by positivity
  have hden : (0:ℝ) < 1 + 12 * B * (2:ℝ) ^ (-53 : ℤ) := by positivity
  rw [div_le_iff₀ hden]
  nlinarith [mul_nonneg (mul_nonneg hB hη.le) he]

end DPL.SmpS
