/-
The classical Gaussian mechanism (C02), stage C — the end-to-end statement about the Gaussian LAW.

For `σ = gaussSigma ε δ Δ = √(2 log(1.25/δ)) Δ/ε`, `0 < ε ≤ 1`, `0 < δ < 1`, `Δ > 0`, `|x - x'| ≤ Δ` and every measurable
`S`:   `N(x, σ²)(S) ≤ e^ε · N(x', σ²)(S) + δ`     (`gaussianReal_classical_dp`).

Route (for `x' < x`, the other order by reflection `y ↦ -y`): the log-ratio of the densities is linear in `y`, so the
"good" set `{pdf_x ≤ e^ε pdf_x'}` is the half-line `(-∞, a]`, `a = (x+x')/2 + σ²ε/(x-x')`; on it the densities are
compared pointwise; the mass `N(x, σ²)((a, ∞))` is `Φ(-(a-x)/σ)` for the true normal cdf `Φ` (`phiTrue`,
`ContinuousGaussErfc.lean`), and `(a-x)/σ = σε/d - d/(2σ) ≥ c - ε/(2c)` for `d = x - x' ≤ Δ`, where the tail is at most
`δ` (`phiTrue_tail_le_delta`).
-/
import DPL.Proofs.ContinuousGaussErfc
import Mathlib.Probability.Distributions.Gaussian.Real
import Mathlib.MeasureTheory.Integral.IntegralEqImproper

namespace DPL.Cont
open DPL Real MeasureTheory Set ProbabilityTheory

/-- the variance `σ²` as the `ℝ≥0` that `gaussianReal` wants -/
noncomputable def sqNN (σ : ℝ) : NNReal := NNReal.mk (σ ^ 2) (sq_nonneg σ)

@[simp] theorem coe_sqNN (σ : ℝ) : ((sqNN σ : NNReal) : ℝ) = σ ^ 2 := rfl

theorem sqNN_ne_zero (σ : ℝ) (hσ : 0 < σ) : sqNN σ ≠ 0 := by
  intro h
  have h2 : ((sqNN σ : NNReal) : ℝ) = 0 := by rw [h]; rfl
  rw [coe_sqNN] at h2
  exact hσ.ne' ((pow_eq_zero_iff two_ne_zero).mp h2)

/-! ### the good half-line -/

/-- pointwise ratio of two Gaussian densities with the same variance, `x' < x`: at most `e^ε` on
`y ≤ (x+x')/2 + σ²ε/(x-x')` -/
theorem gaussianPDFReal_ratio (σ eps x x' y : ℝ) (hσ : 0 < σ) (hx : x' < x)
    (hy : y ≤ (x + x') / 2 + σ ^ 2 * eps / (x - x')) :
    gaussianPDFReal x (sqNN σ) y ≤ Real.exp eps * gaussianPDFReal x' (sqNN σ) y := by
  have hd : 0 < x - x' := by linarith
  rw [gaussianPDFReal_def, gaussianPDFReal_def]
  simp only [coe_sqNN]
  rw [mul_left_comm, ← Real.exp_add]
  apply mul_le_mul_of_nonneg_left _ (inv_nonneg.mpr (Real.sqrt_nonneg _))
  apply Real.exp_le_exp.mpr
  have hσ2 : 0 < 2 * σ ^ 2 := by positivity
  have hkey : (2 * y - x - x') * (x - x') ≤ 2 * (σ ^ 2 * eps) := by
    have h1 : y - (x + x') / 2 ≤ σ ^ 2 * eps / (x - x') := by linarith
    have h2 := (le_div_iff₀ hd).mp h1
    linarith
  rw [← sub_nonneg]
  have : eps + -(y - x') ^ 2 / (2 * σ ^ 2) - -(y - x) ^ 2 / (2 * σ ^ 2)
      = (2 * (σ ^ 2 * eps) - (2 * y - x - x') * (x - x')) / (2 * σ ^ 2) := by
    field_simp
    ring
  rw [this]
  exact div_nonneg (by linarith) hσ2.le

/-- **reduction**: if the mass `N(x, σ²)` puts beyond the threshold `a = (x+x')/2 + σ²ε/(x-x')` is at most `δ`, the
`(ε, δ)` inequality holds on every set (`x' < x`) -/
theorem gaussianReal_dp_of_tail (σ eps x x' : ℝ) (dlt : ENNReal) (hσ : 0 < σ) (hx : x' < x)
    (htail : gaussianReal x (sqNN σ) (Set.Ioi ((x + x') / 2 + σ ^ 2 * eps / (x - x'))) ≤ dlt) (S : Set ℝ) :
    gaussianReal x (sqNN σ) S ≤ ENNReal.ofReal (Real.exp eps) * gaussianReal x' (sqNN σ) S + dlt := by
  set a := (x + x') / 2 + σ ^ 2 * eps / (x - x') with ha
  have hv := sqNN_ne_zero σ hσ
  have hgood : gaussianReal x (sqNN σ) (S ∩ Set.Iic a)
      ≤ ENNReal.ofReal (Real.exp eps) * gaussianReal x' (sqNN σ) S := by
    calc gaussianReal x (sqNN σ) (S ∩ Set.Iic a)
        = ∫⁻ y in S ∩ Set.Iic a, gaussianPDF x (sqNN σ) y := gaussianReal_apply x hv _
      _ ≤ ∫⁻ y in S ∩ Set.Iic a, ENNReal.ofReal (Real.exp eps) * gaussianPDF x' (sqNN σ) y := by
          apply setLIntegral_mono ((measurable_gaussianPDF x' (sqNN σ)).const_mul _)
          intro y hy
          unfold gaussianPDF
          rw [← ENNReal.ofReal_mul (Real.exp_pos _).le]
          exact ENNReal.ofReal_le_ofReal (gaussianPDFReal_ratio σ eps x x' y hσ hx hy.2)
      _ = ENNReal.ofReal (Real.exp eps) * ∫⁻ y in S ∩ Set.Iic a, gaussianPDF x' (sqNN σ) y :=
          lintegral_const_mul _ (measurable_gaussianPDF x' (sqNN σ))
      _ = ENNReal.ofReal (Real.exp eps) * gaussianReal x' (sqNN σ) (S ∩ Set.Iic a) := by
          rw [gaussianReal_apply x' hv]
      _ ≤ ENNReal.ofReal (Real.exp eps) * gaussianReal x' (sqNN σ) S := by
          gcongr
          exact Set.inter_subset_left
  have hbad : gaussianReal x (sqNN σ) (S \ Set.Iic a) ≤ dlt := by
    refine (measure_mono ?_).trans htail
    intro y hy
    exact (not_le (a := y) (b := a)).mp hy.2
  calc gaussianReal x (sqNN σ) S
      ≤ gaussianReal x (sqNN σ) (S ∩ Set.Iic a) + gaussianReal x (sqNN σ) (S \ Set.Iic a) :=
        measure_le_inter_add_sdiff _ S (Set.Iic a)
    _ ≤ ENNReal.ofReal (Real.exp eps) * gaussianReal x' (sqNN σ) S + dlt := add_le_add hgood hbad

/-! ### the upper tail of a Gaussian law is the normal cdf -/

/-- `N(μ, σ²)((a, ∞)) = Φ(-(a-μ)/σ)` with the true normal cdf -/
theorem gaussianReal_Ioi (μ σ a : ℝ) (hσ : 0 < σ) :
    gaussianReal μ (sqNN σ) (Set.Ioi a) = ENNReal.ofReal (phiTrue (-((a - μ) / σ))) := by
  have hv := sqNN_ne_zero σ hσ
  have h2 := sqrt_two_pos
  have hpi := sqrt_pi_pos
  rw [gaussianReal_apply_eq_integral μ hv]
  congr 1
  rw [gaussianPDFReal_def]
  simp only [coe_sqNN]
  rw [integral_const_mul]
  set k : ℝ := (σ * Real.sqrt 2)⁻¹ with hk
  have hkpos : 0 < k := by positivity
  -- substitute `s = k (y - μ)`
  have hint : ∫ y in Set.Ioi a, Real.exp (-(y - μ) ^ 2 / (2 * σ ^ 2))
      = k⁻¹ * ∫ s in Set.Ioi (k * (a - μ)), Real.exp (-s ^ 2) := by
    have e1 : ∀ y : ℝ, Real.exp (-(y - μ) ^ 2 / (2 * σ ^ 2)) = Real.exp (-(k * (y + -μ)) ^ 2) := by
      intro y
      congr 1
      rw [hk, mul_pow, inv_pow, mul_pow, Real.sq_sqrt (by norm_num)]
      field_simp
      ring
    simp_rw [e1]
    rw [integral_Ioi_comp_add (fun z => Real.exp (-(k * z) ^ 2)) a (-μ),
      integral_comp_mul_left_Ioi (fun s => Real.exp (-s ^ 2)) (a + -μ) hkpos, smul_eq_mul, sub_eq_add_neg]
  have hsq : Real.sqrt (2 * Real.pi * σ ^ 2) = Real.sqrt 2 * Real.sqrt Real.pi * σ := by
    rw [Real.sqrt_mul (by positivity), Real.sqrt_mul (by norm_num), Real.sqrt_sq hσ.le]
  have harg : (-(-((a - μ) / σ))) / Real.sqrt 2 = k * (a - μ) := by
    rw [hk, neg_neg]; field_simp
  rw [hint, hsq, phiTrue_eq, harg]
  unfold erfcR
  rw [hk]
  field_simp

/-! ### the calibrated threshold lies beyond the point where the tail is `δ` -/

/-- `(a - x)/σ = σε/d - d/(2σ) ≥ c - ε/(2c)` for `σ = cΔ/ε`, `0 < d ≤ Δ` -/
theorem classical_threshold_ge (eps sens c x x' : ℝ) (he : 0 < eps) (hc : 0 < c) (hx : x' < x)
    (hxs : x - x' ≤ sens) :
    c - eps / (2 * c) ≤
      ((x + x') / 2 + (c * sens / eps) ^ 2 * eps / (x - x') - x) / (c * sens / eps) := by
  have hd : 0 < x - x' := by linarith
  have hs : 0 < sens := by linarith
  have hval : ((x + x') / 2 + (c * sens / eps) ^ 2 * eps / (x - x') - x) / (c * sens / eps)
      = c * (sens / (x - x')) - eps / (2 * c) * ((x - x') / sens) := by
    field_simp
    ring
  rw [hval]
  have h1 : 1 ≤ sens / (x - x') := by rw [le_div_iff₀ hd]; linarith
  have h2 : (x - x') / sens ≤ 1 := by rw [div_le_iff₀ hs]; linarith
  have h3 : 0 ≤ eps / (2 * c) := by positivity
  nlinarith

theorem gaussSigma_pos (eps delta sens : ℝ) (he : 0 < eps) (he1 : eps ≤ 1) (hd : 0 < delta) (hd1 : delta < 1)
    (hs : 0 < sens) : 0 < gaussSigma eps delta sens := by
  obtain ⟨-, hc, -, -, -⟩ := gauss_c_facts eps delta he he1 hd hd1
  rw [gaussSigma_real]
  have : 0 < Real.sqrt (2 * Real.log (5 / 4 / delta)) := by linarith
  positivity

/-! ### the theorem -/

/-- one order of the two centres -/
theorem gaussianReal_classical_dp_pos (eps delta sens x x' : ℝ) (he : 0 < eps) (he1 : eps ≤ 1) (hd : 0 < delta)
    (hd1 : delta < 1) (hx : x' < x) (hxs : x - x' ≤ sens) (S : Set ℝ) :
    gaussianReal x (sqNN (gaussSigma eps delta sens)) S
      ≤ ENNReal.ofReal (Real.exp eps) * gaussianReal x' (sqNN (gaussSigma eps delta sens)) S
        + ENNReal.ofReal delta := by
  have hs : 0 < sens := by linarith
  have hσ := gaussSigma_pos eps delta sens he he1 hd hd1 hs
  apply gaussianReal_dp_of_tail _ eps x x' _ hσ hx _ S
  rw [gaussianReal_Ioi x _ _ hσ]
  apply ENNReal.ofReal_le_ofReal
  apply phiTrue_tail_le_delta eps delta he he1 hd hd1
  obtain ⟨-, hc, -, -, -⟩ := gauss_c_facts eps delta he he1 hd hd1
  rw [gaussSigma_real]
  exact classical_threshold_ge eps sens _ x x' he (by linarith) hx hxs

/-- **the classical Gaussian mechanism is `(ε, δ)`-differentially private** — for the Gaussian law itself, with the
coded `σ = √(2 log(1.25/δ)) Δ/ε`, for all `0 < ε ≤ 1`, `0 < δ < 1`, `Δ > 0`, centres at most `Δ` apart, every
measurable output set -/
theorem gaussianReal_classical_dp (eps delta sens x x' : ℝ) (he : 0 < eps) (he1 : eps ≤ 1) (hd : 0 < delta)
    (hd1 : delta < 1) (_hs : 0 < sens) (hx : |x - x'| ≤ sens) (S : Set ℝ) (hS : MeasurableSet S) :
    gaussianReal x (sqNN (gaussSigma eps delta sens)) S
      ≤ ENNReal.ofReal (Real.exp eps) * gaussianReal x' (sqNN (gaussSigma eps delta sens)) S
        + ENNReal.ofReal delta := by
  obtain ⟨h1, h2⟩ := abs_le.mp hx
  rcases lt_trichotomy x' x with h | h | h
  · exact gaussianReal_classical_dp_pos eps delta sens x x' he he1 hd hd1 h (by linarith) S
  · subst h
    have h1e : (1 : ENNReal) ≤ ENNReal.ofReal (Real.exp eps) := by
      rw [← ENNReal.ofReal_one]
      exact ENNReal.ofReal_le_ofReal (Real.one_le_exp he.le)
    calc gaussianReal x' (sqNN (gaussSigma eps delta sens)) S
        = 1 * gaussianReal x' (sqNN (gaussSigma eps delta sens)) S := (one_mul _).symm
      _ ≤ ENNReal.ofReal (Real.exp eps) * gaussianReal x' (sqNN (gaussSigma eps delta sens)) S := by gcongr
      _ ≤ _ := le_self_add
  · -- reflect: `N(x, v)(S) = N(-x, v)(-S)`
    have hrefl : ∀ m : ℝ, gaussianReal m (sqNN (gaussSigma eps delta sens)) S
        = gaussianReal (-m) (sqNN (gaussSigma eps delta sens)) ((fun y : ℝ => -y) ⁻¹' S) := by
      intro m
      have := gaussianReal_map_neg (μ := -m) (v := sqNN (gaussSigma eps delta sens))
      rw [neg_neg] at this
      rw [← this, Measure.map_apply measurable_neg hS]
    rw [hrefl x, hrefl x']
    exact gaussianReal_classical_dp_pos eps delta sens (-x) (-x') he he1 hd hd1 (by linarith) (by linarith) _

/-- the same with the variance written out as `NNReal.mk σ² _` (Mathlib's preferred constructor) -/
theorem gaussianReal_classical_dp' (eps delta sens x x' : ℝ) (he : 0 < eps) (he1 : eps ≤ 1) (hd : 0 < delta)
    (hd1 : delta < 1) (hs : 0 < sens) (hx : |x - x'| ≤ sens) (S : Set ℝ) (hS : MeasurableSet S) :
    gaussianReal x (NNReal.mk ((gaussSigma eps delta sens) ^ 2) (sq_nonneg _)) S
      ≤ ENNReal.ofReal (Real.exp eps)
          * gaussianReal x' (NNReal.mk ((gaussSigma eps delta sens) ^ 2) (sq_nonneg _)) S
        + ENNReal.ofReal delta :=
  gaussianReal_classical_dp eps delta sens x x' he he1 hd hd1 hs hx S hS

/-- the same with the anonymous constructor `⟨σ², _⟩` (definitionally the same number) -/
theorem gaussianReal_classical_dp'' (eps delta sens x x' : ℝ) (he : 0 < eps) (he1 : eps ≤ 1) (hd : 0 < delta)
    (hd1 : delta < 1) (hs : 0 < sens) (hx : |x - x'| ≤ sens) (S : Set ℝ) (hS : MeasurableSet S) :
    gaussianReal x ⟨(gaussSigma eps delta sens) ^ 2, sq_nonneg _⟩ S
      ≤ ENNReal.ofReal (Real.exp eps) * gaussianReal x' ⟨(gaussSigma eps delta sens) ^ 2, sq_nonneg _⟩ S
        + ENNReal.ofReal delta :=
  gaussianReal_classical_dp eps delta sens x x' he he1 hd hd1 hs hx S hS

end DPL.Cont
