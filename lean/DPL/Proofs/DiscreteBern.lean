/-
C01 helper lemmas: `bernoulli_neg_exp` returns 1 with probability exactly `exp(-gamma)`.
The inner loop stops with `counter = n+1` exactly on the uniform streams `u_1 ≤ γ/1, …, u_n ≤ γ/n, u_{n+1} > γ/(n+1)`
(`bernLoop_stop`); for `0 ≤ γ ≤ 1` these comparisons are independent Bernoulli(γ/j) branches, so that event has
probability `stopAt γ n = γ^n/n! − γ^{n+1}/(n+1)!`; the coin is 1 iff `n` is even, and the even terms sum to `exp(-γ)`.
-/
import DPL.Proofs.DiscreteBasic
import Mathlib.Analysis.SpecialFunctions.Exponential
import Mathlib.Tactic.FieldSimp
import Mathlib.Tactic.Positivity

namespace DPL.Discrete

/-- the branching of the inner loop: `n = pre.length` successes followed by one failure stop at `counter = c + n` and
return `counter % 2` -/
theorem bernLoop_stop (γ : ℝ) (pre : List ℝ) (u : ℝ) (rest : List ℝ) (c : ℕ)
    (hpre : ∀ j (h : j < pre.length), pre[j] ≤ γ / ((c + j : ℕ) : ℝ))
    (hu : ¬ u ≤ γ / ((c + pre.length : ℕ) : ℝ)) :
    bernLoop γ (pre ++ u :: rest) c = .ok ((c + pre.length) % 2 == 1, rest) := by
  induction pre generalizing c with
  | nil =>
    simp only [List.nil_append, bernLoop]
    simp only [List.length_nil, Nat.add_zero] at hu
    simp [hu]
  | cons p ps ih =>
    simp only [List.cons_append, bernLoop]
    have h0 := hpre 0 (by simp)
    simp only [List.getElem_cons_zero, Nat.add_zero] at h0
    simp only [h0, if_true]
    have := ih (c + 1) (fun j hj => by
      have := hpre (j + 1) (by simpa using hj)
      simpa [Nat.add_assoc, Nat.add_comm 1 j] using this) (by
      simpa [Nat.add_assoc, Nat.add_comm 1 ps.length] using hu)
    rw [this]
    simp [Nat.add_assoc, Nat.add_comm 1 ps.length]

/-- probability that the loop stops with `counter = n+1` (for `0 ≤ γ ≤ 1`) -/
noncomputable def stopAt (γ : ℝ) (n : ℕ) : ℝ :=
  γ ^ n / (Nat.factorial n : ℝ) - γ ^ (n + 1) / (Nat.factorial (n + 1) : ℝ)

theorem prod_eq (γ : ℝ) (n : ℕ) :
    ∏ j ∈ Finset.range n, γ / ((j : ℝ) + 1) = γ ^ n / (Nat.factorial n : ℝ) := by
  induction n with
  | zero => simp
  | succ k ih =>
    rw [Finset.prod_range_succ, ih, Nat.factorial_succ]
    have h1 : (Nat.factorial k : ℝ) ≠ 0 := by positivity
    have h2 : ((k : ℝ) + 1) ≠ 0 := by positivity
    push_cast; field_simp; ring

/-- `stopAt` is the product of the branch probabilities: `n` successes `γ/1 … γ/n`, then a failure `1 − γ/(n+1)` -/
theorem stopAt_eq_prod (γ : ℝ) (n : ℕ) :
    stopAt γ n = (∏ j ∈ Finset.range n, γ / ((j : ℝ) + 1)) * (1 - γ / ((n : ℝ) + 1)) := by
  rw [prod_eq]; unfold stopAt
  rw [Nat.factorial_succ]
  have h1 : (Nat.factorial n : ℝ) ≠ 0 := by positivity
  have h2 : ((n : ℝ) + 1) ≠ 0 := by positivity
  push_cast; field_simp; ring

/-- for `0 ≤ γ ≤ 1` every branch probability is a probability -/
theorem branch_prob_range (γ : ℝ) (h0 : 0 ≤ γ) (h1 : γ ≤ 1) (j : ℕ) :
    0 ≤ γ / ((j : ℝ) + 1) ∧ γ / ((j : ℝ) + 1) ≤ 1 := by
  have hj : (0:ℝ) < (j : ℝ) + 1 := by positivity
  refine ⟨div_nonneg h0 hj.le, ?_⟩
  rw [div_le_one hj]
  have : (0:ℝ) ≤ j := Nat.cast_nonneg j
  linarith

/-- the coin is 1 exactly when the loop stops after an even number of successes; those events have total
probability `exp(-γ)` -/
theorem bern_even_sum (γ : ℝ) : HasSum (fun m : ℕ => stopAt γ (2 * m)) (Real.exp (-γ)) := by
  obtain ⟨f, hf⟩ : ∃ f : ℕ → ℝ, f = fun n => (-γ) ^ n / (Nat.factorial n : ℝ) := ⟨_, rfl⟩
  have h : HasSum f (Real.exp (-γ)) := by
    rw [hf, Real.exp_eq_exp_ℝ]; exact NormedSpace.expSeries_div_hasSum_exp (-γ)
  have hs := h.summable
  have he : Summable (fun m : ℕ => f (2 * m)) :=
    hs.comp_injective (i := fun m : ℕ => 2 * m) (fun a b hab => by simpa using hab)
  have ho : Summable (fun m : ℕ => f (2 * m + 1)) :=
    hs.comp_injective (i := fun m : ℕ => 2 * m + 1) (fun a b hab => by simpa using hab)
  have key : ∑' m : ℕ, (f (2 * m) + f (2 * m + 1)) = Real.exp (-γ) := by
    rw [he.tsum_add ho, tsum_even_add_odd he ho, h.tsum_eq]
  have hfin : HasSum (fun m : ℕ => f (2 * m) + f (2 * m + 1)) (Real.exp (-γ)) := by
    rw [← key]; exact (he.add ho).hasSum
  have hterm : ∀ m : ℕ, stopAt γ (2 * m) = f (2 * m) + f (2 * m + 1) := by
    intro m
    have h1 : (-γ) ^ (2 * m) = γ ^ (2 * m) := by rw [pow_mul, neg_sq, ← pow_mul]
    have h2 : (-γ) ^ (2 * m + 1) = - γ ^ (2 * m + 1) := by rw [pow_succ, h1, pow_succ]; ring
    simp only [hf, stopAt, h1, h2]; ring
  simpa only [hterm] using hfin

/-- the law of the whole function written as the recursion that mirrors its outer loop: while `γ > 1` a unit coin
(probability `exp(-1)`) must come up 1 and `γ` drops by one; then the inner loop (probability `exp(-γ)`) -/
noncomputable def bernOuterLaw : ℕ → ℝ → ℝ
  | 0, _ => 0
  | fuel + 1, γ => if 1 < γ then Real.exp (-1) * bernOuterLaw fuel (γ - 1) else Real.exp (-γ)

theorem bernOuterLaw_eq (fuel : ℕ) (γ : ℝ) (h0 : 0 ≤ γ) (h : γ < fuel) : bernOuterLaw fuel γ = Real.exp (-γ) := by
  induction fuel generalizing γ with
  | zero => exfalso; simp only [Nat.cast_zero] at h; linarith
  | succ n ih =>
    simp only [bernOuterLaw]
    split
    · rename_i h1
      rw [ih (γ - 1) (by linarith) (by push_cast at h; linarith), ← Real.exp_add]
      congr 1; ring
    · rfl

end DPL.Discrete
