/-
The privacy-loss calculus on release plans over ℝ (C08): `Plan.lossLe D D' p B` says that along EVERY sequence of forced
outputs (the continuation is quantified over all outputs) every invocation's input moves by at most its configured
sensitivity and the displacement-weighted epsilons sum to at most `B`.  `lossLe_run` ties it to `Plan.run`,
`dispOk`, `privLoss` of `PrivLoss.lean`; `lossLe_bind`, `lossLe_forList` make it compositional.
-/
import DPL.Model.PlanModels
import DPL.Proofs.Plan
import DPL.Proofs.RealCarrier

namespace DPL
namespace PM
open DPL

variable {δ ρ σ ι : Type}

/-! ### relDisp over ℝ -/

theorem absDiff_real (a b : ℝ) : absDiff a b = |a - b| := by
  unfold absDiff
  split
  · rename_i h; rw [abs_of_neg (by linarith)]; ring
  · rename_i h; rw [abs_of_nonneg (by linarith)]

theorem relDisp_nonneg (c : MechCall ℝ) (a b : ℝ) (hs : 0 ≤ c.sens) : 0 ≤ relDisp c a b := by
  unfold relDisp
  simp only
  split
  · exact le_refl _
  · rw [absDiff_real]; exact div_nonneg (abs_nonneg _) hs

/-- the input moved by at most `r` sensitivities -/
theorem relDisp_le (c : MechCall ℝ) (a b r : ℝ) (hr : 0 ≤ r) (hs : 0 ≤ c.sens) (h : |a - b| ≤ r * c.sens) :
    relDisp c a b ≤ r := by
  unfold relDisp
  simp only
  rw [absDiff_real]
  split
  · exact hr
  · rename_i hd
    have hpos : 0 < |a - b| := lt_of_not_ge hd
    have hs' : 0 < c.sens := by
      rcases hs.lt_or_eq with h1 | h1
      · exact h1
      · rw [← h1] at h; linarith
    rw [div_le_iff₀ hs']; exact h

theorem relDisp_eq_zero (c : MechCall ℝ) (a b : ℝ) (h : a = b) : relDisp c a b = 0 := by
  unfold relDisp; simp [absDiff_real, h]

/-! ### the calculus -/

/-- along every output sequence: each input moves by ≤ its sensitivity and Σ εᵢ·dᵢ/sensᵢ ≤ B
(probes are assumed to agree — the occupancy pattern is part of the "shape", see C06) -/
def lossLe (D D' : δ) : Plan δ ℝ ρ → ℝ → Prop
  | .release _, B => 0 ≤ B
  | .call c inp k, B =>
      relDisp c (inp D) (inp D') ≤ 1 ∧ ∀ o, lossLe D D' (k o) (B - c.eps * relDisp c (inp D) (inp D'))
  | .probe occ k, B => occ D = occ D' → lossLe D D' (k (occ D)) B

theorem lossLe_mono (D D' : δ) (p : Plan δ ℝ ρ) {B B' : ℝ} (h : B ≤ B') (hp : lossLe D D' p B) : lossLe D D' p B' := by
  induction p generalizing B B' with
  | release r => exact le_trans hp h
  | call c inp k ih => exact ⟨hp.1, fun o => ih o (by linarith) (hp.2 o)⟩
  | probe occ k ih => exact fun ho => ih _ h (hp ho)

theorem lossLe_bind (D D' : δ) (p : Plan δ ℝ ρ) (q : ρ → Plan δ ℝ σ) {B₁ B₂ : ℝ}
    (hp : lossLe D D' p B₁) (hq : ∀ r, lossLe D D' (q r) B₂) : lossLe D D' (p.bind q) (B₁ + B₂) := by
  induction p generalizing B₁ with
  | release r => exact lossLe_mono D D' _ (by simpa [lossLe] using hp) (hq r)
  | call c inp k ih =>
    refine ⟨hp.1, fun o => ?_⟩
    have := ih o (hp.2 o)
    exact lossLe_mono D D' _ (by linarith) this
  | probe occ k ih => exact fun ho => ih _ (hp ho)

theorem lossLe_release (D D' : δ) (r : ρ) : lossLe D D' (Plan.release r : Plan δ ℝ ρ) 0 := le_refl _

theorem lossLe_map (D D' : δ) (p : Plan δ ℝ ρ) (f : ρ → σ) {B : ℝ} (hp : lossLe D D' p B) :
    lossLe D D' (p.bind fun r => .release (f r)) B := by
  have := lossLe_bind D D' p (fun r => (Plan.release (f r) : Plan δ ℝ σ)) hp (fun r => lossLe_release D D' _)
  simpa using this

/-- a single invocation costs `eps · r` when its input moves by at most `r ≤ 1` sensitivities -/
theorem lossLe_one (D D' : δ) (c : MechCall ℝ) (inp : δ → ℝ) (r : ℝ) (hr : 0 ≤ r) (hr1 : r ≤ 1) (hε : 0 ≤ c.eps)
    (hs : 0 ≤ c.sens) (h : |inp D - inp D'| ≤ r * c.sens) : lossLe D D' (one c inp) (c.eps * r) := by
  have h1 := relDisp_le c (inp D) (inp D') r hr hs h
  refine ⟨le_trans h1 hr1, fun o => ?_⟩
  show 0 ≤ _
  have := mul_le_mul_of_nonneg_left h1 hε
  linarith

/-- `forList`: the bounds add up -/
theorem lossLe_forList (D D' : δ) (l : List ι) (f : ι → Plan δ ℝ σ) (b : ι → ℝ)
    (h : ∀ i ∈ l, lossLe D D' (f i) (b i)) : lossLe D D' (forList l f) (l.map b).sum := by
  induction l with
  | nil => exact le_refl _
  | cons i is ih =>
    simp only [forList, List.map_cons, List.sum_cons]
    refine lossLe_bind D D' _ _ (h i (by simp)) (fun r => ?_)
    exact lossLe_map D D' _ _ (ih (fun j hj => h j (by simp [hj])))

/-- uniform per-item bound -/
theorem lossLe_forList_const (D D' : δ) (l : List ι) (f : ι → Plan δ ℝ σ) (b : ℝ)
    (h : ∀ i ∈ l, lossLe D D' (f i) b) : lossLe D D' (forList l f) (l.length * b) := by
  have := lossLe_forList D D' l f (fun _ => b) h
  simpa [List.map_const', List.sum_replicate, nsmul_eq_mul] using this

/-! ### the tie to `Plan.run`, `dispOk`, `privLoss` -/

theorem lossLe_run (D D' : δ) (p : Plan δ ℝ ρ) (B : ℝ) (hp : lossLe D D' p B) (outs : List ℝ)
    (hprobe : (p.run D outs).probes = (p.run D' outs).probes)
    (hfull : (p.run D outs).release ≠ none) :
    (p.run D outs).calls = (p.run D' outs).calls ∧
    dispOk (p.run D outs).calls (p.run D outs).inputs (p.run D' outs).inputs = true ∧
    privLoss (p.run D outs).calls (p.run D outs).inputs (p.run D' outs).inputs ≤ B := by
  induction p generalizing B outs with
  | release r => exact ⟨rfl, rfl, by simpa [Plan.run, privLoss, lossLe] using hp⟩
  | call c inp k ih =>
    cases outs with
    | nil => exact absurd rfl hfull
    | cons o os =>
      simp only [Plan.run] at hprobe hfull ⊢
      obtain ⟨h1, h2, h3⟩ := ih o _ (hp.2 o) os hprobe hfull
      refine ⟨by rw [h1], ?_, ?_⟩
      · simp only [dispOk, Bool.and_eq_true, decide_eq_true_eq]
        exact ⟨hp.1, h2⟩
      · simp only [privLoss]
        linarith
  | probe occ k ih =>
    simp only [Plan.run] at hprobe hfull ⊢
    have h1 : occ D = occ D' := (List.cons.inj hprobe).1
    have h2 := (List.cons.inj hprobe).2
    rw [← h1] at h2 ⊢
    exact ih (occ D) B (hp h1) outs h2 hfull

/-! ### list sums -/

theorem sumL_eq_sum (xs : List ℝ) : sumL xs = xs.sum := by
  unfold sumL
  have : ∀ (a : ℝ), xs.foldl (· + ·) a = a + xs.sum := by
    induction xs with
    | nil => intro a; simp
    | cons x xs ih => intro a; simp [List.foldl, ih, add_assoc]
  simpa using this 0

/-- group sums of two datasets that differ in one record differ by that record's two contributions -/
theorem grp_sum_diff (g : Rec ℝ → Nat) (c : Nat) (f : Rec ℝ → ℝ) (pre post : DS ℝ) (r r' : Rec ℝ) :
    sumL ((grp g c (pre ++ r :: post)).map f) - sumL ((grp g c (pre ++ r' :: post)).map f)
      = (if g r = c then f r else 0) - (if g r' = c then f r' else 0) := by
  simp only [sumL_eq_sum, grp, List.filter_append, List.filter_cons, List.map_append, List.sum_append, beq_iff_eq]
  by_cases h1 : g r = c <;> by_cases h2 : g r' = c <;> simp [h1, h2]

theorem grp_len_diff (g : Rec ℝ → Nat) (c : Nat) (pre post : DS ℝ) (r r' : Rec ℝ) :
    (((grp g c (pre ++ r :: post)).length : Nat) : ℝ) - (((grp g c (pre ++ r' :: post)).length : Nat) : ℝ)
      = (if g r = c then 1 else 0) - (if g r' = c then 1 else 0) := by
  simp only [grp, List.filter_append, List.filter_cons, List.length_append, beq_iff_eq]
  by_cases h1 : g r = c <;> by_cases h2 : g r' = c <;> simp [h1, h2] <;> push_cast <;> ring

theorem all_sum_diff (f : Rec ℝ → ℝ) (pre post : DS ℝ) (r r' : Rec ℝ) :
    sumL ((pre ++ r :: post).map f) - sumL ((pre ++ r' :: post).map f) = f r - f r' := by
  simp only [sumL_eq_sum, List.map_append, List.map_cons, List.sum_append, List.sum_cons]; ring

end PM
end DPL
