/-
C03: the law of the Canonne–Kamath–Steinke loop with unbounded loops, as a limit over the caps.

`x_y := P[some loopI τ σ² F n returns y]` (the union over the caps `F` on the geometric loop and `n` on the number of
passes is increasing).  Taking suprema in the renewal step `loopI_succ_law` gives the fixed-point equation
`x_y = A_y + R·x_y` with `A_y = e^{-τ|y|}(1-e^{-τ})·½·e^{-γ(|y|)}` the one-pass acceptance probability and `R` the
one-pass rejection probability; `R + Σ_z A_z = 1` because a pass returns almost surely (`Σ_k e^{-τk}(1-e^{-τ}) = 1`).
-/
import DPL.Proofs.SamplersStreamCKSRefine
import Mathlib.Analysis.SpecificLimits.Basic

namespace DPL.SmpS
open MeasureTheory Set DPL.Discrete
open scoped ENNReal

/-! ### more fuel never changes a result -/

theorem geomI_sub_succ (τ : ℝ) : ∀ F, Sub (geomI τ F) (geomI τ (F + 1))
  | 0 => Sub.error_left _ _
  | F + 1 => by
    show Sub (bindS (bernI τ) _) (bindS (bernI τ) _)
    refine Sub.bindS (Sub.refl _) (fun b => ?_)
    cases b
    · simp only [Bool.false_eq_true, if_false]; exact Sub.refl _
    · simp only [if_true]; exact Sub.bindS (geomI_sub_succ τ F) (fun _ => Sub.refl _)

theorem geomI_sub (τ : ℝ) {F F' : ℕ} (h : F ≤ F') : Sub (geomI τ F) (geomI τ F') :=
  Nat.le_induction (Sub.refl _) (fun n _ ih => ih.trans (geomI_sub_succ τ n)) F' h

theorem passI_sub (τ σ2 : ℝ) {F F' : ℕ} (h : F ≤ F') : Sub (passI τ σ2 F) (passI τ σ2 F') :=
  Sub.bindS (geomI_sub τ h) (fun _ => Sub.refl _)

theorem loopI_sub_succ (τ σ2 : ℝ) (F : ℕ) : ∀ n, Sub (loopI τ σ2 F n) (loopI τ σ2 F (n + 1))
  | 0 => Sub.error_left _ _
  | n + 1 => by
    show Sub (bindS (passI τ σ2 F) _) (bindS (passI τ σ2 F) _)
    refine Sub.bindS (Sub.refl _) (fun o => ?_)
    cases o with
    | none => exact loopI_sub_succ τ σ2 F n
    | some y => exact Sub.refl _

theorem loopI_sub_n (τ σ2 : ℝ) (F : ℕ) {n n' : ℕ} (h : n ≤ n') : Sub (loopI τ σ2 F n) (loopI τ σ2 F n') :=
  Nat.le_induction (Sub.refl _) (fun m _ ih => ih.trans (loopI_sub_succ τ σ2 F m)) n' h

theorem loopI_sub_F (τ σ2 : ℝ) {F F' : ℕ} (h : F ≤ F') : ∀ n, Sub (loopI τ σ2 F n) (loopI τ σ2 F' n)
  | 0 => Sub.refl _
  | n + 1 => by
    show Sub (bindS (passI τ σ2 F) _) (bindS (passI τ σ2 F') _)
    refine Sub.bindS (passI_sub τ σ2 h) (fun o => ?_)
    cases o with
    | none => exact loopI_sub_F τ σ2 h n
    | some y => exact Sub.refl _

theorem loopI_sub (τ σ2 : ℝ) {p p' : ℕ × ℕ} (h : p ≤ p') : Sub (loopI τ σ2 p.1 p.2) (loopI τ σ2 p'.1 p'.2) :=
  (loopI_sub_n τ σ2 p.1 (Prod.le_def.mp h).2).trans (loopI_sub_F τ σ2 (Prod.le_def.mp h).1 _)

/-! ### suprema in `ℝ≥0∞` -/

theorem iSup_mul_iSup_of_monotone {ι : Type*} [Preorder ι] [IsDirectedOrder ι] {f g : ι → ℝ≥0∞}
    (hf : Monotone f) (hg : Monotone g) : (⨆ i, f i) * (⨆ i, g i) = ⨆ i, f i * g i := by
  apply le_antisymm
  · rw [ENNReal.iSup_mul]
    refine iSup_le fun i => ?_
    rw [ENNReal.mul_iSup]
    refine iSup_le fun j => ?_
    obtain ⟨k, hik, hjk⟩ := exists_ge_ge i j
    exact le_iSup_of_le k (mul_le_mul' (hf hik) (hg hjk))
  · exact iSup_le fun i => mul_le_mul' (le_iSup f i) (le_iSup g i)

theorem iSup_fst (h : ℕ → ℝ≥0∞) : ⨆ p : ℕ × ℕ, h p.1 = ⨆ F, h F :=
  le_antisymm (iSup_le fun p => le_iSup h p.1) (iSup_le fun F => le_iSup_of_le (F, 0) le_rfl)

/-- monotone convergence for sums -/
theorem tsum_iSup_of_monotone {α : Type*} (a : ℕ → α → ℝ≥0∞) (ha : ∀ z, Monotone (fun F => a F z)) :
    ∑' z, ⨆ F, a F z = ⨆ F, ∑' z, a F z := by
  rw [ENNReal.tsum_eq_iSup_sum]
  have : ∀ F, ∑' z, a F z = ⨆ s : Finset α, ∑ z ∈ s, a F z := fun F => ENNReal.tsum_eq_iSup_sum
  simp_rw [this]
  rw [iSup_comm]
  congr 1; funext s
  exact ENNReal.finsetSum_iSup_of_monotone (f := fun z F => a F z) ha

/-! ### the geometric proposal in the limit -/

theorem gw_mono (τ : ℝ) (k : ℕ) : Monotone (fun F => gw τ F k) := by
  intro F F' h
  simp only [gw]
  by_cases h1 : k < F
  · rw [if_pos h1, if_pos (by omega)]
  · rw [if_neg h1]; exact zero_le

theorem gw_iSup (τ : ℝ) (k : ℕ) :
    ⨆ F, gw τ F k = ENNReal.ofReal (Real.exp (-τ)) ^ k * ENNReal.ofReal (1 - Real.exp (-τ)) := by
  apply le_antisymm
  · refine iSup_le fun F => ?_
    unfold gw; split_ifs
    · exact le_rfl
    · exact zero_le
  · refine le_iSup_of_le (k + 1) ?_
    unfold gw; rw [if_pos (Nat.lt_succ_self k)]

/-- the geometric loop returns almost surely: `Σ_k e^{-τk}(1-e^{-τ}) = 1` -/
theorem gw_total (τ : ℝ) (h0 : 0 < τ) : ⨆ F, ∑' k, gw τ F k = 1 := by
  rw [← tsum_iSup_of_monotone _ (gw_mono τ)]
  simp_rw [gw_iSup]
  rw [ENNReal.tsum_mul_right, ENNReal.tsum_geometric]
  have hq : Real.exp (-τ) < 1 := by rw [Real.exp_lt_one_iff]; linarith
  have : ENNReal.ofReal (1 - Real.exp (-τ)) = 1 - ENNReal.ofReal (Real.exp (-τ)) := by
    rw [ENNReal.ofReal_sub _ (Real.exp_pos _).le, ENNReal.ofReal_one]
  rw [this]
  apply ENNReal.inv_mul_cancel
  · rw [← this]; simp only [ne_eq, ENNReal.ofReal_eq_zero, not_le]; linarith
  · exact ENNReal.sub_ne_top ENNReal.one_ne_top

/-! ### the fixed-point equation -/

/-- one-pass probability of "accepted with output `y`" (no cap) -/
noncomputable def Aw (τ σ2 : ℝ) (y : ℤ) : ℝ≥0∞ :=
  ENNReal.ofReal (Real.exp (-τ)) ^ y.natAbs * ENNReal.ofReal (1 - Real.exp (-τ))
    * (ENNReal.ofReal (1 / 2) * ENNReal.ofReal (Real.exp (-Smp.cksGamma τ σ2 y.natAbs)))

/-- one-pass probability of "rejected" (limit over the cap) -/
noncomputable def Rw (τ σ2 : ℝ) : ℝ≥0∞ := ⨆ F, streamμ (Ret (passI τ σ2 F) none)

/-- "some run of the unbounded loop returns `y`" -/
def retI (τ σ2 : ℝ) (y : ℤ) : Set (ℕ → ℝ) := ⋃ p : ℕ × ℕ, Ret (loopI τ σ2 p.1 p.2) y

theorem passI_some_iSup (τ σ2 : ℝ) (h0 : 0 ≤ τ) (hσ : 0 < σ2) (y : ℤ) :
    ⨆ F, streamμ (Ret (passI τ σ2 F) (some y)) = Aw τ σ2 y := by
  simp_rw [passI_some τ σ2 h0 hσ]
  rw [← ENNReal.iSup_mul, gw_iSup]; rfl

theorem passI_ret_mono (τ σ2 : ℝ) (o : Option ℤ) : Monotone (fun F => streamμ (Ret (passI τ σ2 F) o)) :=
  fun _ _ h => measure_mono ((passI_sub τ σ2 h).ret_subset o)

theorem retI_measure (τ σ2 : ℝ) (y : ℤ) :
    streamμ (retI τ σ2 y) = ⨆ p : ℕ × ℕ, streamμ (Ret (loopI τ σ2 p.1 p.2) y) := by
  unfold retI
  apply Directed.measure_iUnion
  have : Monotone (fun p : ℕ × ℕ => Ret (loopI τ σ2 p.1 p.2) y) := fun p p' h => (loopI_sub τ σ2 h).ret_subset y
  exact this.directed_le

/-- **fixed-point equation** -/
theorem retI_fix (τ σ2 : ℝ) (h0 : 0 ≤ τ) (hσ : 0 < σ2) (y : ℤ) :
    streamμ (retI τ σ2 y) = Aw τ σ2 y + Rw τ σ2 * streamμ (retI τ σ2 y) := by
  rw [retI_measure]
  set u : ℕ × ℕ → ℝ≥0∞ := fun p => streamμ (Ret (loopI τ σ2 p.1 p.2) y) with hu
  have humono : Monotone u := fun p p' h => measure_mono ((loopI_sub τ σ2 h).ret_subset y)
  have hshift : ⨆ p, u p = ⨆ p : ℕ × ℕ, u (p.1, p.2 + 1) := by
    apply le_antisymm
    · exact iSup_mono fun p => humono (Prod.le_def.mpr ⟨le_rfl, Nat.le_succ _⟩)
    · exact iSup_le fun p => le_iSup u (p.1, p.2 + 1)
  have hstep : ∀ p : ℕ × ℕ, u (p.1, p.2 + 1)
      = streamμ (Ret (passI τ σ2 p.1) (some y)) + streamμ (Ret (passI τ σ2 p.1) none) * u p :=
    fun p => loopI_succ_law τ σ2 h0 hσ p.1 p.2 y
  have hA : Monotone (fun p : ℕ × ℕ => streamμ (Ret (passI τ σ2 p.1) (some y))) :=
    fun p p' h => passI_ret_mono τ σ2 (some y) (Prod.le_def.mp h).1
  have hR : Monotone (fun p : ℕ × ℕ => streamμ (Ret (passI τ σ2 p.1) none)) :=
    fun p p' h => passI_ret_mono τ σ2 none (Prod.le_def.mp h).1
  have hRu : Monotone (fun p : ℕ × ℕ => streamμ (Ret (passI τ σ2 p.1) none) * u p) :=
    fun p p' h => mul_le_mul' (hR h) (humono h)
  conv_lhs => rw [hshift]
  simp_rw [hstep]
  rw [← ENNReal.iSup_add_iSup_of_monotone hA hRu, ← iSup_mul_iSup_of_monotone hR humono,
    iSup_fst (fun F => streamμ (Ret (passI τ σ2 F) (some y))), iSup_fst (fun F => streamμ (Ret (passI τ σ2 F) none)),
    passI_some_iSup τ σ2 h0 hσ]
  rfl

/-- **a pass returns almost surely**: rejection probability + acceptance probabilities = 1 -/
theorem Rw_add_Aw (τ σ2 : ℝ) (h0 : 0 < τ) (hσ : 0 < σ2) : Rw τ σ2 + ∑' z : ℤ, Aw τ σ2 z = 1 := by
  have hS : ∑' z : ℤ, Aw τ σ2 z = ⨆ F, ∑' z : ℤ, streamμ (Ret (passI τ σ2 F) (some z)) := by
    rw [← tsum_iSup_of_monotone _ (fun z => passI_ret_mono τ σ2 (some z))]
    simp_rw [passI_some_iSup τ σ2 h0.le hσ]
  have hSm : Monotone (fun F => ∑' z : ℤ, streamμ (Ret (passI τ σ2 F) (some z))) :=
    fun F F' h => ENNReal.tsum_le_tsum fun z => passI_ret_mono τ σ2 (some z) h
  unfold Rw
  rw [hS, ENNReal.iSup_add_iSup_of_monotone (passI_ret_mono τ σ2 none) hSm]
  simp_rw [passI_mass_split τ σ2 h0.le hσ]
  exact gw_total τ h0

end DPL.SmpS
