/-
Soundness of the clip-skeleton checker (`DPL/Model/ClipIR.lean`): if `exec` accepts a skeleton then, for EVERY
interpretation of the operations in which the declared clip is idempotent, re-arrangements commute with it and the
invariant views / obligated callees do not see the difference between an array and its clipped image, running the
skeleton on D and on clip(D) produces the same observations (mechanism inputs, released attributes, return value) and
takes the same branches.
-/
import DPL.Model.ClipIR

namespace DPL.ClipIR
variable {V : Type}

structure Lawful (S : Sem V) : Prop where
  idem : ∀ v, S.clipB 0 (S.clipB 0 v) = S.clipB 0 v
  sh_clip : ∀ k xs v, S.sh k xs (S.clipB 0 v) = S.clipB 0 (S.sh k xs v)
  view_clip : ∀ m v, m ≠ Mode.val → S.view m (S.clipB 0 v) = S.view m v

/-- what the abstract state of a variable says about its values in the run on D (`a`) and in the run on clip(D) (`b`) -/
def rel (S : Sem V) : St → V → V → Prop
  | .clean, a, b => a = b
  | .raw, a, b => b = S.clipB 0 a
  | .tainted, _, _ => True

def R (S : Sem V) (σ : AS) (e1 e2 : Nat → V) : Prop := ∀ v, rel S (get σ v) (e1 v) (e2 v)

theorem rel_tainted (S : Sem V) (a b : V) : rel S .tainted a b := trivial

theorem R_put (S : Sem V) {σ : AS} {e1 e2 : Nat → V} (h : R S σ e1 e2) (d : Nat) (s : St) (x y : V)
    (hxy : rel S s x y) : R S (put σ d s) (upd e1 d x) (upd e2 d y) := by
  intro v
  by_cases hv : v = d
  · subst hv
    simp only [upd, if_true, get, put]
    by_cases hl : v < σ.length
    · simp [List.getElem?_set, hl, hxy]
    · simp [List.getElem?_set, hl]
      exact rel_tainted S _ _
  · have := h v
    simp only [upd, hv, if_false, get, put] at this ⊢
    rw [List.getElem?_set_ne (Ne.symm hv)]
    exact this

theorem get_join (a b : AS) (v : Nat) :
    get (join a b) v = get a v ∨ get (join a b) v = .tainted := by
  unfold get join
  rw [List.getElem?_zipWith]
  cases ha : a[v]? <;> cases hb : b[v]? <;> simp [joinSt]
  rename_i x y
  by_cases hxy : x = y <;> simp [hxy]

theorem get_join' (a b : AS) (v : Nat) :
    get (join a b) v = get b v ∨ get (join a b) v = .tainted := by
  unfold get join
  rw [List.getElem?_zipWith]
  cases ha : a[v]? <;> cases hb : b[v]? <;> simp [joinSt]
  rename_i x y
  by_cases hxy : x = y <;> simp [hxy]

theorem R_join_left (S : Sem V) {a : AS} (b : AS) {e1 e2 : Nat → V} (h : R S a e1 e2) : R S (join a b) e1 e2 := by
  intro v
  rcases get_join a b v with h1 | h1 <;> rw [h1]
  · exact h v
  · exact rel_tainted S _ _

theorem R_join_right (S : Sem V) (a : AS) {b : AS} {e1 e2 : Nat → V} (h : R S b e1 e2) : R S (join a b) e1 e2 := by
  intro v
  rcases get_join' a b v with h1 | h1 <;> rw [h1]
  · exact h v
  · exact rel_tainted S _ _

theorem argVal_eq (S : Sem V) (hS : Lawful S) {σ : AS} {e1 e2 : Nat → V} (h : R S σ e1 e2) (a : Arg)
    (hok : argOk σ a = true) : argVal S e1 a = argVal S e2 a := by
  obtain ⟨v, m⟩ := a
  have hv := h v
  cases m with
  | val =>
    simp only [argOk, beq_iff_eq] at hok
    rw [hok] at hv
    exact hv
  | inv k =>
    simp only [argOk, bne_iff_ne, ne_eq] at hok
    simp only [argVal]
    cases hg : get σ v with
    | clean => rw [hg] at hv; rw [show e1 v = e2 v from hv]
    | raw => rw [hg] at hv; rw [show e2 v = S.clipB 0 (e1 v) from hv, hS.view_clip _ _ (by simp)]
    | tainted => exact absurd hg hok
  | deleg c =>
    simp only [argOk, bne_iff_ne, ne_eq] at hok
    simp only [argVal]
    cases hg : get σ v with
    | clean => rw [hg] at hv; rw [show e1 v = e2 v from hv]
    | raw => rw [hg] at hv; rw [show e2 v = S.clipB 0 (e1 v) from hv, hS.view_clip _ _ (by simp)]
    | tainted => exact absurd hg hok

theorem args_eq (S : Sem V) (hS : Lawful S) {σ : AS} {e1 e2 : Nat → V} (h : R S σ e1 e2) :
    ∀ (args : List Arg), argsOk σ args = true → args.map (argVal S e1) = args.map (argVal S e2)
  | [], _ => rfl
  | a :: rest, hok => by
    simp only [argsOk, List.all_cons, Bool.and_eq_true] at hok
    rw [List.map_cons, List.map_cons, argVal_eq S hS h a hok.1, args_eq S hS h rest hok.2]

/-- the two runs are in step before a piece of the skeleton … -/
def Pre (S : Sem V) (σ : AS) (c1 c2 : Cfg V) : Prop :=
  c1.obs = c2.obs ∧ c1.done = false ∧ c2.done = false ∧ R S σ c1.env c2.env

/-- … and after it (`r` = the abstract result: `none` = the function has certainly been left) -/
def Post (S : Sem V) (r : Option AS) (c1 c2 : Cfg V) : Prop :=
  c1.obs = c2.obs ∧ c1.done = c2.done ∧ (c1.done = false → ∃ σ', r = some σ' ∧ R S σ' c1.env c2.env)

theorem Post_joinO_left (S : Sem V) {x : Option AS} (y : Option AS) {c1 c2 : Cfg V} (h : Post S x c1 c2) :
    Post S (joinO x y) c1 c2 := by
  refine ⟨h.1, h.2.1, fun hd => ?_⟩
  obtain ⟨σ', rfl, hR⟩ := h.2.2 hd
  cases y with
  | none => exact ⟨σ', rfl, hR⟩
  | some b => exact ⟨join σ' b, rfl, R_join_left S b hR⟩

theorem Post_joinO_right (S : Sem V) (x : Option AS) {y : Option AS} {c1 c2 : Cfg V} (h : Post S y c1 c2) :
    Post S (joinO x y) c1 c2 := by
  refine ⟨h.1, h.2.1, fun hd => ?_⟩
  obtain ⟨σ', rfl, hR⟩ := h.2.2 hd
  cases x with
  | none => exact ⟨σ', rfl, hR⟩
  | some a => exact ⟨join a σ', rfl, R_join_right S a hR⟩

theorem stepEv_sound (S : Sem V) (hS : Lawful S) (σ : AS) (e : Ev) (r : Option AS) (c1 c2 : Cfg V)
    (hx : stepEv σ e = some r) (hp : Pre S σ c1 c2) : Post S r (stepRun S c1 e) (stepRun S c2 e) := by
  obtain ⟨hobs, hd1, hd2, hR⟩ := hp
  cases e with
  | clip d s b =>
    simp only [stepEv, Option.some.injEq] at hx
    subst hx
    refine ⟨hobs, by simp [stepRun, hd1, hd2], fun _ => ⟨_, rfl, ?_⟩⟩
    apply R_put S hR
    have hs := hR s
    by_cases hb : b = 0 ∧ get σ s ≠ .tainted
    · rw [if_pos hb]
      obtain ⟨rfl, hne⟩ := hb
      cases hg : get σ s with
      | clean => rw [hg] at hs; show _ = _; rw [show c1.env s = c2.env s from hs]
      | raw => rw [hg] at hs; show _ = _; rw [show c2.env s = S.clipB 0 (c1.env s) from hs, hS.idem]
      | tainted => exact absurd hg hne
    · rw [if_neg hb]
      by_cases hc : get σ s = .clean
      · rw [if_pos hc]; rw [hc] at hs; show _ = _; rw [show c1.env s = c2.env s from hs]
      · rw [if_neg hc]; exact rel_tainted S _ _
  | reshape d s k args =>
    simp only [stepEv, Option.some.injEq] at hx
    subst hx
    refine ⟨hobs, by simp [stepRun, hd1, hd2], fun _ => ⟨_, rfl, ?_⟩⟩
    apply R_put S hR
    have hs := hR s
    by_cases hok : argsOk σ args = true
    · rw [if_pos hok, ← args_eq S hS hR args hok]
      cases hg : get σ s with
      | clean => rw [hg] at hs; show _ = _; rw [show c1.env s = c2.env s from hs]
      | raw => rw [hg] at hs; show _ = _; rw [show c2.env s = S.clipB 0 (c1.env s) from hs, hS.sh_clip]
      | tainted => exact rel_tainted S _ _
    · rw [if_neg hok]; exact rel_tainted S _ _
  | assign d o args =>
    simp only [stepEv, Option.some.injEq] at hx
    subst hx
    refine ⟨hobs, by simp [stepRun, hd1, hd2], fun _ => ⟨_, rfl, ?_⟩⟩
    apply R_put S hR
    by_cases hok : argsOk σ args = true
    · rw [if_pos hok]; show _ = _; rw [args_eq S hS hR args hok]
    · rw [if_neg hok]; exact rel_tainted S _ _
  | use k i args =>
    simp only [stepEv] at hx
    split at hx
    · rename_i hok
      simp only [Option.some.injEq] at hx
      subst hx
      refine ⟨by simp [stepRun, hobs, args_eq S hS hR args hok], by simp [stepRun, hd1, hd2],
        fun _ => ⟨_, rfl, hR⟩⟩
    · cases hx
  | ret args =>
    simp only [stepEv] at hx
    split at hx
    · rename_i hok
      refine ⟨by simp [stepRun, hobs, args_eq S hS hR args hok], by simp [stepRun], fun h => ?_⟩
      simp [stepRun] at h
    · cases hx
  | raise =>
    refine ⟨by simp [stepRun, hobs], by simp [stepRun], fun h => ?_⟩
    simp [stepRun] at h

theorem runLoop_done (body : Cfg V → Cfg V) (test : Cfg V → Bool) (k : Nat) (c : Cfg V) (h : c.done = true) :
    runLoop body test k c = c := by
  cases k <;> simp [runLoop, h]

theorem run_done (S : Sem V) (fuel : Nat) : ∀ (sk : Sk) (c : Cfg V), c.done = true → run S fuel sk c = c
  | .skip, _, _ => rfl
  | .atom _, c, h => by simp [run, h]
  | .seq a b, c, h => by rw [run, run_done S fuel a c h, run_done S fuel b c h]
  | .branch _ _ _ _, c, h => by simp [run, h]
  | .loop _ _ _, c, h => by rw [run, runLoop_done _ _ _ _ h]

theorem iterInv_R (S : Sem V) (f : AS → Option (Option AS)) {e1 e2 : Nat → V} :
    ∀ (k : Nat) (σ I : AS), iterInv f k σ = some I → R S σ e1 e2 → R S I e1 e2
  | 0, σ, I, h, hR => by simp only [iterInv, Option.some.injEq] at h; subst h; exact hR
  | k + 1, σ, I, h, hR => by
    simp only [iterInv] at h
    split at h
    · cases h
    · simp only [Option.some.injEq] at h; subst h; exact hR
    · rename_i r _
      exact iterInv_R S f k _ I h (R_join_left S r hR)

/-- a state that is reached by both runs in step, possibly after the function has been left -/
theorem Post_of_Pre (S : Sem V) {σ : AS} {c1 c2 : Cfg V} (h : Pre S σ c1 c2) : Post S (some σ) c1 c2 :=
  ⟨h.1, by rw [h.2.1, h.2.2.1], fun _ => ⟨σ, rfl, h.2.2.2⟩⟩

theorem exec_sound (S : Sem V) (hS : Lawful S) (fuel : Nat) :
    ∀ (sk : Sk) (σ : AS) (r : Option AS) (c1 c2 : Cfg V), exec sk σ = some r → Pre S σ c1 c2 →
      Post S r (run S fuel sk c1) (run S fuel sk c2)
  | .skip, σ, r, c1, c2, hx, hp => by
    simp only [exec, Option.some.injEq] at hx
    subst hx
    exact Post_of_Pre S hp
  | .atom e, σ, r, c1, c2, hx, hp => by
    simp only [run, hp.2.1, hp.2.2.1]
    exact stepEv_sound S hS σ e r c1 c2 hx hp
  | .seq a b, σ, r, c1, c2, hx, hp => by
    simp only [exec] at hx
    simp only [run]
    split at hx
    · cases hx
    · rename_i ha
      simp only [Option.some.injEq] at hx
      subst hx
      have h1 := exec_sound S hS fuel a σ none c1 c2 ha hp
      have hd : (run S fuel a c1).done = true := by
        cases hdd : (run S fuel a c1).done with
        | true => rfl
        | false => obtain ⟨_, h, _⟩ := h1.2.2 hdd; cases h
      have hd2 : (run S fuel a c2).done = true := h1.2.1 ▸ hd
      rw [run_done S fuel b _ hd, run_done S fuel b _ hd2]
      exact h1
    · rename_i τ ha
      have h1 := exec_sound S hS fuel a σ (some τ) c1 c2 ha hp
      cases hdd : (run S fuel a c1).done with
      | true =>
        have hd2 : (run S fuel a c2).done = true := h1.2.1 ▸ hdd
        rw [run_done S fuel b _ hdd, run_done S fuel b _ hd2]
        exact ⟨h1.1, h1.2.1, fun h => by rw [hdd] at h; cases h⟩
      | false =>
        obtain ⟨σ', hσ, hR⟩ := h1.2.2 hdd
        cases hσ
        exact exec_sound S hS fuel b τ r _ _ hx ⟨h1.1, hdd, h1.2.1 ▸ hdd, hR⟩
  | .branch k args a b, σ, r, c1, c2, hx, hp => by
    simp only [exec] at hx
    split at hx
    · rename_i hok
      split at hx
      · rename_i x y ha hb
        simp only [Option.some.injEq] at hx
        subst hx
        simp only [run, hp.2.1, hp.2.2.1, args_eq S hS hp.2.2.2 args hok]
        cases hc : S.cond k (List.map (argVal S c2.env) args) with
        | true => simpa using Post_joinO_left S y (exec_sound S hS fuel a σ x c1 c2 ha hp)
        | false => simpa using Post_joinO_right S x (exec_sound S hS fuel b σ y c1 c2 hb hp)
      · cases hx
    · cases hx
  | .loop k args body, σ, r, c1, c2, hx, hp => by
    simp only [exec] at hx
    split at hx
    · cases hx
    · rename_i I hI
      split at hx
      · rename_i hok
        have hRI : R S I c1.env c2.env := iterInv_R S (exec body) 4 σ I hI hp.2.2.2
        -- the loop invariant
        have key : ∀ (rb : Option AS), exec body I = some rb → (∀ r', rb = some r' → join I r' = I) →
            ∀ (n : Nat) (d1 d2 : Cfg V), Post S (some I) d1 d2 →
              Post S (some I)
                (runLoop (run S fuel body) (fun c => S.cond k (args.map (argVal S c.env))) n d1)
                (runLoop (run S fuel body) (fun c => S.cond k (args.map (argVal S c.env))) n d2) := by
          intro rb hb hfix n
          induction n with
          | zero => intro d1 d2 h; exact h
          | succ n ih =>
            intro d1 d2 h
            cases hdd : d1.done with
            | true =>
              have hd2 : d2.done = true := h.2.1 ▸ hdd
              simp only [runLoop, hdd, hd2, if_true]
              exact h
            | false =>
              have hd2 : d2.done = false := h.2.1 ▸ hdd
              obtain ⟨σ', hσ, hR⟩ := h.2.2 hdd
              cases hσ
              simp only [runLoop, hdd, hd2, args_eq S hS hR args hok]
              by_cases hc : S.cond k (List.map (argVal S d2.env) args) = true
              case neg => simpa [hc] using h
              case pos =>
                simp only [hc, if_true, Bool.false_eq_true, if_false]
                apply ih
                have hb' := exec_sound S hS fuel body I rb d1 d2 hb ⟨h.1, hdd, hd2, hR⟩
                refine ⟨hb'.1, hb'.2.1, fun hd => ?_⟩
                obtain ⟨r', hr', hR'⟩ := hb'.2.2 hd
                refine ⟨I, rfl, ?_⟩
                rw [← hfix r' hr']
                exact R_join_right S I hR'
        have start : Post S (some I) c1 c2 := Post_of_Pre S ⟨hp.1, hp.2.1, hp.2.2.1, hRI⟩
        simp only [run]
        split at hx
        · cases hx
        · rename_i hb
          simp only [Option.some.injEq] at hx
          subst hx
          exact key none hb (fun _ h => by cases h) fuel c1 c2 start
        · rename_i r' hb
          split at hx
          · rename_i hfix
            simp only [Option.some.injEq] at hx
            subst hx
            exact key (some r') hb (fun _ h => by cases h; exact hfix) fuel c1 c2 start
          · cases hx
      · cases hx

/-- the environment in which the data variables hold clip(D) instead of D -/
def clipData (S : Sem V) (data : List Nat) (env : Nat → V) : Nat → V :=
  fun v => if data.contains v then S.clipB 0 (env v) else env v

theorem R_init (S : Sem V) (n : Nat) (data : List Nat) (env : Nat → V) :
    R S (initAS n data) env (clipData S data env) := by
  intro v
  unfold get initAS clipData
  by_cases hv : v < n
  · simp only [List.getElem?_map, List.getElem?_range hv, Option.map_some, Option.getD_some]
    by_cases hd : data.contains v = true
    · simp only [hd, if_true]; rfl
    · simp only [hd]; rfl
  · have : (List.map (fun v => if data.contains v = true then St.raw else St.clean) (List.range n))[v]? = none := by
      simp [hv]
    rw [this]
    exact rel_tainted S _ _

end DPL.ClipIR
