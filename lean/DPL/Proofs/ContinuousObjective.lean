/-
The objectives of the two Gaussian root finders (C02):
  * analytic Gaussian: the coded `b_plus` / `b_minus`, evaluated at `v = (left + right)/2`, ARE the Balle–Wang
    expression `Φ(Δ/2σ - εσ/Δ) - e^ε Φ(-Δ/2σ - εσ/Δ) - δ` at the sigma the code returns for that bracket
    (for an arbitrary `erf`);
  * discrete Gaussian: the three accumulators of the summation loop are the partial sums of the discrete
    hockey-stick expression.
-/
import DPL.Proofs.ContinuousCalib
import Mathlib.Algebra.BigOperators.Group.Finset.Basic
import Mathlib.Algebra.BigOperators.Ring.Finset
import Mathlib.Tactic.Linarith
import Mathlib.Tactic.Ring

namespace DPL.Cont
open DPL Real

section analytic
variable [HasErf ℝ]

theorem agAlpha_true (l r : ℝ) :
    agAlpha true l r = Real.sqrt (1 + (l + r) / 4) - Real.sqrt ((l + r) / 4) := by
  unfold agAlpha; simp only [transc_sqrt, if_true]; norm_num; ring

theorem agAlpha_false (l r : ℝ) :
    agAlpha false l r = Real.sqrt (1 + (l + r) / 4) + Real.sqrt ((l + r) / 4) := by
  unfold agAlpha; simp only [transc_sqrt]; norm_num

/-- the scale returned for the bracket `[l, r]` -/
noncomputable def agSigma (neg : Bool) (eps sens l r : ℝ) : ℝ := agAlpha neg l r * sens / Real.sqrt (2 * eps)

/-- Balle–Wang's expression (with the model's `phi`, i.e. for whatever `erf` the carrier supplies) -/
noncomputable def balleWang (eps delta sens sigma : ℝ) : ℝ :=
  phi (sens / (2 * sigma) - eps * sigma / sens) - Real.exp eps * phi (-sens / (2 * sigma) - eps * sigma / sens) - delta

theorem sqrt_lt_sqrt_one_add (s : ℝ) (hs : 0 ≤ s) : Real.sqrt s < Real.sqrt (1 + s) :=
  Real.sqrt_lt_sqrt hs (by linarith)

/-- `delta_0 < 0` branch: `b_plus((l+r)/2)` is the Balle–Wang expression at the returned sigma -/
theorem bPlus_eq_balleWang (eps delta sens l r : ℝ) (he : 0 < eps) (hs : 0 < sens) (hv : 0 ≤ l + r) :
    bPlus eps delta ((l + r) / 2) = balleWang eps delta sens (agSigma true eps sens l r) := by
  set s := (l + r) / 4 with hsdef
  have hs0 : 0 ≤ s := by positivity
  have ha : agAlpha true l r = Real.sqrt (1 + s) - Real.sqrt s := agAlpha_true l r
  have hapos : 0 < agAlpha true l r := by rw [ha]; linarith [sqrt_lt_sqrt_one_add s hs0]
  have hinv : 1 / agAlpha true l r = Real.sqrt (1 + s) + Real.sqrt s := by
    rw [one_div, ha]; exact inv_eq_of_mul_eq_one_right (alpha_mul s hs0)
  obtain ⟨h1, h2⟩ := bw_args eps sens (agAlpha true l r) he hs hapos
  obtain ⟨q1, q2⟩ := sqrt_half_mul eps ((l + r) / 2) he.le (by positivity)
  have hv2 : (l + r) / 2 / 2 = s := by rw [hsdef]; ring
  rw [hv2] at q1 q2
  unfold balleWang agSigma bPlus
  simp only [transc_sqrt, transc_exp]
  rw [h1, h2, hinv, ha]
  have e1 : Real.sqrt (eps / 2) * (Real.sqrt (1 + s) + Real.sqrt s - (Real.sqrt (1 + s) - Real.sqrt s))
      = Real.sqrt (eps * ((l + r) / 2)) := by rw [← q1]; ring
  have e2 : Real.sqrt (eps / 2) * (Real.sqrt (1 + s) + Real.sqrt s + (Real.sqrt (1 + s) - Real.sqrt s))
      = Real.sqrt (eps * ((l + r) / 2 + 2)) := by rw [← q2]; ring
  rw [e1, e2]

/-- `delta_0 ≥ 0` branch: `b_minus((l+r)/2)` is the Balle–Wang expression at the returned sigma -/
theorem bMinus_eq_balleWang (eps delta sens l r : ℝ) (he : 0 < eps) (hs : 0 < sens) (hv : 0 ≤ l + r) :
    bMinus eps delta ((l + r) / 2) = balleWang eps delta sens (agSigma false eps sens l r) := by
  set s := (l + r) / 4 with hsdef
  have hs0 : 0 ≤ s := by positivity
  have ha : agAlpha false l r = Real.sqrt (1 + s) + Real.sqrt s := agAlpha_false l r
  have hapos : 0 < agAlpha false l r := by
    rw [ha]; have := Real.sqrt_nonneg s; have := Real.sqrt_pos.mpr (show 0 < 1 + s by linarith); linarith
  have hinv : 1 / agAlpha false l r = Real.sqrt (1 + s) - Real.sqrt s := by
    rw [one_div, ha]; exact inv_eq_of_mul_eq_one_left (alpha_mul s hs0)
  obtain ⟨h1, h2⟩ := bw_args eps sens (agAlpha false l r) he hs hapos
  obtain ⟨q1, q2⟩ := sqrt_half_mul eps ((l + r) / 2) he.le (by positivity)
  have hv2 : (l + r) / 2 / 2 = s := by rw [hsdef]; ring
  rw [hv2] at q1 q2
  unfold balleWang agSigma bMinus
  simp only [transc_sqrt, transc_exp]
  rw [h1, h2, hinv, ha]
  have e1 : Real.sqrt (eps / 2) * (Real.sqrt (1 + s) - Real.sqrt s - (Real.sqrt (1 + s) + Real.sqrt s))
      = -Real.sqrt (eps * ((l + r) / 2)) := by rw [← q1]; ring
  have e2 : Real.sqrt (eps / 2) * (Real.sqrt (1 + s) - Real.sqrt s + (Real.sqrt (1 + s) + Real.sqrt s))
      = Real.sqrt (eps * ((l + r) / 2 + 2)) := by rw [← q2]; ring
  rw [e1, e2]

end analytic

/-! ### discrete Gaussian: the accumulators are partial sums -/

/-- the state after `n` passes through the loop body -/
noncomputable def dgIter (sigma : ℝ) (idx0 idx1 : ℤ) : ℕ → DgState ℝ
  | 0 => ⟨1, if idx0 < 0 then 1 else 0, 0, 1, 1, 1⟩
  | n + 1 => dgStep sigma idx0 idx1 (dgIter sigma idx0 idx1 n)

theorem dgIter_idx (sigma : ℝ) (idx0 idx1 : ℤ) (n : ℕ) : (dgIter sigma idx0 idx1 n).idx = n + 1 := by
  induction n with
  | zero => rfl
  | succ k ih => simp [dgIter, dgStep, ih]

open Finset in
/-- after `n` passes: `lhs`, `rhs`, `denom` are the sums over `k = 1..n` (and `-1..-n`, and `k = 0`) of the weights
`w k = e^{-k²/2σ²}` restricted to `k > idx_0`, to `k > idx_1`, and unrestricted:
`lhs/denom → P[X > idx_0]`, `rhs/denom → P[X > idx_1]` for the discrete Gaussian `X` -/
theorem dgIter_sums (sigma : ℝ) (idx0 idx1 : ℤ) (n : ℕ) :
    (dgIter sigma idx0 idx1 n).lhs =
      (if idx0 < 0 then 1 else 0) +
        ∑ i ∈ range n, ((if idx0 < ((i + 1 : ℕ) : ℤ) then dgTerm sigma (i + 1) else 0) +
          (if idx0 < ((i + 1 : ℕ) : ℤ) ∧ idx0 < -((i + 1 : ℕ) : ℤ) then dgTerm sigma (i + 1) else 0)) ∧
    (dgIter sigma idx0 idx1 n).rhs =
      ∑ i ∈ range n, (if idx0 < ((i + 1 : ℕ) : ℤ) ∧ idx1 < ((i + 1 : ℕ) : ℤ) then dgTerm sigma (i + 1) else 0) ∧
    (dgIter sigma idx0 idx1 n).denom = 1 + 2 * ∑ i ∈ range n, dgTerm sigma (i + 1) := by
  induction n with
  | zero => simp [dgIter]
  | succ k ih =>
    obtain ⟨h1, h2, h3⟩ := ih
    have hidx := dgIter_idx sigma idx0 idx1 k
    refine ⟨?_, ?_, ?_⟩
    · rw [sum_range_succ, ← add_assoc, ← h1]
      simp only [dgIter, dgStep, hidx]
      split_ifs <;> ring
    · rw [sum_range_succ, ← h2]
      simp only [dgIter, dgStep, hidx, decide_eq_true_eq]
      split_ifs <;> ring
    · rw [sum_range_succ, mul_add, ← add_assoc, ← h3]
      simp only [dgIter, dgStep, hidx]

/-- whatever the loop returns is one of these iterates -/
theorem dgLoop_iter (sigma : ℝ) (idx0 idx1 : ℤ) (cap fuel k : ℕ) (s : DgState ℝ)
    (h : dgLoop sigma idx0 idx1 cap fuel (dgIter sigma idx0 idx1 k) = some s) :
    ∃ n, s = dgIter sigma idx0 idx1 n := by
  induction fuel generalizing k with
  | zero => simp [dgLoop] at h
  | succ f ih =>
    unfold dgLoop at h
    split at h
    · dsimp only at h
      split at h
      · cases h
      · exact ih (k + 1) h
    · cases h; exact ⟨k, rfl⟩

end DPL.Cont
