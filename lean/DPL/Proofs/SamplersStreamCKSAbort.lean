/-
C03: an EXPLICIT bound on the probability that the executable model of the Canonne–Kamath–Steinke loop (`Smp.cksLoop`,
inner fuels 64 / 4096 / 4096; here with the three fuels `fb fg fa` as parameters, `cksLoopG`) never returns.

* `passM`, `loopM`      — one pass / `n` passes of the model as stream samplers with laws (`loopM_succ`: the model's loop IS the
                          sequential composition of passes);
* `passM_deficit`       — a pass fails to return (an inner loop ran out of fuel) with probability at most
                          `a = geomDef δ τ fg + coinDef fa` (`δ` = deficit of the coin of the geometric loop);
* `loopM_mass_succ`     — renewal: `M_{n+1} = A + R·M_n` (`A` accepted, `R` rejected, `A + R + a ≥ 1`);
* `abortM_le`           — `P[abort] ≤ a / c` with `c = (1 − e^{-τ})·½·e^{-τ²σ²/2} ≤ 1 − R` (the probability that a pass of the
                          UNBOUNDED loop accepts 0), from the fixed point `M = A + R·M` of `M = sup_n M_n`;
* `cks_abort_le`        — the closed form for the model: `a ≤ fg·τ^fb/fb! + e^{-τ·fg} + e^{e − fa}`.
-/
import DPL.Proofs.SamplersStreamCKSAbortPass

namespace DPL.SmpS
open MeasureTheory Set DPL.Discrete
open scoped ENNReal

/-! ### one pass and the loop of the model as stream samplers -/

noncomputable def passK2M (fa : ℕ) (τ σ2 : ℝ) (gx : ℕ) (b : Bool) : Sampler (Option ℤ) :=
  if (b && gx == 0) = true then retS none
  else bindS (bernM fa (Smp.cksGamma τ σ2 gx)) (fun a => retS (if a then some (sgn b gx) else none))

noncomputable def passK1M (fa : ℕ) (τ σ2 : ℝ) (gx : ℕ) : Sampler (Option ℤ) := bindS readBit (passK2M fa τ σ2 gx)

/-- one pass of the model's outer loop -/
noncomputable def passM (fb fg fa : ℕ) (τ σ2 : ℝ) : Sampler (Option ℤ) := bindS (geomM fb τ fg 0) (passK1M fa τ σ2)

/-- the model's outer loop (at most `n` passes) as a stream sampler -/
noncomputable def loopM (fb fg fa : ℕ) (τ σ2 : ℝ) (n : ℕ) : Sampler ℤ := fun l => ofOpt (cksLoopG fb fg fa τ σ2 n l)

theorem loopM_zero (fb fg fa : ℕ) (τ σ2 : ℝ) : loopM fb fg fa τ σ2 0 = fun _ => .error .exhausted := by
  funext l; simp [loopM, cksLoopG, ofOpt]

/-- **the model's loop is the sequential composition of its passes** -/
theorem loopM_succ (fb fg fa : ℕ) (τ σ2 : ℝ) (n : ℕ) :
    loopM fb fg fa τ σ2 (n + 1)
      = bindS (passM fb fg fa τ σ2) (fun o => match o with | some y => retS y | none => loopM fb fg fa τ σ2 n) := by
  funext l
  simp only [loopM, cksLoopG, passM, passK1M, bindS, geomM]
  cases hg : geomCountG fb τ fg 0 l with
  | none => simp [ofOpt]
  | some p =>
    obtain ⟨gx, l1⟩ := p
    cases l1 with
    | nil => simp [ofOpt, readBit]
    | cons u us2 =>
      simp only [ofOpt, readBit, passK2M]
      by_cases hb : (decide (u < 1 / 2) && gx == 0) = true
      · simp only [hb, if_true, retS]
        rfl
      · simp only [hb, Bool.false_eq_true, if_false, bindS, bernM]
        cases ha : Smp.bernNegExp fa (Smp.cksGamma τ σ2 gx) us2 with
        | none => simp [ofOpt]
        | some q =>
          obtain ⟨a, us3⟩ := q
          cases a
          · simp [ofOpt, retS]; rfl
          · simp [ofOpt, retS, sgn]

theorem passK2M_isLaw (fa : ℕ) (τ σ2 : ℝ) (hσ : 0 < σ2) (gx : ℕ) (b : Bool) : IsLaw (passK2M fa τ σ2 gx b) := by
  unfold passK2M
  split_ifs
  · exact IsLaw.retS _
  · exact (bernM_isLaw _ _ (cksGamma_nonneg τ σ2 hσ gx)).bind (fun a => IsLaw.retS _)

theorem passK1M_isLaw (fa : ℕ) (τ σ2 : ℝ) (hσ : 0 < σ2) (gx : ℕ) : IsLaw (passK1M fa τ σ2 gx) :=
  readBit_isLaw.bind (passK2M_isLaw fa τ σ2 hσ gx)

theorem passM_isLaw (fb fg fa : ℕ) (τ σ2 : ℝ) (h0 : 0 ≤ τ) (hσ : 0 < σ2) : IsLaw (passM fb fg fa τ σ2) :=
  (geomM_isLaw fb τ h0 fg 0).bind (passK1M_isLaw fa τ σ2 hσ)

theorem loopM_isLaw (fb fg fa : ℕ) (τ σ2 : ℝ) (h0 : 0 ≤ τ) (hσ : 0 < σ2) : ∀ n, IsLaw (loopM fb fg fa τ σ2 n) := by
  intro n
  induction n with
  | zero => rw [loopM_zero]; exact IsLaw.error _
  | succ n ih =>
    rw [loopM_succ]
    refine (passM_isLaw fb fg fa τ σ2 h0 hσ).bind (fun o => ?_)
    cases o with
    | none => exact ih
    | some y => exact IsLaw.retS y

/-- a pass of the model is a restriction of a pass of the unbounded loop -/
theorem passM_sub (fb fg fa : ℕ) (τ σ2 : ℝ) (h0 : 0 ≤ τ) (hσ : 0 < σ2) :
    Sub (passM fb fg fa τ σ2) (passI τ σ2 fg) := by
  refine Sub.bindS (geomM_sub fb τ h0 fg) (fun gx => Sub.bindS (Sub.refl _) (fun b => ?_))
  unfold passK2M passK2
  split_ifs
  · exact Sub.refl _
  · exact Sub.bindS (bernM_sub fa _ (cksGamma_nonneg τ σ2 hσ gx)) (fun a => Sub.refl _)

/-! ### the deficit of a pass -/

theorem readBit_mass : massOf readBit = 1 := by
  rw [massOf_bool readBit_isLaw, (readBit_hasLaw.ret _).2, (readBit_hasLaw.ret _).2]
  exact half_add_half

theorem passK2M_deficit (fa : ℕ) (τ σ2 : ℝ) (hσ : 0 < σ2) (gx : ℕ) (b : Bool) :
    1 ≤ massOf (passK2M fa τ σ2 gx b) + ENNReal.ofReal (coinDef fa) := by
  unfold passK2M
  split_ifs
  · rw [massOf_retS]; exact le_self_add
  · have hγ := cksGamma_nonneg τ σ2 hσ gx
    have := deficit_bind (bernM_isLaw fa _ hγ) (fun a => retS (if a then some (sgn b gx) else none))
      (fun _ => IsLaw.retS _) _ 0 (bernM_deficit fa _ hγ) (fun a => by rw [massOf_retS, add_zero])
    rwa [add_zero] at this

theorem passK1M_deficit (fa : ℕ) (τ σ2 : ℝ) (hσ : 0 < σ2) (gx : ℕ) :
    1 ≤ massOf (passK1M fa τ σ2 gx) + ENNReal.ofReal (coinDef fa) := by
  have := deficit_bind readBit_isLaw (passK2M fa τ σ2 gx) (passK2M_isLaw fa τ σ2 hσ gx) 0 _
    (by rw [readBit_mass, add_zero]) (passK2M_deficit fa τ σ2 hσ gx)
  rwa [zero_add] at this

/-- **a pass of the model fails to return with probability at most `geomDef δ τ fg + coinDef fa`** -/
theorem passM_deficit (fb fg fa : ℕ) (τ σ2 δ : ℝ) (h0 : 0 ≤ τ) (hσ : 0 < σ2) (hδ : 0 ≤ δ)
    (hcoin : 1 ≤ massOf (bernM fb τ) + ENNReal.ofReal δ) :
    1 ≤ massOf (passM fb fg fa τ σ2) + (ENNReal.ofReal (geomDef δ τ fg) + ENNReal.ofReal (coinDef fa)) :=
  deficit_bind (geomM_isLaw fb τ h0 fg 0) _ (passK1M_isLaw fa τ σ2 hσ) _ _
    (geomM_deficit fb τ δ h0 hδ hcoin fg 0) (passK1M_deficit fa τ σ2 hσ)

/-! ### renewal and the fixed point -/

/-- accepted (any output) / rejected in one pass of the model -/
noncomputable def AM (fb fg fa : ℕ) (τ σ2 : ℝ) : ℝ≥0∞ := ∑' z : ℤ, streamμ (Ret (passM fb fg fa τ σ2) (some z))
noncomputable def RM (fb fg fa : ℕ) (τ σ2 : ℝ) : ℝ≥0∞ := streamμ (Ret (passM fb fg fa τ σ2) none)

theorem passM_mass (fb fg fa : ℕ) (τ σ2 : ℝ) (h0 : 0 ≤ τ) (hσ : 0 < σ2) :
    massOf (passM fb fg fa τ σ2) = RM fb fg fa τ σ2 + AM fb fg fa τ σ2 := by
  rw [massOf_eq (passM_isLaw fb fg fa τ σ2 h0 hσ), tsum_option]; rfl

/-- **renewal**: `M_{n+1} = A + R·M_n` for the return probability of the model's loop -/
theorem loopM_mass_succ (fb fg fa : ℕ) (τ σ2 : ℝ) (h0 : 0 ≤ τ) (hσ : 0 < σ2) (n : ℕ) :
    massOf (loopM fb fg fa τ σ2 (n + 1))
      = AM fb fg fa τ σ2 + RM fb fg fa τ σ2 * massOf (loopM fb fg fa τ σ2 n) := by
  have hK : ∀ o : Option ℤ, IsLaw (match o with | some y => retS y | none => loopM fb fg fa τ σ2 n) := by
    intro o
    cases o with
    | none => exact loopM_isLaw fb fg fa τ σ2 h0 hσ n
    | some y => exact IsLaw.retS y
  rw [loopM_succ, massOf_bind (passM_isLaw fb fg fa τ σ2 h0 hσ) _ hK, tsum_option, add_comm]
  simp only [massOf_retS, mul_one]
  rfl

theorem loopM_mass_zero (fb fg fa : ℕ) (τ σ2 : ℝ) : massOf (loopM fb fg fa τ σ2 0) = 0 := by
  unfold massOf
  rw [loopM_zero, bindS_error, Ret_error]; simp

/-- the probability that the model's loop returns (with enough outer fuel) -/
noncomputable def MM (fb fg fa : ℕ) (τ σ2 : ℝ) : ℝ≥0∞ := ⨆ n, massOf (loopM fb fg fa τ σ2 n)

theorem MM_fix (fb fg fa : ℕ) (τ σ2 : ℝ) (h0 : 0 ≤ τ) (hσ : 0 < σ2) :
    MM fb fg fa τ σ2 = AM fb fg fa τ σ2 + RM fb fg fa τ σ2 * MM fb fg fa τ σ2 := by
  unfold MM
  conv_lhs => rw [← sup_iSup_nat_succ, loopM_mass_zero, ← bot_eq_zero, bot_sup_eq]
  simp_rw [loopM_mass_succ fb fg fa τ σ2 h0 hσ]
  rw [ENNReal.mul_iSup, ENNReal.add_iSup]

/-- the arithmetic of the renewal argument, in `ℝ≥0∞` -/
theorem fix_deficit (M A R a c : ℝ≥0∞) (hfix : M = A + R * M) (hM : M ≤ 1) (hdef : 1 ≤ A + R + a)
    (hc : R + c ≤ 1) (hc0 : c ≠ 0) (x : ℝ≥0∞) (hx : x + M ≤ 1) : x ≤ a / c := by
  have hMtop : M ≠ ⊤ := ne_top_of_le_ne_top ENNReal.one_ne_top hM
  have hR1 : R ≤ 1 := le_trans le_self_add hc
  have hx1 : x ≤ 1 := le_trans le_self_add hx
  have hRx : R * x ≠ ⊤ := ENNReal.mul_ne_top (ne_top_of_le_ne_top ENNReal.one_ne_top hR1)
    (ne_top_of_le_ne_top ENNReal.one_ne_top hx1)
  have hctop : c ≠ ⊤ := ne_top_of_le_ne_top ENNReal.one_ne_top (le_trans le_add_self hc)
  -- y := 1 - M  (so that M + y = 1) dominates x
  set y := 1 - M with hy
  have hMy : M + y = 1 := add_tsub_cancel_of_le hM
  have hxy : x ≤ y := by
    rw [hy]; exact ENNReal.le_sub_of_add_le_right hMtop hx
  have hy1 : y ≤ 1 := tsub_le_self
  have hRy : R * y ≠ ⊤ := ENNReal.mul_ne_top (ne_top_of_le_ne_top ENNReal.one_ne_top hR1)
    (ne_top_of_le_ne_top ENNReal.one_ne_top hy1)
  have h1 : M + y ≤ M + (R * y + a) := by
    calc M + y = 1 := hMy
      _ ≤ A + R + a := hdef
      _ = A + R * (M + y) + a := by rw [hMy, mul_one]
      _ = (A + R * M) + (R * y + a) := by ring
      _ = M + (R * y + a) := by rw [← hfix]
  have h2 : y ≤ R * y + a := (ENNReal.add_le_add_iff_left hMtop).mp h1
  have h3 : R * y + c * y ≤ R * y + a := by
    calc R * y + c * y = (R + c) * y := by ring
      _ ≤ 1 * y := mul_le_mul_left hc _
      _ = y := one_mul _
      _ ≤ _ := h2
  have h4 : c * y ≤ a := (ENNReal.add_le_add_iff_left hRy).mp h3
  refine hxy.trans ?_
  rw [ENNReal.le_div_iff_mul_le (Or.inl hc0) (Or.inl hctop), mul_comm]
  exact h4

/-! ### the abort event -/

/-- "the parametrised model never returns" -/
def abortMG (fb fg fa : ℕ) (τ σ2 : ℝ) : Set (ℕ → ℝ) := {ω | ∀ N fuel, cksLoopG fb fg fa τ σ2 fuel (pre ω N) = none}

theorem abortMG_model (τ σ2 : ℝ) : abortM τ σ2 = abortMG 64 4096 4096 τ σ2 := by
  unfold abortM abortMG
  simp_rw [cksLoopG_model]

theorem abortMG_add_mass (fb fg fa : ℕ) (τ σ2 : ℝ) (h0 : 0 ≤ τ) (hσ : 0 < σ2) (n : ℕ) :
    streamμ (abortMG fb fg fa τ σ2) + massOf (loopM fb fg fa τ σ2 n) ≤ 1 := by
  have hm : MeasurableSet (Ret (bindS (loopM fb fg fa τ σ2 n) (fun _ => retS ())) ()) :=
    ((loopM_isLaw fb fg fa τ σ2 h0 hσ n).bind (fun _ => IsLaw.retS ())).measurable ()
  have hd : Disjoint (abortMG fb fg fa τ σ2) (Ret (bindS (loopM fb fg fa τ σ2 n) (fun _ => retS ())) ()) := by
    rw [Set.disjoint_left]
    rintro ω hab ⟨N, rest, h⟩
    have hn := hab N n
    simp [bindS, loopM, hn, ofOpt] at h
  unfold massOf
  rw [← measure_union hd hm]
  exact prob_le_one

/-- the one-pass acceptance probability of the output 0 in the unbounded loop bounds `1 − R` from below -/
theorem RM_add_cC (fb fg fa : ℕ) (τ σ2 : ℝ) (h0 : 0 < τ) (hσ : 0 < σ2) :
    RM fb fg fa τ σ2 + ENNReal.ofReal (cC τ σ2) ≤ 1 := by
  have h1 : RM fb fg fa τ σ2 ≤ Rw τ σ2 :=
    (measure_mono ((passM_sub fb fg fa τ σ2 h0.le hσ).ret_subset none)).trans
      (le_iSup (fun F => streamμ (Ret (passI τ σ2 F) none)) fg)
  have h2 : ENNReal.ofReal (cC τ σ2) ≤ ∑' z : ℤ, Aw τ σ2 z := by
    have := ENNReal.le_tsum (f := fun z : ℤ => Aw τ σ2 z) 0
    rwa [Aw_eq τ σ2 h0 hσ, gE_zero, mul_one] at this
  rw [← Rw_add_Aw τ σ2 h0 hσ]
  exact add_le_add h1 h2

/-- **the model never returns with probability at most `(geomDef δ τ fg + coinDef fa) / ((1−e^{-τ})·½·e^{-τ²σ²/2})`** -/
theorem abortMG_le (fb fg fa : ℕ) (τ σ2 δ : ℝ) (h0 : 0 < τ) (hσ : 0 < σ2) (hδ : 0 ≤ δ)
    (hcoin : 1 ≤ massOf (bernM fb τ) + ENNReal.ofReal δ) :
    streamμ (abortMG fb fg fa τ σ2)
      ≤ (ENNReal.ofReal (geomDef δ τ fg) + ENNReal.ofReal (coinDef fa)) / ENNReal.ofReal (cC τ σ2) := by
  have hdef := passM_deficit fb fg fa τ σ2 δ h0.le hσ hδ hcoin
  rw [passM_mass fb fg fa τ σ2 h0.le hσ, add_comm (RM fb fg fa τ σ2)] at hdef
  refine fix_deficit (MM fb fg fa τ σ2) _ _ _ _ (MM_fix fb fg fa τ σ2 h0.le hσ)
    (iSup_le fun n => massOf_le_one _) hdef (RM_add_cC fb fg fa τ σ2 h0 hσ)
    (by simpa using cC_pos τ σ2 h0) _ ?_
  unfold MM
  rw [ENNReal.add_iSup]
  exact iSup_le fun n => abortMG_add_mass fb fg fa τ σ2 h0.le hσ n

/-! ### closed forms -/

/-- `coinDef F = e^{-F}·Σ_{k ≤ F} e^k/k!` -/
theorem coinDef_eq : ∀ F : ℕ, coinDef F
    = Real.exp (-(F : ℝ)) * ∑ k ∈ Finset.range (F + 1), Real.exp 1 ^ k / (Nat.factorial k : ℝ)
  | 0 => by simp [coinDef]
  | F + 1 => by
    rw [coinDef, coinDef_eq F, Finset.sum_range_succ _ (F + 1), mul_add]
    have e1 : Real.exp (-((F + 1 : ℕ) : ℝ)) = Real.exp (-1) * Real.exp (-(F : ℝ)) := by
      rw [← Real.exp_add]; congr 1; push_cast; ring
    have e2 : Real.exp (-((F + 1 : ℕ) : ℝ)) * Real.exp 1 ^ (F + 1) = 1 := by
      rw [← Real.exp_nat_mul, ← Real.exp_add]; simp
    rw [← mul_div_assoc, e2, e1]; ring

/-- `coinDef F ≤ e^{e − F}` -/
theorem coinDef_le (F : ℕ) : coinDef F ≤ Real.exp (Real.exp 1 - F) := by
  have : Real.exp (Real.exp 1 - F) = Real.exp (-(F : ℝ)) * Real.exp (Real.exp 1) := by
    rw [← Real.exp_add]; congr 1; ring
  rw [coinDef_eq, this]
  exact mul_le_mul_of_nonneg_left (Real.sum_le_exp_of_nonneg (Real.exp_pos 1).le _) (Real.exp_pos _).le

/-- the explicit bound: `(fg·τ^fb/fb! + e^{-τ·fg} + e^{e−fa}) / ((1−e^{-τ})·½·e^{-τ²σ²/2})` -/
noncomputable def abortBound (fb fg fa : ℕ) (τ σ2 : ℝ) : ℝ :=
  ((fg : ℝ) * (τ ^ fb / (Nat.factorial fb : ℝ)) + Real.exp (-(τ * fg)) + Real.exp (Real.exp 1 - fa))
    / ((1 - Real.exp (-τ)) * (1 / 2) * Real.exp (-(τ ^ 2 * σ2 / 2)))

/-- **explicit bound on the fuel-exhaustion event** (`0 < τ ≤ 1`) -/
theorem cks_abort_le (fb fg fa : ℕ) (τ σ2 : ℝ) (h0 : 0 < τ) (h1 : τ ≤ 1) (hσ : 0 < σ2) :
    streamμ (abortMG fb fg fa τ σ2) ≤ ENNReal.ofReal (abortBound fb fg fa τ σ2) := by
  have hδ : 0 ≤ τ ^ fb / (Nat.factorial fb : ℝ) := by positivity
  refine (abortMG_le fb fg fa τ σ2 _ h0 hσ hδ (bernM_deficit_le_one fb τ h0.le h1)).trans ?_
  have hg := geomDef_le _ τ hδ h0.le fg
  have hgn := geomDef_nonneg _ τ hδ fg
  rw [← ENNReal.ofReal_add hgn (coinDef_nonneg fa), ← ENNReal.ofReal_div_of_pos (cC_pos τ σ2 h0)]
  apply ENNReal.ofReal_le_ofReal
  unfold abortBound
  have : cC τ σ2 = (1 - Real.exp (-τ)) * (1 / 2) * Real.exp (-(τ ^ 2 * σ2 / 2)) := rfl
  rw [← this]
  exact div_le_div_of_nonneg_right (by linarith [coinDef_le fa]) (cC_pos τ σ2 h0).le

end DPL.SmpS
