/-
Helper lemmas for C19 over ℝ: the closed-form moments of `DPL/Model/Moments.lean` unfolded at the real carrier,
the two-sided geometric series, monotonicity of the closed forms.
-/
import DPL.Model.Moments
import DPL.Proofs.RealCarrier
import DPL.Proofs.ContinuousCalib
import Mathlib.Analysis.SpecificLimits.Normed
import Mathlib.Data.Nat.Choose.Cast
import Mathlib.Topology.Algebra.InfiniteSum.NatInt
import Mathlib.Analysis.SpecialFunctions.Pow.Real
import Mathlib.Tactic.FieldSimp
import Mathlib.Tactic.Linarith
import Mathlib.Tactic.Positivity
import Mathlib.Tactic.Ring

namespace DPL.Cont
open DPL Real

/-! ### unfolding at ℝ -/

theorem sq_real (x : ℝ) : sq x = x ^ 2 := by
  unfold sq; simp only [transc_pow]; exact Real.rpow_two x

theorem mse_real (variance bias : ℝ) : mse variance bias = variance + bias ^ 2 := by
  unfold mse; rw [sq_real]

theorem laplaceVariance_real (eps delta sens : ℝ) :
    laplaceVariance eps delta sens = 2 * (laplaceScale eps delta sens) ^ 2 := by
  unfold laplaceVariance; rw [sq_real]; rfl

theorem gaussVarianceOf_real (sigma : ℝ) : gaussVarianceOf sigma = sigma ^ 2 := by
  unfold gaussVarianceOf; rw [sq_real]

theorem uniformVariance_real (delta sens : ℝ) : uniformVariance delta sens = (sens / delta) ^ 2 / 12 := by
  unfold uniformVariance; rw [sq_real]; norm_num

theorem geomVarianceOf_real (s : ℝ) :
    geomVarianceOf s =
      2 * ((1 - Real.exp s) / (1 + Real.exp s)) *
        (Real.exp s / (1 - Real.exp s) + 3 * (Real.exp s / (1 - Real.exp s)) ^ 2 +
          2 * (Real.exp s / (1 - Real.exp s)) ^ 3) := by
  unfold geomVarianceOf
  simp only [transc_exp, transc_pow]
  rw [Real.rpow_two, show ((3 : ℕ) : ℝ) = ((3 : ℕ) : ℝ) from rfl, Real.rpow_natCast]
  norm_num

/-- the coded `2·lf·(g + 3g² + 2g³)` is `2r/(1-r)²` -/
theorem geom_closed_form (r : ℝ) (h1 : r < 1) (h0 : 0 ≤ r) :
    2 * ((1 - r) / (1 + r)) * (r / (1 - r) + 3 * (r / (1 - r)) ^ 2 + 2 * (r / (1 - r)) ^ 3) = 2 * r / (1 - r) ^ 2 := by
  have a : 1 - r ≠ 0 := by linarith
  have b : 1 + r ≠ 0 := by linarith
  field_simp
  ring

/-! ### the geometric series `Σ n² rⁿ`, `Σ n rⁿ` and their two-sided versions -/

theorem hasSum_of_eq {ι : Type} {f g : ι → ℝ} {a b : ℝ} (h : HasSum g b) (hf : ∀ i, f i = g i) (hab : a = b) :
    HasSum f a := by
  have : f = g := funext hf
  rw [this, hab]; exact h

theorem hasSum_sq_mul_geometric (r : ℝ) (h0 : 0 ≤ r) (h1 : r < 1) :
    HasSum (fun n : ℕ => (n : ℝ) ^ 2 * r ^ n) (r * (1 + r) / (1 - r) ^ 3) := by
  have hr : ‖r‖ < 1 := by rw [Real.norm_eq_abs, abs_of_nonneg h0]; exact h1
  have s2 := hasSum_choose_mul_geometric_of_norm_lt_one 2 hr
  have s1 := hasSum_choose_mul_geometric_of_norm_lt_one 1 hr
  have s0 := hasSum_choose_mul_geometric_of_norm_lt_one 0 hr
  have h := ((s2.mul_left 2).sub (s1.mul_left 3)).add s0
  have hne : 1 - r ≠ 0 := by linarith
  refine hasSum_of_eq h (fun n => ?_) ?_
  · have c2 : (((n + 2).choose 2 : ℕ) : ℝ) = ((n : ℝ) + 2) * ((n : ℝ) + 1) / 2 := by
      rw [Nat.cast_choose_two]; push_cast; ring
    have c1 : (((n + 1).choose 1 : ℕ) : ℝ) = (n : ℝ) + 1 := by
      rw [Nat.choose_one_right]; push_cast; ring
    have c0 : (((n + 0).choose 0 : ℕ) : ℝ) = 1 := by simp
    rw [c2, c1, c0]; ring
  · field_simp; ring

theorem hasSum_id_mul_geometric (r : ℝ) (h0 : 0 ≤ r) (h1 : r < 1) :
    HasSum (fun n : ℕ => (n : ℝ) * r ^ n) (r / (1 - r) ^ 2) := by
  have hr : ‖r‖ < 1 := by rw [Real.norm_eq_abs, abs_of_nonneg h0]; exact h1
  exact hasSum_coe_mul_geometric_of_norm_lt_one hr

/-- the two-sided geometric pmf `P[k] = (1-r)/(1+r) · r^|k|` has second moment `2r/(1-r)²` -/
theorem hasSum_geom_second_moment (r : ℝ) (h0 : 0 ≤ r) (h1 : r < 1) :
    HasSum (fun k : ℤ => (k : ℝ) ^ 2 * ((1 - r) / (1 + r) * r ^ k.natAbs)) (2 * r / (1 - r) ^ 2) := by
  have hs := hasSum_sq_mul_geometric r h0 h1
  set c := (1 - r) / (1 + r) with hc
  have hpos : HasSum (fun n : ℕ => ((n : ℤ) : ℝ) ^ 2 * (c * r ^ (n : ℤ).natAbs)) (c * (r * (1 + r) / (1 - r) ^ 3)) := by
    refine hasSum_of_eq (hs.mul_left c) (fun n => ?_) rfl
    simp only [Int.natAbs_natCast, Int.cast_natCast]; ring
  have hneg : HasSum (fun n : ℕ => ((-((n : ℤ) + 1) : ℤ) : ℝ) ^ 2 * (c * r ^ (-((n : ℤ) + 1)).natAbs))
      (c * (r * (1 + r) / (1 - r) ^ 3)) := by
    have h' := (hasSum_nat_add_iff' 1).mpr (hs.mul_left c)
    refine hasSum_of_eq h' (fun n => ?_) (by simp)
    have : (-((n : ℤ) + 1)).natAbs = n + 1 := by omega
    rw [this]; push_cast; ring
  have := HasSum.of_nat_of_neg_add_one (f := fun k : ℤ => (k : ℝ) ^ 2 * (c * r ^ k.natAbs)) hpos hneg
  refine hasSum_of_eq this (fun k => rfl) ?_
  have a : 1 - r ≠ 0 := by linarith
  have b : 1 + r ≠ 0 := by linarith
  rw [hc]; field_simp; ring

/-- … and first moment `0` (bias) -/
theorem hasSum_geom_first_moment (r : ℝ) (h0 : 0 ≤ r) (h1 : r < 1) :
    HasSum (fun k : ℤ => (k : ℝ) * ((1 - r) / (1 + r) * r ^ k.natAbs)) 0 := by
  have hs := hasSum_id_mul_geometric r h0 h1
  set c := (1 - r) / (1 + r) with hc
  have hpos : HasSum (fun n : ℕ => ((n : ℤ) : ℝ) * (c * r ^ (n : ℤ).natAbs)) (c * (r / (1 - r) ^ 2)) := by
    refine hasSum_of_eq (hs.mul_left c) (fun n => ?_) rfl
    simp only [Int.natAbs_natCast, Int.cast_natCast]; ring
  have hneg : HasSum (fun n : ℕ => ((-((n : ℤ) + 1) : ℤ) : ℝ) * (c * r ^ (-((n : ℤ) + 1)).natAbs))
      (-(c * (r / (1 - r) ^ 2))) := by
    have h' := ((hasSum_nat_add_iff' 1).mpr (hs.mul_left c)).neg
    refine hasSum_of_eq h' (fun n => ?_) (by simp)
    have : (-((n : ℤ) + 1)).natAbs = n + 1 := by omega
    rw [this]; push_cast; ring
  have := HasSum.of_nat_of_neg_add_one (f := fun k : ℤ => (k : ℝ) * (c * r ^ k.natAbs)) hpos hneg
  refine hasSum_of_eq this (fun k => rfl) (by ring)

/-! ### folded Laplace: the overflow-free expression is the old one -/

theorem foldBias_eq_old (b l u v : ℝ) (hb : b ≠ 0) : foldBiasOf b l u v = foldBiasOld b l u v := by
  unfold foldBiasOf foldBiasOld
  simp only [transc_exp]
  have e1 : Real.exp ((l + u - 2 * v) / b) = Real.exp ((l - v) / b) / Real.exp ((v - u) / b) := by
    rw [← Real.exp_sub]; congr 1; field_simp; ring
  have e2 : Real.exp ((u - v) / b) = 1 / Real.exp ((v - u) / b) := by
    rw [one_div, ← Real.exp_neg]; congr 1; field_simp; ring
  have e3 : Real.exp ((l - u) / b) = Real.exp ((l - v) / b) * Real.exp ((v - u) / b) := by
    rw [← Real.exp_add]; congr 1; field_simp; ring
  rw [e1, e2, e3]
  have p1 : 0 < Real.exp ((l - v) / b) := Real.exp_pos _
  have p2 : 0 < Real.exp ((v - u) / b) := Real.exp_pos _
  generalize Real.exp ((l - v) / b) = A at *
  generalize Real.exp ((v - u) / b) = C at *
  have : A * C + 1 ≠ 0 := by positivity
  have : A + 1 / C ≠ 0 := by positivity
  field_simp

/-! ### monotonicity of the closed forms -/

theorem sq_div_antitone (s d1 d2 : ℝ) (hs : 0 ≤ s) (hd1 : 0 < d1) (h : d1 ≤ d2) : (s / d2) ^ 2 ≤ (s / d1) ^ 2 := by
  have h2 : 0 < d2 := lt_of_lt_of_le hd1 h
  have : s / d2 ≤ s / d1 := div_le_div_of_nonneg_left hs hd1 h
  exact pow_le_pow_left₀ (by positivity) this 2

theorem sq_div_monotone (s1 s2 d : ℝ) (hs : 0 ≤ s1) (h : s1 ≤ s2) (hd : 0 < d) : (s1 / d) ^ 2 ≤ (s2 / d) ^ 2 := by
  have : s1 / d ≤ s2 / d := div_le_div_of_nonneg_right h hd.le
  exact pow_le_pow_left₀ (by positivity) this 2

/-- `r ↦ 2r/(1-r)²` is monotone on `[0, 1)` -/
theorem geom_var_monotone (r1 r2 : ℝ) (h0 : 0 ≤ r1) (h : r1 ≤ r2) (h1 : r2 < 1) :
    2 * r1 / (1 - r1) ^ 2 ≤ 2 * r2 / (1 - r2) ^ 2 := by
  have a1 : 0 < 1 - r1 := by linarith
  have a2 : 0 < 1 - r2 := by linarith
  rw [div_le_div_iff₀ (by positivity) (by positivity)]
  have hsq : (1 - r2) ^ 2 ≤ (1 - r1) ^ 2 := pow_le_pow_left₀ a2.le (by linarith) 2
  nlinarith [mul_le_mul h hsq (by positivity) (by linarith : (0:ℝ) ≤ r2)]

end DPL.Cont
