/-
`Gaussian.randomise` / `GaussianAnalytic.randomise` draw two independent standard normals and return
`(n₁ + n₂)/√2`.  Here: the push-forward of `N(0,1) ⊗ N(0,1)` under the model's own `gaussUnit` is `N(0,1)`.
-/
import DPL.Proofs.SamplersReal
import Mathlib.Probability.Distributions.Gaussian.Real

namespace DPL.Smp
open MeasureTheory ProbabilityTheory

/-- the model's unit noise over ℝ -/
theorem gaussUnit_real (n1 n2 : ℝ) : gaussUnit n1 n2 = (n1 + n2) / Real.sqrt 2 := by
  unfold gaussUnit; simp

theorem measurable_gaussUnit : Measurable (fun n : ℝ × ℝ => gaussUnit n.1 n.2) := by
  simp only [gaussUnit_real]
  exact (measurable_fst.add measurable_snd).div_const _

/-- `(N₁ + N₂)/√2 ~ N(0,1)` for independent `N₁, N₂ ~ N(0,1)` -/
theorem gaussUnit_map :
    ((gaussianReal 0 1).prod (gaussianReal 0 1)).map (fun n : ℝ × ℝ => gaussUnit n.1 n.2) = gaussianReal 0 1 := by
  have hsum : ((gaussianReal 0 1).prod (gaussianReal 0 1)).map (fun n : ℝ × ℝ => n.1 + n.2) = gaussianReal 0 2 := by
    have := gaussianReal_conv_gaussianReal (m₁ := 0) (m₂ := 0) (v₁ := 1) (v₂ := 1)
    rw [Measure.conv] at this
    rw [this]; norm_num
  have hcomp : (fun n : ℝ × ℝ => gaussUnit n.1 n.2) = (fun x : ℝ => x / Real.sqrt 2) ∘ (fun n : ℝ × ℝ => n.1 + n.2) := by
    funext n; simp [gaussUnit_real]
  have h1 : Measurable (fun x : ℝ => x / Real.sqrt 2) := measurable_id.div_const _
  have h2 : Measurable (fun n : ℝ × ℝ => n.1 + n.2) := measurable_fst.add measurable_snd
  rw [hcomp, ← Measure.map_map h1 h2, hsum, gaussianReal_map_div_const]
  congr 1
  · simp
  · ext
    simp [Real.sq_sqrt]

/-- the whole mechanism: `value + (N₁+N₂)/√2 · scale ~ N(value, scale²)` -/
theorem gauss_map (scale x : ℝ) :
    ((gaussianReal 0 1).prod (gaussianReal 0 1)).map (fun n : ℝ × ℝ => gauss scale x n.1 n.2)
      = gaussianReal x (.mk (scale ^ 2) (sq_nonneg _)) := by
  have hcomp : (fun n : ℝ × ℝ => gauss scale x n.1 n.2)
      = (fun z : ℝ => x + z) ∘ (fun z : ℝ => z * scale) ∘ (fun n : ℝ × ℝ => gaussUnit n.1 n.2) := by
    funext n; simp [gauss]
  have h1 : Measurable (fun z : ℝ => x + z) := measurable_const.add measurable_id
  have h2 : Measurable (fun z : ℝ => z * scale) := measurable_id.mul_const _
  rw [hcomp, ← Measure.map_map h1 (h2.comp measurable_gaussUnit), ← Measure.map_map h2 measurable_gaussUnit,
    gaussUnit_map, gaussianReal_map_mul_const, gaussianReal_map_const_add]
  simp

end DPL.Smp
