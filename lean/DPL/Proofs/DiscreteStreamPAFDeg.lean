/-
C01: `pafRun` under the uniform stream measure when some log-probabilities are `−∞` (the degenerate branch
`sensitivity = 0` of `PermuteAndFlip`: `logp ∈ {0, −∞}`).  The coin of a `−∞` candidate is the model's `bernInf`, which
returns 0 with probability `1 − exp(−coinFuel)` and reports `exhausted` otherwise (a model artefact; the Python coin
returns 0 with probability one).  Hence the law of the run is the model's `pafLaw` up to that slack:
`run ≤ pafLaw ≤ run + rounds · exp(−coinFuel)`.
-/
import DPL.Proofs.DiscreteStreamPAF

namespace DPL.Discrete
open MeasureTheory Set
open scoped ENNReal

theorem pafHeads_getD_none (logp : List (Option ℝ)) (i : ℕ) (h : logp[i]? = some none) :
    (pafHeads logp).getD i 0 = 0 := by
  unfold pafHeads
  rw [List.getD_eq_getElem?_getD, List.getElem?_map, h]
  simp

theorem pafHeads_range_gen (logp : List (Option ℝ))
    (hlog : ∀ o ∈ logp, o = none ∨ ∃ lp : ℝ, o = some lp ∧ lp ≤ 0) (i : ℕ) :
    0 ≤ (pafHeads logp).getD i 0 ∧ (pafHeads logp).getD i 0 ≤ 1 := by
  by_cases hi : i < logp.length
  · rcases hlog logp[i] (List.getElem_mem hi) with hn | ⟨lp, hlp, hle⟩
    · rw [pafHeads_getD_none logp i (by rw [List.getElem?_eq_getElem hi, hn])]
      exact ⟨le_refl _, zero_le_one⟩
    · rw [pafHeads_getD_of logp i lp (by rw [List.getElem?_eq_getElem hi, hlp])]
      exact ⟨(Real.exp_pos _).le, Real.exp_le_one_iff.mpr hle⟩
  · rw [List.getD_eq_default _ _ (by simpa [pafHeads] using hi)]
    exact ⟨le_refl _, zero_le_one⟩

/-- **the law of `pafRun` with `−∞` entries allowed**: the probability over the uniform stream that the run returns `r`
is the model's `pafLaw` up to the probability that a `bernInf` coin runs out of fuel -/
theorem pafRun_stream_law_slack (logp : List (Option ℝ)) (coinFuel : ℕ)
    (hlog : ∀ o ∈ logp, o = none ∨ ∃ lp : ℝ, o = some lp ∧ lp ≤ 0 ∧ -lp < coinFuel) (fuel : ℕ) (ids : List ℕ)
    (hids : ∀ i ∈ ids, i < logp.length) (r : ℕ) :
    MeasurableSet (Ret (pafRun logp coinFuel fuel ids) r) ∧
    streamμ (Ret (pafRun logp coinFuel fuel ids) r)
      ≤ ENNReal.ofReal (pafLaw (fun i => (pafHeads logp).getD i 0) fuel ids r) ∧
    ENNReal.ofReal (pafLaw (fun i => (pafHeads logp).getD i 0) fuel ids r)
      ≤ streamμ (Ret (pafRun logp coinFuel fuel ids) r)
        + ENNReal.ofReal ((fuel : ℝ) * Real.exp (-(coinFuel : ℝ))) := by
  set p : ℕ → ℝ := fun i => (pafHeads logp).getD i 0 with hp
  set δ : ℝ := Real.exp (-(coinFuel : ℝ)) with hδ
  have hδ0 : 0 < δ := Real.exp_pos _
  have hδ1 : δ ≤ 1 := Real.exp_le_one_iff.mpr (by simp)
  have hpr : ∀ i, 0 ≤ p i ∧ p i ≤ 1 := fun i =>
    pafHeads_range_gen logp (fun o ho => by
      rcases hlog o ho with h | ⟨lp, h1, h2, _⟩
      · exact Or.inl h
      · exact Or.inr ⟨lp, h1, h2⟩) i
  induction fuel generalizing ids with
  | zero => rw [pafRun_zero, Ret_error, pafLaw_zero]; simp
  | succ n ih =>
    by_cases hne : ids = []
    · subst hne; rw [pafRun_nil, Ret_error, pafLaw_nil]; simp
    rw [pafRun_succ logp coinFuel n ids hne, pafLaw_succ p n ids hne]
    have round : ∀ idx ∈ ids,
        MeasurableSet (Ret (bindS (pafCoin logp coinFuel idx)
          (fun b => if b then retS idx else pafRun logp coinFuel n (ids.erase idx))) r) ∧
        streamμ (Ret (bindS (pafCoin logp coinFuel idx)
          (fun b => if b then retS idx else pafRun logp coinFuel n (ids.erase idx))) r)
          ≤ ENNReal.ofReal ((if idx = r then p idx else 0) + (1 - p idx) * pafLaw p n (ids.erase idx) r) ∧
        ENNReal.ofReal ((if idx = r then p idx else 0) + (1 - p idx) * pafLaw p n (ids.erase idx) r)
          ≤ streamμ (Ret (bindS (pafCoin logp coinFuel idx)
              (fun b => if b then retS idx else pafRun logp coinFuel n (ids.erase idx))) r)
            + ENNReal.ofReal (((n + 1 : ℕ) : ℝ) * δ) := by
      intro idx hidx
      have hlt := hids idx hidx
      obtain ⟨ihm, ihle, ihge⟩ := ih (ids.erase idx) (fun i hi => hids i (List.mem_of_mem_erase hi))
      have hKm : ∀ b : Bool, MeasurableSet
          (Ret ((fun b : Bool => if b then retS idx else pafRun logp coinFuel n (ids.erase idx)) b) r) := by
        intro b; cases b
        · exact ihm
        · exact Ret_retS_measurable idx r
      have hL := pafLaw_nonneg p hpr n (ids.erase idx) r
      have hsplit : ENNReal.ofReal (((n + 1 : ℕ) : ℝ) * δ) = ENNReal.ofReal δ + ENNReal.ofReal ((n : ℝ) * δ) := by
        rw [← ENNReal.ofReal_add hδ0.le (by positivity)]; congr 1; push_cast; ring
      rcases hlog logp[idx] (List.getElem_mem hlt) with hnone | ⟨lp, hlp, hle, hcf⟩
      · -- a `−∞` candidate: the coin is `bernInf`
        have hget : logp[idx]? = some none := by rw [List.getElem?_eq_getElem hlt, hnone]
        have hcoin : pafCoin logp coinFuel idx = bernInf coinFuel := by unfold pafCoin; rw [hget]
        have hpidx : p idx = 0 := pafHeads_getD_none logp idx hget
        obtain ⟨hm, hμ⟩ := bernInf_bind_law coinFuel
          (fun b : Bool => if b then retS idx else pafRun logp coinFuel n (ids.erase idx)) r hKm
        rw [hcoin]
        refine ⟨hm, ?_, ?_⟩
        · rw [hμ]
          simp only [Bool.false_eq_true, if_false, hpidx, ite_self, zero_add, sub_zero, one_mul]
          calc ENNReal.ofReal (1 - δ) * streamμ (Ret (pafRun logp coinFuel n (ids.erase idx)) r)
              ≤ 1 * streamμ (Ret (pafRun logp coinFuel n (ids.erase idx)) r) := by
                gcongr
                rw [← ENNReal.ofReal_one]; exact ENNReal.ofReal_le_ofReal (by linarith)
            _ ≤ _ := by rw [one_mul]; exact ihle
        · rw [hμ]
          simp only [Bool.false_eq_true, if_false, hpidx, ite_self, zero_add, sub_zero, one_mul]
          set q := streamμ (Ret (pafRun logp coinFuel n (ids.erase idx)) r) with hq
          have hq1 : q ≤ 1 := prob_le_one
          have hone : q = ENNReal.ofReal (1 - δ) * q + ENNReal.ofReal δ * q := by
            rw [← add_mul, ← ENNReal.ofReal_add (by linarith) hδ0.le]; simp
          calc ENNReal.ofReal (pafLaw p n (ids.erase idx) r) ≤ q + ENNReal.ofReal ((n : ℝ) * δ) := ihge
            _ = ENNReal.ofReal (1 - δ) * q + ENNReal.ofReal δ * q + ENNReal.ofReal ((n : ℝ) * δ) := by rw [← hone]
            _ ≤ ENNReal.ofReal (1 - δ) * q + ENNReal.ofReal δ * 1 + ENNReal.ofReal ((n : ℝ) * δ) := by gcongr
            _ = ENNReal.ofReal (1 - δ) * q + ENNReal.ofReal (((n + 1 : ℕ) : ℝ) * δ) := by
                rw [hsplit, mul_one, add_assoc]
      · -- a finite candidate: the coin is `bernNegExp`
        have hget : logp[idx]? = some (some lp) := by rw [List.getElem?_eq_getElem hlt, hlp]
        have hcoin : pafCoin logp coinFuel idx = bernNegExp coinFuel (-lp) := by unfold pafCoin; rw [hget]
        have hpidx : p idx = Real.exp lp := pafHeads_getD_of logp idx lp hget
        obtain ⟨hm, hμ⟩ := bernNegExp_bind_law coinFuel (-lp) (by linarith) hcf
          (fun b : Bool => if b then retS idx else pafRun logp coinFuel n (ids.erase idx)) r hKm
        have h1p : 0 ≤ 1 - p idx := by linarith [(hpr idx).2]
        have hG : ENNReal.ofReal ((if idx = r then p idx else 0) + (1 - p idx) * pafLaw p n (ids.erase idx) r)
            = ENNReal.ofReal (p idx) * streamμ (Ret (retS idx) r)
              + ENNReal.ofReal (1 - p idx) * ENNReal.ofReal (pafLaw p n (ids.erase idx) r) := by
          rw [Ret_retS]
          by_cases hr : idx = r
          · subst hr
            simp only [if_true, measure_univ, mul_one]
            rw [← ENNReal.ofReal_mul h1p, ← ENNReal.ofReal_add (hpr idx).1 (mul_nonneg h1p hL)]
          · simp only [hr, if_false, measure_empty, mul_zero, zero_add]
            rw [← ENNReal.ofReal_mul h1p]
        rw [hcoin]
        refine ⟨hm, ?_, ?_⟩
        · rw [hμ, hG]
          simp only [if_true, Bool.false_eq_true, if_false, neg_neg, ← hpidx]
          gcongr
        · rw [hμ, hG]
          simp only [if_true, Bool.false_eq_true, if_false, neg_neg, ← hpidx]
          set q := streamμ (Ret (pafRun logp coinFuel n (ids.erase idx)) r) with hq
          have h1 : ENNReal.ofReal (1 - p idx) ≤ 1 := by
            rw [← ENNReal.ofReal_one]; exact ENNReal.ofReal_le_ofReal (by linarith [(hpr idx).1])
          calc ENNReal.ofReal (p idx) * streamμ (Ret (retS idx) r)
                + ENNReal.ofReal (1 - p idx) * ENNReal.ofReal (pafLaw p n (ids.erase idx) r)
              ≤ ENNReal.ofReal (p idx) * streamμ (Ret (retS idx) r)
                + ENNReal.ofReal (1 - p idx) * (q + ENNReal.ofReal ((n : ℝ) * δ)) := by gcongr
            _ = ENNReal.ofReal (p idx) * streamμ (Ret (retS idx) r) + ENNReal.ofReal (1 - p idx) * q
                + ENNReal.ofReal (1 - p idx) * ENNReal.ofReal ((n : ℝ) * δ) := by rw [mul_add, add_assoc]
            _ ≤ ENNReal.ofReal (p idx) * streamμ (Ret (retS idx) r) + ENNReal.ofReal (1 - p idx) * q
                + 1 * ENNReal.ofReal ((n : ℝ) * δ) := by gcongr
            _ ≤ _ := by
                rw [one_mul, hsplit]
                gcongr
                exact le_add_self
    obtain ⟨hm, hμ⟩ := idxDraw_bind_law ids (fun idx => bindS (pafCoin logp coinFuel idx)
      (fun b => if b then retS idx else pafRun logp coinFuel n (ids.erase idx))) r
      (fun j => (round ids[(j : ℕ)] (List.getElem_mem j.2)).1)
    have hterm : ∀ j : Fin ids.length, 0 ≤ (if ids[(j : ℕ)] = r then p ids[(j : ℕ)] else 0)
        + (1 - p ids[(j : ℕ)]) * pafLaw p n (ids.erase ids[(j : ℕ)]) r := by
      intro j
      have h2 : 0 ≤ (1 - p ids[(j : ℕ)]) * pafLaw p n (ids.erase ids[(j : ℕ)]) r :=
        mul_nonneg (by linarith [(hpr ids[(j : ℕ)]).2]) (pafLaw_nonneg p hpr n _ r)
      split_ifs
      · linarith [(hpr ids[(j : ℕ)]).1]
      · linarith
    have hlenpos : (0 : ℝ) < (ids.length : ℝ) := by
      have : 0 < ids.length := List.length_pos_iff.mpr hne
      exact_mod_cast this
    have hR : ∀ (g : Fin ids.length → ℝ), (∀ j, 0 ≤ g j) →
        ENNReal.ofReal ((∑ j, g j) / (ids.length : ℝ))
          = ∑ j, ENNReal.ofReal (1 / (ids.length : ℝ)) * ENNReal.ofReal (g j) := by
      intro g hg
      rw [div_eq_inv_mul, ← one_div, ENNReal.ofReal_mul (by positivity),
        ENNReal.ofReal_sum_of_nonneg (fun j _ => hg j), Finset.mul_sum]
    rw [← Fin.sum_univ_fun_getElem ids
        (fun i => (if i = r then p i else 0) + (1 - p i) * pafLaw p n (ids.erase i) r), hR _ hterm, hμ]
    refine ⟨hm, ?_, ?_⟩
    · apply Finset.sum_le_sum
      intro j _
      gcongr
      exact (round ids[(j : ℕ)] (List.getElem_mem j.2)).2.1
    · have hconst : ∑ _j : Fin ids.length, ENNReal.ofReal (1 / (ids.length : ℝ))
            * ENNReal.ofReal (((n + 1 : ℕ) : ℝ) * δ) = ENNReal.ofReal (((n + 1 : ℕ) : ℝ) * δ) := by
        rw [Finset.sum_const, Finset.card_univ, Fintype.card_fin, nsmul_eq_mul, ← mul_assoc,
          ← ENNReal.ofReal_natCast, ← ENNReal.ofReal_mul (Nat.cast_nonneg _)]
        have : (ids.length : ℝ) * (1 / (ids.length : ℝ)) = 1 := by field_simp
        rw [this, ENNReal.ofReal_one, one_mul]
      calc ∑ j : Fin ids.length, ENNReal.ofReal (1 / (ids.length : ℝ)) * ENNReal.ofReal
              ((if ids[(j : ℕ)] = r then p ids[(j : ℕ)] else 0)
                + (1 - p ids[(j : ℕ)]) * pafLaw p n (ids.erase ids[(j : ℕ)]) r)
          ≤ ∑ j : Fin ids.length, ENNReal.ofReal (1 / (ids.length : ℝ)) *
              (streamμ (Ret (bindS (pafCoin logp coinFuel ids[(j : ℕ)])
                (fun b => if b then retS ids[(j : ℕ)] else pafRun logp coinFuel n (ids.erase ids[(j : ℕ)]))) r)
              + ENNReal.ofReal (((n + 1 : ℕ) : ℝ) * δ)) := by
            apply Finset.sum_le_sum
            intro j _
            gcongr
            exact (round ids[(j : ℕ)] (List.getElem_mem j.2)).2.2
        _ = _ := by
            simp_rw [mul_add]
            rw [Finset.sum_add_distrib, hconst]

/-- the log-probabilities of the infinite scale are `0` or `−∞` -/
theorem pafLogProbs_none (us : List ℝ) (coinFuel : ℕ) (hcf : 0 < coinFuel) :
    ∀ o ∈ pafLogProbs (none : Option ℝ) us, o = none ∨ ∃ lp : ℝ, o = some lp ∧ lp ≤ 0 ∧ -lp < coinFuel := by
  intro o ho
  simp only [pafLogProbs, List.mem_map] at ho
  obtain ⟨x, _, rfl⟩ := ho
  split_ifs
  · exact Or.inr ⟨0, rfl, le_refl _, by simpa using hcf⟩
  · exact Or.inl rfl

/-- **degenerate branch of `PermuteAndFlip.randomise` over the uniform stream** (`sensitivity = 0`) -/
theorem paf_stream_law_degenerate (us : List ℝ) (coinFuel : ℕ) (hcf : 0 < coinFuel) (r : ℕ) :
    streamμ (Ret (pafRun (pafLogProbs (none : Option ℝ) us) coinFuel us.length (List.range us.length)) r)
      ≤ ENNReal.ofReal ((pafPmf (pafHeads (pafLogProbs (none : Option ℝ) us))).getD r 0) ∧
    ENNReal.ofReal ((pafPmf (pafHeads (pafLogProbs (none : Option ℝ) us))).getD r 0)
      ≤ streamμ (Ret (pafRun (pafLogProbs (none : Option ℝ) us) coinFuel us.length (List.range us.length)) r)
        + ENNReal.ofReal ((us.length : ℝ) * Real.exp (-(coinFuel : ℝ))) := by
  obtain ⟨_, h1, h2⟩ := pafRun_stream_law_slack (pafLogProbs none us) coinFuel (pafLogProbs_none us coinFuel hcf)
    us.length (List.range us.length) (fun i hi => by rw [pafLogProbs_length]; exact List.mem_range.mp hi) r
  have hL : pafLaw (fun i => (pafHeads (pafLogProbs (none : Option ℝ) us)).getD i 0) us.length
      (List.range us.length) r = (pafPmf (pafHeads (pafLogProbs (none : Option ℝ) us))).getD r 0 := by
    rw [pafPmf_getD, pafHeads_length, pafLaw_eq_L _ _ List.nodup_range _ (by simp), List.toFinset_range]
    simp only [List.mem_range]
  rw [hL] at h1 h2
  exact ⟨h1, h2⟩

end DPL.Discrete
