/-
C06 at the level of output LAWS: the law of a release depends on the data only through the mechanism inputs (and the
probe answers).  No assumption on the kernel family — in particular no DP assumption.

`Plan.inputsAgree D D' p`     along every path of outputs, every call receives the same input on `D` and `D'`
`lawOn_noninterference`       `inputsAgree` + `probesAgree` ⇒ `lawOn M p D S = lawOn M p D' S` for EVERY set `S`
`law_noninterference`         … ⇒ `law M p D = law M p D'` (equality of measures)
`agree_of_runs`               the forced-output formulation of C06 (same `inputs` and `probes` in the trace of every
                              forced run) gives `inputsAgree ∧ probesAgree`
compositionality (`bind`, `map`, `seq`, `forList`, `one`, `single`, `comap`) and the instances for `mean`, the
histogram plans and StandardScaler; the counter-example `lapKernel_ne` (different inputs ⇒ different Laplace laws).
-/
import DPL.Proofs.ModelsCompose3
import DPL.Proofs.ModelsFreeTools
import DPL.Proofs.ContinuousTruncLaw
import DPL.Model.PlanTools

namespace DPL
open MeasureTheory ENNReal

variable {δ δ' ρ σ ι : Type}

/-- along every path of mechanism outputs, every invocation receives the same input on `D` and on `D'`
(the path through a probe is the one `D` takes; under `probesAgree` it is also the one `D'` takes) -/
def Plan.inputsAgree (D D' : δ) : Plan δ ℝ ρ → Prop
  | .release _ => True
  | .call _ inp k => inp D = inp D' ∧ ∀ o, Plan.inputsAgree D D' (k o)
  | .probe occ k => Plan.inputsAgree D D' (k (occ D))

namespace PM

/-! ### the theorem -/

/-- **noninterference of the law, set-function form**: any kernel family, any plan, any set -/
theorem lawOn_noninterference (M : MechCall ℝ → ℝ → Measure ℝ) (p : Plan δ ℝ ρ) (D D' : δ)
    (hi : p.inputsAgree D D') (hp : p.probesAgree D D') (S : Set ρ) : p.lawOn M D S = p.lawOn M D' S := by
  induction p with
  | release r => rfl
  | call c inp k ih =>
    simp only [Plan.lawOn]
    rw [hi.1]
    exact lintegral_congr fun o => ih o (hi.2 o) (hp o)
  | probe occ k ih =>
    simp only [Plan.lawOn]
    rw [← hp.1]
    exact ih _ hi hp.2

/-- **noninterference of the law**: equality of the output MEASURES (no measurability side condition) -/
theorem law_noninterference [MeasurableSpace ρ] (M : MechCall ℝ → ℝ → Measure ℝ) (p : Plan δ ℝ ρ) (D D' : δ)
    (hi : p.inputsAgree D D') (hp : p.probesAgree D D') : p.law M D = p.law M D' := by
  induction p with
  | release r => rfl
  | call c inp k ih =>
    simp only [Plan.law]
    rw [hi.1]
    congr 1
    funext o
    exact ih o (hi.2 o) (hp o)
  | probe occ k ih =>
    simp only [Plan.law]
    rw [← hp.1]
    exact ih _ hi hp.2

/-- the law after any post-processing (no measurability needed: equal measures have equal images) -/
theorem law_map_noninterference [MeasurableSpace ρ] [MeasurableSpace σ] (M : MechCall ℝ → ℝ → Measure ℝ)
    (p : Plan δ ℝ ρ) (D D' : δ) (hi : p.inputsAgree D D') (hp : p.probesAgree D D') (f : ρ → σ) :
    (p.law M D).map f = (p.law M D').map f := by
  rw [law_noninterference M p D D' hi hp]

/-! ### from the forced-output formulation (traces) to the path formulation -/

/-- if every forced run hands the mechanisms the same inputs and sees the same probes on `D` and `D'`, then the inputs
and the probes agree along every path -/
theorem agree_of_runs (p : Plan δ ℝ ρ) (D D' : δ)
    (h : ∀ outs, (p.run D outs).inputs = (p.run D' outs).inputs ∧ (p.run D outs).probes = (p.run D' outs).probes) :
    p.inputsAgree D D' ∧ p.probesAgree D D' := by
  induction p with
  | release r => exact ⟨trivial, trivial⟩
  | call c inp k ih =>
    have hk : ∀ o, (k o).inputsAgree D D' ∧ (k o).probesAgree D D' := fun o => ih o fun os => by
      have := h (o :: os)
      simp only [Plan.run] at this
      exact ⟨(List.cons.inj this.1).2, this.2⟩
    have h0 := (h [0]).1
    simp only [Plan.run] at h0
    exact ⟨⟨(List.cons.inj h0).1, fun o => (hk o).1⟩, fun o => (hk o).2⟩
  | probe occ k ih =>
    have h0 := (h []).2
    simp only [Plan.run] at h0
    have hocc : occ D = occ D' := (List.cons.inj h0).1
    have := ih (occ D) fun os => by
      have := h os
      simp only [Plan.run] at this
      rw [← hocc] at this
      exact ⟨this.1, (List.cons.inj this.2).2⟩
    exact ⟨this.1, hocc, this.2⟩

/-- C06 for laws from the hypothesis of C06 for traces -/
theorem law_noninterference_of_runs [MeasurableSpace ρ] (M : MechCall ℝ → ℝ → Measure ℝ) (p : Plan δ ℝ ρ) (D D' : δ)
    (h : ∀ outs, (p.run D outs).inputs = (p.run D' outs).inputs ∧ (p.run D outs).probes = (p.run D' outs).probes) :
    p.law M D = p.law M D' :=
  law_noninterference M p D D' (agree_of_runs p D D' h).1 (agree_of_runs p D D' h).2

/-! ### `inputsAgree` is compositional -/

theorem inputsAgree_bind (D D' : δ) (p : Plan δ ℝ ρ) (q : ρ → Plan δ ℝ σ) (hp : p.inputsAgree D D')
    (hq : ∀ r, (q r).inputsAgree D D') : (p.bind q).inputsAgree D D' := by
  induction p with
  | release r => exact hq r
  | call c inp k ih => exact ⟨hp.1, fun o => ih o (hp.2 o)⟩
  | probe occ k ih => exact ih _ hp

theorem inputsAgree_map (D D' : δ) (p : Plan δ ℝ ρ) (f : ρ → σ) (hp : p.inputsAgree D D') :
    (p.map f).inputsAgree D D' :=
  inputsAgree_bind D D' p _ hp fun _ => trivial

theorem inputsAgree_one (D D' : δ) (c : MechCall ℝ) (inp : δ → ℝ) (h : inp D = inp D') :
    (one c inp).inputsAgree D D' := ⟨h, fun _ => trivial⟩

theorem inputsAgree_single (D D' : δ) (c : MechCall ℝ) (inp : δ → ℝ) (h : inp D = inp D') :
    (Tools.single c inp).inputsAgree D D' := ⟨h, fun _ => trivial⟩

theorem inputsAgree_forList (D D' : δ) (l : List ι) (f : ι → Plan δ ℝ σ) (h : ∀ i ∈ l, (f i).inputsAgree D D') :
    (forList l f).inputsAgree D D' := by
  induction l with
  | nil => trivial
  | cons i is ih =>
    exact inputsAgree_bind D D' _ _ (h i (by simp)) fun r =>
      inputsAgree_bind D D' _ _ (ih fun j hj => h j (by simp [hj])) fun _ => trivial

theorem inputsAgree_seq (D D' : δ) (ps : List (Plan δ ℝ ρ)) (h : ∀ p ∈ ps, p.inputsAgree D D') :
    (Plan.seq ps).inputsAgree D D' := by
  induction ps with
  | nil => trivial
  | cons p ps ih =>
    exact inputsAgree_bind D D' _ _ (h p (by simp)) fun r =>
      inputsAgree_map D D' _ _ (ih fun q hq => h q (by simp [hq]))

theorem inputsAgree_comap (f : δ' → δ) (D D' : δ') (p : Plan δ ℝ ρ) (h : p.inputsAgree (f D) (f D')) :
    (Tools.comap f p).inputsAgree D D' := by
  induction p with
  | release r => trivial
  | call c inp k ih => exact ⟨h.1, fun o => ih o (h.2 o)⟩
  | probe occ k ih => exact ih _ h

theorem inputsAgree_refl (D : δ) (p : Plan δ ℝ ρ) : p.inputsAgree D D := by
  induction p with
  | release r => trivial
  | call c inp k ih => exact ⟨rfl, ih⟩
  | probe occ k ih => exact ih _

/-! ### instances: tools -/

open Tools in
/-- `mean`: equal clipped means ⇒ equal output laws -/
theorem meanPlan_law_eq (M : MechCall ℝ → ℝ → Measure ℝ) (n : Nat) (ε l u : ℝ) (D D' : List ℝ)
    (h : mean (D.map (Tools.clip l u)) = mean (D'.map (Tools.clip l u))) :
    (meanPlan n ε l u).law M D = (meanPlan n ε l u).law M D' :=
  law_noninterference M _ D D' (inputsAgree_single D D' _ _ h)
    (probesAgree_of_probeFree D D' _ (meanPlan_probeFree n ε l u))

open Tools in
theorem histCalls_inputsAgree (edges : List (List ℝ)) (weighted : Bool) (ε maxsize : ℝ) (D D' : List (WRow ℝ))
    (h : ∀ cell ∈ cellsOf (edges.map (fun e => e.length - 1)),
      cellCount edges weighted cell D = cellCount edges weighted cell D') :
    (histCalls edges weighted ε maxsize).inputsAgree D D' := by
  unfold histCalls calls
  refine inputsAgree_seq D D' _ fun p hp => ?_
  simp only [List.map_map, List.mem_map, Function.comp] at hp
  obtain ⟨cell, hc, rfl⟩ := hp
  exact inputsAgree_single D D' _ _ (h cell hc)

open Tools in
/-- `histogramdd` / `histogram2d` (density included): equal bin counts ⇒ equal output laws -/
theorem histogramddPlan_law_eq (M : MechCall ℝ → ℝ → Measure ℝ) (edges : List (List ℝ)) (weighted density : Bool)
    (ε maxsize : ℝ) (D D' : List (WRow ℝ))
    (h : ∀ cell ∈ cellsOf (edges.map (fun e => e.length - 1)),
      cellCount edges weighted cell D = cellCount edges weighted cell D') :
    (histogramddPlan edges weighted density ε maxsize).law M D =
      (histogramddPlan edges weighted density ε maxsize).law M D' :=
  law_noninterference M _ D D' (inputsAgree_map D D' _ _ (histCalls_inputsAgree edges weighted ε maxsize D D' h))
    (probesAgree_of_probeFree D D' _ (histogramddPlan_probeFree edges weighted density ε maxsize))

open Tools in
/-- `histogram` (density included): equal bin counts ⇒ equal output laws -/
theorem histogramPlan_law_eq (M : MechCall ℝ → ℝ → Measure ℝ) (edges : List ℝ) (weighted density : Bool)
    (ε maxsize : ℝ) (D D' : List (WRow ℝ))
    (h : ∀ cell ∈ cellsOf ([edges].map (fun e => e.length - 1)),
      cellCount [edges] weighted cell D = cellCount [edges] weighted cell D') :
    (histogramPlan edges weighted density ε maxsize).law M D =
      (histogramPlan edges weighted density ε maxsize).law M D' :=
  law_noninterference M _ D D' (inputsAgree_map D D' _ _ (histCalls_inputsAgree [edges] weighted ε maxsize D D' h))
    (probesAgree_of_probeFree D D' _ (histogramPlan_probeFree edges weighted density ε maxsize))

/-! ### instance: StandardScaler -/

theorem scalerPlan_inputsAgree (p : ScalerParams ℝ) (D D' : DS ℝ)
    (hm : ∀ j, j < p.d → meanL (D.map (feat p.lo p.hi j)) = meanL (D'.map (feat p.lo p.hi j)))
    (hv : ∀ j, j < p.d → varL (D.map (feat p.lo p.hi j)) = varL (D'.map (feat p.lo p.hi j))) :
    (scalerPlan p).inputsAgree D D' := by
  unfold scalerPlan
  split
  · trivial
  · refine inputsAgree_bind D D' _ _ ?_ fun ms => ?_
    · exact inputsAgree_forList D D' _ _ fun j hj => inputsAgree_one D D' _ _ (hm j (List.mem_range.1 hj))
    · split
      · refine inputsAgree_bind D D' _ _ ?_ fun _ => trivial
        exact inputsAgree_forList D D' _ _ fun j hj => inputsAgree_one D D' _ _ (hv j (List.mem_range.1 hj))
      · trivial

/-- StandardScaler: equal clipped column means and variances ⇒ equal laws of the fitted (mean_, var_) -/
theorem scalerPlan_law_eq [MeasurableSpace (List ℝ × List ℝ)] (M : MechCall ℝ → ℝ → Measure ℝ) (p : ScalerParams ℝ)
    (D D' : DS ℝ)
    (hm : ∀ j, j < p.d → meanL (D.map (feat p.lo p.hi j)) = meanL (D'.map (feat p.lo p.hi j)))
    (hv : ∀ j, j < p.d → varL (D.map (feat p.lo p.hi j)) = varL (D'.map (feat p.lo p.hi j))) :
    (scalerPlan p).law M D = (scalerPlan p).law M D' :=
  law_noninterference M _ D D' (scalerPlan_inputsAgree p D D' hm hv)
    (probesAgree_of_probeFree D D' _ (scalerPlan_probeFree p))

/-! ### the hypothesis is needed: the Laplace family separates inputs -/

/-- mass of `(-∞, 0]` under the Laplace kernel centred at `0` is `1/2`, centred at `1` it is `exp(-ε/sens)/2 < 1/2` -/
theorem lapKernel_Iic (c : MechCall ℝ) (hc : 0 < c.eps ∧ 0 < c.sens) (a : ℝ) (ha : 0 ≤ a) :
    lapKernel c a (Set.Iic 0) = ENNReal.ofReal (Real.exp ((0 - a) / (c.sens / c.eps)) / 2) := by
  have hpos : 0 < c.sens / c.eps := div_pos hc.2 hc.1
  simp only [lapKernel, if_pos hpos]
  rw [Cont.lapMeasure_eq_ofReal _ _ hpos _ measurableSet_Iic, Cont.integral_lapDensity_Iic _ _ _ hpos ha]

theorem lapKernel_ne (c : MechCall ℝ) (hc : 0 < c.eps ∧ 0 < c.sens) :
    lapKernel c 0 (Set.Iic 0) ≠ lapKernel c 1 (Set.Iic 0) := by
  have hpos : 0 < c.sens / c.eps := div_pos hc.2 hc.1
  rw [lapKernel_Iic c hc 0 le_rfl, lapKernel_Iic c hc 1 zero_le_one]
  intro h
  have h1 : (0:ℝ) ≤ Real.exp ((0 - 0) / (c.sens / c.eps)) / 2 := by positivity
  have h2 : (0:ℝ) ≤ Real.exp ((0 - 1) / (c.sens / c.eps)) / 2 := by positivity
  have h3 := (ENNReal.ofReal_eq_ofReal_iff h1 h2).1 h
  have h4 : Real.exp ((0 - 0) / (c.sens / c.eps)) = Real.exp ((0 - 1) / (c.sens / c.eps)) := by linarith
  have h5 := Real.exp_injective h4
  have h6 : (0 - 1) / (c.sens / c.eps) < 0 := div_neg_of_neg_of_pos (by norm_num) hpos
  rw [← h5] at h6
  simp at h6

/-- **counter-example**: without `inputsAgree` the laws differ — the one-call plan on the datasets `0` and `1` -/
theorem law_noninterference_cex (c : MechCall ℝ) (hc : 0 < c.eps ∧ 0 < c.sens) :
    (one c (fun D : ℝ => D)).probesAgree 0 1 ∧ ¬ (one c (fun D : ℝ => D)).inputsAgree 0 1 ∧
    (one c (fun D : ℝ => D)).law lapKernel 0 ≠ (one c (fun D : ℝ => D)).law lapKernel 1 := by
  refine ⟨fun _ => trivial, fun h => zero_ne_one h.1, fun h => lapKernel_ne c hc ?_⟩
  have hb : ∀ a : ℝ, (one c (fun D : ℝ => D)).law lapKernel a = lapKernel c a := fun a => by
    simp only [one, Plan.law]
    exact Measure.bind_dirac
  rw [← hb 0, ← hb 1, h]

end PM
end DPL
