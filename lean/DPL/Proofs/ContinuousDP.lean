/-
Measure-theoretic lemmas for C02: from pointwise density ratios to all output sets, the (ε, δ) inequality of the
Laplace law with the coded scale, post-processing (truncation, folding), the uniform law, the staircase density.
-/
import DPL.Proofs.ContinuousCalib
import DPL.Proofs.ContinuousIntegrals
import Mathlib.MeasureTheory.Integral.Lebesgue.Basic
import Mathlib.MeasureTheory.Measure.Lebesgue.Basic
import Mathlib.MeasureTheory.Measure.WithDensity
import Mathlib.Tactic.Linarith
import Mathlib.Tactic.Positivity

namespace DPL.Cont
open MeasureTheory Real Set ENNReal

/-- pointwise density ratio ⇒ ratio on every output set, for any densities and any base measure -/
theorem set_bound_of_pointwise {μ : Measure ℝ} (f g : ℝ → ENNReal) (c : ENNReal) (hc : c ≠ ⊤)
    (h : ∀ y, f y ≤ c * g y) (S : Set ℝ) :
    ∫⁻ y in S, f y ∂μ ≤ c * ∫⁻ y in S, g y ∂μ := by
  rw [← lintegral_const_mul' c g hc]
  exact lintegral_mono h

/-- the law of `x + Laplace(b)` -/
noncomputable def lapMeasure (b x : ℝ) : Measure ℝ :=
  volume.withDensity (fun y => ENNReal.ofReal (lapDensity b x y))

theorem measurable_lapDensity (b x : ℝ) : Measurable (lapDensity b x) := by
  unfold lapDensity
  fun_prop

theorem lapMeasure_apply (b x : ℝ) (S : Set ℝ) (hS : MeasurableSet S) :
    lapMeasure b x S = ∫⁻ y in S, ENNReal.ofReal (lapDensity b x y) := by
  unfold lapMeasure
  rw [withDensity_apply _ hS]

/-- the Laplace law is a probability law -/
theorem lapMeasure_univ (b x : ℝ) (hb : 0 < b) : lapMeasure b x Set.univ = 1 := by
  rw [lapMeasure_apply _ _ _ MeasurableSet.univ, Measure.restrict_univ,
    ← ofReal_integral_eq_lintegral_ofReal (integrable_lapDensity b x hb)
      (Filter.Eventually.of_forall (fun y => lapDensity_nonneg b x y hb)),
    integral_lapDensity b x hb, ENNReal.ofReal_one]

theorem lapMeasure_le_one (b x : ℝ) (hb : 0 < b) (S : Set ℝ) : lapMeasure b x S ≤ 1 := by
  rw [← lapMeasure_univ b x hb]; exact measure_mono (Set.subset_univ S)

/-- Laplace laws with centres at most `Δ` apart: ratio `e^{Δ/b}` on every measurable set -/
theorem lapMeasure_ratio (b x x' Δ : ℝ) (hb : 0 < b) (hx : |x - x'| ≤ Δ) (S : Set ℝ) (hS : MeasurableSet S) :
    lapMeasure b x S ≤ ENNReal.ofReal (Real.exp (Δ / b)) * lapMeasure b x' S := by
  rw [lapMeasure_apply _ _ _ hS, lapMeasure_apply _ _ _ hS]
  apply set_bound_of_pointwise _ _ _ ENNReal.ofReal_ne_top
  intro y
  rw [← ENNReal.ofReal_mul (Real.exp_pos _).le]
  apply ENNReal.ofReal_le_ofReal
  unfold lapDensity
  have := laplace_ratio b x x' y Δ hb hx
  rw [← mul_div_assoc]
  exact div_le_div_of_nonneg_right this (by positivity)

/-- `(ε, δ)` from an `e^ε/(1-δ)` ratio, for measures of total mass at most one (extended non-negative reals) -/
theorem approx_of_scaled_ennreal (P P' : ENNReal) (eps delta : ℝ) (hP : P ≤ 1) (hd0 : 0 ≤ delta) (hd1 : delta < 1)
    (h : P ≤ ENNReal.ofReal (Real.exp eps / (1 - delta)) * P') :
    P ≤ ENNReal.ofReal (Real.exp eps) * P' + ENNReal.ofReal delta := by
  have h1d : 0 < 1 - delta := by linarith
  by_cases hP' : P' = ⊤
  · subst hP'
    rw [ENNReal.mul_top (by simp [Real.exp_pos])]
    simp
  · have hPfin : P ≠ ⊤ := ne_top_of_le_ne_top ENNReal.one_ne_top hP
    have hreal : P.toReal ≤ Real.exp eps / (1 - delta) * P'.toReal := by
      have := ENNReal.toReal_mono (ENNReal.mul_ne_top ENNReal.ofReal_ne_top hP') h
      rwa [ENNReal.toReal_mul, ENNReal.toReal_ofReal (by positivity)] at this
    have hP1 : P.toReal ≤ 1 := by
      have := ENNReal.toReal_mono ENNReal.one_ne_top hP
      simpa using this
    have key := approx_of_scaled P.toReal P'.toReal (Real.exp eps) delta hP1 ENNReal.toReal_nonneg
      (Real.exp_pos _) hd0 hd1 hreal
    rw [← ENNReal.ofReal_toReal hPfin]
    calc ENNReal.ofReal P.toReal ≤ ENNReal.ofReal (Real.exp eps * P'.toReal + delta) :=
          ENNReal.ofReal_le_ofReal key
      _ = ENNReal.ofReal (Real.exp eps) * P' + ENNReal.ofReal delta := by
          rw [ENNReal.ofReal_add (by positivity) hd0, ENNReal.ofReal_mul (Real.exp_pos _).le,
            ENNReal.ofReal_toReal hP']

/-- post-processing: the guarantee survives any measurable map of the output -/
theorem dp_postprocess {μ ν : Measure ℝ} (c d : ENNReal)
    (h : ∀ S, MeasurableSet S → μ S ≤ c * ν S + d) (g : ℝ → ℝ) (hg : Measurable g) :
    ∀ T, MeasurableSet T → (μ.map g) T ≤ c * (ν.map g) T + d := by
  intro T hT
  rw [Measure.map_apply hg hT, Measure.map_apply hg hT]
  exact h _ (hg hT)

/-- truncation to `[lo, hi]` (`TruncationAndFoldingMixin._truncate`) is measurable -/
theorem measurable_truncate (lo hi : ℝ) : Measurable (fun y : ℝ => max lo (min y hi)) := by
  fun_prop

/-! ### uniform -/

/-- law of `x + U(-w, w)` -/
noncomputable def unifMeasure (w x : ℝ) : Measure ℝ :=
  (ENNReal.ofReal (1 / (2 * w))) • (volume.restrict (Set.Icc (x - w) (x + w)))

/-- shifting a uniform law of half-width `w` by `0 ≤ t` moves mass at most `t / (2w)` -/
theorem unifMeasure_shift (w x t : ℝ) (hw : 0 < w) (ht : 0 ≤ t) (S : Set ℝ) (hS : MeasurableSet S) :
    unifMeasure w x S ≤ unifMeasure w (x + t) S + ENNReal.ofReal (t / (2 * w)) ∧
    unifMeasure w (x + t) S ≤ unifMeasure w x S + ENNReal.ofReal (t / (2 * w)) := by
  unfold unifMeasure
  simp only [Measure.smul_apply, smul_eq_mul, Measure.restrict_apply hS]
  have hc : ENNReal.ofReal (t / (2 * w)) = ENNReal.ofReal (1 / (2 * w)) * ENNReal.ofReal t := by
    rw [← ENNReal.ofReal_mul (by positivity)]; congr 1; field_simp
  rw [hc, ← mul_add, ← mul_add]
  constructor
  · gcongr
    have hsub : S ∩ Icc (x - w) (x + w) ⊆ (S ∩ Icc (x + t - w) (x + t + w)) ∪ Ico (x - w) (x + t - w) := by
      intro y ⟨hyS, hy1, hy2⟩
      by_cases hc : y < x + t - w
      · exact Or.inr ⟨hy1, hc⟩
      · exact Or.inl ⟨hyS, by linarith [not_lt.mp hc], by linarith⟩
    calc volume (S ∩ Icc (x - w) (x + w))
        ≤ volume ((S ∩ Icc (x + t - w) (x + t + w)) ∪ Ico (x - w) (x + t - w)) := measure_mono hsub
      _ ≤ volume (S ∩ Icc (x + t - w) (x + t + w)) + volume (Ico (x - w) (x + t - w)) := measure_union_le _ _
      _ = volume (S ∩ Icc (x + t - w) (x + t + w)) + ENNReal.ofReal t := by
          rw [Real.volume_Ico]; congr 2; ring
  · gcongr
    have hsub : S ∩ Icc (x + t - w) (x + t + w) ⊆ (S ∩ Icc (x - w) (x + w)) ∪ Ioc (x + w) (x + t + w) := by
      intro y ⟨hyS, hy1, hy2⟩
      by_cases hc : y ≤ x + w
      · exact Or.inl ⟨hyS, by linarith, hc⟩
      · exact Or.inr ⟨not_le.mp hc, hy2⟩
    calc volume (S ∩ Icc (x + t - w) (x + t + w))
        ≤ volume ((S ∩ Icc (x - w) (x + w)) ∪ Ioc (x + w) (x + t + w)) := measure_mono hsub
      _ ≤ volume (S ∩ Icc (x - w) (x + w)) + volume (Ioc (x + w) (x + t + w)) := measure_union_le _ _
      _ = volume (S ∩ Icc (x - w) (x + w)) + ENNReal.ofReal t := by
          rw [Real.volume_Ioc]; congr 2; ring

/-! ### staircase -/

/-- the staircase density (Geng–Viswanath) in the form the sampler realises: level `⌊|z| + 1 - γ⌋` on the scale of the
sensitivity, height `a · e^{-ε · level}` -/
noncomputable def stairLevel (gamma z : ℝ) : ℤ := ⌊|z| + (1 - gamma)⌋

noncomputable def stairDensity (a eps gamma sens x y : ℝ) : ℝ :=
  a * Real.exp (-eps * (stairLevel gamma ((y - x) / sens) : ℝ))

/-- moving the centre by at most one sensitivity raises the level by at most one -/
theorem stairLevel_shift (gamma sens x x' y : ℝ) (hs : 0 < sens) (hx : |x - x'| ≤ sens) :
    stairLevel gamma ((y - x') / sens) ≤ stairLevel gamma ((y - x) / sens) + 1 := by
  unfold stairLevel
  rw [← Int.floor_add_one]
  apply Int.floor_le_floor
  have h1 : |y - x'| ≤ |y - x| + |x - x'| := by
    have := abs_sub_le y x x'; linarith
  rw [abs_div, abs_div, abs_of_pos hs]
  have : |y - x'| / sens ≤ |y - x| / sens + 1 := by
    rw [div_add_one hs.ne']
    exact div_le_div_of_nonneg_right (by linarith) hs.le
  linarith

/-- pointwise ratio of the staircase density: `≤ e^ε` for centres at most `sens` apart, every `γ` -/
theorem stairDensity_ratio (a eps gamma sens x x' y : ℝ) (ha : 0 ≤ a) (he : 0 ≤ eps) (hs : 0 < sens)
    (hx : |x - x'| ≤ sens) :
    stairDensity a eps gamma sens x y ≤ Real.exp eps * stairDensity a eps gamma sens x' y := by
  unfold stairDensity
  have hl := stairLevel_shift gamma sens x x' y hs hx
  have hl' : (stairLevel gamma ((y - x') / sens) : ℝ) ≤ (stairLevel gamma ((y - x) / sens) : ℝ) + 1 := by
    exact_mod_cast hl
  rw [mul_left_comm, ← Real.exp_add]
  apply mul_le_mul_of_nonneg_left _ ha
  apply Real.exp_le_exp.mpr
  nlinarith

end DPL.Cont
