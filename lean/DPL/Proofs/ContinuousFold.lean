/-
The folding map of `LaplaceFolded` over ℝ (C19, C12): reflection of the real line into `[l, u]`, i.e. the triangle wave
of period `2 (u - l)`.  Closed definition, its characterisation on every piece `[l + k w, l + (k + 1) w]`, range,
symmetries, measurability.
-/
import Mathlib.Algebra.Order.Floor.Ring
import Mathlib.Algebra.Order.Archimedean.Real.Basic
import Mathlib.MeasureTheory.Function.Floor
import Mathlib.MeasureTheory.Constructions.BorelSpace.Order
import Mathlib.MeasureTheory.Constructions.BorelSpace.Real
import Mathlib.Tactic.FieldSimp
import Mathlib.Tactic.Ring
import Mathlib.Tactic.Linarith
import Mathlib.Tactic.Positivity

namespace DPL.Cont
open Set

/-- reflection of the real line into `[l, u]`: triangle wave of period `2 (u - l)` -/
noncomputable def foldMap (l u y : ℝ) : ℝ :=
  l + ((u - l) - |((y - l) - 2 * (u - l) * ⌊(y - l) / (2 * (u - l))⌋) - (u - l)|)

/-- the period is `2 (u - l)` -/
theorem foldMap_add_period (l u y : ℝ) (hlu : l < u) (n : ℤ) :
    foldMap l u (y + n * (2 * (u - l))) = foldMap l u y := by
  unfold foldMap
  have hw : 2 * (u - l) ≠ 0 := by
    have : 0 < u - l := sub_pos.mpr hlu
    positivity
  have e : (y + n * (2 * (u - l)) - l) / (2 * (u - l)) = (y - l) / (2 * (u - l)) + n := by
    rw [div_add' _ _ _ hw]
    congr 1
    ring
  rw [e, Int.floor_add_intCast]
  push_cast
  congr 3
  ring

theorem foldMap_sub_period (l u y : ℝ) (hlu : l < u) (n : ℤ) :
    foldMap l u (y - n * (2 * (u - l))) = foldMap l u y := by
  have := foldMap_add_period l u y hlu (-n)
  rw [← this]
  congr 1
  push_cast
  ring

/-- one full period: on `[l, l + 2 (u - l)]` the map is `y ↦ u - |y - u|` -/
theorem foldMap_base (l u y : ℝ) (hlu : l < u) (h1 : l ≤ y) (h2 : y ≤ l + 2 * (u - l)) :
    foldMap l u y = u - |y - u| := by
  unfold foldMap
  have hw : 0 < u - l := sub_pos.mpr hlu
  have hw2 : 0 < 2 * (u - l) := by positivity
  rcases eq_or_lt_of_le h2 with h2 | h2
  · have e : (y - l) / (2 * (u - l)) = 1 := by
      rw [h2]
      field_simp
      ring
    rw [e]
    simp only [Int.floor_one, Int.cast_one, mul_one]
    rw [h2]
    have a1 : l + 2 * (u - l) - l - 2 * (u - l) - (u - l) = -(u - l) := by ring
    have a2 : l + 2 * (u - l) - u = u - l := by ring
    rw [a1, a2, abs_neg]
    ring
  · have e : ⌊(y - l) / (2 * (u - l))⌋ = 0 := by
      rw [Int.floor_eq_iff]
      constructor
      · simp only [Int.cast_zero]
        apply div_nonneg <;> linarith
      · simp only [Int.cast_zero, zero_add]
        rw [div_lt_one hw2]
        linarith
    rw [e]
    simp only [Int.cast_zero, mul_zero, sub_zero]
    have a1 : y - l - (u - l) = y - u := by ring
    rw [a1]
    ring

/-- the map is the identity on `[l, u]` -/
theorem foldMap_id (l u y : ℝ) (hlu : l < u) (h1 : l ≤ y) (h2 : y ≤ u) : foldMap l u y = y := by
  rw [foldMap_base l u y hlu h1 (by linarith), abs_of_nonpos (by linarith)]
  ring

/-- on the next piece `[u, u + (u - l)]` it is the reflection about `u` -/
theorem foldMap_refl_piece (l u y : ℝ) (hlu : l < u) (h1 : u ≤ y) (h2 : y ≤ u + (u - l)) :
    foldMap l u y = 2 * u - y := by
  rw [foldMap_base l u y hlu (by linarith) (by linarith), abs_of_nonneg (by linarith)]
  ring

/-- characterisation on an even piece: translation -/
theorem foldMap_even (l u y : ℝ) (hlu : l < u) (k : ℤ) (hk : Even k)
    (h1 : l + k * (u - l) ≤ y) (h2 : y ≤ l + (k + 1) * (u - l)) :
    foldMap l u y = y - k * (u - l) := by
  obtain ⟨n, rfl⟩ := hk
  push_cast at h1 h2 ⊢
  have e : y = (y - (n + n) * (u - l)) + n * (2 * (u - l)) := by ring
  rw [e, foldMap_add_period l u _ hlu n, foldMap_id l u _ hlu (by linarith) (by linarith)]
  ring

/-- characterisation on an odd piece: reflection -/
theorem foldMap_odd (l u y : ℝ) (hlu : l < u) (k : ℤ) (hk : Odd k)
    (h1 : l + k * (u - l) ≤ y) (h2 : y ≤ l + (k + 1) * (u - l)) :
    foldMap l u y = 2 * l + (k + 1) * (u - l) - y := by
  obtain ⟨n, rfl⟩ := hk
  push_cast at h1 h2 ⊢
  have e : y = (y - 2 * n * (u - l)) + n * (2 * (u - l)) := by ring
  rw [e, foldMap_add_period l u _ hlu n, foldMap_refl_piece l u _ hlu (by linarith) (by linarith)]
  ring

/-- the output is in `[l, u]` -/
theorem foldMap_mem (l u y : ℝ) (hlu : l < u) : l ≤ foldMap l u y ∧ foldMap l u y ≤ u := by
  have hw : 0 < u - l := sub_pos.mpr hlu
  have hw2 : 0 < 2 * (u - l) := by positivity
  set n : ℤ := ⌊(y - l) / (2 * (u - l))⌋ with hn
  have hfl : (n : ℝ) ≤ (y - l) / (2 * (u - l)) := Int.floor_le _
  have hfl2 : (y - l) / (2 * (u - l)) < n + 1 := Int.lt_floor_add_one _
  rw [le_div_iff₀ hw2] at hfl
  rw [div_lt_iff₀ hw2] at hfl2
  rw [← foldMap_sub_period l u y hlu n]
  rw [foldMap_base l u _ hlu (by linarith) (by linarith)]
  constructor
  · have : |y - n * (2 * (u - l)) - u| ≤ u - l := by
      rw [abs_le]
      constructor <;> linarith
    linarith
  · linarith [abs_nonneg (y - n * (2 * (u - l)) - u)]

theorem abs_foldMap_le (l u y : ℝ) (hlu : l < u) : |foldMap l u y| ≤ max |l| |u| := by
  obtain ⟨h1, h2⟩ := foldMap_mem l u y hlu
  rw [abs_le]
  constructor
  · have := neg_abs_le l
    have := le_max_left |l| |u|
    linarith
  · have := le_abs_self u
    have := le_max_right |l| |u|
    linarith

/-- symmetry about the upper end point -/
theorem foldMap_refl_upper (l u y : ℝ) (hlu : l < u) : foldMap l u (2 * u - y) = foldMap l u y := by
  have hw : 0 < u - l := sub_pos.mpr hlu
  have hw2 : 0 < 2 * (u - l) := by positivity
  set n : ℤ := ⌊(y - l) / (2 * (u - l))⌋ with hn
  have hfl : (n : ℝ) ≤ (y - l) / (2 * (u - l)) := Int.floor_le _
  have hfl2 : (y - l) / (2 * (u - l)) < n + 1 := Int.lt_floor_add_one _
  rw [le_div_iff₀ hw2] at hfl
  rw [div_lt_iff₀ hw2] at hfl2
  rw [← foldMap_sub_period l u y hlu n]
  have e : 2 * u - y = (2 * u - (y - n * (2 * (u - l)))) + ((-n : ℤ) : ℝ) * (2 * (u - l)) := by
    push_cast
    ring
  rw [e, foldMap_add_period l u _ hlu]
  rw [foldMap_base l u _ hlu (by linarith) (by linarith), foldMap_base l u _ hlu (by linarith) (by linarith)]
  rw [abs_sub_comm]
  congr 2
  ring

/-- symmetry about the lower end point -/
theorem foldMap_refl_lower (l u y : ℝ) (hlu : l < u) : foldMap l u (2 * l - y) = foldMap l u y := by
  have e : 2 * l - y = (2 * u - y) - ((1 : ℤ) : ℝ) * (2 * (u - l)) := by push_cast; ring
  rw [e, foldMap_sub_period l u _ hlu, foldMap_refl_upper l u y hlu]

theorem measurable_foldMap (l u : ℝ) : Measurable (foldMap l u) := by
  unfold foldMap
  have h1 : Measurable (fun y : ℝ => ((⌊(y - l) / (2 * (u - l))⌋ : ℤ) : ℝ)) := by
    have : Measurable (fun y : ℝ => (y - l) / (2 * (u - l))) := by fun_prop
    exact (measurable_from_top (f := fun z : ℤ => (z : ℝ))).comp (Int.measurable_floor.comp this)
  fun_prop

end DPL.Cont
