/-
Adaptive composition of pure differential privacy, measure-theoretically (C08, the semantic step).

`lintegral_le_of_set_bound`: a set-wise bound `μ S ≤ c · μ′ S` lifts to every lower Lebesgue integral.
`adaptive_composition_pure`: ε₁-close first stage + ε₂-close kernels ⇒ (ε₁+ε₂)-close JOINT law (`μ ⊗ₘ κ`);
`adaptive_composition_bind`: the same for the marginal of the second stage (`μ.bind κ`, post-processing);
`adaptive_composition_list`: n-fold, by induction over a list of (ε, κ, κ′) — the ε's add up.
-/
import Mathlib.Probability.Kernel.Composition.MeasureCompProd
import Mathlib.MeasureTheory.Measure.GiryMonad
import Mathlib.Analysis.SpecialFunctions.Exp

namespace DPL
namespace Compose
open MeasureTheory ProbabilityTheory ENNReal

variable {Y Z : Type*} [MeasurableSpace Y] [MeasurableSpace Z]

/-- `μ` is within factor `c` of `μ′` on every measurable set -/
def SetBound (c : ℝ≥0∞) (μ μ' : Measure Y) : Prop := ∀ S, MeasurableSet S → μ S ≤ c * μ' S

theorem setBound_iff_le (c : ℝ≥0∞) (μ μ' : Measure Y) : SetBound c μ μ' ↔ μ ≤ c • μ' := by
  rw [Measure.le_iff]; rfl

/-- **key lemma**: a set-wise bound lifts to integrals — of ANY function (lower integral), no measurability needed -/
theorem lintegral_le_of_set_bound {c : ℝ≥0∞} {μ μ' : Measure Y} (h : SetBound c μ μ') (f : Y → ℝ≥0∞) :
    ∫⁻ y, f y ∂μ ≤ c * ∫⁻ y, f y ∂μ' := by
  have := lintegral_mono' ((setBound_iff_le c μ μ').1 h) (le_refl f)
  rwa [lintegral_smul_measure, smul_eq_mul] at this

/-- pointwise bound on the integrand and set-wise bound on the measure multiply -/
theorem lintegral_le_of_bounds {c₁ c₂ : ℝ≥0∞} (hc₂ : c₂ ≠ ∞) {μ μ' : Measure Y} (h : SetBound c₁ μ μ')
    (f g : Y → ℝ≥0∞) (hfg : ∀ y, f y ≤ c₂ * g y) :
    ∫⁻ y, f y ∂μ ≤ c₁ * c₂ * ∫⁻ y, g y ∂μ' := by
  calc ∫⁻ y, f y ∂μ ≤ ∫⁻ y, c₂ * g y ∂μ := lintegral_mono hfg
    _ = c₂ * ∫⁻ y, g y ∂μ := lintegral_const_mul' c₂ g hc₂
    _ ≤ c₂ * (c₁ * ∫⁻ y, g y ∂μ') := by gcongr; exact lintegral_le_of_set_bound h g
    _ = c₁ * c₂ * ∫⁻ y, g y ∂μ' := by ring

theorem ofReal_exp_add (a b : ℝ) :
    ENNReal.ofReal (Real.exp (a + b)) = ENNReal.ofReal (Real.exp a) * ENNReal.ofReal (Real.exp b) := by
  rw [Real.exp_add, ENNReal.ofReal_mul (Real.exp_pos a).le]

/-- **adaptive composition, joint law**: the second mechanism sees the first one's output -/
theorem adaptive_composition_pure (μ μ' : Measure Y) [SFinite μ] [SFinite μ'] (κ κ' : Kernel Y Z)
    [IsSFiniteKernel κ] [IsSFiniteKernel κ'] (ε₁ ε₂ : ℝ)
    (hμ : ∀ S, MeasurableSet S → μ S ≤ ENNReal.ofReal (Real.exp ε₁) * μ' S)
    (hκ : ∀ y S, MeasurableSet S → κ y S ≤ ENNReal.ofReal (Real.exp ε₂) * κ' y S)
    (S : Set (Y × Z)) (hS : MeasurableSet S) :
    (μ ⊗ₘ κ) S ≤ ENNReal.ofReal (Real.exp (ε₁ + ε₂)) * (μ' ⊗ₘ κ') S := by
  rw [Measure.compProd_apply hS, Measure.compProd_apply hS, ofReal_exp_add]
  exact lintegral_le_of_bounds ofReal_ne_top hμ _ _ (fun y => hκ y _ (measurable_prodMk_left hS))

/-- **adaptive composition, released marginal** (`Measure.bind`): only the second output is kept -/
theorem adaptive_composition_bind (μ μ' : Measure Y) (κ κ' : Kernel Y Z) (ε₁ ε₂ : ℝ)
    (hμ : ∀ S, MeasurableSet S → μ S ≤ ENNReal.ofReal (Real.exp ε₁) * μ' S)
    (hκ : ∀ y S, MeasurableSet S → κ y S ≤ ENNReal.ofReal (Real.exp ε₂) * κ' y S)
    (T : Set Z) (hT : MeasurableSet T) :
    (μ.bind κ) T ≤ ENNReal.ofReal (Real.exp (ε₁ + ε₂)) * (μ'.bind κ') T := by
  rw [Measure.bind_apply hT κ.measurable.aemeasurable, Measure.bind_apply hT κ'.measurable.aemeasurable,
    ofReal_exp_add]
  exact lintegral_le_of_bounds ofReal_ne_top hμ _ _ (fun y => hκ y T hT)

/-- … for measurable families of measures that are not packaged as kernels -/
theorem adaptive_composition_bind' (μ μ' : Measure Y) (κ κ' : Y → Measure Z) (hm : Measurable κ)
    (hm' : Measurable κ') (ε₁ ε₂ : ℝ)
    (hμ : ∀ S, MeasurableSet S → μ S ≤ ENNReal.ofReal (Real.exp ε₁) * μ' S)
    (hκ : ∀ y S, MeasurableSet S → κ y S ≤ ENNReal.ofReal (Real.exp ε₂) * κ' y S)
    (T : Set Z) (hT : MeasurableSet T) :
    (μ.bind κ) T ≤ ENNReal.ofReal (Real.exp (ε₁ + ε₂)) * (μ'.bind κ') T := by
  rw [Measure.bind_apply hT hm.aemeasurable, Measure.bind_apply hT hm'.aemeasurable, ofReal_exp_add]
  exact lintegral_le_of_bounds ofReal_ne_top hμ _ _ (fun y => hκ y T hT)

/-! ### n-fold -/

/-- push a start law through a list of stages; each stage is a kernel on the state space `Y` (take `Y` = the history
of outputs so far to model full adaptivity) -/
noncomputable def iter (sel : ℝ × Kernel Y Y × Kernel Y Y → Kernel Y Y) :
    Measure Y → List (ℝ × Kernel Y Y × Kernel Y Y) → Measure Y
  | μ, [] => μ
  | μ, t :: ts => iter sel (μ.bind (sel t)) ts

/-- **n-fold adaptive composition**: stage `i` is `εᵢ`-close ⇒ the final laws are `(ε₀ + Σ εᵢ)`-close -/
theorem adaptive_composition_list (l : List (ℝ × Kernel Y Y × Kernel Y Y))
    (hl : ∀ t ∈ l, ∀ y S, MeasurableSet S → t.2.1 y S ≤ ENNReal.ofReal (Real.exp t.1) * t.2.2 y S)
    (μ μ' : Measure Y) (ε₀ : ℝ) (hμ : ∀ S, MeasurableSet S → μ S ≤ ENNReal.ofReal (Real.exp ε₀) * μ' S)
    (S : Set Y) (hS : MeasurableSet S) :
    iter (fun t => t.2.1) μ l S ≤
      ENNReal.ofReal (Real.exp (ε₀ + (l.map Prod.fst).sum)) * iter (fun t => t.2.2) μ' l S := by
  induction l generalizing μ μ' ε₀ with
  | nil => simpa [iter] using hμ S hS
  | cons t ts ih =>
    simp only [iter, List.map_cons, List.sum_cons, ← add_assoc]
    refine ih (fun u hu => hl u (by simp [hu])) _ _ _ (fun T hT => ?_)
    exact adaptive_composition_bind μ μ' t.2.1 t.2.2 ε₀ t.1 hμ (hl t (by simp)) T hT

end Compose
end DPL
