/-
C03: a calculus of LAWS of stream samplers (functions of a finite prefix of the i.i.d. uniform stream that return a
result and the unread rest, `DPL/Proofs/DiscreteStream.lean`).

`HasLaw f w`: whatever continuation `K` follows `f`, `P[(f >>= K) returns c] = Σ_b w b · P[K b returns c]` — the result
of `f` has the (sub-probability) weights `w` AND what follows sees a fresh, independent stream (the renewal property at
the random position where `f` stops reading).  Closed under sequential composition (`HasLaw.bind`), holds for `retS`,
for a sampler that always fails, for one comparison of one uniform (`readBit`) and — from C01's `bernNegExp_bind_law` —
for `bernoulli_neg_exp`.  `Sub f f'`: wherever `f` returns, `f'` returns the same (used for "the model with its fuel is
a restriction of the unbounded loop").
-/
import DPL.Proofs.DiscreteStreamBern

namespace DPL.SmpS
open MeasureTheory Set DPL.Discrete
open scoped ENNReal

/-- a stream sampler: reads a prefix of the list of uniforms, returns a result and the unread rest -/
abbrev Sampler (β : Type) := List ℝ → Except DErr (β × List ℝ)

/-- `f` returns `b` with weight `w b`, independently of whatever reads the rest of the stream -/
def HasLaw {β : Type} (f : Sampler β) (w : β → ℝ≥0∞) : Prop :=
  ∀ ⦃γ : Type⦄ (K : β → Sampler γ) (c : γ), (∀ b, MeasurableSet (Ret (K b) c)) →
    MeasurableSet (Ret (bindS f K) c) ∧ streamμ (Ret (bindS f K) c) = ∑' b, w b * streamμ (Ret (K b) c)

/-- the weights are the probabilities of the return events -/
theorem HasLaw.ret {β : Type} {f : Sampler β} {w : β → ℝ≥0∞} (h : HasLaw f w) (b : β) :
    MeasurableSet (Ret f b) ∧ streamμ (Ret f b) = w b := by
  classical
  have := h retS b (fun b' => Ret_retS_measurable b' b)
  rw [bindS_retS] at this
  refine ⟨this.1, ?_⟩
  rw [this.2, tsum_eq_single b]
  · rw [Ret_retS, if_pos rfl]; simp
  · intro b' hb'; rw [Ret_retS, if_neg hb']; simp

theorem HasLaw.congr {β : Type} {f : Sampler β} {w w' : β → ℝ≥0∞} (h : HasLaw f w) (hw : ∀ b, w b = w' b) :
    HasLaw f w' := by
  have : w = w' := funext hw
  rw [← this]; exact h

/-- **sequential composition** -/
theorem HasLaw.bind {β δ : Type} {f : Sampler β} {w : β → ℝ≥0∞} {g : β → Sampler δ} {v : β → δ → ℝ≥0∞}
    (hf : HasLaw f w) (hg : ∀ b, HasLaw (g b) (v b)) :
    HasLaw (bindS f g) (fun d => ∑' b, w b * v b d) := by
  intro γ K c hK
  rw [bindS_assoc]
  have hm : ∀ b, MeasurableSet (Ret (bindS (g b) K) c) := fun b => (hg b K c hK).1
  obtain ⟨h1, h2⟩ := hf (fun b => bindS (g b) K) c hm
  refine ⟨h1, ?_⟩
  rw [h2]
  have : ∀ b, w b * streamμ (Ret (bindS (g b) K) c) = ∑' d, w b * v b d * streamμ (Ret (K d) c) := by
    intro b
    rw [(hg b K c hK).2, ← ENNReal.tsum_mul_left]
    apply tsum_congr; intro d; rw [mul_assoc]
  simp_rw [this]
  rw [ENNReal.tsum_comm]
  apply tsum_congr; intro d
  rw [ENNReal.tsum_mul_right]

theorem bindS_retS_left {β γ : Type} (b : β) (K : β → Sampler γ) : bindS (retS b) K = K b := by
  funext l; rfl

theorem HasLaw.retS {β : Type} [DecidableEq β] (b : β) : HasLaw (retS b) (fun b' => if b' = b then 1 else 0) := by
  intro γ K c hK
  rw [bindS_retS_left]
  refine ⟨hK b, ?_⟩
  rw [tsum_eq_single b]
  · simp
  · intro b' hb'; simp [hb']

theorem bindS_error {β γ : Type} (e : DErr) (K : β → Sampler γ) :
    bindS (fun _ => (.error e : Except DErr (β × List ℝ))) K = fun _ => .error e := by
  funext l; rfl

theorem HasLaw.error {β : Type} (e : DErr) : HasLaw (fun _ => (.error e : Except DErr (β × List ℝ))) (fun _ => 0) := by
  intro γ K c hK
  rw [bindS_error, Ret_error]
  simp

/-- a sampler "has a law" (its return is independent of its continuation) -/
def IsLaw {β : Type} (f : Sampler β) : Prop := ∃ w, HasLaw f w

theorem IsLaw.hasLaw {β : Type} {f : Sampler β} (h : IsLaw f) : HasLaw f (fun b => streamμ (Ret f b)) := by
  obtain ⟨w, hw⟩ := h
  exact hw.congr (fun b => (hw.ret b).2.symm)

theorem IsLaw.measurable {β : Type} {f : Sampler β} (h : IsLaw f) (b : β) : MeasurableSet (Ret f b) := by
  obtain ⟨w, hw⟩ := h
  exact (hw.ret b).1

theorem IsLaw.bind {β δ : Type} {f : Sampler β} {g : β → Sampler δ} (hf : IsLaw f) (hg : ∀ b, IsLaw (g b)) :
    IsLaw (bindS f g) := by
  obtain ⟨w, hw⟩ := hf
  exact ⟨_, hw.bind (fun b => (hg b).hasLaw)⟩

theorem IsLaw.retS {β : Type} (b : β) : IsLaw (retS b) := by
  classical
  exact ⟨_, HasLaw.retS b⟩

theorem IsLaw.error {β : Type} (e : DErr) : IsLaw (fun _ => (.error e : Except DErr (β × List ℝ))) :=
  ⟨_, HasLaw.error e⟩

/-- the applied form: law of a composition, with the canonical weights -/
theorem IsLaw.bind_apply {β γ : Type} {f : Sampler β} (hf : IsLaw f) (K : β → Sampler γ) (hK : ∀ b, IsLaw (K b))
    (c : γ) :
    streamμ (Ret (bindS f K) c) = ∑' b, streamμ (Ret f b) * streamμ (Ret (K b) c) :=
  (hf.hasLaw K c (fun b => (hK b).measurable c)).2

/-! ### refinement -/

/-- wherever `f` returns, `f'` returns the same -/
def Sub {β : Type} (f f' : Sampler β) : Prop := ∀ l b rest, f l = .ok (b, rest) → f' l = .ok (b, rest)

theorem Sub.refl {β : Type} (f : Sampler β) : Sub f f := fun _ _ _ h => h

theorem Sub.trans {β : Type} {f g h : Sampler β} (h1 : Sub f g) (h2 : Sub g h) : Sub f h :=
  fun l b rest hh => h2 l b rest (h1 l b rest hh)

theorem Sub.ret_subset {β : Type} {f f' : Sampler β} (h : Sub f f') (b : β) : Ret f b ⊆ Ret f' b := by
  rintro ω ⟨N, rest, hr⟩
  exact ⟨N, rest, h _ _ _ hr⟩

theorem Sub.bindS {β γ : Type} {f f' : Sampler β} {K K' : β → Sampler γ} (hf : Sub f f') (hK : ∀ b, Sub (K b) (K' b)) :
    Sub (bindS f K) (bindS f' K') := by
  intro l c rest h
  unfold Discrete.bindS at h ⊢
  cases hfl : f l with
  | error e => rw [hfl] at h; cases h
  | ok p =>
    obtain ⟨b, r1⟩ := p
    rw [hfl] at h
    rw [hf l b r1 hfl]
    exact hK b r1 c rest h

theorem Sub.error_left {β : Type} (e : DErr) (f : Sampler β) : Sub (fun _ => .error e) f := by
  intro l b rest h; cases h

/-! ### one comparison of one uniform: `rng.random() < 0.5` -/

/-- read one uniform `u`, return `u < 1/2` -/
noncomputable def readBit : Sampler Bool
  | [] => .error .exhausted
  | u :: us => .ok (decide (u < 1 / 2), us)

def bitBox (b : Bool) (_ : ℕ) : Set ℝ := if b then Iio (1 / 2) else Ici (1 / 2)

theorem readBit_spec : BoxSpec readBit (fun _ : Bool => 1) id bitBox := by
  intro l b rest
  cases l with
  | nil =>
    simp only [readBit, List.length_nil, reduceCtorEq, false_iff]
    rintro ⟨π, h, _⟩; omega
  | cons u us =>
    simp only [readBit, Except.ok.injEq, Prod.mk.injEq, List.length_cons, id]
    constructor
    · rintro ⟨h1, h2⟩
      refine ⟨b, by omega, fun i hi hi1 => ?_, rfl, by simp [h2]⟩
      have : i = 0 := by omega
      subst this
      simp only [List.getElem_cons_zero, bitBox]
      subst h1
      by_cases hu : u < 1 / 2
      · rw [decide_eq_true hu, if_pos rfl]; exact hu
      · rw [decide_eq_false hu, if_neg (by simp)]; exact not_lt.mp hu
    · rintro ⟨π, _, hbox, hπ, hrest⟩
      subst hπ
      have := hbox 0 (by omega) (by omega)
      simp only [List.getElem_cons_zero, bitBox] at this
      refine ⟨?_, by simp [hrest]⟩
      cases π
      · rw [if_neg (by simp)] at this
        exact decide_eq_false (not_lt.mpr this)
      · rw [if_pos rfl] at this
        exact decide_eq_true this

theorem unif01_Iio_half : unif01 (Iio (1 / 2 : ℝ)) = ENNReal.ofReal (1 / 2) := by
  rw [unif01_apply]
  have : {u : ℝ | u ∈ Ico (0:ℝ) 1 ∧ u ∈ Iio (1 / 2 : ℝ)} = Ico 0 (1 / 2) := by
    ext u
    simp only [mem_ofPred_eq, mem_Ico, mem_Iio]
    constructor
    · rintro ⟨⟨a, _⟩, b⟩; exact ⟨a, b⟩
    · rintro ⟨a, b⟩; exact ⟨⟨a, by linarith⟩, b⟩
  rw [this, Real.volume_Ico, sub_zero]

theorem unif01_Ici_half : unif01 (Ici (1 / 2 : ℝ)) = ENNReal.ofReal (1 / 2) := by
  have : Ici (1 / 2 : ℝ) = (Iio (1 / 2 : ℝ))ᶜ := by ext u; simp
  rw [this, prob_compl_eq_one_sub measurableSet_Iio, unif01_Iio_half, ← ENNReal.ofReal_one,
    ← ENNReal.ofReal_sub _ (by norm_num)]
  norm_num

/-- the sign draw is a fair coin, independent of what follows -/
theorem readBit_hasLaw : HasLaw readBit (fun _ => ENNReal.ofReal (1 / 2)) := by
  intro γ K c hK
  have hdisj : Pairwise (Function.onFun Disjoint (fun π : Bool => Set.pi (Finset.range 1 : Set ℕ) (bitBox π))) := by
    intro a b hab
    rw [Function.onFun, Set.disjoint_left]
    intro ω h1 h2
    have a1 := h1 0 (by simp)
    have a2 := h2 0 (by simp)
    cases a <;> cases b <;> simp_all [bitBox]
    · linarith
    · linarith
  obtain ⟨hm, hμ⟩ := bind_law readBit K (fun _ : Bool => 1) id bitBox readBit_spec (by
      intro π i; unfold bitBox; split_ifs
      · exact measurableSet_Iio
      · exact measurableSet_Ici) hdisj c (fun π => hK π)
  refine ⟨hm, ?_⟩
  rw [hμ]
  apply tsum_congr
  intro b
  simp only [Finset.prod_range_one, id]
  cases b
  · simp only [bitBox, Bool.false_eq_true, if_false, unif01_Ici_half]
  · simp only [bitBox, if_true, unif01_Iio_half]

theorem readBit_isLaw : IsLaw readBit := ⟨_, readBit_hasLaw⟩

/-! ### `bernoulli_neg_exp` -/

/-- the law of the coin -/
noncomputable def bw (γ : ℝ) (b : Bool) : ℝ≥0∞ :=
  if b then ENNReal.ofReal (Real.exp (-γ)) else ENNReal.ofReal (1 - Real.exp (-γ))

theorem bernNegExp_hasLaw (fuel : ℕ) (γ : ℝ) (h0 : 0 ≤ γ) (hf : γ < fuel) :
    HasLaw (Discrete.bernNegExp fuel γ) (bw γ) := by
  intro β K c hK
  obtain ⟨hm, hμ⟩ := bernNegExp_bind_law fuel γ h0 hf K c hK
  refine ⟨hm, ?_⟩
  rw [hμ, tsum_bool]
  simp only [bw, Bool.false_eq_true, if_false, if_true]
  rw [add_comm]

/-- `bernoulli_neg_exp(γ)` with enough fuel for its outer loop (which needs `⌈γ⌉` rounds) -/
noncomputable def bernI (γ : ℝ) : Sampler Bool := Discrete.bernNegExp (⌊γ⌋₊ + 1) γ

theorem bernI_hasLaw (γ : ℝ) (h0 : 0 ≤ γ) : HasLaw (bernI γ) (bw γ) :=
  bernNegExp_hasLaw _ γ h0 (by push_cast; exact Nat.lt_floor_add_one γ)

theorem bernI_isLaw (γ : ℝ) (h0 : 0 ≤ γ) : IsLaw (bernI γ) := ⟨_, bernI_hasLaw γ h0⟩

theorem bw_total (γ : ℝ) (h0 : 0 ≤ γ) : bw γ true + bw γ false = 1 := by
  simp only [bw, if_true, Bool.false_eq_true, if_false]
  rw [← ENNReal.ofReal_add (Real.exp_pos _).le (by
    have : Real.exp (-γ) ≤ 1 := Real.exp_le_one_iff.mpr (by linarith)
    linarith)]
  simp

end DPL.SmpS
