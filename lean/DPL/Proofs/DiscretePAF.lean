/-
Permute-and-flip (C01): the law of the sampler's own branching recursion (`pafLaw`, the model function) equals the
closed Finset recursion `PAF.L p S r = p r * PAF.I p (S.erase r)`, and the differential-privacy inequality for that
law, stated on the model functions `pafPmf ∘ pafHeads ∘ pafLogProbs` at the carrier ℝ.

`namespace PAF` is the mathematical core (no integrals, no measure theory): `I`, the total-probability identity
`T_eq`, the scaling lemma `I_scale`, antitonicity `I_anti` and `pf_core`.
-/
import DPL.Proofs.DiscreteBasic
import Mathlib.Algebra.BigOperators.Field
import Mathlib.Algebra.Order.BigOperators.Ring.Finset
import Mathlib.Data.Finset.Card
import Mathlib.Data.List.GetD
import Mathlib.Order.Interval.Finset.Nat
import Mathlib.Tactic.Ring
import Mathlib.Tactic.Linarith
import Mathlib.Tactic.Positivity
import Mathlib.Tactic.FieldSimp
import Mathlib.Tactic.GCongr

namespace DPL.Discrete

namespace PAF
open Finset

variable {ι : Type} [DecidableEq ι]

/-- `I p A` = the probability that a distinguished candidate whose coin always shows heads is the one selected,
when the other candidates are `A` with head probabilities `p`. -/
noncomputable def I (p : ι → ℝ) : Finset ι → ℝ :=
  Finset.strongInduction (fun A ih =>
    (1 + ∑ i ∈ A.attach, (1 - p i.1) * ih (A.erase i.1) (Finset.erase_ssubset i.2)) / ((A.card : ℝ) + 1))

theorem I_eq (p : ι → ℝ) (A : Finset ι) :
    I p A = (1 + ∑ i ∈ A, (1 - p i) * I p (A.erase i)) / ((A.card : ℝ) + 1) := by
  unfold I
  rw [Finset.strongInduction_eq]
  congr 2
  exact Finset.sum_attach A (fun i => (1 - p i) * I p (A.erase i))

theorem I_nonneg (p : ι → ℝ) (hp : ∀ i, 0 ≤ p i ∧ p i ≤ 1) (A : Finset ι) : 0 ≤ I p A := by
  induction A using Finset.strongInduction with
  | H A ih =>
    rw [I_eq]
    apply div_nonneg
    · have : 0 ≤ ∑ i ∈ A, (1 - p i) * I p (A.erase i) :=
        Finset.sum_nonneg (fun i hi => mul_nonneg (by linarith [(hp i).2]) (ih _ (Finset.erase_ssubset hi)))
      linarith
    · positivity

theorem erase_erase_comm (A : Finset ι) (i r : ι) : (A.erase i).erase r = (A.erase r).erase i := by
  ext x; simp only [mem_erase]; tauto

/-- total selection probability among `A` -/
theorem T_eq (p : ι → ℝ) (A : Finset ι) :
    ∑ r ∈ A, p r * I p (A.erase r) = 1 - ∏ j ∈ A, (1 - p j) := by
  induction A using Finset.strongInduction with
  | H A ih =>
    rcases A.eq_empty_or_nonempty with rfl | hne
    · simp
    have hcard : (0 : ℝ) < A.card := by exact_mod_cast Finset.card_pos.mpr hne
    have h1 : ∀ r ∈ A, p r * I p (A.erase r)
        = (p r + ∑ i ∈ A.erase r, (1 - p i) * (p r * I p ((A.erase r).erase i))) / A.card := by
      intro r hr
      rw [I_eq p (A.erase r), Finset.card_erase_of_mem hr]
      have : ((A.card - 1 : ℕ) : ℝ) + 1 = A.card := by
        have : 1 ≤ A.card := Finset.card_pos.mpr hne
        push_cast [Nat.cast_sub this]; ring
      rw [this, mul_div_assoc', mul_add, mul_one, Finset.mul_sum]
      congr 2
      apply Finset.sum_congr rfl; intro i _; ring
    rw [Finset.sum_congr rfl h1, ← Finset.sum_div, Finset.sum_add_distrib]
    have hswap : ∑ r ∈ A, ∑ i ∈ A.erase r, (1 - p i) * (p r * I p ((A.erase r).erase i))
        = ∑ i ∈ A, (1 - p i) * ∑ r ∈ A.erase i, p r * I p ((A.erase i).erase r) := by
      rw [Finset.sum_comm' (t' := A) (s' := fun i => A.erase i)]
      · apply Finset.sum_congr rfl; intro i _
        rw [Finset.mul_sum]
        apply Finset.sum_congr rfl; intro r _
        rw [erase_erase_comm]
      · intro r i; simp only [mem_erase]; tauto
    rw [hswap]
    have h2 : ∀ i ∈ A, (1 - p i) * ∑ r ∈ A.erase i, p r * I p ((A.erase i).erase r)
        = (1 - p i) - ∏ j ∈ A, (1 - p j) := by
      intro i hi
      rw [ih _ (Finset.erase_ssubset hi), mul_sub, mul_one, Finset.mul_prod_erase A (fun j => 1 - p j) hi]
    rw [Finset.sum_congr rfl h2, Finset.sum_sub_distrib, Finset.sum_const, nsmul_eq_mul]
    have : ∑ r ∈ A, p r + (∑ i ∈ A, (1 - p i) - (A.card : ℝ) * ∏ j ∈ A, (1 - p j))
        = A.card * (1 - ∏ j ∈ A, (1 - p j)) := by
      rw [Finset.sum_sub_distrib]; simp; ring
    rw [this, mul_div_assoc, mul_comm, div_mul_cancel₀]
    exact ne_of_gt hcard

theorem T_le_one (p : ι → ℝ) (hp : ∀ i, 0 ≤ p i ∧ p i ≤ 1) (A : Finset ι) :
    ∑ r ∈ A, p r * I p (A.erase r) ≤ 1 := by
  rw [T_eq]
  have : 0 ≤ ∏ j ∈ A, (1 - p j) := Finset.prod_nonneg (fun j _ => by linarith [(hp j).2])
  linarith

theorem I_scale (p : ι → ℝ) (hp : ∀ i, 0 ≤ p i ∧ p i ≤ 1) (c : ℝ) (hc0 : 0 ≤ c) (hc1 : c ≤ 1)
    (A : Finset ι) : c * I (fun i => c * p i) A ≤ I p A := by
  induction A using Finset.strongInduction with
  | H A ih =>
    rw [I_eq p A, I_eq (fun i => c * p i) A, mul_div_assoc']
    have hpos : (0 : ℝ) < (A.card : ℝ) + 1 := by positivity
    apply div_le_div_of_nonneg_right _ hpos.le
    rw [mul_add, mul_one, Finset.mul_sum]
    have step : ∀ i ∈ A, c * ((1 - c * p i) * I (fun i => c * p i) (A.erase i))
        ≤ (1 - p i) * I p (A.erase i) + (1 - c) * (p i * I p (A.erase i)) := by
      intro i hi
      have h1 := ih _ (Finset.erase_ssubset hi)
      have h2 : 0 ≤ 1 - c * p i := by nlinarith [(hp i).1, (hp i).2]
      calc c * ((1 - c * p i) * I (fun i => c * p i) (A.erase i))
          = (1 - c * p i) * (c * I (fun i => c * p i) (A.erase i)) := by ring
        _ ≤ (1 - c * p i) * I p (A.erase i) := mul_le_mul_of_nonneg_left h1 h2
        _ = _ := by ring
    have hT := T_le_one p hp A
    calc c + ∑ i ∈ A, c * ((1 - c * p i) * I (fun i => c * p i) (A.erase i))
        ≤ c + ∑ i ∈ A, ((1 - p i) * I p (A.erase i) + (1 - c) * (p i * I p (A.erase i))) := by
          gcongr with i hi; exact step i hi
      _ = c + ∑ i ∈ A, (1 - p i) * I p (A.erase i) + (1 - c) * ∑ i ∈ A, p i * I p (A.erase i) := by
          rw [Finset.sum_add_distrib, Finset.mul_sum]; ring
      _ ≤ 1 + ∑ i ∈ A, (1 - p i) * I p (A.erase i) := by nlinarith

theorem I_anti (p q : ι → ℝ) (hp : ∀ i, 0 ≤ p i ∧ p i ≤ 1) (hq : ∀ i, 0 ≤ q i ∧ q i ≤ 1)
    (A : Finset ι) (h : ∀ i ∈ A, p i ≤ q i) : I q A ≤ I p A := by
  induction A using Finset.strongInduction with
  | H A ih =>
    rw [I_eq p A, I_eq q A]
    have hpos : (0 : ℝ) < (A.card : ℝ) + 1 := by positivity
    apply div_le_div_of_nonneg_right _ hpos.le
    gcongr with i hi
    · exact I_nonneg q hq _
    · linarith [(hp i).2]
    · linarith [h i hi]
    · exact ih _ (Finset.erase_ssubset hi) (fun j hj => h j (Finset.mem_of_mem_erase hj))

/-- selection law of permute-and-flip (closed recursion) -/
noncomputable def L (p : ι → ℝ) (S : Finset ι) (r : ι) : ℝ := p r * I p (S.erase r)

theorem L_nonneg (p : ι → ℝ) (hp : ∀ i, 0 ≤ p i ∧ p i ≤ 1) (S : Finset ι) (r : ι) : 0 ≤ L p S r :=
  mul_nonneg (hp r).1 (I_nonneg p hp _)

theorem pf_core (p p' : ι → ℝ) (hp : ∀ i, 0 ≤ p i ∧ p i ≤ 1) (hp' : ∀ i, 0 ≤ p' i ∧ p' i ≤ 1)
    (S : Finset ι) (r : ι) (c K : ℝ) (hc0 : 0 ≤ c) (hc1 : c ≤ 1) (hK : 0 ≤ K)
    (hr : p' r ≤ K * (c * p r)) (ho : ∀ j ∈ S.erase r, c * p j ≤ p' j) :
    L p' S r ≤ K * L p S r := by
  unfold L
  have hcp : ∀ i, 0 ≤ c * p i ∧ c * p i ≤ 1 := fun i =>
    ⟨mul_nonneg hc0 (hp i).1, by nlinarith [(hp i).1, (hp i).2]⟩
  have h1 : I p' (S.erase r) ≤ I (fun i => c * p i) (S.erase r) := I_anti _ _ hcp hp' _ ho
  have h2 := I_scale p hp c hc0 hc1 (S.erase r)
  have h0 := I_nonneg (fun i => c * p i) hcp (S.erase r)
  calc p' r * I p' (S.erase r) ≤ p' r * I (fun i => c * p i) (S.erase r) :=
        mul_le_mul_of_nonneg_left h1 (hp' r).1
    _ ≤ K * (c * p r) * I (fun i => c * p i) (S.erase r) := mul_le_mul_of_nonneg_right hr h0
    _ = K * p r * (c * I (fun i => c * p i) (S.erase r)) := by ring
    _ ≤ K * p r * I p (S.erase r) := mul_le_mul_of_nonneg_left h2 (mul_nonneg hK (hp r).1)
    _ = _ := by ring

end PAF

/-! ### the model's `pafLaw` is the closed recursion -/

theorem toFinset_erase_of_nodup (ids : List ℕ) (hnd : ids.Nodup) (i : ℕ) :
    (ids.erase i).toFinset = ids.toFinset.erase i := by
  ext x; simp [hnd.mem_erase_iff]

/-- the sampler's own branching recursion (`pafLaw`, on lists, with `lsum` and `List.erase`) equals the closed
recursion `L p S r = p r * I p (S.erase r)` on the set of remaining candidates -/
theorem pafLaw_eq_L (p : ℕ → ℝ) (ids : List ℕ) (hnd : ids.Nodup) (fuel : ℕ) (hf : ids.length ≤ fuel) (r : ℕ) :
    pafLaw p fuel ids r = if r ∈ ids then PAF.L p ids.toFinset r else 0 := by
  induction fuel generalizing ids with
  | zero =>
    have : ids = [] := List.eq_nil_of_length_eq_zero (Nat.le_zero.mp hf)
    subst this
    simp [pafLaw]
  | succ n ih =>
    cases hids : ids with
    | nil => simp [pafLaw]
    | cons a t =>
      rw [← hids]
      have hlen : ids.length = t.length + 1 := by rw [hids]; rfl
      have hunf : pafLaw p (n + 1) ids r
          = lsum (ids.map (fun i => (if i = r then p i else 0) + (1 - p i) * pafLaw p n (ids.erase i) r))
            / (ids.length : ℝ) := by
        rw [hids]; rfl
      rw [hunf, lsum_eq, ← List.sum_toFinset _ hnd]
      have hIH : ∀ i ∈ ids.toFinset, pafLaw p n (ids.erase i) r
          = if r ∈ ids.erase i then PAF.L p (ids.toFinset.erase i) r else 0 := by
        intro i hi
        have hi' : i ∈ ids := List.mem_toFinset.mp hi
        rw [ih (ids.erase i) (hnd.erase i) (by rw [List.length_erase_of_mem hi']; omega),
          toFinset_erase_of_nodup ids hnd i]
      have hcard : ids.toFinset.card = ids.length := List.toFinset_card_of_nodup hnd
      by_cases hr : r ∈ ids
      · rw [if_pos hr]
        have hrS : r ∈ ids.toFinset := List.mem_toFinset.mpr hr
        rw [← Finset.sum_erase_add _ _ hrS]
        have hterm_r : (if r = r then p r else 0) + (1 - p r) * pafLaw p n (ids.erase r) r = p r := by
          rw [hIH r hrS, if_neg hnd.not_mem_erase]; simp
        have hterm : ∀ i ∈ ids.toFinset.erase r,
            (if i = r then p i else 0) + (1 - p i) * pafLaw p n (ids.erase i) r
              = p r * ((1 - p i) * PAF.I p ((ids.toFinset.erase r).erase i)) := by
          intro i hi
          obtain ⟨hne, hiS⟩ := Finset.mem_erase.mp hi
          have hri : r ∈ ids.erase i := (hnd.mem_erase_iff).mpr ⟨fun h => hne h.symm, hr⟩
          rw [hIH i hiS, if_pos hri, if_neg hne, PAF.L, PAF.erase_erase_comm]
          ring
        rw [hterm_r, Finset.sum_congr rfl hterm, ← Finset.mul_sum, PAF.L, PAF.I_eq p (ids.toFinset.erase r),
          Finset.card_erase_of_mem hrS, hcard]
        have hc : ((ids.length - 1 : ℕ) : ℝ) + 1 = (ids.length : ℝ) := by
          have : 1 ≤ ids.length := by omega
          push_cast [Nat.cast_sub this]; ring
        rw [hc]
        ring
      · rw [if_neg hr]
        have hz : ∀ i ∈ ids.toFinset,
            (if i = r then p i else 0) + (1 - p i) * pafLaw p n (ids.erase i) r = 0 := by
          intro i hi
          have hi' : i ∈ ids := List.mem_toFinset.mp hi
          have hne : i ≠ r := fun h => hr (h ▸ hi')
          have hri : r ∉ ids.erase i := fun h => hr (List.mem_of_mem_erase h)
          rw [hIH i hi, if_neg hri, if_neg hne]; simp
        rw [Finset.sum_eq_zero hz, zero_div]

/-! ### the selection law as a list (`pafPmf`) -/

theorem pafPmf_getD (heads : List ℝ) (r : ℕ) :
    (pafPmf heads).getD r 0
      = if r < heads.length then PAF.L (fun i => heads.getD i 0) (Finset.range heads.length) r else 0 := by
  unfold pafPmf
  by_cases hr : r < heads.length
  · rw [if_pos hr, List.getD_eq_getElem _ _ (by simpa using hr)]
    simp only [List.getElem_map, List.getElem_range]
    rw [pafLaw_eq_L _ _ List.nodup_range _ (by simp), if_pos (List.mem_range.mpr hr), List.toFinset_range]
  · rw [if_neg hr, List.getD_eq_default _ _ (by simpa using hr)]

/-- the heads of the model's coins for a finite scale: `exp(scale * (u_i - max u))`, `0` out of range -/
theorem pafHeads_getD (scale : ℝ) (us : List ℝ) (i : ℕ) :
    (pafHeads (pafLogProbs (some scale) us)).getD i 0
      = if h : i < us.length then Real.exp (scale * (us[i] - pyMax us)) else 0 := by
  simp only [pafHeads, pafLogProbs, List.map_map]
  by_cases h : i < us.length
  · rw [dif_pos h, List.getD_eq_getElem _ _ (by simpa using h)]
    simp
  · rw [dif_neg h, List.getD_eq_default _ _ (by simpa using h)]

theorem pafHeads_length (scale : Option ℝ) (us : List ℝ) :
    (pafHeads (pafLogProbs scale us)).length = us.length := by
  cases scale <;> simp [pafHeads, pafLogProbs]

theorem pafHeads_range (scale : ℝ) (hs : 0 ≤ scale) (us : List ℝ) (i : ℕ) :
    0 ≤ (pafHeads (pafLogProbs (some scale) us)).getD i 0
      ∧ (pafHeads (pafLogProbs (some scale) us)).getD i 0 ≤ 1 := by
  rw [pafHeads_getD]
  by_cases h : i < us.length
  · rw [dif_pos h]
    refine ⟨(Real.exp_pos _).le, ?_⟩
    rw [← Real.exp_zero]
    apply Real.exp_le_exp.mpr
    have := pyMax_ge us us[i] (List.getElem_mem h)
    exact mul_nonpos_of_nonneg_of_nonpos hs (by linarith)
  · rw [dif_neg h]; exact ⟨le_refl _, zero_le_one⟩

/-! ### differential privacy -/

/-- core form: if every utility moves by an amount in `[lo, hi]` and `scale * (hi - lo) ≤ eps`, every selection
probability grows by at most `exp eps` -/
theorem paf_dp_core (scale lo hi eps : ℝ) (hs : 0 ≤ scale) (hse : scale * (hi - lo) ≤ eps)
    (us us' : List ℝ) (hlen : us.length = us'.length) (hne : us ≠ [])
    (h : ∀ i (h1 : i < us.length) (h2 : i < us'.length), lo ≤ us'[i] - us[i] ∧ us'[i] - us[i] ≤ hi) (r : ℕ) :
    (pafPmf (pafHeads (pafLogProbs (some scale) us'))).getD r 0
      ≤ Real.exp eps * (pafPmf (pafHeads (pafLogProbs (some scale) us))).getD r 0 := by
  rw [pafPmf_getD, pafPmf_getD, pafHeads_length, pafHeads_length, ← hlen]
  by_cases hr : r < us.length
  swap
  · rw [if_neg hr, if_neg hr, mul_zero]
  rw [if_pos hr, if_pos hr]
  set p := fun i => (pafHeads (pafLogProbs (some scale) us)).getD i 0 with hpdef
  set p' := fun i => (pafHeads (pafLogProbs (some scale) us')).getD i 0 with hp'def
  have hp : ∀ i, 0 ≤ p i ∧ p i ≤ 1 := fun i => pafHeads_range scale hs us i
  have hp' : ∀ i, 0 ≤ p' i ∧ p' i ≤ 1 := fun i => pafHeads_range scale hs us' i
  obtain ⟨ha1, ha2⟩ := pyMax_shift us us' hlen hne lo hi h
  set a := pyMax us' - pyMax us with hadef
  have hc1 : Real.exp (scale * (lo - a)) ≤ 1 := by
    rw [← Real.exp_zero]
    exact Real.exp_le_exp.mpr (mul_nonpos_of_nonneg_of_nonpos hs (by linarith))
  have hpi : ∀ i (h1 : i < us.length), p i = Real.exp (scale * (us[i] - pyMax us)) := by
    intro i h1; simp only [hpdef, pafHeads_getD, dif_pos h1]
  have hp'i : ∀ i (h1 : i < us'.length), p' i = Real.exp (scale * (us'[i] - pyMax us')) := by
    intro i h1; simp only [hp'def, pafHeads_getD, dif_pos h1]
  have hcore := PAF.pf_core p p' hp hp' (Finset.range us.length) r
    (Real.exp (scale * (lo - a))) (Real.exp (scale * (hi - lo))) (Real.exp_pos _).le hc1 (Real.exp_pos _).le
    (by
      have hr' : r < us'.length := hlen ▸ hr
      rw [hpi r hr, hp'i r hr', ← Real.exp_add, ← Real.exp_add]
      apply Real.exp_le_exp.mpr
      have := (h r hr hr').2
      have : scale * (us'[r] - us[r]) ≤ scale * hi := mul_le_mul_of_nonneg_left this hs
      rw [hadef]; nlinarith)
    (by
      intro j _
      by_cases hj : j < us.length
      · have hj' : j < us'.length := hlen ▸ hj
        rw [hpi j hj, hp'i j hj', ← Real.exp_add]
        apply Real.exp_le_exp.mpr
        have := (h j hj hj').1
        have : scale * lo ≤ scale * (us'[j] - us[j]) := mul_le_mul_of_nonneg_left this hs
        rw [hadef]; nlinarith
      · have h1 : p j = 0 := by simp only [hpdef, pafHeads_getD, dif_neg hj]
        have h2 : p' j = 0 := by simp only [hp'def, pafHeads_getD, dif_neg (hlen ▸ hj)]
        rw [h1, h2, mul_zero])
  refine le_trans hcore ?_
  exact mul_le_mul_of_nonneg_right (Real.exp_le_exp.mpr hse) (PAF.L_nonneg p hp _ _)

/-- `PermuteAndFlip` (non-monotonic utility): `ε`-DP for neighbouring utility vectors with
`|u_i - u'_i| ≤ sensitivity` -/
theorem paf_dp (eps sens : ℝ) (heps : 0 < eps) (hsens : 0 < sens) (us us' : List ℝ)
    (hlen : us.length = us'.length) (hne : us ≠ [])
    (hnb : ∀ i (h1 : i < us.length) (h2 : i < us'.length), |us[i] - us'[i]| ≤ sens) (r : ℕ) :
    (pafPmf (pafHeads (pafLogProbs (expScale eps sens false) us))).getD r 0
      ≤ Real.exp eps * (pafPmf (pafHeads (pafLogProbs (expScale eps sens false) us'))).getD r 0 := by
  have hsc : expScale eps sens false = some (eps / sens / 2) := by
    simp [expScale, div_pos hsens heps]
  rw [hsc]
  have hne' : us' ≠ [] := by
    intro h0; apply hne; apply List.eq_nil_of_length_eq_zero; rw [hlen, h0]; rfl
  refine paf_dp_core (eps / sens / 2) (-sens) sens eps (by positivity) ?_ us' us hlen.symm hne' ?_ r
  · have : eps / sens / 2 * (sens - -sens) = eps := by field_simp; ring
    rw [this]
  · intro i h1 h2
    have := abs_le.mp (hnb i h2 h1)
    exact ⟨this.1, this.2⟩

/-- `PermuteAndFlip` with `monotonic=True`: `ε`-DP (both directions) for neighbouring utility vectors that move in one
direction by at most the sensitivity -/
theorem paf_dp_monotonic (eps sens : ℝ) (heps : 0 < eps) (hsens : 0 < sens) (us us' : List ℝ)
    (hlen : us.length = us'.length) (hne : us ≠ [])
    (hnb : ∀ i (h1 : i < us.length) (h2 : i < us'.length), us[i] ≤ us'[i] ∧ us'[i] ≤ us[i] + sens) (r : ℕ) :
    (pafPmf (pafHeads (pafLogProbs (expScale eps sens true) us))).getD r 0
        ≤ Real.exp eps * (pafPmf (pafHeads (pafLogProbs (expScale eps sens true) us'))).getD r 0
      ∧ (pafPmf (pafHeads (pafLogProbs (expScale eps sens true) us'))).getD r 0
        ≤ Real.exp eps * (pafPmf (pafHeads (pafLogProbs (expScale eps sens true) us))).getD r 0 := by
  have hsc : expScale eps sens true = some (eps / sens) := by
    simp [expScale, div_pos hsens heps]
  rw [hsc]
  have hne' : us' ≠ [] := by
    intro h0; apply hne; apply List.eq_nil_of_length_eq_zero; rw [hlen, h0]; rfl
  have hpos : 0 ≤ eps / sens := by positivity
  constructor
  · refine paf_dp_core (eps / sens) (-sens) 0 eps hpos ?_ us' us hlen.symm hne' ?_ r
    · have : eps / sens * (0 - -sens) = eps := by
        rw [sub_neg_eq_add, zero_add, div_mul_cancel₀ _ hsens.ne']
      rw [this]
    · intro i h1 h2
      have := hnb i h2 h1
      constructor <;> linarith [this.1, this.2]
  · refine paf_dp_core (eps / sens) 0 sens eps hpos ?_ us us' hlen hne ?_ r
    · have : eps / sens * (sens - 0) = eps := by rw [sub_zero, div_mul_cancel₀ _ hsens.ne']
      rw [this]
    · intro i h1 h2
      have := hnb i h1 h2
      constructor <;> linarith [this.1, this.2]

/-- the hypotheses of `paf_dp` are satisfiable (non-vacuity) -/
example (r : ℕ) :
    (pafPmf (pafHeads (pafLogProbs (expScale (1 : ℝ) 1 false) [0, 1]))).getD r 0
      ≤ Real.exp 1 * (pafPmf (pafHeads (pafLogProbs (expScale (1 : ℝ) 1 false) [1, 1]))).getD r 0 := by
  refine paf_dp 1 1 one_pos one_pos [0, 1] [1, 1] rfl (by simp) ?_ r
  intro i h1 h2
  have h3 : i < 2 := h1
  obtain rfl | rfl : i = 0 ∨ i = 1 := by omega
  · simp
  · simp

/-! ### total mass -/

/-- the total mass of the selection law: `1 - ∏ (1 - p_i)` (the run ends without a selection when every coin shows
tails) -/
theorem pafPmf_sum (heads : List ℝ) :
    lsum (pafPmf heads) = 1 - ∏ i ∈ Finset.range heads.length, (1 - heads.getD i 0) := by
  rw [← PAF.T_eq, lsum_eq]
  unfold pafPmf
  simp only
  rw [← List.sum_toFinset _ List.nodup_range, List.toFinset_range]
  apply Finset.sum_congr rfl
  intro r hr
  rw [pafLaw_eq_L _ _ List.nodup_range _ (by simp), if_pos (List.mem_range.mpr (Finset.mem_range.mp hr)),
    List.toFinset_range, PAF.L]

theorem pafPmf_sum_le_one (heads : List ℝ) (hp : ∀ i, 0 ≤ heads.getD i 0 ∧ heads.getD i 0 ≤ 1) :
    lsum (pafPmf heads) ≤ 1 := by
  rw [pafPmf_sum]
  have : 0 ≤ ∏ i ∈ Finset.range heads.length, (1 - heads.getD i 0) :=
    Finset.prod_nonneg (fun j _ => by linarith [(hp j).2])
  linarith

end DPL.Discrete
