/-
C04 — the interpreter of `DPL/Model/AccountantIR.lean` run on the hand copies of the bodies of `check`, `spend` and the
`slack` setter IS the model's `Acc.step` (any carrier).  The proof scripts are exported as macros so that
`DPL/Generated/C04Methods.lean` can run THE SAME scripts on the bodies re-read from the source.  Core Lean only.
-/
import DPL.Model.AccountantIR
namespace DPL
namespace AccIR

section
variable {α : Type} [OfNat α 0] [OfNat α 1] [OfNat α 2] [Add α] [Sub α] [Mul α] [Div α] [Neg α]
  [LT α] [LE α] [DecidableLT α] [DecidableLE α] [NatCast α] [Transc α] [HasInf α]

/-- what it means for a body of `check` to be the model's -/
def CheckOk (p : Prog) : Prop :=
  ∀ {α : Type} [OfNat α 0] [OfNat α 1] [OfNat α 2] [Add α] [Sub α] [Mul α] [Div α] [Neg α]
    [LT α] [LE α] [DecidableLT α] [DecidableLE α] [NatCast α] [Transc α] [HasInf α] (a : Acc α) (e d : α),
    execCheck p a e d = a.step (.check e d)

/-- … for a body of `spend`, given `check`'s body -/
def SpendOk (c p : Prog) : Prop :=
  ∀ {α : Type} [OfNat α 0] [OfNat α 1] [OfNat α 2] [Add α] [Sub α] [Mul α] [Div α] [Neg α]
    [LT α] [LE α] [DecidableLT α] [DecidableLE α] [NatCast α] [Transc α] [HasInf α] (a : Acc α) (e d : α),
    execSpend c p a e d = a.step (.spend e d)

/-- … for a body of the `slack` setter -/
def SetSlackOk (p : Prog) : Prop :=
  ∀ {α : Type} [OfNat α 0] [OfNat α 1] [OfNat α 2] [Add α] [Sub α] [Mul α] [Div α] [Neg α]
    [LT α] [LE α] [DecidableLT α] [DecidableLE α] [NatCast α] [Transc α] [HasInf α] (a : Acc α) (s : α),
    execSetSlack p a s = a.step (.setSlack s)

end

/-- unfold the interpreter and the model side by side on a concrete body -/
macro "acc_ir_unfold" : tactic =>
  `(tactic| simp only [execCheck, execSpend, execSetSlack, exec, evalC, evalA, evalSpent, evalSlack, totalOf, noCheck,
      Option.map, Acc.step, Acc.check, Acc.spend, Acc.setSlack, Acc.unlimited, Res.ofExcept,
      bind, Except.bind, pure, Except.pure, throw, throwThe, MonadExceptOf.throw])

/-- script for `check`: unfold, then decide every guard both sides look at -/
macro "acc_ir_check" : tactic =>
  `(tactic| (
    intro α _ _ _ _ _ _ _ _ _ _ _ _ _ _ _ a e d
    acc_ir_unfold
    grind (splits := 40)))

theorem handCheck_ok : CheckOk handCheck := by
  unfold handCheck; acc_ir_check

/-- script for `spend`, given that `check`'s body is the model's `check` -/
macro "acc_ir_spend" h:term : tactic =>
  `(tactic| (
    intro α _ _ _ _ _ _ _ _ _ _ _ _ _ _ _ a e d
    have hc : ∀ (b : Acc α) (x y : α), execCheck _ b x y = b.step (.check x y) := fun b x y => $h b x y
    simp only [execSpend, exec, evalA, hc]
    acc_ir_unfold
    grind (splits := 40)))

theorem handSpend_ok : SpendOk handCheck handSpend := by
  unfold handSpend; acc_ir_spend handCheck_ok

/-- script for the `slack` setter -/
macro "acc_ir_setslack" : tactic =>
  `(tactic| (
    intro α _ _ _ _ _ _ _ _ _ _ _ _ _ _ _ a s
    acc_ir_unfold
    grind (splits := 40)))

theorem handSetSlack_ok : SetSlackOk handSetSlack := by
  unfold handSetSlack; acc_ir_setslack

end AccIR
end DPL
