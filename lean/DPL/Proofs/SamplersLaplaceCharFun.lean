/-
Characteristic function of the Laplace law of C02 (`DPL.Cont.lapMeasure b x`, density `e^{-|y-x|/b}/(2b)`):

  E[e^{itY}] = e^{itx} / (1 + b²t²)        (b > 0)
-/
import DPL.Proofs.ContinuousDP
import Mathlib.Analysis.SpecialFunctions.ImproperIntegrals
import Mathlib.MeasureTheory.Measure.CharacteristicFunction.Basic
import Mathlib.MeasureTheory.Integral.Bochner.ContinuousLinearMap

namespace DPL.Smp
open MeasureTheory Set Real DPL.Cont

instance lapMeasure_finite (b x : ℝ) [hb : Fact (0 < b)] : IsFiniteMeasure (lapMeasure b x) :=
  ⟨by rw [lapMeasure_univ b x hb.out]; exact ENNReal.one_lt_top⟩

theorem lapMeasure_prob (b x : ℝ) (hb : 0 < b) : IsProbabilityMeasure (lapMeasure b x) :=
  ⟨lapMeasure_univ b x hb⟩

/-- the centred kernel: `∫ e^{-|z|/b}/(2b) · e^{itz} dz = 1/(1+b²t²)` -/
theorem integral_lap_kernel (b t : ℝ) (hb : 0 < b) :
    ∫ z : ℝ, ((Real.exp (-|z| / b) / (2 * b) : ℝ) : ℂ) * Complex.exp (t * z * Complex.I)
      = 1 / (1 + (b : ℂ) ^ 2 * (t : ℂ) ^ 2) := by
  have hbC : (b : ℂ) ≠ 0 := Complex.ofReal_ne_zero.mpr hb.ne'
  set ap : ℂ := -(1 / (b : ℂ)) + t * Complex.I with hap
  set am : ℂ := (1 / (b : ℂ)) + t * Complex.I with ham
  have hapre : ap.re < 0 := by
    have : ap.re = -(1 / b) := by simp [hap]
    rw [this]; have : 0 < 1 / b := by positivity
    linarith
  have hamre : 0 < am.re := by
    have : am.re = 1 / b := by simp [ham]
    rw [this]; positivity
  have hapne : ap ≠ 0 := fun h => by rw [h] at hapre; simp at hapre
  have hamne : am ≠ 0 := fun h => by rw [h] at hamre; simp at hamre
  -- the two halves
  have hR : EqOn (fun z : ℝ => ((Real.exp (-|z| / b) / (2 * b) : ℝ) : ℂ) * Complex.exp (t * z * Complex.I))
      (fun z : ℝ => (1 / (2 * (b : ℂ))) * Complex.exp (ap * z)) (Ioi 0) := by
    intro z hz
    have hz' : (0 : ℝ) < z := hz
    simp only
    rw [abs_of_pos hz']
    push_cast
    rw [show ap * (z : ℂ) = -(z : ℂ) / b + t * z * Complex.I from by rw [hap]; field_simp, Complex.exp_add]
    ring
  have hL : EqOn (fun z : ℝ => ((Real.exp (-|z| / b) / (2 * b) : ℝ) : ℂ) * Complex.exp (t * z * Complex.I))
      (fun z : ℝ => (1 / (2 * (b : ℂ))) * Complex.exp (am * z)) (Iic 0) := by
    intro z hz
    have hz' : z ≤ 0 := hz
    simp only
    rw [abs_of_nonpos hz']
    push_cast
    rw [show am * (z : ℂ) = - -(z : ℂ) / b + t * z * Complex.I from by rw [ham]; field_simp, Complex.exp_add]
    ring
  have hiR : IntegrableOn (fun z : ℝ => ((Real.exp (-|z| / b) / (2 * b) : ℝ) : ℂ) * Complex.exp (t * z * Complex.I))
      (Ioi 0) :=
    IntegrableOn.congr_fun (Integrable.const_mul (integrableOn_exp_mul_complex_Ioi hapre 0) (1 / (2 * (b : ℂ))))
      hR.symm measurableSet_Ioi
  have hiL : IntegrableOn (fun z : ℝ => ((Real.exp (-|z| / b) / (2 * b) : ℝ) : ℂ) * Complex.exp (t * z * Complex.I))
      (Iic 0) :=
    IntegrableOn.congr_fun (Integrable.const_mul (integrableOn_exp_mul_complex_Iic hamre 0) (1 / (2 * (b : ℂ))))
      hL.symm measurableSet_Iic
  rw [← intervalIntegral.integral_Iic_add_Ioi hiL hiR, setIntegral_congr_fun measurableSet_Iic hL,
    setIntegral_congr_fun measurableSet_Ioi hR, integral_const_mul, integral_const_mul,
    integral_exp_mul_complex_Ioi hapre, integral_exp_mul_complex_Iic hamre]
  simp only [Complex.ofReal_zero, mul_zero, Complex.exp_zero]
  have hden : (1 : ℂ) + (b : ℂ) ^ 2 * (t : ℂ) ^ 2 ≠ 0 := by
    have : ((1 + b ^ 2 * t ^ 2 : ℝ) : ℂ) ≠ 0 := Complex.ofReal_ne_zero.mpr (by positivity)
    simpa using this
  have h1 : (1 : ℂ) + b * t * Complex.I ≠ 0 := by
    intro h; have := congrArg Complex.re h; simp at this
  have h2 : (-1 : ℂ) + b * t * Complex.I ≠ 0 := by
    intro h; have := congrArg Complex.re h; simp at this
  have ham' : am = (1 + b * t * Complex.I) / b := by rw [ham]; field_simp
  have hap' : ap = (-1 + b * t * Complex.I) / b := by rw [hap]; field_simp
  rw [hap', ham']
  field_simp
  ring_nf
  rw [Complex.I_sq]
  ring

/-- `E[e^{itY}] = e^{itx}/(1+b²t²)` for `Y ~ Laplace(x, b)` -/
theorem charFun_lapMeasure (b x t : ℝ) (hb : 0 < b) :
    charFun (lapMeasure b x) t = Complex.exp (t * x * Complex.I) / (1 + (b : ℂ) ^ 2 * (t : ℂ) ^ 2) := by
  rw [charFun_apply_real]
  unfold lapMeasure
  rw [integral_withDensity_eq_integral_toReal_smul
    ((measurable_lapDensity b x).ennreal_ofReal) (Filter.Eventually.of_forall fun _ => ENNReal.ofReal_lt_top)]
  have h1 : ∀ y : ℝ, (ENNReal.ofReal (lapDensity b x y)).toReal • Complex.exp (t * y * Complex.I)
      = (fun z : ℝ => Complex.exp (t * x * Complex.I) *
          (((Real.exp (-|z| / b) / (2 * b) : ℝ) : ℂ) * Complex.exp (t * z * Complex.I))) (y - x) := by
    intro y
    rw [ENNReal.toReal_ofReal (lapDensity_nonneg b x y hb), Complex.real_smul]
    simp only [lapDensity]
    rw [mul_left_comm, ← Complex.exp_add]
    congr 2
    push_cast; ring
  simp_rw [h1]
  rw [integral_sub_right_eq_self (μ := volume)
    (fun z : ℝ => Complex.exp (t * x * Complex.I) *
      (((Real.exp (-|z| / b) / (2 * b) : ℝ) : ℂ) * Complex.exp (t * z * Complex.I))) x,
    integral_const_mul, integral_lap_kernel b t hb]
  ring

end DPL.Smp
